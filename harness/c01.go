package main

// C01 - evaluation agrees with the reference semantics (spec/GrolSem.tla, Sem_Trace.tla).

import (
	"fmt"
	"math/rand"
	"regexp"
	"sort"
	"strings"
	"time"
)

func init() {
	props["C01"] = propDef{check: checkC01, replay: replayC01,
		rule: "case = one generated program (AST from the spec-side grammar, rendered with minimal parentheses) run on the real interpreter and validated against GrolSem by TLC; distinct by source text; non-trivial when it uses at least 3 distinct language features beyond literals and println"}
}

// knownC01 returns the features not generated because they are listed as known findings.
func genOffFromLedger(c *Ctx) map[string]bool {
	off := map[string]bool{}
	for _, f := range c.ledger {
		if f.Status == "known" && strings.HasPrefix(f.ID, "gen:") {
			off[strings.TrimPrefix(f.ID, "gen:")] = true
		}
	}
	return off
}

func c01Signature(cs semCase, v semVerdict) string {
	if v.V == "panic" {
		return "panic:" + cs.Obs.PanicAt + ":" + firstWords(cs.Obs.PanicMsg, 4)
	}
	return "sem-" + v.V
}

func firstWords(s string, n int) string {
	f := strings.Fields(s)
	if len(f) > n {
		f = f[:n]
	}
	return strings.Join(f, "_")
}

func featureKey(used map[string]bool) []string {
	var fs []string
	for f := range used {
		fs = append(fs, f)
	}
	sort.Strings(fs)
	return fs
}

func checkC01(c *Ctx) {
	off := genOffFromLedger(c)
	c.Cov("excluded_features", featureKey(off))
	n := c.Pick(1500, 40000)
	var cases []semCase
	extended := map[int]bool{} // programs of the extended fragment (library calls): deviations are reported, not verdicts
	featCount := map[string]int{}
	for i := 0; i < n; i++ {
		g := NewGen(rand.New(rand.NewSource(c.Seed*1000003 + int64(i))))
		for f := range off {
			g.Off[f] = true
		}
		prog := g.Program(3 + g.pick(8))
		src := renderProgram(prog)
		o := runSource(src, RunOpt{})
		if o.ParseErr {
			c.Fail("generated-program-does-not-parse", o.ErrMsg, map[string]any{"check": "random", "src": src})
			continue
		}
		for f := range g.Used {
			featCount[f]++
		}
		cases = append(cases, semCase{ID: i, Src: src, Prog: prog, Obs: o, Meta: map[string]any{"features": featureKey(g.Used)}})
		c.Case(src, len(g.Used) >= 3)
	}
	c.Cov("feature_counts", featCount)
	// extended fragment (not part of C01's statement, which is about the core language): programs that also call the modelled
	// library (GrolSem ExtSigs: int, round, floor, ceil, trunc, sqrt, min, max, split, join, runes, rune_len, trim*, abs, keys).
	// Disagreements there are reported as EXTENDED-DEVIATION lines and in the evidence, never as a C01 violation.
	nLib := c.Pick(500, 15000)
	libFeat := map[string]int{}
	for i := 0; i < nLib; i++ {
		g := NewGen(rand.New(rand.NewSource(c.Seed*1000033 + int64(i))))
		for f := range off {
			g.Off[f] = true
		}
		g.PLib = 25
		prog := g.Program(3 + g.pick(6))
		if !g.Used["lib"] {
			continue
		}
		src := renderProgram(prog)
		o := runSource(src, RunOpt{})
		if o.ParseErr {
			continue
		}
		for f := range g.Used {
			if strings.HasPrefix(f, "lib-") {
				libFeat[f]++
			}
		}
		id := 10000000 + i
		extended[id] = true
		cases = append(cases, semCase{ID: id, Src: src, Prog: prog, Obs: o, Meta: map[string]any{"features": featureKey(g.Used)}})
	}
	for i, src := range libProbes {
		tree, errs := parseFile(src)
		if len(errs) > 0 {
			c.Infra(fmt.Errorf("library probe does not parse: %s", src))
			return
		}
		prog := dumpStmts(tree)
		id := 20000000 + i
		extended[id] = true
		cases = append(cases, semCase{ID: id, Src: src, Prog: prog, Obs: runSource(src, RunOpt{}), Meta: map[string]any{"features": []string{"lib-probe"}}})
	}
	c.Cov("extended_fragment_library_calls", libFeat)
	// exhaustive small-scope sets (seed independent; quick samples them by a seed-dependent stride)
	small := c01SmallCases(c.Thorough())
	stride := 1
	if !c.Thorough() {
		stride = 4
	}
	groups := map[string]int{}
	guardOutcomes := 0
	for i, sc := range small {
		if sc.Group != "template" && sc.Group != "interaction" && (i+int(c.Seed))%stride != 0 {
			continue
		}
		src, prog := sc.Src, sc.Prog
		if sc.Group == "interaction" && reOutsideSem.MatchString(src) {
			continue // quote / unquote / macro: not part of the reference evaluator (C13's subject); these programs serve C04/C05/C07
		}
		if src == "" {
			src = renderProgram(prog)
		}
		var o Obs
		if prog == nil {
			tree, errs := parseFile(src)
			if len(errs) > 0 {
				c.Fail("template-does-not-parse", strings.Join(errs, ";"), map[string]any{"check": "small", "src": src})
				continue
			}
			prog = dumpStmts(tree)
		}
		o = runSource(src, RunOpt{Timeout: 2 * time.Second})
		if o.ParseErr {
			c.Fail("generated-program-does-not-parse", o.ErrMsg, map[string]any{"check": "small", "src": src})
			continue
		}
		if strings.Contains(o.ErrMsg, "deadline exceeded") || len(o.Out) > 200000 {
			guardOutcomes++ // ended by the deadline (e.g. `for x = true {..}`): a resource-guard outcome, not counted (C09's subject)
			continue
		}
		groups[sc.Group]++
		if reLibCall.MatchString(src) {
			extended[n+i] = true // calls the library: outside C01's statement (core language), reported as extended-fragment deviation only
		}
		cases = append(cases, semCase{ID: n + i, Src: src, Prog: prog, Obs: o, Meta: map[string]any{"features": []string{sc.Group}}})
		c.Case(src, true)
	}
	c.Cov("small_scope_groups", groups)
	c.Cov("guard_outcomes_not_counted", guardOutcomes)
	c.Cov("exhaustive", c.Thorough())
	vs, err := semValidate(c, cases, 30000, c.Pick(4, 8), 2)
	if err != nil {
		c.Infra(err)
		return
	}
	fuel := 0
	extN, extBad := 0, []map[string]any{}
	for _, cs := range cases {
		v, ok := vs[cs.ID]
		if !ok {
			c.Infra(fmt.Errorf("no verdict for program %d", cs.ID))
			return
		}
		if extended[cs.ID] {
			extN++
			if v.V != "ok" && v.V != "fuel" {
				fmt.Printf("EXTENDED-DEVIATION (library fragment, outside C01's statement) %s: %q real out=%q val=%s err=%v; reference out=%q val=%q err=%v\n",
					v.V, cs.Src, cs.Obs.Out, jstr(cs.Obs.Val), cs.Obs.Err, v.PredOut(), v.PredVal(), v.Err)
				if len(extBad) < 20 {
					extBad = append(extBad, map[string]any{"src": cs.Src, "verdict": v.V})
				}
			}
			continue
		}
		switch v.V {
		case "ok":
			c.AddTraces(1)
			if cs.ID%400 == 0 {
				c.Sample(map[string]any{"src": cs.Src, "out": cs.Obs.Out, "val": cs.Obs.Val, "err": cs.Obs.Err})
			}
		case "fuel":
			fuel++
		default:
			c.Fail(c01Signature(cs, v), fmt.Sprintf("%s: real out=%q val=%s err=%v(%s) panic=%q; reference out=%q val=%q err=%v",
				v.V, cs.Obs.Out, jstr(cs.Obs.Val), cs.Obs.Err, cs.Obs.ErrMsg, cs.Obs.PanicMsg, v.PredOut(), v.PredVal(), v.Err),
				map[string]any{"check": "random", "src": cs.Src, "prog": cs.Prog, "features": cs.Meta["features"]})
		}
	}
	c.Cov("fuel_exhausted_not_counted", fuel)
	c.Cov("extended_fragment", map[string]any{"programs": extN, "deviations": extBad})
}

// a call to an extension function or to a grol-defined function of the root environment
var reLibCall = regexp.MustCompile(`\b(sqrt|floor|ceil|trunc|round|runes|rune_len|split|join|trim|trim_left|trim_right|min|max|int|abs|keys|type|sprintf|printf|str|json|eval|format)\(`)

var reOutsideSem = regexp.MustCompile(`\b(quote|unquote|macro)\(|ERRTEXT`)

func replayC01(rp map[string]any) (bool, string) {
	src, _ := rp["src"].(string)
	prog, _ := rp["prog"].([]any)
	if prog == nil {
		p, errs := parseFile(src)
		if len(errs) > 0 {
			return false, "does not parse: " + strings.Join(errs, ";")
		}
		prog = dumpStmts(p)
	}
	c := NewCtx("C01", "quick")
	o := runSource(src, RunOpt{})
	vs, err := semValidate(c, []semCase{{ID: 0, Src: src, Prog: prog, Obs: o}}, 100000, 1, 1)
	if err != nil {
		return false, "infrastructure: " + err.Error()
	}
	v := vs[0]
	if v.V == "ok" || v.V == "fuel" {
		return true, ""
	}
	return false, fmt.Sprintf("%s: real out=%q val=%s err=%v panic=%q; reference out=%q val=%q err=%v", v.V, o.Out, jstr(o.Val), o.Err, o.PanicMsg, v.PredOut(), v.PredVal(), v.Err)
}
