package main

// C12 - ordering and equality are coherent and total (spec/GrolOrder.tla, spec/OrderLaws.tla).
//
// 1. export run (TLC, Mode = "export"): the spec's OrderUniverse and the complete relation table
//    that the documented order GrolOrder!Cmp produces on it.
// 2. every value is built twice on the real code - as a Go object (object.Integer, Float, String,
//    NewArray, NewMapSize+Set, functions evaluated from source) and as grol source bound to a
//    variable of ONE persistent eval.State (one goroutine) - and the whole relation table is
//    recorded under recover(): object.Cmp, object.Equals, Map.Set+Get on the objects; < <= > >= ==
//    != {a:1}[b] from source through repl.EvalOne at top level and inside functions (parameters =
//    registers for integers: register/register, register/plain, plain/register; an operand that
//    lives in the frame of another call: a variable of an enclosing closure call / of a caller two
//    recursion levels up, which the call in between has read before); min, max; the value against an
//    independently built copy and the constructed object against the value of its source text; one
//    map holding every value as key (sized for them / grown from the empty map).  Seeded random
//    universes follow as further batches.
//    Values have a history (tags `how`, `ep`, see OrderLaws.tla): a container may be built as a
//    "was larger, shrank" twin (map with 5 more entries deleted again / NewMapSize for more pairs
//    than keys / literal with repeated keys / grown from the empty map one assignment at a time /
//    the sum of two maps; array as a slice of a longer one / grown by appending), a number may be
//    written in another notation (2^63 as the digits 9223372036854775808, hex, exponent, grouped
//    digits, -9223372036854775808), and the values of a
//    universe may be made in several epochs of the session, separated by events (a top level
//    function redefined, a constant deleted and rebound, many functions defined and redefined, each
//    followed by a call).  OrderLaws!HistoryUniverse is such a session; half of the random
//    universes are, too.  The table is recorded after the last epoch: old against new values.
//    A text denotes one value (round 6): the source text of every value is read again - in a later input,
//    twice in one input, through eval, in another interpreter state, after the table was recorded - and each
//    reading is compared with the first one of the session (laws reread_equal / reread_equivalent); the pair
//    observations of (x, x) and (x, next of x) are asked again at the end (answers_repeat).  What a text
//    evaluates to the first time a process reads it calibrates the harness's notation (exit 2 on a mismatch
//    then); a later difference is an observation.  Sums of maps have operands of their own (`cut`,
//    OrderLaws!Sum / Seams): every kind of overlap at the boundary between the operands.
// 3. table run (TLC, Mode = "table"): the laws over all pairs and triples of every batch - batch 1
//    is the model's own table (MC of the documented order, must be clean), then the recorded ones.
//    TLC names every broken law instance; each is re-evaluated on the real code (c12ReplayInstance)
//    (in this process, then the universe of its batch, then in a process of its own; broken nowhere again = the
//    same input with two outcomes = a violation "-not-repeatable")
//    and becomes c.Fail with a narrow signature <feature of the values>-<law family>.  Entries that
//    differ from GrolOrder are evidence (`model_disagreement`), never a violation.
// 4. binding self-test: a table with one corrupted entry (the last batch of the table run, src =
//    "selftest") must be reported as broken.
//
// Debugging aid: C12_DUMP=<file> keeps the recorded tables (the input of the table run).

import (
	"bytes"
	"context"
	"encoding/json"
	"fmt"
	"io"
	"math"
	"math/rand"
	"os"
	"os/exec"
	"path/filepath"
	"sort"
	"strconv"
	"strings"
	"sync"
	"syscall"
	"time"

	"grol.io/grol/eval"
	"grol.io/grol/extensions"
	"grol.io/grol/object"
	"grol.io/grol/repl"
)

func init() {
	props["C12"] = propDef{check: checkC12, replay: replayC12,
		rule: "case = all observations for one ordered pair (x, y) of a universe on the real code (object.Cmp, object.Equals, map lookup, < <= > >= == != {x:1}[y] at top level and inside a function, min, max), each pair record then checked by TLC (pair laws at (x,y), triple laws for every z); distinct by the pair of values; non-trivial when x and y are structurally different values"}
}

func init() {
	// one law instance re-evaluated in a process of its own (nothing has been read or compared there before):
	// `vh worker c12inst <file>` reads {law, info, values, x, y, z} and prints {"holds": .., "msg": ..}
	workers["c12inst"] = func(args []string) {
		out := map[string]any{"holds": false, "msg": "usage: worker c12inst <file>"}
		if len(args) == 1 {
			if b, err := os.ReadFile(args[0]); err != nil {
				out["msg"] = err.Error()
			} else {
				var rp map[string]any
				if err := json.Unmarshal(b, &rp); err != nil {
					out["msg"] = err.Error()
				} else {
					delete(rp, "fresh_process")
					out["holds"], out["msg"] = replayC12(rp)
				}
			}
		}
		_ = json.NewEncoder(os.Stdout).Encode(out)
	}
}

// c12ReadInFreshProcess: what the source text evaluates to (canon of the abstract value) when it is the first thing a
// process of its own reads - the calibration of a text this process meets for the first time as a whole while
// its literals have been read before in other texts.
func c12ReadInFreshProcess(text string) (string, error) {
	exe, err := os.Executable()
	if err != nil {
		return "", err
	}
	ctx, cancel := context.WithTimeout(context.Background(), 2*time.Minute)
	defer cancel()
	cmd := exec.CommandContext(ctx, exe, "worker", "c12read")
	cmd.Stdin = strings.NewReader(text)
	cmd.Dir = os.TempDir()
	out, err := cmd.Output()
	if err != nil {
		return "", fmt.Errorf("c12read child: %w", err)
	}
	lines := strings.Split(strings.TrimSpace(string(out)), "\n")
	last := lines[len(lines)-1]
	if !strings.HasPrefix(last, "CANON ") {
		return "", fmt.Errorf("c12read child said %q", out)
	}
	return strings.TrimPrefix(last, "CANON "), nil
}

func init() {
	workers["c12read"] = func([]string) {
		text, _ := io.ReadAll(os.Stdin)
		z := c12NewSess()
		if st, msg := z.run("zqv1 = " + string(text)); st != 0 {
			fmt.Printf("CANON error: %s\n", strings.ReplaceAll(msg, "\n", " "))
			return
		}
		o, st := z.get("zqv1")
		if st != 0 {
			fmt.Println("CANON unreadable")
			return
		}
		fmt.Println("CANON " + c12Abstract(o).canon())
	}
}

// c12FreshProcess re-evaluates one law instance in a child process: what a text evaluates to, or what a
// comparison answers, the FIRST time in a process (err != nil: the child could not be run).
func c12FreshProcess(dir string, rp map[string]any) (holds bool, msg string, err error) {
	exe, err := os.Executable()
	if err != nil {
		return false, "", err
	}
	f, err := os.CreateTemp(dir, "c12inst-*.json")
	if err != nil {
		return false, "", err
	}
	defer os.Remove(f.Name())
	b, _ := json.Marshal(rp)
	_, _ = f.Write(b)
	_ = f.Close()
	ctx, cancel := context.WithTimeout(context.Background(), 5*time.Minute)
	defer cancel()
	cmd := exec.CommandContext(ctx, exe, "worker", "c12inst", f.Name())
	cmd.Dir = filepath.Dir(f.Name())
	cmd.Stderr = nil
	out, err := cmd.Output()
	if err != nil {
		return false, "", fmt.Errorf("c12inst child: %w", err)
	}
	var res struct {
		Holds bool   `json:"holds"`
		Msg   string `json:"msg"`
	}
	lines := bytes.Split(bytes.TrimSpace(out), []byte("\n"))
	if err := json.Unmarshal(lines[len(lines)-1], &res); err != nil {
		return false, "", fmt.Errorf("c12inst child said %q", out)
	}
	return res.Holds, res.Msg, nil
}

// ---------------------------------------------------------------------------- abstract values

// c12Val is the JSON form of an abstract value of spec/GrolOrder.tla.
type c12Val struct {
	T   string          `json:"t"`
	V   json.RawMessage `json:"v,omitempty"`
	Src string          `json:"src,omitempty"` // functions: the grol source that produces it
	// tags the order ignores (see OrderLaws.tla "values with a history"):
	// containers: "shrunk" | "dupkeys" | "grown" | "merged" | "merged_head" | "merged_tail" (maps), "slice" | "grown" (arrays);
	// numbers, the notation of the literal: "hex" | "under" | "lit" (integers), "intlit" | "exp" (floats)
	How string `json:"how,omitempty"`
	Ep  *int   `json:"ep,omitempty"`  // epoch of the session in which the value is made
	Cut *int   `json:"cut,omitempty"` // "merged": the first `cut` pairs of v are the left operand, the others the right one (OrderLaws!Sum)
}

func (a c12Val) epoch() int {
	if a.Ep == nil {
		return 0
	}
	return *a.Ep
}

func (a c12Val) at(e int) c12Val { a.Ep = &e; return a }

// c12Pads are the extra keys a "shrunk" map holds before they are deleted again.
var c12Pads = []string{"zqp1", "zqp2", "zqp3", "zqp4", "zqp5"}

func c12Raw(v any) json.RawMessage { b, _ := json.Marshal(v); return b }

func c12Int(i int64) c12Val { return c12Val{T: "int", V: c12Raw(strconv.FormatInt(i, 10))} }
func c12Float(f float64) c12Val {
	bits := math.Float64bits(f)
	if f != f {
		bits = 0x7ff8000000000001 // canonical NaN, as in the GrolPrims override
	}
	return c12Val{T: "float", V: c12Raw(fmt.Sprintf("%016x", bits))}
}
func c12Str(s string) c12Val         { return c12Val{T: "str", V: c12Raw(s)} }
func c12Arr(el []c12Val) c12Val      { return c12Val{T: "arr", V: c12Raw(el)} }
func c12Map(p [][2]c12Val) c12Val    { return c12Val{T: "map", V: c12Raw(p)} }
func c12Func(src, txt string) c12Val { return c12Val{T: "func", V: c12Raw(txt), Src: src} }

func (a c12Val) str() string     { var s string; _ = json.Unmarshal(a.V, &s); return s }
func (a c12Val) boolean() bool   { var b bool; _ = json.Unmarshal(a.V, &b); return b }
func (a c12Val) elems() []c12Val { var e []c12Val; _ = json.Unmarshal(a.V, &e); return e }
func (a c12Val) pairs() [][2]c12Val {
	var e [][2]c12Val
	_ = json.Unmarshal(a.V, &e)
	return e
}
func (a c12Val) int64() int64 { i, _ := strconv.ParseInt(a.str(), 10, 64); return i }
func (a c12Val) float64() float64 {
	u, _ := strconv.ParseUint(a.str(), 16, 64)
	return math.Float64frombits(u)
}

// canon is the structural identity of a value (function source excluded: two evaluations of the
// same or of different sources with the same normalised text are the same function value).
func (a c12Val) canon() string {
	switch a.T {
	case "arr":
		var sb strings.Builder
		sb.WriteString("[")
		for _, e := range a.elems() {
			sb.WriteString(e.canon())
			sb.WriteString(",")
		}
		return sb.String() + "]"
	case "map":
		var sb strings.Builder
		sb.WriteString("{")
		for _, p := range a.pairs() {
			sb.WriteString(p[0].canon() + ":" + p[1].canon() + ",")
		}
		return sb.String() + "}"
	case "nil":
		return "nil"
	case "bool":
		return "bool:" + strconv.FormatBool(a.boolean())
	default:
		return a.T + ":" + strconv.Quote(a.str())
	}
}

// c12Matches: the value `real` read back from the real code is what the universe value `want`
// describes.  Scalars and arrays must be identical; a map was built by setting the pairs of `want`
// one after the other, so it must consist of keys and values of `want` (which keys coincide is up
// to the order under test).
func c12Matches(want, real c12Val) bool {
	if want.T != real.T {
		return false
	}
	switch want.T {
	case "arr":
		w, r := want.elems(), real.elems()
		if len(w) != len(r) {
			return false
		}
		for i := range w {
			if !c12Matches(w[i], r[i]) {
				return false
			}
		}
		return true
	case "map":
		w, r := want.pairs(), real.pairs()
		if len(r) > len(w) || (len(w) > 0 && len(r) == 0) {
			return false
		}
		for _, rp := range r { // a later pair with an equivalent key replaces the value and keeps the first key
			kf, vf := false, false
			for _, wp := range w {
				kf = kf || c12Matches(wp[0], rp[0])
				vf = vf || c12Matches(wp[1], rp[1])
			}
			if !kf || !vf {
				return false
			}
		}
		return true
	}
	if want.T == "quote" || want.T == "func" {
		// the printed text of code is the formatter's business (C02/C03): identity up to layout (blanks)
		strip := func(x string) string { return strings.Join(strings.Fields(x), "") }
		return strip(strings.ReplaceAll(want.canon(), " ", "")) == strip(strings.ReplaceAll(real.canon(), " ", ""))
	}
	return want.canon() == real.canon()
}

// c12FloatNotationOK: the float can be written in that notation ("intlit": a plain digit string, which is a float
// only when it does not fit an int64; -2^63 written that way is the integer literal of MinInt64).
func c12FloatNotationOK(f float64, how string) bool {
	switch how {
	case "intlit":
		return f == math.Trunc(f) && math.Abs(f) >= 9223372036854775808.0 && f != -9223372036854775808.0 && math.Abs(f) < 1e30
	case "exp":
		return f != 0
	}
	return false
}

// c12Notations are the `how` tags of numbers (the notation of the literal); the others are construction histories.
var c12Notations = map[string]bool{"hex": true, "under": true, "lit": true, "intlit": true, "exp": true}

// c12Written: the value or one of its parts is a number written in a notation of its own.
func c12Written(a c12Val) bool {
	w := false
	c12Leaves(a, func(l c12Val) { w = w || c12Notations[l.How] })
	return w
}

// c12MergeSplit: a merged map of n pairs is the sum of its first k pairs and the others: "merged" halves,
// "merged_head" the first pair + the rest, "merged_tail" all but the last pair + the last; `cut` names k itself.
func c12MergeSplit(a c12Val, n int) int {
	how := a.How
	switch {
	case a.Cut != nil && *a.Cut >= 0 && *a.Cut <= n: // a sum with operands of its own (they may share keys)
		return *a.Cut
	case how == "merged_head" && n > 0:
		return 1
	case how == "merged_tail" && n > 0:
		return n - 1
	}
	return (n + 1) / 2
}

func c12IsMerged(how string) bool { return strings.HasPrefix(how, "merged") }

// c12Source renders a value as grol source text.
func c12Source(a c12Val) string { return c12SourceAt(a, 0) }

// c12SourceAt: the source of a value nested `depth` containers deep.  A container with a history is an immediately
// called function; its local variable is named after the depth, because an assignment inside a nested function
// literal goes to the variable of that name of the enclosing call.
func c12SourceAt(a c12Val, depth int) string {
	m := "zqk" + strconv.Itoa(depth)
	switch a.T {
	case "int":
		i := a.int64()
		mag := strconv.FormatUint(uint64(i), 10) // digits of |i| (MinInt64: 2^63)
		if i < 0 {
			mag = strconv.FormatUint(-uint64(i), 10)
		}
		switch a.How {
		case "hex": // 0x.. (a minus sign in front of it for negative numbers)
			mag = "0x" + strconv.FormatUint(func() uint64 {
				if i < 0 {
					return -uint64(i)
				}
				return uint64(i)
			}(), 16)
		case "under": // digits grouped by underscores
			var g []string
			for len(mag) > 3 {
				g = append([]string{mag[len(mag)-3:]}, g...)
				mag = mag[:len(mag)-3]
			}
			mag = strings.Join(append([]string{mag}, g...), "_")
		case "lit": // -9223372036854775808 written as such (the one literal whose digits alone are no integer)
		default:
			if i == math.MinInt64 {
				return "(-9223372036854775807-1)"
			}
		}
		if i < 0 {
			return "(-" + mag + ")"
		}
		return mag
	case "float":
		f := a.float64()
		switch {
		case f != f:
			return "(0.0/0.0)"
		case math.IsInf(f, 1):
			return "(1.0/0.0)"
		case math.IsInf(f, -1):
			return "(-1.0/0.0)"
		case f == 0 && math.Signbit(f):
			return "(-0.0)"
		}
		if c12FloatNotationOK(f, a.How) {
			s := strconv.FormatFloat(math.Abs(f), 'f', 0, 64) // "intlit": all the digits of the integer, no ".0"
			if a.How == "exp" {
				s = strconv.FormatFloat(math.Abs(f), 'e', -1, 64)
			}
			if f < 0 {
				return "(-" + s + ")"
			}
			return s
		}
		s := strconv.FormatFloat(math.Abs(f), 'f', -1, 64)
		if len(s) > 40 { // very large / very small: exponent form
			s = strconv.FormatFloat(math.Abs(f), 'e', -1, 64)
		} else if !strings.Contains(s, ".") {
			s += ".0"
		}
		if f < 0 {
			return "(-" + s + ")"
		}
		return s
	case "bool":
		if a.boolean() {
			return "true"
		}
		return "false"
	case "nil":
		return "nil"
	case "str":
		return strconv.Quote(a.str())
	case "arr":
		el := a.elems()
		parts := make([]string, len(el))
		for i, e := range el {
			parts[i] = c12SourceAt(e, depth+1)
		}
		if a.How == "slice" { // the tail of an array of 9 more elements
			return "[" + strings.Join(append([]string{"0,0,0,0,0,0,0,0,0"}, parts...), ",") + "][9:]"
		}
		if a.How == "grown" { // one element appended after the other (an expression: usable when nested)
			var sb strings.Builder
			sb.WriteString("func(){" + m + "=[]")
			for _, p := range parts {
				sb.WriteString(";" + m + "=" + m + "+[" + p + "]")
			}
			sb.WriteString(";" + m + "}()")
			return sb.String()
		}
		return "[" + strings.Join(parts, ",") + "]"
	case "map":
		ps := a.pairs()
		parts := make([]string, len(ps))
		for i, p := range ps {
			parts[i] = c12SourceAt(p[0], depth+1) + ":" + c12SourceAt(p[1], depth+1)
		}
		switch {
		case a.How == "shrunk": // five more entries, deleted again (an expression: usable when nested)
			var sb strings.Builder
			sb.WriteString("func(){" + m + "={" + strings.Join(parts, ","))
			for i, pad := range c12Pads {
				if i > 0 || len(parts) > 0 {
					sb.WriteString(",")
				}
				sb.WriteString(strconv.Quote(pad) + ":0")
			}
			sb.WriteString("}")
			for _, pad := range c12Pads {
				sb.WriteString(";del(" + m + "[" + strconv.Quote(pad) + "])")
			}
			sb.WriteString(";" + m + "}()")
			return sb.String()
		case a.How == "dupkeys" && len(ps) > 0: // the first key four times before the pairs
			dup := c12SourceAt(ps[0][0], depth+1) + ":0,"
			return "{" + dup + dup + dup + dup + strings.Join(parts, ",") + "}"
		case a.How == "grown": // an empty map that receives the pairs one assignment after the other
			var sb strings.Builder
			sb.WriteString("func(){" + m + "={}")
			for i := range ps {
				sb.WriteString(";" + m + "[" + c12SourceAt(ps[i][0], depth+1) + "]=" + c12SourceAt(ps[i][1], depth+1))
			}
			sb.WriteString(";" + m + "}()")
			return sb.String()
		case c12IsMerged(a.How): // the sum of two maps: the leading pairs + the trailing pairs
			k := c12MergeSplit(a, len(ps))
			return "({" + strings.Join(parts[:k], ",") + "}+{" + strings.Join(parts[k:], ",") + "})"
		}
		return "{" + strings.Join(parts, ",") + "}"
	case "func", "quote", "ext":
		return a.Src
	}
	return "?"
}

// ---------------------------------------------------------------------------- the real code

var c12InitOnce sync.Once

// c12Sess is one persistent interpreter (single goroutine; grol interns tokens in a global map).
type c12Sess struct {
	s    *eval.State
	out  *strings.Builder
	opts repl.Options
}

func c12NewSess() *c12Sess {
	c12InitOnce.Do(func() { _ = extensions.Init(nil) })
	s := eval.NewState()
	out := &strings.Builder{}
	s.Out = out
	s.LogOut = out
	s.NoLog = true
	return &c12Sess{s: s, out: out, opts: repl.EvalStringOptions()}
}

// run evaluates grol source through repl.EvalOne; status 0 ok, 8 error(s), 9 panic.
func (z *c12Sess) run(src string) (status int, msg string) {
	z.out.Reset()
	_, panicked, errs, _ := repl.EvalOne(context.Background(), z.s, src, z.out, z.opts)
	if panicked {
		return 9, strings.Join(errs, "; ")
	}
	if len(errs) > 0 {
		return 8, strings.Join(errs, "; ")
	}
	return 0, ""
}

// get returns the object bound to a global name.
func (z *c12Sess) get(name string) (o object.Object, status int) {
	defer func() {
		if r := recover(); r != nil {
			z.s.Reset()
			o, status = nil, 9
		}
	}()
	cancel := z.s.SetDefaultContext()
	defer cancel()
	res, err := eval.EvalString(z.s, name, false)
	if err != nil || res == nil {
		return nil, 8
	}
	return res, 0
}

// c12HistoryEvents are the kinds of session events (OrderLaws!HistoryEvents, cross-checked at export).
var c12HistoryEvents = []string{"redefine_function", "rebind_constant", "many_definitions"}

// event takes the session through the event that precedes epoch e: a top level function is
// redefined, a constant is deleted and bound again, or many functions are defined and defined
// again - each followed by a function call (that is when the interpreter notices).
func (z *c12Sess) event(e int) error {
	kind := c12HistoryEvents[(e+len(c12HistoryEvents)-1)%len(c12HistoryEvents)]
	if e == 0 {
		kind = "redefine_function"
	}
	var script []string
	switch kind {
	case "redefine_function":
		script = []string{fmt.Sprintf("func zqh(){%d}", e)}
	case "rebind_constant":
		script = []string{fmt.Sprintf("del(ZQC)\nZQC = %d", e)}
	case "many_definitions":
		for round := 0; round < 2; round++ {
			for k := 1; k <= 12; k++ {
				script = append(script, fmt.Sprintf("zqm%d = func(x){x-%d}", k, 1000*e+100*round+k))
			}
		}
		script = append(script, "zqm1(1)")
	default:
		return fmt.Errorf("unknown history event %q", kind)
	}
	script = append(script, "zqh()")
	for _, src := range script {
		if st, msg := z.run(src); st != 0 {
			return fmt.Errorf("history event %s before epoch %d: %s: %s", kind, e, src, msg)
		}
	}
	return nil
}

// c12Build constructs the value as a Go object; functions are evaluated from their source.
func c12Build(a c12Val, z *c12Sess) (object.Object, error) {
	switch a.T {
	case "int":
		return object.Integer{Value: a.int64()}, nil
	case "float":
		return object.Float{Value: a.float64()}, nil
	case "bool":
		return object.NativeBoolToBooleanObject(a.boolean()), nil
	case "nil":
		return object.NULL, nil
	case "str":
		return object.String{Value: a.str()}, nil
	case "arr":
		el := a.elems()
		objs := object.MakeObjectSlice(len(el))
		for _, e := range el {
			o, err := c12Build(e, z)
			if err != nil {
				return nil, err
			}
			objs = append(objs, o)
		}
		if a.How == "slice" || a.How == "grown" { // no object-level API makes a slice / appends: through the interpreter
			if st, msg := z.run("zqfn = " + c12Source(a)); st != 0 {
				return nil, fmt.Errorf("source %q: %s", c12Source(a), msg)
			}
			if o, st := z.get("zqfn"); st == 0 && o.Type() == object.ARRAY {
				if !c12Matches(a, c12Abstract(o)) {
					// the interpreter made something else of the text (a literal read again as another value):
					// the reference is the array of the constructed elements, the difference shows in xc / xe
					return object.NewArray(objs), nil
				}
				return o, nil
			}
			return nil, fmt.Errorf("source %q did not evaluate to an array", c12Source(a))
		}
		return object.NewArray(objs), nil
	case "map":
		ps := a.pairs()
		m := object.NewMapSize(len(ps))
		switch {
		case a.How == "grown": // starts as the empty map, whatever it will hold
			m = object.NewMap()
		case c12IsMerged(a.How): // the leading pairs as one map, the trailing pairs as another, appended
			k := c12MergeSplit(a, len(ps))
			left, err := c12Build(c12Map(ps[:k]), z)
			if err != nil {
				return nil, err
			}
			right, err := c12Build(c12Map(ps[k:]), z)
			if err != nil {
				return nil, err
			}
			return left.(object.Map).Append(right.(object.Map)), nil
		case a.How == "shrunk": // sized for and filled with five more entries, deleted again
			m = object.NewMapSize(len(ps) + len(c12Pads))
		case a.How == "dupkeys" && len(ps) > 0: // sized for more pairs than it has keys
			m = object.NewMapSize(len(ps) + 4)
			k, err := c12Build(ps[0][0], z)
			if err != nil {
				return nil, err
			}
			for i := 0; i < 4; i++ {
				m = m.Set(k, object.Integer{Value: 0})
			}
		}
		for _, p := range ps {
			k, err := c12Build(p[0], z)
			if err != nil {
				return nil, err
			}
			v, err := c12Build(p[1], z)
			if err != nil {
				return nil, err
			}
			m = m.Set(k, v)
		}
		if a.How == "shrunk" {
			for _, pad := range c12Pads {
				m = m.Set(object.String{Value: pad}, object.Integer{Value: 0})
			}
			for _, pad := range c12Pads {
				m, _ = m.Delete(object.String{Value: pad})
			}
		}
		return m, nil
	case "func", "quote", "ext": // values that only the interpreter can make: evaluated from their source
		if st, msg := z.run("zqfn = " + a.Src); st != 0 {
			return nil, fmt.Errorf("source %q: %s", a.Src, msg)
		}
		o, st := z.get("zqfn")
		want := map[string]object.Type{"func": object.FUNC, "quote": object.QUOTE, "ext": object.EXTENSION}[a.T]
		if st != 0 || o.Type() != want {
			return nil, fmt.Errorf("source %q did not evaluate to a %s", a.Src, a.T)
		}
		return o, nil
	}
	return nil, fmt.Errorf("unknown abstract type %q", a.T)
}

// c12Abstract maps an object of the real code back to an abstract value.
func c12Abstract(o object.Object) c12Val {
	o = object.Value(o)
	switch v := o.(type) {
	case object.Integer:
		return c12Int(v.Value)
	case object.Float:
		return c12Float(v.Value)
	case object.Boolean:
		return c12Val{T: "bool", V: c12Raw(v.Value)}
	case object.Null:
		return c12Val{T: "nil"}
	case object.String:
		return c12Str(v.Value)
	case object.Function:
		return c12Func("", v.Inspect())
	case object.Quote:
		return c12Val{T: "quote", V: c12Raw(v.Inspect())}
	case object.Extension:
		return c12Val{T: "ext", V: c12Raw(v.Name)}
	case object.Array:
		el := v.Elements()
		res := make([]c12Val, len(el))
		for i, e := range el {
			res[i] = c12Abstract(e)
		}
		return c12Arr(res)
	case object.Map:
		res := [][2]c12Val{}
		var cur object.Map = v
		for cur.Len() > 0 {
			f, ok := cur.First().(object.Map)
			if !ok {
				break
			}
			k, _ := f.Get(object.KeyKey)
			val, _ := f.Get(object.ValueKey)
			res = append(res, [2]c12Val{c12Abstract(k), c12Abstract(val)})
			r, ok := cur.Rest().(object.Map)
			if !ok {
				break
			}
			cur = r
		}
		return c12Map(res)
	}
	return c12Val{T: "other:" + o.Type().String()}
}

// ---------------------------------------------------------------------------- the relation table

// c12Table is one batch of OrderLaws.tla: matrices M[field][x][y] and vectors V[field][x].
// Fields: cmp eq look (constructed objects); for each operator context f in t (top level),
// p (both operands are parameters: register against register), l (register left, plain value
// right), r (plain left, register right): f+lt le gt ge eq ne look; mn mx; vectors cc ec scc sec
// big sbig.  Encoding: booleans 0/1, 8 = error object / not a boolean, 9 = panic; cmp -1/0/1,
// 99 = panic; mn/mx 1 = first, 2 = second, 3 = the two values are identical, 0 = neither.
type c12Table struct {
	N   int
	Src string // "curated" | "random"
	U   []c12Val
	M   map[string][][]int
	V   map[string][]int

	panics []string // first few panic / error messages (diagnostics)
}

func (t *c12Table) MarshalJSON() ([]byte, error) {
	m := map[string]any{"n": t.N, "src": t.Src, "u": t.U}
	for k, v := range t.M {
		m[k] = v
	}
	for k, v := range t.V {
		m[k] = v
	}
	return json.Marshal(m)
}

func c12Matrix(n int) [][]int {
	m := make([][]int, n)
	for i := range m {
		m[i] = make([]int, n)
	}
	return m
}

func (t *c12Table) notePanic(format string, a ...any) {
	if len(t.panics) < 5 {
		t.panics = append(t.panics, fmt.Sprintf(format, a...))
	}
}

var c12Ops7 = []string{"lt", "le", "gt", "ge", "eq", "ne", "look"}
var c12OpText = []string{"a<b", "a<=b", "a>b", "a>=b", "a==b", "a!=b", "{a:1}[b]"}

// c12Form is one context in which the seven operators are evaluated from source.
type c12Form struct {
	pfx    string // field prefix
	tag    string // as named by OrderLaws!FormTag
	params string // "" = top level (a and b are replaced by the variables)
	prolog string
	epilog string
	call   func(fn, vi, vj string) string
}

var c12Forms = []c12Form{
	{pfx: "t", tag: "top"},
	{pfx: "p", tag: "param", params: "a,b", call: func(fn, vi, vj string) string { return fn + "(" + vi + "," + vj + ")" }},
	// a is a parameter (an integer lives in a register), b a plain local value taken out of an array
	{pfx: "l", tag: "register_left", params: "a,w", prolog: "b=w[0];", call: func(fn, vi, vj string) string { return fn + "(" + vi + ",[" + vj + "])" }},
	{pfx: "r", tag: "register_right", params: "b,w", prolog: "a=w[0];", call: func(fn, vi, vj string) string { return fn + "(" + vj + ",[" + vi + "])" }},
	// three nested calls on the stack: one operand is a variable of the outermost call which the call in between
	// has read before (that leaves a reference to it there), the other a parameter of the innermost call, where
	// the operators are evaluated: the operand is reached through the frames of other calls
	{pfx: "c", tag: "captured_left", params: "a,w", prolog: "zqg=func(){zqt=a;zqi=func(b){", epilog: "};zqi(w[0])};zqg()",
		call: func(fn, vi, vj string) string { return fn + "(" + vi + ",[" + vj + "])" }},
	// the same through the call stack of a recursion: the operand is a variable of the call two levels up (a
	// function sees the variables of its callers), the level in between has read it before
	{pfx: "d", tag: "caller_right", params: "zqn,w", prolog: "if zqn==3 {b=w[0]};if zqn==2 {zqt=b};if zqn>1 {return self(zqn-1,w)};a=w[1];",
		call: func(fn, vi, vj string) string { return fn + "(3,[" + vj + "," + vi + "])" }},
}

func c12FormByTag(tag string) *c12Form {
	for i := range c12Forms {
		if c12Forms[i].tag == tag {
			return &c12Forms[i]
		}
	}
	return &c12Forms[0]
}

// c12Bool / c12Found / c12Which decode one result object.
func c12Bool(o object.Object) int {
	if b, ok := object.Value(o).(object.Boolean); ok {
		if b.Value {
			return 1
		}
		return 0
	}
	return 8
}

func c12Found(o object.Object) int {
	switch v := object.Value(o).(type) {
	case object.Null:
		return 0
	case object.Integer:
		if v.Value == 1 {
			return 1
		}
	}
	return 8
}

func c12Which(o object.Object, a, b string) int {
	if o.Type() == object.ERROR {
		return 8
	}
	r := c12Abstract(o).canon()
	ia, ib := r == a, r == b
	switch {
	case ia && ib:
		return 3
	case ia:
		return 1
	case ib:
		return 2
	}
	return 0
}

// evalList evaluates `zqr = [e1, .., ek]` through repl.EvalOne and decodes the k results; when the
// whole list fails (panic / error) the expressions are evaluated one by one to see which.
func (z *c12Sess) evalList(t *c12Table, exprs []string, ctx string, decode func(k int, o object.Object) int) []int {
	res := make([]int, len(exprs))
	if st, _ := z.run("zqr = [" + strings.Join(exprs, ",") + "]"); st == 0 {
		if o, st := z.get("zqr"); st == 0 {
			if arr, isArr := o.(object.Array); isArr && arr.Len() == len(exprs) {
				for k, e := range arr.Elements() {
					res[k] = decode(k, e)
				}
				return res
			}
		}
	}
	for k, e := range exprs {
		st, msg := z.run("zqr = " + e)
		if st != 0 {
			res[k] = st
			t.notePanic("%s with %s: %s", e, ctx, msg)
			continue
		}
		o, st := z.get("zqr")
		if st != 0 {
			res[k] = st
			continue
		}
		res[k] = decode(k, o)
	}
	return res
}

// pairAtOnce records all source-level observations of the pair (i, j) from one input; false when
// that input does not evaluate to the expected shape (then nothing was recorded).
func (z *c12Sess) pairAtOnce(t *c12Table, i, j int, vi, vj string, ident []string, decode7 func(int, object.Object) int) bool {
	var parts []string
	for _, f := range c12Forms {
		if f.params == "" {
			var exprs []string
			for _, op := range c12OpText {
				exprs = append(exprs, strings.NewReplacer("a", vi, "b", vj).Replace(op))
			}
			exprs = append(exprs, "min(["+vi+","+vj+"])", "max(["+vi+","+vj+"])")
			parts = append(parts, "["+strings.Join(exprs, ",")+"]")
			continue
		}
		parts = append(parts, f.call("zq"+f.pfx+"f", vi, vj))
	}
	if st, _ := z.run("zqr = [" + strings.Join(parts, ",") + "]"); st != 0 {
		return false
	}
	o, st := z.get("zqr")
	if st != 0 {
		return false
	}
	all, isArr := o.(object.Array)
	if !isArr || all.Len() != len(c12Forms) {
		return false
	}
	rows := make([][]object.Object, len(c12Forms))
	for k, e := range all.Elements() {
		row, isArr := object.Value(e).(object.Array)
		want := 7
		if c12Forms[k].params == "" {
			want = 9
		}
		if !isArr || row.Len() != want {
			return false
		}
		rows[k] = row.Elements()
	}
	for k, f := range c12Forms {
		for q, op := range c12Ops7 {
			t.M[f.pfx+op][i][j] = decode7(q, rows[k][q])
		}
		if f.params == "" {
			t.M["mn"][i][j] = c12Which(rows[k][7], ident[i], ident[j])
			t.M["mx"][i][j] = c12Which(rows[k][8], ident[i], ident[j])
		}
	}
	return true
}

// c12Quiet points file descriptor 2 at /dev/null until restore is called: repl.EvalOne logs every
// panic it recovers (one line per comparison of two quotes on this tree) through grol's logger.
func c12Quiet() (restore func()) {
	null, err := os.OpenFile(os.DevNull, os.O_WRONLY, 0)
	if err != nil {
		return func() {}
	}
	defer null.Close()
	saved, err := syscall.Dup(2)
	if err != nil {
		return func() {}
	}
	if err := syscall.Dup3(int(null.Fd()), 2, 0); err != nil {
		_ = syscall.Close(saved)
		return func() {}
	}
	return func() {
		_ = syscall.Dup3(saved, 2, 0)
		_ = syscall.Close(saved)
	}
}

// c12FirstReading: what each source text evaluated to the first time this process read it back and found it to
// be the constructed object (the calibration of the harness's notation: a mismatch THEN is the harness's mistake,
// exit 2).  A calibrated text that evaluates to something else later is the interpreter's doing: the text is read
// a second time and denotes another value - recorded as an observation (xc / xe and the reread routes), judged
// by the laws.
var c12FirstReading = map[string]string{}

// c12Routes are the ways in which the source text of a value is read again (OrderLaws!Routes), with the field
// prefixes of the two vectors (cmp / eq between the first reading and this one).
var c12Routes = []struct{ tag, pfx string }{{"again", "ya"}, {"twice", "yt"}, {"eval", "yv"}, {"fresh", "yf"}, {"late", "yl"}}

func c12RouteByTag(tag string) string {
	for _, r := range c12Routes {
		if r.tag == tag {
			return r.pfx
		}
	}
	return ""
}

// reread evaluates the source text again by one route and compares the result(s) with the first reading:
// cmp (first non-zero) and eq (0 as soon as one differs; 8 when one reading is a value and the other is none).
func (z *c12Sess) reread(t *c12Table, route, text string, first object.Object) (c, e int) {
	var src string
	switch route {
	case "twice":
		src = "zqy = [" + text + "," + text + "]"
	case "eval":
		src = "zqy = [eval(" + strconv.Quote(text) + ")]"
	default:
		src = "zqy = [" + text + "]"
	}
	var got []object.Object
	if st, msg := z.run(src); st == 0 {
		if o, st := z.get("zqy"); st == 0 {
			if arr, isArr := object.Value(o).(object.Array); isArr {
				for _, el := range arr.Elements() {
					if el.Type() != object.ERROR {
						got = append(got, object.Value(el))
					}
				}
			}
		}
	} else if first != nil {
		t.notePanic("reading %s again (%s): %s", text, route, msg)
	}
	want := 1
	if route == "twice" {
		want = 2
	}
	switch {
	case first == nil && len(got) == 0:
		return 0, 1 // no value the first time, none now
	case first == nil || len(got) != want:
		return 0, 8
	}
	c, e = 0, 1
	for _, o := range got {
		if r := c12GoCmp(first, o, t); c == 0 {
			c = r
		}
		if r := c12GoEq(first, o, t); r != 1 && e == 1 {
			e = r
		}
	}
	if c != 0 || e != 1 {
		t.notePanic("the text %s read again (%s) is %s, the first time it was %s", text, route, got[len(got)-1].Inspect(), first.Inspect())
	}
	return c, e
}

// c12Evaluate records the relation table of the universe u on the real code.
func c12Evaluate(u []c12Val, src string) (*c12Table, error) {
	defer c12Quiet()()
	n := len(u)
	t := &c12Table{N: n, Src: src, U: u, M: map[string][][]int{}, V: map[string][]int{}}
	z := c12NewSess()
	// the functions of the operator contexts come first: they are part of the session's past
	for _, f := range c12Forms {
		if f.params == "" {
			continue
		}
		defs := []string{fmt.Sprintf("zq%sf = func(%s){%s[%s]%s}", f.pfx, f.params, f.prolog, strings.Join(c12OpText, ","), f.epilog)}
		for k, op := range c12OpText {
			defs = append(defs, fmt.Sprintf("zq%sf%d = func(%s){%s%s%s}", f.pfx, k, f.params, f.prolog, op, f.epilog))
		}
		for _, d := range defs {
			if st, msg := z.run(d); st != 0 {
				return nil, fmt.Errorf("defining %s: %s", d, msg)
			}
		}
	}
	// the values, epoch by epoch: before the values of epoch e > 0 are made the session goes through
	// event e (and through one event before epoch 0 when there are later epochs, so that the oldest
	// values are not the first things the session ever made)
	objs := make([]object.Object, n)
	cops := make([]object.Object, n)
	ident := make([]string, n) // structural identity of the value as the real code built it
	unbound := make([]bool, n)
	srcObjs := make([]object.Object, n) // the values as evaluated from their source text
	maxEp := 0
	for _, a := range u {
		maxEp = max(maxEp, a.epoch())
	}
	if maxEp > 0 {
		if st, msg := z.run("func zqh(){-1}\nZQC = -1"); st != 0 {
			return nil, fmt.Errorf("session prelude: %s", msg)
		}
	}
	for e := 0; e <= maxEp; e++ {
		if maxEp > 0 {
			if err := z.event(e); err != nil {
				return nil, err
			}
		}
		// as Go objects, twice
		for i, a := range u {
			if a.epoch() != e {
				continue
			}
			var err error
			if objs[i], err = c12Build(a, z); err != nil {
				return nil, err
			}
			if cops[i], err = c12Build(a, z); err != nil {
				return nil, err
			}
			got := c12Abstract(objs[i])
			if !c12Matches(a, got) {
				return nil, fmt.Errorf("constructed object %d is %s, the universe says %s", i+1, got.canon(), a.canon())
			}
			ident[i] = got.canon()
		}
		// as grol source, twice, bound in the one persistent state
		for i, a := range u {
			if a.epoch() != e {
				continue
			}
			for _, pfx := range []string{"zqv", "zqw"} {
				name := pfx + strconv.Itoa(i+1)
				if st, msg := z.run(name + " = " + c12Source(a)); st != 0 {
					// the real code refuses to evaluate the literal of a universe value (e.g. "key .. is not
					// hashable" when == is not reflexive): every source observation that involves the value
					// then records "no answer" (8) and the `answered` law reports it
					unbound[i] = true
					t.notePanic("%s = %s: %s", name, c12Source(a), msg)
					continue
				}
				o, st := z.get(name)
				if st != 0 {
					return nil, fmt.Errorf("reading back %s failed", name)
				}
				if pfx == "zqv" {
					srcObjs[i] = object.Value(o)
				}
				text := c12Source(a)
				got := c12Abstract(o).canon()
				if got == ident[i] {
					if _, seen := c12FirstReading[text]; !seen {
						c12FirstReading[text] = got
					}
				} else {
					if _, seen := c12FirstReading[text]; !seen {
						// this process reads the text as a whole for the first time, but not its literals: what the
						// text is the first time a process reads it decides whether the notation is the harness's mistake
						if first, err := c12ReadInFreshProcess(text); err == nil {
							c12FirstReading[text] = first
						}
					}
					if c12FirstReading[text] == ident[i] {
						// the text was the constructed object when this process read it first: now it is read again
						// and is something else (observations xc / xe, the reread routes; law copy_equal)
						t.notePanic("the source text %s evaluates to %s now, it was %s when it was first read in this process", text, got, ident[i])
						continue
					}
					if c12Written(a) {
						// a number written in a notation of its own: what the interpreter reads it as is under
						// test (observations xc / xe: the constructed object against the value of the source
						// text, and every operator on the variable), not a premise of the harness
						t.notePanic("the source text %s evaluates to %s, the universe value is %s", c12Source(a), got, ident[i])
						continue
					}
					return nil, fmt.Errorf("source %q evaluates to %s, the constructed object is %s", c12Source(a), got, ident[i])
				}
			}
		}
	}
	for _, name := range []string{"cmp", "eq", "look", "mn", "mx"} {
		t.M[name] = c12Matrix(n)
	}
	for _, f := range c12Forms {
		for _, op := range c12Ops7 {
			t.M[f.pfx+op] = c12Matrix(n)
		}
	}
	decode7 := func(k int, o object.Object) int {
		if k == 6 {
			return c12Found(o)
		}
		return c12Bool(o)
	}
	srcText := make([]string, n)
	for i, a := range u {
		srcText[i] = c12Source(a)
	}
	// the source text of every value read again: in a later input of the session, twice in one input, through
	// eval, in another interpreter state of this process (and once more after the table is recorded, below)
	for _, r := range c12Routes {
		t.V[r.pfx+"c"], t.V[r.pfx+"e"] = make([]int, n), make([]int, n)
	}
	t.V["yp"] = make([]int, n)
	other := c12NewSess()
	for _, r := range c12Routes {
		if r.tag == "late" {
			continue
		}
		for i := range u {
			sess := z
			if r.tag == "fresh" {
				sess = other
			}
			t.V[r.pfx+"c"][i], t.V[r.pfx+"e"][i] = sess.reread(t, r.tag, srcText[i], srcObjs[i])
		}
	}
	for i := 0; i < n; i++ {
		for j := 0; j < n; j++ {
			// constructed objects
			t.M["cmp"][i][j] = c12GoCmp(objs[i], objs[j], t)
			t.M["eq"][i][j] = c12GoEq(objs[i], objs[j], t)
			t.M["look"][i][j] = c12GoLook(objs[i], objs[j], t)
			vi, vj := "zqv"+strconv.Itoa(i+1), "zqv"+strconv.Itoa(j+1)
			ctx := fmt.Sprintf("%s=%s %s=%s", vi, srcText[i], vj, srcText[j])
			// first everything about the pair in one input: [[the operators at top level, min, max], the call of
			// each context function]; context by context (and operator by operator) when that fails
			if z.pairAtOnce(t, i, j, vi, vj, ident, decode7) {
				continue
			}
			for _, f := range c12Forms {
				var exprs []string
				if f.params == "" { // top level: the operators on the variables, and min / max
					for _, op := range c12OpText {
						exprs = append(exprs, strings.NewReplacer("a", vi, "b", vj).Replace(op))
					}
					// min / max take the two values as one array: a trailing array argument is spread
					// (max(0,[1]) is max(0,1), a language rule), so min([a,b]) is how a program takes
					// the smaller of two arbitrary values.
					exprs = append(exprs, "min(["+vi+","+vj+"])", "max(["+vi+","+vj+"])")
					res := z.evalList(t, exprs, ctx, func(k int, o object.Object) int {
						if k >= 7 {
							return c12Which(o, ident[i], ident[j])
						}
						return decode7(k, o)
					})
					for k, op := range c12Ops7 {
						t.M[f.pfx+op][i][j] = res[k]
					}
					t.M["mn"][i][j], t.M["mx"][i][j] = res[7], res[8]
					continue
				}
				// inside a function: first all seven in one call, one by one if that fails
				ok := false
				if st, _ := z.run("zqr = " + f.call("zq"+f.pfx+"f", vi, vj)); st == 0 {
					if o, st := z.get("zqr"); st == 0 {
						if arr, isArr := o.(object.Array); isArr && arr.Len() == 7 {
							for k, e := range arr.Elements() {
								t.M[f.pfx+c12Ops7[k]][i][j] = decode7(k, e)
							}
							ok = true
						}
					}
				}
				if !ok {
					for k, op := range c12Ops7 {
						call := f.call(fmt.Sprintf("zq%sf%d", f.pfx, k), vi, vj)
						st, msg := z.run("zqr = " + call)
						if st != 0 {
							t.M[f.pfx+op][i][j] = st
							t.notePanic("func(%s){%s%s%s} called as %s with %s: %s", f.params, f.prolog, c12OpText[k], f.epilog, call, ctx, msg)
							continue
						}
						o, st := z.get("zqr")
						if st != 0 {
							t.M[f.pfx+op][i][j] = st
							continue
						}
						t.M[f.pfx+op][i][j] = decode7(k, o)
					}
				}
			}
		}
	}
	// after the whole table: every text once more, and the observations of the pairs (i, i) and (i, next of i)
	// asked again with the very same inputs
	again := &c12Table{N: n, U: u, M: map[string][][]int{}, V: map[string][]int{}}
	for name := range t.M {
		again.M[name] = c12Matrix(n)
	}
	for i := range u {
		t.V["ylc"][i], t.V["yle"][i] = z.reread(t, "late", srcText[i], srcObjs[i])
		for _, j := range []int{i, (i + 1) % n} {
			if !z.pairAtOnce(again, i, j, "zqv"+strconv.Itoa(i+1), "zqv"+strconv.Itoa(j+1), ident, decode7) {
				continue // no answer as one input this time: the first time it was taken operator by operator (panics)
			}
			for name, m := range again.M {
				if name != "cmp" && name != "eq" && name != "look" && m[i][j] != t.M[name][i][j] {
					if t.V["yp"][i] == 0 {
						t.notePanic("%s of (%s, %s) was %d when the table was recorded and is %d when the same input is evaluated again", name, srcText[i], srcText[j], t.M[name][i][j], m[i][j])
					}
					t.V["yp"][i]++
				}
			}
		}
	}
	// copies
	for _, name := range []string{"cc", "ec", "xc", "xe", "scc", "sec", "big", "sbig", "bigr", "sbigr", "gbig", "sgbig", "gbigr", "sgbigr"} {
		t.V[name] = make([]int, n)
	}
	for i := 0; i < n; i++ {
		t.V["cc"][i] = c12GoCmp(objs[i], cops[i], t)
		t.V["ec"][i] = c12GoEq(objs[i], cops[i], t)
		// the constructed object against the value the interpreter made of the source text
		t.V["xc"][i], t.V["xe"][i] = 0, 1
		if srcObjs[i] != nil {
			t.V["xc"][i] = c12GoCmp(objs[i], srcObjs[i], t)
			t.V["xe"][i] = c12GoEq(objs[i], srcObjs[i], t)
		}
		vi, wi := "zqv"+strconv.Itoa(i+1), "zqw"+strconv.Itoa(i+1)
		res := z.evalList(t, []string{vi + "<=" + wi + " && " + wi + "<=" + vi, vi + "==" + wi}, vi+"="+c12Source(u[i]),
			func(_ int, o object.Object) int { return c12Bool(o) })
		t.V["scc"][i], t.V["sec"][i] = res[0], res[1]
	}
	// one map holding every value as key (set in index order, and in reverse order): constructed
	// (sized for all keys / grown from the empty map), and from source (as a map literal / as the
	// empty map and one assignment per key).  When building it panics, the panic is recorded (-1) at the
	// values that cannot even be compared with themselves and the map is built from the others, so
	// that one bad kind of value does not hide what the map does with the rest.
	for _, variant := range []struct{ rev, grown bool }{{false, false}, {true, false}, {false, true}, {true, true}} {
		rev, grown := variant.rev, variant.grown
		order := make([]int, n)
		for i := range order {
			order[i] = i
			if rev {
				order[i] = n - 1 - i
			}
		}
		gname, sname := "big", "sbig"
		if grown { // the map starts empty and receives one key after the other (it changes representation on the way)
			gname, sname = "gbig", "sgbig"
		}
		if rev {
			gname, sname = gname+"r", sname+"r"
		}
		goMap := func(skip []bool) (ok bool) {
			defer func() {
				if r := recover(); r != nil {
					t.notePanic("building the map of all values: %v", r)
					ok = false
				}
			}()
			m := object.NewMapSize(n)
			if grown {
				m = object.NewMap()
			}
			for _, i := range order {
				if !skip[i] {
					m = m.Set(objs[i], object.Integer{Value: int64(i + 1)})
				}
			}
			for i := range objs {
				t.V[gname][i] = -1
				if !skip[i] {
					t.V[gname][i] = c12GoBigGet(m, objs[i], t)
				}
			}
			return true
		}
		srcMap := func(skip []bool) bool {
			var parts []string
			gets := make([]string, n)
			for _, i := range order {
				gets[i] = "nil" // a value that could not be bound is not found
				if !skip[i] && !unbound[i] {
					parts = append(parts, fmt.Sprintf("zqv%d:%d", i+1, i+1))
					gets[i] = fmt.Sprintf("zqbig[zqv%d]", i+1)
				}
			}
			lit := "zqbig = {" + strings.Join(parts, ",") + "}"
			if grown { // zqbig = {} and one assignment per key
				lit = "zqbig = {}"
				for _, part := range parts {
					kv := strings.SplitN(part, ":", 2)
					lit += "\nzqbig[" + kv[0] + "] = " + kv[1]
				}
			}
			st, msg := z.run(lit)
			if st == 0 {
				st, msg = z.run("zqr = [" + strings.Join(gets, ",") + "]")
			}
			if st == 8 { // an error object instead of the map: no key is found
				t.notePanic("map literal of all values: %s", msg)
				for i := range t.V[sname] {
					t.V[sname][i] = 0
				}
				return true
			}
			if st != 0 {
				t.notePanic("map literal of all values: %s", msg)
				return false
			}
			o, st := z.get("zqr")
			arr, isArr := o.(object.Array)
			if st != 0 || !isArr || arr.Len() != n {
				return false
			}
			for i, e := range arr.Elements() {
				t.V[sname][i] = 0
				if v, isInt := object.Value(e).(object.Integer); isInt {
					t.V[sname][i] = int(v.Value)
				}
				if skip[i] {
					t.V[sname][i] = -1
				}
			}
			return true
		}
		none := make([]bool, n)
		selfPanic := make([]bool, n)
		for i := range selfPanic {
			selfPanic[i] = t.M["cmp"][i][i] == 99 || t.M["teq"][i][i] == 9
		}
		for _, build := range []struct {
			f    func([]bool) bool
			name string
		}{{goMap, gname}, {srcMap, sname}} {
			if !build.f(none) && !build.f(selfPanic) {
				for i := range t.V[build.name] {
					t.V[build.name][i] = -1
				}
			}
		}
	}
	return t, nil
}

func c12GoCmp(a, b object.Object, t *c12Table) (r int) {
	defer func() {
		if p := recover(); p != nil {
			t.notePanic("object.Cmp(%s, %s): %v", a.Inspect(), b.Inspect(), p)
			r = 99
		}
	}()
	return object.Cmp(a, b)
}

func c12GoEq(a, b object.Object, t *c12Table) (r int) {
	defer func() {
		if p := recover(); p != nil {
			t.notePanic("object.Equals(%s, %s): %v", a.Inspect(), b.Inspect(), p)
			r = 9
		}
	}()
	if object.Equals(a, b) {
		return 1
	}
	return 0
}

func c12GoLook(a, b object.Object, t *c12Table) (r int) {
	defer func() {
		if p := recover(); p != nil {
			t.notePanic("map {%s: 1} Get(%s): %v", a.Inspect(), b.Inspect(), p)
			r = 9
		}
	}()
	m := object.NewMapSize(1).Set(a, object.Integer{Value: 1})
	if _, found := m.Get(b); found {
		return 1
	}
	return 0
}

func c12GoBigGet(m object.Map, k object.Object, t *c12Table) (r int) {
	defer func() {
		if p := recover(); p != nil {
			t.notePanic("Get(%s) in the map of all values: %v", k.Inspect(), p)
			r = -1
		}
	}()
	v, found := m.Get(k)
	if !found {
		return 0
	}
	if i, ok := v.(object.Integer); ok {
		return int(i.Value)
	}
	return 0
}

// ---------------------------------------------------------------------------- laws in Go (replay of one instance)

type c12Broken struct {
	Law   string `json:"law"`
	B     int    `json:"b"`
	X     int    `json:"x"`
	Y     int    `json:"y"`
	Z     []int  `json:"z"`
	N     int    `json:"n"`
	Info  string `json:"info"`
	Impl  int    `json:"impl"`
	Model int    `json:"model"`
}

func c12Sgn(c int) int {
	switch {
	case c < 0:
		return -1
	case c > 0:
		return 1
	}
	return 0
}

// c12LawHolds re-evaluates one law instance (the Go mirror of OrderLaws!Broken for a single
// instance; used to confirm on the real code what TLC reported, and by --replay).
func c12LawHolds(t *c12Table, law, info string, x, y, z int) bool {
	T := func(v int) bool { return v == 1 }
	cmp, eq := t.M["cmp"], t.M["eq"]
	c, d := cmp[x][y], cmp[y][x]
	f := c12FormByTag(info).pfx
	lt, le, gt, ge, es, ns, lk := t.M[f+"lt"], t.M[f+"le"], t.M[f+"gt"], t.M[f+"ge"], t.M[f+"eq"], t.M[f+"ne"], t.M[f+"look"]
	switch law {
	case "total":
		switch info {
		case "cmp":
			return c != 99
		case "copy":
			return t.V["cc"][x] != 99 && t.V["ec"][x] != 9 && t.V["scc"][x] != 9 && t.V["sec"][x] != 9
		case "big", "sbig", "bigr", "sbigr", "gbig", "sgbig", "gbigr", "sgbigr":
			return t.V[info][x] != -1
		case "written":
			return t.V["xc"][x] != 99 && t.V["xe"][x] != 9
		}
		if r := c12RouteByTag(info); r != "" {
			return t.V[r+"c"][x] != 99 && t.V[r+"e"][x] != 9
		}
		if m, ok := t.M[info]; ok {
			return m[x][y] != 9
		}
	case "answered":
		if info == "copy" {
			return t.V["scc"][x] != 8 && t.V["sec"][x] != 8
		}
		if m, ok := t.M[info]; ok {
			return m[x][y] != 8
		}
	case "same_value_equal":
		if info == "cmp" {
			return c == 0 || c == 99
		}
		if m, ok := t.M[info]; ok {
			return m[x][y] == 1 || m[x][y] >= 8
		}
	case "reread_equal":
		e := t.V[c12RouteByTag(info)+"e"][x]
		return e == 1 || e == 9
	case "reread_equivalent":
		r := t.V[c12RouteByTag(info)+"c"][x]
		return r == 0 || r == 99
	case "answers_repeat":
		return t.V["yp"][x] == 0
	case "cmp_reflexive":
		return c == 0
	case "cmp_antisymmetric":
		return c12Sgn(c) == -c12Sgn(d)
	case "eq_reflexive":
		return T(eq[x][y])
	case "eq_symmetric":
		return eq[x][y] == eq[y][x]
	case "eq_implies_equiv":
		return !T(eq[x][y]) || c == 0
	case "lookup_is_equiv":
		if info == "look" {
			return T(t.M["look"][x][y]) == (c == 0)
		}
		return T(lk[x][y]) == (c == 0)
	case "ops_lt_gt":
		return T(lt[x][y]) == T(gt[y][x])
	case "ops_le_not_gt":
		return T(le[x][y]) == !T(gt[x][y])
	case "ops_ge_not_lt":
		return T(ge[x][y]) == !T(lt[x][y])
	case "ops_ne_not_eq":
		return T(ns[x][y]) == !T(es[x][y])
	case "ops_le_reflexive":
		return T(le[x][y])
	case "ops_eq_reflexive":
		return T(es[x][y])
	case "ops_le_total":
		return T(le[x][y]) || T(le[y][x])
	case "ops_eq_symmetric":
		return T(es[x][y]) == T(es[y][x])
	case "ops_eq_implies_equiv":
		return !T(es[x][y]) || (T(le[x][y]) && T(ge[x][y]))
	case "ops_one_order":
		return T(lt[x][y]) == (c < 0) && T(le[x][y]) == (c <= 0) && T(gt[x][y]) == (c > 0) && T(ge[x][y]) == (c >= 0)
	case "ops_one_equality":
		return T(es[x][y]) == T(eq[x][y])
	case "min_consistent":
		m := t.M["mn"][x][y]
		return (m == 1 || m == 2 || m == 3 || m == 8 || m == 9) && (m != 1 || c <= 0) && (m != 2 || d <= 0)
	case "max_consistent":
		m := t.M["mx"][x][y]
		return (m == 1 || m == 2 || m == 3 || m == 8 || m == 9) && (m != 1 || c >= 0) && (m != 2 || d >= 0)
	case "copy_equal":
		if info == "eqs" {
			return t.V["sec"][x] == 1 || t.V["sec"][x] >= 8
		}
		if info == "written" {
			return t.V["xe"][x] == 1 || t.V["xe"][x] == 9
		}
		return t.V["ec"][x] == 1 || t.V["ec"][x] == 9
	case "copy_equivalent":
		if info == "le" {
			return t.V["scc"][x] == 1 || t.V["scc"][x] >= 8
		}
		if info == "written" {
			return t.V["xc"][x] == 0 || t.V["xc"][x] == 99
		}
		return t.V["cc"][x] == 0 || t.V["cc"][x] == 99
	case "trans_le":
		return !(c <= 0 && cmp[y][z] <= 0) || cmp[x][z] <= 0 || cmp[x][z] == 99
	case "trans_equiv":
		return !(c == 0 && cmp[y][z] == 0) || cmp[x][z] == 0 || cmp[x][z] == 99
	case "trans_eq":
		return !(T(eq[x][y]) && T(eq[y][z])) || eq[x][z] != 0
	case "trans_lookup":
		lk := t.M["look"]
		return !(T(lk[x][y]) && T(lk[y][z])) || lk[x][z] != 0
	case "trans_le_src":
		le := t.M["tle"]
		return !(T(le[x][y]) && T(le[y][z])) || le[x][z] != 0
	case "trans_eq_src":
		es := t.M["teq"]
		return !(T(es[x][y]) && T(es[y][z])) || es[x][z] != 0
	}
	return false // unknown law: never claim it holds
}

// c12ReplayInstance rebuilds the 1-3 values of one broken instance and re-evaluates the law on the
// current tree.  For bigmap_lookup_equivalent the whole universe of the batch is the instance.
func c12ReplayInstance(law, info string, vals []c12Val, x, y, z int) (bool, string) {
	t, err := c12Evaluate(vals, "random")
	if err != nil {
		return false, "cannot rebuild the instance: " + err.Error()
	}
	return c12CheckInstance(t, law, info, x, y, z)
}

// c12CheckInstance decides one law instance on a freshly recorded table of the instance's values.
func c12CheckInstance(t *c12Table, law, info string, x, y, z int) (bool, string) {
	vals := t.U
	if law == "bigmap_lookup_equivalent" { // vals is the whole universe, x the key looked up
		if x >= len(vals) || t.V[info] == nil {
			return false, "replay index outside the values"
		}
		g := t.V[info][x]
		if g == -1 || (g >= 1 && g <= t.N && t.M["cmp"][x][g-1] == 0) {
			return true, ""
		}
		how := map[string]string{"big": "built with Map.Set in index order", "sbig": "written as a map literal in index order",
			"bigr": "built with Map.Set in reverse order", "sbigr": "written as a map literal in reverse order",
			"gbig": "grown from the empty map with Map.Set in index order", "sgbig": "m = {} and one assignment m[value_i] = i per key, in index order",
			"gbigr": "grown from the empty map with Map.Set in reverse order", "sgbigr": "m = {} and one assignment m[value_i] = i per key, in reverse order"}[info]
		if g == 0 {
			return false, fmt.Sprintf("law bigmap_lookup_equivalent(%s): in the map {value_i: i} over the %d values of the universe (%s) the key %s is not found", info, t.N, how, c12Source(vals[x]))
		}
		return false, fmt.Sprintf("law bigmap_lookup_equivalent(%s): in the map {value_i: i} over the %d values of the universe (%s) looking up %s returns the value stored under %s, which is not order-equivalent to it (cmp = %d)",
			info, t.N, how, c12Source(vals[x]), c12Source(vals[g-1]), t.M["cmp"][x][g-1])
	}
	if x >= len(vals) || y >= len(vals) || z >= len(vals) {
		return false, "replay indices outside the values"
	}
	if c12LawHolds(t, law, info, x, y, z) {
		return true, ""
	}
	return false, c12Describe(law, info, vals, x, y, z, t)
}

func c12Describe(law, info string, vals []c12Val, x, y, z int, t *c12Table) string {
	kind := func(v c12Val) string { // type, and when it was made if the session has epochs
		for _, o := range vals {
			if o.epoch() > 0 {
				return fmt.Sprintf("%s, made in epoch %d of the session", v.T, v.epoch())
			}
		}
		return v.T
	}
	a, b := c12Source(vals[x]), c12Source(vals[y])
	s := fmt.Sprintf("law %s", law)
	if info != "" {
		s += "(" + info + ")"
	}
	s += fmt.Sprintf(" broken for a = %s (%s), b = %s (%s)", a, kind(vals[x]), b, kind(vals[y]))
	if strings.HasPrefix(law, "reread_") || law == "answers_repeat" {
		if r := c12RouteByTag(info); r != "" {
			s += fmt.Sprintf(": the same source text read again (%s) is not a copy of what it was when the session first read it: cmp=%d equals=%d (8: a value one time, none the other)",
				info, t.V[r+"c"][x], t.V[r+"e"][x])
		} else {
			s += fmt.Sprintf(": %d observations of (a, a) / (a, the next value) differ when the same input is evaluated again", t.V["yp"][x])
		}
		for _, note := range t.panics {
			if strings.Contains(note, "("+info+")") || strings.Contains(note, "first read in this process") || strings.Contains(note, "evaluated again") {
				s += "; " + note
			}
		}
		return s
	}
	if info == "written" {
		s += fmt.Sprintf(": the value the interpreter makes of the source text a against the constructed object (%s): cmp=%d equals=%d",
			c12SortedCanon(vals[x]), t.V["xc"][x], t.V["xe"][x])
		if len(t.panics) > 0 {
			s += "; " + t.panics[0]
		}
		return s
	}
	M := t.M
	if strings.HasPrefix(law, "trans_") {
		s += fmt.Sprintf(", c = %s (%s)", c12Source(vals[z]), kind(vals[z]))
		s += fmt.Sprintf(": cmp(a,b)=%d cmp(b,c)=%d cmp(a,c)=%d, equals %d %d %d, a<=b %d b<=c %d a<=c %d, a==b %d b==c %d a==c %d",
			M["cmp"][x][y], M["cmp"][y][z], M["cmp"][x][z], M["eq"][x][y], M["eq"][y][z], M["eq"][x][z],
			M["tle"][x][y], M["tle"][y][z], M["tle"][x][z], M["teq"][x][y], M["teq"][y][z], M["teq"][x][z])
	} else {
		s += fmt.Sprintf(": cmp(a,b)=%d cmp(b,a)=%d equals=%d lookup=%d min=%d max=%d", M["cmp"][x][y], M["cmp"][y][x], M["eq"][x][y], M["look"][x][y], M["mn"][x][y], M["mx"][x][y])
		for _, f := range c12Forms {
			s += fmt.Sprintf("; %s [< <= > >= == != {a:1}[b]]=[", f.tag)
			for k, op := range c12Ops7 {
				if k > 0 {
					s += " "
				}
				s += strconv.Itoa(M[f.pfx+op][x][y])
			}
			s += "]"
		}
	}
	if len(t.panics) > 0 {
		s += "; " + t.panics[0]
	}
	return s
}

func replayC12(rp map[string]any) (bool, string) {
	var vals []c12Val
	b, _ := json.Marshal(rp["values"])
	if err := json.Unmarshal(b, &vals); err != nil || len(vals) == 0 {
		return false, "replay file has no values"
	}
	law, _ := rp["law"].(string)
	info, _ := rp["info"].(string)
	idx := func(k string) int { f, _ := rp[k].(float64); return int(f) }
	if rp["unrepeatable"] == true {
		// the instance was broken when it was recorded and held when the same values were evaluated again: what is
		// replayed is the repetition itself (twice in this process, the answers must agree and the law must hold)
		h1, m1 := c12ReplayInstance(law, info, vals, idx("x"), idx("y"), idx("z"))
		h2, m2 := c12ReplayInstance(law, info, vals, idx("x"), idx("y"), idx("z"))
		switch {
		case h1 && h2:
			return true, ""
		case !h1:
			return false, m1
		}
		return false, m2
	}
	return c12ReplayInstance(law, info, vals, idx("x"), idx("y"), idx("z"))
}

// ---------------------------------------------------------------------------- signatures

// c12HasHistory: some value of the universe is made after a session event or has a construction history.
func c12HasHistory(u []c12Val) bool {
	for _, v := range u {
		if v.epoch() > 0 || c12Hows(v) != "" {
			return true
		}
	}
	return false
}

// c12Hows lists the construction-history tags of a value and of its parts.
func c12Hows(a c12Val) string {
	s := a.How
	switch a.T {
	case "arr":
		for _, e := range a.elems() {
			s += c12Hows(e)
		}
	case "map":
		for _, p := range a.pairs() {
			s += c12Hows(p[0]) + c12Hows(p[1])
		}
	}
	return s
}

// c12Same: the two universe values are the same value (OrderLaws!Same for values whose maps have no
// equivalent keys other than identical ones): equal up to the tags and up to the order in which the
// pairs of a map are listed.
func c12Same(a, b c12Val) bool { return c12SortedCanon(a) == c12SortedCanon(b) }

func c12SortedCanon(a c12Val) string {
	switch a.T {
	case "arr":
		var parts []string
		for _, e := range a.elems() {
			parts = append(parts, c12SortedCanon(e))
		}
		return "[" + strings.Join(parts, ",") + "]"
	case "map":
		val := map[string]string{} // a key that is listed again gets the later value and keeps its first spelling
		spelt := map[string]string{}
		var keys []string
		for _, p := range a.pairs() {
			k := c12SortedCanon(p[0])
			id := k
			switch { // 5 and 5.0 are one key (numbers that are exact both as int64 and as float64)
			case p[0].T == "int" && !c12IntInexact(p[0].int64()):
				id = "num:" + strconv.FormatFloat(float64(p[0].int64()), 'g', -1, 64)
			case p[0].T == "float":
				if f := p[0].float64(); f == math.Trunc(f) && math.Abs(f) < 9.2e18 {
					id = "num:" + strconv.FormatFloat(f+0, 'g', -1, 64)
				}
			}
			if _, seen := val[id]; !seen {
				keys = append(keys, id)
				spelt[id] = k
			}
			val[id] = c12SortedCanon(p[1])
		}
		sort.Strings(keys)
		var parts []string
		for _, id := range keys {
			parts = append(parts, spelt[id]+":"+val[id])
		}
		return "{" + strings.Join(parts, ",") + "}"
	}
	return a.canon()
}

// c12Leaves collects the scalar leaves of a value.
func c12Leaves(a c12Val, f func(c12Val)) {
	switch a.T {
	case "arr":
		for _, e := range a.elems() {
			c12Leaves(e, f)
		}
	case "map":
		for _, p := range a.pairs() {
			c12Leaves(p[0], f)
			c12Leaves(p[1], f)
		}
	default:
		f(a)
	}
}

// c12IntInexact: the integer is not a float64 (float64(i) rounds).
func c12IntInexact(i int64) bool {
	f := float64(i)
	if f >= 9223372036854775808.0 { // rounded up to 2^63
		return true
	}
	return int64(f) != i
}

// c12RoundingPair: walking a and b in parallel reaches an integer that is not a float64 facing a
// float - the one place where object.Cmp converts through float64 and loses the difference.
func c12RoundingPair(a, b c12Val) bool {
	switch {
	case a.T == "int" && b.T == "float":
		f := b.float64()
		return c12IntInexact(a.int64()) && f == f && !math.IsInf(f, 0) && math.Abs(f) >= 9007199254740992.0
	case a.T == "float" && b.T == "int":
		return c12RoundingPair(b, a)
	case a.T == "arr" && b.T == "arr":
		ea, eb := a.elems(), b.elems()
		if len(ea) != len(eb) {
			return false
		}
		for i := range ea {
			if c12RoundingPair(ea[i], eb[i]) {
				return true
			}
		}
	case a.T == "map" && b.T == "map":
		pa, pb := a.pairs(), b.pairs()
		if len(pa) != len(pb) {
			return false
		}
		for i := range pa {
			if c12RoundingPair(pa[i][0], pb[i][0]) || c12RoundingPair(pa[i][1], pb[i][1]) {
				return true
			}
		}
	}
	return false
}

// c12Signature names a broken instance narrowly: <feature of the values>-<law family>.
func c12Signature(law, info string, vals []c12Val) string {
	family := strings.ReplaceAll(law, "_", "-")
	switch {
	case strings.HasPrefix(law, "trans_"):
		family = "not-transitive"
	case law == "total":
		family = "panics"
	case law == "answered":
		family = "operator-gives-no-boolean"
	}
	// feature: int/float rounding pair among the values (it never makes anything panic)
	rounding := false
	for i := range vals {
		if family == "panics" || family == "operator-gives-no-boolean" {
			break
		}
		for j := range vals {
			if i != j && c12RoundingPair(vals[i], vals[j]) {
				rounding = true
			}
		}
	}
	if rounding {
		return "cmp-int-float-beyond-2^53-" + family
	}
	// features of the history of the values: the same value built differently; made in different epochs
	suffix := ""
	for i := range vals {
		for j := range vals {
			if i < j && vals[i].epoch() != vals[j].epoch() {
				suffix = "-across-session-events"
			}
		}
	}
	if (strings.HasPrefix(law, "reread_") || law == "answers_repeat") && len(vals) > 0 {
		// the same text read again / the same comparison asked again
		w := vals[0].T
		if h := c12Hows(vals[0]); h != "" && c12Written(vals[0]) {
			w += "-written-as-" + h
		}
		if law == "answers_repeat" {
			return w + "-answers-change-on-repetition" + suffix
		}
		return w + "-read-again-differs" + suffix
	}
	if info == "written" && len(vals) > 0 { // the constructed object against the value of its source text
		h := c12Hows(vals[0])
		if h == "" {
			h = "plain"
		}
		return vals[0].T + "-written-as-" + h + "-" + family + suffix
	}
	for i := range vals {
		for j := range vals {
			if i < j && c12Same(vals[i], vals[j]) && c12Hows(vals[i]) != c12Hows(vals[j]) {
				if vals[i].T == "int" || vals[i].T == "float" {
					return "same-" + vals[i].T + "-written-differently-" + family + suffix
				}
				return "same-" + vals[i].T + "-built-differently-" + family + suffix
			}
		}
	}
	family += suffix
	nan, negz, fn, quotes := false, false, false, 0
	types := map[string]bool{}
	for _, v := range vals {
		types[v.T] = true
		c12Leaves(v, func(l c12Val) {
			switch l.T {
			case "float":
				f := l.float64()
				if f != f {
					nan = true
				}
				if f == 0 && math.Signbit(f) {
					negz = true
				}
			case "func":
				fn = true
			case "quote":
				quotes++
			}
		})
	}
	switch {
	case quotes >= 2 || (quotes >= 1 && family == "panics"):
		// a quote compared with a quote (as a map key a quote is compared with itself)
		return "quote-" + family
	case nan:
		return "nan-" + family
	case negz:
		return "negative-zero-" + family
	case fn:
		return "func-" + family
	}
	var ts []string
	for k := range types {
		ts = append(ts, k)
	}
	sort.Strings(ts)
	sig := "cmp-" + strings.Join(ts, "-") + "-" + family
	if info == "param" || info == "register_left" || info == "register_right" {
		sig += "-in-function"
	}
	return sig
}

// ---------------------------------------------------------------------------- random universes

var c12FuncPool = [][2]string{
	{"func(x){x}", "x=>x"}, {"func(x){x+1}", "x=>x+1"}, {"func(a,b){a+b}", "(a,b)=>a+b"}, {"func(){1}", "()=>1"},
}

func c12GenInt(r *rand.Rand) int64 {
	const p53 = int64(1) << 53
	switch r.Intn(8) {
	case 0, 1:
		return int64(r.Intn(7) - 3)
	case 2:
		return p53 + int64(r.Intn(7)-3)
	case 3:
		return -p53 + int64(r.Intn(7)-3)
	case 4:
		return math.MaxInt64 - int64(r.Intn(3))
	case 5:
		return math.MinInt64 + int64(r.Intn(3))
	case 6:
		return (int64(1) << uint(54+r.Intn(9))) + int64(r.Intn(5)-2)
	default:
		return r.Int63() - r.Int63()
	}
}

func c12GenFloat(r *rand.Rand) float64 {
	switch r.Intn(10) {
	case 0:
		return []float64{0, math.Copysign(0, -1), 1, -1, 0.5, 1.5, 2}[r.Intn(7)]
	case 1:
		return []float64{math.NaN(), math.Inf(1), math.Inf(-1)}[r.Intn(3)]
	case 2, 3:
		return 9007199254740992.0 + float64(2*(r.Intn(5)-2))
	case 4:
		return -9007199254740992.0 + float64(2*(r.Intn(5)-2))
	case 5:
		return []float64{9223372036854775808.0, -9223372036854775808.0, 9223372036854774784.0, 18446744073709551616.0, -9223372036854777856.0}[r.Intn(5)]
	case 6, 7:
		return float64(c12GenInt(r)) // the float next to an integer of the other generator
	default:
		return float64(r.Intn(9)-4) / 2
	}
}

// c12Notated writes a number in one of the notations of its type (or leaves it as it is).
func c12Notated(r *rand.Rand, a c12Val) c12Val {
	a.How = ""
	switch a.T {
	case "int":
		a.How = []string{"hex", "under", "lit"}[r.Intn(3)]
		if a.How == "lit" && a.int64() != math.MinInt64 {
			a.How = ""
		}
	case "float":
		a.How = []string{"intlit", "exp"}[r.Intn(2)]
		if f := a.float64(); f != f || math.IsInf(f, 0) || !c12FloatNotationOK(f, a.How) {
			a.How = ""
		}
	}
	return a
}

func c12GenScalar(r *rand.Rand) c12Val {
	switch r.Intn(12) {
	case 0, 1, 2, 3:
		if r.Intn(5) == 0 {
			return c12Notated(r, c12Int(c12GenInt(r)))
		}
		return c12Int(c12GenInt(r))
	case 4, 5, 6, 7:
		if r.Intn(4) == 0 {
			return c12Notated(r, c12Float(c12GenFloat(r)))
		}
		return c12Float(c12GenFloat(r))
	case 8:
		return c12Val{T: "bool", V: c12Raw(r.Intn(2) == 0)}
	case 9:
		return c12Val{T: "nil"}
	case 10:
		n := r.Intn(4)
		b := make([]byte, n)
		for i := range b {
			b[i] = "abA 0"[r.Intn(5)]
		}
		return c12Str(string(b))
	default:
		f := c12FuncPool[r.Intn(len(c12FuncPool))]
		return c12Func(f[0], f[1])
	}
}

func c12GenValue(r *rand.Rand, depth int) c12Val {
	if depth == 0 || r.Intn(10) < 6 {
		return c12GenScalar(r)
	}
	if r.Intn(2) == 0 {
		n := r.Intn(4)
		if r.Intn(12) == 0 {
			n = 9 + r.Intn(2) // big array
		}
		el := make([]c12Val, n)
		for i := range el {
			el[i] = c12GenValue(r, depth-1)
		}
		return c12Arr(el)
	}
	n := r.Intn(4)
	if r.Intn(8) == 0 {
		n = 5 + r.Intn(2) // big map
	}
	ps := make([][2]c12Val, n)
	for i := range ps {
		ps[i] = [2]c12Val{c12GenValue(r, depth-1), c12GenValue(r, depth-1)}
	}
	return c12Map(ps)
}

// c12Twin: a value that differs from a in one scalar representation only (int <-> float of the
// nearest value), so that chains of near-equal containers occur.
func c12Twin(a c12Val) c12Val {
	switch a.T {
	case "int":
		return c12Float(float64(a.int64()))
	case "float":
		f := a.float64()
		if f == f && math.Abs(f) < 9.2e18 {
			return c12Int(int64(f))
		}
	case "arr":
		el := a.elems()
		if len(el) > 0 {
			el[0] = c12Twin(el[0])
			return c12Arr(el)
		}
	case "map":
		ps := a.pairs()
		if len(ps) > 0 {
			ps[0][1] = c12Twin(ps[0][1])
			return c12Map(ps)
		}
	}
	return a
}

// c12Rebuilt: the same container with another construction history.
func c12Rebuilt(r *rand.Rand, a c12Val) c12Val {
	switch a.T {
	case "int", "float":
		return c12Notated(r, a)
	case "arr":
		a.How = []string{"", "slice", "grown"}[r.Intn(3)]
	case "map":
		a.Cut = nil
		a.How = []string{"", "shrunk", "dupkeys", "grown", "merged", "merged_head", "merged_tail"}[r.Intn(7)]
		if a.How == "dupkeys" && len(a.pairs()) == 0 {
			a.How = "shrunk"
		}
	}
	return a
}

// c12GenSeam: a sum of two maps whose operands meet or overlap (OrderLaws!Seams, drawn at random), and a twin with
// the same pairs: the left operand has 1..7 ascending number keys (each an int or, 1 in 4, the float of the same
// value), the right operand begins at the greatest key of the left one (the same key, or its int/float twin), above
// it, somewhere inside it, or ends at / below its smallest key; its values are strings, so it is visible which
// value survives under a shared key.
func c12GenSeam(r *rand.Rand) (sum, twin c12Val) {
	num := func(k int, flip bool) c12Val {
		if flip {
			return c12Float(float64(k))
		}
		return c12Int(int64(k))
	}
	nl, nr := 1+r.Intn(7), 1+r.Intn(6)
	if r.Intn(2) == 0 {
		nl = 4 + r.Intn(3) // around the size at which the representation changes
	}
	lo := r.Intn(4)
	var ps [][2]c12Val
	leftFloat := map[int]bool{}
	for k := lo; k < lo+nl; k++ {
		leftFloat[k] = r.Intn(4) == 0
		ps = append(ps, [2]c12Val{num(k, leftFloat[k]), c12Int(int64(k))})
	}
	hi := lo + nl - 1
	var start int
	switch r.Intn(7) {
	case 0, 1, 2: // begins at the greatest key of the left operand
		start = hi
	case 3: // above it
		start = hi + 1 + r.Intn(2)
	case 4: // inside it
		start = lo + r.Intn(nl)
	case 5: // ends at its smallest key
		start = lo - nr + 1
	default: // ends below it
		start = lo - nr - r.Intn(2)
	}
	step := 1 // mostly consecutive keys, sometimes every other one
	if r.Intn(4) == 0 {
		step = 2
	}
	for i := 0; i < nr; i++ {
		k := start + i*step
		flip := leftFloat[k]
		if r.Intn(2) == 0 { // the same number as a value of the other type is the same key
			flip = !flip
		}
		ps = append(ps, [2]c12Val{num(k, flip), c12Str("r" + strconv.Itoa(i))})
	}
	sum = c12Map(ps)
	sum.How, sum.Cut = "merged", &nl
	twin = c12Map(ps) // a literal that lists the same pairs in the same order, or the same assignments one by one
	if r.Intn(2) == 0 {
		twin.How = "grown"
	}
	return sum, twin
}

// c12Large: a container beyond the size at which the representation changes.
func c12Large(a c12Val) bool {
	return (a.T == "map" && len(a.pairs()) > 4) || (a.T == "arr" && len(a.elems()) > 8)
}

// c12GenUniverse draws n values; epochs > 0 spreads them over that many + 1 epochs of the session.
func c12GenUniverse(r *rand.Rand, n, epochs int) []c12Val {
	u := make([]c12Val, 0, n)
	seam := false
	for len(u) < n {
		switch k := r.Intn(10); {
		case !seam && len(u) >= n/2 && len(u)+1 < n:
			seam = true
			// one sum of two maps that meet or overlap and a twin of it, in every universe
			a, b := c12GenSeam(r)
			if r.Intn(3) == 0 { // as parts of other values
				a, b = c12Arr([]c12Val{a}), c12Arr([]c12Val{b})
			}
			u = append(u, a, b)
		case k == 0 && len(u) > 0:
			u = append(u, c12Rebuilt(r, u[r.Intn(len(u))])) // a copy, maybe built differently
		case k <= 2 && len(u) > 0:
			u = append(u, c12Twin(u[r.Intn(len(u))]))
		default:
			v := c12GenValue(r, 2)
			if c12Large(v) && len(u)+1 < n {
				// a container that is large enough to change representation while it is built comes with a
				// twin that got there another way (one pair / element at a time, or as a sum)
				w := v
				w.How = []string{"grown", "grown", "merged", "merged_head", "merged_tail"}[r.Intn(5)]
				if w.T == "arr" {
					w.How = "grown"
				}
				u = append(u, v, w)
				continue
			}
			if r.Intn(6) == 0 {
				v = c12Rebuilt(r, v)
			}
			u = append(u, v)
		}
	}
	if epochs > 0 {
		for i := range u {
			u[i] = u[i].at(r.Intn(epochs + 1))
		}
	}
	return u
}

// ---------------------------------------------------------------------------- the check

func c12Cfg(mode, tier string, inv bool) string { //nolint
	s := fmt.Sprintf("CONSTANTS\n Mode = %q\n Tier = %q\n MaxWitness = 3\nINIT Init\nNEXT Next\n", mode, tier)
	if inv {
		s += "INVARIANT LawsHold\n"
	}
	return s
}

// c12Emit is what a TLC run of OrderLaws emitted.
type c12Emit struct {
	universe, history []c12Val
	events            []string
	modelTable        json.RawMessage
	broken, disagree  []c12Broken
}

func c12ReadEmitted(path string) (*c12Emit, error) {
	em := &c12Emit{}
	if _, e := os.Stat(path); os.IsNotExist(e) {
		return em, nil // nothing emitted: no broken law, no disagreement
	}
	err := ReadLines(path, func(line []byte) error {
		var head struct {
			Law    string          `json:"law"`
			Val    c12Val          `json:"val"`
			Table  json.RawMessage `json:"table"`
			Events []string        `json:"events"`
		}
		if e := json.Unmarshal(line, &head); e != nil {
			return fmt.Errorf("emitted line %q: %w", line, e)
		}
		switch head.Law {
		case "universe":
			em.universe = append(em.universe, head.Val)
		case "history":
			em.history = append(em.history, head.Val)
		case "history_events":
			em.events = head.Events
		case "model_table":
			em.modelTable = append(json.RawMessage(nil), head.Table...)
		default:
			var b c12Broken
			if e := json.Unmarshal(line, &b); e != nil {
				return fmt.Errorf("emitted line %q: %w", line, e)
			}
			if b.Law == "model_disagreement" {
				em.disagree = append(em.disagree, b)
			} else {
				em.broken = append(em.broken, b)
			}
		}
		return nil
	})
	return em, err
}

func checkC12(c *Ctx) {
	tier := c.Tier
	c.Assume("values a program can compare = the universe of OrderLaws!OrderUniverse plus seeded random values of the same kinds (errors, macros, quotes and extensions are not ordinary values)")
	c.Assume("structural identity of the result of min/max is decided on the abstract value (type, bits, text), not on Go pointer identity")

	// 1. export: the universe of the spec and the table the documented order produces on it.
	t0 := time.Now()
	r, err := c.TLC(TLCOpt{Spec: "OrderLaws", Cfg: c12Cfg("export", tier, true), Workers: 1})
	if err != nil {
		c.Infra(err)
		return
	}
	ex, err := c12ReadEmitted(r.Emitted)
	if err != nil {
		c.Infra(err)
		return
	}
	universe, modelTable := ex.universe, ex.modelTable
	if len(ex.history) < 20 || strings.Join(ex.events, ",") != strings.Join(c12HistoryEvents, ",") {
		c.Infra(fmt.Errorf("export run: %d history values, events %v (the harness knows %v)", len(ex.history), ex.events, c12HistoryEvents))
		return
	}
	n := len(universe)
	var mt struct {
		N   int     `json:"n"`
		Cmp [][]int `json:"cmp"`
	}
	if err := json.Unmarshal(modelTable, &mt); err != nil || n < 40 || mt.N != n || len(mt.Cmp) != n {
		c.Infra(fmt.Errorf("export run: %d universe values, model table n=%d (%v)", n, mt.N, err))
		return
	}
	c.Cov("universe_size", n)
	c.Cov("export_run_s", time.Since(t0).Seconds())

	// 2. the relation tables of the real code: curated universe + seeded random universes.
	t0 = time.Now()
	var tables []*c12Table
	cur, err := c12Evaluate(universe, "curated")
	if err != nil {
		c.Infra(fmt.Errorf("curated universe: %w", err))
		return
	}
	tables = append(tables, cur)
	c.Cov("curated_eval_s", time.Since(t0).Seconds())
	// values of several epochs of one session: made before / after a function is redefined, a
	// constant rebound, many functions defined (OrderLaws!HistoryUniverse)
	hist, err := c12Evaluate(ex.history, "history")
	if err != nil {
		c.Infra(fmt.Errorf("history universe: %w", err))
		return
	}
	tables = append(tables, hist)
	c.Cov("history_universe_size", len(ex.history))
	c.Cov("curated_and_history_eval_s", time.Since(t0).Seconds())
	nRandom, randSize := c.Pick(6, 120), c.Pick(24, 32)
	for k := 0; k < nRandom; k++ {
		u := c12GenUniverse(c.Rng, randSize, (k%2)*2) // every other one spread over three epochs of its session
		t, err := c12Evaluate(u, "random")
		if err != nil {
			c.Infra(fmt.Errorf("random universe %d: %w", k+1, err))
			return
		}
		tables = append(tables, t)
	}
	var buf bytes.Buffer
	enc := json.NewEncoder(&buf)
	buf.Write(bytes.TrimSpace(modelTable)) // batch 1: the documented order itself (src = "model")
	buf.WriteByte('\n')
	pairs, triples := int64(n*n), int64(n*n*n)
	for _, t := range tables {
		if err := enc.Encode(t); err != nil {
			c.Infra(err)
			return
		}
		pairs += int64(t.N * t.N)
		triples += int64(t.N * t.N * t.N)
		for i := 0; i < t.N; i++ {
			ci := t.U[i].canon()
			for j := 0; j < t.N; j++ {
				cj := t.U[j].canon()
				c.Case(ci+"|"+cj, ci != cj)
			}
		}
	}
	c.Cov("real_code_eval_s", time.Since(t0).Seconds())
	c.Cov("batches", len(tables)+1)
	c.Cov("pairs_checked", pairs)
	c.Cov("triples_checked", triples)
	c.Sample(map[string]any{"a": c12Source(universe[5]), "b": c12Source(universe[17]), "cmp": cur.M["cmp"][5][17], "equals": cur.M["eq"][5][17],
		"top_level_[< <= > >= == != {a:1}[b]]": func() []int {
			var r []int
			for _, op := range c12Ops7 {
				r = append(r, cur.M["t"+op][5][17])
			}
			return r
		}(), "min": cur.M["mn"][5][17], "max": cur.M["mx"][5][17]})
	if len(tables) > 2 {
		t := tables[2]
		c.Sample(map[string]any{"random_universe_1": func() []string {
			var s []string
			for _, v := range t.U {
				s = append(s, c12Source(v))
			}
			return s
		}()})
	}

	// binding self-test, the last batch of the same run: one corrupted entry of a table must be reported
	// (the model's own table is the base: it is clean whatever the code under test does)
	mtab, err := c12TableFromJSON(modelTable)
	if err != nil {
		c.Infra(fmt.Errorf("model table: %w", err))
		return
	}
	sab := c12Sub(mtab, 12)
	sab.Src = "selftest"
	sab.M["cmp"][0][1], sab.M["cmp"][1][0] = 1, 1 // both "greater": not antisymmetric
	if err := enc.Encode(sab); err != nil {
		c.Infra(err)
		return
	}
	sabBatch := len(tables) + 2 // as TLC counts: the model, the recorded tables, this one
	pairs += int64(sab.N * sab.N)

	if d := os.Getenv("C12_DUMP"); d != "" { // debugging aid: keep the recorded tables
		_ = os.WriteFile(d, buf.Bytes(), 0o644)
	}
	// 3. TLC checks the laws over all pairs and triples of every batch.
	t0 = time.Now()
	r, err = c.TLC(TLCOpt{Spec: "OrderLaws", Cfg: c12Cfg("table", tier, false), Workers: c.Pick(4, 8),
		Files: map[string][]byte{"order_table.ndjson": buf.Bytes()}, Timeout: 20 * time.Minute})
	if err != nil {
		c.Infra(err)
		return
	}
	if r.Distinct != 2*pairs {
		c.Infra(fmt.Errorf("table run visited %d states, want %d (2 per pair)", r.Distinct, 2*pairs))
		return
	}
	c.Cov("table_run_s", time.Since(t0).Seconds())
	c.AddTraces(pairs - int64(n*n) - int64(sab.N*sab.N)) // pair records of the real code (the model and self-test batches are not)
	c.Cov("exhaustive", true)
	em, err := c12ReadEmitted(r.Emitted)
	if err != nil {
		c.Infra(err)
		return
	}
	allBroken, disagree := em.broken, em.disagree
	// batch 1 is the model: MC of the documented order; the recorded batches follow
	var broken []c12Broken
	caught := false
	for _, b := range allBroken {
		if b.B == sabBatch {
			caught = caught || (b.Law == "cmp_antisymmetric" && b.X == 1 && b.Y == 2)
			continue
		}
		if b.B == 1 {
			c.Infra(fmt.Errorf("the documented order GrolOrder!Cmp breaks its own law %s on OrderUniverse at (%d,%d,%v)", b.Law, b.X, b.Y, b.Z))
			return
		}
		b.B--
		broken = append(broken, b)
	}
	for i := range disagree {
		disagree[i].B--
	}
	c.Note("MC of the documented order: GrolOrder!Cmp satisfies every law on the %d-value universe (%d pairs, %d triples)", n, n*n, n*n*n)
	if !caught {
		c.Infra(fmt.Errorf("vacuous binding: a table with cmp[1][2] and cmp[2][1] of the same sign was accepted"))
		return
	}
	c12Report(c, tables, broken, disagree)
	c.Cov("sabotage_rejected", true)
}

// c12TableFromJSON reads a batch as OrderLaws emits / reads it.
func c12TableFromJSON(raw []byte) (*c12Table, error) {
	var fields map[string]json.RawMessage
	if err := json.Unmarshal(raw, &fields); err != nil {
		return nil, err
	}
	t := &c12Table{M: map[string][][]int{}, V: map[string][]int{}}
	for k, v := range fields {
		var err error
		switch k {
		case "n":
			err = json.Unmarshal(v, &t.N)
		case "src":
			err = json.Unmarshal(v, &t.Src)
		case "u":
			err = json.Unmarshal(v, &t.U)
		default:
			var m [][]int
			if json.Unmarshal(v, &m) == nil {
				t.M[k] = m
				break
			}
			var vec []int
			if err = json.Unmarshal(v, &vec); err == nil {
				t.V[k] = vec
			}
		}
		if err != nil {
			return nil, fmt.Errorf("field %s: %w", k, err)
		}
	}
	if t.N == 0 || len(t.U) != t.N || len(t.M["cmp"]) != t.N {
		return nil, fmt.Errorf("incomplete table (n=%d)", t.N)
	}
	return t, nil
}

// c12Sub restricts a table to its first n values.
func c12Sub(t *c12Table, n int) *c12Table {
	r := &c12Table{N: n, Src: t.Src, U: t.U[:n], M: map[string][][]int{}, V: map[string][]int{}}
	for k, m := range t.M {
		c := make([][]int, n)
		for i := range c {
			c[i] = append([]int(nil), m[i][:n]...)
		}
		r.M[k] = c
	}
	for k, v := range t.V {
		c := append([]int(nil), v[:n]...)
		if strings.Contains(k, "big") { // indices into the universe beyond n are not meaningful any more
			for i := range c {
				if c[i] > n {
					c[i] = i + 1
				}
			}
		}
		r.V[k] = c
	}
	return r
}

// c12Report turns TLC's broken-law lines into failures with narrow signatures and the
// model disagreements into evidence.
func c12Report(c *Ctx, tables []*c12Table, broken, disagree []c12Broken) {
	sort.Slice(broken, func(i, j int) bool {
		a, b := broken[i], broken[j]
		if a.B != b.B {
			return a.B < b.B
		}
		if wa, wb := strings.HasPrefix(a.Law, "bigmap"), strings.HasPrefix(b.Law, "bigmap"); wa != wb {
			return wb // the laws about single pairs and triples first: they name the narrowest instance
		}
		if a.Law != b.Law {
			return a.Law < b.Law
		}
		if a.X != b.X {
			return a.X < b.X
		}
		return a.Y < b.Y
	})
	instances, confirmed, freshOnly := 0, 0, 0
	byLaw := map[string]int{}
	const maxPerSig = 25
	const maxFresh = 24 // instances re-evaluated in a child process
	fresh := map[int]*c12Table{}
	perSig := map[string]int{}
	tConfirm := time.Now()
	for _, b := range broken {
		byLaw[b.Law] += b.N
		if b.B < 1 || b.B > len(tables) {
			c.Infra(fmt.Errorf("broken-law line names batch %d", b.B))
			return
		}
		t := tables[b.B-1]
		zs := b.Z
		if len(zs) == 0 {
			zs = []int{b.Y}
		}
		for _, zi := range zs {
			instances++
			orig := []int{b.X - 1, b.Y - 1, zi - 1}
			idx := make([]int, 3)
			var vals []c12Val
			whole := b.Law == "bigmap_lookup_equivalent" || (b.Law == "total" && strings.Contains(b.Info, "big"))
			if whole { // laws about the map of all values: the instance is the universe and the key
				vals, idx = t.U, orig
			} else {
				pos := map[int]int{} // the same universe index stays the same value of the instance
				for k, o := range orig {
					if _, seen := pos[o]; !seen {
						pos[o] = len(vals)
						vals = append(vals, t.U[o])
					}
					idx[k] = pos[o]
				}
			}
			sigVals := vals
			if !strings.HasPrefix(b.Law, "trans_") {
				sigVals = []c12Val{t.U[b.X-1], t.U[b.Y-1]}
			}
			sig := c12Signature(b.Law, b.Info, sigVals)
			if whole && b.Law == "total" { // the whole map panicked: name it after what the universe holds
				sig = c12Signature(b.Law, b.Info, t.U)
			}
			if b.Law == "bigmap_lookup_equivalent" {
				// narrow: the key x and the key g whose value came back are both "equal" (real cmp = 0)
				// to a third key f of the universe, and one of these equalities is an int/float rounding pair
				sig = "map-key-confusion-" + t.U[b.X-1].T
				x, cm := b.X-1, t.M["cmp"]
				g := t.V[b.Info][x] - 1
				for f := range t.U {
					if g >= 0 && g < t.N {
						if cm[x][f] == 0 && cm[g][f] == 0 && (c12RoundingPair(t.U[x], t.U[f]) || c12RoundingPair(t.U[g], t.U[f])) {
							sig = "cmp-int-float-beyond-2^53-map-key-confusion"
						}
					} else if c12RoundingPair(t.U[x], t.U[f]) {
						sig = "cmp-int-float-beyond-2^53-map-key-confusion"
					}
				}
				for _, o := range t.U {
					if o.epoch() != t.U[x].epoch() && !strings.HasSuffix(sig, "events") {
						sig += "-across-session-events"
					}
				}
			}
			var holds bool
			var msg string
			if perSig[sig] >= maxPerSig { // enough confirmed instances of this kind: count the rest
				c.Fail(sig, fmt.Sprintf("law %s(%s) at batch %d (%d,%d,%d) (not re-evaluated: %d instances of this signature were confirmed before)", b.Law, b.Info, b.B, b.X, b.Y, zi, maxPerSig),
					map[string]any{"law": b.Law, "info": b.Info, "values": vals, "x": idx[0], "y": idx[1], "z": idx[2], "batch": b.B, "universe": t.Src})
				continue
			}
			perSig[sig]++
			if whole { // one fresh evaluation of the batch's universe serves all its instances
				if fresh[b.B] == nil {
					ft, err := c12Evaluate(t.U, "random")
					if err != nil {
						c.Infra(fmt.Errorf("re-evaluating batch %d: %w", b.B, err))
						return
					}
					fresh[b.B] = ft
				}
				holds, msg = c12CheckInstance(fresh[b.B], b.Law, b.Info, idx[0], idx[1], idx[2])
			} else {
				holds, msg = c12ReplayInstance(b.Law, b.Info, vals, idx[0], idx[1], idx[2])
				if !holds && b.Law == "same_value_equal" && len(vals) == 2 {
					// two arrays that should be the same value: the instance is the first pair of elements that
					// breaks the law by itself (the maps built differently, not the arrays that carry them)
					if ea, eb := vals[0].elems(), vals[1].elems(); vals[0].T == "arr" && vals[1].T == "arr" && len(ea) == len(eb) && len(ea) > 1 {
						for k := range ea {
							if !c12Same(ea[k], eb[k]) || c12Hows(ea[k]) == c12Hows(eb[k]) {
								continue
							}
							if h, m := c12ReplayInstance(b.Law, b.Info, []c12Val{ea[k], eb[k]}, 0, 1, 1); !h {
								vals, idx, msg = []c12Val{ea[k], eb[k]}, []int{0, 1, 1}, m
								sig = c12Signature(b.Law, b.Info, vals)
								break
							}
						}
					}
				}
				if holds && c12HasHistory(t.U) {
					// what a value does may depend on what the session went through before it was made:
					// the instance is then the universe of the batch, in its order, and the indices
					if fresh[b.B] == nil {
						ft, err := c12Evaluate(t.U, t.Src)
						if err != nil {
							c.Infra(fmt.Errorf("re-evaluating batch %d: %w", b.B, err))
							return
						}
						fresh[b.B] = ft
					}
					vals, idx = t.U, orig
					holds, msg = c12CheckInstance(fresh[b.B], b.Law, b.Info, idx[0], idx[1], idx[2])
				}
			}
			extra := map[string]any{}
			if holds {
				if h, _ := c12CheckInstance(t, b.Law, b.Info, orig[0], orig[1], orig[2]); h {
					c.Infra(fmt.Errorf("TLC reported %s(%s) at batch %d (%d,%d,%d) but the harness's reading of the law holds on the very table TLC judged", b.Law, b.Info, b.B, b.X, b.Y, zi))
					return
				}
				// the instance holds in this process NOW.  What a text evaluates to and what a comparison answers
				// may depend on whether the process has seen it before (tables kept across inputs and interpreter
				// states): the instance - then the universe of its batch - is evaluated in a process of its own
				if freshOnly >= maxFresh { // enough instances of this run were settled in processes of their own
					c.Fail(sig, fmt.Sprintf("law %s(%s) at batch %d (%d,%d,%d) holds when re-evaluated in the process of the check (not re-evaluated in a process of its own: %d instances that were broken only on first use were settled that way before)", b.Law, b.Info, b.B, b.X, b.Y, zi, maxFresh),
						map[string]any{"law": b.Law, "info": b.Info, "values": vals, "x": idx[0], "y": idx[1], "z": idx[2], "batch": b.B, "universe": t.Src, "fresh_process": true})
					continue
				}
				mk := func(vs []c12Val, ix []int) map[string]any {
					return map[string]any{"property": "C12", "law": b.Law, "info": b.Info, "values": vs, "x": ix[0], "y": ix[1], "z": ix[2]}
				}
				h, m, err := c12FreshProcess(c.Scratch(), mk(vals, idx))
				if err == nil && h && len(vals) != len(t.U) {
					if h, m, err = c12FreshProcess(c.Scratch(), mk(t.U, orig)); !h {
						vals, idx = t.U, orig
					}
				}
				if err != nil {
					c.Infra(err)
					return
				}
				freshOnly++
				if !h {
					holds, msg = false, m+" [evaluated in a process of its own; in the process of the check, where these texts had been read and these values compared before, the same instance holds: the answer depends on repetition]"
					extra["fresh_process"] = true
				} else {
					// broken when the table was recorded, never again: the same input has two different outcomes,
					// which is what the determinism laws (reread_*, answers_repeat) forbid
					holds = false
					vals, idx = t.U, orig
					sig += "-not-repeatable"
					msg = fmt.Sprintf("law %s(%s) was broken at (%d,%d,%d) of batch %d (%s) when the table was recorded (%s) and holds whenever the same values are evaluated again (the instance, the universe of the batch, in a process of their own): the same input does not give the same answer twice",
						b.Law, b.Info, b.X, b.Y, zi, b.B, t.Src, c12Describe(b.Law, b.Info, t.U, orig[0], orig[1], orig[2], t))
					extra["unrepeatable"] = true
				}
			}
			confirmed++
			rp := map[string]any{"law": b.Law, "info": b.Info, "values": vals, "x": idx[0], "y": idx[1], "z": idx[2],
				"batch": b.B, "universe": t.Src}
			for k, v := range extra {
				rp[k] = v
			}
			c.Fail(sig, msg, rp)
		}
	}
	c.Cov("instances_broken_only_on_first_use_in_a_process", freshOnly)
	c.Cov("confirm_s", time.Since(tConfirm).Seconds())
	c.Cov("broken_law_instances_reported", instances)
	c.Cov("broken_law_instances_confirmed_on_real_code", confirmed)
	if len(byLaw) > 0 {
		c.Cov("broken_by_law", byLaw)
	}
	for _, t := range tables {
		for _, p := range t.panics {
			c.Note("real code: %s", p)
		}
	}
	// model disagreements: evidence only
	dis := map[string]int{}
	shown := 0
	for _, d := range disagree {
		t := tables[d.B-1]
		a, b := t.U[d.X-1], t.U[d.Y-1]
		kind := "other"
		if c12RoundingPair(a, b) {
			kind = "int-float-beyond-2^53"
		} else if d.Impl == 9 || d.Impl == 99 {
			for _, v := range []c12Val{a, b} {
				c12Leaves(v, func(l c12Val) {
					if l.T == "quote" {
						kind = "quote-panics"
					}
				})
			}
		}
		dis[d.Info+":"+kind]++
		if shown < 6 && (kind == "other" || shown < 3) {
			shown++
			c.Note("model_disagreement %s(%s, %s): real code %d, GrolOrder %d", d.Info, c12Source(a), c12Source(b), d.Impl, d.Model)
		}
	}
	c.Cov("model_disagreement", dis)
	c.Cov("model_disagreement_total", len(disagree))
	other := 0
	for k, v := range dis {
		if strings.HasSuffix(k, ":other") {
			other += v
		}
	}
	if len(disagree) > 0 {
		fmt.Printf("NOTE property=%s model_disagreement: %d recorded entries differ from the documented order GrolOrder!Cmp (%d of them are neither the int/float rounding beyond 2^53 nor a panic on quotes); evidence only, the verdict is the laws\n",
			c.Prop, len(disagree), other)
	}
}
