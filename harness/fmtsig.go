package main

// fmtsig: narrow signatures for failing format records.
//
// A failing case is attributed to a finding only if (1) the named syntactic feature ("hazard") is present
// in the tree of the source, (2) the same program with every hazard site neutralised (the offending
// operand / statement replaced by a neutral leaf) satisfies all laws, and (3) the program with every
// OTHER hazard neutralised but this one kept still fails. A failing case with no hazard, or one that
// still fails after neutralising all of them, gets the signature "...-unexplained" (a VIOLATION).

import (
	"encoding/json"
	"reflect"
	"sort"
	"strings"
)

// treeDiff descends into two dumped trees while exactly one child differs and returns the minimal
// differing pair (nodes or lists) with the path to it (diagnostics).
func treeDiff(a, b any, path string) (any, any, string) {
	switch x := a.(type) {
	case J:
		y, ok := b.(J)
		if !ok || x["k"] != y["k"] || len(x) != len(y) {
			return a, b, path
		}
		var diff []string
		for k, v := range x {
			w, ok := y[k]
			if !ok {
				return a, b, path
			}
			if !reflect.DeepEqual(v, w) {
				diff = append(diff, k)
			}
		}
		if len(diff) != 1 {
			return a, b, path
		}
		k := diff[0]
		switch x[k].(type) {
		case J, []any:
			return treeDiff(x[k], y[k], path+"."+x["k"].(string)+":"+k)
		}
		return a, b, path
	case []any:
		y, ok := b.([]any)
		if !ok || len(x) != len(y) {
			return a, b, path
		}
		var diff []int
		for i := range x {
			if !reflect.DeepEqual(x[i], y[i]) {
				diff = append(diff, i)
			}
		}
		if len(diff) != 1 {
			return a, b, path
		}
		return treeDiff(x[diff[0]], y[diff[0]], path)
	}
	return a, b, path
}

func parseDump(d string) []any {
	var v []any
	_ = json.Unmarshal([]byte(d), &v)
	return v
}

func deepCopy(v any) any {
	switch x := v.(type) {
	case J:
		o := make(J, len(x))
		for k, c := range x {
			o[k] = deepCopy(c)
		}
		return o
	case []any:
		o := make([]any, len(x))
		for i, c := range x {
			o[i] = deepCopy(c)
		}
		return o
	}
	return v
}

// ---------------------------------------------------------------------------------- hazards

const (
	hzSamePrecRight = "fmt-same-precedence-right-operand-loses-parens"
	hzAssocRegroup  = "fmt-associative-right-operand-regrouped"
	hzAssocExposes  = "fmt-associative-regroup-exposes-same-level-operator"
	hzSignSign      = "fmt-compact-minus-minus"
	hzStrEscape     = "fmt-string-escape-a-b-f-v-not-read-back"
	hzLambdaOperand = "fmt-lambda-operand-loses-parens"
	hzCallee        = "fmt-call-on-operator-expression-loses-parens"
	hzMapKV         = "fmt-map-literal-key-or-value-loses-parens"
	hzNumberDot     = "fmt-dot-on-number-literal-loses-parens"
	hzOpenSlice     = "fmt-open-slice-end-printed-as-nil"
	hzOpenInArr     = "fmt-open-range-in-array-literal-operand-parenthesised"
	hzStmtSign      = "fmt-statement-starting-with-sign-joins-previous"         // normal mode
	hzStmtSignC     = "fmt-compact-statement-starting-with-sign-joins-previous" // compact mode
	hzWordGlue      = "fmt-compact-adjacent-statements-glued"
	hzBracketStart  = "fmt-compact-statement-starting-with-bracket-applies-to-previous"
	hzCmtInExpr     = "fmt-comment-in-expression-position"
	hzCmtAfterLine  = "fmt-comment-after-semicolon-joins-line-comment"
	hzElseIfCmt     = "fmt-compact-else-block-comment-and-if-becomes-else-if"
	hzDotIndex      = "fmt-dot-index-expression-loses-parens"                              // a.(b + c) -> a.b + c
	hzMinusMinInt   = "fmt-prefix-minus-before-min-int-literal-printed-as-decrement"       // normal mode: - -9223372036854775808 -> --9223372036854775808
	hzStalePrev     = "fmt-block-first-statement-placed-by-last-comment-of-previous-block" // normal mode, C03
)

var hazardOrder = []string{hzSamePrecRight, hzAssocRegroup, hzAssocExposes, hzSignSign, hzStrEscape, hzLambdaOperand, hzCallee, hzMapKV, hzNumberDot, hzOpenSlice, hzOpenInArr,
	hzStmtSign, hzStmtSignC, hzWordGlue, hzBracketStart, hzCmtInExpr, hzCmtAfterLine, hzElseIfCmt, hzDotIndex, hzMinusMinInt, hzStalePrev}

var associativeOps = map[string]bool{"+": true, "*": true, "&&": true, "||": true, "&": true, "|": true, "^": true}

// leftSpineSameOp: every infix expression of r's own precedence level on r's left spine is r's operator
// (then `a op (r)` printed without the parentheses is a mere regrouping; otherwise - a ^ ((b - c) ^ d) ->
// a ^ b - c ^ d - the un-parenthesised text also tears the other operator's operands apart).
func leftSpineSameOp(r J) bool {
	n := r
	for {
		l, _ := n["l"].(J)
		if l == nil || !isInfixKind(l) || realPrec(l) != realPrec(r) {
			return true
		}
		if l["k"] != "inf" || l["op"] != r["op"] {
			return false
		}
		n = l
	}
}

func kindOf(n any) string {
	if j, ok := n.(J); ok {
		k, _ := j["k"].(string)
		return k
	}
	return ""
}

func isInfixKind(n J) bool { return n["k"] == "inf" || n["k"] == "asg" }

func realPrec(n J) int { // binding strength the REAL printer works with (ast.Precedences)
	switch n["k"] {
	case "inf":
		return prec[n["op"].(string)]
	case "asg":
		return 2
	case "pre", "post":
		return precPrefix
	case "idx":
		return precIndex
	case "dot", "dotbad":
		return precDot
	}
	return precAtom
}

// leftmost: the node whose text comes first when n is printed without parentheses around n itself
// (descends through left operands that the printer does not parenthesise).
func leftmost(n J) J {
	for {
		var l J
		switch n["k"] {
		case "inf", "asg", "idx", "dot", "dotbad":
			l, _ = n["l"].(J)
			if l == nil || l["k"] == "none" {
				return n
			}
			if (isInfixKind(l) || l["k"] == "pre") && realPrec(l) < realPrec(n) {
				return n // printed as "(" ...
			}
		case "call":
			l, _ = n["f"].(J)
		default:
			return n
		}
		if l == nil {
			return n
		}
		n = l
	}
}

// replaceLeftmost returns n with its leftmost node (see leftmost) replaced by repl.
func replaceLeftmost(n J, repl J) J {
	if reflect.DeepEqual(leftmost(n), n) {
		return repl
	}
	key := "l"
	if n["k"] == "call" {
		key = "f"
	}
	if c, ok := n[key].(J); ok {
		n[key] = replaceLeftmost(c, repl)
	}
	return n
}

// startsWithSignLiteral: the one literal TOKEN whose text starts with a sign character (-9223372036854775808 in any
// spelling; the parser folds `-` INT into one int token when the value is -2^63).
func startsWithSignLiteral(m J) bool {
	v, _ := m["v"].(string)
	return m["k"] == "int" && strings.HasPrefix(v, "-")
}

// signOperand: what stays of the leftmost node m of a sign-adjacency site when its sign is taken away from the boundary.
func signOperand(m J) any {
	if m["k"] == "pre" {
		return m["r"]
	}
	return m
}

func firstSign(n J) string { // the sign character the printed text of n starts with, or ""
	m := leftmost(n)
	if startsWithSignLiteral(m) {
		return "-"
	}
	if m["k"] == "pre" {
		op := m["op"].(string)
		if op[0] == '-' || op[0] == '+' || op[0] == '^' {
			return op
		}
	}
	return ""
}

// realFirst / realLast: first and last character of what the REAL printer writes for n in compact mode
// (0 when unknown). Used for the statement-boundary hazards only.
func realFirst(n J) byte {
	m := leftmost(n)
	switch m["k"] {
	case "inf", "asg", "idx", "dot", "dotbad":
		return '(' // its left operand is parenthesised
	case "call":
		return realFirst(m["f"].(J))
	case "pre":
		return m["op"].(string)[0]
	case "post", "id":
		return firstByte(m["n"])
	case "bi":
		return firstByte(m["n"])
	case "int":
		return firstByte(m["v"])
	case "float":
		return '0' // a digit or a dot: word-like
	case "bool":
		return 't'
	case "str":
		return '"'
	case "arr":
		return '['
	case "map":
		return '{'
	case "if":
		return 'i'
	case "for", "mac":
		return 'f'
	case "fn":
		if isLambda(m) {
			if ps := m["ps"].([]any); len(ps) == 1 {
				return firstByte(ps[0])
			}
			return '('
		}
		return 'f'
	case "ret":
		return 'r'
	case "brk":
		return 'b'
	case "cnt":
		return 'c'
	case "cmt":
		return '/'
	}
	return 0
}

func firstByte(v any) byte {
	if s, ok := v.(string); ok && s != "" {
		return s[0]
	}
	return 0
}

func lastByte(v any) byte {
	if s, ok := v.(string); ok && s != "" {
		return s[len(s)-1]
	}
	return 0
}

func realLast(n J) byte {
	switch n["k"] {
	case "inf", "asg":
		r, _ := n["r"].(J)
		if r == nil || r["k"] == "none" {
			return 'l' // printed `nil`
		}
		if isInfixKind(r) && realPrec(r) < realPrec(n) {
			return ')'
		}
		return realLast(r)
	case "pre":
		r, _ := n["r"].(J)
		if r == nil {
			return 0
		}
		if isInfixKind(r) || r["k"] == "pre" {
			return ')'
		}
		return realLast(r)
	case "post":
		return lastByte(n["op"])
	case "id", "dot":
		return lastByte(n["n"])
	case "int":
		return lastByte(n["v"])
	case "float":
		return '0'
	case "bool":
		return 'e'
	case "str":
		return '"'
	case "arr", "idx":
		return ']'
	case "map", "if", "for", "fn", "mac":
		return '}'
	case "call", "bi":
		return ')'
	case "ret":
		e, _ := n["e"].(J)
		if e == nil || e["k"] == "none" {
			return 'n'
		}
		return realLast(e)
	case "brk":
		return 'k'
	case "cnt":
		return 'e'
	case "dotbad":
		if i, ok := n["i"].(J); ok {
			return realLast(i)
		}
	}
	return 0
}

func isLambda(n J) bool { return n["k"] == "fn" && n["lambda"] == true }

var neutralID = J{"k": "id", "n": "nz"}
var neutralStmt = J{"k": "str", "v": "nz"}

// wrapNZ is the structure-preserving neutral form of an operand: the call nz(children..). The children are
// arguments (printed at the lowest precedence, nothing around them can interfere), so every hazard INSIDE
// them survives while the hazard of the replaced node itself is gone.
func wrapNZ(children ...any) J {
	args := []any{}
	for _, c := range children {
		if j, ok := c.(J); ok && j["k"] != "none" {
			args = append(args, j)
		}
	}
	return J{"k": "call", "f": deepCopy(neutralID), "a": args}
}

// embedStmt is the neutral form of a statement at a statement boundary: the map literal {"nz": nz(S)} starts
// with `{` and ends with `}` (neither glues to a neighbour nor continues it) and keeps S inside; statements
// that are not expressions become the string "nz".
func embedStmt(st J) J {
	switch st["k"] {
	case "ret", "brk", "cnt", "cmt", "none", "":
		return deepCopy(neutralStmt).(J)
	}
	return J{"k": "map", "p": []any{[]any{deepCopy(neutralStmt), wrapNZ(st)}}}
}

type hazardCtx struct {
	mode    string          // "N" | "C"
	found   map[string]bool // hazards present
	neutral map[string]bool // hazards to neutralise while walking (nil = only detect)
	fsText  func(J) string  // source text of one statement (first / last character)
}

func (h *hazardCtx) hit(id string) bool {
	h.found[id] = true
	return h.neutral[id]
}

// walk visits n (a node of a copy of the tree) and returns the possibly replaced node.
func (h *hazardCtx) walk(n J) J {
	switch n["k"] {
	case "str":
		s := unlatin1(n["v"].(string))
		if strings.ContainsAny(s, "\a\b\v\f") {
			if h.hit(hzStrEscape) {
				n["v"] = strings.Map(func(r rune) rune {
					if r == 7 || r == 8 || r == 11 || r == 12 {
						return 'x'
					}
					return r
				}, n["v"].(string))
			}
		}
		return n
	case "inf", "asg":
		r, _ := n["r"].(J)
		l, _ := n["l"].(J)
		if n["k"] == "inf" && n["op"] == ":" && r != nil && r["k"] == "none" {
			// `x:` directly in an array literal: parenthesised (and then unreadable) when the literal is an operand
			id := hzOpenSlice
			if n["_inarr"] == true {
				id = hzOpenInArr
			}
			if h.hit(id) {
				n["r"] = deepCopy(neutralID)
			}
		}
		delete(n, "_inarr")
		if r != nil && isInfixKind(r) && realPrec(r) == realPrec(n) {
			// the same associative operator on both levels: the shipped test-suite pins the regrouping (1 + (2 + 3) -> 1 + 2 + 3)
			id := hzSamePrecRight
			if n["k"] == "inf" && r["k"] == "inf" && n["op"] == r["op"] && associativeOps[n["op"].(string)] {
				id = hzAssocRegroup
				if !leftSpineSameOp(r) {
					id = hzAssocExposes
				}
			}
			if h.hit(id) {
				n["r"] = wrapNZ(r) // r itself stays intact inside the call (a hazard between r and ITS operands survives)
			}
		}
		r, _ = n["r"].(J)
		if h.mode == "C" && n["k"] == "inf" && (n["op"] == "-" || n["op"] == "+") && r != nil && realPrec(r) >= realPrec(n) {
			if s := firstSign(r); s != "" && s[0] == n["op"].(string)[0] {
				if h.hit(hzSignSign) {
					n["r"] = replaceLeftmost(r, wrapNZ(signOperand(leftmost(r))))
				}
			}
		}
		r, _ = n["r"].(J)
		if r != nil && realPrec(n) > precLambda && isLambda(leftmost(r)) && !(isInfixKind(r) && realPrec(r) < realPrec(n)) {
			if h.hit(hzLambdaOperand) {
				n["r"] = replaceLeftmost(r, wrapNZ(leftmost(r)))
			}
		}
		for _, side := range []string{"l", "r"} {
			c, _ := n[side].(J)
			if c != nil && c["k"] == "cmt" {
				if h.hit(hzCmtInExpr) {
					n[side] = deepCopy(neutralID)
				}
			}
		}
		_ = l
	case "dotbad":
		// neutral form: the same two operands as an index expression, a[b + c]
		// (`a. // c` newline `b`: the right side is a COMMENT, read as an operand - that is fmt-comment-in-expression-position)
		if i, _ := n["i"].(J); i != nil && i["k"] == "cmt" {
			break
		}
		if h.hit(hzDotIndex) {
			n["k"] = "idx"
		}
	case "pre":
		r, _ := n["r"].(J)
		if r != nil && n["op"] == "-" && !isInfixKind(r) && r["k"] != "pre" && startsWithSignLiteral(leftmost(r)) {
			// - -9223372036854775808: the operand is ONE token that starts with `-`; compact mode has the blank of
			// fmt-compact-minus-minus, normal mode writes the two signs next to each other
			id := hzMinusMinInt
			if h.mode == "C" {
				id = hzSignSign
			}
			if h.hit(id) {
				n["r"] = replaceLeftmost(r, wrapNZ(leftmost(r)))
			}
		}
		r, _ = n["r"].(J)
		if r != nil && isLambda(leftmost(r)) && !isInfixKind(r) {
			if h.hit(hzLambdaOperand) {
				n["r"] = replaceLeftmost(r, wrapNZ(leftmost(r)))
			}
		}
		if r != nil && r["k"] == "cmt" {
			if h.hit(hzCmtInExpr) {
				n["r"] = deepCopy(neutralID)
			}
		}
	case "if":
		// else { <comments> if .. }: compact mode drops the comments, a second pass then prints `else if`
		if e, _ := n["e"].([]any); h.mode == "C" && n["he"] == true && len(e) > 1 {
			ne := stripList(e)
			if len(ne) == 1 && kindOf(ne[0]) == "if" {
				if h.hit(hzElseIfCmt) {
					n["e"] = ne
				}
			}
		}
	case "arr":
		for _, e := range n["e"].([]any) {
			if ej, ok := e.(J); ok && ej["k"] == "inf" && ej["op"] == ":" {
				if er, _ := ej["r"].(J); er != nil && er["k"] == "none" {
					ej["_inarr"] = true
				}
			}
		}
	case "call":
		f, _ := n["f"].(J)
		if f != nil && (isInfixKind(f) || f["k"] == "pre") {
			if h.hit(hzCallee) {
				n["f"] = wrapNZ(f)
			}
		}
	case "dot":
		l, _ := n["l"].(J)
		if l != nil && (l["k"] == "int" || l["k"] == "float") {
			if h.hit(hzNumberDot) {
				n["l"] = wrapNZ(l)
			}
		}
	case "map":
		for _, p := range n["p"].([]any) {
			kv := p.([]any)
			for i := 0; i < 2; i++ {
				c, _ := kv[i].(J)
				if c != nil && isInfixKind(c) && realPrec(c) <= prec[":"] {
					if h.hit(hzMapKV) {
						kv[i] = wrapNZ(c)
					}
				}
			}
		}
	}
	// children
	for k, c := range n {
		switch x := c.(type) {
		case J:
			if x["k"] == "cmt" {
				if h.hit(hzCmtInExpr) {
					n[k] = deepCopy(neutralID)
				}
				continue
			}
			n[k] = h.walk(x)
		case []any:
			isStmts := stmtListKeys[k] && (n["k"] == "if" || n["k"] == "for" || n["k"] == "fn" || n["k"] == "mac" || n["k"] == "block")
			if isStmts {
				n[k] = h.walkStmts(x)
				continue
			}
			for i, e := range x {
				switch y := e.(type) {
				case J:
					if y["k"] == "cmt" && h.hit(hzCmtInExpr) {
						x[i] = deepCopy(neutralID)
						continue
					}
					x[i] = h.walk(y)
				case []any: // map pair
					for q, z := range y {
						if zj, ok := z.(J); ok {
							y[q] = h.walk(zj)
						}
					}
				}
			}
		}
	}
	return n
}

func isWordByte(c byte) bool {
	return c == '_' || c == '.' || ('0' <= c && c <= '9') || ('a' <= c && c <= 'z') || ('A' <= c && c <= 'Z') || c >= 0x80
}

// walkStmts handles the hazards of statement boundaries, then the statements themselves.
func (h *hazardCtx) walkStmts(list []any) []any {
	var prev J
	for i, s := range list {
		st, ok := s.(J)
		if !ok {
			continue
		}
		if st["k"] == "cmt" {
			if h.mode == "N" {
				// a comment flagged "same line as the previous token" (a `;`) right after a line comment
				if prev != nil && prev["k"] == "cmt" && strings.HasPrefix(prev["text"].(string), "//") && st["sp"] == true {
					if h.hit(hzCmtAfterLine) {
						st["sp"] = false
					}
				}
				prev = st
			}
			continue
		}
		if prev != nil {
			if sg := firstSign(st); sg != "" {
				id := hzStmtSign
				if h.mode == "C" {
					id = hzStmtSignC
				}
				if h.hit(id) {
					list[i] = embedStmt(st)
					st = list[i].(J)
				}
			}
			if h.mode == "C" && prev["k"] != "cmt" {
				last, first := realLast(prev), realFirst(st)
				if last != 0 && first != 0 {
					spaced := st["k"] == "arr" || (isInfixKind(prev) && last != '}' && last != ']')
					if !spaced && isWordByte(last) && isWordByte(first) {
						if h.hit(hzWordGlue) {
							list[i] = embedStmt(st)
							st = list[i].(J)
						}
					}
					if !spaced && (first == '(' || first == '[') {
						if h.hit(hzBracketStart) {
							list[i] = embedStmt(st)
							st = list[i].(J)
						}
					}
				}
			}
		}
		prev = st
	}
	for i, s := range list {
		if st, ok := s.(J); ok {
			list[i] = h.walk(st)
		}
	}
	return list
}

func stmtText(n J) (s string) {
	defer func() {
		if recover() != nil {
			s = ""
		}
	}()
	r := &frender{st: fsMin}
	return r.node(n, 0)
}

// hazards returns the hazards present in tree (with comment flags) for the mode, and - when neutral is
// given - a copy of the tree with those hazards neutralised.
func hazards(tree []any, mode string, neutral map[string]bool) (found map[string]bool, out []any) {
	h := &hazardCtx{mode: mode, found: map[string]bool{}, neutral: neutral, fsText: stmtText}
	cp := deepCopy(any(tree)).([]any)
	if mode == "N" {
		sim := &prevSim{}
		sim.list(cp, false)
		for _, cmt := range sim.sites {
			if h.hit(hzStalePrev) {
				cmt["sn"] = false // the comment is followed by a newline: what the printer's own output looks like
			}
		}
	}
	out = h.walkStmts(cp)
	return h.found, out
}

// prevSim walks a tree in the order the printer visits it and keeps what the printer keeps in PrintState.prev: the
// statement most recently COMPLETED, in whichever statement list. The first statement of a block is laid out by
// looking at that "previous statement"; when it is the last comment of an EARLIER block of the same statement
// (`if a { b /* c */ } else { d }`, flagged "same line as the next token" because the `}` follows it), the first
// statement of the later block is kept on the line of its `{` - and moves to its own line on the second pass, when
// the comment is followed by a newline.
type prevSim struct {
	prev  J
	sites []J // the comments that decide the layout of a later block
}

func (p *prevSim) list(stmts []any, block bool) {
	for i, s := range stmts {
		st, ok := s.(J)
		if !ok {
			continue
		}
		if block && i == 0 && p.prev != nil && p.prev["k"] == "cmt" && p.prev["sn"] == true {
			text, _ := p.prev["text"].(string)
			ownLine := st["k"] == "cmt" && st["sp"] == true // a comment kept on the line of the `{` whatever came before
			if !strings.HasPrefix(text, "//") && !ownLine {
				p.sites = append(p.sites, p.prev)
			}
		}
		p.node(st)
		p.prev = st
	}
}

func (p *prevSim) node(n J) {
	sub := func(keys ...string) {
		for _, k := range keys {
			switch c := n[k].(type) {
			case J:
				p.node(c)
			case []any:
				for _, e := range c {
					switch x := e.(type) {
					case J:
						p.node(x)
					case []any: // map pair
						for _, y := range x {
							if yj, ok := y.(J); ok {
								p.node(yj)
							}
						}
					}
				}
			}
		}
	}
	switch n["k"] {
	case "inf", "asg":
		sub("l", "r")
	case "pre":
		sub("r")
	case "idx", "dotbad":
		sub("l", "i")
	case "dot":
		sub("l")
	case "call":
		sub("f", "a")
	case "bi":
		sub("a")
	case "arr":
		sub("e")
	case "map":
		sub("p")
	case "ret":
		sub("e")
	case "if":
		sub("c")
		if t, ok := n["t"].([]any); ok {
			p.list(t, true)
		}
		if e, ok := n["e"].([]any); ok && n["he"] == true {
			if len(e) == 1 && kindOf(e[0]) == "if" {
				p.node(e[0].(J)) // printed `else if ..`: no block of its own
			} else {
				p.list(e, true)
			}
		}
	case "for":
		sub("c")
		if b, ok := n["body"].([]any); ok {
			p.list(b, true)
		}
	case "fn", "mac":
		if b, ok := n["body"].([]any); ok {
			p.list(b, true)
		}
	}
}

func sortedKeys(m map[string]bool) []string {
	var r []string
	for k := range m {
		r = append(r, k)
	}
	sort.Strings(r)
	return r
}

// neutraliseSet neutralises the hazards of `set` in the tree; neutralising a site can create a new boundary
// hazard with its neighbour, so it is repeated until no hazard of the set is found any more.
func neutraliseSet(tree []any, mode string, set map[string]bool) []any {
	t := tree
	for i := 0; i < 6; i++ {
		found, t2 := hazards(t, mode, set)
		t = t2
		again := false
		for h := range found {
			if set[h] {
				again = true
			}
		}
		if !again {
			break
		}
	}
	return t
}

func allHazardsExcept(keep string) map[string]bool {
	set := map[string]bool{}
	for _, h := range hazardOrder {
		if h != keep {
			set[h] = true
		}
	}
	return set
}

// neutralise removes every hazard except `keep` from the tree.
func neutralise(tree []any, mode, keep string) []any {
	return neutraliseSet(tree, mode, allHazardsExcept(keep))
}

// attribute is the attribution discipline shared by format records and function-value records.
//
//	found        hazards present in the case
//	test(set,..) re-runs the case on the real code with the hazards of `set` neutralised: (still fails, usable)
//
// 1. no hazard, or still failing with all of them neutralised                 -> unexplained (a VIOLATION)
// 2. hazards whose removal ALONE cures the case (the others stay in place)    -> these explain it
// 3. otherwise hazards that, kept ALONE (all others removed), still fail      -> independent causes
// 4. otherwise all present ones ("fails only in combination")
// Neutral forms keep the sub-trees of a site (wrapNZ / embedStmt), so removing one hazard does not remove
// another one nested inside it.
// attrPreferred: ids the ledger lists as known (set by report); attrFirstCureOnly: stop at the first hazard whose
// removal alone cures the case (set per case: true for the non-exhaustive random / mutated inputs).
var (
	attrPreferred     = map[string]bool{}
	attrFirstCureOnly bool
)

func attribute(found map[string]bool, order []string, unexplained string, test func(set map[string]bool) (bool, bool)) (sigs []string, note string) {
	if len(found) == 0 {
		return []string{unexplained}, "no known hazard in the tree"
	}
	all := map[string]bool{}
	for _, h := range order {
		all[h] = true
	}
	still, ok := test(all)
	if !ok {
		return sortedKeys(found), "attribution by feature presence only (tree not renderable)"
	}
	if still {
		return []string{unexplained}, "still fails with the hazards " + strings.Join(sortedKeys(found), ",") + " neutralised"
	}
	if len(found) == 1 {
		return sortedKeys(found), ""
	}
	// (hazards the ledger lists as still known are tried first; for large random inputs the first cure ends the search)
	tryOrder := []string{}
	for _, hz := range order {
		if found[hz] && attrPreferred[hz] {
			tryOrder = append(tryOrder, hz)
		}
	}
	for _, hz := range order {
		if found[hz] && !attrPreferred[hz] {
			tryOrder = append(tryOrder, hz)
		}
	}
	for _, hz := range tryOrder {
		if f, ok := test(map[string]bool{hz: true}); ok && !f {
			sigs = append(sigs, hz)
			if attrFirstCureOnly {
				break
			}
		}
	}
	if len(sigs) > 0 {
		return sigs, ""
	}
	for _, hz := range order {
		if found[hz] {
			others := map[string]bool{}
			for _, o := range order {
				if o != hz {
					others[o] = true
				}
			}
			if f, ok := test(others); ok && f {
				sigs = append(sigs, hz)
			}
		}
	}
	if len(sigs) == 0 {
		return sortedKeys(found), "fails only in combination"
	}
	return sigs, "(several independent causes)"
}

// fmtAttribute decides the signatures of a record failing `law` of `prop` in `mode`.
func fmtAttribute(rec *fmtRec, prop, mode, law string, individually bool) (sigs []string, note string) {
	unexplained := "fmt-" + law + "-" + map[string]string{"N": "normal", "C": "compact"}[mode] + "-unexplained"
	if rec.Panic != "" {
		return []string{"fmt-panic:" + rec.PanicAt}, rec.Panic
	}
	found, _ := hazards(rec.TF, mode, nil)
	test := func(set map[string]bool) (failed bool, ok bool) {
		src, okr := safeRender(neutraliseSet(rec.TF, mode, set))
		if !okr {
			return false, false
		}
		r2, okp := fmtRecord(src, rec.Via)
		if !okp {
			return false, false
		}
		v := fmtLawsGo(&r2)
		return fmtFailedLaw(prop, mode, v) != "", true
	}
	attrFirstCureOnly = !individually
	defer func() { attrFirstCureOnly = false }()
	return attribute(found, hazardOrder, unexplained, test)
}

func safeRender(t []any) (src string, ok bool) {
	defer func() {
		if recover() != nil {
			ok = false
		}
	}()
	if containsKind(any(t), map[string]bool{"mac": true, "block": true, "unknown": true}) {
		return "", false
	}
	src, _ = fmtRenderProgram(t, fsMin, nil)
	return src, true
}
