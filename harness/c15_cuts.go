package main

// C15, clauses 1 and 2: trees in line mode and file mode, and every cut of a program where
// spec/Continuation.tla says that more input is needed.

import (
	"fmt"
	"sort"
	"strings"

	"grol.io/grol/lexer"
	"grol.io/grol/parser"
	"grol.io/grol/token"
)

// ---------------------------------------------------------------------- observations on the real parser

type c15Parse struct {
	Cont     bool
	Errs     []string
	Panicked string
	Tree     string // canonical dump, only when complete and error free
}

// obs code shared with Continuation.tla: "c" asked for more and no error, "e" error reported,
// "n" accepted as complete, "p" panicked.
func (p c15Parse) Code() string {
	switch {
	case p.Panicked != "":
		return "p"
	case len(p.Errs) > 0:
		return "e"
	case p.Cont:
		return "c"
	}
	return "n"
}

func c15ParseMode(src string, lineMode, wantTree bool) (r c15Parse) {
	defer func() {
		if e := recover(); e != nil {
			r.Panicked = fmt.Sprint(e)
		}
	}()
	var l *lexer.Lexer
	if lineMode {
		l = lexer.NewLineMode(src)
	} else {
		l = lexer.New(src)
	}
	p := parser.New(l)
	prog := p.ParseProgram()
	r.Cont = p.ContinuationNeeded()
	r.Errs = p.Errors()
	if wantTree && len(r.Errs) == 0 && !r.Cont {
		r.Tree = jstr(dumpStmts(prog))
	}
	return r
}

// ---------------------------------------------------------------------- tokens of the real lexer and their classes

type c15Tok struct {
	Type       token.Type
	Class      string
	Start, End int
}

var c15ClassOf = map[token.Type]string{
	token.IDENT: "id", token.INT: "id", token.FLOAT: "id", token.TRUE: "id", token.FALSE: "id", token.BREAK: "id", token.CONTINUE: "id",
	token.DOTDOT: "id", token.LEN: "id", token.FIRST: "id", token.REST: "id", token.PRINT: "id", token.PRINTLN: "id", token.LOG: "id",
	token.ERROR: "id", token.CATCH: "id", token.DEL: "id", token.QUOTE: "id", token.UNQUOTE: "id",
	token.STRING: "str", token.LINECOMMENT: "lcmt", token.BLOCKCOMMENT: "cmt",
	token.PLUS: "pm", token.MINUS: "pm", token.BITXOR: "pm", token.BANG: "pre", token.BITNOT: "pre", token.INCR: "inc", token.DECR: "inc",
	token.ASTERISK: "bin", token.SLASH: "bin", token.PERCENT: "bin", token.EQ: "bin", token.NOTEQ: "bin", token.LT: "bin", token.GT: "bin",
	token.LTEQ: "bin", token.GTEQ: "bin", token.AND: "bin", token.OR: "bin", token.BITAND: "bin", token.BITOR: "bin",
	token.LEFTSHIFT: "bin", token.RIGHTSHIFT: "bin",
	token.ASSIGN: "asg", token.DEFINE: "asg", token.COLON: "col", token.DOT: "dot", token.LAMBDA: "arrow",
	token.COMMA: "comma", token.SEMICOLON: "semi",
	token.LPAREN: "lp", token.RPAREN: "rp", token.LBRACKET: "lb", token.RBRACKET: "rb", token.LBRACE: "lc", token.RBRACE: "rc",
	token.IF: "kw", token.ELSE: "kw", token.FOR: "kw", token.FUNC: "kw", token.RETURN: "kw", token.MACRO: "kw",
}

// c15Lex returns the token stream of the real lexer (file mode) with byte spans; ok is false when the text holds a
// token the property does not speak about (ILLEGAL, an unknown type) or the lexer does not terminate.
func c15Lex(src string) (toks []c15Tok, ok bool) {
	defer func() {
		if e := recover(); e != nil {
			ok = false
		}
	}()
	l := lexer.New(src)
	prevEnd := 0
	for n := 0; n <= len(src)+1; n++ {
		t := l.NextToken()
		if t.Type() == token.EOF {
			return toks, true
		}
		cls, known := c15ClassOf[t.Type()]
		if !known {
			return toks, false
		}
		start := prevEnd
		for start < len(src) && (src[start] == ' ' || src[start] == '\t' || src[start] == '\n' || src[start] == '\r') {
			start++
		}
		end := l.Pos()
		if end <= start || end > len(src) {
			return toks, false
		}
		if cls == "cmt" && !strings.HasSuffix(src[start:end], "*/") || cls == "cmt" && end-start < 4 {
			return toks, false // an unterminated block comment: not a complete program
		}
		toks = append(toks, c15Tok{Type: t.Type(), Class: cls, Start: start, End: end})
		prevEnd = end
	}
	return toks, false
}

// interior offsets of a string / block comment token at which a cut is tried
func c15InteriorOffsets(src string, tk c15Tok, all bool) []int {
	n := tk.End - tk.Start
	first := 1 // after the opening quote
	if tk.Class == "cmt" {
		first = 2 // after the opening slash-star (a lone slash opens nothing)
	}
	var res []int
	if all || n <= 12 {
		for j := first; j < n; j++ {
			res = append(res, j)
		}
		return res
	}
	seen := map[int]bool{}
	add := func(j int) {
		if j >= first && j < n && !seen[j] {
			seen[j] = true
			res = append(res, j)
		}
	}
	add(1)
	add(2)
	add(3)
	add(n / 2)
	add(n - 2)
	add(n - 1)
	body := src[tk.Start:tk.End]
	cnt := 0
	for j := 1; j < n-1 && cnt < 6; j++ { // right after a backslash, a newline, a quote or a star
		switch body[j] {
		case '\\', '\n', '"', '`', '*', '/':
			add(j + 1)
			cnt++
		}
	}
	sort.Ints(res)
	return res
}

// ---------------------------------------------------------------------- failing cuts

type c15Cut struct {
	Prefix string
	Why    string // clause of the property: paren | bracket | brace | string | comment | binop
	Last   string // class of the last token of the prefix, or "inside"
	Obs    c15Parse
}

// narrow signature of a failing demanded cut
func c15CutSignature(ct c15Cut) string {
	kind := map[string]string{"e": "error", "n": "accepted", "p": "panic"}[ct.Obs.Code()]
	if ct.Why == "comment" && ct.Obs.Code() == "n" {
		// the open comment's text is exactly "/*/": parseComment takes the trailing "*/" for its end
		if i := strings.LastIndex(ct.Prefix, "/*"); i >= 0 && strings.TrimRight(ct.Prefix[i:], " \t\r\n") == "/*/" {
			return "linemode-blockcomment-slash-star-slash-taken-as-closed"
		}
		if i := strings.LastIndex(ct.Prefix, "/*/"); i >= 0 && i+3 == len(strings.TrimRight(ct.Prefix, " \t\r\n")) && !strings.Contains(ct.Prefix[:i], "/*") {
			return "linemode-blockcomment-slash-star-slash-taken-as-closed"
		}
	}
	if ct.Obs.Code() == "e" && c15EndsWithEmptyParens(ct.Prefix) && strings.Contains(ct.Obs.Errs[0], "no prefix parse function for `)`") {
		// `()` at the end of the input: the parameter list of a lambda whose `=>` has not arrived yet
		return "linemode-error-after-empty-parens-of-lambda"
	}
	return fmt.Sprintf("linemode-%s-instead-of-continuation-%s-after-%s", kind, ct.Why, ct.Last)
}

func c15EndsWithEmptyParens(prefix string) bool {
	t := strings.TrimRight(prefix, " \t\r\n")
	if !strings.HasSuffix(t, ")") {
		return false
	}
	t = strings.TrimRight(t[:len(t)-1], " \t\r\n")
	return strings.HasSuffix(t, "(")
}

func c15CutWhat(ct c15Cut) string {
	where := "right after a `" + ct.Last + "` token"
	if ct.Last == "inside" {
		where = "inside an open string / block comment"
	}
	msg := fmt.Sprintf("prefix %q ends %s (clause: %s) and line mode must ask for more input without an error; got continuation=%v errors=%d",
		c15Short(ct.Prefix), where, ct.Why, ct.Obs.Cont, len(ct.Obs.Errs))
	if len(ct.Obs.Errs) > 0 {
		msg += " first error: " + strings.SplitN(ct.Obs.Errs[0], "\n", 2)[0]
	}
	if ct.Obs.Panicked != "" {
		msg += " panic: " + ct.Obs.Panicked
	}
	return msg
}

func c15FailCut(c *Ctx, ct c15Cut, origin string) {
	c.Fail(c15CutSignature(ct), c15CutWhat(ct), map[string]any{"check": "cut", "prefix": latin1(ct.Prefix), "why": ct.Why, "last": ct.Last, "origin": origin})
}

// ---------------------------------------------------------------------- clause 1 on one complete program

// c15CheckComplete compares line mode and file mode on a complete program. It returns false when the program is
// not a valid program (file mode reports errors or does not finish): then nothing is demanded.
func c15CheckComplete(c *Ctx, src, origin string) (valid bool) {
	fm := c15ParseMode(src, false, true)
	if fm.Panicked != "" || len(fm.Errs) > 0 || fm.Cont {
		return false
	}
	lm := c15ParseMode(src, true, true)
	c.Case("tree:"+src, true)
	rp := map[string]any{"check": "tree", "text": latin1(src), "origin": origin}
	switch {
	case lm.Panicked != "":
		c.Fail("linemode-panic-on-complete-program", fmt.Sprintf("line mode panics on the complete program %q: %s", c15Short(src), lm.Panicked), rp)
	case len(lm.Errs) > 0:
		c.Fail("linemode-error-on-complete-program", fmt.Sprintf("file mode accepts %q, line mode reports: %s", c15Short(src), strings.SplitN(lm.Errs[0], "\n", 2)[0]), rp)
	case lm.Cont:
		c.Fail("linemode-continuation-on-complete-program", fmt.Sprintf("line mode asks for more input after the complete program %q", c15Short(src)), rp)
	case lm.Tree != fm.Tree:
		c.Fail("linemode-tree-differs", fmt.Sprintf("trees differ for %q: line %s file %s", c15Short(src), c15Short(lm.Tree), c15Short(fm.Tree)), rp)
	default:
		c.AddTraces(1)
	}
	return true
}

func c15Short(s string) string {
	if len(s) > 300 {
		return s[:300] + "..."
	}
	return s
}

// ---------------------------------------------------------------------- grammar programs (GEN from Continuation.tla)

type c15GTok struct {
	C string `json:"c"`
	T string `json:"t"`
	S string `json:"s"`
}
type c15Need struct {
	W string `json:"w"`
	L string `json:"l"`
	I string `json:"i"`
}
type c15GLine struct {
	P    int       `json:"p"`
	Toks []c15GTok `json:"toks"`
	Need []c15Need `json:"need"`
}

var c15Spell = map[string]string{
	"@dq": `"hi"`, "@dqesc": `"a\"b\\n\x41\n"`, "@bqnl": "`r\nq`", "@dqc": `"/*"`,
	"@bc": "/* c */", "@bcnl": "/* l1\n l2 */", "@bcs": "/*/ x */", "@bcq": "/* \" ` */", "@lc": "// lc",
}

// c15Render spells the tokens; sepAt overrides the separator in front of token i (layout variants).
func c15Render(toks []c15GTok, nlBefore map[int]bool) (text string, spans [][2]int) {
	var sb strings.Builder
	for i, t := range toks {
		if i > 0 {
			switch {
			case t.S == "n" || nlBefore[i]:
				sb.WriteByte('\n')
			case t.S == "s":
				sb.WriteByte(' ')
			}
		}
		s := t.T
		if sp, ok := c15Spell[s]; ok {
			s = sp
		}
		st := sb.Len()
		sb.WriteString(s)
		spans = append(spans, [2]int{st, sb.Len()})
	}
	return sb.String(), spans
}

type c15Stats struct {
	programs, invalid, lexMismatch    int
	demanded, demandedInside, soft    int
	layouts                           int
	softBy                            map[string]int // last kind + obs code at cuts where nothing is demanded
	invalidSamples, lexMismatchSample []string
	softErr                           []string
}

// c15ReplayGrammarProgram replays one TLC-emitted program: clause 1 on the whole text, clause 2 on every cut.
func c15ReplayGrammarProgram(c *Ctx, g c15GLine, st *c15Stats, sampleIt bool) {
	text, spans := c15Render(g.Toks, nil)
	st.programs++
	// the real lexer must see the tokens the spec spelled
	rt, ok := c15Lex(text)
	if !ok || len(rt) != len(g.Toks) {
		st.lexMismatch++
		if len(st.lexMismatchSample) < 5 {
			st.lexMismatchSample = append(st.lexMismatchSample, text)
		}
		return
	}
	for i := range rt {
		if rt[i].Start != spans[i][0] || rt[i].End != spans[i][1] || rt[i].Class != g.Toks[i].C {
			st.lexMismatch++
			if len(st.lexMismatchSample) < 5 {
				st.lexMismatchSample = append(st.lexMismatchSample, fmt.Sprintf("%s (token %d: real %s %d-%d, spec %s %d-%d)", text, i, rt[i].Class, rt[i].Start, rt[i].End, g.Toks[i].C, spans[i][0], spans[i][1]))
			}
			return
		}
	}
	if !c15CheckComplete(c, text, "grammar") {
		st.invalid++
		if len(st.invalidSamples) < 12 {
			st.invalidSamples = append(st.invalidSamples, text)
		}
		return
	}
	n := len(g.Toks)
	if g.Need[n-1].W != "" {
		c.Infra(fmt.Errorf("Continuation.tla demands a continuation after the complete program %q", text))
		return
	}
	nl := map[int]bool{}
	for k := 1; k <= n; k++ {
		need := g.Need[k-1]
		// cuts inside token k (strings and block comments)
		if need.I != "" {
			for _, j := range c15InteriorOffsets(text, c15Tok{Class: g.Toks[k-1].C, Start: spans[k-1][0], End: spans[k-1][1]}, true) {
				prefix := text[:spans[k-1][0]+j]
				o := c15ParseMode(prefix, true, false)
				c.Case("cut:"+prefix, true)
				st.demandedInside++
				if o.Code() != "c" {
					c15FailCut(c, c15Cut{Prefix: prefix, Why: need.I, Last: "inside", Obs: o}, "grammar")
				} else {
					c.AddTraces(1)
				}
			}
		}
		if k == n {
			break
		}
		prefix := text[:spans[k-1][1]]
		if need.W != "" {
			if g.Toks[k].S == "s" {
				nl[k] = true
			}
			for _, tail := range []string{"", " ", "\n"} {
				o := c15ParseMode(prefix+tail, true, false)
				c.Case("cut:"+prefix+tail, true)
				st.demanded++
				if o.Code() != "c" {
					c15FailCut(c, c15Cut{Prefix: prefix + tail, Why: need.W, Last: g.Toks[k-1].C, Obs: o}, "grammar")
				} else {
					c.AddTraces(1)
				}
			}
			if sampleIt && k == n/2 {
				c.Sample(map[string]any{"program": text, "cut_after_token": k, "prefix": prefix, "spec_why": need.W, "real_parser": "continuation requested, no error"})
			}
		} else {
			o := c15ParseMode(prefix, true, false)
			c.Case("cut:"+prefix, false)
			st.soft++
			st.softBy[need.L+":"+o.Code()]++
			if o.Code() == "e" && len(st.softErr) < 8 && !strings.Contains(strings.Join(st.softErr, "\x00")+"\x00", prefix+"\x00") {
				st.softErr = append(st.softErr, prefix)
			}
		}
	}
	// the same program laid out with a newline at every cut where more input is demanded, fed like repl.Interactive does
	if len(nl) > 0 {
		multi, mspans := c15Render(g.Toks, nl)
		demands := map[int]string{}
		for off := 0; off < len(multi); off++ {
			if multi[off] != '\n' {
				continue
			}
			for k := range mspans {
				if off >= mspans[k][0] && off < mspans[k][1] {
					demands[off] = g.Need[k].I // a newline inside a string / block comment
				} else if off >= mspans[k][1] && (k+1 == len(mspans) || off < mspans[k+1][0]) {
					demands[off] = g.Need[k].W
				}
			}
		}
		if c15Interactive(c, multi, demands, "grammar-layout") {
			st.layouts++
		}
	}
}
