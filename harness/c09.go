package main

// C09 - Execution is bounded: depth, time and memory guards always hold (spec/Guards.tla).
//
// This file has three parts:
//   1. the child-process worker ("vh worker c09 <job.json>"): runs ONE grol program through
//      repl.EvalStringWithOption / repl.EvalOne with Options{MaxDepth, MaxDuration}, with the Go
//      memory limit taken from GOMEMLIMIT (the way grol's main.go gets it), under an
//      address-space rlimit it sets on itself, and writes what it observed to a result file;
//   2. the parent-side runner: starts children (at most c09Par at once), RSS watchdog, outer
//      wall-clock timeout, classification of dead / hung children, verdict per the property;
//   3. the check: MC of Guards.tla (design and each named deviation), GEN schedules out of TLC
//      instantiated as real programs, pinned reproducers of the known findings, binding self-test.

import (
	"bytes"
	"context"
	"encoding/json"
	"fmt"
	"io"
	"os"
	"os/exec"
	"path/filepath"
	"runtime"
	"runtime/debug"
	"sort"
	"strconv"
	"strings"
	"sync"
	"syscall"
	"time"

	"grol.io/grol/eval"
	"grol.io/grol/extensions"
	"grol.io/grol/object"
	"grol.io/grol/repl"
)

// ------------------------------------------------------------------------------------------
// 1. worker

type c09Job struct {
	ID         string `json:"id"`
	Skel       string `json:"skel"`                  // skeleton family (for the record)
	Src        string `json:"src,omitempty"`         // grol program text
	Gen        string `json:"gen,omitempty"`         // big sources are generated in the child: "paren", "bracket", "neg", "block", "call", "elseif", "sum", "dot", "callchain", "index", "lambda", "strcat"
	GenN       int    `json:"gen_n,omitempty"`       // nesting depth for Gen
	MaxDepth   int    `json:"max_depth"`             // Options.MaxDepth (0 = grol's default)
	DeadlineMs int    `json:"deadline_ms"`           // Options.MaxDuration (0 = none)
	MemLimit   int64  `json:"mem_limit"`             // GOMEMLIMIT in bytes
	HardCap    int64  `json:"hard_cap"`              // RSS at which the parent kills the child; also sizes RLIMIT_AS
	CancelTick int    `json:"cancel_tick,omitempty"` // k > 0: the k-th vtick() calls State.Cancel; -1: context cancelled before the evaluation starts
	Via        string `json:"via"`                   // "string": repl.EvalStringWithOption; "one": repl.EvalOne on an own State + follow-up input
	GenCtx     string `json:"gen_ctx,omitempty"`     // where the generated nesting sits: "" top level | "fn" | "for" | "quote" | "macro" | "macroarg" | "rec" (see c09GenProgram)
	Fn         string `json:"fn,omitempty"`          // library function / program shape of the libgrow and output families (part of the signature)
	AutoLoad   bool   `json:"autoload,omitempty"`    // Options.AutoLoad (entry point "string" only): the saved state in the child's working directory is loaded first
	StateLines int    `json:"state_lines,omitempty"` // lines of the saved state file written before the evaluation (0 = no file)
	StateKind  string `json:"state_kind,omitempty"`  // what the saved bindings are: "" ints | "str" | "arr" | "fn" | "arr1k" (arrays of 1000 elements) | "big" (one array literal of StateLines elements)
	PreSleepMs int    `json:"pre_sleep_ms,omitempty"` // Options.PreInput hook that takes this long
	AutoSave   bool   `json:"autosave,omitempty"`    // Options.AutoSave
	ResultPath string `json:"result_path"`
}

type c09Res struct {
	Started       bool     `json:"started"` // false until the evaluation call was entered
	Done          bool     `json:"done"`
	Class         string   `json:"class"` // value | error | deadline | canceled | maxdepth | memrefused | panic
	Errs          []string `json:"errs,omitempty"`
	Out           string   `json:"out,omitempty"`
	Ticks         int      `json:"ticks"`
	TicksAfter    int      `json:"ticks_after_cancel"`
	Cancelled     bool     `json:"cancelled_by_tick"`
	EvalMs        float64  `json:"eval_ms"`         // wall time of the evaluation call (without LoadMs)
	LoadMs        float64  `json:"load_ms,omitempty"` // AutoLoad + PreInput, before the deadline is armed
	AfterCancelMs float64  `json:"after_cancel_ms"` // from State.Cancel to return (tick-cancel cases)
	HWMKb         int64    `json:"hwm_kb"`          // VmHWM of the child at the end
	BaseKb        int64    `json:"base_kb"`         // VmHWM just before the evaluation
	Followup      string   `json:"followup,omitempty"`
	MemLimitSeen  int64    `json:"mem_limit_seen"`
	SrcLen        int      `json:"src_len"`
}

func procStatusKb(key string) int64 {
	b, err := os.ReadFile("/proc/self/status")
	if err != nil {
		return -1
	}
	for _, ln := range strings.Split(string(b), "\n") {
		if strings.HasPrefix(ln, key+":") {
			f := strings.Fields(ln)
			if len(f) >= 2 {
				v, _ := strconv.ParseInt(f[1], 10, 64)
				return v
			}
		}
	}
	return -1
}

// c09GenParts: a deeply nested (or long chained) expression of the given kind around `leaf`, and the statements it needs
// in front of it. leaf "" = the kind's own constant.
func c09GenParts(kind string, n int, leaf string) (prelude, expr string) {
	var sb strings.Builder
	lf := func(def string) string {
		if leaf != "" {
			return leaf
		}
		return def
	}
	switch kind {
	case "paren": // ((((1))))  grouping only: parser recursion, no evaluation depth
		sb.Grow(2*n + 2)
		sb.WriteString(strings.Repeat("(", n))
		sb.WriteString(lf("1"))
		sb.WriteString(strings.Repeat(")", n))
	case "bracket": // [[[[1]]]]  parser recursion and evaluation depth
		sb.Grow(2*n + 2)
		sb.WriteString(strings.Repeat("[", n))
		sb.WriteString(lf("1"))
		sb.WriteString(strings.Repeat("]", n))
	case "neg": // - - - - 1   prefix chain
		sb.Grow(2*n + 2)
		sb.WriteString(strings.Repeat("- ", n))
		sb.WriteString(lf("1"))
	case "negparen": // -(-(-(1)))
		sb.Grow(3*n + 2)
		sb.WriteString(strings.Repeat("-(", n))
		sb.WriteString(lf("1"))
		sb.WriteString(strings.Repeat(")", n))
	case "not": // !!!!true
		sb.Grow(n + 8)
		sb.WriteString(strings.Repeat("!", n))
		if leaf != "" {
			sb.WriteString("(" + leaf + "==0)")
		} else {
			sb.WriteString("true")
		}
	case "block": // if true {if true {... 1 ...}}
		sb.Grow(11*n + 2)
		sb.WriteString(strings.Repeat("if true {", n))
		sb.WriteString(lf("1"))
		sb.WriteString(strings.Repeat("}", n))
	case "call": // f(f(f(...1...)))
		prelude = "f=func(x){x};"
		sb.Grow(3*n + 40)
		sb.WriteString(strings.Repeat("f(", n))
		sb.WriteString(lf("1"))
		sb.WriteString(strings.Repeat(")", n))
	case "funcblock": // ()=>{()=>{ ... 1 ... }}
		sb.Grow(6*n + 2)
		sb.WriteString(strings.Repeat("()=>{", n))
		sb.WriteString(lf("1"))
		sb.WriteString(strings.Repeat("}", n))
	case "forblock": // for 1 {[for 1 {[ ... 1 ... ]}]}
		sb.Grow(10*n + 2)
		sb.WriteString(strings.Repeat("for 1 {[", n))
		sb.WriteString(lf("1"))
		sb.WriteString(strings.Repeat("]}", n))
	case "elseif": // if a {1} else if a {1} else if ...   (a chain, not a nesting in the source)
		prelude = "a=false;"
		sb.Grow(16*n + 40)
		sb.WriteString(" if a {1}")
		sb.WriteString(strings.Repeat(" else if a {1}", n))
		if leaf != "" {
			sb.WriteString(" else {" + leaf + "}")
		}
	case "sum": // 1+1+1+...  iterative in the parser, a left-deep tree for the printer and the evaluator
		sb.Grow(2*n + 2)
		sb.WriteString(lf("1"))
		sb.WriteString(strings.Repeat("+1", n))
	case "sumright": // 1+(1+(1+(...)))  a right-deep tree
		sb.Grow(4*n + 2)
		sb.WriteString(strings.Repeat("1+(", n))
		sb.WriteString(lf("1"))
		sb.WriteString(strings.Repeat(")", n))
	case "dot": // m.a.a.a...
		prelude = "m={};"
		sb.Grow(2*n + 8)
		sb.WriteString("m")
		sb.WriteString(strings.Repeat(".a", n))
	case "callchain": // f()()()...
		prelude = "f=func(){f};"
		sb.Grow(2*n + 20)
		sb.WriteString("f")
		sb.WriteString(strings.Repeat("()", n))
	case "index": // a[a[a[...0...]]]
		prelude = "a=[0];"
		sb.Grow(3*n + 10)
		sb.WriteString(strings.Repeat("a[", n))
		if leaf != "" {
			sb.WriteString("0*" + leaf)
		} else {
			sb.WriteString("0")
		}
		sb.WriteString(strings.Repeat("]", n))
	case "lambda": // x=>x=>x=>...1
		sb.Grow(3*n + 4)
		sb.WriteString("f=")
		sb.WriteString(strings.Repeat("x=>", n))
		sb.WriteString(lf("1"))
	case "strcat": // "a"+"a"+...
		sb.Grow(4*n + 4)
		sb.WriteString("\"a\"")
		sb.WriteString(strings.Repeat("+\"a\"", n))
	case "maplit": // {"k":{"k":{...1...}}}
		sb.Grow(6*n + 2)
		sb.WriteString(strings.Repeat("{\"k\":", n))
		sb.WriteString(lf("1"))
		sb.WriteString(strings.Repeat("}", n))
	default:
		return "", "error(\"unknown gen\")"
	}
	return prelude, sb.String()
}

func c09GenSource(kind string, n int) string {
	pre, expr := c09GenParts(kind, n, "")
	return pre + expr
}

// c09GenProgram puts the nesting where the evaluator treats it differently:
//
//	""         at top level
//	"fn"       in the body of a function called with an integer argument (the body is rewritten for the register)
//	"for"      in the body of a counted loop with a variable, inside a function (rewritten for the loop register)
//	"quote"    as the argument of quote() (rewritten looking for unquote)
//	"macro"    in a program that defines a macro (the whole program goes through the macro expansion)
//	"macroarg" as the argument of a macro call
//	"rec"      around the recursive call of an unbounded recursion (every call adds the nesting to the Go stack)
func c09GenProgram(kind string, n int, ctx string) string {
	switch ctx {
	case "fn":
		pre, expr := c09GenParts(kind, n, "n")
		return pre + "func w(n){" + expr + "}; w(0)"
	case "for":
		pre, expr := c09GenParts(kind, n, "i")
		return pre + "func w(){for i = 2 {" + expr + "}}; w()"
	case "quote":
		pre, expr := c09GenParts(kind, n, "")
		return pre + "quote(" + expr + ")"
	case "macro":
		pre, expr := c09GenParts(kind, n, "")
		return "mm = macro(x) {quote(unquote(x))};" + pre + expr
	case "macroarg":
		pre, expr := c09GenParts(kind, n, "")
		return "mm = macro(x) {quote(unquote(x))};" + pre + "mm(" + expr + ")"
	case "rec":
		pre, expr := c09GenParts(kind, n, "w(n+1)")
		return pre + "func w(n){vtick(); " + expr + "}; w(0)"
	}
	return c09GenSource(kind, n)
}

// c09WriteState writes what an earlier auto-saving session would have left: n bindings, one per line.
func c09WriteState(path, kind string, n int) error {
	var sb strings.Builder
	switch kind {
	case "big": // one binding, an array literal of n elements
		sb.Grow(2*n + 8)
		sb.WriteString("big=[")
		sb.WriteString(strings.Repeat("0,", n-1))
		sb.WriteString("0]\n")
	default:
		sb.Grow(24 * n)
		for i := 0; i < n; i++ {
			switch kind {
			case "str":
				fmt.Fprintf(&sb, "v%d=\"value %d\"\n", i, i)
			case "arr":
				fmt.Fprintf(&sb, "v%d=[%d,%d.5,\"x\"]\n", i, i, i)
			case "fn":
				fmt.Fprintf(&sb, "v%d=func(x){x+%d}\n", i, i)
			case "arr1k": // 1000 elements each: 16 kB of objects out of 2 kB of text
				fmt.Fprintf(&sb, "v%d=[%s0]\n", i, strings.Repeat("0,", 999))
			default:
				fmt.Fprintf(&sb, "v%d=%d\n", i, i)
			}
		}
	}
	return os.WriteFile(path, []byte(sb.String()), 0o600)
}

func c09Trunc(s string, n int) string {
	if len(s) > n {
		return s[:n] + fmt.Sprintf("...(%d bytes)", len(s))
	}
	return s
}

func c09Classify(errs []string, panicked bool) string {
	all := strings.Join(errs, "\n")
	switch {
	case len(errs) == 0:
		return "value"
	case strings.Contains(all, "max depth"):
		return "maxdepth"
	case strings.Contains(all, "would exceed memory"):
		return "memrefused"
	case panicked || strings.HasPrefix(all, "panic:"):
		return "panic"
	case strings.Contains(all, "context deadline exceeded"):
		return "deadline"
	case strings.Contains(all, "context canceled"):
		return "canceled"
	default:
		return "error"
	}
}

func c09Worker(args []string) {
	if len(args) < 1 {
		fmt.Fprintln(os.Stderr, "c09 worker: job file missing")
		os.Exit(3)
	}
	b, err := os.ReadFile(args[0])
	if err != nil {
		fmt.Fprintln(os.Stderr, "c09 worker:", err)
		os.Exit(3)
	}
	var job c09Job
	if err := json.Unmarshal(b, &job); err != nil {
		fmt.Fprintln(os.Stderr, "c09 worker:", err)
		os.Exit(3)
	}
	res := c09Res{}
	write := func() {
		res.HWMKb = procStatusKb("VmHWM")
		out, _ := json.Marshal(res)
		tmp := job.ResultPath + ".tmp"
		_ = os.WriteFile(tmp, out, 0o644)
		_ = os.Rename(tmp, job.ResultPath)
	}
	// Memory limit: set by the GOMEMLIMIT environment variable, exactly how grol's main.go gets it
	// (main.go only reads it back with debug.SetMemoryLimit(-1)); object.FreeMemory reads it the same way.
	res.MemLimitSeen = debug.SetMemoryLimit(-1)
	if job.MemLimit > 0 && res.MemLimitSeen != job.MemLimit {
		fmt.Fprintf(os.Stderr, "c09 worker: GOMEMLIMIT not in effect: want %d got %d\n", job.MemLimit, res.MemLimitSeen)
		os.Exit(3)
	}
	// Extensions: grol's own (sleep, join, ...) then ours, all BEFORE any eval.State exists.
	if err := extensions.Init(&extensions.Config{}); err != nil {
		fmt.Fprintln(os.Stderr, "c09 worker: extensions.Init:", err)
		os.Exit(3)
	}
	var cancelAt time.Time
	doCancel := func(st any) {
		if s, ok := st.(*eval.State); ok && s.Cancel != nil && !res.Cancelled {
			res.Cancelled = true
			cancelAt = time.Now()
			s.Cancel()
		}
	}
	mustCreate := func(e object.Extension) {
		if err := object.CreateFunction(e); err != nil {
			fmt.Fprintln(os.Stderr, "c09 worker: CreateFunction:", err)
			os.Exit(3)
		}
	}
	mustCreate(object.Extension{Name: "vtick", MinArgs: 0, MaxArgs: 0, DontCache: true, Help: "verification: counts evaluation progress",
		Callback: func(st any, _ string, _ []object.Object) object.Object {
			res.Ticks++
			if res.Cancelled {
				res.TicksAfter++
			}
			if job.CancelTick > 0 && res.Ticks == job.CancelTick {
				doCancel(st)
			}
			return object.Integer{Value: int64(res.Ticks)}
		}})
	mustCreate(object.Extension{Name: "vcancel", MinArgs: 0, MaxArgs: 0, DontCache: true, Help: "verification: cancels the evaluation context",
		Callback: func(st any, _ string, _ []object.Object) object.Object {
			doCancel(st)
			return object.NULL
		}})
	src := job.Src
	if job.Gen != "" {
		src = c09GenProgram(job.Gen, job.GenN, job.GenCtx)
	}
	if job.StateLines > 0 {
		if err := c09WriteState(repl.AutoSaveFile, job.StateKind, job.StateLines); err != nil {
			fmt.Fprintln(os.Stderr, "c09 worker: state file:", err)
			os.Exit(3)
		}
	}
	res.SrcLen = len(src)
	// Address-space cap on ourselves (so a bypassed guard kills only this child): what is mapped
	// now + the hard cap + slack for thread stacks and arena granularity.
	if job.HardCap > 0 {
		vm := procStatusKb("VmSize") * 1024
		lim := uint64(vm + job.HardCap + (1 << 30))
		_ = syscall.Setrlimit(syscall.RLIMIT_AS, &syscall.Rlimit{Cur: lim, Max: lim})
		_ = syscall.Setrlimit(syscall.RLIMIT_CORE, &syscall.Rlimit{Cur: 0, Max: 0})
	}
	opts := repl.EvalStringOptions()
	opts.MaxDepth = job.MaxDepth
	opts.MaxDuration = time.Duration(job.DeadlineMs) * time.Millisecond
	opts.AutoLoad = job.AutoLoad
	opts.AutoSave = job.AutoSave
	var tPre time.Time
	if job.PreSleepMs > 0 || job.AutoLoad {
		// PreInput runs after the saved state is loaded and before the deadline is armed: what comes before it is not evaluation
		opts.PreInput = func(*eval.State) {
			if job.PreSleepMs > 0 {
				time.Sleep(time.Duration(job.PreSleepMs) * time.Millisecond)
			}
			tPre = time.Now()
		}
	}
	ctx := context.Background()
	if job.CancelTick < 0 {
		c2, cancel := context.WithCancel(ctx)
		cancel()
		ctx = c2
		res.Cancelled = true
		cancelAt = time.Now()
	}
	runtime.GC()
	res.BaseKb = procStatusKb("VmHWM")
	res.Started = true
	write()
	t0 := time.Now()
	var errs []string
	var out string
	panicked := false
	if job.Via == "one" {
		s := eval.NewState()
		if job.MaxDepth > 0 {
			s.MaxDepth = job.MaxDepth
		}
		var sb strings.Builder
		s.Out = &sb
		s.LogOut = &sb
		s.NoLog = true
		_, panicked, errs, _ = repl.EvalOne(ctx, s, src, &sb, opts)
		res.EvalMs = float64(time.Since(t0).Microseconds()) / 1000
		out = sb.String()
		// REPL boundary: the same State must evaluate the next input normally (depth and scope reset).
		sb.Reset()
		o2 := opts
		o2.MaxDuration = 5 * time.Second
		_, p2, e2, _ := repl.EvalOne(context.Background(), s, "vfollow=func(n){if n<=0 {return 40}; 1+vfollow(n-1)}; vfollow(2)", &sb, o2)
		switch {
		case p2:
			res.Followup = "panic: " + c09Trunc(strings.Join(e2, ";"), 200)
		case len(e2) > 0:
			res.Followup = "error: " + c09Trunc(strings.Join(e2, ";"), 200)
		case strings.TrimSpace(sb.String()) != "42":
			res.Followup = "wrong: " + c09Trunc(sb.String(), 100)
		default:
			res.Followup = "ok"
		}
	} else {
		out, errs, _ = repl.EvalStringWithOption(ctx, opts, src)
		if !tPre.IsZero() {
			res.LoadMs = float64(tPre.Sub(t0).Microseconds()) / 1000
			t0 = tPre
		}
		res.EvalMs = float64(time.Since(t0).Microseconds()) / 1000
	}
	if res.Cancelled {
		res.AfterCancelMs = float64(time.Since(cancelAt).Microseconds())/1000 - 0
		if job.Via == "one" { // the follow-up is not part of it
			res.AfterCancelMs = float64(t0.Add(time.Duration(res.EvalMs*float64(time.Millisecond))).Sub(cancelAt).Microseconds()) / 1000
		}
	}
	res.Class = c09Classify(errs, panicked)
	for _, e := range errs {
		res.Errs = append(res.Errs, c09Trunc(e, 160))
		if len(res.Errs) >= 3 {
			break
		}
	}
	res.Out = c09Trunc(out, 120)
	res.Done = true
	write()
	os.Exit(0)
}

func init() {
	workers["c09"] = c09Worker
}

// ------------------------------------------------------------------------------------------
// 2. runner

// Constants of the verdict (docs/C09.md explains the choice).
const (
	c09SlackMs     = 2000.0   // C0: an evaluation must return within deadline + C, C = C0 + c09SlackPerMiB * limit
	c09SlackPerMiB = 3.0      // ms per MiB of memory limit: a host-level operation the guard granted is bounded by the budget, not by the deadline
	c09RSSFactor   = 3        // peak RSS <= factor * limit + baseline
	c09RSSBaseline = 64 << 20 // baseline (runtime, grol state, harness) in bytes
	c09TickSlack   = 64       // vtick() calls tolerated after State.Cancel (the code does 0)
	c09Par         = 6        // children at once (<= 8)
)

type c09Obs struct {
	Job      c09Job  `json:"job"`
	Res      c09Res  `json:"res"`
	Fate     string  `json:"fate"` // returned | died | hang | killed-rss | infra
	Exit     int     `json:"exit"`
	Signal   string  `json:"signal,omitempty"`
	Stderr   string  `json:"stderr,omitempty"` // classification-relevant head of stderr
	WallMs   float64 `json:"wall_ms"`          // whole child
	MaxRSSKb int64   `json:"maxrss_kb"`        // rusage of the child
	Rerun    bool    `json:"rerun,omitempty"`
}

func c09StderrDigest(s string) string {
	var keep []string
	for _, ln := range strings.Split(s, "\n") {
		t := strings.TrimSpace(ln)
		if strings.HasPrefix(t, "fatal error:") || strings.HasPrefix(t, "runtime: out of memory") ||
			strings.HasPrefix(t, "runtime: goroutine stack exceeds") || strings.HasPrefix(t, "c09 worker:") ||
			strings.HasPrefix(t, "panic:") || strings.HasPrefix(t, "SIG") || strings.Contains(t, "pthread_create failed") {
			keep = append(keep, c09Trunc(t, 160))
			if len(keep) >= 4 {
				break
			}
		}
	}
	return strings.Join(keep, " | ")
}

// c09RunChild runs one job in a child process. outer is the wall-clock timeout for the whole child.
func c09RunChild(dir string, job c09Job, outer time.Duration) c09Obs {
	_ = os.MkdirAll(dir, 0o755)
	job.ResultPath = filepath.Join(dir, "result.json")
	_ = os.Remove(job.ResultPath)
	jb, _ := json.Marshal(job)
	jobPath := filepath.Join(dir, "job.json")
	obs := c09Obs{Job: job}
	if err := os.WriteFile(jobPath, jb, 0o644); err != nil {
		obs.Fate = "infra"
		obs.Stderr = err.Error()
		return obs
	}
	exe, err := os.Executable()
	if err != nil {
		obs.Fate = "infra"
		obs.Stderr = err.Error()
		return obs
	}
	cmd := exec.Command(exe, "worker", "c09", jobPath)
	cmd.Dir = dir
	env := []string{}
	for _, e := range os.Environ() {
		if strings.HasPrefix(e, "GOMEMLIMIT=") || strings.HasPrefix(e, "GOGC=") || strings.HasPrefix(e, "GODEBUG=") || strings.HasPrefix(e, "GOMAXPROCS=") {
			continue
		}
		env = append(env, e)
	}
	env = append(env, fmt.Sprintf("GOMEMLIMIT=%d", job.MemLimit), "GOMAXPROCS=4", "LOGGER_LOG_FILE_AND_LINE=false")
	cmd.Env = env
	var stderr bytes.Buffer
	cmd.Stderr = &limitedWriter{w: &stderr, n: 1 << 16}
	cmd.Stdout = io.Discard
	t0 := time.Now()
	if err := cmd.Start(); err != nil {
		obs.Fate = "infra"
		obs.Stderr = err.Error()
		return obs
	}
	done := make(chan error, 1)
	go func() { done <- cmd.Wait() }()
	timer := time.NewTimer(outer)
	defer timer.Stop()
	poll := time.NewTicker(5 * time.Millisecond)
	defer poll.Stop()
	statm := fmt.Sprintf("/proc/%d/statm", cmd.Process.Pid)
	page := int64(os.Getpagesize())
	var werr error
loop:
	for {
		select {
		case werr = <-done:
			break loop
		case <-timer.C:
			obs.Fate = "hang"
			_ = cmd.Process.Kill()
			werr = <-done
			break loop
		case <-poll.C:
			if job.HardCap > 0 {
				if b, err := os.ReadFile(statm); err == nil {
					f := strings.Fields(string(b))
					if len(f) >= 2 {
						rss, _ := strconv.ParseInt(f[1], 10, 64)
						if rss*page > job.HardCap {
							obs.Fate = "killed-rss"
							_ = cmd.Process.Kill()
							werr = <-done
							break loop
						}
					}
				}
			}
		}
	}
	obs.WallMs = float64(time.Since(t0).Microseconds()) / 1000
	if ps := cmd.ProcessState; ps != nil {
		obs.Exit = ps.ExitCode()
		if ws, ok := ps.Sys().(syscall.WaitStatus); ok && ws.Signaled() {
			obs.Signal = ws.Signal().String()
		}
		if ru, ok := ps.SysUsage().(*syscall.Rusage); ok {
			obs.MaxRSSKb = ru.Maxrss
		}
	}
	obs.Stderr = c09StderrDigest(stderr.String())
	if rb, err := os.ReadFile(job.ResultPath); err == nil {
		_ = json.Unmarshal(rb, &obs.Res)
	}
	if obs.Fate == "" {
		switch {
		case werr == nil && obs.Res.Done:
			obs.Fate = "returned"
		case obs.Exit == 3 || !obs.Res.Started:
			obs.Fate = "infra"
			if obs.Stderr == "" {
				obs.Stderr = c09Trunc(stderr.String(), 300)
			}
		default:
			obs.Fate = "died"
		}
	}
	return obs
}

type limitedWriter struct {
	w io.Writer
	n int
}

func (l *limitedWriter) Write(p []byte) (int, error) {
	if l.n > 0 {
		q := p
		if len(q) > l.n {
			q = q[:l.n]
		}
		_, _ = l.w.Write(q)
		l.n -= len(q)
	}
	return len(p), nil
}

// c09Slack is the constant C of "returns within the deadline plus a constant" for one configuration.
func c09Slack(memLimit int64) float64 {
	return c09SlackMs + c09SlackPerMiB*float64(memLimit>>20)
}

func c09RSSBound(memLimit int64) int64 { return c09RSSFactor*memLimit + c09RSSBaseline }

func c09HardCap(memLimit int64) int64 {
	h := 2 * c09RSSBound(memLimit)
	if h < 768<<20 {
		h = 768 << 20
	}
	if h > 3<<30 {
		h = 3 << 30
	}
	return h
}

// c09Verdict applies the property's own relation to one observation. It returns "" when the
// property holds on the case, else a short failure kind (the check turns it into a signature).
//
//	died       the host process died (out of memory, stack overflow, killed by the RSS cap)
//	hang       did not return before the outer timeout
//	late       returned later than deadline + C
//	rss        peak RSS above factor*limit + baseline
//	overdepth  more nested calls than the depth limit allows, without a 'max depth' failure (only when wantMaxDepth)
//	notmaxdepth  a depth-limit case did not end in the recoverable 'max depth' failure (only when wantMaxDepth)
//	grew       a growth operator produced a result that does not fit the budget (only when wantRefuse)
//	ticks      more than c09TickSlack vtick() calls after State.Cancel
//	followup   the State could not evaluate the next input after the failure (REPL boundary reset)
func c09Verdict(o c09Obs, wantMaxDepth, wantRefuse bool) (kind, detail string) {
	switch o.Fate {
	case "died", "killed-rss":
		return "died", fmt.Sprintf("child %s exit=%d signal=%s stderr=%q peak_rss=%d kB", o.Fate, o.Exit, o.Signal, o.Stderr, o.MaxRSSKb)
	case "hang":
		return "hang", fmt.Sprintf("no return after %.0f ms (deadline %d ms)", o.WallMs, o.Job.DeadlineMs)
	}
	slack := c09Slack(o.Job.MemLimit)
	if o.Job.DeadlineMs > 0 && o.Res.EvalMs > float64(o.Job.DeadlineMs)+slack {
		return "late", fmt.Sprintf("returned after %.0f ms with deadline %d ms (+C=%.0f ms)", o.Res.EvalMs, o.Job.DeadlineMs, slack)
	}
	if o.Res.Cancelled && o.Res.AfterCancelMs > slack {
		return "late", fmt.Sprintf("returned %.0f ms after State.Cancel (C=%.0f ms)", o.Res.AfterCancelMs, slack)
	}
	rss := o.MaxRSSKb
	if o.Res.HWMKb > rss {
		rss = o.Res.HWMKb
	}
	if rss*1024 > c09RSSBound(o.Job.MemLimit) {
		return "rss", fmt.Sprintf("peak RSS %d kB > %d x limit %d MiB + %d MiB", rss, c09RSSFactor, o.Job.MemLimit>>20, c09RSSBaseline>>20)
	}
	if o.Res.TicksAfter > c09TickSlack {
		return "ticks", fmt.Sprintf("%d vtick() calls after State.Cancel", o.Res.TicksAfter)
	}
	if wantMaxDepth && o.Job.MaxDepth > 0 && o.Res.Ticks > o.Job.MaxDepth+2 {
		// the recursive skeletons tick once per call and every call costs at least one depth level
		return "overdepth", fmt.Sprintf("%d nested calls with depth limit %d and no 'max depth' failure (ended as %s)", o.Res.Ticks, o.Job.MaxDepth, o.Res.Class)
	}
	if wantMaxDepth && o.Res.Class != "maxdepth" && o.Res.Class != "deadline" && o.Res.Class != "canceled" {
		return "notmaxdepth", fmt.Sprintf("recursion beyond the depth limit %d ended as %s %v", o.Job.MaxDepth, o.Res.Class, o.Res.Errs)
	}
	if wantRefuse && o.Res.Class == "value" {
		return "grew", fmt.Sprintf("growth operator returned a value that cannot fit %d MiB: out=%q", o.Job.MemLimit>>20, o.Res.Out)
	}
	if o.Job.Via == "one" && o.Res.Followup != "ok" {
		return "followup", "next input on the same State: " + o.Res.Followup
	}
	return "", ""
}

// c09RunAll runs jobs with bounded parallelism; results in job order.
func c09RunAll(c *Ctx, jobs []c09Job, par int, outer func(j c09Job) time.Duration) []c09Obs {
	res := make([]c09Obs, len(jobs))
	var wg sync.WaitGroup
	sem := make(chan struct{}, par)
	for i := range jobs {
		wg.Add(1)
		sem <- struct{}{}
		go func(i int) {
			defer wg.Done()
			defer func() { <-sem }()
			dir := filepath.Join(c.Scratch(), "c09", fmt.Sprintf("j%05d", i))
			res[i] = c09RunChild(dir, jobs[i], outer(jobs[i]))
			_ = os.RemoveAll(dir)
		}(i)
	}
	wg.Wait()
	return res
}

// ------------------------------------------------------------------------------------------
// 3. the check

func init() {
	props["C09"] = propDef{check: checkC09, replay: replayC09,
		rule: "case = one child process evaluating one grol program (skeleton variant x MaxDepth x memory limit x cancellation instant or deadline) through repl.EvalStringWithOption / repl.EvalOne, instantiated from a schedule emitted by TLC from Guards.tla (or a pinned reproducer of a known finding); distinct by (program text or generator, MaxDepth, limit, deadline, cancel tick, entry point); non-trivial when a guard is exercised: the run ends by cancellation/deadline, by a 'max depth' or memory refusal, or dies"}
}

const c09Consts = ` MaxDepths = {2, 3}
 Budgets = {4, 8}
 StackCap = 6
 Phys = 12
 NestN = 7
 NestM = 6
 NestR = 2
 LoadSlow = 2
 NMax = 4
 TMax = 3
 SMax = 16
 K = 6
`

var c09AllSkel = []string{"loop", "loopempty", "recurse", "mutual", "closures", "sconcat", "aconcat", "srepeat", "arepeat", "arepeatwrap", "range", "nest", "nestmid", "sleep",
	"libgrow", "output", "recnest", "rewrite", "autoload"}

// deviations of the real code from the design (named constants of Guards.tla) and the finding each one explains
var c09AsBuilt = []string{"StringConcatUnguarded", "RepeatSizeOverflow", "NestingUnguarded", "StackUnbudgeted"}

var c09FindingOf = map[string]string{
	"StringConcatUnguarded": "string-concat-doubling-unguarded-oom",
	"RepeatSizeOverflow":    "array-repeat-size-overflow-unbounded-loop",
	"NestingUnguarded":      "deep-source-nesting-unguarded",
	"StackUnbudgeted":       "deep-recursion-go-stack-unbudgeted",
}

func c09Set(xs []string) string {
	q := make([]string, len(xs))
	for i, x := range xs {
		q[i] = strconv.Quote(x)
	}
	return "{" + strings.Join(q, ", ") + "}"
}

func c09Cfg(skel, dev []string, emit bool, invs []string, live bool) string {
	s := "CONSTANTS\n Skeletons = " + c09Set(skel) + "\n" + c09Consts + " Dev = " + c09Set(dev) + "\n"
	if emit {
		s += " EmitOn = TRUE\n"
	} else {
		s += " EmitOn = FALSE\n"
	}
	if live {
		s += "SPECIFICATION FairSpec\nPROPERTY Live\n"
	} else {
		s += "SPECIFICATION Spec\n"
	}
	if len(invs) > 0 {
		s += "INVARIANTS " + strings.Join(invs, " ") + "\n"
	}
	return s
}

var c09Invs = []string{"TypeOK", "DepthBound", "NoDeath", "MemBound", "HostLoopCovered", "PromptStop", "BoundaryClean", "RefuseHuge", "SourceBound"}

type c09Sched struct {
	Sk      string   `json:"sk"`
	Md      int      `json:"md"`
	Bud     int      `json:"bud"`
	Par     any      `json:"par"` // the skeleton's size parameter: "half" | "over" | "huge" (libgrow), print size (output), lines of the saved state (autoload)
	K       int      `json:"k"`
	KSat    bool     `json:"ksat"`
	Pc      int      `json:"pc"`
	Op      string   `json:"op"`
	Pred    string   `json:"pred"`
	PStatus string   `json:"pstatus"`
	Used    []string `json:"used"`
}

// one class of model schedules that map to the same real experiment
type c09Class struct {
	Sk    string
	Md    int
	Bud   int
	Par   any    // the skeleton's size parameter (Guards.tla Params)
	Kind  string // nocancel | precancel | tick | ticksat
	K     int
	Preds map[string]bool // predicted outcome classes (model names)
	Used  map[string]bool // deviations exercised by at least one schedule of the class
	N     int             // number of model schedules in the class
}

// real classes that realise a model outcome class
func c09Realises(pred, fate, class string) bool {
	switch pred {
	case "ctxerr":
		return fate == "returned" && (class == "deadline" || class == "canceled")
	case "maxdepth":
		return fate == "returned" && class == "maxdepth"
	case "memrefused":
		return fate == "returned" && (class == "memrefused" || class == "panic" || class == "error") // any refusal
	case "value":
		return fate == "returned" && class == "value"
	case "oom", "stackoverflow":
		return fate == "died" || fate == "killed-rss" || fate == "hang"
	case "diverges":
		return fate == "hang"
	}
	return false
}

// ---- program variants per skeleton. %T is the tick call (or nothing), chosen per job.
var c09Variants = map[string][]string{
	"loop":      {"for true {vtick()}", "i=0; for true {vtick(); i++}", "for 1<<62 {vtick()}", "func w(){for true {vtick()}}; w()", "a=[1,2,3]; for true {for x=a {vtick()}}"},
	"loopempty": {"for true {}", "for 1<<62 {}", "for i=1<<62 {}", "func w(){for true {}}; w()", "for true {1+1}",
		// nested evaluators (their own blank state): the session's deadline must reach them
		"unjson(\"for true {}\")", "eval(\"for true {}\")", "m = macro(x) {for true {}}; m(1)", "func w(){unjson(\"for true {}\")}; w()", "m = macro(x) {unjson(\"for true {}\")}; m(1)"},
	"recurse": {"func f(n){vtick(); 1+f(n+1)}; f(0)", "f=func(n){vtick(); 1+self(n+1)}; f(0)", "func f(n){vtick(); [f(n+1)][0]}; f(0)",
		"func f(a,b,c,d,e,g,h){vtick(); 1+f(a+1,b,c,d,e,g,h)}; f(0.5,\"b\",\"c\",\"d\",\"e\",\"g\",\"h\")", "func f(n){vtick(); if true {f(n+1)}}; f(0)", "func f(){vtick(); f()}; f()",
		"func f(n){vtick(); {\"k\":f(n+1)}}; f(0)", "func f(n){vtick(); -f(n+1)}; f(0)",
		// the recursive call sits in a counted loop whose variable is in a register (released while the guard's panic unwinds)
		"func f(n){vtick(); for i = 0:2 {f(n+i+1)}}; f(0)", "func f(n){vtick(); for i = 2 {for j = 2 {f(n+1)}}}; f(0)", "func f(a, b){vtick(); for k = 1:3 {f(a+k, b)}}; f(0, \"s\")"},
	"mutual":      {"func a(n){vtick(); 1+b(n+1)}; func b(n){1+a(n+1)}; a(0)", "func a(n){vtick(); b(n+1)}; func b(n){c(n+1)}; func c(n){a(n)}; a(0)"},
	"closures":    {"mk=func(n){func(){vtick(); mk(n+1)()}}; mk(0)()", "mk=func(n){()=>{vtick(); mk(n+1)()}}; mk(0)()", "func mk(n){x=n; func(){vtick(); y=x; mk(y+1)()}}; mk(0)()"},
	"sconcat":     {"s=\"x\"; for true {vtick(); s=s+s}", "s=\"xy\"; for 60 {vtick(); s=s+s}; len(s)", "func d(s){vtick(); d(s+s)}; d(\"x\")"},
	"aconcat":     {"a=[1]; for true {vtick(); a=a+a}", "a=[1,2]; for 60 {vtick(); a=a+a}; len(a)", "m={0:0}; n=1; for true {vtick(); t={}; for kv=m {t[kv.key+n]=0}; m=m+t; n=n*2}",
		// many medium sized results that all stay alive (each far below what is free when it is requested)
		"k=[]; for true {vtick(); k = k + [[0]*500000]}", "k=[]; for true {vtick(); k = k + [\"x\"*4000000]}", "m={}; n=0; for true {vtick(); m[n] = [0]*300000; n++}"},
	"srepeat":     {"s=\"abcdefgh\"*(1<<40); len(s)", "s=\"abcdefgh\"*(1<<61); len(s)", "s=\"abcdefgh\"*((1<<60)+1); len(s)", "s=\"x\"*(1<<62); len(s)", "s=\"abcdefgh\"*9223372036854775807; len(s)"},
	"arepeat":     {"a=[1,2,3,4]*(1<<40); len(a)", "a=[1]*(1<<40); len(a)", "a=[1,2]*(1<<36); len(a)"},
	"arepeatwrap": {"a=[1,2,3,4]*(1<<62); len(a)", "a=[1,2,3,4,5,6,7,8]*(1<<61); len(a)",
		// the 64-bit product wraps around to a small positive value that is not below the length
		"a=[1,2,3,4]*((1<<62)+1); len(a)", "a=[1,2,3,4,5,6,7,8]*((1<<61)+3); len(a)", "a=[1,2,3]*6148914691236517207; len(a)",
		"a=[1,2,3,4,5]*3689348814741910325; len(a)", "a=[1,2,3,4]*((1<<62)+(1<<20)); len(a)", "a=[[1,2],[3]]*((1<<63)-1); len(a)"},
	"range":       {"a=0:(1<<40); len(a)", "a=0:(1<<59); len(a)", "a=-(1<<40):(1<<40); len(a)", "a=-9223372036854775807:9223372036854775807; len(a)", "a=(0:(1<<62)); len(a)"},
	"autoload":    {"for true {vtick()}", "i=0; for true {vtick(); i++}", "func w(){for true {vtick()}}; w()", "func f(n){vtick(); 1+f(n+1)}; f(0)"},
	"sleep":       {"sleep(30)", "sleep(1e9)", "func z(){sleep(30)}; z()", "for true {sleep(30)}"},
}

type c09Plan struct {
	Job          c09Job
	Class        *c09Class // nil for pinned reproducers
	WantMaxDepth bool
	WantRefuse   bool
	Pinned       string // finding id for pinned reproducers
}

func c09EffDepth(md int) int64 {
	if md <= 0 {
		return int64(eval.DefaultMaxDepth)
	}
	return int64(md)
}

// c09StackPerLevel: Go stack one level of depth costs at least, from the text of the recursive function: 4 KiB for a plain
// call, as much again for every loop the recursive call sits in (measured: 9-12 kB per level with one loop).
func c09StackPerLevel(src string) int64 {
	return 4096 * int64(1+strings.Count(src, "for "))
}

// c09Attribute: is a failing case explained by a listed deviation of the code (narrow predicate over the CASE, not over the outcome)?
func c09Attribute(p c09Plan, kind string) string {
	j := p.Job
	used := map[string]bool{}
	if p.Class != nil {
		used = p.Class.Used
	}
	if p.Pinned != "" {
		return p.Pinned
	}
	switch {
	case j.Skel == "sconcat" && used["StringConcatUnguarded"]:
		return c09FindingOf["StringConcatUnguarded"]
	case j.Skel == "arepeatwrap" && used["RepeatSizeOverflow"]:
		return c09FindingOf["RepeatSizeOverflow"]
	case (j.Skel == "nest" || j.Skel == "nestmid") && used["NestingUnguarded"] && j.GenN >= 100000:
		return c09FindingOf["NestingUnguarded"]
	case j.Skel == "libgrow" && (strings.HasPrefix(j.Fn, "sharing-") || strings.HasSuffix(j.Fn, "-shared")) &&
		(kind == "hang" || kind == "late" || kind == "died" || kind == "rss"):
		// a value with shared elements walked as a tree by a host-level operation (one finding, whatever the operation and
		// whether the walk ends late, never, or in the memory limit: the timing decides which)
		return "shared-value-walk-unguarded"
	case (j.Skel == "recurse" || j.Skel == "mutual" || j.Skel == "closures") && used["StackUnbudgeted"] &&
		c09EffDepth(j.MaxDepth)*c09StackPerLevel(j.Src)*4/3 > j.MemLimit && (kind == "late" || kind == "rss" || kind == "hang"):
		// (the collector starts thrashing on the deep stack before the stack alone reaches the limit; how late the evaluation
		// returns - seconds, or not within the minute the check waits - is a matter of the machine)
		return c09FindingOf["StackUnbudgeted"]
	case j.Skel == "libgrow" && kind == "late" && j.MemLimit >= 1<<30:
		// the library functions build their result under the memory budget, not under the deadline: with a budget of a
		// gigabyte the refusal (or the result) comes after seconds of building
		return "library-result-built-past-the-deadline"
	}
	return ""
}

// c09Sig: the signature of a failure that no listed finding explains
func c09Sig(kind string, j c09Job) string {
	sig := "c09-" + kind + "-" + j.Skel
	switch {
	case j.Fn != "": // the library function / program shape: each has its own guard
		sig += "-" + j.Fn
	case j.GenCtx != "":
		sig += "-" + j.Gen
	}
	return sig
}

func c09Key(j c09Job) string {
	return fmt.Sprintf("%s|%s|%d|%d|%d|%d|%d|%s|%s|%t|%d|%s|%d|%t", j.Src, j.Gen, j.GenN, j.MaxDepth, j.MemLimit, j.DeadlineMs, j.CancelTick, j.Via,
		j.GenCtx, j.AutoLoad, j.StateLines, j.StateKind, j.PreSleepMs, j.AutoSave)
}

func c09NonTrivial(o c09Obs) bool {
	if o.Fate != "returned" {
		return true
	}
	switch o.Res.Class {
	case "deadline", "canceled", "maxdepth", "memrefused", "panic":
		return true
	}
	return false
}

func c09Sample(p c09Plan, o c09Obs) map[string]any {
	src := p.Job.Src
	if p.Job.Gen != "" {
		src = fmt.Sprintf("<%s nesting x %d>", p.Job.Gen, p.Job.GenN)
	}
	m := map[string]any{"skeleton": p.Job.Skel, "program": src, "max_depth": p.Job.MaxDepth, "mem_limit_mib": p.Job.MemLimit >> 20,
		"deadline_ms": p.Job.DeadlineMs, "cancel_tick": p.Job.CancelTick, "via": p.Job.Via,
		"observed": map[string]any{"fate": o.Fate, "class": o.Res.Class, "eval_ms": o.Res.EvalMs, "peak_rss_kb": o.MaxRSSKb, "ticks": o.Res.Ticks, "ticks_after_cancel": o.Res.TicksAfter}}
	if p.Class != nil {
		var preds []string
		for k := range p.Class.Preds {
			preds = append(preds, k)
		}
		sort.Strings(preds)
		m["model"] = map[string]any{"md": p.Class.Md, "budget": p.Class.Bud, "kind": p.Class.Kind, "k": p.Class.K, "predicted": preds, "schedules": p.Class.N}
	}
	return m
}

func checkC09(c *Ctx) {
	c.Assume("wall-clock time and resident memory are not modelled in TLA+; they are measured by the harness around model-generated schedules (child processes, rusage/VmHWM)")
	c.Assume(fmt.Sprintf("verdict constants: return within deadline + C, C = %.0f ms + %.0f ms per MiB of memory limit; peak RSS <= %d x limit + %d MiB; <= %d vtick() after State.Cancel", c09SlackMs, c09SlackPerMiB, c09RSSFactor, c09RSSBaseline>>20, c09TickSlack))
	c.Assume("the model's small depth limits / budgets / tick counts are mapped onto real values by the tables in harness/c09.go (scaling abstraction)")

	// ---- (a) MC: the design (no deviation) satisfies every property, incl. liveness under fairness, no state constraint
	r, err := c.TLC(TLCOpt{Spec: "Guards", Cfg: c09Cfg(c09AllSkel, nil, false, c09Invs, true), Workers: 2})
	if err != nil {
		c.Infra(err)
		return
	}
	if r.InvViolated != "" || strings.Contains(r.Out, "violated") {
		c.Infra(fmt.Errorf("Guards.tla: the design (Dev = {}) violates %q\n%s", r.InvViolated, r.ErrText))
		return
	}
	c.Cov("design_states", r.Distinct)
	c.Note("MC design (Dev={}): %d states, invariants %v + PROPERTY Live under FairSpec hold", r.Distinct, c09Invs)

	// ---- (b) each named deviation yields its design-level counterexample (spec sabotage = non-vacuity of the properties)
	type devRun struct {
		dev  string
		inv  string // "" = liveness
		skel []string
	}
	devRuns := []devRun{
		{"StringConcatUnguarded", "MemBound", []string{"sconcat"}}, {"RepeatSizeOverflow", "HostLoopCovered", []string{"arepeatwrap"}},
		{"NestingUnguarded", "DepthBound", []string{"nest", "nestmid"}}, {"StackUnbudgeted", "MemBound", []string{"recurse"}},
		{"SleepIgnoresContext", "", []string{"sleep"}}, {"NoResetOnRecover", "BoundaryClean", []string{"recurse", "srepeat"}},
		{"LibraryResultUnguarded", "MemBound", []string{"libgrow"}}, {"CapturedOutputUnbudgeted", "MemBound", []string{"output"}},
		{"NestingUnguarded", "NoDeath", []string{"recnest"}}, {"RewriteRevisits", "SourceBound", []string{"rewrite"}},
		{"DeadlineNetOfLoad", "", []string{"autoload"}},
	}
	if c.Thorough() {
		devRuns = append(devRuns, devRun{"StringConcatUnguarded", "NoDeath", []string{"sconcat"}}, devRun{"RepeatSizeOverflow", "NoDeath", []string{"arepeatwrap"}},
			devRun{"RepeatSizeOverflow", "MemBound", []string{"arepeatwrap"}}, devRun{"NestingUnguarded", "NoDeath", []string{"nest"}},
			devRun{"NestingUnguarded", "PromptStop", []string{"nest"}}, devRun{"StringConcatUnguarded", "PromptStop", []string{"sconcat"}})
	}
	cex := map[string][]string{}
	for _, d := range devRuns {
		var invs []string
		if d.inv != "" {
			invs = []string{d.inv}
		}
		r, err := c.TLC(TLCOpt{Spec: "Guards", Cfg: c09Cfg(d.skel, []string{d.dev}, false, invs, d.inv == ""), Workers: 1, AllowError: true})
		if err != nil {
			c.Infra(err)
			return
		}
		got := r.InvViolated
		if d.inv == "" {
			if !strings.Contains(r.Out, "Temporal property Live was violated") && !strings.Contains(r.Out, "Temporal properties were violated") {
				c.Infra(fmt.Errorf("vacuous property: deviation %s does not violate Live\n%s", d.dev, r.ErrText))
				return
			}
			got = "Live"
		} else if got != d.inv {
			c.Infra(fmt.Errorf("vacuous property: deviation %s does not violate %s (got %q)\n%s", d.dev, d.inv, got, r.ErrText))
			return
		}
		cex[d.dev] = append(cex[d.dev], got)
	}
	c.Cov("design_counterexamples_with_deviation", cex)

	// ---- (c) GEN: schedules of the as-built machine
	r, err = c.TLC(TLCOpt{Spec: "Guards", Cfg: c09Cfg(c09AllSkel, c09AsBuilt, true, nil, false), Workers: 1})
	if err != nil {
		c.Infra(err)
		return
	}
	classes := map[string]*c09Class{}
	var order []string
	nSched := 0
	err = ReadLines(r.Emitted, func(line []byte) error {
		var s c09Sched
		if err := json.Unmarshal(line, &s); err != nil {
			return err
		}
		nSched++
		kind := "tick"
		k := s.K
		switch {
		case s.K == -1:
			kind = "nocancel"
		case s.K == 0:
			kind = "precancel" // no tick happened yet: realised by a context cancelled before the evaluation, and by the shortest deadlines
		case s.KSat:
			kind = "ticksat"
		}
		key := fmt.Sprintf("%s/%d/%d/%v/%s/%d", s.Sk, s.Md, s.Bud, s.Par, kind, k)
		cl := classes[key]
		if cl == nil {
			cl = &c09Class{Sk: s.Sk, Md: s.Md, Bud: s.Bud, Par: s.Par, Kind: kind, K: k, Preds: map[string]bool{}, Used: map[string]bool{}}
			classes[key] = cl
			order = append(order, key)
		}
		cl.N++
		cl.Preds[s.Pred] = true
		if s.Sk == "nestmid" && s.Pred == "value" {
			cl.Preds["maxdepth"] = true // which nesting constructs pass the depth check is construct-specific (prefix chains do, literals/arguments/blocks do not); the model has one flag
		}
		for _, u := range s.Used {
			cl.Used[u] = true
		}
		return nil
	})
	if err != nil {
		c.Infra(err)
		return
	}
	if nSched == 0 || len(classes) < 50 {
		c.Infra(fmt.Errorf("Guards GEN emitted %d schedules in %d classes", nSched, len(classes)))
		return
	}
	sort.Strings(order)
	c.Cov("model_schedules", nSched)
	c.Cov("schedule_classes", len(classes))

	plans := c09Concretize(c, classes, order)
	plans = append(plans, c09Pinned(c)...)
	plans = append(plans, c09FamPinned(c)...)
	c.Cov("excluded_features", []string{})

	// ---- run
	jobs := make([]c09Job, len(plans))
	for i := range plans {
		plans[i].Job.ID = fmt.Sprintf("c%04d", i)
		if plans[i].Job.HardCap == 0 {
			plans[i].Job.HardCap = c09HardCap(plans[i].Job.MemLimit)
		}
		jobs[i] = plans[i].Job
	}
	outer := func(j c09Job) time.Duration {
		if j.Skel == "rewrite" {
			return 12 * time.Second // small programs with a deadline of at most 1 s
		}
		if j.Skel == "autoload" || j.Skel == "libgrow" {
			return 20 * time.Second
		}
		return 45 * time.Second
	}
	t0 := time.Now()
	obs := c09RunAll(c, jobs, c09Par, outer)
	c.Note("%d children in %.1f s (%d at once)", len(jobs), time.Since(t0).Seconds(), c09Par)

	stats := map[string]int{}
	confirmed := map[string]int{} // failures confirmed by a run of their own, by signature
	failing := map[string]int{}
	disagree := 0
	var maxOver, maxRSSRatio float64
	type slow struct {
		over float64
		s    map[string]any
	}
	var slowest, fattest []slow
	var disagreeSamples []any
	var heldTick, heldRefuse *c09Obs
	sampled := map[string]bool{}
	for i, p := range plans {
		o := obs[i]
		if o.Fate == "infra" {
			c.Infra(fmt.Errorf("child %s could not run: %s", p.Job.ID, o.Stderr))
			return
		}
		kind, detail := c09Verdict(o, p.WantMaxDepth, p.WantRefuse)
		sig := ""
		if kind != "" {
			sig = c09Attribute(p, kind)
			if sig == "" && confirmed[c09Sig(kind, p.Job)] >= 2 {
				// the same failure (kind x family member) was confirmed twice by a run of its own already
			} else if sig == "" {
				// not explained by a listed finding: re-run once ALONE before it counts (loaded machine)
				o2 := c09RunChild(filepath.Join(c.Scratch(), "c09", "rerun"), p.Job, outer(p.Job)+15*time.Second)
				_ = os.RemoveAll(filepath.Join(c.Scratch(), "c09", "rerun"))
				if o2.Fate == "infra" {
					c.Infra(fmt.Errorf("child %s could not be re-run: %s", p.Job.ID, o2.Stderr))
					return
				}
				o2.Rerun = true
				stats["reruns"]++
				k2, d2 := c09Verdict(o2, p.WantMaxDepth, p.WantRefuse)
				if k2 != "" {
					confirmed[c09Sig(k2, p.Job)]++
				}
				if k2 == "" {
					c.Note("case %s (%s) failed as %q under load and held when re-run alone: %s", p.Job.ID, p.Job.Skel, kind, detail)
				}
				o, kind, detail = o2, k2, d2
			}
		}
		c.Case(c09Key(p.Job), c09NonTrivial(o))
		c.AddTraces(1)
		stats["fate:"+o.Fate]++
		if o.Fate == "returned" {
			stats["class:"+o.Res.Class]++
			if p.Job.DeadlineMs > 0 && kind == "" {
				ov := o.Res.EvalMs - float64(p.Job.DeadlineMs)
				if ov > maxOver {
					maxOver = ov
				}
				if ov > 500 {
					slowest = append(slowest, slow{ov, c09Sample(p, o)})
				}
			}
			if kind == "" {
				rr := float64(o.MaxRSSKb*1024) / float64(c09RSSBound(p.Job.MemLimit))
				if rr > maxRSSRatio {
					maxRSSRatio = rr
				}
				if rr > 0.5 {
					fattest = append(fattest, slow{rr, c09Sample(p, o)})
				}
			}
		}
		// conformance with the model's prediction (diagnostic: the verdict is the property's relation)
		if p.Class != nil {
			ok := false
			for pred := range p.Class.Preds {
				if c09Realises(pred, o.Fate, o.Res.Class) {
					ok = true
				}
			}
			// a deadline / cancellation may end any schedule; a schedule predicted to die may be stopped by the deadline first
			if !ok && o.Fate == "returned" && (o.Res.Class == "deadline" || o.Res.Class == "canceled") {
				ok = true
			}
			if !ok {
				disagree++
				if len(disagreeSamples) < 5 {
					disagreeSamples = append(disagreeSamples, c09Sample(p, o))
				}
			}
		}
		sk := p.Job.Skel + "/" + o.Res.Class
		if !sampled[sk] && len(sampled) < 8 {
			sampled[sk] = true
			c.Sample(c09Sample(p, o))
		}
		if kind == "" && o.Fate == "returned" {
			if heldTick == nil && p.Job.CancelTick > 0 && o.Res.Cancelled && p.Job.DeadlineMs > 0 {
				oc := o
				heldTick = &oc
			}
			if heldRefuse == nil && p.WantRefuse && p.Job.DeadlineMs > 0 {
				oc := o
				heldRefuse = &oc
			}
		}
		if p.Pinned != "" {
			if kind == "" {
				c.Note("pinned reproducer of %s holds on this tree (%s: %s %.0f ms, %d kB)", p.Pinned, o.Fate, o.Res.Class, o.Res.EvalMs, o.MaxRSSKb)
			}
		}
		if kind == "" {
			continue
		}
		stats["fail:"+kind]++
		if sig == "" {
			sig = c09Sig(kind, p.Job)
		}
		failing[sig]++
		c.Fail(sig, fmt.Sprintf("%s: %s [skeleton %s, MaxDepth %d, limit %d MiB, deadline %d ms, cancel tick %d]", kind, detail, p.Job.Skel, p.Job.MaxDepth, p.Job.MemLimit>>20, p.Job.DeadlineMs, p.Job.CancelTick),
			map[string]any{"check": "child", "job": p.Job, "want_maxdepth": p.WantMaxDepth, "want_refuse": p.WantRefuse, "observed": o})
	}
	c.Cov("outcomes", stats)
	if len(failing) > 0 {
		c.Cov("failing_signatures", failing)
	}
	c.Cov("model_disagreement", disagree)
	if len(disagreeSamples) > 0 {
		c.Cov("model_disagreement_samples", disagreeSamples)
	}
	sort.Slice(slowest, func(i, j int) bool { return slowest[i].over > slowest[j].over })
	var sl []any
	for i := 0; i < len(slowest) && i < 6; i++ {
		sl = append(sl, slowest[i].s)
	}
	c.Cov("holding_cases_more_than_500ms_over_deadline", len(slowest))
	if len(sl) > 0 {
		c.Cov("slowest_holding_cases", sl)
	}
	sort.Slice(fattest, func(i, j int) bool { return fattest[i].over > fattest[j].over })
	var fl []any
	for i := 0; i < len(fattest) && i < 4; i++ {
		fl = append(fl, fattest[i].s)
	}
	if len(fl) > 0 {
		c.Cov("highest_rss_holding_cases", fl)
	}
	c.Cov("max_overshoot_ms_of_holding_cases", maxOver)
	c.Cov("max_rss_over_bound_ratio_of_holding_cases", maxRSSRatio)
	c.Cov("exhaustive", false)

	// ---- binding self-test: perturbed observations of REAL held runs of this batch must be rejected by the verdict
	// (an evaluator that ignores the cancellation, a late return, RSS above the bound, a value out of a refused growth,
	// a dead child). Skipped when the batch already produced violations (the check is evidently not vacuous then).
	if c.NumViolations() == 0 {
		if heldTick == nil || heldRefuse == nil {
			c.Infra(fmt.Errorf("binding self-test: no held tick-cancel / refused-growth case in the batch"))
			return
		}
		if heldTick.Res.Ticks != heldTick.Job.CancelTick || heldTick.Res.TicksAfter != 0 {
			c.Infra(fmt.Errorf("binding self-test: tick-exact cancellation does not work: %+v", *heldTick))
			return
		}
		m := *heldTick
		m.Res.TicksAfter = 200000 // what an evaluator that ignores the context would have produced
		if k, _ := c09Verdict(m, false, false); k != "ticks" {
			c.Infra(fmt.Errorf("vacuous binding: a run with %d ticks after Cancel passes the verdict", m.Res.TicksAfter))
			return
		}
		for _, mut := range []string{"late", "rss", "grew", "died", "hang"} {
			m := *heldRefuse
			switch mut {
			case "late":
				m.Res.EvalMs = float64(m.Job.DeadlineMs) + c09Slack(m.Job.MemLimit) + 1
			case "rss":
				m.MaxRSSKb = c09RSSBound(m.Job.MemLimit)/1024 + 1
			case "grew":
				m.Res.Class = "value"
			case "died":
				m.Fate = "died"
			case "hang":
				m.Fate = "hang"
			}
			if k, _ := c09Verdict(m, false, true); k != mut {
				c.Infra(fmt.Errorf("vacuous binding: perturbation %q of a real observation passes the verdict (%q)", mut, k))
				return
			}
		}
		c.Cov("sabotage_rejected", true)
	}
}

// c09Concretize turns model schedule classes into real jobs.
func c09Concretize(c *Ctx, classes map[string]*c09Class, order []string) []c09Plan {
	rng := c.Rng
	depths := map[int][]int{2: {10, 100}, 3: {1000, 10000}}
	mems := map[int][]int64{4: {64 << 20}, 8: {256 << 20}}
	deadlines := []int{1, 10, 100, 1000}
	perClass := 1
	if c.Thorough() {
		depths = map[int][]int{2: {10, 30, 100, 300}, 3: {1000, 3000, 10000, 0}} // 0 = grol's default 150000
		mems = map[int][]int64{4: {64 << 20, 128 << 20}, 8: {256 << 20, 1 << 30}}
		deadlines = []int{1, 3, 10, 30, 100, 300, 1000}
		perClass = 10
	}
	var plans []c09Plan
	seen := map[string]bool{}
	add := func(p c09Plan) {
		k := c09Key(p.Job)
		if seen[k] {
			return
		}
		seen[k] = true
		plans = append(plans, p)
	}
	pick := func(xs []int) int { return xs[rng.Intn(len(xs))] }
	nestDone := map[string]bool{}
	for _, key := range order {
		cl := classes[key]
		recursive := cl.Sk == "recurse" || cl.Sk == "mutual" || cl.Sk == "closures" || cl.Sk == "recnest"
		huge := cl.Sk == "srepeat" || cl.Sk == "arepeat" || cl.Sk == "arepeatwrap" || cl.Sk == "range"
		for rep := 0; rep < perClass; rep++ {
			md := pick(depths[cl.Md])
			ml := mems[cl.Bud][rng.Intn(len(mems[cl.Bud]))]
			via := []string{"string", "one"}[rng.Intn(2)]
			if recursive {
				via = "one" // the REPL-boundary reset is part of what a depth failure must leave behind
			}
			j := c09Job{Skel: cl.Sk, MaxDepth: md, MemLimit: ml, Via: via, DeadlineMs: 1000}
			p := c09Plan{Class: cl}
			switch cl.Sk {
			case "nest":
				// deeper than the Go stack takes: the expensive reproducers live in c09Pinned; here only the cancellation variants
				// of a nesting that is deep but not fatal (the model class still says "NestingUnguarded" is exercised)
				if nestDone[cl.Kind] || !c.Thorough() {
					continue
				}
				nestDone[cl.Kind] = true
				j.Gen, j.GenN, j.MemLimit, j.MaxDepth = "paren", 1000000, 2<<30, 0
				j.HardCap = 3 << 30
			case "nestmid":
				kinds := []string{"paren", "bracket", "neg", "block", "call", "elseif", "sum", "dot", "callchain", "index", "lambda", "strcat"}
				j.Gen = kinds[rng.Intn(len(kinds))]
				n := 5 * md
				if md == 0 || n > 20000 {
					n = 20000
					if md == 0 || md >= n {
						j.MaxDepth = 1000
					}
				}
				if j.Gen == "block" && n > 3000 {
					n = 3000 // the formatter's indentation makes the printed form quadratic in the nesting
					if j.MaxDepth >= n {
						j.MaxDepth = 300
					}
				}
				if j.Gen == "call" && n > 8000 {
					n = 8000 // nested calls cost quadratic time in the nesting (environment chain), keep them well inside C
					if j.MaxDepth == 0 || j.MaxDepth >= n {
						j.MaxDepth = 1000
					}
				}
				j.GenN = n
			case "libgrow", "output", "recnest", "rewrite", "autoload":
				c09FamJob(rng, cl, &j, &p)
			default:
				vs := c09Variants[cl.Sk]
				j.Src = vs[rng.Intn(len(vs))]
			}
			switch cl.Kind {
			case "nocancel":
				p.WantMaxDepth = recursive
			case "precancel":
				// no tick yet: realised exactly by a context that is already cancelled when the evaluation starts
				// (cancellation instants between the start and the first tick are reached by the deadline sweep below)
				j.CancelTick = -1
			case "tick":
				j.CancelTick = cl.K
				j.DeadlineMs = 5000
			case "ticksat":
				hi := 5000
				switch {
				case recursive:
					hi = int(c09EffDepth(md) / 8)
					if hi > 20000 {
						hi = 20000
					}
				case cl.Sk == "sconcat" || cl.Sk == "aconcat":
					hi = 20
				}
				if hi <= cl.K {
					hi = cl.K + 1
				}
				j.CancelTick = cl.K + rng.Intn(hi-cl.K)
				j.DeadlineMs = 5000
			}
			if huge {
				p.WantRefuse = true
			}
			if cl.Sk == "recnest" && j.DeadlineMs < 20000 {
				j.DeadlineMs = 20000
			}
			if j.CancelTick != 0 && j.Skel != "nest" {
				// tick-exact cancellation needs no wall-clock deadline to end the run; keep one as a safety net only
				if j.DeadlineMs < 1000 {
					j.DeadlineMs = 1000
				}
			}
			p.Job = j
			add(p)
		}
	}
	// every skeleton x every deadline: "the deadline fires at an arbitrary instant of the evaluation"
	for _, sk := range c09AllSkel {
		if sk == "nest" {
			continue
		}
		var cl *c09Class
		for _, key := range order { // the no-cancel class (or, for the non-terminating skeletons, the saturated one) carries the prediction
			x := classes[key]
			if x.Sk == sk && (cl == nil || x.Kind == "nocancel" || (cl.Kind != "nocancel" && x.Kind == "ticksat")) {
				cl = x
			}
		}
		for _, d := range deadlines {
			reps := 1
			if c.Thorough() {
				reps = 4
			}
			for rep := 0; rep < reps; rep++ {
				md := pick(depths[2+rng.Intn(2)])
				budk := []int{4, 8}[rng.Intn(2)]
				ml := mems[budk][rng.Intn(len(mems[budk]))]
				j := c09Job{Skel: sk, MaxDepth: md, MemLimit: ml, Via: []string{"string", "one"}[rng.Intn(2)], DeadlineMs: d}
				if sk == "nestmid" {
					j.Gen, j.GenN = []string{"paren", "bracket", "neg", "call"}[rng.Intn(4)], 20000
					if j.Gen == "call" {
						j.GenN = 8000
					}
					if md == 0 || md >= j.GenN {
						j.MaxDepth = 1000
					}
				}
				p := c09Plan{Job: j, Class: cl}
				switch sk {
				case "nestmid":
				case "recnest":
					continue // the deadline must not be what ends these: see c09FamJob
				case "libgrow", "output", "rewrite", "autoload":
					// the sweep draws its own size class
					x := *cl
					switch sk {
					case "libgrow":
						x.Par = []string{"half", "over", "huge"}[rng.Intn(3)]
					case "output":
						x.Par = 1 + rng.Intn(2)
					case "autoload":
						x.Par = 0
					}
					c09FamJob(rng, &x, &p.Job, &p)
					if sk == "autoload" && rng.Intn(3) > 0 {
						p.Job.StateLines, p.Job.StateKind = 0, ""
						c09SlowLoad(rng, &p.Job, d)
					}
				default:
					vs := c09Variants[sk]
					p.Job.Src = vs[rng.Intn(len(vs))]
				}
				if sk == "srepeat" || sk == "arepeat" || sk == "arepeatwrap" || sk == "range" {
					p.WantRefuse = true
				}
				add(p)
			}
		}
	}
	return plans
}

// c09Pinned: the reproducers of the known findings, run on every check (they print KNOWN-FINDING while they still fail).
func c09Pinned(c *Ctx) []c09Plan {
	ps := []c09Plan{
		{Pinned: c09FindingOf["StringConcatUnguarded"], Job: c09Job{Skel: "sconcat", Src: "s=\"x\"; for 40 {s=s+s}; len(s)", MaxDepth: 100, DeadlineMs: 1000, MemLimit: 64 << 20, Via: "string"}},
		{Pinned: c09FindingOf["RepeatSizeOverflow"], WantRefuse: true, Job: c09Job{Skel: "arepeatwrap", Src: "a=[1,2,3,4]*(1<<62); len(a)", MaxDepth: 100, DeadlineMs: 1000, MemLimit: 64 << 20, Via: "string", HardCap: 512 << 20}},
		{Pinned: c09FindingOf["StackUnbudgeted"], WantMaxDepth: true, Job: c09Job{Skel: "recurse", Src: "func f(n){vtick(); 1+f(n+1)}; f(0)", MaxDepth: 0, DeadlineMs: 60000, CancelTick: 60000, MemLimit: 64 << 20, Via: "one", HardCap: 2 << 30}},
		{Pinned: c09FindingOf["NestingUnguarded"], Job: c09Job{Skel: "nest", Src: "eval(\"(\"*2000000+\"1\"+\")\"*2000000)", MaxDepth: 1000, DeadlineMs: 1000, MemLimit: 2 << 30, Via: "string", HardCap: 3 << 30}},
		{Pinned: c09FindingOf["NestingUnguarded"], Job: c09Job{Skel: "nest", Gen: "bracket", GenN: 100000, MaxDepth: 1000, DeadlineMs: 1000, MemLimit: 256 << 20, Via: "string"}},
	}
	// seed-independent control cases that must HOLD (no finding covers them): one per guard
	M64 := int64(64 << 20)
	ps = append(ps,
		c09Plan{WantMaxDepth: true, Job: c09Job{Skel: "recurse", Src: "func f(n){vtick(); 1+f(n+1)}; f(0)", MaxDepth: 10, DeadlineMs: 1000, MemLimit: M64, Via: "one"}},
		c09Plan{WantMaxDepth: true, Job: c09Job{Skel: "recurse", Src: "func f(n){vtick(); 1+f(n+1)}; f(0)", MaxDepth: 10, DeadlineMs: 5000, CancelTick: 3, MemLimit: M64, Via: "one"}},
		c09Plan{WantMaxDepth: true, Job: c09Job{Skel: "mutual", Src: "func a(n){vtick(); 1+b(n+1)}; func b(n){1+a(n+1)}; a(0)", MaxDepth: 99, DeadlineMs: 1000, MemLimit: M64, Via: "one"}},
		c09Plan{Job: c09Job{Skel: "loopempty", Src: "for true {}", MaxDepth: 100, DeadlineMs: 100, MemLimit: M64, Via: "string"}},
		c09Plan{Job: c09Job{Skel: "loopempty", Src: "unjson(\"for true {}\")", MaxDepth: 100, DeadlineMs: 100, MemLimit: M64, Via: "string"}},
		c09Plan{Job: c09Job{Skel: "loopempty", Src: "eval(\"for true {}\")", MaxDepth: 100, DeadlineMs: 100, MemLimit: M64, Via: "one"}},
		c09Plan{Job: c09Job{Skel: "loopempty", Src: "m = macro(x) {for true {}}; m(1)", MaxDepth: 100, DeadlineMs: 100, MemLimit: M64, Via: "one"}},
		c09Plan{WantMaxDepth: true, Job: c09Job{Skel: "recurse", Src: "eval(\"func f(n){vtick(); 1+f(n+1)}; f(0)\")", MaxDepth: 10, DeadlineMs: 1000, MemLimit: M64, Via: "one"}},
		c09Plan{Job: c09Job{Skel: "loop", Src: "for true {vtick()}", MaxDepth: 100, DeadlineMs: 5000, CancelTick: 1000, MemLimit: M64, Via: "one"}},
		c09Plan{Job: c09Job{Skel: "sleep", Src: "sleep(30)", MaxDepth: 100, DeadlineMs: 100, MemLimit: M64, Via: "string"}},
		c09Plan{WantRefuse: true, Job: c09Job{Skel: "arepeat", Src: "a=[1,2,3,4]*(1<<40); len(a)", MaxDepth: 100, DeadlineMs: 100, MemLimit: M64, Via: "string"}},
		c09Plan{WantRefuse: true, Job: c09Job{Skel: "srepeat", Src: "s=\"abcdefgh\"*(1<<40); len(s)", MaxDepth: 100, DeadlineMs: 100, MemLimit: M64, Via: "one"}},
		c09Plan{WantRefuse: true, Job: c09Job{Skel: "range", Src: "a=0:(1<<40); len(a)", MaxDepth: 100, DeadlineMs: 100, MemLimit: M64, Via: "string"}},
		c09Plan{Job: c09Job{Skel: "aconcat", Src: "a=[1]; for true {vtick(); a=a+a}", MaxDepth: 100, DeadlineMs: 1000, MemLimit: M64, Via: "one"}},
		c09Plan{Job: c09Job{Skel: "aconcat", Src: "k=[]; for true {vtick(); k = k + [[0]*500000]}", MaxDepth: 100, DeadlineMs: 8000, MemLimit: 256 << 20, Via: "one", HardCap: 3 << 30}},
		c09Plan{Job: c09Job{Skel: "aconcat", Src: "m={}; n=0; for true {vtick(); m[n] = [0]*300000; n++}", MaxDepth: 100, DeadlineMs: 8000, MemLimit: 256 << 20, Via: "string", HardCap: 3 << 30}},
		c09Plan{WantMaxDepth: true, Job: c09Job{Skel: "recurse", Src: "func f(n){vtick(); for i = 0:2 {f(n+i+1)}}; f(0)", MaxDepth: 100, DeadlineMs: 2000, MemLimit: M64, Via: "one"}},
		c09Plan{WantMaxDepth: true, Job: c09Job{Skel: "recurse", Src: "func f(n){vtick(); for i = 2 {for j = 2 {f(n+1)}}}; f(0)", MaxDepth: 10, DeadlineMs: 2000, MemLimit: M64, Via: "string"}},
	)
	// chains and nestings far beyond what the Go stack takes when the parser, printer or evaluator recurses on them unguarded
	for _, g := range []string{"elseif", "sum", "dot", "callchain", "index", "lambda", "strcat", "block", "funcblock", "forblock"} {
		n := 1000000
		if g == "sum" || g == "dot" || g == "strcat" {
			n = 4000000 // the printer needs ~300 B of stack per level of a left-deep tree: beyond 1 GB at this size
		}
		ps = append(ps, c09Plan{Job: c09Job{Skel: "nest", Gen: g, GenN: n, MaxDepth: 1000, DeadlineMs: 1000, MemLimit: 1 << 30, Via: []string{"string", "one"}[len(ps)%2], HardCap: 3 << 30}})
	}
	// every size-overflow variant of array repetition (the product wraps around 2^64 to a negative, zero, small or large value)
	for _, src := range c09Variants["arepeatwrap"] {
		ps = append(ps, c09Plan{WantRefuse: true, Job: c09Job{Skel: "arepeatwrap", Src: src, MaxDepth: 100, DeadlineMs: 1000, MemLimit: M64, Via: "string", HardCap: 512 << 20}})
	}
	if c.Thorough() {
		ps = append(ps,
			c09Plan{Pinned: c09FindingOf["NestingUnguarded"], Job: c09Job{Skel: "nest", Gen: "paren", GenN: 2000000, MaxDepth: 1000, DeadlineMs: 1000, MemLimit: 2 << 30, Via: "one", HardCap: 3 << 30}},
			c09Plan{Pinned: c09FindingOf["StringConcatUnguarded"], Job: c09Job{Skel: "sconcat", Src: "s=\"x\"; for 40 {s=s+s}; len(s)", MaxDepth: 100, DeadlineMs: 0, MemLimit: 256 << 20, Via: "one", HardCap: 1 << 30}},
		)
	}
	return ps
}

func replayC09(rp map[string]any) (bool, string) {
	var job c09Job
	b, _ := json.Marshal(rp["job"])
	if err := json.Unmarshal(b, &job); err != nil {
		return false, "bad replay file: " + err.Error()
	}
	wantMD, _ := rp["want_maxdepth"].(bool)
	wantRef, _ := rp["want_refuse"].(bool)
	d, err := os.MkdirTemp("", "verif-c09-replay-")
	if err != nil {
		return false, err.Error()
	}
	defer os.RemoveAll(d)
	if job.HardCap == 0 {
		job.HardCap = c09HardCap(job.MemLimit)
	}
	var kind, detail string
	for try := 0; try < 2; try++ {
		o := c09RunChild(filepath.Join(d, fmt.Sprint(try)), job, 90*time.Second)
		if o.Fate == "infra" {
			fmt.Fprintln(os.Stderr, "INFRASTRUCTURE: child could not run:", o.Stderr)
			os.Exit(2)
		}
		kind, detail = c09Verdict(o, wantMD, wantRef)
		if kind == "" {
			return true, ""
		}
	}
	return false, kind + ": " + detail
}
