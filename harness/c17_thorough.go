package main

// C17, thorough tier: model checking at name length 6, an strace pass (independent observation of the
// opens the real code attempts) and a pass through the real `grol` binary (CLI flag -> Config mapping).

import (
	"bufio"
	"encoding/json"
	"fmt"
	"hash/fnv"
	"math/rand"
	"os"
	"os/exec"
	"path/filepath"
	"regexp"
	"sort"
	"strconv"
	"strings"
	"sync"
	"syscall"
	"time"
)

// emitted GEN file of the depth-1 run per configuration (kept for sampling)
var c17Emitted = map[string]string{}
var c17EmittedMu sync.Mutex

// names always included in the strace / binary samples (besides the short and the random ones)
var c17Always = map[string]bool{
	"/a.gr": true, "/a": true, "/.gr": true, "/l1/l2/cwd/a.gr": true, "/l1/l2/cwd/sub/a.gr": true, "/l1/l2/a.gr": true,
	"../a.gr": true, "../../a.gr": true, "../../../a.gr": true, "./a.gr": true, "sub/a": true, "sub/a.gr": true, "sub/../a": true,
	"a.gr/": true, ".": true, "..": true, "/": true, "a.gr.gr": true, ".gr.gr": true, "A.gr": true, "aZ09_": true, "Az_09.gr": true,
	"grol.png": true, "/dev/null": true, "/etc/passwd": true, "~/a": true, "a b": true, "a.b": true, "a.b.gr": true, ".a": true,
	"..gr": true, "a\x00.gr": true, "\x00": true, "../a\x00.gr": true, "a\n": true, "a\"b": true, "\xc3\xa9": true, "\xc3\xa9.gr": true,
}

// c17Sample picks transitions of one configuration from an emitted file: every name of length <= 1 (plain and
// suffixed), the pinned ones above, image saves, the identifier probe, and nRandom others chosen by rng.
func c17Sample(emitted, cfg string, nRandom int, rng *rand.Rand) ([]c17Gen, error) {
	total := 0
	must := func(g *c17Gen) bool {
		n := c17Bytes(g.N)
		if g.T == 2 { // the fault tree: the requests whose target is a directory there
			return g.O == "image" || g.G == 0 || n == "" || n == ".gr" || n == "d" || n == "d.gr" || n == "e" || n == "e.gr"
		}
		if len(n) > 0 && len(n) <= 4 && strings.IndexByte("\xc4\xc5\xe2\xe3\xef\xf0", n[0]) >= 0 { // (bytes, not runes)
			return true // a single multi-byte UTF-8 character
		}
		return g.O == "image" || g.O == "exec" || g.G == 0 || len(strings.TrimSuffix(n, ".gr")) <= 1 || c17Always[n]
	}
	scan := func(fn func(i int, line []byte) error) error {
		i := 0
		return ReadLines(emitted, func(line []byte) error {
			if strings.HasPrefix(string(line), `{"init"`) {
				return nil
			}
			err := fn(i, line)
			i++
			return err
		})
	}
	if err := scan(func(i int, line []byte) error { total++; return nil }); err != nil {
		return nil, err
	}
	// the random part is chosen by a seeded hash of the transition itself, so that the sample does not depend on
	// the order in which TLC's workers emitted the lines
	seed := uint64(rng.Int63())
	picked := func(g *c17Gen) bool {
		if total == 0 || nRandom == 0 {
			return false
		}
		h := fnv.New64a()
		fmt.Fprintf(h, "%d|%s|%d|%s|%d|%v", seed, g.C, g.T, g.O, g.G, g.N)
		return h.Sum64()%uint64(total) < uint64(nRandom)
	}
	var first, rest []c17Gen // the always-included transitions come first
	err := scan(func(i int, line []byte) error {
		var g c17Gen
		if err := json.Unmarshal(line, &g); err != nil {
			return err
		}
		if g.C != cfg {
			return nil
		}
		if must(&g) {
			first = append(first, g)
		} else if picked(&g) {
			rest = append(rest, g)
		}
		return nil
	})
	prio := func(g *c17Gen) int {
		n := c17Bytes(g.N)
		switch {
		case g.G == 0 && (g.O == "save" || g.O == "load"), n == "", n == ".gr":
			return 0
		case g.O == "exec", g.O == "image":
			return 1
		case len(strings.TrimSuffix(n, ".gr")) <= 1:
			return 2
		}
		return 3
	}
	ord := func(l []c17Gen) {
		sort.SliceStable(l, func(a, b int) bool {
			if pa, pb := prio(&l[a]), prio(&l[b]); pa != pb {
				return pa < pb
			}
			ka := fmt.Sprintf("%s|%d|%d|%v", l[a].O, l[a].T, l[a].G, l[a].N)
			kb := fmt.Sprintf("%s|%d|%d|%v", l[b].O, l[b].T, l[b].G, l[b].N)
			return ka < kb
		})
	}
	ord(first)
	ord(rest)
	return append(first, rest...), err
}

func c17Thorough(c *Ctx, hdr *c17Hdr, chroot bool) {
	t0 := time.Now()
	// samples are drawn in the main goroutine (c.Rng is not goroutine-safe)
	samples := map[string][]c17Gen{}
	for _, cfg := range []string{"restricted", "emptyonly", "disabled", "unrestricted"} {
		c17EmittedMu.Lock()
		em := c17Emitted[cfg]
		c17EmittedMu.Unlock()
		n := c.Pick(0, 400)
		if cfg == "disabled" || cfg == "unrestricted" {
			n = c.Pick(0, 120)
		}
		s, err := c17Sample(em, cfg, n, c.Rng)
		if err != nil {
			c.Infra(err)
			return
		}
		if cfg == "unrestricted" && !chroot {
			var keep []c17Gen
			for _, g := range s {
				if len(g.N) == 0 || g.N[0] != '/' {
					keep = append(keep, g)
				}
			}
			s = keep
		}
		samples[cfg] = s
	}
	var wg sync.WaitGroup
	if !c.Thorough() {
		// quick tier: only a small pass through the real binary (CLI flag -> Config mapping of main.go)
		c17BinaryPass(c, hdr, chroot, samples, 70)
		return
	}
	// (a) MC only: every name up to length 6 in the restricted configuration (no emission, no replay)
	wg.Add(1)
	go func() {
		defer wg.Done()
		run := c17Run{configs: []string{"restricted"}, trees: []int{0}, alphabet: "Alphabet10", extra: "AllPinned", sweep: "ByteSweep", maxLen: 6, maxOps: 1, shards: 10, workers: 8}
		r, err := c.TLC(TLCOpt{Spec: "RestrictIO_MC", Cfg: c17CfgText(run, "none", false, c17Invs, c17Props), Workers: 8, Timeout: 25 * time.Minute})
		if err != nil {
			c.Infra(err)
			return
		}
		c.Note("MC restricted names<=6 (%d names plain+suffixed) x {save,load}, tree 0: %d transitions, %d states in %.1fs, all five properties hold (model only, not replayed)",
			c17Names(6), r.Generated, r.Distinct, r.Wall.Seconds())
		c.Cov("mc_only_max_name_length", 6)
	}()
	// (b) strace pass
	wg.Add(1)
	go func() {
		defer wg.Done()
		c17StracePass(c, hdr, chroot, samples)
	}()
	// (c) the real binary
	wg.Add(1)
	go func() {
		defer wg.Done()
		c17BinaryPass(c, hdr, chroot, samples, 420)
	}()
	wg.Wait()
	c.Cov("phase_seconds_thorough_extras", time.Since(t0).Seconds())
}

// c17Vacuous: an observer self-test on the unrestricted configuration stayed silent.  When the run already holds
// violations the silence is a symptom of the broken implementation (e.g. an inverted flag), not of the harness.
func c17Vacuous(c *Ctx, what string) {
	c.mu.Lock()
	n := len(c.violations)
	c.mu.Unlock()
	if n == 0 {
		c.Infra(fmt.Errorf("vacuous binding: %s", what))
		return
	}
	c.Note("self-test silent (%s) while %d violations were found: not treated as a harness fault", what, n)
}

// ---------------------------------------------------------------------------- strace

const c17StraceSet = "open,openat,openat2,creat,rename,renameat,renameat2,unlink,unlinkat,mkdir,mkdirat,truncate,link,linkat,symlink,symlinkat,execve,execveat"

// Paths the Go runtime / libc may open on their own at any moment; never judged. (Inside the evaluation
// windows of a restricted child none of them was ever seen; the list only guards against false alarms.)
var c17RuntimePaths = []string{
	"/proc/self/", "/proc/thread-self/", "/sys/kernel/mm/transparent_hugepage/", "/sys/devices/system/cpu/",
	"/dev/urandom", "/etc/localtime", "/usr/share/zoneinfo/", "/usr/lib/go", "/usr/local/go/lib/time/",
	"/etc/ld.so.cache", "/etc/nsswitch.conf", "/etc/resolv.conf",
	// glibc get_nprocs() (malloc arena set-up of a thread the Go runtime starts through cgo): reads
	// /sys/devices/system/cpu/online and falls back to /proc/stat; seen in ~2 of 1000 windows.
	"/proc/stat", "/proc/cpuinfo",
}

var (
	c17ReSys   = regexp.MustCompile(`^(\d+)\s+(\w+)\((.*)$`)
	c17ReMarkP = regexp.MustCompile(`^/C17-(BEGIN|END)-(\d+)-(\d+)$`)
)

// c17CStrings extracts the C string literals of a strace argument list.
func c17CStrings(s string) []string {
	var out []string
	for i := 0; i < len(s); i++ {
		if s[i] != '"' {
			continue
		}
		var sb strings.Builder
		i++
		for i < len(s) && s[i] != '"' {
			if s[i] == '\\' && i+1 < len(s) {
				i++
				switch c := s[i]; {
				case c == 'n':
					sb.WriteByte('\n')
				case c == 't':
					sb.WriteByte('\t')
				case c == 'r':
					sb.WriteByte('\r')
				case c == 'v':
					sb.WriteByte('\v')
				case c == 'f':
					sb.WriteByte('\f')
				case c == 'x' && i+2 < len(s):
					v, _ := strconv.ParseUint(s[i+1:i+3], 16, 8)
					sb.WriteByte(byte(v))
					i += 2
				case c >= '0' && c <= '7':
					j := i
					v := 0
					for j < len(s) && j < i+3 && s[j] >= '0' && s[j] <= '7' {
						v = v*8 + int(s[j]-'0')
						j++
					}
					sb.WriteByte(byte(v))
					i = j - 1
				default:
					sb.WriteByte(c)
				}
			} else {
				sb.WriteByte(s[i])
			}
			i++
		}
		out = append(out, sb.String())
	}
	return out
}

type c17StraceStats struct {
	windows, inWindow, allowedOpens, runtimeOpens, unresolvable int
}

// c17StraceCases runs the cases in a child under strace and returns one message per path that was passed to a
// traced system call during an evaluation and is outside the configuration's allowed set.
func c17StraceCasesStats(dir, cfg string, hdr *c17Hdr, cases []c17Case, chroot bool) (map[int][]string, *c17StraceStats, error) {
	if _, err := exec.LookPath("strace"); err != nil {
		return nil, nil, fmt.Errorf("strace not available: %v", err)
	}
	if err := os.MkdirAll(dir, 0o755); err != nil {
		return nil, nil, err
	}
	casesPath := filepath.Join(dir, "cases.ndjson")
	f, err := os.Create(casesPath)
	if err != nil {
		return nil, nil, err
	}
	w := bufio.NewWriter(f)
	hb, _ := json.Marshal(c17HdrLine{Hdr: hdr})
	w.Write(hb)
	w.WriteByte('\n')
	for i := range cases {
		b, _ := json.Marshal(&cases[i])
		w.Write(b)
		w.WriteByte('\n')
	}
	w.Flush()
	f.Close()
	exe, err := os.Executable()
	if err != nil {
		return nil, nil, err
	}
	root := filepath.Join(dir, "root")
	_ = os.MkdirAll(root, 0o755)
	mode := "nochroot"
	if chroot {
		mode = "chroot"
	}
	trace := filepath.Join(dir, "strace.txt")
	cmd := exec.Command("strace", "-f", "-qq", "-s", "4096", "-e", "trace="+c17StraceSet, "-o", trace,
		exe, "worker", "c17", cfg, root, casesPath, filepath.Join(dir, "results.ndjson"), mode, "mark")
	cmd.Dir = dir
	cmd.Env = append(os.Environ(), "LOGGER_LEVEL=Critical")
	out, err := cmd.CombinedOutput()
	if err != nil {
		if len(out) > 1500 {
			out = out[len(out)-1500:]
		}
		return nil, nil, fmt.Errorf("strace child (%s) failed: %v\n%s", cfg, err, out)
	}
	cwd := c17U(hdr.Cwd)
	absRoot := "/"
	if !chroot {
		absRoot = root
	}
	absCwd := filepath.Join(absRoot, cwd)
	bad := map[int][]string{}
	st := &c17StraceStats{}
	cur := -1 // case id of the open window
	curStep := 0
	err = ReadLines(trace, func(line []byte) error {
		m := c17ReSys.FindSubmatch(line)
		if m == nil {
			return nil // resumed / signal / exit lines
		}
		sys, args := string(m[2]), string(m[3])
		strs := c17CStrings(args)
		if sys == "execve" || sys == "execveat" {
			if len(strs) > 1 {
				strs = strs[:1] // the program, not its argv
			}
		}
		for _, p := range strs {
			if mm := c17ReMarkP.FindStringSubmatch(p); mm != nil {
				id, _ := strconv.Atoi(mm[2])
				stp, _ := strconv.Atoi(mm[3])
				if mm[1] == "BEGIN" {
					cur, curStep = id, stp
					st.windows++
				} else {
					cur = -1
				}
				return nil
			}
		}
		if cur < 0 {
			return nil
		}
		for _, p := range strs {
			st.inWindow++
			if !strings.HasPrefix(p, "/") {
				if !strings.Contains(args, "AT_FDCWD") && strings.HasSuffix(sys, "at") || strings.HasSuffix(sys, "at2") && !strings.Contains(args, "AT_FDCWD") {
					st.unresolvable++
					continue
				}
			}
			abs := p
			if !strings.HasPrefix(p, "/") {
				abs = absCwd + "/" + p
			}
			abs = filepath.Clean(abs)
			rel, inside := "", false
			if absRoot == "/" {
				rel, inside = strings.TrimPrefix(abs, "/"), true
			} else if strings.HasPrefix(abs, absRoot+"/") {
				rel, inside = abs[len(absRoot)+1:], true
			}
			if inside && p != "" && !strings.HasSuffix(p, "/") && c17Allowed(cfg, cwd, c17Q(rel)) {
				st.allowedOpens++
				continue
			}
			rt := false
			for _, pre := range c17RuntimePaths {
				if strings.HasPrefix(abs, pre) {
					rt = true
				}
			}
			if rt {
				st.runtimeOpens++
				continue
			}
			bad[cur] = append(bad[cur], fmt.Sprintf("step %d: %s(%q)", curStep, sys, p))
		}
		return nil
	})
	return bad, st, err
}

func c17StraceCases(dir, cfg string, hdr *c17Hdr, cases []c17Case, chroot bool) ([]string, error) {
	bad, _, err := c17StraceCasesStats(dir, cfg, hdr, cases, chroot)
	if err != nil {
		return nil, err
	}
	var msgs []string
	for id, b := range bad {
		msgs = append(msgs, fmt.Sprintf("case %d: %s", id, strings.Join(b, ", ")))
	}
	sort.Strings(msgs)
	return msgs, nil
}

func c17StracePass(c *Ctx, hdr *c17Hdr, chroot bool, samples map[string][]c17Gen) {
	cwd := c17U(hdr.Cwd)
	for _, cfg := range []string{"restricted", "emptyonly", "disabled", "unrestricted"} {
		var cases []c17Case
		gens := samples[cfg]
		for i := range gens {
			cases = append(cases, c17BuildCase(i, &gens[i], cwd))
		}
		dir := filepath.Join(c.Scratch(), "strace-"+cfg)
		bad, st, err := c17StraceCasesStats(dir, cfg, hdr, cases, chroot)
		if err != nil {
			c.Infra(err)
			return
		}
		if st.windows == 0 {
			c.Infra(fmt.Errorf("strace pass %s: no evaluation window seen in the trace", cfg))
			return
		}
		c.Note("strace %s: %d cases, %d evaluation windows, %d path arguments inside windows (%d in the allowed set, %d runtime paths, %d not resolvable), %d cases with a path outside the allowed set",
			cfg, len(cases), st.windows, st.inWindow, st.allowedOpens, st.runtimeOpens, st.unresolvable, len(bad))
		for i := range cases {
			c17Count(c, fmt.Sprintf("strace|%s|%d|%s|%v", cfg, gens[i].T, gens[i].O, gens[i].N), true)
		}
		c.AddTraces(int64(len(cases)))
		if cfg == "unrestricted" {
			// non-vacuity: the observer must see the escapes of the unrestricted configuration
			if len(bad) == 0 {
				c17Vacuous(c, "strace saw no open outside the allowed set in the unrestricted child")
				return
			}
			c.Cov("strace_selftest_unrestricted_cases_flagged", len(bad))
			continue
		}
		if cfg != "disabled" && st.allowedOpens == 0 {
			c.Infra(fmt.Errorf("vacuous: strace saw no open of an allowed file inside an evaluation window (%s)", cfg))
			return
		}
		ids := make([]int, 0, len(bad))
		for id := range bad {
			ids = append(ids, id)
		}
		sort.Ints(ids)
		for _, id := range ids {
			c.Fail("strace-open-outside-allowed-set", fmt.Sprintf("%s %s(%q): %s", cfg, gens[id].O, c17Bytes(gens[id].N), strings.Join(bad[id], ", ")),
				map[string]any{"config": cfg, "hdr": hdr, "gens": []c17Gen{gens[id]}, "chroot": chroot, "strace": true})
		}
	}
	c.Cov("strace_syscalls", c17StraceSet)
	c.Cov("strace_runtime_allowlist", c17RuntimePaths)
}

// ---------------------------------------------------------------------------- the real binary

func c17Repo() string {
	if r := os.Getenv("VERIF_REPO"); r != "" {
		return r
	}
	return "/repo"
}

func c17BuildGrol(dest string) error {
	if err := os.MkdirAll(filepath.Dir(dest), 0o755); err != nil {
		return err
	}
	env := append(os.Environ(), "GOFLAGS=-mod=mod", "GOPROXY=off", "CGO_ENABLED=0")
	var last error
	for _, tool := range [][]string{{"go"}, {"go1.26"}} {
		cmd := exec.Command(tool[0], "build", "-o", dest, ".")
		cmd.Dir = c17Repo()
		cmd.Env = env
		if tool[0] != "go" {
			cmd.Env = append(cmd.Env, "GOTOOLCHAIN=local")
		}
		out, err := cmd.CombinedOutput()
		if err == nil {
			return nil
		}
		if len(out) > 1500 {
			out = out[len(out)-1500:]
		}
		last = fmt.Errorf("building grol from %s: %v\n%s", c17Repo(), err, out)
	}
	return last
}

func c17Flags(cfg string) []string {
	switch cfg {
	case "restricted":
		return []string{"-restrict-io"}
	case "emptyonly":
		return []string{"-restrict-io", "-empty-only"}
	case "disabled":
		return []string{"-restrict-io", "-no-load-save"}
	case "unres_empty":
		return []string{"-empty-only"}
	}
	return nil
}

func c17CopyFile(src, dst string) error {
	if err := os.Link(src, dst); err == nil {
		return nil
	}
	b, err := os.ReadFile(src)
	if err != nil {
		return err
	}
	return os.WriteFile(dst, b, 0o755)
}

// c17BinaryCases replays cases through `grol <flags> -no-auto -c <program>` (one process per evaluation).
// bin == "": build the binary into dir first. auto: leave auto-load/auto-save on.
func c17BinaryCases(dir, cfg string, hdr *c17Hdr, cases []c17Case, chroot bool, bin string, auto ...bool) ([]c17Res, error) {
	if bin == "" {
		bin = filepath.Join(dir, "build", "grol")
		if err := c17BuildGrol(bin); err != nil {
			return nil, err
		}
	}
	root := filepath.Join(dir, "root")
	if err := os.MkdirAll(filepath.Join(root, "bin"), 0o755); err != nil {
		return nil, err
	}
	if err := c17CopyFile(bin, filepath.Join(root, "bin", "grol")); err != nil {
		return nil, err
	}
	tree, err := c17NewTree(root, hdr, "bin")
	if err != nil {
		return nil, err
	}
	flags := c17Flags(cfg)
	if len(auto) == 0 || !auto[0] {
		flags = append(flags, "-no-auto")
	}
	var out []c17Res
	for ci := range cases {
		cs := &cases[ci]
		res := c17Res{ID: cs.ID}
		if err := tree.toBaseline(cs.T); err != nil {
			return nil, err
		}
		for i, st := range cs.Steps {
			if st.O == "mk" {
				if err := tree.mk(c17U(st.F), c17Uid(1, cs.ID, i)); err != nil {
					return nil, err
				}
				continue
			}
			o := c17Obs{I: i}
			if st.F != "" && tree.exists(c17U(st.F)) {
				o.TP = 1
			}
			prog := c17Program(st, c17Uid(2, cs.ID, i))
			args := append(append([]string{"grol"}, flags...), "-quiet", "-c", prog)
			cmd := &exec.Cmd{Args: args, Env: []string{"HOME=/nonexistent", "GOMEMLIMIT=1GiB", "PATH=/bin:/usr/bin"}}
			if chroot {
				cmd.Path = "/bin/grol"
				cmd.Dir = "/" + tree.cwd
				cmd.SysProcAttr = &syscall.SysProcAttr{Chroot: root}
			} else {
				cmd.Path = filepath.Join(root, "bin", "grol")
				cmd.Dir = filepath.Join(root, tree.cwd)
			}
			var so strings.Builder
			cmd.Stdout = &so
			err := cmd.Run()
			if err != nil {
				if _, isExit := err.(*exec.ExitError); !isExit {
					return nil, fmt.Errorf("running grol: %v", err)
				}
				o.E = 1
			}
			if err := tree.observe(&o, so.String()); err != nil {
				return nil, err
			}
			o.Msg = ""
			res.Obs = append(res.Obs, o)
		}
		out = append(out, res)
	}
	return out, nil
}

var c17ReAutoTmp = regexp.MustCompile(`^\.grol[0-9]+\.tmp$`)

// c17JudgeAuto judges a binary run made with auto-load/auto-save left on: confinement only (./.gr is rewritten by the
// REPL itself whatever the program does).  In the fault tree ./.gr is a directory and the REPL's auto-save fails at its
// rename step; the temporary file it then leaves (./.grol<digits>.tmp) is the REPL's, not the effect of a
// program-supplied name: it is counted (second result) and reported, not judged.
func c17JudgeAuto(cfg, cwd string, cs *c17Case, res *c17Res) (fails []c17Failure, autoTmpLeft int) {
	for _, o := range res.Obs {
		for _, p := range append(append(append([]string{}, o.C...), o.M...), o.D...) {
			if c17Allowed("restricted", cwd, p) { // the REPL's own ./.gr is a plain .gr name
				continue
			}
			if u := c17U(p); cs.T == 2 && strings.HasPrefix(u, cwd+"/") && c17ReAutoTmp.MatchString(u[len(cwd)+1:]) {
				autoTmpLeft++
				continue
			}
			fails = append(fails, c17Failure{"write-outside-allowed-set", fmt.Sprintf("grol %v -c (auto-save on) step %d touched %s", c17Flags(cfg), o.I, p)})
		}
		for _, p := range o.R {
			if !c17Allowed("restricted", cwd, p) {
				fails = append(fails, c17Failure{"read-outside-allowed-set", fmt.Sprintf("grol %v -c (auto-load on) step %d evaluated %s", c17Flags(cfg), o.I, p)})
			}
		}
	}
	return
}

func c17BinaryPass(c *Ctx, hdr *c17Hdr, chroot bool, samples map[string][]c17Gen, limit int) {
	bin := filepath.Join(c.Scratch(), "grolbin", "grol")
	t0 := time.Now()
	if err := c17BuildGrol(bin); err != nil {
		c.Infra(err)
		return
	}
	c.Note("built %s/main.go -> grol (CGO_ENABLED=0) in %.1fs", c17Repo(), time.Since(t0).Seconds())
	cwd := c17U(hdr.Cwd)
	var wg sync.WaitGroup
	for _, cfg := range []string{"restricted", "emptyonly", "disabled", "unrestricted"} {
		wg.Add(1)
		go func(cfg string) {
			defer wg.Done()
			gens := samples[cfg]
			if len(gens) > limit {
				// keep the head (no-argument calls, empty and one-byte names, probes) and spread the rest
				head := limit / 2
				var keep []c17Gen
				keep = append(keep, gens[:head]...)
				stride := (len(gens) - head) / (limit - head)
				for i := head; i < len(gens) && len(keep) < limit; i += stride {
					keep = append(keep, gens[i])
				}
				gens = keep
			}
			var cases []c17Case
			for i := range gens {
				cases = append(cases, c17BuildCase(i, &gens[i], cwd))
			}
			res, err := c17BinaryCases(filepath.Join(c.Scratch(), "bin-"+cfg), cfg, hdr, cases, chroot, bin)
			if err != nil {
				c.Infra(err)
				return
			}
			j := newC17Judge(cfg, cwd)
			alarms := 0
			for i := range cases {
				c17Count(c, fmt.Sprintf("binary|%s|%d|%s|%v", cfg, gens[i].T, gens[i].O, gens[i].N), true)
				as := cfg
				if cfg == "unrestricted" {
					as = "restricted" // self-test of the flag mapping: without -restrict-io the escapes must show
				}
				fails := j.judge(as, &gens[i], &cases[i], &res[i])
				if cfg == "unrestricted" {
					alarms += len(fails)
					continue
				}
				for _, f := range fails {
					c.Fail(f.Sig, "grol "+strings.Join(c17Flags(cfg), " ")+" -c: "+f.What,
						map[string]any{"config": cfg, "hdr": hdr, "gens": []c17Gen{gens[i]}, "chroot": chroot, "binary": true})
				}
			}
			for i := range cases {
				if cfg == "unrestricted" {
					break
				}
				fails, first := j.judgeLoads(cfg, hdr, &cases[i], &res[i])
				for _, f := range fails {
					c.Fail(f.Sig, "grol "+strings.Join(c17Flags(cfg), " ")+" -c: "+f.What,
						map[string]any{"config": cfg, "hdr": hdr, "gens": []c17Gen{*first, gens[i]}, "chroot": chroot, "binary": true})
				}
			}
			c.AddTraces(int64(len(cases)))
			c.Note("binary %s (grol %s -no-auto -c ..): %d cases, %d evaluations, accepted save=%d load=%d, exec/run seen=%d",
				cfg, strings.Join(c17Flags(cfg), " "), len(cases), j.asks, j.accepted["save"], j.accepted["load"], j.execSeen)
			switch cfg {
			case "unrestricted":
				if alarms == 0 || j.execSeen == 0 {
					c17Vacuous(c, "grol without -restrict-io raised no alarm under the restricted rules")
				}
			case "restricted", "emptyonly":
				if j.accepted["save"] == 0 || j.accepted["load"] == 0 {
					c.Infra(fmt.Errorf("vacuous: grol %v accepted no save/load", c17Flags(cfg)))
				}
			}
			// auto-load / auto-save left on: only confinement is judged (./.gr is rewritten by the REPL itself)
			if cfg == "restricted" || cfg == "emptyonly" {
				n := len(cases)
				if n > limit/8 {
					n = limit / 8
				}
				ares, err := c17BinaryCases(filepath.Join(c.Scratch(), "bin-auto-"+cfg), cfg, hdr, cases[:n], chroot, bin, true)
				if err != nil {
					c.Infra(err)
					return
				}
				tmpLeft := 0
				for i := 0; i < n; i++ {
					c17Count(c, fmt.Sprintf("binary-auto|%s|%d|%s|%v", cfg, gens[i].T, gens[i].O, gens[i].N), true)
					fails, left := c17JudgeAuto(cfg, cwd, &cases[i], &ares[i])
					tmpLeft += left
					for _, f := range fails {
						c.Fail(f.Sig, f.What, map[string]any{"config": cfg, "hdr": hdr, "gens": []c17Gen{gens[i]}, "chroot": chroot, "binary": true, "auto": true})
					}
				}
				if tmpLeft > 0 {
					c.Note("binary %s with auto-save on, fault tree (./.gr is a directory): the REPL's own auto-save (repl.AutoSave: CreateTemp + Rename) left %d ./.grol*.tmp files behind; not a C17 verdict (auto-save is not driven by a program-supplied name), reported to the integrator", cfg, tmpLeft)
				}
			}
		}(cfg)
	}
	wg.Wait()
	c.Cov("binary_flags", map[string]string{"unrestricted": "(none)", "restricted": "-restrict-io", "emptyonly": "-restrict-io -empty-only", "disabled": "-restrict-io -no-load-save"})
}
