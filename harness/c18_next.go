package main

// C18 - the session AFTER the crash, started the way a user starts it (Boot of spec/AutoSave.tla).
//
// The behaviours of AutoSave.tla end with a process that is gone; recovery is the next process
// started in the same directory: its start-up code (Boot: what it does with ./.gr and the leftover
// ./.grol*.tmp files it finds) and its auto-load. Sessions driven through the repl API never run the
// start-up code of the program, so the next session is ALSO started as the built grol binary:
//
//	"c"    grol -quiet -c 'save("<probe>")'   auto-load, one command, auto-save (nothing changed)
//	"repl" grol -quiet < /dev/null            interactive mode: auto-load, EOF, auto-save (nothing changed)
//
// Observations (the statement's): ./.gr after that session, and what the session restored (the
// globals it writes with save() into a probe file, compared with what the same command restores from a
// directory holding exactly the complete previous / the complete new file).
//
// The next session is a session of its own: should it save (a tree that always saves), its complete
// new file is what it restored, so ./.gr may also be the probe of the complete previous / new file.

import (
	"bytes"
	"context"
	"errors"
	"fmt"
	"os"
	"os/exec"
	"path/filepath"
	"time"

	"grol.io/grol/repl"
)

const c18ProbeFile = "c18-next-session.probe"

func c18Repo() string {
	if r := os.Getenv("VERIF_REPO"); r != "" {
		return r
	}
	return "/repo"
}

// c18BuildGrol builds the program under test as a user gets it (no verif tag, no hooks).
func c18BuildGrol(dest string) error {
	if err := os.MkdirAll(filepath.Dir(dest), 0o755); err != nil {
		return err
	}
	var last error
	for _, tool := range []string{"go", "go1.26"} {
		ctx, cancel := context.WithTimeout(context.Background(), 5*time.Minute)
		cmd := exec.CommandContext(ctx, tool, "build", "-o", dest, ".")
		cmd.Dir = c18Repo()
		cmd.Env = append(os.Environ(), "GOFLAGS=-mod=mod", "GOPROXY=off")
		if tool != "go" {
			cmd.Env = append(cmd.Env, "GOTOOLCHAIN=local")
		}
		out, err := cmd.CombinedOutput()
		cancel()
		if err == nil {
			return nil
		}
		last = fmt.Errorf("%s build of the grol binary in %s: %v: %s", tool, c18Repo(), err, tailStr(string(out), 600))
	}
	return last
}

type c18NextObs struct {
	Probe    []byte   // the globals of the session as save() wrote them (mode "c")
	HasProbe bool     // mode "c"
	After    []c18Ent // the directory after the session ended (without the probe file)
}

// c18NextSession starts the grol binary in dir, the way a user does, for a session that changes nothing.
func c18NextSession(bin, dir, mode string) (*c18NextObs, error) {
	args := []string{"-quiet"}
	if mode == "c" {
		args = append(args, "-c", `save("`+c18ProbeFile+`")`)
	}
	ctx, cancel := context.WithTimeout(context.Background(), 60*time.Second)
	defer cancel()
	cmd := exec.CommandContext(ctx, bin, args...)
	cmd.Dir = dir
	cmd.Env = append(os.Environ(), "HOME="+filepath.Dir(bin), "GOMEMLIMIT=1GiB")
	var out bytes.Buffer
	cmd.Stdout, cmd.Stderr = &out, &out
	err := cmd.Run()
	if ctx.Err() != nil {
		return nil, fmt.Errorf("the grol binary (next session, %s) timed out in %s", mode, dir)
	}
	if err != nil {
		var ee *exec.ExitError
		if !errors.As(err, &ee) {
			return nil, err
		}
		return nil, fmt.Errorf("the grol binary (next session, %s) in %s: %v: %s", mode, dir, err, tailStr(out.String(), 600))
	}
	obs := &c18NextObs{}
	if mode == "c" {
		p := filepath.Join(dir, c18ProbeFile)
		b, err := os.ReadFile(p)
		if err != nil {
			return nil, fmt.Errorf("the grol binary (next session) wrote no probe file in %s: %s", dir, tailStr(out.String(), 600))
		}
		_ = os.Remove(p)
		if b == nil {
			b = []byte{}
		}
		obs.Probe, obs.HasProbe = b, true
	}
	obs.After = c18List(dir)
	return obs, nil
}

// binRef: what a next session of the grol binary restores from a directory holding exactly this state file.
func (r *c18Refs) binRef(data []byte, ex bool) ([]byte, error) {
	k := "bin/" + r.loadKey(false, data, ex)
	r.mu.Lock()
	v, ok := r.loads[k]
	r.mu.Unlock()
	if ok {
		return v, nil
	}
	d := r.dir()
	defer os.RemoveAll(d)
	if ex {
		if err := os.WriteFile(filepath.Join(d, repl.AutoSaveFile), data, 0o600); err != nil {
			return nil, err
		}
	}
	obs, err := c18NextSession(r.bin, d, "c")
	if err != nil {
		return nil, err
	}
	// the reference session itself must leave its directory alone, or nothing can be concluded from it
	got, gex, _ := c18Gr(obs.After)
	if same, saved := gex == ex && (!ex || bytes.Equal(got, data)), gex && bytes.Equal(got, obs.Probe); !same && !saved {
		return nil, fmt.Errorf("a grol session that changes nothing, started on the complete file %s, left ./.gr %s", c18Show(ex, data), c18Show(gex, got))
	}
	r.mu.Lock()
	r.loads[k] = obs.Probe
	r.mu.Unlock()
	return obs.Probe, nil
}

// nextSession starts the session after the crash as the grol binary and judges it with the statement's
// relation: ./.gr is the complete previous or the complete new file (or what this session, having restored
// one of the two, saves completely), and the session restored what one of the two restores.
// kind: "" (holds), "gr-damaged", "load-neither".
func (r *c18Refs) nextSession(dir, mode string, oldEx bool, oldB, newB []byte) (obs *c18NextObs, kind, msg string, err error) {
	wantOld, err := r.binRef(oldB, oldEx)
	if err != nil {
		return nil, "", "", err
	}
	wantNew, err := r.binRef(newB, true)
	if err != nil {
		return nil, "", "", err
	}
	obs, err = c18NextSession(r.bin, dir, mode)
	if err != nil {
		return nil, "", "", err
	}
	how := map[string]string{"c": "grol -c '..'", "repl": "grol (interactive, empty input)"}[mode]
	data, ex, ent := c18Gr(obs.After)
	if ent != nil && ent.Dir {
		return obs, "gr-damaged", "./.gr became a directory when the next session was started as " + how, nil
	}
	if c18Which(ex, data, oldEx, oldB, newB) == "neither" && !(ex && (bytes.Equal(data, wantOld) || bytes.Equal(data, wantNew))) {
		return obs, "gr-damaged", fmt.Sprintf("./.gr after the next session was started in the directory as %s (a session that changes nothing) is %s; complete previous file %s, complete new file %s",
			how, c18Show(ex, data), c18Show(oldEx, oldB), c18Show(true, newB)), nil
	}
	if obs.HasProbe && !bytes.Equal(obs.Probe, wantOld) && !bytes.Equal(obs.Probe, wantNew) {
		return obs, "load-neither", fmt.Sprintf("the next session, started in the directory as %s, restored %q; the complete previous file restores %q, the complete new file %q",
			how, obs.Probe, wantOld, wantNew), nil
	}
	return obs, "", "", nil
}

func c18SameDir(a, b []c18Ent) bool {
	if len(a) != len(b) {
		return false
	}
	for i := range a {
		if a[i].Name != b[i].Name || a[i].Dir != b[i].Dir || !bytes.Equal(a[i].Data, b[i].Data) {
			return false
		}
	}
	return true
}

// c18NextMode: which way of starting the next session a case uses (three in four: -c with the probe).
func c18NextMode(salt int64) string {
	if salt%4 == 3 {
		return "repl"
	}
	return "c"
}

// c18Litter: does the model predict a leftover temporary file in the directory the behaviour ends with?
func c18Litter(g *c18Gen) bool {
	for name, f := range g.Disk {
		if name != "gr" && f.Ex {
			return true
		}
	}
	return false
}
