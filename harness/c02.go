package main

// C02 - formatting preserves the program: print then parse gives the same tree
// (spec/GrolSyntax.tla, spec/FormatLaws.tla, spec/Format_Trace.tla).

import (
	"fmt"
	"os"
	"sort"
	"strings"
	"time"
)

func init() {
	props["C02"] = propDef{check: checkC02, replay: replayFmt,
		rule: "case = one source text run through one formatter path (parser + ast.PrettyPrint, or repl.EvalOne FormatOnly) in both modes and judged by Format_Trace.tla; distinct by (path, source); non-trivial when the canonical dump of its tree is longer than 60 bytes (more than a single leaf statement)"}
}

func checkC02(c *Ctx) {
	fr := newFmtRun(c)
	t0 := time.Now()
	genWait := fr.genStart() // the TLC generator runs while the sources that do not depend on it are recorded
	fr.pinned()
	fr.randomPrograms(c.Pick(600, 6000))
	if err := fr.shippedAndMutations(c.Pick(400, 4000)); err != nil {
		c.Infra(err)
		return
	}
	t1 := time.Now()
	if err := genWait(); err != nil {
		c.Infra(err)
		return
	}
	t2 := time.Now()
	extra, fnID := fr.fnLawRecords(1000000)
	// binding self-test: a record whose re-parsed dump is perturbed must be rejected by the trace spec
	sab := -1
	for _, it := range fr.items {
		if it.rec.OkN && it.rec.DN == it.rec.D0 && !it.rec.Cm && len(it.rec.D0) > 20 {
			bad := it.rec.lawJSON(900001)
			bad["ty"] = "fmt"
			bad["dN"] = it.rec.DN[:len(it.rec.DN)-2] + "  ]"
			bad["dC"] = it.rec.DC + " "
			extra = append(extra, bad)
			sab = 900001
			break
		}
	}
	verdicts, other, err := fr.validate(extra)
	if err != nil {
		c.Infra(err)
		return
	}
	if sab < 0 || verdicts[sab].TreeN || verdicts[sab].TreeC {
		c.Infra(fmt.Errorf("vacuous binding: a corrupted record was accepted by Format_Trace"))
		return
	}
	c.Cov("sabotage_rejected", true)
	t3 := time.Now()
	fr.report("C02", verdicts)
	fnClusters := map[string]int{}
	for i, r := range fr.fnItems {
		ok, seen := other[fnID[i]]
		if !seen {
			c.Infra(fmt.Errorf("no verdict for function value record %d", i))
			return
		}
		c.AddTraces(1)
		if ok {
			continue
		}
		sigs, note := fnAttribute(r, fnLawGo)
		for _, sig := range sigs {
			fnClusters[sig]++
			if os.Getenv("VERIF_FMT_DUMP") != "" && fnClusters[sig] <= 5 {
				fmt.Printf("FN %s: %q -> %q %s\n", sig, r.Src, r.Text, note)
			}
			c.Fail(sig, fmt.Sprintf("function value of %q: %s text %q does not parse back to the same function %s", r.Src, r.Via, r.Text, note),
				map[string]any{"check": "fn", "src": latin1(r.Src), "via": r.Via})
		}
	}
	c.Cov("function_values", len(fr.fnItems))
	if os.Getenv("VERIF_FMT_DUMP") != "" {
		fmt.Println("FN clusters:", fnClusters)
	}
	c.Note("wall: random+mutations (GEN running) %.1fs, GEN rest+records %.1fs, TLC validation %.1fs, attribution %.1fs", t1.Sub(t0).Seconds(), t2.Sub(t1).Seconds(), t3.Sub(t2).Seconds(), time.Since(t3).Seconds())
	fmt.Println(c.notes[len(c.notes)-1])
}

// report turns verdicts into failures for the laws of one property.
func (fr *fmtRun) report(prop string, verdicts map[int]fmtVerdict) {
	c := fr.c
	for _, f := range c.ledger {
		if f.Status == "known" {
			attrPreferred[f.ID] = true
		}
	}
	clusters := map[string][]string{}
	type akey struct {
		law  int
		mode string
	}
	attr := map[akey][]string{}
	notes := map[akey]string{}
	for _, it := range fr.items {
		v, ok := verdicts[it.law]
		if !ok {
			c.Infra(fmt.Errorf("no verdict for law record %d", it.law))
			return
		}
		for _, mode := range []string{"N", "C"} {
			law := fmtFailedLaw(prop, mode, v)
			if law == "" {
				continue
			}
			k := akey{it.law, mode}
			sigs, ok := attr[k]
			if !ok {
				sigs, notes[k] = fmtAttribute(&it.rec, prop, mode, law, it.cs.Exh)
				attr[k] = sigs
				if strings.HasPrefix(notes[k], "attribution by feature presence") {
					c.CovAdd("attributed_by_presence_only", 1)
				}
			}
			for _, sig := range sigs {
				clusters[sig+" "+law+mode+" "+it.cs.Fam] = append(clusters[sig+" "+law+mode+" "+it.cs.Fam], it.cs.Src)
				c.Fail(sig, fmt.Sprintf("%s: law %s (%s mode, via %s) fails for %q %s", it.cs.Fam, law, mode, it.rec.Via, it.cs.Src, notes[k]),
					map[string]any{"check": "fmt", "src": latin1(it.cs.Src), "via": it.rec.Via, "mode": mode, "law": law, "family": it.cs.Fam, "name": it.cs.Name})
			}
		}
		c.AddTraces(1)
	}
	if os.Getenv("VERIF_FMT_DUMP") != "" {
		var keys []string
		for k := range clusters {
			keys = append(keys, k)
		}
		sort.Strings(keys)
		for _, k := range keys {
			fmt.Printf("CLUSTER %s: %d\n", k, len(clusters[k]))
			for i, s := range clusters[k] {
				if i >= 6 {
					break
				}
				fmt.Printf("    %q\n", s)
			}
		}
	}
	c.Cov("law_records", len(fr.lawRecs))
	c.Cov("families", fr.famCount)
	c.Cov("rejected_by_parser", fr.rejected)
	c.Cov("render_fidelity_mismatch", fr.fidelity)
	if len(fr.fidEx) > 0 {
		c.Cov("render_fidelity_examples", fr.fidEx)
	}
}

// fmtFailedLaw: the first failing law of the property for one mode ("" = all hold).
func fmtFailedLaw(prop, mode string, v fmtVerdict) string {
	if prop == "C02" {
		if mode == "N" {
			switch {
			case !v.ReparseN:
				return "reparse"
			case !v.TreeN:
				return "tree"
			}
		} else {
			switch {
			case !v.ReparseC:
				return "reparse"
			case !v.TreeC:
				return "tree"
			}
		}
		return ""
	}
	if mode == "N" {
		switch {
		case !v.IdemN:
			return "idem"
		case !v.NlN:
			return "newline"
		}
	} else if !v.IdemC {
		return "idem"
	}
	return ""
}

func replayFmt(rp map[string]any) (bool, string) {
	src := unlatin1(fmt.Sprint(rp["src"]))
	via, _ := rp["via"].(string)
	if rp["check"] == "fn" {
		for _, r := range fnRecords(src) {
			if r.Via == via && rp["property"] == "C03" && !fnIdemGo(&r) {
				return false, fmt.Sprintf("%s text %q of %q is printed again as %q", via, r.Text, src, r.Text2)
			}
			if r.Via == via && rp["property"] != "C03" && !fnLawGo(&r) {
				return false, fmt.Sprintf("%s text %q does not parse back to the function of %q", via, r.Text, src)
			}
		}
		return true, ""
	}
	mode, _ := rp["mode"].(string)
	prop, _ := rp["property"].(string)
	rec, ok := fmtRecord(src, via)
	if !ok {
		return true, "the parser rejects the source now"
	}
	v := fmtLawsGo(&rec)
	if law := fmtFailedLaw(prop, mode, v); law != "" {
		return false, fmt.Sprintf("law %s fails in mode %s: fmt=%q again=%q", law, mode, map[string]string{"N": rec.FmtN, "C": rec.FmtC}[mode], map[string]string{"N": rec.NN, "C": rec.CC}[mode])
	}
	return true, ""
}

// fmtLawsGo: the laws of FormatLaws.tla re-stated for replay files (the verdict of a check run is TLC's).
func fmtLawsGo(r *fmtRec) fmtVerdict {
	oneNL := func(s string) bool {
		n := len(s)
		return n >= 1 && s[n-1] == '\n' && (n < 2 || s[n-2] != '\n')
	}
	pan := r.Panic != ""
	v := fmtVerdict{ReparseN: !pan && r.OkN, ReparseC: !pan && r.OkC}
	v.TreeN = v.ReparseN && r.DN == r.D0
	want := r.D0
	if r.Cm {
		want = canonDump(stripCommentsGo(stripList(r.T0)).([]any))
	}
	v.TreeC = v.ReparseC && r.DC == want
	v.IdemN = v.ReparseN && r.OkNN && r.NN == r.FmtN
	v.IdemC = v.ReparseC && r.OkCC && r.CC == r.FmtC
	v.NlN = pan || oneNL(r.FmtN)
	return v
}

var stmtListKeys = map[string]bool{"t": true, "e": true, "body": true, "s": true}

func stripCommentsGo(v any) any {
	switch x := v.(type) {
	case J:
		out := J{}
		for k, c := range x {
			if l, ok := c.([]any); ok && stmtListKeys[k] && (x["k"] == "if" || x["k"] == "for" || x["k"] == "fn" || x["k"] == "mac" || x["k"] == "block") {
				out[k] = stripCommentsGo(stripList(l))
			} else {
				out[k] = stripCommentsGo(c)
			}
		}
		return out
	case []any:
		out := make([]any, len(x))
		for i, c := range x {
			out[i] = stripCommentsGo(c)
		}
		return out
	}
	return v
}

func stripList(l []any) []any {
	out := []any{}
	for _, s := range l {
		if j, ok := s.(J); ok && j["k"] == "cmt" {
			continue
		}
		out = append(out, s)
	}
	return out
}
