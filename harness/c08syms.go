package main

// C08 token alphabet: the symbols of spec/FrontEnd.tla and their byte rendering.

import (
	"fmt"
	"strings"

	"grol.io/grol/token"
)

type c08Sym struct {
	Name string     // symbol name in FrontEnd.tla
	Text string     // bytes
	Type token.Type // what the real lexer must produce for Text alone (setup self-check)
}

// Order matters only for readability; FrontEnd.tla refers to symbols by Name.
var c08Alphabet = []c08Sym{
	{"ident", "a", token.IDENT}, {"int", "1", token.INT}, {"float", "2.5", token.FLOAT}, {"str", `"s"`, token.STRING},
	{"(", "(", token.LPAREN}, {")", ")", token.RPAREN}, {"{", "{", token.LBRACE}, {"}", "}", token.RBRACE},
	{"[", "[", token.LBRACKET}, {"]", "]", token.RBRACKET}, {",", ",", token.COMMA}, {";", ";", token.SEMICOLON},
	{":", ":", token.COLON}, {".", ".", token.DOT}, {"..", "..", token.DOTDOT}, {"=", "=", token.ASSIGN},
	{":=", ":=", token.DEFINE}, {"=>", "=>", token.LAMBDA}, {"+", "+", token.PLUS}, {"-", "-", token.MINUS},
	{"!", "!", token.BANG}, {"*", "*", token.ASTERISK}, {"/", "/", token.SLASH}, {"<", "<", token.LT},
	{"==", "==", token.EQ}, {"&&", "&&", token.AND}, {"++", "++", token.INCR},
	{"if", "if", token.IF}, {"else", "else", token.ELSE}, {"for", "for", token.FOR}, {"func", "func", token.FUNC},
	{"return", "return", token.RETURN}, {"break", "break", token.BREAK}, {"true", "true", token.TRUE},
	{"len", "len", token.LEN}, {"print", "print", token.PRINT}, {"macro", "macro", token.MACRO}, {"quote", "quote", token.QUOTE},
	{"lc", "//c", token.LINECOMMENT}, {"bc", "/*c*/", token.BLOCKCOMMENT},
	{"ustr", `"u`, token.ILLEGAL}, {"ubc", "/*u", token.BLOCKCOMMENT}, {"ill", "@", token.ILLEGAL},
}

// c08Core is the reduced alphabet for the longest exhaustive length: one representative of every
// parser entry point (prefix function, infix function, postfix, statement keyword, delimiter, comment,
// unterminated constructs).
var c08Core = []string{"ident", "int", "str", "(", ")", "{", "}", "[", "]", ",", ";", ":", ".", "..", "=", "=>", "+", "!", "++",
	"if", "else", "for", "func", "return", "len", "macro", "lc", "ubc", "ustr"}

var c08SymByName = func() map[string]c08Sym {
	m := map[string]c08Sym{}
	for _, s := range c08Alphabet {
		m[s.Name] = s
	}
	return m
}()

func c08AllNames() []string {
	r := make([]string, len(c08Alphabet))
	for i, s := range c08Alphabet {
		r[i] = s.Name
	}
	return r
}

// c08Render renders a symbol string to bytes. sep: "tight" (nothing between tokens), "spaced" (one space)
// or "nl" (one newline). A line comment is always followed by a newline (otherwise it would swallow the
// rest and the byte string would denote a different token string).
func c08Render(syms []string, sep string) string {
	var sb strings.Builder
	for i, n := range syms {
		s := c08SymByName[n]
		sb.WriteString(s.Text)
		last := i == len(syms)-1
		switch {
		case n == "lc":
			sb.WriteByte('\n')
		case last:
		case sep == "spaced":
			sb.WriteByte(' ')
		case sep == "nl":
			sb.WriteByte('\n')
		}
	}
	return sb.String()
}

// c08DenotesSyms: the real lexer reads `input` back as exactly the token string `syms` (same token types and
// literals; an unterminated block comment stays unterminated). Only then does a prediction about the
// token string apply to this byte string.
func c08DenotesSyms(input string, syms []string) bool {
	got, _ := c08Lex(input)
	k := 0
	for _, n := range syms {
		s := c08SymByName[n]
		if k >= len(got) || got[k].Type != s.Type {
			return false
		}
		lit := got[k].Lit
		switch n {
		case "str":
			if lit != "s" {
				return false
			}
		case "ubc":
			if !strings.HasPrefix(lit, s.Text) || strings.HasSuffix(lit, "*/") {
				return false
			}
		case "ustr": // one ILLEGAL token holding the rest of the input
			if !strings.HasPrefix(lit, s.Text) {
				return false
			}
		default:
			if lit != s.Text {
				return false
			}
		}
		k++
		if n == "ubc" || n == "ustr" {
			break
		}
	}
	return k == len(got)-1 && got[k].Type == token.EOF
}

func sameTypes(a, b []token.Type) bool {
	if len(a) != len(b) {
		return false
	}
	for i := range a {
		if a[i] != b[i] {
			return false
		}
	}
	return true
}

// c08AlphabetSelfCheck: every symbol alone lexes to its declared token type (infrastructure check).
func c08AlphabetSelfCheck() error {
	for _, s := range c08Alphabet {
		ty, _ := c08LexTypes(s.Text)
		want := []token.Type{s.Type, token.EOF}
		if !sameTypes(ty, want) {
			return fmt.Errorf("alphabet symbol %q (%q) lexes to %v, want %v", s.Name, s.Text, ty, want)
		}
	}
	for _, n := range c08Core {
		if _, ok := c08SymByName[n]; !ok {
			return fmt.Errorf("core symbol %q not in alphabet", n)
		}
	}
	return nil
}
