package main

// C17 - restricted IO confines file access to plain .gr names in the current directory
// (spec/RestrictIO.tla, spec/RestrictIO_MC.tla).
//
//   MC   TLC checks Confined / ExecAbsent / NoLoadSave / NameOnly / RejectNoEffect over every name
//        of the bounded alphabet, and finds the stated property violated for every named Deviation.
//   GEN  every (configuration, tree, operation, name) transition TLC explores is replayed on the real
//        extensions in one child process (or several shards) per configuration; the verdict is the
//        property's own relation on what the child observed on the real file system.
//
// Verdict (restricted, empty-only and load/save-disabled configurations):
//   * every path created / modified / deleted and every file whose content was evaluated is
//     <cwd>/<ident>.gr (<cwd>/.gr in empty-only) or <cwd>/grol.png;
//   * a request that returned an error left the tree unchanged;
//   * the accept/reject outcome of (operation, name) is the same in every tree state and on every ask;
//   * exec / run do not exist; save / load do not exist when disabled.
// Not asserted: that the implementation accepts the names the model accepts (model_disagreement notes).

import (
	"bufio"
	"bytes"
	"encoding/json"
	"fmt"
	"os"
	"os/exec"
	"path/filepath"
	"sort"
	"strings"
	"sync"
	"time"
)

func init() {
	props["C17"] = propDef{check: checkC17, replay: replayC17,
		rule: "case = one TLC-emitted transition (configuration, initial tree, witness history, operation, name) replayed by the real save()/load()/image.save()/exec in a child process with a directory-tree diff after every evaluation; distinct by (configuration, tree, history, operation, name); non-trivial when the name holds a byte outside [A-Za-z0-9_] besides one trailing .gr (must be refused) or the implementation accepted it"}
	workers["c17"] = c17Worker
}

// ---------------------------------------------------------------------------- TLC front end

type c17Run struct {
	configs  []string
	trees    []int
	alphabet string
	extra    string
	sweep    string // SweepNames definition ("" = NoSweep)
	maxLen   int
	maxOps   int
	shards   int
	workers  int
}

func c17CfgText(r c17Run, dev string, emit bool, invs, props []string) string {
	q := make([]string, len(r.configs))
	for i, s := range r.configs {
		q[i] = `"` + s + `"`
	}
	ts := make([]string, len(r.trees))
	for i, t := range r.trees {
		ts[i] = fmt.Sprint(t)
	}
	sweep := r.sweep
	if sweep == "" {
		sweep = "NoSweep"
	}
	e := "FALSE"
	if emit {
		e = "TRUE"
	}
	s := fmt.Sprintf("CONSTANTS\n Alphabet <- %s\n MaxLen = %d\n ExtraNames <- %s\n SweepNames <- %s\n ImgNames <- Images\n Configs = {%s}\n Trees = {%s}\n MaxOps = %d\n Shards = %d\n Deviation = \"%s\"\n EmitOn = %s\nINIT Init\nNEXT Next\nVIEW view\n",
		r.alphabet, r.maxLen, r.extra, sweep, strings.Join(q, ","), strings.Join(ts, ","), r.maxOps, r.shards, dev, e)
	if len(invs) > 0 {
		s += "INVARIANTS " + strings.Join(invs, " ") + "\n"
	}
	if len(props) > 0 {
		s += "PROPERTIES " + strings.Join(props, " ") + "\n"
	}
	return s
}

var (
	c17Invs  = []string{"Confined", "ExecAbsent", "NoLoadSave"}
	c17Props = []string{"NameOnly", "RejectNoEffect", "FailNoEffect"}
)

type c17HStep struct {
	O  string  `json:"o"`
	G  int     `json:"g"`
	N  []int   `json:"n"`
	Ok int     `json:"ok"`
	F  [][]int `json:"f"`
}

type c17Gen struct {
	Init  *int       `json:"init"`
	C     string     `json:"c"`
	T     int        `json:"t"`
	H     []c17HStep `json:"h"`
	O     string     `json:"o"`
	G     int        `json:"g"`
	N     []int      `json:"n"`
	Ok    int        `json:"ok"`
	F     [][]int    `json:"f"`
	Oserr int        `json:"oserr"`
	Files [][][]int  `json:"files"`
	Dirs  [][][]int  `json:"dirs"`
	Cwd   [][]int    `json:"cwd"`
}

func c17PathOf(comps [][]int) string {
	parts := make([]string, len(comps))
	for i, c := range comps {
		parts[i] = c17Bytes(c)
	}
	return strings.Join(parts, "/")
}

func c17QPaths(list [][][]int) []string {
	out := make([]string, 0, len(list))
	for _, f := range list {
		out = append(out, c17Q(c17PathOf(f)))
	}
	sort.Strings(out)
	return out
}

// c17Header collects the initial trees the model emitted.
func c17Header(emitted string) (*c17Hdr, error) {
	h := &c17Hdr{}
	trees := map[int][]string{}
	dirs := map[int][]string{}
	err := ReadLines(emitted, func(line []byte) error {
		if !strings.HasPrefix(string(line), `{"init"`) {
			return nil
		}
		var g c17Gen
		if err := json.Unmarshal(line, &g); err != nil {
			return err
		}
		if *g.Init != 2 || len(h.Dirs) == 0 {
			h.Dirs = c17QPaths(g.Dirs)
		}
		h.Cwd = c17Q(c17PathOf(g.Cwd))
		trees[*g.Init] = c17QPaths(g.Files)
		dirs[*g.Init] = c17QPaths(g.Dirs)
		return nil
	})
	if err != nil {
		return nil, err
	}
	for t := 0; t < 3; t++ {
		tr, ok := trees[t]
		if !ok { // a tree the run did not use: keep the index space
			tr = []string{}
		}
		h.Trees = append(h.Trees, tr)
		h.TreeDirs = append(h.TreeDirs, dirs[t])
	}
	if len(h.Dirs) == 0 || h.Cwd == "" {
		return nil, fmt.Errorf("the model emitted no initial tree")
	}
	return h, nil
}

// ---------------------------------------------------------------------------- cases from GEN lines

// legal single file-name component inside the current directory
func c17Component(name string) bool {
	if name == "" || name == "." || name == ".." || len(name) > 200 {
		return false
	}
	return !strings.ContainsAny(name, "/\x00")
}

// c17BuildCase turns one emitted transition into the steps the child executes.
//
// depth-1 transitions (empty witness history) are asked in two tree states:
//
//	tree 0  sentinels only; load: asked once with the model's target absent, then with the target present
//	tree 1  populated tree, the model's target file pre-existing, and the requested name also existing
//	        literally (<cwd>/<name>, <cwd>/<name>.gr) where that is a legal file name; asked twice in a row
//
// transitions with a witness history are replayed step by step (every step observed).
func c17BuildCase(id int, g *c17Gen, cwd string) c17Case {
	cs := c17Case{ID: id, T: g.T}
	grol := func(o string, gg int, n []int, ok int, f [][]int) c17Step {
		st := c17Step{O: o, G: gg, N: n, A: ok}
		if ok == 1 && len(f) > 0 {
			st.F = c17Q(c17PathOf(f))
		}
		return st
	}
	if len(g.H) > 0 {
		for _, h := range g.H {
			cs.Steps = append(cs.Steps, c17Expand(grol(h.O, h.G, h.N, h.Ok, h.F))...)
		}
		cs.Steps = append(cs.Steps, c17Expand(grol(g.O, g.G, g.N, g.Ok, g.F))...)
		return cs
	}
	st := grol(g.O, g.G, g.N, g.Ok, g.F)
	switch g.O {
	case "save", "load":
		var mks []c17Step
		if st.F != "" {
			mks = append(mks, c17Step{O: "mk", F: st.F})
		}
		if g.T == 1 && g.G == 1 {
			name := c17Bytes(g.N)
			for _, lit := range []string{name, name + ".gr"} {
				if c17Component(lit) {
					q := c17Q(cwd + "/" + lit)
					if q != st.F {
						mks = append(mks, c17Step{O: "mk", F: q})
					}
				}
			}
		}
		switch {
		case g.T == 2:
			// fault tree: accepted names whose target is a directory.  Asked twice: a request that fails in the
			// operating system must leave nothing behind, however often it is made.
			cs.Steps = append(mks, st, st)
		case g.T == 0 && g.O == "save":
			cs.Steps = []c17Step{st}
		case g.T == 0: // load: target absent, then present
			cs.Steps = append([]c17Step{st}, mks...)
			if len(mks) > 0 {
				cs.Steps = append(cs.Steps, st)
			}
		default:
			cs.Steps = append(mks, st, st)
		}
	case "image":
		cs.Steps = []c17Step{st}
		if g.T >= 1 {
			cs.Steps = append(cs.Steps, st)
		}
	default:
		cs.Steps = c17Expand(st)
	}
	return cs
}

func c17Ident(s string) c17Step { return c17Step{O: "ident", N: intsOf(s)} }

// the model's Exec action becomes existence probes of every identifier the property talks about
func c17Expand(st c17Step) []c17Step {
	if st.O == "exec" {
		return []c17Step{c17Ident("exec"), c17Ident("run"), c17Ident("save"), c17Ident("load")}
	}
	return []c17Step{st}
}

// ---------------------------------------------------------------------------- verdict

type c17Failure struct {
	Sig  string
	What string
}

func c17AllowedName(cfg, name string) bool {
	if name == "grol.png" {
		return true
	}
	if !strings.HasSuffix(name, ".gr") {
		return false
	}
	id := strings.TrimSuffix(name, ".gr")
	if cfg == "emptyonly" {
		return id == ""
	}
	for i := 0; i < len(id); i++ {
		b := id[i]
		if !(b >= '0' && b <= '9' || b >= 'a' && b <= 'z' || b >= 'A' && b <= 'Z' || b == '_') {
			return false
		}
	}
	return true
}

// c17Allowed: the property's allowed set on real paths (relative to the tree root).
func c17Allowed(cfg, cwd, qpath string) bool {
	p := c17U(qpath)
	if !strings.HasPrefix(p, cwd+"/") {
		return false
	}
	name := p[len(cwd)+1:]
	if strings.Contains(name, "/") {
		return false
	}
	return c17AllowedName(cfg, name)
}

type c17Dec struct {
	e   int
	t   int
	gen c17Gen // the transition that produced the first decision (for the replay file)
}

type c17LoadOK struct {
	paths []string // quoted paths a successful load of the name evaluated
	gen   c17Gen
}

type c17Judge struct {
	cfg    string
	cwd    string
	dec    map[string]*c17Dec
	loadOK map[string]*c17LoadOK
	// statistics
	accepted   map[string]int // op -> accepted asks
	asks       int
	escapes    int // observations that the restricted verdict would reject (meaningful for unrestricted)
	execSeen   int
	disagree   int
	disagreeEx []string
	imageOK    int
	litBad     int
	walked     int
}

func newC17Judge(cfg, cwd string) *c17Judge {
	return &c17Judge{cfg: cfg, cwd: cwd, dec: map[string]*c17Dec{}, loadOK: map[string]*c17LoadOK{}, accepted: map[string]int{}}
}

func c17Restricted(cfg string) bool {
	return cfg == "restricted" || cfg == "emptyonly" || cfg == "disabled"
}

// judge applies the property's relation to the observations of one case. `as` is the configuration whose
// rules are applied (the unrestricted configuration is judged "as restricted" only to self-test the observer).
func (j *c17Judge) judge(as string, g *c17Gen, cs *c17Case, res *c17Res) []c17Failure {
	var fails []c17Failure
	add := func(sig, format string, a ...any) {
		fails = append(fails, c17Failure{sig, fmt.Sprintf(format, a...)})
	}
	firstAsk := map[string]bool{}
	check := c17Restricted(as) // the property constrains the restricted configurations only
	for k := range res.Obs {
		o := &res.Obs[k]
		if o.I < 0 || o.I >= len(cs.Steps) {
			add("harness", "observation for unknown step %d", o.I)
			continue
		}
		st := cs.Steps[o.I]
		name := c17Bytes(st.N)
		desc := fmt.Sprintf("%s %s(%q) tree=%d step=%d", j.cfg, st.O, name, cs.T, o.I)
		if o.Lit == 1 {
			j.litBad++
		}
		j.asks++
		j.walked += o.W
		touched := append(append(append([]string{}, o.C...), o.M...), o.D...)
		if !check {
			if o.E == 0 && (st.O == "save" || st.O == "load") {
				j.accepted[st.O]++
			}
			if o.E == 0 && st.O == "ident" && (name == "exec" || name == "run") {
				j.execSeen++
			}
			continue
		}
		for _, p := range touched {
			if !c17Allowed(as, j.cwd, p) {
				sig := "write-outside-allowed-set"
				switch st.O {
				case "image":
					sig = "image-save-outside-grol-png"
				case "ident", "call":
					sig = "exec-exists-when-restricted"
				}
				add(sig, "%s created/modified/deleted %s", desc, p)
			}
		}
		for _, p := range o.R {
			if !c17Allowed(as, j.cwd, p) {
				add("read-outside-allowed-set", "%s evaluated the content of %s", desc, p)
			}
		}
		for _, p := range o.A {
			if !c17Allowed(as, j.cwd, p) {
				add("read-outside-allowed-set", "%s read %s (inotify IN_ACCESS)", desc, p)
			}
		}

		if len(o.U) > 0 && st.O == "load" {
			add("read-unidentified-content", "%s returned without error after evaluating content that no file of the scratch tree holds (ids %v)", desc, o.U)
		}
		if o.E == 1 && len(touched) > 0 {
			add("rejected-request-changed-tree", "%s returned an error and changed %v", desc, touched)
		}
		switch st.O {
		case "ident", "call":
			switch name {
			case "exec", "run":
				if o.E == 0 {
					j.execSeen++
					add("exec-exists-when-restricted", "%s: the identifier %s exists", desc, name)
				}
			case "save", "load":
				if as == "disabled" && o.E == 0 {
					add("loadsave-exists-when-disabled", "%s: the identifier %s exists", desc, name)
				}
			}
		case "image":
			if o.E == 0 && len(o.C)+len(o.M) > 0 {
				j.imageOK++
			}
		case "save", "load":
			if as == "disabled" && o.E == 0 {
				add("loadsave-exists-when-disabled", "%s succeeded", desc)
			}
			if o.E == 0 {
				j.accepted[st.O]++
			}
			key := fmt.Sprintf("%s|%d|%s", st.O, st.G, name)
			if st.O == "save" && cs.T != 2 { // (in the fault tree errors come from the operating system by construction)
				// an error from save() means "refused": the directories of the tree never change and the target
				// of an accepted name is a plain file or absent.  Both outcomes for one name = state-dependent.
				if d, ok := j.dec[key]; !ok {
					j.dec[key] = &c17Dec{e: o.E, t: cs.T, gen: *g}
				} else if d.e != o.E {
					add("decision-depends-on-state", "%s: error=%d here, error=%d when first asked (tree %d)", desc, o.E, d.e, d.t)
				}
			} else if o.E == 0 && len(o.R) > 0 {
				// load(): an error is "refused" or "no such file".  The file(s) a successful load evaluated are
				// remembered; judgeLoads (second pass) flags an erroring ask of the same name made while they existed.
				if _, ok := j.loadOK[key]; !ok {
					j.loadOK[key] = &c17LoadOK{paths: append([]string{}, o.R...), gen: *g}
				}
			}
			// model comparison, first ask of the case whose outcome the model predicts (diagnostic, never a verdict)
			if (st.O == "save" || st.F == "" || o.TP == 1) && !firstAsk[key] {
				firstAsk[key] = true
				modelOK := st.A == 1 && st.F != "" // accepted by the sanitiser and the OS model yields a file
				if modelOK != (o.E == 0) {
					j.disagree++
					if len(j.disagreeEx) < 6 {
						j.disagreeEx = append(j.disagreeEx, fmt.Sprintf("%s: model accepts=%v, implementation error=%d", desc, modelOK, o.E))
					}
				}
			}
		}
	}
	if as != j.cfg { // self-test mode: only count
		j.escapes += len(fails)
		return fails
	}
	return fails
}

// c17ExistsBefore: was `qpath` a regular file of the tree right before step `step` of the case?  Computed from what
// the harness itself put there (baseline tree, mk steps) and what earlier evaluations were observed to do.
func c17ExistsBefore(hdr *c17Hdr, cs *c17Case, res *c17Res, step int, qpath string) bool {
	ex := false
	if cs.T >= 0 && cs.T < len(hdr.Trees) {
		for _, q := range hdr.Trees[cs.T] {
			if q == qpath {
				ex = true
			}
		}
	}
	for i := 0; i < step && i < len(cs.Steps); i++ {
		if cs.Steps[i].O == "mk" && cs.Steps[i].F == qpath {
			ex = true
		}
		for _, o := range res.Obs {
			if o.I != i {
				continue
			}
			for _, q := range o.C {
				if q == qpath {
					ex = true
				}
			}
			for _, q := range o.D {
				if q == qpath {
					ex = false
				}
			}
		}
	}
	return ex
}

// judgeLoads is the second pass of the "decision depends on the name only" clause for load(): an ask that returned
// an error although every file a successful load of the same name evaluated was present.
func (j *c17Judge) judgeLoads(as string, hdr *c17Hdr, cs *c17Case, res *c17Res) ([]c17Failure, *c17Gen) {
	if !c17Restricted(as) || len(j.loadOK) == 0 {
		return nil, nil
	}
	var fails []c17Failure
	var first *c17Gen
	for k := range res.Obs {
		o := &res.Obs[k]
		if o.I < 0 || o.I >= len(cs.Steps) || o.E == 0 {
			continue
		}
		st := cs.Steps[o.I]
		if st.O != "load" {
			continue
		}
		name := c17Bytes(st.N)
		ok, found := j.loadOK[fmt.Sprintf("load|%d|%s", st.G, name)]
		if !found {
			continue
		}
		all := true
		for _, q := range ok.paths {
			all = all && c17ExistsBefore(hdr, cs, res, o.I, q)
		}
		if all {
			first = &ok.gen
			fails = append(fails, c17Failure{"decision-depends-on-state", fmt.Sprintf("%s load(%q) tree=%d step=%d returned an error although %v existed; the same name was loaded from there in another state",
				j.cfg, name, cs.T, o.I, ok.paths)})
		}
	}
	return fails, first
}

// ---------------------------------------------------------------------------- children

func c17CanChroot() bool { return os.Geteuid() == 0 }

// c17RunChild replays a cases file in a child; returns the result file.
func c17RunChild(cfg, dir, casesPath string, chroot bool, extra ...string) (string, error) {
	exe, err := os.Executable()
	if err != nil {
		return "", err
	}
	root := filepath.Join(dir, "root")
	if err := os.MkdirAll(root, 0o755); err != nil {
		return "", err
	}
	out := filepath.Join(dir, "results.ndjson")
	mode := "nochroot"
	if chroot {
		mode = "chroot"
	}
	args := append([]string{"worker", "c17", cfg, root, casesPath, out, mode}, extra...)
	cmd := exec.Command(exe, args...)
	cmd.Dir = dir
	cmd.Env = append(os.Environ(), "LOGGER_LEVEL=Critical")
	errF, err := os.Create(filepath.Join(dir, "stderr.txt"))
	if err != nil {
		return "", err
	}
	defer errF.Close()
	cmd.Stderr = errF
	cmd.Stdout = errF
	cmd.Stdin = nil
	if err := cmd.Run(); err != nil {
		b, _ := os.ReadFile(filepath.Join(dir, "stderr.txt"))
		if len(b) > 1500 {
			b = b[len(b)-1500:]
		}
		return "", fmt.Errorf("c17 child (%s) died: %v\n%s", cfg, err, b)
	}
	return out, nil
}

type c17ResReader struct {
	f  *os.File
	rd *bufio.Reader
}

func c17OpenRes(path string) (*c17ResReader, error) {
	f, err := os.Open(path)
	if err != nil {
		return nil, err
	}
	return &c17ResReader{f: f, rd: bufio.NewReaderSize(f, 1<<20)}, nil
}

func (r *c17ResReader) next() (*c17Res, error) {
	line, err := r.rd.ReadBytes('\n')
	if len(line) == 0 && err != nil {
		return nil, err
	}
	var res c17Res
	if e := json.Unmarshal(line, &res); e != nil {
		return nil, e
	}
	return &res, nil
}

func c17Nontrivial(g *c17Gen, accepted bool) bool {
	if accepted {
		return true
	}
	n := strings.TrimSuffix(c17Bytes(g.N), ".gr")
	return !c17AllowedName("restricted", n+".gr")
}

// c17Replay writes the cases of one emitted file into `shards` case files, runs the children and judges
// every case in lockstep with a second pass over the emitted file. `filter` may drop transitions.
func c17Replay(c *Ctx, cfg string, emitted string, hdr *c17Hdr, shards int, dir string, chroot bool,
	filter func(g *c17Gen) bool, j *c17Judge, self *c17Judge, childCfg ...string) (int, error) {
	child := cfg // the configuration the children are initialised with (differs only for Init(nil))
	if len(childCfg) > 0 {
		child = childCfg[0]
	}
	cwd := c17U(hdr.Cwd)
	hb, _ := json.Marshal(c17HdrLine{Hdr: hdr})
	files := make([]*bufio.Writer, shards)
	handles := make([]*os.File, shards)
	paths := make([]string, shards)
	for s := 0; s < shards; s++ {
		d := filepath.Join(dir, fmt.Sprintf("s%d", s))
		if err := os.MkdirAll(d, 0o755); err != nil {
			return 0, err
		}
		paths[s] = filepath.Join(d, "cases.ndjson")
		f, err := os.Create(paths[s])
		if err != nil {
			return 0, err
		}
		handles[s] = f
		files[s] = bufio.NewWriterSize(f, 1<<20)
		files[s].Write(hb)
		files[s].WriteByte('\n')
	}
	n := 0
	// The transitions are visited tree by tree (TLC's workers interleave the initial states in the emitted file; a child
	// that alternates between trees spends its time rebuilding them).  Case ids follow this order in every pass.
	each := func(fn func(id int, g *c17Gen) error) error {
		id := 0
		for t := 0; t < 3; t++ {
			tag := []byte(fmt.Sprintf(`"t":%d,`, t))
			err := ReadLines(emitted, func(line []byte) error {
				if strings.HasPrefix(string(line), `{"init"`) || !bytes.Contains(line, tag) {
					return nil
				}
				var g c17Gen
				if err := json.Unmarshal(line, &g); err != nil {
					return err
				}
				if g.T != t || g.C != cfg || (filter != nil && !filter(&g)) {
					return nil
				}
				err := fn(id, &g)
				id++
				return err
			})
			if err != nil {
				return err
			}
		}
		return nil
	}
	err := each(func(id int, g *c17Gen) error {
		cs := c17BuildCase(id, g, cwd)
		b, err := json.Marshal(&cs)
		if err != nil {
			return err
		}
		files[id%shards].Write(b)
		files[id%shards].WriteByte('\n')
		n++
		return nil
	})
	for s := 0; s < shards; s++ {
		files[s].Flush()
		handles[s].Close()
	}
	if err != nil {
		return 0, err
	}
	if n == 0 {
		return 0, fmt.Errorf("GEN emitted no transition for configuration %s", cfg)
	}
	results := make([]string, shards)
	errs := make([]error, shards)
	var wg sync.WaitGroup
	for s := 0; s < shards; s++ {
		wg.Add(1)
		go func(s int) {
			defer wg.Done()
			// every second child calls extensions.Init a second time with another configuration ("can be called multiple
			// times safely": the first call decides, whatever comes later)
			reinit := []string{}
			if s%2 == 1 {
				reinit = []string{"reinit"}
			}
			results[s], errs[s] = c17RunChild(child, filepath.Dir(paths[s]), paths[s], chroot, reinit...)
		}(s)
	}
	wg.Wait()
	for _, e := range errs {
		if e != nil {
			return 0, e
		}
	}
	readers := make([]*c17ResReader, shards)
	for s := 0; s < shards; s++ {
		r, err := c17OpenRes(results[s])
		if err != nil {
			return 0, err
		}
		defer r.f.Close()
		readers[s] = r
	}
	err = each(func(id int, g *c17Gen) error {
		res, err := readers[id%shards].next()
		if err != nil {
			return fmt.Errorf("result of case %d missing: %v", id, err)
		}
		if res.ID != id {
			return fmt.Errorf("result order broken: got %d want %d", res.ID, id)
		}
		cs := c17BuildCase(id, g, cwd)
		fails := j.judge(cfg, g, &cs, res)
		if self != nil { // binding self-test: the same observations under the restricted rules
			self.judge("restricted", g, &cs, res)
		}
		accepted := false
		for _, o := range res.Obs {
			if o.E == 0 && (cs.Steps[o.I].O == "save" || cs.Steps[o.I].O == "load") {
				accepted = true
			}
		}
		{
			key := fmt.Sprintf("%s|%d|%s|%d|%v|%v", child, g.T, g.O, g.G, g.N, g.H)
			c17Count(c, key, c17Nontrivial(g, accepted))
			if kind := fmt.Sprintf("%s|%v|%v", cfg, accepted, len(g.H) > 0); cfg != "disabled" && c17SampleOnce(kind) {
				c.Sample(map[string]any{"config": cfg, "tree": g.T, "op": g.O, "name": c17Q(c17Bytes(g.N)), "model_accepts": g.Ok == 1,
					"witness_steps": len(g.H), "steps": len(cs.Steps), "observed": res.Obs})
			}
			for _, f := range fails {
				if f.Sig == "harness" {
					return fmt.Errorf("%s", f.What)
				}
				rp := map[string]any{"config": cfg, "hdr": hdr, "gens": []c17Gen{*g}, "chroot": chroot}
				if f.Sig == "decision-depends-on-state" {
					name := c17Bytes(g.N)
					if d, ok := j.dec[fmt.Sprintf("%s|%d|%s", g.O, g.G, name)]; ok {
						rp["gens"] = []c17Gen{d.gen, *g}
					}
				}
				c.Fail(f.Sig, f.What, rp)
			}
		}
		return nil
	})
	if err != nil {
		return n, err
	}
	// second pass: load() decisions against the files successful loads of the same name evaluated
	if len(j.loadOK) > 0 && c17Restricted(cfg) {
		for s := 0; s < shards; s++ {
			readers[s].f.Close()
			r, err := c17OpenRes(results[s])
			if err != nil {
				return n, err
			}
			defer r.f.Close()
			readers[s] = r
		}
		err = each(func(id int, g *c17Gen) error {
			res, err := readers[id%shards].next()
			if err != nil {
				return err
			}
			if g.O != "load" && len(g.H) == 0 {
				return nil
			}
			cs := c17BuildCase(id, g, cwd)
			fails, first := j.judgeLoads(cfg, hdr, &cs, res)
			for _, f := range fails {
				c.Fail(f.Sig, f.What, map[string]any{"config": cfg, "hdr": hdr, "gens": []c17Gen{*first, *g}, "chroot": chroot})
			}
			return nil
		})
	}
	return n, err
}

// ---------------------------------------------------------------------------- the check

func c17Names(maxLen int) int64 {
	n, p := int64(0), int64(1)
	for l := 0; l <= maxLen; l++ {
		n += p
		p *= 10
	}
	return 2 * n
}

func checkC17(c *Ctx) {
	c.Assume("the scratch tree holds no symbolic links and grol cannot create directories or links (no such builtin when restricted)")
	c.Assume("an error returned by save()/load() on a name whose target exists and is writable means the name was refused")
	c.Assume("REPL auto-save/auto-load of ./.gr (repl.AutoSave temp file ./.grol*.tmp) is outside C17 (see C18); in-process replays run with AutoLoad/AutoSave off")
	chroot := c17CanChroot()
	if !chroot {
		c.Note("not root: children are not chrooted; absolute names resolve on the real file system and are only observed when they fall below the scratch tree")
	}
	c.Cov("chroot", chroot)
	t0 := time.Now()

	// ---- 1. design-level non-vacuity: every named deviation must violate its property in the model
	type devRun struct {
		dev   string
		invs  []string
		props []string
		want  string
	}
	devs := []devRun{
		{"AllowDot", []string{"Confined"}, nil, "Confined"},
		{"OpenRaw", []string{"Confined"}, nil, "Confined"},
		{"LoadUnsanitized", []string{"Confined"}, nil, "Confined"},
		{"EmptyOnlyIgnored", []string{"Confined"}, nil, "Confined"},
		{"ExistingBypass", nil, []string{"NameOnly"}, "NameOnly"},
		{"CreateBeforeCheck", nil, []string{"RejectNoEffect"}, "RejectNoEffect"},
		{"ExecWhenRestricted", []string{"ExecAbsent"}, nil, "ExecAbsent"},
		{"TempLeftOnFailure", nil, []string{"FailNoEffect"}, "FailNoEffect"},
	}
	if !c.Thorough() {
		devs = []devRun{devs[0], devs[4], devs[5], devs[6], devs[7]}
	}
	small := c17Run{configs: []string{"restricted", "emptyonly", "disabled", "unrestricted", "unres_empty"}, trees: []int{0, 1, 2},
		alphabet: "Alphabet10", extra: "AllPinned", maxLen: 2, maxOps: 2, shards: 1, workers: 2}
	var wg sync.WaitGroup
	var mu sync.Mutex
	devOut := map[string]string{}
	sem := make(chan struct{}, 2)
	for _, d := range devs {
		wg.Add(1)
		go func(d devRun) {
			defer wg.Done()
			sem <- struct{}{}
			defer func() { <-sem }()
			r, err := c.TLC(TLCOpt{Spec: "RestrictIO_MC", Cfg: c17CfgText(small, d.dev, false, d.invs, d.props), Workers: 2, AllowError: true})
			if err != nil {
				c.Infra(err)
				return
			}
			mu.Lock()
			defer mu.Unlock()
			devOut[d.dev] = r.InvViolated
			if r.InvViolated != d.want {
				c.Infra(fmt.Errorf("deviation %s did not violate %s in the model (got %q)\n%s", d.dev, d.want, r.InvViolated, r.ErrText))
			}
		}(d)
	}
	// the harmless deviation keeps every property (accepting other names is not a violation)
	wg.Add(1)
	go func() {
		defer wg.Done()
		sem <- struct{}{}
		defer func() { <-sem }()
		sa := small
		sa.maxOps = 1
		r, err := c.TLC(TLCOpt{Spec: "RestrictIO_MC", Cfg: c17CfgText(sa, "StripAll", false, c17Invs, c17Props), Workers: 2})
		if err != nil {
			c.Infra(fmt.Errorf("deviation StripAll must keep the property: %v", err))
			return
		}
		mu.Lock()
		devOut["StripAll"] = fmt.Sprintf("holds (%d transitions)", r.Generated)
		mu.Unlock()
	}()

	// ---- 3a. the exploration with witness histories runs meanwhile (replayed in step 3)
	var histRes *TLCResult
	wg.Add(1)
	go func() {
		defer wg.Done()
		r, err := c.TLC(TLCOpt{Spec: "RestrictIO_MC", Cfg: c17CfgText(c17HistRun(c), "none", true, c17Invs, c17Props), Workers: 6, Timeout: 20 * time.Minute})
		if err != nil {
			c.Infra(err)
			return
		}
		mu.Lock()
		histRes = r
		mu.Unlock()
	}()

	// ---- 2. GEN depth 1: every name x operation x tree, per configuration
	type plan struct {
		cfg    string
		maxLen int
		shards int // TLC initial-state shards
		tlcW   int
		kids   int
	}
	L := c.Pick(4, 5)
	plans := []plan{
		{"restricted", L, c.Pick(5, 10), c.Pick(5, 10), c.Pick(3, 6)},
		{"emptyonly", L, c.Pick(5, 10), c.Pick(5, 10), c.Pick(3, 6)},
		{"disabled", c.Pick(2, 3), 1, 2, 1},
		{"unrestricted", c.Pick(3, 4), c.Pick(2, 5), c.Pick(2, 5), c.Pick(1, 3)},
	}
	var hdr *c17Hdr
	judges := map[string]*c17Judge{}
	selfJudge := (*c17Judge)(nil)
	var gmu sync.Mutex
	var gw sync.WaitGroup
	exhaustive := true
	for _, p := range plans {
		gw.Add(1)
		go func(p plan) {
			defer gw.Done()
			run := c17Run{configs: []string{p.cfg}, trees: []int{0, 1, 2}, alphabet: "Alphabet10", extra: "AllPinned", sweep: "ByteSweep",
				maxLen: p.maxLen, maxOps: 1, shards: p.shards, workers: p.tlcW}
			if p.cfg == "unrestricted" {
				run.sweep = "" // observer self-test only: the sweep adds nothing there
			}
			r, err := c.TLC(TLCOpt{Spec: "RestrictIO_MC", Cfg: c17CfgText(run, "none", true, c17Invs, c17Props), Workers: p.tlcW, Timeout: 20 * time.Minute})
			if err != nil {
				c.Infra(err)
				return
			}
			h, err := c17Header(r.Emitted)
			if err != nil {
				c.Infra(err)
				return
			}
			c17EmittedMu.Lock()
			c17Emitted[p.cfg] = r.Emitted
			c17EmittedMu.Unlock()
			gmu.Lock()
			if hdr == nil {
				hdr = h
			}
			gmu.Unlock()
			cwd := c17U(h.Cwd)
			j := newC17Judge(p.cfg, cwd)
			dir := filepath.Join(c.Scratch(), "gen-"+p.cfg)
			// unrestricted: nothing is asserted; without chroot absolute names would touch the real file system
			var filter func(g *c17Gen) bool
			if p.cfg == "unrestricted" && !chroot {
				filter = func(g *c17Gen) bool { return len(g.N) == 0 || g.N[0] != '/' }
			}
			var sj *c17Judge
			if p.cfg == "unrestricted" {
				sj = newC17Judge(p.cfg, cwd) // binding self-test (a): the same observations judged by the restricted rules
			}
			tReplay := time.Now()
			n, err := c17Replay(c, p.cfg, r.Emitted, h, p.kids, dir, chroot, filter, j, sj)
			replayS := time.Since(tReplay).Seconds()
			if err != nil {
				c.Infra(err)
				return
			}
			c.AddTraces(int64(n))
			want := c17Names(p.maxLen)
			gmu.Lock()
			judges[p.cfg] = j
			if r.Generated < want*2*2 {
				exhaustive = false
			}
			gmu.Unlock()
			c.Note("GEN %s: names<=%d (%d names plain+suffixed, +pinned) x {save,load} x 2 trees + 256-byte sweep (2048 names) + pinned names in the fault tree: TLC %d transitions / %d states in %.1fs; %d cases replayed in %d child(ren) in %.1fs, %d evaluations, %d tree walks, accepted save=%d load=%d, model_disagreement=%d",
				p.cfg, p.maxLen, want, r.Generated, r.Distinct, r.Wall.Seconds(), n, p.kids, replayS, j.asks, j.walked, j.accepted["save"], j.accepted["load"], j.disagree)
			for _, ex := range j.disagreeEx {
				c.Note("model_disagreement %s", ex)
			}
			if sj != nil {
				gmu.Lock()
				selfJudge = sj
				gmu.Unlock()
			}
			_ = os.RemoveAll(dir)
		}(p)
	}
	gw.Wait()
	wg.Wait()
	if c17Failed(c) {
		return
	}
	c.Cov("deviation_runs", devOut)
	c.Cov("exhaustive", exhaustive)
	c.Cov("max_name_length_replayed", L)
	c.Cov("alphabet", []int{97, 48, 95, 46, 47, 92, 0, 32, 126, 233})

	// non-vacuity of the replay
	for _, cfg := range []string{"restricted", "emptyonly"} {
		j := judges[cfg]
		if j.accepted["save"] == 0 || j.accepted["load"] == 0 {
			c.Infra(fmt.Errorf("vacuous: configuration %s accepted no save (%d) or no load (%d)", cfg, j.accepted["save"], j.accepted["load"]))
			return
		}
		if j.imageOK == 0 {
			c.Infra(fmt.Errorf("vacuous: image.save never wrote grol.png in configuration %s", cfg))
			return
		}
	}
	for cfg, j := range judges {
		if j.litBad > 0 {
			c.Infra(fmt.Errorf("harness: %d grol literals did not denote the intended name bytes (%s)", j.litBad, cfg))
			return
		}
	}
	// binding self-test (a)
	if selfJudge == nil || selfJudge.escapes == 0 || selfJudge.execSeen == 0 {
		c17Vacuous(c, "the unrestricted child judged by the restricted rules raised no alarm")
		if c17Failed(c) {
			return
		}
		selfJudge = newC17Judge("unrestricted", c17U(hdr.Cwd))
	}
	c.Cov("selftest_unrestricted_judged_as_restricted", map[string]any{"alarms": selfJudge.escapes, "exec_run_seen": selfJudge.execSeen})

	// ---- 3. GEN with witness histories (depth 3, small names): repeated asks along histories
	c17Histories(c, hdr, chroot, histRes)
	if c17Failed(c) {
		return
	}
	// ---- 4. process execution with a visible effect (not chrooted: needs /bin/sh)
	c17ExecProbes(c, hdr)
	if c17Failed(c) {
		return
	}
	// ---- 5. binding self-test (b): a perturbed observation must be rejected by the verdict
	c17Perturb(c, hdr)
	c.Cov("phase_seconds_core", time.Since(t0).Seconds())
	if !c17Failed(c) {
		c17Thorough(c, hdr, chroot)
	}
}

var (
	c17Sampled   = map[string]bool{}
	c17SampledMu sync.Mutex
)

// c17SampleOnce: one evidence sample per kind (configuration x accepted x with history)
func c17SampleOnce(kind string) bool {
	c17SampledMu.Lock()
	defer c17SampledMu.Unlock()
	if c17Sampled[kind] {
		return false
	}
	c17Sampled[kind] = true
	return true
}

var c17KeyDump *os.File

// c17Count counts a case; C17_DUMPKEYS=<file> additionally lists the keys (debugging aid for determinism).
func c17Count(c *Ctx, key string, nontrivial bool) {
	c.Case(key, nontrivial)
	if p := os.Getenv("C17_DUMPKEYS"); p != "" {
		c.mu.Lock()
		if c17KeyDump == nil {
			c17KeyDump, _ = os.Create(p)
		}
		fmt.Fprintf(c17KeyDump, "%v %s\n", nontrivial, key)
		c.mu.Unlock()
	}
}

func c17Failed(c *Ctx) bool {
	c.mu.Lock()
	defer c.mu.Unlock()
	return c.infra != nil
}

// c17Histories replays every transition of a depth-3 exploration over short names, witness history included.
var c17HistCfgs = []string{"restricted", "emptyonly", "disabled"}

func c17HistRun(c *Ctx) c17Run {
	return c17Run{configs: c17HistCfgs, trees: []int{0, 1}, alphabet: "Alphabet3", extra: "PinnedSmall",
		maxLen: 1, maxOps: c.Pick(2, 3), shards: 1, workers: 6}
}

func c17Histories(c *Ctx, hdr *c17Hdr, chroot bool, r *TLCResult) {
	cfgs := c17HistCfgs
	run := c17HistRun(c)
	var wg sync.WaitGroup
	for _, cfg := range cfgs {
		wg.Add(1)
		go func(cfg string) {
			defer wg.Done()
			j := newC17Judge(cfg, c17U(hdr.Cwd))
			n, err := c17Replay(c, cfg, r.Emitted, hdr, c.Pick(2, 4), filepath.Join(c.Scratch(), "hist-"+cfg), chroot, nil, j, nil)
			if err != nil {
				c.Infra(err)
				return
			}
			c.AddTraces(int64(n))
			c.Note("GEN histories %s: depth %d over names<=1 of {a . /} + pinned: %d transitions replayed with their witness history, %d evaluations, accepted save=%d load=%d",
				cfg, run.maxOps, n, j.asks, j.accepted["save"], j.accepted["load"])
			if cfg != "disabled" && (j.accepted["save"] == 0 || j.accepted["load"] == 0) {
				c.Infra(fmt.Errorf("vacuous: history replay for %s accepted nothing", cfg))
			}
			if cfg == "disabled" {
				// extensions.Init(nil) - what wasm/wasm_main.go uses - must behave as the disabled configuration
				jn := newC17Judge(cfg, c17U(hdr.Cwd))
				n, err := c17Replay(c, cfg, r.Emitted, hdr, 1, filepath.Join(c.Scratch(), "hist-nilconfig"), chroot, nil, jn, nil, "nilconfig")
				if err != nil {
					c.Infra(err)
					return
				}
				c.AddTraces(int64(n))
				c.Note("GEN histories Init(nil): %d transitions of the disabled configuration replayed in a child initialised with extensions.Init(nil), %d evaluations", n, jn.asks)
			}
		}(cfg)
	}
	wg.Wait()
}

// c17ExecProbes calls exec()/run() with a command that would create a file in the current directory.
func c17ExecProbes(c *Ctx, hdr *c17Hdr) {
	cwd := c17U(hdr.Cwd)
	call := func(fn string) c17Step { return c17Step{O: "call", N: intsOf(fn)} }
	for _, cfg := range []string{"unrestricted", "restricted", "emptyonly", "disabled"} {
		dir := filepath.Join(c.Scratch(), "exec-"+cfg)
		_ = os.MkdirAll(dir, 0o755)
		var cases []c17Case
		for t := 0; t < 2; t++ {
			cases = append(cases, c17Case{ID: t, T: t, Steps: []c17Step{c17Ident("exec"), c17Ident("run"), call("exec"), call("run")}})
		}
		res, err := c17RunCases(cfg, dir, hdr, cases, false)
		if err != nil {
			c.Infra(err)
			return
		}
		j := newC17Judge(cfg, cwd)
		created := 0
		for i := range cases {
			g := c17Gen{C: cfg, T: cases[i].T, O: "exec"}
			c17Count(c, fmt.Sprintf("execprobe|%s|%d", cfg, i), true)
			if cfg == "unrestricted" {
				for _, o := range res[i].Obs {
					created += len(o.C)
				}
				continue
			}
			for _, f := range j.judge(cfg, &g, &cases[i], &res[i]) {
				c.Fail(f.Sig, f.What, map[string]any{"config": cfg, "hdr": hdr, "cases": []c17Case{cases[i]}, "chroot": false})
			}
		}
		if cfg == "unrestricted" && created < 2 {
			c.Infra(fmt.Errorf("vacuous: exec()/run() created no file in the unrestricted configuration (probe cannot see process execution)"))
			return
		}
	}
	c.Cov("exec_probe", "exec()/run() of /bin/sh create a file when unrestricted; identifier absent and no effect otherwise")
}

// c17RunCases writes explicit cases, runs one child and returns the results in order.
func c17RunCases(cfg, dir string, hdr *c17Hdr, cases []c17Case, chroot bool, extra ...string) ([]c17Res, error) {
	if err := os.MkdirAll(dir, 0o755); err != nil {
		return nil, err
	}
	p := filepath.Join(dir, "cases.ndjson")
	f, err := os.Create(p)
	if err != nil {
		return nil, err
	}
	w := bufio.NewWriter(f)
	hb, _ := json.Marshal(c17HdrLine{Hdr: hdr})
	w.Write(hb)
	w.WriteByte('\n')
	for i := range cases {
		b, _ := json.Marshal(&cases[i])
		w.Write(b)
		w.WriteByte('\n')
	}
	w.Flush()
	f.Close()
	out, err := c17RunChild(cfg, dir, p, chroot, extra...)
	if err != nil {
		return nil, err
	}
	rd, err := c17OpenRes(out)
	if err != nil {
		return nil, err
	}
	defer rd.f.Close()
	var res []c17Res
	for range cases {
		r, err := rd.next()
		if err != nil {
			return nil, fmt.Errorf("missing result: %v", err)
		}
		res = append(res, *r)
	}
	return res, nil
}

// c17Perturb: binding self-test (b). One recorded observation of a correct run is corrupted in each of the
// ways the verdict must notice; every corruption must be rejected.
func c17Perturb(c *Ctx, hdr *c17Hdr) {
	cwd := c17U(hdr.Cwd)
	name := intsOf("a")
	target := c17Q(cwd + "/a.gr")
	cs := c17Case{ID: 0, T: 0, Steps: []c17Step{{O: "save", G: 1, N: name, F: target, A: 1}, {O: "load", G: 1, N: name, F: target, A: 1}}}
	res, err := c17RunCases("restricted", filepath.Join(c.Scratch(), "perturb"), hdr, []c17Case{cs}, c17CanChroot())
	if err != nil {
		c.Infra(err)
		return
	}
	g := c17Gen{C: "restricted", O: "save", G: 1, N: name}
	for _, f := range newC17Judge("restricted", cwd).judge("restricted", &g, &cs, &res[0]) {
		c.Fail(f.Sig, f.What, map[string]any{"config": "restricted", "hdr": hdr, "cases": []c17Case{cs}, "chroot": c17CanChroot()})
	}
	c17Count(c, "selftest|restricted|save a;load a", true)
	if len(res[0].Obs) != 2 || len(res[0].Obs[0].C) != 1 || len(res[0].Obs[1].R) != 1 || res[0].Obs[0].E+res[0].Obs[1].E != 0 {
		// an implementation that refuses or redirects "a": the perturbations start from the recorded shape of a correct run
		res[0] = c17Res{ID: 0, Obs: []c17Obs{{I: 0, C: []string{target}, W: 1}, {I: 1, R: []string{target}, TP: 1}}}
		c.Note("self-test: save(\"a\");load(\"a\") did not create and read %s on this tree; perturbations applied to the recorded shape instead", target)
	}
	if f := newC17Judge("restricted", cwd).judge("restricted", &g, &cs, &res[0]); len(f) != 0 {
		c.Infra(fmt.Errorf("self-test base observation rejected: %v", f))
		return
	}
	type pert struct {
		name string
		f    func(r *c17Res)
		want string
	}
	outside := c17Q(filepath.Dir(cwd) + "/a.gr")
	perts := []pert{
		{"created path moved to the parent directory", func(r *c17Res) { r.Obs[0].C = []string{outside} }, "write-outside-allowed-set"},
		{"created path renamed a.b.gr", func(r *c17Res) { r.Obs[0].C = []string{c17Q(cwd + "/a.b.gr")} }, "write-outside-allowed-set"},
		{"evaluated file moved to a sub-directory", func(r *c17Res) { r.Obs[1].R = []string{c17Q(cwd + "/sub/a.gr")} }, "read-outside-allowed-set"},
		{"error flag set on the effective save", func(r *c17Res) { r.Obs[0].E = 1 }, "rejected-request-changed-tree"},
		{"load evaluated unknown content", func(r *c17Res) { r.Obs[1].R = nil; r.Obs[1].U = []int64{-1} }, "read-unidentified-content"},
	}
	for _, p := range perts {
		var cp c17Res
		b, _ := json.Marshal(res[0])
		_ = json.Unmarshal(b, &cp)
		p.f(&cp)
		fails := newC17Judge("restricted", cwd).judge("restricted", &g, &cs, &cp)
		ok := false
		for _, f := range fails {
			ok = ok || f.Sig == p.want
		}
		if !ok {
			c.Infra(fmt.Errorf("vacuous binding: perturbation %q was not rejected as %s (%v)", p.name, p.want, fails))
			return
		}
	}
	// decision consistency: the same ask with a flipped outcome must be noticed
	j := newC17Judge("restricted", cwd)
	j.judge("restricted", &g, &cs, &res[0])
	var cp c17Res
	b, _ := json.Marshal(res[0])
	_ = json.Unmarshal(b, &cp)
	cp.Obs[0].E, cp.Obs[0].C, cp.Obs[0].M = 1, nil, nil
	ok := false
	for _, f := range j.judge("restricted", &g, &cs, &cp) {
		ok = ok || f.Sig == "decision-depends-on-state"
	}
	if !ok {
		c.Infra(fmt.Errorf("vacuous binding: a flipped accept/reject outcome was not noticed"))
		return
	}
	c.Cov("sabotage_rejected", len(perts)+1)
}

// ---------------------------------------------------------------------------- replay

func replayC17(rp map[string]any) (bool, string) {
	var in struct {
		Config string    `json:"config"`
		Hdr    *c17Hdr   `json:"hdr"`
		Gens   []c17Gen  `json:"gens"`
		Cases  []c17Case `json:"cases"`
		Chroot bool      `json:"chroot"`
		Binary bool      `json:"binary"`
		Auto   bool      `json:"auto"`
		Strace bool      `json:"strace"`
	}
	b, _ := json.Marshal(rp)
	if err := json.Unmarshal(b, &in); err != nil || in.Hdr == nil {
		return false, fmt.Sprintf("bad replay file: %v", err)
	}
	dir, err := os.MkdirTemp("", "verif-C17-replay-")
	if err != nil {
		return false, err.Error()
	}
	defer os.RemoveAll(dir)
	cwd := c17U(in.Hdr.Cwd)
	cases := in.Cases
	gens := in.Gens
	for i := range in.Gens {
		cases = append(cases, c17BuildCase(len(cases), &in.Gens[i], cwd))
	}
	for len(gens) < len(cases) { // explicit cases carry no emitted transition
		gens = append([]c17Gen{{C: in.Config}}, gens...)
	}
	for i := range cases {
		cases[i].ID = i
	}
	var res []c17Res
	switch {
	case in.Binary:
		res, err = c17BinaryCases(dir, in.Config, in.Hdr, cases, in.Chroot && c17CanChroot(), "", in.Auto)
		if err == nil && in.Auto {
			var msgs []string
			for i := range cases {
				fails, _ := c17JudgeAuto(in.Config, cwd, &cases[i], &res[i])
				for _, f := range fails {
					msgs = append(msgs, f.Sig+": "+f.What)
				}
			}
			return len(msgs) == 0, strings.Join(msgs, "; ")
		}
	case in.Strace:
		var bad []string
		bad, err = c17StraceCases(dir, in.Config, in.Hdr, cases, in.Chroot && c17CanChroot())
		if err == nil {
			if len(bad) > 0 {
				return false, strings.Join(bad, "; ")
			}
			return true, ""
		}
	default:
		res, err = c17RunCases(in.Config, dir, in.Hdr, cases, in.Chroot && c17CanChroot(), "verbose")
	}
	if err != nil {
		fmt.Fprintln(os.Stderr, "INFRASTRUCTURE:", err)
		os.Exit(2)
	}
	j := newC17Judge(in.Config, cwd)
	var msgs []string
	for i := range cases {
		for _, f := range j.judge(in.Config, &gens[i], &cases[i], &res[i]) {
			msgs = append(msgs, f.Sig+": "+f.What)
		}
		for _, o := range res[i].Obs {
			if o.Msg != "" {
				fmt.Printf("  step %d: %s\n", o.I, o.Msg)
			}
		}
	}
	for i := range cases {
		fails, _ := j.judgeLoads(in.Config, in.Hdr, &cases[i], &res[i])
		for _, f := range fails {
			msgs = append(msgs, f.Sig+": "+f.What)
		}
	}
	if len(msgs) > 0 {
		return false, strings.Join(msgs, "; ")
	}
	return true, ""
}

// debugging aid: `vh worker c17cases <emitted.ndjson> <config> <cases.ndjson>` writes the cases file a child would get
func init() {
	workers["c17cases"] = func(args []string) {
		if len(args) < 3 {
			fmt.Fprintln(os.Stderr, "usage: worker c17cases <emitted> <config> <out>")
			os.Exit(2)
		}
		hdr, err := c17Header(args[0])
		if err != nil {
			fmt.Fprintln(os.Stderr, err)
			os.Exit(2)
		}
		f, _ := os.Create(args[2])
		w := bufio.NewWriter(f)
		hb, _ := json.Marshal(c17HdrLine{Hdr: hdr})
		w.Write(hb)
		w.WriteByte('\n')
		id := 0
		_ = ReadLines(args[0], func(line []byte) error {
			if strings.HasPrefix(string(line), `{"init"`) {
				return nil
			}
			var g c17Gen
			if json.Unmarshal(line, &g) != nil || g.C != args[1] {
				return nil
			}
			cs := c17BuildCase(id, &g, c17U(hdr.Cwd))
			id++
			b, _ := json.Marshal(&cs)
			w.Write(b)
			w.WriteByte('\n')
			return nil
		})
		w.Flush()
		f.Close()
	}
}
