package main

// C15 - line-at-a-time input is equivalent to whole-file input
// (spec/Continuation.tla, spec/Chunking.tla, spec/Equiv_Trace.tla).

import (
	"encoding/json"
	"fmt"
	"math/rand"
	"os"
	"path/filepath"
	"sort"
	"strings"
	"sync"
)

func init() {
	props["C15"] = propDef{check: checkC15, replay: replayC15,
		rule: "case = one execution of the real code: a line-mode parse of a prefix (cut) of a valid program, a line-mode/file-mode tree comparison of a complete program, one REPL-style line-by-line feeding, or one (script, split) pair run chunk by chunk on a persistent session and at once on a fresh one; distinct by text (cuts, programs) or by (script, split, mode); non-trivial = a cut where Continuation.tla demands a continuation (inside an open ( [ { string or block comment, or after a binary operator), a complete program's tree comparison, or a split into at least two chunks of a script with a function or a macro"}
}

var c15AllClasses = []string{"id", "str", "cmt", "bin", "pm", "pre", "inc", "asg", "col", "dot", "arrow", "comma", "semi", "lp", "rp", "lb", "rb", "lc", "rc", "kw", "ustr", "ucmt"}

const c15Invariants = "TypeOK DepthIsBalance OpenDemands TerminalDemands ClosedDemands PredicateAgrees Completable HistoryOK NeverBad CompleteNeedsNothing"

func c15ContCfg(sigma []string, maxLen int, mode string, depth int) string {
	q := make([]string, len(sigma))
	for i, s := range sigma {
		q[i] = `"` + s + `"`
	}
	return fmt.Sprintf("CONSTANTS\n Sigma = {%s}\n MaxLen = %d\n Mode = \"%s\"\n Depth = %d\nINIT Init\nNEXT Next\nINVARIANTS %s\nPROPERTY DepthStep\n",
		strings.Join(q, ", "), maxLen, mode, depth, c15Invariants)
}

var c15Dummy = map[string][]byte{"cont_progs.ndjson": []byte(`{"id":0,"c":["id"],"o":["n"],"oi":["-"]}` + "\n")}

var c15AllKinds = []string{"set", "inc", "print", "def1", "def2", "call", "show", "mdef1", "mdef2", "mfun", "muse", "ret", "err"}

// the kinds of the run about ONE name that is a macro, another macro, a function, between its uses
var c15RedefKindsRun = []string{"set", "mdef1", "mdef2", "mfun", "muse"}

const c15ChunkInvariants = "TypeOK ChunkingIsInvisible RestIsWhole NoChunkFails HoistingSeenOnlyThere"

// the kinds of the run that varies the form of the function bodies: a function defined, redefined, read as text and
// called, on either side of a macro definition
var c15FormKindsRun = []string{"set", "def1", "def2", "show", "call", "mdef1"}

// pinned complete programs: every boundary and every interior offset of strings / comments is cut (regression cases
// of repaired defects and reproducers of listed findings stay here)
var c15Pinned = []string{
	`"abc"`, // fixed: an unterminated string in line mode was an empty program
	`a = "abc"`, "x = `a\nb`", `f("a\"b", "c\\")`, `s = "\x41é\U0001F600"`,
	`a = "/*"`, `a = "//" + "*/"`, "/* \" */ b = 1", "/* ` */ b = `/*`",
	"/*/ foo */ a = 1", "a = 1 /*/ x */", "/**/ a", "/***/ a", "/* a */ /* b */ c = 1",
	"if x {\n  a = 1\n} else {\n  a = 2\n}", "if x {1} else if y {2} else {3}",
	"func f(a, b) {\n  // body\n  return a + b\n}", "f = func(a, ..) {\n  println(a, ..)\n}",
	"m = macro(x, y) {\n  quote(unquote(x) +\n unquote(y))\n}", "p = (a, b) => a *\n b", "q = x => {x + 1}", "() => 1",
	"for i = 3 {\n  println(i)\n}", "for a < 3 {a++}", "for x = [1, 2] {println(x)}",
	"m = {\"a\": 1,\n \"b\": [1, 2,\n 3]}", "m = {1: 2, 3.5: \"x\", true: [a]}", "a = m.b.c[1:2][0]", "a[1:]",
	"x = -1 + -a * !b ^ ~c", "a = b = c := 1", "r = 1:5", "a++ ; b-- ; ++c", "println(\"a\", b)\nprintln(1)",
	"return 1 +\n2", "return", "a = 1\nreturn", "f = func() {return}\nf()", "a = 1 // trailing\nb = 2", "// only a comment", "a = (1 +\n (2 * (3 -\n 4)))",
	"s = \"a\x00b\" + `\x00`", "/* \x00 */ a = 1", "a = 1\r\nb = [1,\r\n 2]",
	"len([1,2]) + first(x) * rest(y)[0]", "catch(error(\"x\", 1)).err", "del(m.a)", "x = if a {1} else {2}",
}

func checkC15(c *Ctx) {
	c.Assume("a program is 'valid' when the file-mode parser accepts it without errors and its brackets balance; the token classes of Continuation.tla are assigned from grol's token types by a fixed table (assignment `=`/`:=` and `:` count as binary operators: they are infix operators of grol's precedence table; `.`, `=>`, prefix operators and keywords are not demanded)")
	c.Assume("the REPL's per-input echo of the input's value is not part of 'output': the program's own output (State.Out) and State.SaveGlobals bytes are compared")

	// ------------------------------------------------------------------ TLC runs that need no input from the code, in parallel
	type tlcJob struct {
		name string
		opt  TLCOpt
		res  *TLCResult
		err  error
	}
	sigmaSmall := []string{"id", "str", "bin", "pm", "inc", "asg", "comma", "semi", "lp", "rp", "lb", "rb", "lc", "rc", "kw", "ustr", "ucmt"}
	jobs := []*tlcJob{
		{name: "mc", opt: TLCOpt{Spec: "Continuation", Cfg: c15ContCfg(c15AllClasses, c.Pick(3, 4), "mc", 1), Workers: c.Pick(4, 8), Files: c15Dummy}},
		{name: "grammar", opt: TLCOpt{Spec: "Continuation", Cfg: c15ContCfg([]string{"id"}, 0, "grammar", c.Pick(1, 2)), Workers: 4, Files: c15Dummy}},
		{name: "chunking", opt: TLCOpt{Spec: "Chunking", Cfg: c15ChunkCfg(c15AllKinds, []string{"plain"}, c.Pick(3, 4), 8, "", nil, true, c15ChunkInvariants), Workers: 4}},
		{name: "chunking-forms", opt: TLCOpt{Spec: "Chunking", Cfg: c15ChunkCfg(c15FormKindsRun, c15FormNames(), c.Pick(2, 3), c.Pick(5, 6), "", nil, true, c15ChunkInvariants), Workers: 4}},
		{name: "chunking-redefinition", opt: TLCOpt{Spec: "Chunking", Cfg: c15ChunkCfg(c15RedefKindsRun, []string{"plain"}, c.Pick(4, 5), c.Pick(4, 5), "", nil, true, c15ChunkInvariants), Workers: 4}},
	}
	if c.Thorough() {
		jobs = append(jobs, &tlcJob{name: "mc-long", opt: TLCOpt{Spec: "Continuation", Cfg: c15ContCfg(sigmaSmall, 5, "mc", 1), Workers: 8, Files: c15Dummy}})
	}
	// runs that MUST violate ChunkingIsInvisible: a precondition dropped (under the implementation's hoisting of macro
	// definitions, which is what makes "defined before use" a precondition), or a deviation of the implementation added
	hoist := []string{"hoist-definitions"}
	for _, rl := range []string{"errors", "return", "use-before-def"} {
		kinds := []string{"set", "print", "mdef1", "mdef2", "muse", "ret", "err"}
		jobs = append(jobs, &tlcJob{name: "relax:" + rl, opt: TLCOpt{Spec: "Chunking", Cfg: c15ChunkCfg(kinds, []string{"plain"}, 4, 4, rl, hoist, false, "ChunkingIsInvisible"), Workers: 1, AllowError: true}})
	}
	jobs = append(jobs,
		&tlcJob{name: "relax:dev hoist-definitions", opt: TLCOpt{Spec: "Chunking", Cfg: c15ChunkCfg(c15RedefKindsRun, []string{"plain"}, 4, 4, "", hoist, false, "ChunkingIsInvisible"), Workers: 1, AllowError: true}},
		&tlcJob{name: "relax:dev copy-alters-text", opt: TLCOpt{Spec: "Chunking", Cfg: c15ChunkCfg([]string{"def1", "show", "mdef1", "muse", "set"}, []string{"plain"}, 4, 4, "", []string{"hoist-definitions", "copy-alters-text"}, false, "ChunkingIsInvisible"), Workers: 1, AllowError: true}})
	var wg sync.WaitGroup
	sem := make(chan struct{}, 4)
	for _, j := range jobs {
		wg.Add(1)
		go func(j *tlcJob) {
			defer wg.Done()
			sem <- struct{}{}
			defer func() { <-sem }()
			j.res, j.err = c.TLC(j.opt)
		}(j)
	}
	wait := func(name string) *tlcJob {
		wg.Wait()
		for _, j := range jobs {
			if j.name == name {
				return j
			}
		}
		return nil
	}

	// ------------------------------------------------------------------ recorded programs (real lexer + real parser), while TLC runs
	skipped := map[string]int{}
	var recs []*c15Rec
	nextID := 1
	record := func(src, origin string, maxCuts int) {
		r := c15Record(c, nextID, src, origin, maxCuts, c.Rng, skipped)
		nextID++
		if r != nil {
			recs = append(recs, r)
		}
	}
	for _, src := range c15Pinned {
		before := len(recs)
		record(src, "pinned", 1<<20)
		if len(recs) == before {
			c.Infra(fmt.Errorf("C15: pinned program %q is not a valid program on this tree", src))
			return
		}
	}
	shipped := 0
	for _, dir := range []string{"examples", "tests"} {
		files, _ := filepath.Glob(filepath.Join(c15RepoDir(), dir, "*.gr"))
		sort.Strings(files)
		for _, f := range files {
			b, err := os.ReadFile(f)
			if err != nil {
				c.Infra(err)
				return
			}
			src := string(b)
			if strings.HasPrefix(src, "#!") {
				src = src[strings.IndexByte(src, '\n')+1:]
			}
			before := len(recs)
			record(src, dir+"/"+filepath.Base(f), c.Pick(60, 400))
			if len(recs) > before {
				shipped++
			}
		}
	}
	if shipped < 10 {
		c.Infra(fmt.Errorf("C15: only %d shipped .gr files under %s parse (expected the examples and tests)", shipped, c15RepoDir()))
		return
	}
	c.Cov("shipped_programs", shipped)
	nRandom := c.Pick(120, 2500)
	feat := map[string]int{}
	for i := 0; i < nRandom; i++ {
		g := NewGen(rand.New(rand.NewSource(c.Seed*9000011 + int64(i))))
		prog := g.Program(1 + g.pick(6))
		src := renderProgram(prog)
		if i%3 == 1 {
			src = c15Relayout(src, g.r)
		}
		record(src, "random", c.Pick(80, 250))
		for f := range g.Used {
			feat[f]++
		}
	}
	c.Cov("random_programs", nRandom)
	c.Cov("recorded_programs_skipped", skipped)
	if c15Infra(c) {
		wg.Wait()
		return
	}

	// ------------------------------------------------------------------ design level results
	wg.Wait()
	for _, j := range jobs {
		if j.err != nil {
			c.Infra(fmt.Errorf("%s: %w", j.name, j.err))
			return
		}
		if strings.HasPrefix(j.name, "relax:") {
			if j.res.InvViolated != "ChunkingIsInvisible" {
				c.Infra(fmt.Errorf("Chunking.tla without the precondition / with the deviation %q satisfied ChunkingIsInvisible (vacuous model): %s", j.name, j.res.ErrText))
				return
			}
		}
	}
	c.Cov("design_counterexamples", "Chunking.tla (macro definitions hoisted per chunk, as implemented) violates ChunkingIsInvisible as soon as one precondition is dropped: errors, return, use-before-def; with all preconditions, on a script that defines a macro after a use another definition served (Dev hoist-definitions: the listed finding); and as soon as the copy made by the expansion pass may print differently from the original (Dev copy-alters-text)")
	mc := wait("mc").res
	c.Note("Continuation mc: %d token strings (states), invariants %s, property DepthStep", mc.Distinct, c15Invariants)

	// ------------------------------------------------------------------ GEN: grammar programs, every cut
	gr := wait("grammar").res
	st := &c15Stats{softBy: map[string]int{}}
	nLine := 0
	err := c15SortedLines(gr.Emitted, func(line []byte) error {
		var g c15GLine
		if err := json.Unmarshal(line, &g); err != nil {
			return fmt.Errorf("grammar line: %w", err)
		}
		if len(g.Toks) == 0 || len(g.Toks) != len(g.Need) {
			return fmt.Errorf("grammar line with %d tokens and %d needs", len(g.Toks), len(g.Need))
		}
		nLine++
		c15ReplayGrammarProgram(c, g, st, nLine%900 == 7)
		return nil
	})
	if err != nil {
		c.Infra(err)
		return
	}
	if st.programs == 0 || st.demanded == 0 || st.demandedInside == 0 {
		c.Infra(fmt.Errorf("C15: grammar GEN replayed %d programs, %d demanded cuts, %d inside cuts", st.programs, st.demanded, st.demandedInside))
		return
	}
	if st.lexMismatch > 0 {
		c.Infra(fmt.Errorf("C15: %d grammar programs are not lexed the way Continuation.tla spells them, e.g. %q", st.lexMismatch, st.lexMismatchSample))
		return
	}
	if st.invalid*4 > st.programs {
		c.Infra(fmt.Errorf("C15: %d of %d grammar programs are not valid programs, e.g. %q", st.invalid, st.programs, st.invalidSamples))
		return
	}
	c.Cov("grammar_programs", st.programs)
	c.Cov("grammar_programs_not_valid_skipped", st.invalid)
	c.Cov("grammar_demanded_cuts", st.demanded)
	c.Cov("grammar_demanded_cuts_inside_string_or_comment", st.demandedInside)
	c.Cov("grammar_cuts_nothing_demanded", st.soft)
	c.Cov("grammar_cuts_nothing_demanded_by_last_token_and_answer", st.softBy)
	c.Cov("grammar_interactive_layouts", st.layouts)
	if len(st.softErr) > 0 {
		c.Note("cuts where the property demands nothing and line mode reports an error (not violations), e.g. %q", st.softErr)
	}
	c.Cov("exhaustive", true)
	if len(st.invalidSamples) > 0 {
		c.Note("grammar compositions that file mode rejects (skipped): %q", st.invalidSamples)
	}

	// ------------------------------------------------------------------ TV: recorded programs judged by Continuation.tla
	c15ValidateRecorded(c, recs)
	if c15Infra(c) {
		return
	}
	// interactive feeding of the multi-line pinned programs: every line break inside an open construct
	for _, r := range recs {
		if r.Origin != "pinned" && !strings.HasPrefix(r.Origin, "examples/") {
			continue
		}
		if !r.Full || r.W == nil || !strings.Contains(r.Src, "\n") {
			continue
		}
		if c15Interactive(c, r.Src, c15LineDemands(r), r.Origin) {
			c.CovAdd("interactive_recorded_programs", 1)
		}
	}

	// ------------------------------------------------------------------ clause 3
	c15Sessions(c, wait("chunking").res.Emitted, wait("chunking-forms").res.Emitted, wait("chunking-redefinition").res.Emitted)
}

// c15LineDemands: for every newline of a recorded program, the clause Continuation.tla demanded for the prefix that
// ends there (r.W at the boundary after the last token before the newline, r.IW when the newline lies inside a token).
func c15LineDemands(r *c15Rec) map[int]string {
	d := map[int]string{}
	k := 0 // number of tokens that end at or before off
	for off := 0; off < len(r.Src); off++ {
		for k < len(r.Toks) && r.Toks[k].End <= off {
			k++
		}
		if r.Src[off] != '\n' {
			continue
		}
		switch {
		case k < len(r.Toks) && r.Toks[k].Start < off:
			d[off] = r.IW[k]
		case k > 0:
			d[off] = r.W[k-1]
		}
	}
	return d
}

// c15Relayout replaces some statement separators and spaces after commas / operators by newlines (layout must not
// matter to either mode).
func c15Relayout(src string, r *rand.Rand) string {
	var sb strings.Builder
	inStr := byte(0)
	for i := 0; i < len(src); i++ {
		ch := src[i]
		if inStr != 0 {
			sb.WriteByte(ch)
			if ch == '\\' && inStr == '"' && i+1 < len(src) {
				i++
				sb.WriteByte(src[i])
			} else if ch == inStr {
				inStr = 0
			}
			continue
		}
		if ch == '"' || ch == '`' {
			inStr = ch
		}
		if ch == ' ' && i > 0 && strings.ContainsRune(",+*{=", rune(src[i-1])) && r.Intn(4) == 0 {
			sb.WriteString("\n  ")
			continue
		}
		sb.WriteByte(ch)
	}
	return sb.String()
}

// c15SortedLines reads an emitted ndjson file and calls f on its lines in sorted order (TLC's workers emit in a
// scheduling dependent order; sampling by position must not depend on it).
func c15SortedLines(path string, f func(line []byte) error) error {
	var lines []string
	if err := ReadLines(path, func(line []byte) error {
		lines = append(lines, string(line))
		return nil
	}); err != nil {
		return err
	}
	sort.Strings(lines)
	for _, ln := range lines {
		if err := f([]byte(ln)); err != nil {
			return err
		}
	}
	return nil
}

func c15Infra(c *Ctx) bool {
	c.mu.Lock()
	defer c.mu.Unlock()
	return c.infra != nil
}

func c15RepoDir() string {
	if d := os.Getenv("VERIF_REPO"); d != "" {
		return d
	}
	return "/repo"
}

// ---------------------------------------------------------------------- replay

func replayC15(rp map[string]any) (bool, string) {
	str := func(k string) string {
		s, _ := rp[k].(string)
		return unlatin1(s)
	}
	switch rp["check"] {
	case "session-long":
		long := []string{"v = 0", "f = func(x) {x}", "w = 0"}
		for i := 0; i < 5300; i++ {
			long = append(long, str("end"), str("start"))
		}
		long = append(long, "println(v, w)")
		var chunks []string
		for i := 0; i < len(long); i += 1000 {
			chunks = append(chunks, strings.Join(long[i:min(i+1000, len(long))], "\n")+"\n")
		}
		b := c15RunInputs([]string{strings.Join(long, "\n") + "\n"}, false)
		a := c15RunInputs(chunks, false)
		if (b.Err || b.Panicked) != (a.Err || a.Panicked) || a.Out != b.Out {
			return false, fmt.Sprintf("as one input: err=%v %s; in chunks of 1000: err=%v", b.Err || b.Panicked, clip(b.ErrMsg, 160), a.Err || a.Panicked)
		}
		return true, ""
	case "cut":
		o := c15ParseMode(str("prefix"), true, false)
		if o.Code() == "c" {
			return true, ""
		}
		why, _ := rp["why"].(string)
		last, _ := rp["last"].(string)
		return false, c15CutWhat(c15Cut{Prefix: str("prefix"), Why: why, Last: last, Obs: o})
	case "tree":
		src := str("text")
		fm := c15ParseMode(src, false, true)
		if fm.Panicked != "" || len(fm.Errs) > 0 {
			return true, "not a valid program on this tree"
		}
		lm := c15ParseMode(src, true, true)
		switch {
		case lm.Panicked != "":
			return false, "line mode panics: " + lm.Panicked
		case len(lm.Errs) > 0:
			return false, "line mode reports: " + lm.Errs[0]
		case lm.Cont:
			return false, "line mode asks for more input after a complete program"
		case lm.Tree != fm.Tree:
			return false, fmt.Sprintf("trees differ: line %s file %s", c15Short(lm.Tree), c15Short(fm.Tree))
		}
		return true, ""
	case "session":
		var stmts []string
		var cuts []int
		b, _ := json.Marshal(rp["stmts"])
		_ = json.Unmarshal(b, &stmts)
		b, _ = json.Marshal(rp["cuts"])
		_ = json.Unmarshal(b, &cuts)
		lineMode, _ := rp["line_mode"].(bool)
		redef, _ := rp["redef"].(bool)
		w := c15RunInputs([]string{c15JoinStmts(stmts)}, false)
		a := c15RunInputs(c15Chunks(stmts, cuts), lineMode)
		cs := c15SessCase{Stmts: stmts, Cuts: cuts, LineMode: lineMode, Redef: redef, A: a, B: w}
		if w.Err || w.Panicked {
			if !a.Err && !a.Panicked && len(cuts) == len(stmts) { // the two ways of feeding disagree on whether the script is error free
				return false, c15SessionWhat(cs)
			}
			return true, "the script is not error free on this tree"
		}
		if a.Out == w.Out && a.Err == w.Err && a.ErrMsg == w.ErrMsg && a.Globals == w.Globals && a.SaveErr == w.SaveErr {
			return true, ""
		}
		return false, c15SessionWhat(cs)
	}
	return false, "unknown C15 replay kind"
}
