package main

// C20 - the completion index behaves as a set of words (spec/Trie.tla, spec/Trie_Trace.tla).

import (
	"bytes"
	"context"
	"encoding/json"
	"fmt"
	"sort"
	"strings"
	"time"

	"fortio.org/terminal"
	"grol.io/grol/eval"
	"grol.io/grol/object"
	"grol.io/grol/repl"
	"grol.io/grol/trie"
)

func init() {
	props["C20"] = propDef{check: checkC20, replay: replayC20,
		rule: "case = one TLC-emitted transition (witness insertion order + inserted word) replayed on trie.Trie, or one random insertion trace validated by Trie_Trace.tla; distinct by (witness, word); non-trivial when the trie was non-empty before the insert"}
}

type trieGenLine struct {
	H   [][]int           `json:"h"`
	W   []int             `json:"w"`
	Set [][]int           `json:"set"`
	Lcp []json.RawMessage `json:"lcp"`
}

func bytesOf(w []int) string {
	b := make([]byte, len(w))
	for i, x := range w {
		b[i] = byte(x)
	}
	return string(b)
}

func intsOf(s string) []int {
	r := make([]int, len(s))
	for i := 0; i < len(s); i++ {
		r[i] = int(s[i])
	}
	return r
}

func allWords(alpha []int, maxLen int, withEmpty bool) []string {
	var res []string
	if withEmpty {
		res = append(res, "")
	}
	cur := []string{""}
	for n := 1; n <= maxLen; n++ {
		var next []string
		for _, p := range cur {
			for _, a := range alpha {
				next = append(next, p+string([]byte{byte(a)}))
			}
		}
		res = append(res, next...)
		cur = next
	}
	return res
}

// completionLine drives the real auto-complete callback of repl/completion.go.
func completionLine(ac *repl.AutoComplete, line string) (string, int, bool, string) {
	var buf bytes.Buffer
	t := &terminal.Terminal{Out: &buf}
	nl, np, ok := ac.AutoComplete()(t, line, len(line), '\t')
	return nl, np, ok, buf.String()
}

// trieObserve compares the real trie (already holding `words`) with the abstract set semantics.
// Returns "" or a description of the first mismatch.
func trieObserve(tr *trie.Trie, set map[string]bool, universe []string, prefixes []string, lcp map[string]int) string {
	return trieObserveAC(&repl.AutoComplete{Trie: tr}, set, universe, prefixes, lcp)
}

// trieObserveAC observes through a completion object that may have been used before (what a REPL session does).
func trieObserveAC(ac *repl.AutoComplete, set map[string]bool, universe []string, prefixes []string, lcp map[string]int) string {
	tr := ac.Trie
	for _, w := range universe {
		if tr.Contains(w) != set[w] {
			return fmt.Sprintf("Contains(%q)=%v want %v", w, tr.Contains(w), set[w])
		}
	}
	for _, p := range prefixes {
		var want []string
		for w := range set {
			if strings.HasPrefix(w, p) {
				want = append(want, w)
			}
		}
		sort.Strings(want)
		n, got := tr.PrefixAll(p)
		if len(got) != len(want) {
			return fmt.Sprintf("PrefixAll(%q)=%q want %q", p, got, want)
		}
		for i := range got {
			if got[i] != want[i] {
				return fmt.Sprintf("PrefixAll(%q)=%q want %q", p, got, want)
			}
		}
		if len(want) > 0 {
			wl, ok := lcp[p]
			if !ok { // compute
				wl = len(want[0])
				for _, w := range want[1:] {
					k := 0
					for k < wl && k < len(w) && w[k] == want[0][k] {
						k++
					}
					wl = k
				}
			}
			if n != wl {
				return fmt.Sprintf("PrefixAll(%q) length=%d want %d (%q)", p, n, wl, want)
			}
			// the completion callback extends the typed text to the common prefix of defined words only.
			nl, np, ok2, out := completionLine(ac, p)
			if !ok2 || nl != want[0][:wl] || np != wl {
				return fmt.Sprintf("completion(%q)=(%q,%d,%v) want (%q,%d,true)", p, nl, np, ok2, want[0][:wl], wl)
			}
			if len(want) > 1 {
				for _, w := range want {
					if !strings.Contains(out, w) {
						return fmt.Sprintf("completion(%q) listing %q lacks %q", p, out, w)
					}
				}
			}
		} else {
			if nl, _, ok2, _ := completionLine(ac, p); ok2 {
				return fmt.Sprintf("completion(%q) offered %q with no defined word", p, nl)
			}
		}
		// the same text typed after indentation: the index holds no word starting with a blank (none of the universes has
		// one), so nothing may be offered, and whatever is returned has to extend what was typed
		for _, ind := range []string{" ", "\t", "    "} {
			line := ind + p
			anyBlank := false
			for w := range set {
				if strings.HasPrefix(w, line) {
					anyBlank = true
				}
			}
			if nl, _, ok2, _ := completionLine(ac, line); ok2 && (!anyBlank || !strings.HasPrefix(nl, line)) {
				return fmt.Sprintf("completion(%q) (indented) returned %q: not an extension of what was typed to a defined word", line, nl)
			}
		}
	}
	return ""
}

// c20EvalFed: the index as the REPL feeds it - the evaluator records every top-level name it binds ("name", and "name(" for a
// function or "name " otherwise). After each input of a session the words of the index, minus what it held after registration,
// are exactly the words derived from the globals ever defined: parameters, locals, macro parameters and loop variables of
// functions never get in, and tab on their prefixes offers nothing.
func c20EvalFed(c *Ctx) {
	sessions := [][]string{
		{"zalpha = 1", "zbeta = func(zp1, zp2) {zloc = zp1; zloc}", "zbeta(1, 2)", "func zgamma(zq) {for zi = 2 {zq}}", "zgamma(1)",
			"zmac = macro(zcond, zbody) {quote(if unquote(zcond) {unquote(zbody)})}", "zmac(true, 1)", "zmac(zalpha == 1, zbeta(1, 2))", "ZCONST = [1]", "del(zalpha)", "zalpha = 2",
			"zd = {\"zkey\": 1}", "zl = zw => zw + 1", "zl(1)", "for ztop = 2 {ztwo = ztop}", "zf2 = func() {zm2 = macro(zx) {quote(unquote(zx))}; zm2(1)}", "zf2()"},
		{"m1 = macro(ma) {quote(unquote(ma) + 1)}", "m1(1)", "func ff(fa, fb) {m1(fa)}", "ff(1, 2)", "m1 = macro(mb, mc) {quote(unquote(mb))}", "m1(1, 2)", "eval(\"ev1 = 5\")", "unjson(\"[1]\")"},
	}
	for si, sess := range sessions {
		n, bad := c20EvalFedSession(c, si, sess)
		if bad != "" {
			c.Fail("completion-index-not-the-defined-names", bad, map[string]any{"check": "evalfed", "session": sess[:n+1]})
		}
	}
}

// c20EvalFedSession runs one session and returns the index of the first input after which the index is wrong ("" = fine).
func c20EvalFedSession(c *Ctx, si int, sess []string) (int, string) {
	s := eval.NewState()
	var out bytes.Buffer
	s.Out, s.LogOut = &out, &out
	tr := trie.NewTrie()
	s.RegisterTrie(tr)
	_, base := tr.PrefixAll("")
	baseSet := map[string]bool{}
	for _, w := range base {
		baseSet[w] = true
	}
	ac := &repl.AutoComplete{Trie: tr}
	ever := map[string]string{} // word recorded -> global name
	for i, in := range sess {
		_, _, _, _ = repl.EvalOne(context.Background(), s, in, &out, repl.Options{All: true, ShowEval: true, NoColor: true})
		g := c14DataGlobalsAndFuncs(s)
		for name, isFunc := range g {
			if isFunc {
				ever[name+"("] = name
			} else {
				ever[name+" "] = name
			}
			ever[name] = name
		}
		_, words := tr.PrefixAll("")
		if c != nil {
			c.Case(fmt.Sprintf("evalfed:%d:%d:%s", si, i, in), true)
		}
		for _, w := range words {
			if !baseSet[w] && ever[w] == "" {
				return i, fmt.Sprintf("after %q the index holds %q, which is not a top-level name defined in the session", in, w)
			}
		}
		for name, isFunc := range g {
			suf := " "
			if isFunc {
				suf = "("
			}
			if !tr.Contains(name) || !tr.Contains(name+suf) {
				return i, fmt.Sprintf("after %q the defined name %q (or %q) is missing from the index", in, name, name+suf)
			}
		}
		for _, pfx := range []string{"zp", "zlo", "zq", "zi", "zco", "zbo", "zw", "zx", "zm2", "zke", "ma", "mb", "fa"} { // never global
			if nl, _, ok, _ := completionLine(ac, pfx); ok {
				return i, fmt.Sprintf("after %q, tab on %q completes to %q: never defined at top level", in, pfx, nl)
			}
		}
		if c != nil {
			c.AddTraces(1)
		}
	}
	return 0, ""
}

// c14DataGlobalsAndFuncs: the session's own top-level names (name -> is a function), read from info.globals.
func c14DataGlobalsAndFuncs(s *eval.State) map[string]bool {
	out := map[string]bool{}
	res, err, _ := c14Eval(s, "info.globals", 2*time.Second)
	if err != nil {
		return out
	}
	for _, k := range object.Elements(object.Value(res)) {
		name, ok := k.(object.String)
		if !ok {
			continue
		}
		v, err, _ := c14Eval(s, name.Value, 2*time.Second)
		if err != nil {
			continue
		}
		out[name.Value] = object.Value(v).Type() == object.FUNC
	}
	return out
}

func trieCfg(alpha []int, maxLen, maxSet int, mark, emit bool, trace bool) string {
	as := make([]string, len(alpha))
	for i, a := range alpha {
		as[i] = fmt.Sprint(a)
	}
	b := func(x bool) string {
		if x {
			return "TRUE"
		}
		return "FALSE"
	}
	s := fmt.Sprintf("CONSTANTS\n Alphabet = {%s}\n MaxLen = %d\n MaxSet = %d\n MarkPrefixValid = %s\n EmitOn = %s\n",
		strings.Join(as, ","), maxLen, maxSet, b(mark), b(emit))
	if trace {
		return s + "INIT TraceInit\nNEXT TraceNext\nPOSTCONDITION TraceAccepted\n"
	}
	return s + "INIT Init\nNEXT Next\nVIEW view\nINVARIANTS MembershipOK PrefixOK MinMaxOK\nPROPERTY GrowOnly\n"
}

func trieReplayCase(h [][]int, w []int) *trie.Trie {
	tr := trie.NewTrie()
	for _, x := range h {
		tr.Insert(bytesOf(x))
	}
	tr.Insert(bytesOf(w))
	return tr
}

// trieReplaySession replays the witness history like an interactive session: one completion object for the whole
// history, the TAB callback exercised on every prefix after every insertion.
func trieReplaySession(h [][]int, w []int, prefixes []string) *repl.AutoComplete {
	ac := repl.NewCompletion()
	tab := func() {
		for _, p := range prefixes {
			completionLine(ac, p)
		}
	}
	tab()
	for _, x := range h {
		ac.Trie.Insert(bytesOf(x))
		tab()
	}
	ac.Trie.Insert(bytesOf(w))
	return ac
}

func checkC20(c *Ctx) {
	c.Assume("fortio.org/terminal.Terminal{Out: buffer} is a faithful stand-in for the interactive terminal in the completion callback")
	// 1. design-level non-vacuity: the spec of the code *before* the repair must violate MembershipOK.
	r, err := c.TLC(TLCOpt{Spec: "Trie", Cfg: trieCfg([]int{97, 98}, 2, 6, false, false, false), Workers: 4, AllowError: true})
	if err != nil {
		c.Infra(err)
		return
	}
	if r.InvViolated != "MembershipOK" {
		c.Infra(fmt.Errorf("sabotage run (MarkPrefixValid=FALSE) did not violate MembershipOK: %q\n%s", r.InvViolated, r.ErrText))
		return
	}
	c.Cov("design_counterexample_without_repair", "MembershipOK violated (word inserted after a longer word it prefixes)")

	type space struct {
		alpha          []int
		maxLen, maxSet int
	}
	var spaces []space
	if c.Thorough() {
		spaces = []space{{[]int{97, 98}, 3, 14}, {[]int{0, 97, 255}, 2, 12}, {[]int{97, 98, 99}, 2, 12}, {[]int{0, 1, 254, 255}, 2, 5}}
	} else {
		spaces = []space{{[]int{97, 98}, 3, 4}, {[]int{0, 97, 255}, 2, 5}}
	}
	exhaustive := true
	for _, sp := range spaces {
		r, err := c.TLC(TLCOpt{Spec: "Trie", Cfg: trieCfg(sp.alpha, sp.maxLen, sp.maxSet, true, true, false), Workers: 8, Timeout: 0})
		if err != nil {
			c.Infra(err)
			return
		}
		universe := allWords(sp.alpha, sp.maxLen, false)
		prefixes := allWords(sp.alpha, sp.maxLen, true)
		n := 0
		err = ReadLines(r.Emitted, func(line []byte) error {
			var g trieGenLine
			if err := json.Unmarshal(line, &g); err != nil {
				return err
			}
			n++
			set := map[string]bool{}
			for _, w := range g.Set {
				set[bytesOf(w)] = true
			}
			lcp := map[string]int{}
			for _, raw := range g.Lcp {
				var pr []json.RawMessage
				if err := json.Unmarshal(raw, &pr); err != nil {
					return err
				}
				var p []int
				var k int
				_ = json.Unmarshal(pr[0], &p)
				_ = json.Unmarshal(pr[1], &k)
				lcp[bytesOf(p)] = k
			}
			tr := trieReplayCase(g.H, g.W)
			key := fmt.Sprint(g.H, g.W)
			c.Case(key, len(g.H) > 0)
			if n%5000 == 1 {
				c.Sample(map[string]any{"witness_inserts": g.H, "insert": g.W, "predicted_set": g.Set})
			}
			msg := trieObserve(tr, set, universe, prefixes, lcp)
			if msg == "" && n%3 == 0 { // the same transition as a session with one long-lived completion object
				msg = trieObserveAC(trieReplaySession(g.H, g.W, prefixes), set, universe, prefixes, lcp)
				// ... and TAB hit on the SAME input before and after the insertion (nothing else in between)
				for i := 0; msg == "" && i < len(prefixes); i++ {
					if !strings.HasPrefix(bytesOf(g.W), prefixes[i]) {
						continue
					}
					one := []string{prefixes[i]}
					msg = trieObserveAC(trieReplaySession(g.H, g.W, one), set, nil, one, lcp)
				}
			}
			if msg != "" {
				sig := "trie-mismatch"
				// narrow signature of the pre-repair defect: the inserted word is a proper prefix of an earlier word
				for _, x := range g.H {
					if len(x) > len(g.W) && bytesOf(x)[:len(g.W)] == bytesOf(g.W) {
						sig = "trie-insert-prefix-of-existing-word"
					}
				}
				c.Fail(sig, msg, map[string]any{"check": "gen", "alphabet": sp.alpha, "maxlen": sp.maxLen, "h": g.H, "w": g.W})
			}
			return nil
		})
		if err != nil {
			c.Infra(err)
			return
		}
		if n == 0 {
			c.Infra(fmt.Errorf("Trie GEN emitted nothing"))
			return
		}
		c.AddTraces(int64(n))
		full := 1
		for i := 0; i < len(universe); i++ {
			full *= 2
			if full > 1<<30 {
				break
			}
		}
		if int64(full) != r.Distinct {
			exhaustive = false
		}
		c.Note("Trie GEN alphabet=%v maxlen=%d maxset=%d: %d states, %d transitions replayed", sp.alpha, sp.maxLen, sp.maxSet, r.Distinct, n)
	}
	c.Cov("exhaustive", exhaustive)

	// 2. TV: random longer histories on the real trie, validated by Trie_Trace.tla.
	alpha := []int{0, 97, 98, 255}
	nTraces := c.Pick(60, 600)
	var buf bytes.Buffer
	enc := json.NewEncoder(&buf)
	events := 0
	for t := 0; t < nTraces; t++ {
		_ = enc.Encode(map[string]any{"e": "reset"})
		events++
		tr := trie.NewTrie()
		var inserted []string
		steps := 3 + c.Rng.Intn(8)
		for s := 0; s < steps; s++ {
			var w string
			if len(inserted) > 0 && c.Rng.Intn(3) == 0 { // prefix or extension of an earlier word
				o := inserted[c.Rng.Intn(len(inserted))]
				if c.Rng.Intn(2) == 0 && len(o) > 1 {
					w = o[:1+c.Rng.Intn(len(o)-1)]
				} else if len(o) < 5 {
					w = o + string([]byte{byte(alpha[c.Rng.Intn(len(alpha))])})
				} else {
					w = o
				}
			} else {
				n := 1 + c.Rng.Intn(5)
				b := make([]byte, n)
				for i := range b {
					b[i] = byte(alpha[c.Rng.Intn(len(alpha))])
				}
				w = string(b)
			}
			tr.Insert(w)
			inserted = append(inserted, w)
			// queries: all prefixes of inserted words + a few random words
			qs := map[string]bool{"": true}
			for _, x := range inserted {
				for k := 1; k <= len(x); k++ {
					qs[x[:k]] = true
				}
				if len(x) < 5 {
					qs[x+"a"] = true
				}
			}
			var ql []string
			for q := range qs {
				ql = append(ql, q)
			}
			sort.Strings(ql)
			var mem, q []any
			for _, x := range ql {
				if x != "" {
					m := 0
					if tr.Contains(x) {
						m = 1
					}
					mem = append(mem, []any{intsOf(x), m})
				}
				n, ws := tr.PrefixAll(x)
				wl := make([][]int, len(ws))
				for i, y := range ws {
					wl[i] = intsOf(y)
				}
				q = append(q, []any{intsOf(x), n, wl})
			}
			_ = enc.Encode(map[string]any{"e": "ins", "w": intsOf(w), "mem": mem, "q": q})
			events++
		}
		c.Case("tv:"+strings.Join(inserted, ","), true)
	}
	traceBytes := buf.Bytes()
	r, err = c.TLC(TLCOpt{Spec: "Trie_Trace", Cfg: trieCfg(alpha, 6, 1000, true, false, true), Workers: 1,
		Files: map[string][]byte{"trie_trace.ndjson": traceBytes}, AllowError: true})
	if err != nil {
		c.Infra(err)
		return
	}
	if r.ErrText != "" {
		if !strings.Contains(r.Out, "TRACE_REJECTED_AT_LINE") {
			c.Infra(fmt.Errorf("Trie_Trace failed: %s", r.ErrText))
			return
		}
		line := 0
		if i := strings.Index(r.Out, "TRACE_REJECTED_AT_LINE"); i >= 0 {
			fmt.Sscanf(strings.Trim(r.Out[i+len("TRACE_REJECTED_AT_LINE"):i+len("TRACE_REJECTED_AT_LINE")+14], "\", >\n"), "%d", &line)
		}
		lines := bytes.Split(traceBytes, []byte("\n"))
		// cut the rejected trace out (from its reset to the rejected line) for the replay file
		start := line - 1
		for start > 0 && !bytes.Contains(lines[start], []byte(`"reset"`)) {
			start--
		}
		var ws [][]int
		for _, ln := range lines[start:min(line, len(lines))] {
			var ev struct {
				W []int `json:"w"`
			}
			_ = json.Unmarshal(ln, &ev)
			if ev.W != nil {
				ws = append(ws, ev.W)
			}
		}
		c.Fail("trie-trace-rejected", fmt.Sprintf("Trie_Trace rejected the recorded trace at line %d", line),
			map[string]any{"check": "tv", "inserts": ws})
	} else {
		c.AddTraces(int64(nTraces))
	}
	c.Cov("tv_events", events)

	// 3. binding self-test: a corrupted observation must be rejected by the trace spec.
	if c.Thorough() || true {
		bad := bytes.Replace(traceBytes, []byte(`],1]`), []byte(`],0]`), 1)
		r, err := c.TLC(TLCOpt{Spec: "Trie_Trace", Cfg: trieCfg(alpha, 6, 1000, true, false, true), Workers: 1,
			Files: map[string][]byte{"trie_trace.ndjson": bad}, AllowError: true})
		if err != nil {
			c.Infra(err)
			return
		}
		if !strings.Contains(r.Out, "TRACE_REJECTED_AT_LINE") {
			c.Infra(fmt.Errorf("vacuous binding: corrupted trie trace was accepted"))
			return
		}
		c.Cov("sabotage_rejected", true)
	}
	c20EvalFed(c)
}

func replayC20(rp map[string]any) (bool, string) {
	if rp["check"] == "evalfed" {
		var sess []string
		b, _ := json.Marshal(rp["session"])
		_ = json.Unmarshal(b, &sess)
		if _, bad := c20EvalFedSession(nil, 0, sess); bad != "" {
			return false, bad
		}
		return true, ""
	}
	toWords := func(v any) [][]int {
		var res [][]int
		b, _ := json.Marshal(v)
		_ = json.Unmarshal(b, &res)
		return res
	}
	var words [][]int
	if rp["check"] == "gen" {
		words = toWords(rp["h"])
		var w []int
		b, _ := json.Marshal(rp["w"])
		_ = json.Unmarshal(b, &w)
		words = append(words, w)
	} else {
		words = toWords(rp["inserts"])
	}
	tr := trie.NewTrie()
	set := map[string]bool{}
	universe := map[string]bool{}
	for _, w := range words {
		s := bytesOf(w)
		tr.Insert(s)
		set[s] = true
		for k := 1; k <= len(s); k++ {
			universe[s[:k]] = true
		}
	}
	var u, p []string
	p = append(p, "")
	for w := range universe {
		u = append(u, w)
		p = append(p, w)
	}
	msg := trieObserve(tr, set, u, p, map[string]int{})
	return msg == "", msg
}
