package main

// C20 - the completion index behaves as a set of words (spec/Trie.tla, spec/Trie_Trace.tla; notes in docs/C20.md).
//
//   MC   Trie.tla: abstract set of words next to a transcription of trie/trie.go; MembershipOK, PrefixOK, MinMaxOK, GrowOnly.
//   GEN  every explored transition (plain insertions; with Names also top-level definitions recorded by the evaluator) is
//        replayed on the real trie / evaluator and observed through Contains, PrefixAll and the TAB callback.
//   TV   recorded histories (seeded random; one node filled with all 256 byte values) judged by Trie_Trace.tla.
//   plus REPL sessions on the index as repl.Interactive sets it up (c20EvalFed).

import (
	"bytes"
	"context"
	"encoding/json"
	"fmt"
	"sort"
	"strings"
	"time"

	"fortio.org/terminal"
	"grol.io/grol/eval"
	"grol.io/grol/object"
	"grol.io/grol/repl"
	"grol.io/grol/token"
	"grol.io/grol/trie"
)

func init() {
	props["C20"] = propDef{check: checkC20, replay: replayC20,
		rule: "case = one TLC-emitted transition (witness history + step: an inserted word, or a name defined at top level of a state that records its identifiers in the index) replayed on trie.Trie / the evaluator, or one insertion trace (seeded random, or filling one node with all 256 bytes) recorded from the real trie and validated by Trie_Trace.tla, or one input of a REPL session feeding the index; distinct by (witness, step); non-trivial when the trie was non-empty before the step"}
}

// trieOp is one step of a witness history: Op "ins" = trie.Insert(W); "var" / "func" = a top-level definition of the name W
// evaluated on a state whose identifiers are recorded in the index (object/state.go record()).
type trieOp struct {
	Op string `json:"op"`
	W  []int  `json:"w"`
}

type trieGenLine struct {
	H   []trieOp          `json:"h"`
	Op  string            `json:"op"`
	W   []int             `json:"w"`
	Set [][]int           `json:"set"`
	Lcp []json.RawMessage `json:"lcp"`
}

func bytesOf(w []int) string {
	b := make([]byte, len(w))
	for i, x := range w {
		b[i] = byte(x)
	}
	return string(b)
}

func intsOf(s string) []int {
	r := make([]int, len(s))
	for i := 0; i < len(s); i++ {
		r[i] = int(s[i])
	}
	return r
}

func allWords(alpha []int, maxLen int, withEmpty bool) []string {
	var res []string
	if withEmpty {
		res = append(res, "")
	}
	cur := []string{""}
	for n := 1; n <= maxLen; n++ {
		var next []string
		for _, p := range cur {
			for _, a := range alpha {
				next = append(next, p+string([]byte{byte(a)}))
			}
		}
		res = append(res, next...)
		cur = next
	}
	return res
}

// completionLine drives the real auto-complete callback of repl/completion.go.
// (a panic of the callback is an answer like any other - a wrong one: it is reported as the completed line.)
func completionLine(ac *repl.AutoComplete, line string) (nl string, np int, ok bool, out string) {
	var buf bytes.Buffer
	t := &terminal.Terminal{Out: &buf}
	defer func() {
		if r := recover(); r != nil {
			nl, np, ok, out = fmt.Sprintf("\x00the completion callback panicked: %v", r), -1, true, buf.String()
		}
	}()
	nl, np, ok = ac.AutoComplete()(t, line, len(line), '\t')
	return nl, np, ok, buf.String()
}

// trieObserve compares the real trie (already holding `words`) with the abstract set semantics.
// Returns "" or a description of the first mismatch.
func trieObserve(tr *trie.Trie, set map[string]bool, universe []string, prefixes []string, lcp map[string]int) string {
	return trieObserveAC(&repl.AutoComplete{Trie: tr}, set, universe, prefixes, lcp)
}

// trieObserveAC observes through a completion object that may have been used before (what a REPL session does).
func trieObserveAC(ac *repl.AutoComplete, set map[string]bool, universe []string, prefixes []string, lcp map[string]int) string {
	tr := ac.Trie
	for _, w := range universe {
		if tr.Contains(w) != set[w] {
			return fmt.Sprintf("Contains(%q)=%v want %v", w, tr.Contains(w), set[w])
		}
	}
	for _, p := range prefixes {
		var want []string
		for w := range set {
			if strings.HasPrefix(w, p) {
				want = append(want, w)
			}
		}
		sort.Strings(want)
		n, got := tr.PrefixAll(p)
		if len(got) != len(want) {
			return fmt.Sprintf("PrefixAll(%q)=%q want %q", p, got, want)
		}
		for i := range got {
			if got[i] != want[i] {
				return fmt.Sprintf("PrefixAll(%q)=%q want %q", p, got, want)
			}
		}
		if len(want) > 0 {
			wl, ok := lcp[p]
			if !ok { // compute
				wl = len(want[0])
				for _, w := range want[1:] {
					k := 0
					for k < wl && k < len(w) && w[k] == want[0][k] {
						k++
					}
					wl = k
				}
			}
			if n != wl {
				return fmt.Sprintf("PrefixAll(%q) length=%d want %d (%q)", p, n, wl, want)
			}
			// the completion callback extends the typed text to the common prefix of defined words only.
			nl, np, ok2, out := completionLine(ac, p)
			if !ok2 || nl != want[0][:wl] || np != wl {
				return fmt.Sprintf("completion(%q)=(%q,%d,%v) want (%q,%d,true)", p, nl, np, ok2, want[0][:wl], wl)
			}
			if len(want) > 1 {
				for _, w := range want {
					if !strings.Contains(out, w) {
						return fmt.Sprintf("completion(%q) listing %q lacks %q", p, out, w)
					}
				}
			}
		} else {
			if nl, _, ok2, _ := completionLine(ac, p); ok2 {
				return fmt.Sprintf("completion(%q) offered %q with no defined word", p, nl)
			}
		}
		// the same text typed after indentation: the index holds no word starting with a blank (none of the universes has
		// one), so nothing may be offered, and whatever is returned has to extend what was typed
		for _, ind := range []string{" ", "\t", "    "} {
			line := ind + p
			anyBlank := false
			for w := range set {
				if strings.HasPrefix(w, line) {
					anyBlank = true
				}
			}
			if nl, _, ok2, _ := completionLine(ac, line); ok2 && (!anyBlank || !strings.HasPrefix(nl, line)) {
				return fmt.Sprintf("completion(%q) (indented) returned %q: not an extension of what was typed to a defined word", line, nl)
			}
		}
	}
	return ""
}

// c20EvalFed: the index as the REPL feeds it - the evaluator records every top-level name it binds ("name", and "name(" for a
// function or "name " otherwise). After each input of a session the words of the index, minus what it held after registration,
// are exactly the words derived from the globals ever defined: parameters, locals, macro parameters and loop variables of
// functions never get in, and tab on their prefixes offers nothing.
func c20EvalFed(c *Ctx) {
	sessions := [][]string{
		{"zalpha = 1", "zbeta = func(zp1, zp2) {zloc = zp1; zloc}", "zbeta(1, 2)", "func zgamma(zq) {for zi = 2 {zq}}", "zgamma(1)",
			"zmac = macro(zcond, zbody) {quote(if unquote(zcond) {unquote(zbody)})}", "zmac(true, 1)", "zmac(zalpha == 1, zbeta(1, 2))", "ZCONST = [1]", "del(zalpha)", "zalpha = 2",
			"zd = {\"zkey\": 1}", "zl = zw => zw + 1", "zl(1)", "for ztop = 2 {ztwo = ztop}", "zf2 = func() {zm2 = macro(zx) {quote(unquote(zx))}; zm2(1)}", "zf2()"},
		{"m1 = macro(ma) {quote(unquote(ma) + 1)}", "m1(1)", "func ff(fa, fb) {m1(fa)}", "ff(1, 2)", "m1 = macro(mb, mc) {quote(unquote(mb))}", "m1(1, 2)", "eval(\"ev1 = 5\")", "unjson(\"[1]\")"},
		// names that meet words the index holds from the start (repl.Interactive: keyword + " ", builtin + "(", extension + "(",
		// the bare word history): the same word, a prefix of one, an extension of one; defined, deleted and defined again
		{"histo = 1", "history = 3", "history + histo", "historyx = 2", "func hist() {1}", "del(history)", "func history() {2}", "i = 1", "iff = 2", "le = 1", "lenx = 2",
			"func printl() {1}", "sprint = 1", "sprintfx = 2", "func sprin() {3}", "del(i)", "i = 5", "inf = 1", "infox = 1", "histo = 2"},
		// definitions that are REFUSED (an extension's name, a constant bound already) or fail half way: nothing of them reaches the index
		{"sin = 3", "max := 2", "func round() {1}", "ZK = 1", "ZK = 2", "func ZF() {1}", "ZF = 3", "func ZF() {2}", "PI = 4", "zr1 = 1 / 0", "zr2 = undefined_zz + 1", "func zr3( {", "zr4 = [1, 2",
			"zr5 = sin", "zr5 = 3", "sin++", "for sin = 2 {}", "func(max) {max}(1)", "zr6 = func() {zr7 = 1; sin = 2}", "zr6()", `eval("min = 1")`, "del(sin)", "zk2 = ZK"},
	}
	for si, sess := range sessions {
		n, bad := c20EvalFedSession(c, si, sess)
		if bad != "" {
			c.Fail("completion-index-not-the-defined-names", bad, map[string]any{"check": "evalfed", "session": sess[:n+1]})
		}
	}
}

// c20EvalFedSession runs one session and returns the index of the first input after which the index is wrong ("" = fine).
func c20EvalFedSession(c *Ctx, si int, sess []string) (int, string) {
	s := eval.NewState()
	var out bytes.Buffer
	s.Out, s.LogOut = &out, &out
	// the index as repl.Interactive sets it up before the first input
	tr := trie.NewTrie()
	tokInfo := token.Info()
	for v := range tokInfo.Keywords {
		tr.Insert(v + " ")
	}
	for v := range tokInfo.Builtins {
		tr.Insert(v + "(")
	}
	for k := range object.ExtraFunctions() {
		tr.Insert(k + "(")
	}
	tr.Insert("history")
	s.RegisterTrie(tr)
	_, base := tr.PrefixAll("")
	baseSet := map[string]bool{}
	for _, w := range base {
		baseSet[w] = true
	}
	ac := &repl.AutoComplete{Trie: tr}
	ever := map[string]string{} // word recorded -> global name
	for i, in := range sess {
		_, _, _, _ = repl.EvalOne(context.Background(), s, in, &out, repl.Options{All: true, ShowEval: true, NoColor: true})
		g := c14DataGlobalsAndFuncs(s)
		for name, isFunc := range g {
			if isFunc {
				ever[name+"("] = name
			} else {
				ever[name+" "] = name
			}
			ever[name] = name
		}
		_, words := tr.PrefixAll("")
		if c != nil {
			c.Case(fmt.Sprintf("evalfed:%d:%d:%s", si, i, in), true)
		}
		have := map[string]bool{}
		for _, w := range words {
			have[w] = true
			if !baseSet[w] && ever[w] == "" {
				return i, fmt.Sprintf("after %q the index holds %q, which is not a top-level name defined in the session", in, w)
			}
		}
		for _, w := range base {
			if !have[w] {
				return i, fmt.Sprintf("after %q the index no longer lists %q, which it held before the session", in, w)
			}
		}
		// membership and the prefix query agree with that list: for every word, and for every word with one more blank / parenthesis
		for _, w := range words {
			for _, x := range []string{w, w + " ", w + "(", w + "  "} {
				if tr.Contains(x) != have[x] {
					return i, fmt.Sprintf("after %q: Contains(%q)=%v, but the index lists %q: %v", in, x, tr.Contains(x), x, have[x])
				}
			}
			if _, sub := tr.PrefixAll(w); len(sub) == 0 || sub[0] != w {
				return i, fmt.Sprintf("after %q: PrefixAll(%q)=%q does not start with the word itself", in, w, sub)
			}
			for k, x := range []string{w + " ", w + "("} {
				_, sub := tr.PrefixAll(w)
				listed := false
				for _, y := range sub {
					listed = listed || y == x
				}
				if listed != have[x] {
					return i, fmt.Sprintf("after %q: PrefixAll(%q) lists %q: %v, the index as a whole: %v (%d)", in, w, x, listed, have[x], k)
				}
			}
		}
		if leak := c20FreshIndexProbe(); leak != "" {
			return i, fmt.Sprintf("after %q: %s", in, leak)
		}
		for name, isFunc := range g {
			suf := " "
			if isFunc {
				suf = "("
			}
			if !tr.Contains(name) || !tr.Contains(name+suf) {
				return i, fmt.Sprintf("after %q the defined name %q (or %q) is missing from the index", in, name, name+suf)
			}
		}
		for _, pfx := range []string{"zp", "zlo", "zq", "zi", "zco", "zbo", "zw", "zx", "zm2", "zke", "ma", "mb", "fa"} { // never global
			_, sub := tr.PrefixAll(pfx)
			for _, w := range sub {
				if !baseSet[w] {
					return i, fmt.Sprintf("after %q, the index offers %q for %q: never defined at top level", in, w, pfx)
				}
			}
			if nl, _, ok, _ := completionLine(ac, pfx); ok != (len(sub) > 0) || (ok && !strings.HasPrefix(sub[0], nl)) {
				return i, fmt.Sprintf("after %q, tab on %q completes to %q (%v): the words with that prefix are %q", in, pfx, nl, ok, sub)
			}
		}
		if c != nil {
			c.AddTraces(1)
		}
	}
	return 0, ""
}

// c14DataGlobalsAndFuncs: the session's own top-level names (name -> is a function), read from info.globals.
func c14DataGlobalsAndFuncs(s *eval.State) map[string]bool {
	out := map[string]bool{}
	res, err, _ := c14Eval(s, "info.globals", 2*time.Second)
	if err != nil {
		return out
	}
	for _, k := range object.Elements(object.Value(res)) {
		name, ok := k.(object.String)
		if !ok {
			continue
		}
		v, err, _ := c14Eval(s, name.Value, 2*time.Second)
		if err != nil {
			continue
		}
		out[name.Value] = object.Value(v).Type() == object.FUNC
	}
	return out
}

func trieCfg(alpha []int, maxLen, maxSet int, mark, emit bool, trace bool, names ...string) string {
	s := trieCfgNoNames(alpha, maxLen, maxSet, mark, emit, trace)
	q := make([]string, len(names))
	for i, n := range names {
		q[i] = tlaStr(n)
	}
	return strings.Replace(s, "CONSTANTS\n", "CONSTANTS\n Names = {"+strings.Join(q, ", ")+"}\n", 1)
}

func trieCfgNoNames(alpha []int, maxLen, maxSet int, mark, emit bool, trace bool) string {
	as := make([]string, len(alpha))
	for i, a := range alpha {
		as[i] = fmt.Sprint(a)
	}
	b := func(x bool) string {
		if x {
			return "TRUE"
		}
		return "FALSE"
	}
	s := fmt.Sprintf("CONSTANTS\n Alphabet = {%s}\n MaxLen = %d\n MaxSet = %d\n MarkPrefixValid = %s\n EmitOn = %s\n",
		strings.Join(as, ","), maxLen, maxSet, b(mark), b(emit))
	if trace {
		return s + "INIT TraceInit\nNEXT TraceNext\nPOSTCONDITION TraceAccepted\n"
	}
	return s + "INIT Init\nNEXT Next\nVIEW view\nINVARIANTS MembershipOK PrefixOK MinMaxOK\nPROPERTY GrowOnly\n"
}

// trieSession is a completion index used the way a REPL session uses it: words inserted directly (what repl.Interactive
// does for keywords, builtins and `history`) and names recorded by the evaluator on every top-level definition.
type trieSession struct {
	ac   *repl.AutoComplete
	st   *eval.State   // nil until the first recorded name
	base []string      // what RegisterTrie put in the index by itself
	out  *bytes.Buffer // evaluator output (discarded)
	defd map[string]bool
}

func newTrieSession() *trieSession {
	return &trieSession{ac: repl.NewCompletion(), out: &bytes.Buffer{}, defd: map[string]bool{}}
}

// apply executes one step of a history on the real code.
func (ts *trieSession) apply(op trieOp) error {
	name := bytesOf(op.W)
	var src string
	switch op.Op {
	case "ins":
		ts.ac.Trie.Insert(name)
		return nil
	case "var":
		src = name + " = 1"
	case "func":
		src = "func " + name + "() {1}"
	default:
		return fmt.Errorf("unknown history step %q", op.Op)
	}
	if ts.st == nil {
		before := map[string]bool{}
		_, ws := ts.ac.Trie.PrefixAll("")
		for _, w := range ws {
			before[w] = true
		}
		ts.st = eval.NewState()
		ts.st.Out, ts.st.LogOut = ts.out, ts.out
		ts.st.RegisterTrie(ts.ac.Trie)
		_, ws = ts.ac.Trie.PrefixAll("")
		for _, w := range ws {
			if !before[w] {
				ts.base = append(ts.base, w)
			}
		}
	}
	// record() runs when a top-level name is created; assigning to a name the session already has is an update of the
	// store that records nothing, so the name is deleted first (the index keeps its words) and defined again.
	if ts.defd[name] {
		src = "del(" + name + "); " + src
	}
	ts.defd[name] = true
	ts.out.Reset()
	_, panicked, errs, _ := repl.EvalOne(context.Background(), ts.st, src, ts.out, repl.Options{All: true, ShowEval: true, NoColor: true})
	if panicked || len(errs) > 0 {
		return fmt.Errorf("definition %q failed: panicked=%v errors=%v", src, panicked, errs)
	}
	return nil
}

// trieReplayOps replays a witness history and the transition's own step. With a non-nil prefix list it is replayed like
// an interactive session: the TAB callback exercised on every prefix before every step.
func trieReplayOps(h []trieOp, last trieOp, tabs []string) (*trieSession, error) {
	ts := newTrieSession()
	tab := func() {
		for _, p := range tabs {
			completionLine(ts.ac, p)
		}
	}
	for _, x := range h {
		tab()
		if err := ts.apply(x); err != nil {
			return nil, err
		}
	}
	tab()
	if err := ts.apply(last); err != nil {
		return nil, err
	}
	return ts, nil
}

// trieRecorder records operation traces of the real trie / completion callback as ndjson for Trie_Trace.tla.
type trieRecorder struct {
	buf    bytes.Buffer
	enc    *json.Encoder
	ac     *repl.AutoComplete
	events int
}

func newTrieRecorder() *trieRecorder {
	r := &trieRecorder{}
	r.enc = json.NewEncoder(&r.buf)
	return r
}

func (r *trieRecorder) reset() {
	_ = r.enc.Encode(map[string]any{"e": "reset"})
	r.events++
	r.ac = repl.NewCompletion()
}

// insert performs the real Insert(w) and records membership (non-empty queries), PrefixAll and the TAB callback's answer
// for every query: q = [prefix, length, words, tab ok, tab line, tab position].
func (r *trieRecorder) insert(w string, queries []string) {
	tr := r.ac.Trie
	tr.Insert(w)
	mem, q := []any{}, []any{}
	for _, x := range queries {
		if x != "" {
			m := 0
			if tr.Contains(x) {
				m = 1
			}
			mem = append(mem, []any{intsOf(x), m})
		}
		n, ws := tr.PrefixAll(x)
		wl := make([][]int, len(ws))
		for i, y := range ws {
			wl[i] = intsOf(y)
		}
		nl, np, ok, _ := completionLine(r.ac, x)
		q = append(q, []any{intsOf(x), n, wl, b2i(ok), intsOf(nl), np})
	}
	_ = r.enc.Encode(map[string]any{"e": "ins", "w": intsOf(w), "mem": mem, "q": q})
	r.events++
}

var errC20Stop = fmt.Errorf("stop")

// c20FreshIndexProbe: a brand new index holding one word behaves as the set of that word ("" = it does).
func c20FreshIndexProbe() string {
	tr := trie.NewTrie()
	tr.Insert("q")
	if msg := trieObserve(tr, map[string]bool{"q": true}, []string{"q", "q ", "q(", "q  ", "qq", " "}, []string{"", "q", "q ", "q("}, map[string]int{}); msg != "" {
		return "a new index holding only \"q\": " + msg
	}
	return ""
}

func c20AllBytes() []int {
	a := make([]int, 256)
	for i := range a {
		a[i] = i
	}
	return a
}

// c20WideTraces: histories that fill the child table of one node: prefix + b + tail for all 256 bytes b.
func c20WideTraces(c *Ctx) *trieRecorder {
	type shape struct{ prefix, tail string }
	shapes := []shape{{"", ""}, {"v", "x"}, {"ab", ""}, {"", "yz"}}
	orders := []string{"ends-to-middle", "ascending", "random", "descending"}
	rec := newTrieRecorder()
	run := func(sh shape, order string) {
		bs := make([]byte, 256)
		for i := range bs {
			switch order {
			case "ascending", "random":
				bs[i] = byte(i)
			case "descending":
				bs[i] = byte(255 - i)
			default:
				if i%2 == 0 {
					bs[i] = byte(i / 2)
				} else {
					bs[i] = byte(255 - i/2)
				}
			}
		}
		if order == "random" {
			c.Rng.Shuffle(len(bs), func(i, j int) { bs[i], bs[j] = bs[j], bs[i] })
		}
		rec.reset()
		for _, b := range bs {
			w := sh.prefix + string([]byte{b}) + sh.tail
			ql := []string{sh.prefix, sh.prefix + string([]byte{b})}
			if sh.tail != "" {
				ql = append(ql, w)
			}
			if len(sh.prefix) > 1 {
				ql = append(ql, sh.prefix[:1])
			}
			ql = append(ql, w+"a")
			rec.insert(w, ql)
		}
		c.Case(fmt.Sprintf("tv-wide:%q:%q:%s:%x", sh.prefix, sh.tail, order, bs[:8]), true)
		c.AddTraces(1)
	}
	if c.Thorough() {
		for _, sh := range shapes {
			for _, o := range orders {
				run(sh, o)
			}
		}
	} else {
		k := c.Rng.Intn(len(orders))
		for i, sh := range shapes {
			run(sh, orders[(i+k)%len(orders)])
		}
	}
	return rec
}

func c20TraceOpt(traceBytes []byte, alpha []int) TLCOpt {
	return TLCOpt{Spec: "Trie_Trace", Cfg: trieCfg(alpha, 6, 1000, true, false, true), Workers: 1,
		Files: map[string][]byte{"trie_trace.ndjson": traceBytes}, AllowError: true}
}

// c20JudgeTrace: Trie_Trace.tla's verdict on a recorded trace; a rejection is a failing case (false = stop the check).
func c20JudgeTrace(c *Ctx, run func() (*TLCResult, error), traceBytes []byte, sig string) bool {
	r, err := run()
	if err != nil {
		c.Infra(err)
		return false
	}
	if r.ErrText == "" {
		return true
	}
	if !strings.Contains(r.Out, "TRACE_REJECTED_AT_LINE") {
		c.Infra(fmt.Errorf("Trie_Trace failed: %s", r.ErrText))
		return false
	}
	line := 0
	if i := strings.Index(r.Out, "TRACE_REJECTED_AT_LINE"); i >= 0 {
		fmt.Sscanf(strings.Trim(r.Out[i+len("TRACE_REJECTED_AT_LINE"):i+len("TRACE_REJECTED_AT_LINE")+14], "\", >\n"), "%d", &line)
	}
	lines := bytes.Split(traceBytes, []byte("\n"))
	// cut the rejected trace out (from its reset to the rejected line) for the replay file
	start := line - 1
	for start > 0 && !bytes.Contains(lines[start], []byte(`"reset"`)) {
		start--
	}
	var ws [][]int
	for _, ln := range lines[start:min(line, len(lines))] {
		var ev struct {
			W []int `json:"w"`
		}
		_ = json.Unmarshal(ln, &ev)
		if ev.W != nil {
			ws = append(ws, ev.W)
		}
	}
	c.Fail(sig, fmt.Sprintf("Trie_Trace rejected the recorded trace at line %d (after %d insertions of that trace)", line, len(ws)),
		map[string]any{"check": "tv", "inserts": ws})
	return true
}

// c20CorruptCompletion: the trace with the line returned by TAB made one byte shorter in the last event that has one.
func c20CorruptCompletion(trace []byte) ([]byte, error) {
	lines := bytes.Split(bytes.TrimRight(trace, "\n"), []byte("\n"))
	for i := len(lines) - 1; i >= 0; i-- {
		var ev map[string]json.RawMessage
		var q [][]json.RawMessage
		if json.Unmarshal(lines[i], &ev) != nil || json.Unmarshal(ev["q"], &q) != nil {
			continue
		}
		for k := len(q) - 1; k >= 0; k-- {
			var nl []int
			if len(q[k]) != 6 || json.Unmarshal(q[k][4], &nl) != nil || len(nl) == 0 {
				continue
			}
			q[k][4], _ = json.Marshal(nl[:len(nl)-1])
			ev["q"], _ = json.Marshal(q)
			lines[i], _ = json.Marshal(ev)
			return append(bytes.Join(lines, []byte("\n")), '\n'), nil
		}
	}
	return nil, fmt.Errorf("vacuous binding: no successful completion in the recorded traces")
}

func checkC20(c *Ctx) {
	t0 := time.Now()
	lap := func(what string) {
		c.Note("C20 phase %s: %.1fs", what, time.Since(t0).Seconds())
		t0 = time.Now()
	}
	c.Assume("fortio.org/terminal.Terminal{Out: buffer} is a faithful stand-in for the interactive terminal in the completion callback")
	// every TLC run of the check is started up front (a JVM start costs seconds) and joined where its result is needed
	type tlcFuture func() (*TLCResult, error)
	tlcSem := make(chan struct{}, 4)
	startTLC := func(o TLCOpt) tlcFuture {
		var r *TLCResult
		var err error
		done := make(chan struct{})
		go func() {
			defer close(done)
			tlcSem <- struct{}{}
			defer func() { <-tlcSem }()
			r, err = c.TLC(o)
		}()
		return func() (*TLCResult, error) { <-done; return r, err }
	}
	// 1. design-level non-vacuity: the spec of the code *before* the repair must violate MembershipOK.
	designRun := startTLC(TLCOpt{Spec: "Trie", Cfg: trieCfg([]int{97, 98}, 2, 6, false, false, false), Workers: 2, AllowError: true})
	// 2b (started here, judged below). TV, wide nodes: every one of the 256 byte values follows the same prefix (the child table
	// of one node fills up completely), inserted in several orders; after each insertion the words below the node, their common
	// prefix and what TAB returns are recorded. Judged by the same Trie_Trace.tla over the full byte alphabet.
	wide := c20WideTraces(c)
	wideRun := startTLC(c20TraceOpt(wide.buf.Bytes(), c20AllBytes()))

	// 2. TV: random longer histories on the real trie, validated by Trie_Trace.tla.
	alpha := []int{0, 97, 98, 255}
	nTraces := c.Pick(60, 600)
	rec := newTrieRecorder()
	for t := 0; t < nTraces; t++ {
		rec.reset()
		var inserted []string
		steps := 3 + c.Rng.Intn(8)
		for s := 0; s < steps; s++ {
			var w string
			if len(inserted) > 0 && c.Rng.Intn(3) == 0 { // prefix or extension of an earlier word
				o := inserted[c.Rng.Intn(len(inserted))]
				if c.Rng.Intn(2) == 0 && len(o) > 1 {
					w = o[:1+c.Rng.Intn(len(o)-1)]
				} else if len(o) < 5 {
					w = o + string([]byte{byte(alpha[c.Rng.Intn(len(alpha))])})
				} else {
					w = o
				}
			} else {
				n := 1 + c.Rng.Intn(5)
				b := make([]byte, n)
				for i := range b {
					b[i] = byte(alpha[c.Rng.Intn(len(alpha))])
				}
				w = string(b)
			}
			inserted = append(inserted, w)
			// queries: all prefixes of inserted words + a few random words
			qs := map[string]bool{"": true}
			for _, x := range inserted {
				for k := 1; k <= len(x); k++ {
					qs[x[:k]] = true
				}
				if len(x) < 5 {
					qs[x+"a"] = true
				}
			}
			var ql []string
			for q := range qs {
				ql = append(ql, q)
			}
			sort.Strings(ql)
			rec.insert(w, ql)
		}
		c.Case("tv:"+strings.Join(inserted, ","), true)
	}
	traceBytes := rec.buf.Bytes()
	tvRun := startTLC(c20TraceOpt(traceBytes, alpha))
	// 3 (started here). binding self-test: a corrupted observation must be rejected by the trace spec: a membership answer
	// flipped, and the line TAB returned made one byte shorter.
	badMem := bytes.Replace(traceBytes, []byte(`],1]`), []byte(`],0]`), 1)
	badTab, err := c20CorruptCompletion(traceBytes)
	if err != nil {
		c.Infra(err)
		return
	}
	badRuns := []tlcFuture{startTLC(c20TraceOpt(badMem, alpha)), startTLC(c20TraceOpt(badTab, alpha))}

	type space struct {
		alpha          []int
		maxLen, maxSet int
		names          []string // identifiers the evaluator records (Trie.tla Names); nil = plain insertions only
	}
	var spaces []space
	sessionAlpha := []int{32, 40, 97, 98} // two letters and the two suffixes record() appends
	if c.Thorough() {
		spaces = []space{{[]int{97, 98}, 3, 14, nil}, {[]int{0, 97, 255}, 2, 12, nil}, {[]int{97, 98, 99}, 2, 12, nil}, {[]int{0, 1, 254, 255}, 2, 5, nil},
			{sessionAlpha, 3, 12, []string{"a", "ab", "b", "ba"}}}
	} else {
		spaces = []space{{[]int{97, 98}, 3, 4, nil}, {[]int{0, 97, 255}, 2, 5, nil}, {sessionAlpha, 3, 4, []string{"a", "ab", "b"}}}
	}
	exhaustive := true
	genRuns := make([]tlcFuture, len(spaces))
	for i, sp := range spaces {
		genRuns[i] = startTLC(TLCOpt{Spec: "Trie", Cfg: trieCfg(sp.alpha, sp.maxLen, sp.maxSet, true, true, false, sp.names...), Workers: c.Pick(4, 8), Timeout: 0})
	}
	r, err := designRun()
	if err != nil {
		c.Infra(err)
		return
	}
	if r.InvViolated != "MembershipOK" {
		c.Infra(fmt.Errorf("sabotage run (MarkPrefixValid=FALSE) did not violate MembershipOK: %q\n%s", r.InvViolated, r.ErrText))
		return
	}
	c.Cov("design_counterexample_without_repair", "MembershipOK violated (word inserted after a longer word it prefixes)")
	for i, sp := range spaces {
		r, err := genRuns[i]()
		if err != nil {
			c.Infra(err)
			return
		}
		universe := allWords(sp.alpha, sp.maxLen, false)
		prefixes := allWords(sp.alpha, sp.maxLen, true)
		lap(fmt.Sprintf("GEN TLC %v", sp.names))
		n, recorded := 0, 0
		err = ReadLines(r.Emitted, func(line []byte) error {
			var g trieGenLine
			if err := json.Unmarshal(line, &g); err != nil {
				return err
			}
			n++
			set := map[string]bool{}
			for _, w := range g.Set {
				set[bytesOf(w)] = true
			}
			lcp := map[string]int{}
			for _, raw := range g.Lcp {
				var pr []json.RawMessage
				if err := json.Unmarshal(raw, &pr); err != nil {
					return err
				}
				var p []int
				var k int
				_ = json.Unmarshal(pr[0], &p)
				_ = json.Unmarshal(pr[1], &k)
				lcp[bytesOf(p)] = k
			}
			last := trieOp{g.Op, g.W}
			ts, err := trieReplayOps(g.H, last, nil)
			if err != nil {
				return err
			}
			// what RegisterTrie adds by itself (`info `) is in the index too: the predicted common prefix applies where no such word matches
			withBase := func(ts *trieSession) {
				for _, bw := range ts.base {
					set[bw] = true
					for p := range lcp {
						if strings.HasPrefix(bw, p) {
							delete(lcp, p)
						}
					}
				}
			}
			withBase(ts)
			if ts.st != nil {
				recorded++
			}
			key := fmt.Sprint(g.H, g.Op, g.W)
			c.Case(key, len(g.H) > 0)
			if n%5000 == 1 || (sp.names != nil && n%2000 == 77) {
				c.Sample(map[string]any{"witness_history": g.H, "op": g.Op, "word": g.W, "predicted_set": g.Set})
			}
			msg := trieObserveAC(ts.ac, set, universe, prefixes, lcp)
			if msg == "" && n%3 == 0 { // the same transition as a session with one long-lived completion object
				ts, err = trieReplayOps(g.H, last, prefixes)
				if err != nil {
					return err
				}
				withBase(ts)
				msg = trieObserveAC(ts.ac, set, universe, prefixes, lcp)
				// ... and TAB hit on the SAME input before and after the step (nothing else in between)
				target := bytesOf(g.W)
				for i := 0; msg == "" && i < len(prefixes); i++ {
					if !strings.HasPrefix(target, prefixes[i]) {
						continue
					}
					one := []string{prefixes[i]}
					ts, err = trieReplayOps(g.H, last, one)
					if err != nil {
						return err
					}
					msg = trieObserveAC(ts.ac, set, nil, one, lcp)
				}
			}
			if msg != "" {
				sig := "trie-mismatch"
				if g.Op != "ins" {
					sig = "trie-mismatch-after-recorded-definition"
				}
				// narrow signature of the pre-repair defect: the inserted word is a proper prefix of an earlier word
				for _, x := range g.H {
					if g.Op == "ins" && x.Op == "ins" && len(x.W) > len(g.W) && bytesOf(x.W)[:len(g.W)] == bytesOf(g.W) {
						sig = "trie-insert-prefix-of-existing-word"
					}
				}
				// all leaves of all tries of the process share one end marker: when a brand new index misbehaves after this history,
				// the history reached that shared node and nothing observed later in this process can be judged
				leak := c20FreshIndexProbe()
				if leak != "" {
					sig, msg = sig+"-and-leaks-into-new-indexes", msg+"; afterwards "+leak
				}
				c.Fail(sig, msg, map[string]any{"check": "gen", "alphabet": sp.alpha, "maxlen": sp.maxLen, "ops": append(append([]trieOp{}, g.H...), last)})
				if leak != "" {
					return errC20Stop
				}
			}
			return nil
		})
		if err == errC20Stop {
			c.Note("C20 stopped after the first history that changed the behaviour of indexes created afterwards (process-wide state of package trie)")
			return
		}
		if err != nil {
			c.Infra(err)
			return
		}
		if n == 0 {
			c.Infra(fmt.Errorf("Trie GEN emitted nothing"))
			return
		}
		if sp.names != nil && recorded == 0 {
			c.Infra(fmt.Errorf("vacuous: Trie GEN with Names=%v replayed no recorded definition", sp.names))
			return
		}
		c.AddTraces(int64(n))
		nWords := len(universe)
		if sp.names != nil {
			nWords = 3 * len(sp.names) // the session vocabulary: name, name + " ", name + "("
			c.Cov("recorded_definition_transitions", recorded)
		}
		full := 1
		for i := 0; i < nWords; i++ {
			full *= 2
			if full > 1<<30 {
				break
			}
		}
		if int64(full) != r.Distinct {
			exhaustive = false
		}
		c.Note("Trie GEN alphabet=%v maxlen=%d maxset=%d names=%v: %d states, %d transitions replayed", sp.alpha, sp.maxLen, sp.maxSet, sp.names, r.Distinct, n)
		lap(fmt.Sprintf("GEN %v", sp.names))
	}
	c.Cov("exhaustive", exhaustive)

	if !c20JudgeTrace(c, tvRun, traceBytes, "trie-trace-rejected") {
		return
	}
	c.AddTraces(int64(nTraces))
	c.Cov("tv_events", rec.events)
	lap("TV random")
	if !c20JudgeTrace(c, wideRun, wide.buf.Bytes(), "trie-trace-rejected-wide-node") {
		return
	}
	c.Cov("tv_wide_node_events", wide.events)
	lap("TV wide")
	for i, f := range badRuns {
		r, err := f()
		if err != nil {
			c.Infra(err)
			return
		}
		if !strings.Contains(r.Out, "TRACE_REJECTED_AT_LINE") {
			c.Infra(fmt.Errorf("vacuous binding: corrupted trie trace (%s) was accepted", []string{"membership answer flipped", "completion line cut"}[i]))
			return
		}
	}
	c.Cov("sabotage_rejected", true)
	lap("self-test")
	c20EvalFed(c)
}

func replayC20(rp map[string]any) (bool, string) {
	if rp["check"] == "evalfed" {
		var sess []string
		b, _ := json.Marshal(rp["session"])
		_ = json.Unmarshal(b, &sess)
		if _, bad := c20EvalFedSession(nil, 0, sess); bad != "" {
			return false, bad
		}
		return true, ""
	}
	toWords := func(v any) [][]int {
		var res [][]int
		b, _ := json.Marshal(v)
		_ = json.Unmarshal(b, &res)
		return res
	}
	var ops []trieOp
	if rp["check"] == "gen" && rp["ops"] != nil {
		b, _ := json.Marshal(rp["ops"])
		_ = json.Unmarshal(b, &ops)
	} else if rp["check"] == "gen" { // replay files written before histories had recorded definitions
		for _, w := range toWords(rp["h"]) {
			ops = append(ops, trieOp{"ins", w})
		}
		var w []int
		b, _ := json.Marshal(rp["w"])
		_ = json.Unmarshal(b, &w)
		ops = append(ops, trieOp{"ins", w})
	} else {
		for _, w := range toWords(rp["inserts"]) {
			ops = append(ops, trieOp{"ins", w})
		}
	}
	if len(ops) == 0 {
		return false, "bad replay file: no history"
	}
	ts, err := trieReplayOps(ops[:len(ops)-1], ops[len(ops)-1], nil)
	if err != nil {
		return false, err.Error()
	}
	tr := ts.ac.Trie
	set := map[string]bool{}
	universe := map[string]bool{}
	add := func(s string) {
		set[s] = true
		for k := 1; k <= len(s); k++ {
			universe[s[:k]] = true
		}
		for _, suf := range []string{" ", "(", "  ", " ("} { // what a definition appends, once more than it should
			universe[s+suf] = true
		}
	}
	for _, o := range ops {
		s := bytesOf(o.W)
		add(s)
		if o.Op == "var" {
			add(s + " ")
		} else if o.Op == "func" {
			add(s + "(")
		}
	}
	for _, bw := range ts.base {
		add(bw)
	}
	var u, p []string
	p = append(p, "")
	for w := range universe {
		u = append(u, w)
		p = append(p, w)
	}
	msg := trieObserve(tr, set, u, p, map[string]int{})
	return msg == "", msg
}
