package main

// Core plumbing of the verification harness: check context, evidence, replay files,
// known-findings ledger, TLC runner. Exit codes: 0 held, 1 violation, 2 infrastructure.

import (
	"bufio"
	"bytes"
	"context"
	"crypto/sha1"
	"encoding/hex"
	"encoding/json"
	"fmt"
	"io"
	"math/rand"
	"os"
	"os/exec"
	"path/filepath"
	"regexp"
	"sort"
	"strconv"
	"strings"
	"sync"
	"syscall"
	"time"
)

const (
	tlaJar  = "/opt/veriftools/tla/tla2tools.jar"
	commJar = "/opt/veriftools/tla/CommunityModules-deps.jar"
)

// verifDir is the root of the verification tree (exported by ./check as VERIF_DIR).
var verifDir = func() string {
	if d := os.Getenv("VERIF_DIR"); d != "" {
		return d
	}
	return "/verif"
}()

var overrides = verifDir + "/.build/overrides"

type Finding struct {
	Property string `json:"property"`
	ID       string `json:"id"`     // signature: the named feature predicate / call site / reproducer id
	Status   string `json:"status"` // "known" or "fixed"
	Commit   string `json:"commit,omitempty"`
	What     string `json:"what"`
	Repro    string `json:"repro,omitempty"`
}

type Ctx struct {
	Prop  string
	Tier  string
	Seed  int64
	Rng   *rand.Rand
	Start time.Time

	mu         sync.Mutex
	cov        map[string]any
	samples    []any
	assume     []string
	states     int64
	trans      int64
	traces     int64
	evals      int64
	distinct   map[string]struct{}
	violations []string          // replay paths
	knownSeen  map[string]int    // finding id -> count
	knownWhat  map[string]string // finding id -> what
	ledger     []Finding
	notes      []string
	tlcCmds    []string
	scratch    string
	infra      error
}

func NewCtx(prop, tier string) *Ctx {
	seed := int64(1)
	if s := os.Getenv("VERIF_SEED"); s != "" {
		if v, err := strconv.ParseInt(s, 10, 64); err == nil {
			seed = v
		}
	}
	c := &Ctx{
		Prop: prop, Tier: tier, Seed: seed, Rng: rand.New(rand.NewSource(seed)), Start: time.Now(),
		cov: map[string]any{}, distinct: map[string]struct{}{}, knownSeen: map[string]int{}, knownWhat: map[string]string{},
	}
	b, err := os.ReadFile(filepath.Join(verifDir, "known_findings.json"))
	if err == nil {
		var all []Finding
		if err := json.Unmarshal(b, &all); err != nil {
			c.infra = fmt.Errorf("known_findings.json: %w", err)
		}
		for _, f := range all {
			if f.Property == prop {
				c.ledger = append(c.ledger, f)
			}
		}
	}
	d, err := os.MkdirTemp("", "verif-"+prop+"-")
	if err != nil {
		c.infra = err
	}
	c.scratch = d
	// programs under test write into the current directory (image.save -> grol.png, save() -> .gr): not into /verif
	if wd := filepath.Join(d, "cwd"); os.MkdirAll(wd, 0o755) == nil {
		_ = os.Chdir(wd)
	}
	return c
}

func (c *Ctx) Thorough() bool { return c.Tier == "thorough" }

// Pick returns q in quick tier and t in thorough tier.
func (c *Ctx) Pick(q, t int) int {
	if c.Thorough() {
		return t
	}
	return q
}

func (c *Ctx) Scratch() string { return c.scratch }

func (c *Ctx) Infra(err error) {
	c.mu.Lock()
	defer c.mu.Unlock()
	if c.infra == nil {
		c.infra = err
	}
}

func (c *Ctx) Note(format string, a ...any) {
	c.mu.Lock()
	defer c.mu.Unlock()
	c.notes = append(c.notes, fmt.Sprintf(format, a...))
}

func (c *Ctx) Assume(s string) { c.assume = append(c.assume, s) }

func (c *Ctx) Cov(key string, v any) {
	c.mu.Lock()
	defer c.mu.Unlock()
	c.cov[key] = v
}

func (c *Ctx) CovAdd(key string, n int64) {
	c.mu.Lock()
	defer c.mu.Unlock()
	old, _ := c.cov[key].(int64)
	c.cov[key] = old + n
}

func (c *Ctx) Sample(v any) {
	c.mu.Lock()
	defer c.mu.Unlock()
	if len(c.samples) < 8 {
		c.samples = append(c.samples, v)
	}
}

// Case counts one executed case; key identifies it for the distinct count; nontrivial says
// whether it counts as non-trivial by the check's stated rule.
func (c *Ctx) Case(key string, nontrivial bool) {
	c.mu.Lock()
	defer c.mu.Unlock()
	c.evals++
	if nontrivial {
		h := sha1.Sum([]byte(key))
		c.distinct[string(h[:8])] = struct{}{}
	}
}

func (c *Ctx) AddTraces(n int64) {
	c.mu.Lock()
	defer c.mu.Unlock()
	c.traces += n
}

// Fail records a failing case. sig is the narrow feature signature used to match the
// known-findings ledger; a case whose signature is not a listed *known* finding is a violation.
func (c *Ctx) Fail(sig string, what string, replay map[string]any) {
	c.mu.Lock()
	defer c.mu.Unlock()
	for _, f := range c.ledger {
		if f.Status == "known" && f.ID == sig {
			c.knownSeen[sig]++
			c.knownWhat[sig] = f.What
			return
		}
	}
	if len(c.violations) >= 20 {
		if len(c.violations) == 20 {
			fmt.Printf("(further violations of %s are counted but not listed)\n", c.Prop)
		}
		c.violations = append(c.violations, "")
		return
	}
	replay["property"] = c.Prop
	replay["tier"] = c.Tier
	replay["seed"] = c.Seed
	replay["signature"] = sig
	replay["what"] = what
	b, _ := json.MarshalIndent(replay, "", " ")
	h := sha1.Sum(b)
	_ = os.MkdirAll(filepath.Join(verifDir, "replays"), 0o755)
	p := filepath.Join(verifDir, "replays", c.Prop+"-"+hex.EncodeToString(h[:6])+".json")
	_ = os.WriteFile(p, b, 0o644)
	c.violations = append(c.violations, p)
	fmt.Printf("VIOLATION property=%s replay=%s\n", c.Prop, p)
	fmt.Printf("  signature=%s: %s\n", sig, what)
}

func (c *Ctx) NumViolations() int { return len(c.violations) }

// Failed reports whether a violation or an infrastructure problem has been recorded so far.
func (c *Ctx) Failed() bool {
	c.mu.Lock()
	defer c.mu.Unlock()
	return c.infra != nil || len(c.violations) > 0
}

type evidence struct {
	PropertyID  string         `json:"property_id"`
	Tier        string         `json:"tier"`
	Seed        int64          `json:"seed"`
	Level       string         `json:"level"`
	Coverage    map[string]any `json:"coverage"`
	Assumptions []string       `json:"assumptions"`
	WallS       float64        `json:"wall_s"`
	Violations  int            `json:"violations"`
}

// Finish writes the evidence file and returns the exit code.
func (c *Ctx) Finish(rule string) int {
	defer os.RemoveAll(c.scratch)
	markFinished() // (the check reached its end: whatever its children wrote to stderr, this process did not die)
	if c.infra != nil {
		fmt.Fprintf(os.Stderr, "INFRASTRUCTURE property=%s: %v\n", c.Prop, c.infra)
		if len(c.violations) > 0 {
			return 1 // violations already reported (and reproduced on the real code) stay violations
		}
		return 2
	}
	ids := make([]string, 0, len(c.knownSeen))
	for id := range c.knownSeen {
		ids = append(ids, id)
	}
	sort.Strings(ids)
	kf := map[string]any{}
	for _, id := range ids {
		fmt.Printf("KNOWN-FINDING: property=%s %s: %s (%d cases)\n", c.Prop, id, c.knownWhat[id], c.knownSeen[id])
		kf[id] = c.knownSeen[id]
	}
	cov := c.cov
	cov["states"] = c.states
	cov["transitions"] = c.trans
	cov["traces_validated_against_impl"] = c.traces
	cov["evaluations"] = c.evals
	cov["distinct_nontrivial"] = len(c.distinct)
	cov["rule"] = rule
	if len(c.samples) == 0 {
		c.samples = append(c.samples, "(no sample recorded)")
	}
	cov["samples"] = c.samples
	cov["known_findings_seen"] = kf
	cov["checker_cmd"] = strings.Join(c.tlcCmds, " ;; ")
	cov["trusted_base"] = []string{
		"TLC 1.8.0 (tla2tools.jar)", "tlc2.module.GrolPrims Java override (machine arithmetic, Go formatting, Emit)",
		"Go harness /verif/harness (drivers over grol's public API)",
	}
	if len(c.notes) > 0 {
		cov["notes"] = c.notes
	}
	ev := evidence{
		PropertyID: c.Prop, Tier: c.Tier, Seed: c.Seed, Level: "model_checking", Coverage: cov,
		Assumptions: append([]string{"scalar primitives evaluated by the GrolPrims override are correct"}, c.assume...),
		WallS:       time.Since(c.Start).Seconds(), Violations: len(c.violations),
	}
	if (c.states < 1 || c.trans < 1) && len(c.violations) == 0 {
		fmt.Fprintf(os.Stderr, "INFRASTRUCTURE property=%s: no TLC states recorded\n", c.Prop)
		return 2
	}
	b, _ := json.MarshalIndent(ev, "", " ")
	_ = os.MkdirAll(filepath.Join(verifDir, "evidence"), 0o755)
	if err := os.WriteFile(filepath.Join(verifDir, "evidence", c.Prop+".json"), b, 0o644); err != nil {
		fmt.Fprintf(os.Stderr, "INFRASTRUCTURE: %v\n", err)
		return 2
	}
	fmt.Printf("%s %s seed=%d: states=%d transitions=%d traces=%d cases=%d distinct_nontrivial=%d known=%d violations=%d wall=%.1fs\n",
		c.Prop, c.Tier, c.Seed, c.states, c.trans, c.traces, c.evals, len(c.distinct), len(c.knownSeen), len(c.violations), ev.WallS)
	if len(c.violations) > 0 {
		return 1
	}
	return 0
}

// ---------------------------------------------------------------------------------- TLC

type TLCOpt struct {
	Spec     string            // module name (file Spec.tla in /verif/spec)
	Cfg      string            // cfg text (written to Spec.cfg in the scratch copy)
	Workers  int               // default 1
	Timeout  time.Duration     // default 10 min
	Files    map[string][]byte // extra files placed next to the spec (trace inputs)
	Simulate string            // e.g. "num=100" -> -simulate num=100
	Depth    int
	Coverage bool
	Deadlock bool // check deadlock (default off)
	Heap     string
	Seed     int64
	DFID     int
	// ExpectViolation: TLC is expected to stop with an invariant violation (sabotage / deviation runs).
	AllowError bool
}

type TLCResult struct {
	Out         string
	Generated   int64
	Distinct    int64
	Emitted     string // path to emitted ndjson (may not exist)
	Dir         string
	InvViolated string // name of violated invariant/property if any
	ErrText     string
	Wall        time.Duration
	Coverage    map[string]int64
}

var (
	reStates   = regexp.MustCompile(`(\d+) states generated, (\d+) distinct states found`)
	reInv      = regexp.MustCompile(`Invariant (\S+) is violated|Action property (\S+) is violated|Temporal properties were violated|Deadlock reached`)
	reTemporal = regexp.MustCompile(`Temporal property (\S+) was violated`)
	reSim      = regexp.MustCompile(`(\d+) states checked`)
)

func copySpecDir(dst string) error {
	ents, err := os.ReadDir(filepath.Join(verifDir, "spec"))
	if err != nil {
		return err
	}
	for _, e := range ents {
		if e.IsDir() || !(strings.HasSuffix(e.Name(), ".tla")) {
			continue
		}
		b, err := os.ReadFile(filepath.Join(verifDir, "spec", e.Name()))
		if err != nil {
			return err
		}
		if err := os.WriteFile(filepath.Join(dst, e.Name()), b, 0o644); err != nil {
			return err
		}
	}
	return nil
}

var tlcSeq int

func (c *Ctx) TLC(o TLCOpt) (*TLCResult, error) {
	c.mu.Lock()
	tlcSeq++
	dir := filepath.Join(c.scratch, fmt.Sprintf("tlc%d", tlcSeq))
	c.mu.Unlock()
	if err := os.MkdirAll(dir, 0o755); err != nil {
		return nil, err
	}
	if err := copySpecDir(dir); err != nil {
		return nil, err
	}
	for name, b := range o.Files {
		if err := os.WriteFile(filepath.Join(dir, name), b, 0o644); err != nil {
			return nil, err
		}
	}
	if err := os.WriteFile(filepath.Join(dir, o.Spec+".cfg"), []byte(o.Cfg), 0o644); err != nil {
		return nil, err
	}
	if o.Workers <= 0 {
		o.Workers = 1
	}
	if o.Timeout == 0 {
		o.Timeout = 10 * time.Minute
	}
	if o.Heap == "" {
		o.Heap = "6g"
	}
	emit := filepath.Join(dir, "emit.ndjson")
	args := []string{
		"-XX:+UseParallelGC", "-Xss512m", "-Dfile.encoding=UTF-8", "-Xmx" + o.Heap, "-Dverif.emit=" + emit, "-Dverif.dir=" + dir,
		"-Djava.io.tmpdir=" + dir, // TLC leaves a tlc-<n> directory per run in the JVM's temp dir: inside the scratch, removed with it
		"-cp", tlaJar + ":" + commJar + ":" + overrides, "tlc2.TLC",
		"-config", o.Spec + ".cfg", "-workers", strconv.Itoa(o.Workers), "-metadir", filepath.Join(dir, "meta"), "-nowarning",
	}
	if !o.Deadlock {
		args = append(args, "-deadlock")
	}
	if o.Coverage {
		args = append(args, "-coverage", "1")
	}
	if o.Simulate != "" {
		args = append(args, "-simulate", o.Simulate)
		if o.Depth > 0 {
			args = append(args, "-depth", strconv.Itoa(o.Depth))
		}
		if o.Seed != 0 {
			args = append(args, "-seed", strconv.FormatInt(o.Seed, 10))
		}
	}
	args = append(args, o.Spec+".tla")
	ctx, cancel := context.WithTimeout(context.Background(), o.Timeout)
	defer cancel()
	cmd := exec.CommandContext(ctx, "java", args...)
	cmd.SysProcAttr = &syscall.SysProcAttr{Pdeathsig: syscall.SIGKILL} // no orphaned JVM if the harness is killed
	cmd.Dir = dir
	var out bytes.Buffer
	cmd.Stdout = &out
	cmd.Stderr = &out
	t0 := time.Now()
	err := cmd.Run()
	res := &TLCResult{Out: out.String(), Emitted: emit, Dir: dir, Wall: time.Since(t0)}
	c.mu.Lock()
	c.tlcCmds = append(c.tlcCmds, fmt.Sprintf("tlc -config %s.cfg -workers %d %s %s.tla", o.Spec, o.Workers, o.Simulate, o.Spec))
	c.mu.Unlock()
	if ctx.Err() != nil {
		return res, fmt.Errorf("TLC %s timed out after %v", o.Spec, o.Timeout)
	}
	if m := reStates.FindAllStringSubmatch(res.Out, -1); len(m) > 0 {
		last := m[len(m)-1]
		res.Generated, _ = strconv.ParseInt(last[1], 10, 64)
		res.Distinct, _ = strconv.ParseInt(last[2], 10, 64)
	} else if m := reSim.FindAllStringSubmatch(res.Out, -1); len(m) > 0 {
		res.Generated, _ = strconv.ParseInt(m[len(m)-1][1], 10, 64)
		res.Distinct = res.Generated
	}
	if m := reInv.FindStringSubmatch(res.Out); m != nil {
		res.InvViolated = m[1] + m[2]
		if res.InvViolated == "" {
			res.InvViolated = m[0]
		}
	}
	if m := reTemporal.FindStringSubmatch(res.Out); m != nil {
		res.InvViolated = m[1]
	}
	if o.Coverage {
		res.Coverage = parseCoverage(res.Out)
	}
	failed := err != nil || strings.Contains(res.Out, "Error:")
	if failed {
		idx := strings.Index(res.Out, "Error:")
		if idx < 0 {
			idx = 0
		}
		end := idx + 3000
		if end > len(res.Out) {
			end = len(res.Out)
		}
		res.ErrText = res.Out[idx:end]
		if strings.Contains(res.Out, "Parsing or semantic analysis failed") || strings.Contains(res.Out, "Semantic errors:") {
			return res, fmt.Errorf("TLC %s: the specification does not parse:\n%s", o.Spec, res.ErrText) // never an accepted "error" outcome
		}
		if !o.AllowError {
			return res, fmt.Errorf("TLC %s failed: %v\n%s", o.Spec, err, res.ErrText)
		}
	}
	if !failed || res.InvViolated != "" {
		c.mu.Lock()
		c.states += res.Distinct
		c.trans += res.Generated
		c.mu.Unlock()
	}
	return res, nil
}

var reCov = regexp.MustCompile(`^<(\w+) line \d+, col \d+ to line \d+, col \d+ of module (\w+)>: (\d+):(\d+)`)

func parseCoverage(out string) map[string]int64 {
	m := map[string]int64{}
	for _, ln := range strings.Split(out, "\n") {
		if g := reCov.FindStringSubmatch(ln); g != nil {
			n, _ := strconv.ParseInt(g[4], 10, 64)
			m[g[1]] += n
		}
	}
	return m
}

// ReadLines streams an ndjson file, calling f for every line.
func ReadLines(path string, f func(line []byte) error) error {
	fh, err := os.Open(path)
	if err != nil {
		return err
	}
	defer fh.Close()
	rd := bufio.NewReaderSize(fh, 1<<20)
	for {
		line, err := rd.ReadBytes('\n')
		if len(bytes.TrimSpace(line)) > 0 {
			if e := f(bytes.TrimSpace(line)); e != nil {
				return e
			}
		}
		if err == io.EOF {
			return nil
		}
		if err != nil {
			return err
		}
	}
}

func jstr(v any) string {
	b, _ := json.Marshal(v)
	return string(b)
}

// tlaStr renders a Go string as a TLA+ string literal (ASCII printable only; callers use JSON files for the rest).
func tlaStr(s string) string {
	var sb strings.Builder
	sb.WriteByte('"')
	for _, r := range s {
		switch r {
		case '"':
			sb.WriteString(`\"`)
		case '\\':
			sb.WriteString(`\\`)
		default:
			sb.WriteRune(r)
		}
	}
	sb.WriteByte('"')
	return sb.String()
}
