package main

// C10 - a failed input leaves no trace in the session (spec/Session.tla, spec/Equiv_Trace.tla).

import (
	"bytes"
	"encoding/json"
	"fmt"
	"math/rand"
	"sort"
	"strings"
	"time"
)

func init() {
	props["C10"] = propDef{check: checkC10, replay: replayC10,
		rule: "case = one session history (TLC-explored interleaving of good inputs with bursts of failing side-effect-free inputs of every failure kind) replayed through repl.EvalOne on one persistent state and compared, good input by good input, with the real run of the same history without the failing inputs; distinct by source text; non-trivial when at least one failing input precedes a good input"}
}

var c10Prelude = []string{
	"g = 0",
	"fadd = func(a, b) {a + b}",
	`ferr = func(n) {if n == 0 {error("deep failure")}; for fi = 2 {ferr(n - 1)}}`,
	"fdeep = func(n) {fdeep(n + 1) + 1}",
	"fpanic = func() {fadd(1, fdeep(1))}",
	"fbig = func() {len([1] * 4000000000000)}",
	"fcount = func(n) {if n <= 0 {return 0}; 1 + fcount(n - 1)}",
	"KC = 1", "fconst = func(KC) {KC}",
	// loop variables of the failing loops: bound beforehand to the value they have when the loop fails (first iteration), so
	// that the failing input completes no side effect (a loop assigns its variable like `=`, with or without registers)
	"li = 0", "lj = 0",
	`fnoisy = func(n) {println("noisy", n); fdeep(1)}`,
	"bm = {}", "for bi = 400 {bm[bi] = bi}",
	"mgood = macro(x) {quote(unquote(x) + 1)}",
	"mboom = macro(x) {func boom(n) {boom(n + 1)}; boom(0); quote(unquote(x))}",
	`merr = macro(x) {error("in macro body")}`,
	"mloop = macro(x) {for true {}}",
	// pure and recursive, slow on the way back up (the levels below the one where a deadline expires have completed)
	"fslow = func(n) {if n == 0 {return 0}; r = self(n - 1); for si = 20000 {}; r + 1}",
	"fbrk = func() {break}", "fcnt = func(x) {if x > 0 {continue}; x}", "fbrk2 = func() {fbrk()}",
	// a path under construction on an image of the session (the image table belongs to the process: every session makes its own)
	`image.new("c10s", 8, 8); image.move_to("c10s", 1, 1); image.line_to("c10s", 6, 1); 0`,
}

// c10DeepN: the largest n for which fcount(n) works in a fresh session with the harness' depth limit, minus a margin of
// one call; calibrated once per run on the tree under test (the depth cost of a call is not part of the property).
var c10DeepN = -1

func c10Calibrate() int {
	opt := RunOpt{MaxDepth: 300, Timeout: 2 * time.Second}
	lo, hi := 1, 300
	for lo < hi {
		mid := (lo + hi + 1) / 2
		obs, _ := runHistory(append(append([]string{}, c10Prelude...), fmt.Sprintf("println(fcount(%d))", mid)), opt)
		if !obs[len(obs)-1].Err {
			lo = mid
		} else {
			hi = mid - 1
		}
	}
	return lo - 1
}

func c10Good(kind string, i int) string {
	switch kind {
	case "print":
		return fmt.Sprintf(`println("p%d", g)`, i)
	case "loop":
		return fmt.Sprintf(`for i = 3 {println("l%d", i)}`, i)
	case "call":
		return fmt.Sprintf(`println("c%d", fadd(g, %d))`, i, i)
	case "define":
		return fmt.Sprintf(`func fnew%d(x) {x * g}; println(fnew%d(2))`, i, i)
	case "loopvar":
		return fmt.Sprintf(`for k%d = 2 {}; println("v%d", catch(k%d).err)`, i, i, i)
	case "deep":
		return fmt.Sprintf(`println("d%d", fcount(%d))`, i, c10DeepN)
	case "macro":
		return fmt.Sprintf(`println("m%d", mgood(%d), mgood(g))`, i, i)
	case "imgdraw":
		return fmt.Sprintf(`image.line_to("c10s", 6, %d); image.draw("c10s", [255, 0, 0]); println("i%d", base64(image.png("c10s")))`, 3+i%4, i)
	case "slowcall":
		return fmt.Sprintf(`println("s%d", fslow(%d))`, i, 20+10*(i%5)) // (an argument the earlier slowcalls have not computed yet)
	default:
		return "g = g + 1; println(g)"
	}
}

func c10Fail(kind string) string {
	switch kind {
	case "err-nested-calls":
		return "ferr(3)"
	case "err-in-top-loop":
		return `for li = 3 {error("in loop")}`
	case "err-in-nested-loops":
		return `for li = 3 {for lj = 2 {ferr(1)}}`
	case "panic-in-function":
		return "fpanic()"
	case "depth-overflow":
		return "fdeep(1)"
	case "memory-guard":
		return "fbig()"
	case "panic-in-top-loop":
		return "for li = 2 {fdeep(1)}"
	case "memory-guard-top-level":
		return "[1, 2] * 4000000000000"
	case "depth-overflow-expression":
		return strings.Repeat("-(", 400) + "1" + strings.Repeat(")", 400)
	case "print-then-panic-in-function":
		return "fnoisy(1)"
	case "depth-overflow-in-library-function":
		return "keys(bm)"
	case "depth-overflow-in-eval":
		return `eval("fdeep(1)")`
	case "panic-in-eval":
		return `eval("fadd(1, fadd(2, [1, 2] * 4000000000000))")`
	case "arity-error-top-call":
		return "fadd(1)"
	case "param-bind-error-top-call":
		return "fconst(2)"
	case "depth-overflow-in-macro-body":
		return "mboom(1)"
	case "error-in-macro-body":
		return "merr(1)"
	case "deadline-in-macro-body":
		return "mloop(1)"
	case "failing-draw-mid-path":
		return `image.draw("c10s", [300, 0, 0])`
	case "failing-segment-mid-path":
		return `image.cube_to("c10s", 1, 1, 1e30, 1, 1, 1)`
	case "parse-error":
		return "g = 1 +* 2 )"
	case "parse-error-unterminated":
		return `g = "abc`
	case "parse-error-too-deep":
		return strings.Repeat("(", 10001) + "1" + strings.Repeat(")", 10001)
	case "break-reaches-function-end":
		return "fbrk2()"
	case "continue-reaches-function-end-in-loop":
		return "for li = 2 {fcnt(1)}"
	case "deadline-in-pure-recursion":
		return "fslow(80) " + c10ShortMark
	default: // deadline
		return "for true {}"
	}
}

// the input that must hit its deadline inside fslow runs under a short one (c10Short), so that the later fslow(30) of a
// good input is far from the ordinary deadline
const c10ShortMark = "/* short deadline */"
const c10Short = 6 * time.Millisecond

type c10Op struct {
	Kind string
	K    string
	N    int
}

func parseSessOps(raw [][]any) []c10Op {
	var ops []c10Op
	for _, r := range raw {
		n, _ := r[2].(float64)
		ops = append(ops, c10Op{Kind: r[0].(string), K: r[1].(string), N: int(n)})
	}
	return ops
}

// c10Inputs builds the full history and marks which inputs are failing ones.
func c10Inputs(ops []c10Op) (inputs []string, failing []bool) {
	for _, p := range c10Prelude {
		inputs = append(inputs, p)
		failing = append(failing, false)
	}
	for i, op := range ops {
		if op.Kind == "good" {
			inputs = append(inputs, c10Good(op.K, i))
			failing = append(failing, false)
		} else {
			for j := 0; j < op.N; j++ {
				inputs = append(inputs, c10Fail(op.K))
				failing = append(failing, true)
			}
		}
	}
	inputs = append(inputs, `println("end", g)`)
	failing = append(failing, false)
	return
}

func c10Run(inputs []string, failing []bool) (with, without []inObs, failedAsExpected bool, globalsEq bool) {
	opt := RunOpt{MaxDepth: 300, Timeout: 400 * time.Millisecond, ShortFor: c10ShortMark, Short: c10Short}
	all, s1 := runHistory(inputs, opt)
	var kept []string
	failedAsExpected = true
	for i, in := range inputs {
		if failing[i] {
			// (repeating the input that runs out of time inside fslow gets further each time: the levels it completed are
			// remembered, legitimately; it is only required to fail the first time, see the calibration)
			if !all[i].Err && !strings.Contains(in, c10ShortMark) {
				failedAsExpected = false
			}
			continue
		}
		kept = append(kept, in)
		with = append(with, all[i])
	}
	var s2obs []inObs
	s2obs, s2 := runHistory(kept, opt)
	without = s2obs
	var b1, b2 bytes.Buffer
	_, _ = s1.SaveGlobals(&b1)
	_, _ = s2.SaveGlobals(&b2)
	globalsEq = b1.String() == b2.String()
	return
}

func c10Sig(ops []c10Op) string {
	for _, op := range ops {
		if op.Kind == "fail" {
			return "failed-input-visible-after-" + op.K
		}
	}
	return "failed-input-visible"
}

func checkC10(c *Ctx) {
	c10DeepN = c10Calibrate()
	if c10DeepN < 20 {
		c.Infra(fmt.Errorf("depth calibration failed: fcount(%d)", c10DeepN))
		return
	}
	c.Cov("deep_recursion_n", c10DeepN)
	cfg := func(maxOps int, bursts string, dev [7]bool, emit bool) string {
		b := func(x bool) string {
			if x {
				return "TRUE"
			}
			return "FALSE"
		}
		return fmt.Sprintf("CONSTANTS\n NumRegisters = 8\n MaxOps = %d\n Bursts = %s\n WriterRestored = %s\n LoopReleases = %s\n MacroStateFresh = %s\n DepthBalanced = %s\n ParserFresh = %s\n ErrorsNotCached = %s\n RefusedCallIsNoOp = %s\n EmitOn = %s\nINIT Init\nNEXT Next\nVIEW view\nINVARIANT FailureIsInvisible\n",
			maxOps, bursts, b(dev[0]), b(dev[1]), b(dev[2]), b(dev[3]), b(dev[4]), b(dev[5]), b(dev[6]), b(emit))
	}
	allTrue := [7]bool{true, true, true, true, true, true, true}
	for d := 0; d < 7; d++ {
		dev := allTrue
		dev[d] = false
		r, err := c.TLC(TLCOpt{Spec: "Session", Cfg: cfg(3, "{1, 9}", dev, false), Workers: 2, AllowError: true})
		if err != nil {
			c.Infra(err)
			return
		}
		if r.InvViolated != "FailureIsInvisible" {
			c.Infra(fmt.Errorf("Session.tla with deviation %v did not violate FailureIsInvisible (vacuous model): %s", dev, r.ErrText))
			return
		}
	}
	c.Cov("design_counterexamples", "WriterRestored, LoopReleases, MacroStateFresh, DepthBalanced, ParserFresh, ErrorsNotCached, RefusedCallIsNoOp = FALSE each violate FailureIsInvisible")
	r, err := c.TLC(TLCOpt{Spec: "Session", Cfg: cfg(3, "{1, 9}", allTrue, true), Workers: 1})
	if err != nil {
		c.Infra(err)
		return
	}
	type hcase struct {
		ops    []c10Op
		inputs []string
		fail   []bool
	}
	var cases []hcase
	seen := map[string]bool{}
	n := 0
	deadlineBudget := c.Pick(40, 300) // histories containing the (slow) deadline failure
	stride := c.Pick(24, 3) // (histories of 3 operations in both tiers: 4 operations over 27 failure kinds are 12 million behaviours, 80 minutes of TLC output)
	err = ReadLines(r.Emitted, func(line []byte) error {
		var g struct {
			H [][]any `json:"h"`
		}
		if err := json.Unmarshal(line, &g); err != nil {
			return err
		}
		n++
		if (n+int(c.Seed))%stride != 0 {
			return nil
		}
		ops := parseSessOps(g.H)
		dl := 0
		for _, op := range ops {
			if op.Kind == "fail" && (op.K == "deadline" || op.K == "deadline-in-macro-body" || op.K == "parse-error-too-deep") {
				dl += op.N
			}
		}
		if dl > 2 {
			return nil
		}
		if dl > 0 {
			if deadlineBudget <= 0 {
				return nil
			}
			deadlineBudget--
		}
		in, fl := c10Inputs(ops)
		key := strings.Join(in, "\n")
		if seen[key] {
			return nil
		}
		seen[key] = true
		cases = append(cases, hcase{ops, in, fl})
		return nil
	})
	if err != nil {
		c.Infra(err)
		return
	}
	c.Cov("histories_emitted", n)
	// every failure kind followed by every kind of good input, never sampled out: a burst of 1, 2 and 9 failing inputs, then the
	// good input (slow failure kinds: once and twice)
	allGoods := []string{"print", "loop", "call", "define", "incr", "loopvar", "deep", "macro", "slowcall", "imgdraw"}
	allFails := []string{"err-nested-calls", "err-in-top-loop", "err-in-nested-loops", "panic-in-function", "depth-overflow", "deadline", "memory-guard", "panic-in-top-loop",
		"memory-guard-top-level", "depth-overflow-expression", "arity-error-top-call", "param-bind-error-top-call", "depth-overflow-in-macro-body", "error-in-macro-body",
		"deadline-in-macro-body", "print-then-panic-in-function", "depth-overflow-in-library-function", "depth-overflow-in-eval", "panic-in-eval", "parse-error",
		"parse-error-unterminated", "parse-error-too-deep", "break-reaches-function-end", "continue-reaches-function-end-in-loop", "deadline-in-pure-recursion",
		"failing-draw-mid-path", "failing-segment-mid-path"}
	pairs := 0
	for _, fk := range allFails {
		bursts := []int{1, 2, 9}
		if strings.HasPrefix(fk, "deadline") || fk == "parse-error-too-deep" {
			bursts = []int{1, 2}
		}
		for _, nb := range bursts {
			for gi, gk := range allGoods {
				if !c.Thorough() && nb == 2 && (gi+len(fk)+int(c.Seed))%3 != 0 && !strings.HasPrefix(fk, "break") && !strings.HasPrefix(fk, "continue") {
					continue
				}
				ops := []c10Op{{"good", gk, 1}, {"fail", fk, nb}, {"good", gk, 1}}
				in, fl := c10Inputs(ops)
				if key := strings.Join(in, "\n"); !seen[key] {
					seen[key] = true
					cases = append(cases, hcase{ops, in, fl})
					pairs++
				}
			}
		}
	}
	c.Cov("failure_kind_x_good_kind_histories", pairs)
	// random longer histories beyond the model-checked bound
	rng := rand.New(rand.NewSource(c.Seed * 104729))
	goods := []string{"print", "loop", "call", "define", "incr", "loopvar", "deep"}
	fails := []string{"err-nested-calls", "err-in-top-loop", "err-in-nested-loops", "panic-in-function", "depth-overflow", "memory-guard", "panic-in-top-loop", "memory-guard-top-level", "depth-overflow-expression"}
	for i := 0; i < c.Pick(150, 3000); i++ {
		var ops []c10Op
		for j := 0; j < 4+rng.Intn(10); j++ {
			if rng.Intn(2) == 0 {
				ops = append(ops, c10Op{"good", goods[rng.Intn(len(goods))], 1})
			} else {
				ops = append(ops, c10Op{"fail", fails[rng.Intn(len(fails))], 1 + rng.Intn(10)})
			}
		}
		ops = append(ops, c10Op{"good", "loop", 1}, c10Op{"good", "loopvar", 1}, c10Op{"good", "deep", 1}, c10Op{"good", "print", 1})
		in, fl := c10Inputs(ops)
		cases = append(cases, hcase{ops, in, fl})
	}
	// every failing input fails when it is the first thing submitted after the prelude (else the harness is out of date):
	// one that does not fail later in a history is then an effect of that history
	calib := append([]string{}, allFails...)
	sort.SliceStable(calib, func(i, j int) bool { return calib[i] != "parse-error-too-deep" && calib[j] == "parse-error-too-deep" }) // (the input most likely to disturb the process: last)
	for _, fk := range calib {
		in, fl := c10Inputs([]c10Op{{"fail", fk, 1}})
		obs, _ := runHistory(in, RunOpt{MaxDepth: 300, Timeout: 400 * time.Millisecond, ShortFor: c10ShortMark, Short: c10Short})
		if _ = fl; !obs[len(c10Prelude)].Err {
			c.Infra(fmt.Errorf("the failing input of kind %s does not fail in a fresh session on the real interpreter (harness inputs out of date)", fk))
			return
		}
	}
	var ecs []equivCase
	notFailing := map[int]bool{}
	for i, hc := range cases {
		with, without, failedOK, globalsEq := c10Run(hc.inputs, hc.fail)
		if !failedOK {
			notFailing[i] = true
		}
		// the final globals are one more observation
		with = append(with, inObs{Out: fmt.Sprint("globals-equal=", globalsEq)})
		without = append(without, inObs{Out: "globals-equal=true"})
		ecs = append(ecs, equivCase{ID: i, A: with, B: without})
		c.Case(strings.Join(hc.inputs, "\n"), true)
		if i%1500 == 0 {
			c.Sample(map[string]any{"ops": hc.ops, "inputs": hc.inputs[len(c10Prelude):]})
		}
	}
	vs, err := equivValidate(c, ecs)
	if err != nil {
		c.Infra(err)
		return
	}
	unrepeated := 0
	defer func() { c.Cov("differences_not_repeated_on_a_second_run", unrepeated) }()
	for i, hc := range cases {
		v, ok := vs[i]
		if !ok {
			c.Infra(fmt.Errorf("no verdict for history %d", i))
			return
		}
		if notFailing[i] {
			c.Fail(c10Sig(hc.ops)+":later-failing-input-does-not-fail", "an input that fails in a fresh session did not fail in this history (what came before changed how it is read or evaluated)",
				map[string]any{"check": "history", "inputs": hc.inputs, "failing": hc.fail})
			continue
		}
		if v.OK {
			c.AddTraces(1)
			continue
		}
		// Histories hold deadlines and timed work: a difference has to show again when the history is run once more (a good
		// input that ran out of time on an overloaded machine in one of the two sessions does not repeat; a trace left by
		// a failing input does).
		w2, wo2, failed2, geq2 := c10Run(hc.inputs, hc.fail)
		same := failed2 && geq2 && len(w2) == len(wo2)
		for k := 0; same && k < len(w2); k++ {
			same = w2[k] == wo2[k]
		}
		if same {
			unrepeated++
			c.AddTraces(1)
			continue
		}
		c.Fail(c10Sig(hc.ops), describeDiff(ecs[i].A, ecs[i].B, v.At), map[string]any{"check": "history", "inputs": hc.inputs, "failing": hc.fail})
	}
}

func replayC10(rp map[string]any) (bool, string) {
	var inputs []string
	var failing []bool
	b, _ := json.Marshal(rp["inputs"])
	_ = json.Unmarshal(b, &inputs)
	b, _ = json.Marshal(rp["failing"])
	_ = json.Unmarshal(b, &failing)
	with, without, failedOK, geq := c10Run(inputs, failing)
	if !failedOK {
		return false, "an input that fails in a fresh session did not fail in this history"
	}
	for i := range with {
		if i >= len(without) || with[i] != without[i] {
			return false, describeDiff(with, without, i+1)
		}
	}
	if !geq {
		return false, "final globals differ"
	}
	return true, ""
}
