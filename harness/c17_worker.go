package main

// C17 child process: one configuration of extensions.Init per process.
//
//   vh worker c17 <config> <root> <casesfile> <outfile> <chroot|nochroot> [mark]
//
// The child builds the directory tree described by the header line of <casesfile> below <root>,
// (when it may) chroots into <root> so that absolute names resolve inside the observed tree,
// changes into the tree's current directory, initialises the real extensions with <config> and
// replays every case: harness steps (mk = create a foreign/target file) and grol steps
// (save / load / image / ident / call evaluated by repl.EvalStringWithOption).  After every grol
// step the whole tree is walked and compared with the walk before the step.

import (
	"bufio"
	"bytes"
	"context"
	"crypto/sha1"
	"encoding/hex"
	"encoding/json"
	"fmt"
	"io"
	"os"
	"path/filepath"
	"regexp"
	"sort"
	"strconv"
	"strings"
	"syscall"
	"unsafe"

	"grol.io/grol/eval"
	"grol.io/grol/extensions"
	"grol.io/grol/lexer"
	"grol.io/grol/object"
	"grol.io/grol/repl"
)

type c17Step struct {
	O string `json:"o"`           // save load image ident call (grol steps) | mk (harness step)
	G int    `json:"g"`           // 1 = called with a string argument
	N []int  `json:"n"`           // name bytes (ident/call: the identifier)
	F string `json:"f,omitempty"` // quoted path relative to the tree root: model-predicted target file / file to make
	A int    `json:"a,omitempty"` // model accepts the request (diagnostic only)
}

type c17Case struct {
	ID    int       `json:"id"`
	T     int       `json:"t"`
	Steps []c17Step `json:"s"`
}

type c17Obs struct {
	I   int      `json:"i"`             // step index
	E   int      `json:"e"`             // the evaluation returned errors
	C   []string `json:"c,omitempty"`   // created   (quoted paths relative to the root)
	M   []string `json:"m,omitempty"`   // modified
	D   []string `json:"d,omitempty"`   // deleted
	R   []string `json:"r,omitempty"`   // files of the tree whose content was evaluated
	U   []int64  `json:"u,omitempty"`   // evaluated content ids that no file of the tree held (-1: none identified)
	A   []string `json:"a,omitempty"`   // files of the tree the kernel reported as read during the evaluation (inotify IN_ACCESS)
	W   int      `json:"w,omitempty"`   // 1: the tree was walked and hashed after this step (always, unless inotify reported no event at all)
	TP  int      `json:"tp,omitempty"`  // the model-predicted target existed before the step
	Lit int      `json:"lit,omitempty"` // 1: the grol literal did not denote the intended bytes (harness fault)
	Msg string   `json:"msg,omitempty"` // first error / output, verbose mode only
}

type c17Res struct {
	ID  int      `json:"id"`
	Obs []c17Obs `json:"o"`
}

type c17Hdr struct {
	Dirs     []string   `json:"dirs"`                // quoted, relative to the root: the directories every tree has
	TreeDirs [][]string `json:"tree_dirs,omitempty"` // per tree id: all its directories (the fault tree has more)
	Trees    [][]string `json:"trees"`               // per tree id: quoted file paths
	Cwd      string     `json:"cwd"`                 // quoted
}

type c17HdrLine struct {
	Hdr *c17Hdr `json:"hdr"`
}

func c17Q(s string) string { return strconv.Quote(s) }
func c17U(q string) string {
	s, err := strconv.Unquote(q)
	if err != nil {
		panic("bad quoted path " + q)
	}
	return s
}

func c17Config(name string) (*extensions.Config, bool) {
	switch name {
	case "unrestricted":
		return &extensions.Config{HasLoad: true, HasSave: true, UnrestrictedIOs: true}, true
	case "restricted":
		return &extensions.Config{HasLoad: true, HasSave: true}, true
	case "emptyonly":
		return &extensions.Config{HasLoad: true, HasSave: true, LoadSaveEmptyOnly: true}, true
	case "disabled":
		return &extensions.Config{}, true
	case "nilconfig": // extensions.Init(nil), as wasm/wasm_main.go calls it
		return nil, true
	case "unres_empty":
		return &extensions.Config{HasLoad: true, HasSave: true, UnrestrictedIOs: true, LoadSaveEmptyOnly: true}, true
	}
	return nil, false
}

// c17Lit renders bytes as a grol double-quoted string literal that carries every byte.
func c17Lit(n []int) string {
	var sb strings.Builder
	sb.WriteByte('"')
	for _, x := range n {
		b := byte(x)
		switch {
		case b >= '0' && b <= '9', b >= 'a' && b <= 'z', b >= 'A' && b <= 'Z', b == '_', b == '.', b == '/', b == ' ', b == '~':
			sb.WriteByte(b)
		default:
			fmt.Fprintf(&sb, "\\x%02x", b)
		}
	}
	sb.WriteByte('"')
	return sb.String()
}

func c17Bytes(n []int) string {
	b := make([]byte, len(n))
	for i, x := range n {
		b[i] = byte(x)
	}
	return string(b)
}

func c17Program(st c17Step, uid int64) string {
	lit := c17Lit(st.N)
	switch st.O {
	case "save":
		if st.G == 0 {
			return fmt.Sprintf("c17v=%d;save()", uid)
		}
		return fmt.Sprintf("c17v=%d;save(%s)", uid, lit)
	case "load":
		if st.G == 0 {
			return `c17v=-1;load();print(sprintf("C17V_%d_",c17v))`
		}
		return `c17v=-1;load(` + lit + `);print(sprintf("C17V_%d_",c17v))`
	case "image":
		return fmt.Sprintf("image.new(%s,2,2);image.set(%s,0,0,[255,0,0]);image.save(%s)", lit, lit, lit)
	case "ident":
		return c17Bytes(st.N)
	case "call": // process execution with a visible effect in the current directory
		fn := c17Bytes(st.N)
		return fmt.Sprintf(`%s("/bin/sh","-c","echo c17 > c17%s.out")`, fn, fn)
	}
	return ""
}

func c17MarkerContent(id int64) string {
	return fmt.Sprintf("println(\"C17MARK_%d_\")\nc17v=%d\n", id, id)
}

// ---------------------------------------------------------------------------- tree walking

type c17Ent struct {
	Kind byte   // 'f' regular, 'd' directory, 'l' symlink, 'o' other
	Data string // content (small files), "sha1:.." (large), link target
}

func c17ReadSmall(p string) (string, error) {
	f, err := os.Open(p)
	if err != nil {
		return "", err
	}
	defer f.Close()
	var buf [8192]byte
	n, err := f.Read(buf[:])
	if err != nil && err != io.EOF {
		return "", err
	}
	if n < len(buf) {
		return string(buf[:n]), nil
	}
	h := sha1.New()
	h.Write(buf[:n])
	if _, err := io.Copy(h, f); err != nil {
		return "", err
	}
	return "sha1:" + hex.EncodeToString(h.Sum(nil)), nil
}

// c17Walk returns every entry below base (relative slash paths) with its kind and content.
// Entries below `skip` (a relative directory, "" for none) are recorded by size and mtime only.
func c17Walk(base, skip string) (map[string]c17Ent, error) {
	m := make(map[string]c17Ent, 128)
	var rec func(rel string) error
	rec = func(rel string) error {
		ents, err := os.ReadDir(filepath.Join(base, rel))
		if err != nil {
			return err
		}
		for _, e := range ents {
			p := e.Name()
			if rel != "" {
				p = rel + "/" + e.Name()
			}
			full := filepath.Join(base, p)
			switch {
			case e.IsDir():
				m[p] = c17Ent{Kind: 'd'}
				if err := rec(p); err != nil {
					return err
				}
			case e.Type()&os.ModeSymlink != 0:
				t, _ := os.Readlink(full)
				m[p] = c17Ent{Kind: 'l', Data: t}
			case e.Type().IsRegular():
				if skip != "" && strings.HasPrefix(p, skip+"/") {
					fi, err := e.Info()
					if err != nil {
						return err
					}
					m[p] = c17Ent{Kind: 'f', Data: fmt.Sprintf("stat:%d:%d", fi.Size(), fi.ModTime().UnixNano())}
					continue
				}
				d, err := c17ReadSmall(full)
				if err != nil {
					return err
				}
				m[p] = c17Ent{Kind: 'f', Data: d}
			default:
				m[p] = c17Ent{Kind: 'o'}
			}
		}
		return nil
	}
	if err := rec(""); err != nil {
		return nil, err
	}
	return m, nil
}

func c17Diff(pre, post map[string]c17Ent) (created, modified, deleted []string) {
	for p, e := range post {
		o, ok := pre[p]
		if !ok {
			created = append(created, c17Q(p))
		} else if o != e {
			modified = append(modified, c17Q(p))
		}
	}
	for p := range pre {
		if _, ok := post[p]; !ok {
			deleted = append(deleted, c17Q(p))
		}
	}
	sort.Strings(created)
	sort.Strings(modified)
	sort.Strings(deleted)
	return
}

var (
	c17ReMark = regexp.MustCompile(`C17MARK_(\d+)_`)
	c17ReV    = regexp.MustCompile(`C17V_(-?\d+)_`)
)

// c17Evaluated maps the content ids that show in the evaluation output to the files of the
// pre-state tree holding that content.
func c17Evaluated(out string, pre map[string]c17Ent) (read []string, unknown []int64) {
	ids := map[int64]bool{}
	for _, m := range c17ReMark.FindAllStringSubmatch(out, -1) {
		v, _ := strconv.ParseInt(m[1], 10, 64)
		ids[v] = true
	}
	for _, m := range c17ReV.FindAllStringSubmatch(out, -1) {
		v, _ := strconv.ParseInt(m[1], 10, 64)
		ids[v] = true
	}
	var keys []int64
	for v := range ids {
		keys = append(keys, v)
	}
	sort.Slice(keys, func(i, j int) bool { return keys[i] < keys[j] })
	for _, v := range keys {
		needle := fmt.Sprintf("c17v=%d\n", v)
		found := false
		if v >= 0 {
			for p, e := range pre {
				if e.Kind == 'f' && strings.Contains(e.Data, needle) {
					read = append(read, c17Q(p))
					found = true
				}
			}
		}
		if !found {
			unknown = append(unknown, v)
		}
	}
	sort.Strings(read)
	return
}

// ---------------------------------------------------------------------------- the tree of a child

type c17Tree struct {
	base     string // "/" when chrooted, else the root directory
	cwd      string // relative to base
	skip     string
	hdr      *c17Hdr
	seedID   map[string]int64 // relative path -> content id of the seeded file
	baseline []map[string]c17Ent
	snap     map[string]c17Ent
	notify   *c17Notify // nil: walk after every step
	steps    int
	cur      int // tree id the real tree was last brought to
}

// ---------------------------------------------------------------------------- inotify
//
// The kernel queues an inotify event synchronously inside the system call that opens, reads, writes, creates,
// deletes or renames something in a watched directory.  Every directory of the tree is watched, the queue is
// drained immediately before an evaluation, and read again immediately after it: when it is empty the evaluation
// did not touch the tree and the (expensive) walk is skipped; otherwise the tree is walked and hashed as usual.
// Every 64th evaluation is walked regardless, as a cross-check of this shortcut.

type c17Notify struct {
	fd   int
	wd   map[int32]string // watch descriptor -> directory (relative to base, "" = root)
	base string
}

const c17Mask = syscall.IN_ACCESS | syscall.IN_MODIFY | syscall.IN_ATTRIB | syscall.IN_CLOSE_WRITE | syscall.IN_OPEN |
	syscall.IN_MOVED_FROM | syscall.IN_MOVED_TO | syscall.IN_CREATE | syscall.IN_DELETE | syscall.IN_DELETE_SELF | syscall.IN_MOVE_SELF

func c17NewNotify(base string, dirs []string) (*c17Notify, error) {
	fd, err := syscall.InotifyInit1(syscall.IN_NONBLOCK | syscall.IN_CLOEXEC)
	if err != nil {
		return nil, err
	}
	n := &c17Notify{fd: fd, wd: map[int32]string{}, base: base}
	if err := n.add(dirs); err != nil {
		syscall.Close(fd)
		return nil, err
	}
	return n, nil
}

// add (re-)arms the watches of the given directories on the existing instance.  Closing an inotify instance costs
// ~10 ms (the kernel waits for an SRCU grace period), so a change of the directory set never re-creates it; the
// watch of a removed directory goes away by itself (IN_IGNORED).
func (n *c17Notify) add(dirs []string) error {
	for _, d := range dirs {
		wd, err := syscall.InotifyAddWatch(n.fd, filepath.Join(n.base, d), c17Mask)
		if err != nil {
			return err
		}
		n.wd[int32(wd)] = d
	}
	return nil
}

type c17Event struct {
	Path string
	Mask uint32
}

// drain returns the queued events; lost = the queue overflowed or a watch went away.
func (n *c17Notify) drain() (evs []c17Event, lost bool) {
	var buf [16384]byte
	for {
		k, err := syscall.Read(n.fd, buf[:])
		if k <= 0 || err != nil {
			return
		}
		for off := 0; off+syscall.SizeofInotifyEvent <= k; {
			ev := (*syscall.InotifyEvent)(unsafe.Pointer(&buf[off]))
			name := ""
			if ev.Len > 0 {
				b := buf[off+syscall.SizeofInotifyEvent : off+syscall.SizeofInotifyEvent+int(ev.Len)]
				if i := bytes.IndexByte(b, 0); i >= 0 {
					b = b[:i]
				}
				name = string(b)
			}
			off += syscall.SizeofInotifyEvent + int(ev.Len)
			if ev.Mask&syscall.IN_IGNORED != 0 { // the watched directory is gone (its deletion was reported before this)
				delete(n.wd, ev.Wd)
				continue
			}
			if ev.Mask&(syscall.IN_Q_OVERFLOW|syscall.IN_UNMOUNT) != 0 {
				lost = true
				continue
			}
			dir, ok := n.wd[ev.Wd]
			if !ok {
				lost = true
				continue
			}
			p := name
			if dir != "" && name != "" {
				p = dir + "/" + name
			} else if name == "" {
				p = dir
			}
			evs = append(evs, c17Event{Path: p, Mask: ev.Mask})
		}
	}
}

func c17NewTree(base string, hdr *c17Hdr, skip string) (*c17Tree, error) {
	t := &c17Tree{base: base, hdr: hdr, cwd: c17U(hdr.Cwd), skip: skip, seedID: map[string]int64{}}
	all := map[string]bool{}
	for _, tr := range hdr.Trees {
		for _, q := range tr {
			all[c17U(q)] = true
		}
	}
	var names []string
	for p := range all {
		names = append(names, p)
	}
	sort.Strings(names)
	for i, p := range names {
		t.seedID[p] = int64(i + 1)
	}
	for _, q := range hdr.Dirs {
		if d := c17U(q); d != "" {
			if err := os.MkdirAll(filepath.Join(base, d), 0o755); err != nil {
				return nil, err
			}
		}
	}
	for k, tr := range hdr.Trees {
		b := map[string]c17Ent{}
		for _, q := range t.dirsOf(k) {
			if d := c17U(q); d != "" {
				b[d] = c17Ent{Kind: 'd'}
			}
		}
		for _, q := range tr {
			p := c17U(q)
			b[p] = c17Ent{Kind: 'f', Data: c17MarkerContent(t.seedID[p])}
		}
		t.baseline = append(t.baseline, b)
	}
	var err error
	t.snap, err = c17Walk(base, skip)
	return t, err
}

func (t *c17Tree) dirsOf(k int) []string {
	if k >= 0 && k < len(t.hdr.TreeDirs) && len(t.hdr.TreeDirs[k]) > 0 {
		return t.hdr.TreeDirs[k]
	}
	return t.hdr.Dirs
}

func (t *c17Tree) inSkip(p string) bool {
	return t.skip != "" && (p == t.skip || strings.HasPrefix(p, t.skip+"/"))
}

// toBaseline makes the real tree equal to the baseline of tree id k (using the last walk as the truth).
func (t *c17Tree) toBaseline(k int) error {
	if k < 0 || k >= len(t.baseline) {
		return fmt.Errorf("no tree %d", k)
	}
	b := t.baseline[k]
	var extra []string
	for p := range t.snap {
		if _, ok := b[p]; !ok && !t.inSkip(p) {
			extra = append(extra, p)
		}
	}
	sort.Sort(sort.Reverse(sort.StringSlice(extra))) // children before parents
	dirChanged := false
	for _, p := range extra {
		if t.snap[p].Kind == 'd' {
			dirChanged = true
		}
		if err := os.RemoveAll(filepath.Join(t.base, p)); err != nil {
			return err
		}
		delete(t.snap, p)
	}
	t.cur = k
	if dirChanged && t.notify != nil {
		defer t.rewatch() // the set of watched directories follows the tree
	}
	// directories (parents first), then files
	todo := make([]string, 0, 8)
	for p, e := range b {
		if cur, ok := t.snap[p]; ok && cur == e {
			continue
		}
		todo = append(todo, p)
	}
	sort.Slice(todo, func(i, j int) bool {
		di, dj := b[todo[i]].Kind == 'd', b[todo[j]].Kind == 'd'
		if di != dj {
			return di
		}
		return todo[i] < todo[j]
	})
	for _, p := range todo {
		e := b[p]
		full := filepath.Join(t.base, p)
		if e.Kind == 'd' {
			dirChanged = true
			_ = os.RemoveAll(full)
			if err := os.MkdirAll(full, 0o755); err != nil {
				return err
			}
			if t.notify != nil {
				defer t.rewatch()
			}
		} else {
			if cur, ok := t.snap[p]; ok && cur.Kind != 'f' {
				_ = os.RemoveAll(full)
			}
			if err := os.WriteFile(full, []byte(e.Data), 0o644); err != nil {
				return err
			}
		}
		t.snap[p] = e
	}
	return nil
}

func (t *c17Tree) mk(rel string, id int64) error {
	full := filepath.Join(t.base, rel)
	if e, ok := t.snap[rel]; ok && e.Kind != 'f' {
		return nil // a directory is in the way: leave it
	}
	data := c17MarkerContent(id)
	if err := os.WriteFile(full, []byte(data), 0o644); err != nil {
		return err
	}
	t.snap[rel] = c17Ent{Kind: 'f', Data: data}
	return nil
}

func (t *c17Tree) exists(rel string) bool {
	e, ok := t.snap[rel]
	return ok && e.Kind == 'f'
}

// observe walks the tree, fills the diff fields of o and makes the walk the new truth.
func (t *c17Tree) observe(o *c17Obs, out string) error {
	t.steps++
	o.R, o.U = c17Evaluated(out, t.snap)
	if t.notify != nil {
		evs, lost := t.notify.drain()
		seen := map[string]bool{}
		for _, e := range evs {
			if e.Mask&syscall.IN_ACCESS != 0 && e.Mask&syscall.IN_ISDIR == 0 && !seen[e.Path] {
				seen[e.Path] = true
				o.A = append(o.A, c17Q(e.Path))
			}
		}
		sort.Strings(o.A)
		if len(evs) == 0 && !lost && t.steps%64 != 0 {
			return nil // the kernel saw nothing happen below the root during the evaluation
		}
		if lost {
			if err := t.resetWatch(); err != nil {
				return err
			}
		}
	}
	post, err := c17Walk(t.base, t.skip)
	if err != nil {
		return err
	}
	o.W = 1
	o.C, o.M, o.D = c17Diff(t.snap, post)
	t.snap = post
	if t.notify != nil {
		t.notify.drain() // the walk's own opens
	}
	return nil
}

func (t *c17Tree) dirList() []string {
	var dirs []string
	for _, q := range t.dirsOf(t.cur) {
		dirs = append(dirs, c17U(q))
	}
	return dirs
}

func (t *c17Tree) rewatch() error {
	if t.notify != nil {
		return t.notify.add(t.dirList())
	}
	n, err := c17NewNotify(t.base, t.dirList())
	t.notify = n
	return err
}

// resetWatch re-creates the inotify instance (after a queue overflow or an event of an unknown watch).
func (t *c17Tree) resetWatch() error {
	if t.notify != nil {
		syscall.Close(t.notify.fd)
		t.notify = nil
	}
	return t.rewatch()
}

// quiet drains the events of the harness's own file operations; called right before an evaluation.
func (t *c17Tree) quiet() {
	if t.notify != nil {
		if _, lost := t.notify.drain(); lost {
			_ = t.resetWatch()
		}
	}
}

func c17Uid(kind int64, caseID, step int) int64 {
	return kind*1_000_000_000_000 + int64(caseID)*64 + int64(step)
}

// ---------------------------------------------------------------------------- worker main

func c17Die(format string, a ...any) {
	fmt.Fprintf(os.Stderr, "c17 worker: "+format+"\n", a...)
	os.Exit(3)
}

func c17Worker(args []string) {
	if len(args) < 5 {
		c17Die("usage: worker c17 <config> <root> <cases> <out> <chroot|nochroot> [mark] [verbose]")
	}
	cfgName, root, casesPath, outPath, mode := args[0], args[1], args[2], args[3], args[4]
	mark, verbose, reinit := false, false, false
	for _, a := range args[5:] {
		mark = mark || a == "mark"
		verbose = verbose || a == "verbose"
		reinit = reinit || a == "reinit"
	}
	cfg, ok := c17Config(cfgName)
	if !ok {
		c17Die("unknown configuration %q", cfgName)
	}
	in, err := os.Open(casesPath)
	if err != nil {
		c17Die("%v", err)
	}
	outF, err := os.Create(outPath)
	if err != nil {
		c17Die("%v", err)
	}
	w := bufio.NewWriterSize(outF, 1<<20)
	rd := bufio.NewReaderSize(in, 1<<20)
	first, err := rd.ReadBytes('\n')
	if err != nil && len(first) == 0 {
		c17Die("empty cases file: %v", err)
	}
	var hl c17HdrLine
	if err := json.Unmarshal(first, &hl); err != nil || hl.Hdr == nil {
		c17Die("bad header: %v", err)
	}
	if err := os.MkdirAll(root, 0o755); err != nil {
		c17Die("%v", err)
	}
	base := root
	if mode == "chroot" {
		if err := syscall.Chroot(root); err != nil {
			c17Die("chroot %s: %v", root, err)
		}
		base = "/"
	}
	tree, err := c17NewTree(base, hl.Hdr, "")
	if err != nil {
		c17Die("tree: %v", err)
	}
	if err := os.Chdir(filepath.Join(base, tree.cwd)); err != nil {
		c17Die("chdir: %v", err)
	}
	if os.Getenv("C17_ALWAYS_WALK") == "" {
		if err := tree.rewatch(); err != nil {
			fmt.Fprintf(os.Stderr, "c17 worker: inotify unavailable (%v): walking after every step\n", err)
			tree.notify = nil
		}
	}
	// logging is silenced by LOGGER_LEVEL=Critical in the child's environment (fortio.org/log reads it at start)
	if err := extensions.Init(cfg); err != nil {
		c17Die("extensions.Init: %v", err)
	}
	if reinit {
		// a second and third call with the most and the least permissive configurations: the first one stays in force
		_ = extensions.Init(&extensions.Config{HasLoad: true, HasSave: true, UnrestrictedIOs: true})
		_ = extensions.Init(&extensions.Config{HasLoad: true, HasSave: true, LoadSaveEmptyOnly: true})
		_ = extensions.Init(nil)
	}
	opts := repl.EvalStringOptions() // All, ShowEval, NoColor; AutoLoad/AutoSave off
	enc := json.NewEncoder(w)
	litChecked := 0
	for {
		line, err := rd.ReadBytes('\n')
		if len(strings.TrimSpace(string(line))) > 0 {
			var cs c17Case
			if e := json.Unmarshal(line, &cs); e != nil {
				c17Die("bad case: %v", e)
			}
			res := c17Res{ID: cs.ID}
			if e := tree.toBaseline(cs.T); e != nil {
				c17Die("baseline: %v", e)
			}
			for i, st := range cs.Steps {
				if st.O == "mk" {
					if e := tree.mk(c17U(st.F), c17Uid(1, cs.ID, i)); e != nil {
						c17Die("mk %s: %v", st.F, e)
					}
					continue
				}
				o := c17Obs{I: i}
				if st.F != "" && tree.exists(c17U(st.F)) {
					o.TP = 1
				}
				if st.G == 1 && (st.O == "save" || st.O == "load" || st.O == "image") {
					// binding: the literal must denote exactly the intended bytes
					lit := c17Lit(st.N)
					want := c17Bytes(st.N)
					if tok := lexer.New(lit).NextToken(); tok.Literal() != want {
						o.Lit = 1
					}
					if litChecked < 300 || cs.ID%997 == 0 {
						litChecked++
						v, e := eval.EvalString(eval.NewState(), lit, false)
						if s, isStr := v.(object.String); e != nil || !isStr || s.Value != want {
							o.Lit = 1
						}
					}
				}
				prog := c17Program(st, c17Uid(2, cs.ID, i))
				tree.quiet()
				if mark {
					if f, e := os.Open(fmt.Sprintf("/C17-BEGIN-%d-%d", cs.ID, i)); e == nil {
						f.Close()
					}
				}
				out, errs, _ := repl.EvalStringWithOption(context.Background(), opts, prog)
				if mark {
					if f, e := os.Open(fmt.Sprintf("/C17-END-%d-%d", cs.ID, i)); e == nil {
						f.Close()
					}
				}
				if len(errs) > 0 {
					o.E = 1
				}
				if e := tree.observe(&o, out); e != nil {
					c17Die("walk: %v", e)
				}
				if verbose {
					o.Msg = fmt.Sprintf("prog=%s out=%.200q errs=%.300q", prog, out, errs)
				}
				res.Obs = append(res.Obs, o)
			}
			if e := enc.Encode(&res); e != nil {
				c17Die("write: %v", e)
			}
		}
		if err == io.EOF {
			break
		}
		if err != nil {
			c17Die("read: %v", err)
		}
	}
	if err := w.Flush(); err != nil {
		c17Die("flush: %v", err)
	}
	if err := outF.Close(); err != nil {
		c17Die("close: %v", err)
	}
	os.Exit(0)
}
