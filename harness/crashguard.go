package main

// Crash isolation for the checks that evaluate programs in the harness process itself (C01, C04, C05, C06, C10, C19 ...).
// A Go runtime fatal error (stack overflow on a cyclic value, concurrent map write ...) cannot be recovered: it would take the
// check down with exit status 2 and look like an infrastructure problem although it is the code under test that died.
// `vh check` therefore runs the check in a child (`VERIF_INNER=1`), which records the inputs it is about to evaluate in a
// marker file before every evaluation; when the child dies of a runtime fatal error the parent reports the recorded inputs
// as a violation (signature process-died), with a replay file that runs them again in a child of its own.

import (
	"bytes"
	"encoding/json"
	"fmt"
	"io"
	"os"
	"os/exec"
	"strings"
	"syscall"
)

var markFile *os.File

func init() {
	if p := os.Getenv("VERIF_CURRENT"); p != "" {
		markFile, _ = os.OpenFile(p, os.O_WRONLY|os.O_CREATE, 0o644)
	}
	workers["runhist"] = func(args []string) {
		b, err := os.ReadFile(args[0])
		if err != nil {
			os.Exit(2)
		}
		var m crashMark
		if json.Unmarshal(b, &m) != nil {
			os.Exit(2)
		}
		if m.Src != "" {
			runSource(m.Src, m.Opt)
		} else {
			runHistory(m.Inputs, m.Opt)
		}
		os.Exit(0)
	}
}

type crashMark struct {
	Inputs []string `json:"inputs,omitempty"`
	Src    string   `json:"src,omitempty"`
	Opt    RunOpt   `json:"opt"`
}

// markFinished records that the check ran to its end (see guardedCheck).
func markFinished() {
	if markFile == nil {
		return
	}
	_ = markFile.Truncate(0)
	_, _ = markFile.WriteAt([]byte(`{"finished":true}`), 0)
}

// markCurrent records what is about to be evaluated (no-op outside a guarded check).
func markCurrent(m crashMark) {
	if markFile == nil {
		return
	}
	b, _ := json.Marshal(m)
	_ = markFile.Truncate(0)
	_, _ = markFile.WriteAt(b, 0)
}

type tailWriter struct {
	w   io.Writer
	buf []byte
}

func (t *tailWriter) Write(p []byte) (int, error) {
	t.buf = append(t.buf, p...)
	if len(t.buf) > 1<<16 {
		t.buf = t.buf[len(t.buf)-1<<15:]
	}
	return len(p), nil
}

func isGoFatal(stderr string) (string, bool) {
	for _, ln := range strings.Split(stderr, "\n") {
		if strings.HasPrefix(ln, "fatal error: ") || strings.HasPrefix(ln, "runtime: goroutine stack exceeds") {
			return strings.TrimSpace(ln), true
		}
	}
	return "", false
}

// guardedCheck runs `vh check <prop> <tier>` in a child and returns its exit status, turning a runtime fatal error of
// the child into a reported violation.
func guardedCheck(prop, tier, rule string) int {
	mark, err := os.CreateTemp("", "verif-current-*.json")
	if err != nil {
		fmt.Fprintln(os.Stderr, err)
		return 2
	}
	mark.Close()
	defer os.Remove(mark.Name())
	exe, _ := os.Executable()
	cmd := exec.Command(exe, "check", prop, tier)
	cmd.Env = append(os.Environ(), "VERIF_INNER=1", "VERIF_CURRENT="+mark.Name())
	cmd.Stdout = os.Stdout
	tw := &tailWriter{}
	cmd.Stderr = tw
	cmd.SysProcAttr = &syscall.SysProcAttr{Pdeathsig: syscall.SIGKILL}
	err = cmd.Run()
	code := 0
	if ee, ok := err.(*exec.ExitError); ok {
		code = ee.ExitCode()
	} else if err != nil {
		fmt.Fprintln(os.Stderr, err)
		return 2
	}
	stderr := string(tw.buf)
	first, fatal := isGoFatal(stderr)
	if mb, _ := os.ReadFile(mark.Name()); bytes.Contains(mb, []byte(`"finished":true`)) {
		fatal = false // the check ran to its end: a "fatal error:" line on its stderr came from a child it ran (strace, workers)
	}
	if !fatal {
		_, _ = os.Stderr.WriteString(stderr)
		return code
	}
	// the code under test killed the process: report what was being evaluated
	var m crashMark
	b, _ := os.ReadFile(mark.Name())
	_ = json.Unmarshal(bytes.TrimRight(b, "\x00"), &m)
	c := NewCtx(prop, tier)
	if len(m.Inputs) == 0 && m.Src == "" {
		c.Infra(fmt.Errorf("the check process died of %q before any evaluation was recorded", first))
		return c.Finish(rule)
	}
	what := m.Src
	if what == "" {
		what = strings.Join(m.Inputs, " | ")
	}
	c.Cov("note", "the check's own process was killed by the code under test: the counts of the interrupted run are lost, this record holds the fatal case only")
	c.Case("process-died:"+what, true)
	c.Fail("process-died", fmt.Sprintf("the process died of a Go runtime fatal error (%s) while evaluating %q", first, clip(what, 400)),
		map[string]any{"check": "process-died", "mark": m})
	return c.Finish(rule)
}

// replayProcessDied runs the recorded inputs again in a child process.
func replayProcessDied(rp map[string]any) (bool, string) {
	b, _ := json.Marshal(rp["mark"])
	f, err := os.CreateTemp("", "verif-replay-*.json")
	if err != nil {
		return false, "infrastructure: " + err.Error()
	}
	defer os.Remove(f.Name())
	_, _ = f.Write(b)
	f.Close()
	exe, _ := os.Executable()
	cmd := exec.Command(exe, "worker", "runhist", f.Name())
	tw := &tailWriter{}
	cmd.Stderr = tw
	cmd.SysProcAttr = &syscall.SysProcAttr{Pdeathsig: syscall.SIGKILL}
	_ = cmd.Run()
	if first, fatal := isGoFatal(string(tw.buf)); fatal {
		return false, "the process died again: " + first
	}
	return true, ""
}
