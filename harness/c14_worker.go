package main

// C14 child processes (worker "c14"): one *saving* process and one *loading* process per shard.
// Both initialise the real extensions with load() and save() enabled and run in a scratch cwd of their own
// (repl.AutoLoad / AutoSave / load() / save() all use ./.gr of the current directory).
//
//   worker c14 save <jobs.ndjson> <out.ndjson>   build each environment in a real eval.State, save it every way
//   worker c14 load <jobs.ndjson> <out.ndjson>   fresh sessions: repl.AutoLoad and load(), observe, save again, call

import (
	"bufio"
	"bytes"
	"context"
	"encoding/json"
	"fmt"
	"hash/fnv"
	"math"
	"os"
	"sort"
	"strconv"
	"strings"
	"time"

	"grol.io/grol/ast"
	"grol.io/grol/eval"
	"grol.io/grol/extensions"
	"grol.io/grol/object"
	"grol.io/grol/repl"
)

// c14Val is a value of the spec's universe as emitted by TLC (SaveLoad!VJ).
type c14Val struct {
	T     string            `json:"t"`
	V     json.RawMessage   `json:"v,omitempty"` // decimal string (int), 16 hex digits (float), true/false (bool)
	B     []int             `json:"b,omitempty"` // bytes of a string
	R     [][2]int          `json:"r,omitempty"` // or its run-length form <<byte, count>> (long strings)
	E     []c14Val          `json:"e,omitempty"`
	P     [][2]c14Val       `json:"p,omitempty"`
	Name  string            `json:"name,omitempty"`
	Code  string            `json:"code,omitempty"`
	Ck    string            `json:"ck,omitempty"`
	Cap   []json.RawMessage `json:"cap,omitempty"`
	Usage string            `json:"usage,omitempty"`
	One   string            `json:"one,omitempty"`
	Multi string            `json:"multi,omitempty"`
}

func (v c14Val) str() string {
	var s string
	_ = json.Unmarshal(v.V, &s)
	return s
}

func (v c14Val) bytes() string {
	if len(v.R) > 0 {
		var sb strings.Builder
		for _, r := range v.R {
			sb.WriteString(strings.Repeat(string([]byte{byte(r[0])}), r[1]))
		}
		return sb.String()
	}
	b := make([]byte, len(v.B))
	for i, x := range v.B {
		b[i] = byte(x)
	}
	return string(b)
}

// object builds the real runtime value through the object API (exact bits, exact bytes).
func (v c14Val) object() (object.Object, error) {
	switch v.T {
	case "int":
		n, err := strconv.ParseInt(v.str(), 10, 64)
		return object.Integer{Value: n}, err
	case "float":
		u, err := strconv.ParseUint(v.str(), 16, 64)
		return object.Float{Value: math.Float64frombits(u)}, err
	case "bool":
		if string(v.V) == "true" {
			return object.TRUE, nil
		}
		return object.FALSE, nil
	case "nil":
		return object.NULL, nil
	case "str":
		return object.String{Value: v.bytes()}, nil
	case "arr":
		els := make([]object.Object, 0, len(v.E))
		for _, e := range v.E {
			o, err := e.object()
			if err != nil {
				return nil, err
			}
			els = append(els, o)
		}
		return object.NewArray(els), nil
	case "map":
		m := object.NewMapSize(len(v.P))
		for _, kv := range v.P {
			k, err := kv[0].object()
			if err != nil {
				return nil, err
			}
			x, err := kv[1].object()
			if err != nil {
				return nil, err
			}
			m = m.Set(k, x)
		}
		return m, nil
	}
	return nil, fmt.Errorf("value kind %q cannot be built through the object API", v.T)
}

type c14Bind struct {
	Name string
	Val  c14Val
}

func c14Pairs(raw []json.RawMessage) ([]c14Bind, error) {
	res := make([]c14Bind, 0, len(raw))
	for _, r := range raw {
		var pr []json.RawMessage
		if err := json.Unmarshal(r, &pr); err != nil || len(pr) != 2 {
			return nil, fmt.Errorf("bad pair %.80s", r)
		}
		var b c14Bind
		if err := json.Unmarshal(pr[0], &b.Name); err != nil {
			return nil, err
		}
		if err := json.Unmarshal(pr[1], &b.Val); err != nil {
			return nil, err
		}
		res = append(res, b)
	}
	return res, nil
}

// ---------------------------------------------------------------------------------- jobs and records

type c14ApiBind struct {
	Name string `json:"name"`
	Val  c14Val `json:"val"`
}

type c14Job struct {
	ID  string       `json:"id"`
	Src string       `json:"src"`
	Lim int          `json:"lim"`
	Api []c14ApiBind `json:"api"`
	// the session history run after src and the api bindings, before the final save (SaveLoad!StepJ)
	Steps []c14Step `json:"steps,omitempty"`
	Extra []c14Val  `json:"extra,omitempty"` // injected after the api values: c14val(len(api)+i)
}

// c14Step is one step of a session history: an input given to the session the way the REPL gives it
// (repl.EvalOne; echo = the REPL prints the result), an auto-save, or the end of the session (auto-save, then a
// fresh session that auto-loads).
type c14Step struct {
	Op   string `json:"op"` // in | autosave | session
	Src  string `json:"src"`
	Echo bool   `json:"echo"`
}

type c14Call struct {
	Expr    string `json:"expr"`
	Out     string `json:"out"` // latin1
	Val     J      `json:"val"`
	Err     bool   `json:"err"`
	Timeout bool   `json:"timeout,omitempty"`
	Msg     string `json:"msg,omitempty"` // diagnostics only
}

type c14BindObs struct {
	Name     string `json:"name"`
	Val      J      `json:"val"`
	Kind     string `json:"kind"`               // data | func | mixed (container holding functions) | other
	Own      string `json:"own,omitempty"`      // a function's own name
	Faithful bool   `json:"faithful,omitempty"` // the function's printed text parses back to the same parameters and body
	Inspect  int    `json:"inspect"`            // length of the printed form
	NL       bool   `json:"nl,omitempty"`       // the printed form contains a newline
}

// c14FuncInfo: feature predicates of one function held by a binding (directly or inside its containers).
type c14FuncInfo struct {
	Path     string `json:"path"`
	Own      string `json:"own,omitempty"`
	Faithful bool   `json:"faithful"` // its saved text parses back to the same parameters and body
	Closure  bool   `json:"closure"`  // defined in an environment other than the top level
	Escapes  bool   `json:"escapes"`  // a string literal of its body holds one of the bytes 7, 8, 11, 12
	// constructs of its body (original tree) that the compact printer is known to write ambiguously
	Loss []string `json:"loss,omitempty"`
}

// c14SessObs: what one "session" step of a history did - the data globals the ending session held (those its
// auto-save writes: printed form within the limit) against the fresh session after its auto-load.
type c14SessObs struct {
	Step    int           `json:"step"`
	SaveErr string        `json:"saveerr,omitempty"` // repl.AutoSave failed
	LoadErr string        `json:"loaderr,omitempty"` // what repl.AutoLoad reported (lines it could not evaluate); diagnostics
	Binds   []c14SessBind `json:"binds"`
}

type c14SessBind struct {
	Name    string `json:"name"`
	Old     J      `json:"old"`
	Present bool   `json:"present"`
	New     J      `json:"new"`
}

// c14Foreign: a named function held somewhere else than under its own name (under another name, inside a container),
// and whether its own name is, in this session, bound to that function (Other = unbound, or bound to something else).
type c14Foreign struct {
	Holder string `json:"holder"`
	Own    string `json:"own"`
	Other  bool   `json:"other"`
}

type c14SaveRec struct {
	ID       string        `json:"id"`
	Lim      int           `json:"lim"`
	SetupErr string        `json:"setuperr,omitempty"`
	Sess     []c14SessObs  `json:"sess,omitempty"`
	Foreign  []c14Foreign  `json:"foreign,omitempty"`
	N        int           `json:"n"`
	File     []byte        `json:"file"`
	NU       int           `json:"nu"`
	FileU    []byte        `json:"fileu,omitempty"` // the unlimited file (when lim > 0)
	SaveExt  []byte        `json:"saveext,omitempty"`
	SaveErr  string        `json:"saveerr,omitempty"`
	SaveName []byte        `json:"savename,omitempty"` // what save("c14named") leaves in c14named.gr
	NameErr  string        `json:"nameerr,omitempty"`
	AutoSave []byte        `json:"autosave,omitempty"`
	AutoErr  string        `json:"autoerr,omitempty"`
	Globals  []string      `json:"globals"` // names of all top-level bindings (info.globals)
	Binds    []c14BindObs  `json:"binds"`
	Funcs    []c14FuncInfo `json:"funcs"`
	Calls    []c14Call     `json:"calls"`
}

type c14LoadJob struct {
	ID    string   `json:"id"`
	Lim   int      `json:"lim"`
	File  []byte   `json:"file"`
	Names []string `json:"names"`
	Calls []string `json:"calls"`
}

type c14LoadBind struct {
	Name    string `json:"name"`
	Present bool   `json:"present"`
	Val     J      `json:"val"`
	Own     string `json:"own,omitempty"` // a function's own name
}

type c14LoadObs struct {
	Err    string        `json:"err,omitempty"`
	Binds  []c14LoadBind `json:"binds"`
	Resave []byte        `json:"resave"`
	Calls  []c14Call     `json:"calls"`
}

type c14LoadRec struct {
	ID string     `json:"id"`
	A  c14LoadObs `json:"a"` // repl.AutoLoad
	W  c14LoadObs `json:"w"` // load()
}

// ---------------------------------------------------------------------------------- shared helpers (children)

const (
	c14NamedFile   = "c14named.gr" // save("c14named") / load("c14named")
	c14CallTimeout = 400 * time.Millisecond
	c14MaxDepth    = 400
)

var c14Inject []object.Object

// printed forms of the bindings every fresh session starts with (their functions are not called in every case)
var c14Pre = map[string]string{}

func c14HasBadEscape(n any) bool {
	switch v := n.(type) {
	case J:
		if v["k"] == "str" {
			if s, ok := v["v"].(string); ok && strings.ContainsAny(unlatin1(s), "\a\b\f\v") {
				return true
			}
		}
		for _, c := range v {
			if c14HasBadEscape(c) {
				return true
			}
		}
	case []any:
		for _, c := range v {
			if c14HasBadEscape(c) {
				return true
			}
		}
	}
	return false
}

func c14NewState() (*eval.State, *bytes.Buffer) {
	s := eval.NewState()
	buf := &bytes.Buffer{}
	s.Out = buf
	s.LogOut = buf
	s.NoLog = true
	s.MaxDepth = c14MaxDepth
	return s, buf
}

// c14Eval evaluates source on s under recover and a deadline.
func c14Eval(s *eval.State, src string, d time.Duration) (res object.Object, err error, timeout bool) {
	cancel := s.SetContext(context.Background(), d)
	defer cancel()
	defer func() {
		if r := recover(); r != nil {
			s.Reset()
			res, err = object.NULL, fmt.Errorf("panic: %v", r)
		}
	}()
	res, err = eval.EvalString(s, src, false)
	if s.Context != nil && s.Context.Err() != nil {
		timeout = true
	}
	return res, err, timeout
}

func c14Lookup(s *eval.State, name string) (object.Object, bool) {
	res, err, _ := c14Eval(s, name, 2*time.Second)
	if err != nil {
		return nil, false
	}
	return object.Value(res), true
}

func c14DoCall(s *eval.State, buf *bytes.Buffer, expr string) c14Call {
	start := buf.Len()
	res, err, to := c14Eval(s, expr, c14CallTimeout)
	c := c14Call{Expr: expr, Out: latin1(buf.String()[start:]), Timeout: to}
	if err != nil {
		c.Err = true
		c.Msg = err.Error()
		c.Val = J{"t": "err"}
		return c
	}
	c.Val = objJSON(res)
	return c
}

func c14Globals(s *eval.State) []string {
	res, err, _ := c14Eval(s, "info.globals", 2*time.Second)
	if err != nil {
		return nil
	}
	var names []string
	for _, k := range object.Elements(res) {
		if ks, ok := k.(object.String); ok {
			names = append(names, ks.Value)
		}
	}
	sort.Strings(names)
	return names
}

// c14Kind classifies a runtime value: data (numbers, strings, booleans, nil, arrays and maps of data),
// func, mixed (a container that holds functions and otherwise data) or other.
func c14Kind(o object.Object) string {
	o = object.Value(o)
	switch o.Type() { //nolint:exhaustive // default covers the rest
	case object.INTEGER, object.FLOAT, object.BOOLEAN, object.NIL, object.STRING:
		return "data"
	case object.FUNC:
		return "func"
	case object.ARRAY:
		k := "data"
		for _, e := range object.Elements(o) {
			k = c14Join(k, c14Kind(e))
		}
		return k
	case object.MAP:
		k := "data"
		m := o.(object.Map)
		for _, key := range object.Elements(o) {
			v, _ := m.Get(key)
			k = c14Join(k, c14Join(c14Kind(key), c14Kind(v)))
		}
		return k
	}
	return "other"
}

func c14Join(a, b string) string {
	if a == "other" || b == "other" {
		return "other"
	}
	if a == "data" && b == "data" {
		return "data"
	}
	return "mixed"
}

func c14StripComments(n any) any {
	switch v := n.(type) {
	case J:
		if v["k"] == "cmt" {
			return nil
		}
		r := J{}
		for k, c := range v {
			r[k] = c14StripComments(c)
		}
		return r
	case []any:
		r := []any{}
		for _, c := range v {
			if x := c14StripComments(c); x != nil {
				r = append(r, x)
			}
		}
		return r
	}
	return n
}

func c14FuncShape(params []ast.Node, variadic bool, body *ast.Statements) string {
	ps := []string{}
	for _, p := range params {
		ps = append(ps, p.Value().Literal())
	}
	return jstr([]any{ps, variadic, c14StripComments(dumpStmts(body))})
}

// c14Faithful: does the saved text of f parse back to a function with the same parameters and body?
func c14Faithful(f object.Function) bool {
	prog, errs := parseFile(f.Inspect())
	if len(errs) > 0 || prog == nil || len(prog.Statements) != 1 {
		return false
	}
	fl, ok := prog.Statements[0].(*ast.FunctionLiteral)
	if !ok {
		return false
	}
	return c14FuncShape(fl.Parameters, fl.Variadic, fl.Body) == c14FuncShape(f.Parameters, f.Variadic, f.Body)
}

var c14ArgKinds = []string{"1", "0", "-3", "2.5", `"s"`, `""`, "true", "nil", "[1,2,3]", "[]", `{"a":1}`, "x=>x+1"}

// c14CallPlan: the call expressions for one function reachable as `path`.
func c14CallPlan(path string, f object.Function) []string {
	k := len(f.Parameters)
	if f.Variadic {
		k-- // the last parameter is `..`
	}
	var res []string
	mk := func(n, rot int, same bool) string {
		args := make([]string, n)
		for i := range args {
			if same {
				args[i] = c14ArgKinds[rot%len(c14ArgKinds)]
			} else {
				args[i] = c14ArgKinds[(rot+5*i)%len(c14ArgKinds)]
			}
		}
		return path + "(" + strings.Join(args, ",") + ")"
	}
	counts := []int{k}
	if f.Variadic {
		counts = []int{k, k + 2}
	}
	for _, n := range counts {
		if n == 0 {
			res = append(res, path+"()", path+"()")
			continue
		}
		for r := range c14ArgKinds {
			res = append(res, mk(n, r, true))
		}
		if n >= 2 {
			for r := range c14ArgKinds {
				res = append(res, mk(n, r, false))
			}
		}
	}
	return res
}

// c14FuncPaths finds the functions held by a binding: the binding itself or elements of its containers.
func c14FuncPaths(path string, o object.Object, depth int, f func(path string, fn object.Function)) {
	o = object.Value(o)
	switch o.Type() { //nolint:exhaustive // only these hold functions
	case object.FUNC:
		f(path, o.(object.Function))
	case object.ARRAY:
		if depth > 3 {
			return
		}
		for i, e := range object.Elements(o) {
			c14FuncPaths(fmt.Sprintf("%s[%d]", path, i), e, depth+1, f)
		}
	case object.MAP:
		if depth > 3 {
			return
		}
		m := o.(object.Map)
		for _, k := range object.Elements(o) {
			v, _ := m.Get(k)
			if ks, ok := k.(object.String); ok {
				c14FuncPaths(fmt.Sprintf("%s[%s]", path, strconv.Quote(ks.Value)), v, depth+1, f)
			}
		}
	}
}

// ---- known ambiguities of the compact printer, as predicates over the ORIGINAL tree (astj dump form)

func c14Prec(n J) int {
	if n["k"] == "post" {
		return precAtom
	}
	return nodePrec(n)
}

// c14Leftmost: the first token the printer writes for an expression ("(" when it must parenthesise the left operand).
func c14Leftmost(n J) string {
	switch n["k"] {
	case "inf":
		l := n["l"].(J)
		if c14Prec(l) < c14Prec(n) {
			return "("
		}
		return c14Leftmost(l)
	case "asg", "idx", "dot":
		return c14Leftmost(n["l"].(J))
	case "call":
		return c14Leftmost(n["f"].(J))
	case "pre":
		return n["op"].(string)
	case "arr":
		return "["
	case "map":
		return "{"
	case "fn":
		if lam, _ := n["lambda"].(bool); lam {
			return "("
		}
		return "func"
	case "int", "float":
		if v, _ := n["v"].(string); strings.HasPrefix(v, "-") || n["k"] == "float" && strings.HasPrefix(v, "8") {
			return "-"
		}
	}
	return "w" // a word: identifier, literal, keyword
}

func c14Stmts(v any) []J {
	var res []J
	l, _ := v.([]any)
	for _, x := range l {
		if j, ok := x.(J); ok && j["k"] != "cmt" {
			res = append(res, j)
		}
	}
	return res
}

// c14LossClasses walks a dumped tree and names the known ambiguous constructs it contains.
func c14LossClasses(n any, out map[string]bool) {
	switch v := n.(type) {
	case []any:
		st := c14Stmts(v)
		isBlock := len(st) == len(v) && len(st) > 0
		for i, x := range st {
			if isBlock && i > 0 {
				switch c14Leftmost(x) {
				case "-", "+", "(", "[", "++", "--", "!":
					out["statement-starts-with-operator-or-bracket"] = true
				}
				if st[i-1]["k"] == "post" || c14EndsWithPostfix(st[i-1]) {
					out["statement-after-postfix"] = true
				}
			}
		}
		for _, x := range v {
			c14LossClasses(x, out)
		}
	case J:
		switch v["k"] {
		case "inf":
			r := v["r"].(J)
			if r["k"] == "inf" && c14Prec(r) == c14Prec(v) {
				out["same-precedence-right-operand"] = true
			}
			if op := v["op"].(string); (op == "-" || op == "+") && c14Leftmost(r) == op {
				out["sign-after-same-sign"] = true
			}
		case "fn":
			if lam, _ := v["lambda"].(bool); lam || v["name"] == "" {
				if b := c14Stmts(v["body"]); len(b) == 1 && b[0]["k"] == "asg" {
					out["lambda-assignment-body"] = true
				}
			}
		}
		for _, c := range v {
			c14LossClasses(c, out)
		}
	}
}

func c14EndsWithPostfix(n J) bool {
	switch n["k"] {
	case "post":
		return true
	case "inf", "asg":
		return c14EndsWithPostfix(n["r"].(J))
	}
	return false
}

func c14ReadFileAndRemove(name string) ([]byte, error) {
	b, err := os.ReadFile(name)
	_ = os.Remove(name)
	return b, err
}

// ---------------------------------------------------------------------------------- worker

func init() {
	workers["c14"] = c14Worker
}

func c14Worker(args []string) {
	if len(args) < 3 {
		fmt.Fprintln(os.Stderr, "usage: worker c14 save|load <jobs.ndjson> <out.ndjson>")
		os.Exit(2)
	}
	if err := extensions.Init(&extensions.Config{HasLoad: true, HasSave: true}); err != nil {
		fmt.Fprintln(os.Stderr, "extensions.Init:", err)
		os.Exit(2)
	}
	_ = object.CreateFunction(object.Extension{Name: "c14val", MinArgs: 1, MaxArgs: 1, ArgTypes: []object.Type{object.INTEGER}, DontCache: true,
		Callback: func(_ any, _ string, a []object.Object) object.Object {
			i := int(a[0].(object.Integer).Value)
			if i < 0 || i >= len(c14Inject) {
				return object.Error{Value: "c14val: no such value"}
			}
			return c14Inject[i]
		}})
	{
		s0, _ := c14NewState()
		for _, n := range c14Globals(s0) {
			if o, ok := c14Lookup(s0, n); ok {
				c14Pre[n] = o.Inspect()
			}
		}
	}
	out, err := os.Create(args[2])
	if err != nil {
		fmt.Fprintln(os.Stderr, err)
		os.Exit(2)
	}
	w := bufio.NewWriterSize(out, 1<<20)
	enc := json.NewEncoder(w)
	err = ReadLines(args[1], func(line []byte) error {
		switch args[0] {
		case "save":
			var job c14Job
			if err := json.Unmarshal(line, &job); err != nil {
				return err
			}
			return enc.Encode(c14Save(job))
		case "load":
			var job c14LoadJob
			if err := json.Unmarshal(line, &job); err != nil {
				return err
			}
			return enc.Encode(c14Load(job))
		}
		return fmt.Errorf("unknown mode %s", args[0])
	})
	if err == nil {
		err = w.Flush()
	}
	if err == nil {
		err = out.Close()
	}
	if err != nil {
		fmt.Fprintln(os.Stderr, "c14 worker:", err)
		os.Exit(2)
	}
	os.Exit(0)
}

// c14SavedData: the data globals of a session that a save with the limit writes, observed structurally.
func c14SavedData(s *eval.State, lim int) map[string]J {
	out := map[string]J{}
	for _, name := range c14Globals(s) {
		if c14PreConst[name] {
			continue
		}
		v, ok := c14Lookup(s, name)
		if !ok || c14Kind(v) != "data" || (lim > 0 && len(v.Inspect()) > lim) {
			continue
		}
		out[name] = objJSON(v)
	}
	return out
}

// c14RunSteps runs a session history on s and returns the session it ends in. A step that the real code refuses
// (an input it rejects, an auto-load that reports lines it could not evaluate) is part of what is observed, not a
// reason to give up the case: the model says what the session holds afterwards.
func c14RunSteps(s *eval.State, buf *bytes.Buffer, job c14Job) (*eval.State, *bytes.Buffer, []c14SessObs, error) {
	opts := repl.Options{All: true, NoColor: true, AutoLoad: true, AutoSave: true, MaxValueLen: job.Lim, MaxDuration: 5 * time.Second}
	var sess []c14SessObs
	for i, st := range job.Steps {
		switch st.Op {
		case "in":
			o := opts
			o.ShowEval = st.Echo
			_, _, _, _ = repl.EvalOne(context.Background(), s, st.Src, buf, o) // a rejected input changes nothing: that is the model's reading too
		case "autosave":
			if err := repl.AutoSave(s, opts); err != nil {
				sess = append(sess, c14SessObs{Step: i, SaveErr: err.Error(), Binds: []c14SessBind{}})
			}
		case "session":
			ob := c14SessObs{Step: i, Binds: []c14SessBind{}}
			if err := repl.AutoSave(s, opts); err != nil {
				ob.SaveErr = err.Error()
			}
			old := c14SavedData(s, job.Lim) // (after the auto-save: looking at a value must not be part of the history)
			s, buf = c14NewState()
			s.MaxValueLen = job.Lim
			func() {
				defer func() {
					if r := recover(); r != nil {
						ob.LoadErr = fmt.Sprintf("panic: %v", r)
					}
				}()
				if err := repl.AutoLoad(s, opts); err != nil {
					ob.LoadErr = clip(err.Error(), 300)
				}
			}()
			names := make([]string, 0, len(old))
			for n := range old {
				names = append(names, n)
			}
			sort.Strings(names)
			for _, n := range names {
				b := c14SessBind{Name: n, Old: old[n], New: J{"t": "nil"}}
				if v, ok := c14Lookup(s, n); ok {
					b.Present, b.New = true, objJSON(v)
				}
				ob.Binds = append(ob.Binds, b)
			}
			sess = append(sess, ob)
		default:
			return s, buf, sess, fmt.Errorf("step %d: unknown op %q", i, st.Op)
		}
	}
	return s, buf, sess, nil
}

// c14NamedFns: the named functions a value holds, at any depth (elements, map keys and values).
func c14NamedFns(o object.Object, depth int, f func(fn object.Function)) {
	o = object.Value(o)
	switch o.Type() { //nolint:exhaustive // only these hold functions
	case object.FUNC:
		if fn := o.(object.Function); fn.Name != nil {
			f(fn)
		}
	case object.ARRAY:
		if depth > 6 {
			return
		}
		for _, e := range object.Elements(o) {
			c14NamedFns(e, depth+1, f)
		}
	case object.MAP:
		if depth > 6 {
			return
		}
		m := o.(object.Map)
		for _, k := range object.Elements(o) {
			c14NamedFns(k, depth+1, f)
			v, _ := m.Get(k)
			c14NamedFns(v, depth+1, f)
		}
	}
}

func c14Save(job c14Job) (rec c14SaveRec) {
	rec.ID, rec.Lim = job.ID, job.Lim
	s, buf := c14NewState()
	s.MaxValueLen = job.Lim
	_ = os.Remove(repl.AutoSaveFile)
	if job.Src != "" {
		if _, err, _ := c14Eval(s, job.Src, 5*time.Second); err != nil {
			rec.SetupErr = "src: " + err.Error()
			return rec
		}
	}
	c14Inject = c14Inject[:0]
	for i, b := range job.Api {
		o, err := b.Val.object()
		if err != nil {
			rec.SetupErr = err.Error()
			return rec
		}
		c14Inject = append(c14Inject, o)
		if _, err, _ := c14Eval(s, fmt.Sprintf("%s = c14val(%d)", b.Name, i), 5*time.Second); err != nil {
			rec.SetupErr = "bind " + b.Name + ": " + err.Error()
			return rec
		}
	}
	for _, v := range job.Extra {
		o, err := v.object()
		if err != nil {
			rec.SetupErr = err.Error()
			return rec
		}
		c14Inject = append(c14Inject, o)
	}
	if len(job.Steps) > 0 {
		var err error
		if s, buf, rec.Sess, err = c14RunSteps(s, buf, job); err != nil {
			rec.SetupErr = err.Error()
			return rec
		}
	}
	// the file the history left behind: save() below writes over it, and an auto-save that finds nothing changed
	// since keeps it
	left, leftErr := os.ReadFile(repl.AutoSaveFile)
	rec.Globals = c14Globals(s)
	// the bytes: State.SaveGlobals with the limit, without it, through save() and through repl.AutoSave
	var fb bytes.Buffer
	s.MaxValueLen = job.Lim
	n, err := s.SaveGlobals(&fb)
	if err != nil {
		rec.SetupErr = "SaveGlobals: " + err.Error()
		return rec
	}
	rec.N, rec.File = n, fb.Bytes()
	rec.NU = n
	if job.Lim > 0 {
		var fu bytes.Buffer
		s.MaxValueLen = 0
		rec.NU, _ = s.SaveGlobals(&fu)
		rec.FileU = fu.Bytes()
		s.MaxValueLen = job.Lim
	}
	// save() finds what the history left in the directory (a case without history: nothing, a first save)
	if _, err, _ := c14Eval(s, "save()", 10*time.Second); err != nil {
		rec.SaveErr = err.Error()
	}
	rec.SaveExt, err = c14ReadFileAndRemove(repl.AutoSaveFile)
	if err != nil && rec.SaveErr == "" {
		rec.SaveErr = err.Error()
	}
	// the same into a file with a name; what an earlier save left there is what the history left in ./.gr
	if leftErr == nil {
		_ = os.WriteFile(c14NamedFile, left, 0o644)
	}
	if _, err, _ := c14Eval(s, `save("c14named")`, 10*time.Second); err != nil {
		rec.NameErr = err.Error()
	}
	rec.SaveName, err = c14ReadFileAndRemove(c14NamedFile)
	if err != nil && rec.NameErr == "" {
		rec.NameErr = err.Error()
	}
	if leftErr == nil {
		_ = os.WriteFile(repl.AutoSaveFile, left, 0o644)
	}
	if err := repl.AutoSave(s, repl.Options{AutoSave: true, MaxValueLen: job.Lim}); err != nil {
		rec.AutoErr = err.Error()
	}
	rec.AutoSave, err = c14ReadFileAndRemove(repl.AutoSaveFile)
	if err != nil && rec.AutoErr == "" {
		rec.AutoErr = err.Error()
	}
	if rec.SaveExt == nil {
		rec.SaveExt = []byte{}
	}
	if rec.AutoSave == nil {
		rec.AutoSave = []byte{}
	}
	if rec.SaveName == nil {
		rec.SaveName = []byte{}
	}
	// what the saving session holds, and how its functions behave
	var plan []string
	var rootEnv *object.Environment
	if top, err, _ := c14Eval(s, "()=>1", 2*time.Second); err == nil {
		if f, ok := top.(object.Function); ok {
			rootEnv = f.Env
		}
	}
	for _, name := range rec.Globals {
		o, ok := c14Lookup(s, name)
		if !ok {
			continue
		}
		ins := o.Inspect()
		b := c14BindObs{Name: name, Val: objJSON(o), Kind: c14Kind(o), Inspect: len(ins), NL: strings.Contains(ins, "\n")}
		if f, isF := o.(object.Function); isF {
			if f.Name != nil {
				b.Own = f.Name.Literal()
			}
			b.Faithful = c14Faithful(f)
		}
		rec.Binds = append(rec.Binds, b)
		if pre, isPre := c14Pre[name]; isPre && pre == ins {
			continue // an untouched pre-seeded binding: compared as a value, not called
		}
		c14NamedFns(o, 0, func(fn object.Function) {
			own := fn.Name.Literal()
			if _, top := o.(object.Function); top && own == name {
				return // bound under its own name
			}
			fo := c14Foreign{Holder: name, Own: own, Other: true}
			if o2, ok := c14Lookup(s, own); ok {
				if f2, isF := o2.(object.Function); isF && f2.Name != nil && f2.Inspect() == fn.Inspect() {
					fo.Other = false
				}
			}
			rec.Foreign = append(rec.Foreign, fo)
		})
		if b.Kind == "func" || b.Kind == "mixed" {
			c14FuncPaths(name, o, 0, func(path string, fn object.Function) {
				fi := c14FuncInfo{Path: path, Faithful: c14Faithful(fn), Closure: rootEnv != nil && fn.Env != rootEnv,
					Escapes: c14HasBadEscape(dumpStmts(fn.Body))}
				if fn.Name != nil {
					fi.Own = fn.Name.Literal()
				}
				loss := map[string]bool{}
				c14LossClasses(dumpStmts(fn.Body), loss)
				if (fn.Lambda || fn.Name == nil) && len(fn.Body.Statements) == 1 {
					if b := c14Stmts(dumpStmts(fn.Body)); len(b) == 1 && b[0]["k"] == "asg" {
						loss["lambda-assignment-body"] = true
					}
				}
				for k := range loss {
					fi.Loss = append(fi.Loss, k)
				}
				sort.Strings(fi.Loss)
				rec.Funcs = append(rec.Funcs, fi)
				plan = append(plan, c14CallPlan(path, fn)...)
			})
		}
	}
	for _, expr := range plan {
		rec.Calls = append(rec.Calls, c14DoCall(s, buf, expr))
	}
	if rec.Calls == nil {
		rec.Calls = []c14Call{}
	}
	return rec
}

func c14Observe(s *eval.State, buf *bytes.Buffer, job c14LoadJob, loadErr error) (o c14LoadObs) {
	if loadErr != nil {
		o.Err = loadErr.Error()
		if len(o.Err) > 300 {
			o.Err = o.Err[:300]
		}
	}
	for _, name := range job.Names {
		v, ok := c14Lookup(s, name)
		b := c14LoadBind{Name: name, Present: ok, Val: J{"t": "nil"}}
		if ok {
			b.Val = objJSON(v)
			if f, isF := v.(object.Function); isF && f.Name != nil {
				b.Own = f.Name.Literal()
			}
		}
		o.Binds = append(o.Binds, b)
	}
	var fb bytes.Buffer
	s.MaxValueLen = job.Lim
	_, _ = s.SaveGlobals(&fb)
	o.Resave = fb.Bytes()
	if o.Resave == nil {
		o.Resave = []byte{}
	}
	o.Calls = []c14Call{}
	for _, expr := range job.Calls {
		o.Calls = append(o.Calls, c14DoCall(s, buf, expr))
	}
	if o.Binds == nil {
		o.Binds = []c14LoadBind{}
	}
	return o
}

func c14Load(job c14LoadJob) (rec c14LoadRec) {
	rec.ID = job.ID
	if err := os.WriteFile(repl.AutoSaveFile, job.File, 0o644); err != nil {
		rec.A.Err, rec.W.Err = "harness: "+err.Error(), "harness: "+err.Error()
		return rec
	}
	defer os.Remove(repl.AutoSaveFile)
	// (a) a fresh session auto-loads ./.gr line by line
	s1, b1 := c14NewState()
	var err error
	func() {
		defer func() {
			if r := recover(); r != nil {
				err = fmt.Errorf("panic: %v", r)
			}
		}()
		// the loading session is configured like the saving one (grol -max-save-len applies to both)
		s1.MaxValueLen = job.Lim
		err = repl.AutoLoad(s1, repl.Options{AutoLoad: true, MaxValueLen: job.Lim})
	}()
	rec.A = c14Observe(s1, b1, job, err)
	// (b) a fresh session evaluates load(): the whole file as one program - for every other case from a file with a name
	s2, b2 := c14NewState()
	loadSrc := "load()"
	if h := fnv.New32a(); true {
		_, _ = h.Write([]byte(job.ID))
		if h.Sum32()%2 == 1 && os.WriteFile(c14NamedFile, job.File, 0o644) == nil {
			loadSrc = `load("c14named")`
			defer os.Remove(c14NamedFile)
		}
	}
	_, err, _ = c14Eval(s2, loadSrc, 20*time.Second)
	rec.W = c14Observe(s2, b2, job, err)
	return rec
}
