package main

// `vh sem <file>`: debugging aid - programs separated by lines "----" are run on the real
// interpreter and validated against the reference semantics; prints one verdict per program.

import (
	"fmt"
	"math/rand"
	"os"
	"strings"
	"time"
)

func semDebug(args []string) {
	b, err := os.ReadFile(args[0])
	if err != nil {
		fmt.Println(err)
		os.Exit(2)
	}
	c := NewCtx("SEM", "quick")
	var cases []semCase
	for i, src := range strings.Split(string(b), "\n----\n") {
		prog, errs := parseFile(src)
		if len(errs) > 0 {
			fmt.Printf("#%d PARSE ERROR %v\n%s\n", i, errs, src)
			continue
		}
		dump := dumpStmts(prog) // dump before evaluation (DefineMacros mutates the tree)
		o := runSource(src, RunOpt{})
		cases = append(cases, semCase{ID: i, Src: src, Prog: dump, Obs: o})
	}
	t0 := time.Now()
	vs, err := semValidate(c, cases, 200000, 1, 4)
	fmt.Println("TLC wall:", time.Since(t0))
	if err != nil {
		fmt.Println("TLC:", err)
		os.Exit(2)
	}
	bad := 0
	for _, cs := range cases {
		v := vs[cs.ID]
		if v.V == "ok" {
			fmt.Printf("#%d ok\n", cs.ID)
			continue
		}
		bad++
		fmt.Printf("#%d %s\n  src: %s\n  real: out=%q val=%s err=%v(%s) panic=%v(%s)\n  model: out=%q val=%q err=%v\n", cs.ID, v.V,
			strings.ReplaceAll(cs.Src, "\n", "\n       "), cs.Obs.Out, jstr(cs.Obs.Val), cs.Obs.Err, cs.Obs.ErrMsg, cs.Obs.Panicked, cs.Obs.PanicMsg,
			v.PredOut(), v.PredVal(), v.Err)
	}
	fmt.Printf("%d programs, %d disagreements\n", len(cases), bad)
	os.RemoveAll(c.scratch)
}

// `vh gen <n> <seed>`: print n generated programs separated by ---- lines.
func genDebug(args []string) {
	n, seed := 5, int64(1)
	if len(args) > 0 {
		fmt.Sscan(args[0], &n)
	}
	if len(args) > 1 {
		fmt.Sscan(args[1], &seed)
	}
	for i := 0; i < n; i++ {
		g := NewGen(rand.New(rand.NewSource(seed*1000003 + int64(i))))
		prog := g.Program(3 + g.pick(8))
		if i > 0 {
			fmt.Println("----")
		}
		fmt.Print(renderProgram(prog))
	}
}

// `vh ss`: print the small-scope programs (debugging aid).
func ssDebug(args []string) {
	for i, s := range smallScopePrograms(len(args) > 0) {
		if i > 0 {
			fmt.Println("----")
		}
		fmt.Print(renderProgram(s.Prog))
	}
}
