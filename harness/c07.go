package main

// C07 - no program can crash the evaluator (totality of GrolSem + the two documented guards).

import (
	"bufio"
	"encoding/json"
	"fmt"
	"math/rand"
	"os"
	"os/exec"
	"path/filepath"
	"sort"
	"strconv"
	"strings"
	"time"

	"grol.io/grol/extensions"
	"grol.io/grol/object"
)

func init() {
	props["C07"] = propDef{check: checkC07, replay: replayC07,
		rule: "case = one program (small-scope operator/builtin/control matrix over the value universe, every registered extension applied to every kind of value, wild untyped programs, byte mutations of the shipped examples) evaluated on the real interpreter under recover(); distinct by source text; non-trivial when it parses and contains at least one operator, call or builtin"}
	workers["c07"] = c07Worker
}

const mutChars = "0123456789+-*/%<>=!&|^~()[]{},;:.\"'` \nabcxyz"

func allowedGuardPanic(msg string) bool {
	return strings.HasPrefix(msg, "max depth") || strings.HasPrefix(msg, "would exceed memory")
}

func panicSignature(o Obs) string {
	at := o.PanicAt
	if at == "" {
		at = "?"
	}
	return "panic:" + at + ":" + firstWords(o.PanicMsg, 5)
}

type c07Job struct {
	ID  int    `json:"id"`
	Src string `json:"src"`
}
type c07Res struct {
	ID       int    `json:"id"`
	Parsed   bool   `json:"parsed"`
	Panicked bool   `json:"panicked"`
	Msg      string `json:"msg"`
	At       string `json:"at"`
	Err      bool   `json:"err"`
}

// c07Worker evaluates a batch of programs in this (child) process and reports each result as it goes.
func c07Worker(args []string) {
	if err := extensions.Init(nil); err != nil {
		fmt.Fprintln(os.Stderr, err)
		os.Exit(2)
	}
	registerVerifExtensions()
	in, err := os.Open(args[0])
	if err != nil {
		os.Exit(2)
	}
	out, err := os.Create(args[1])
	if err != nil {
		os.Exit(2)
	}
	sc := bufio.NewScanner(in)
	sc.Buffer(make([]byte, 1<<20), 1<<26)
	enc := json.NewEncoder(out)
	for sc.Scan() {
		var j c07Job
		if json.Unmarshal(sc.Bytes(), &j) != nil {
			continue
		}
		o := runSource(j.Src, RunOpt{MaxDepth: 2000, Timeout: 300 * time.Millisecond})
		_ = enc.Encode(c07Res{ID: j.ID, Parsed: !o.ParseErr, Panicked: o.Panicked, Msg: o.PanicMsg, At: o.PanicAt, Err: o.Err})
		_ = out.Sync()
	}
	os.Exit(0)
}

// runInChildren evaluates jobs in child processes (memory-limited); returns results by id and the
// ids of jobs during which a child died (confirmed by re-running the job alone).
func runInChildren(c *Ctx, jobs []c07Job, par int) (map[int]c07Res, []int, error) {
	res := map[int]c07Res{}
	var died []int
	exe, _ := os.Executable()
	type batch struct{ lo, hi int }
	const per = 400
	var batches []batch
	for lo := 0; lo < len(jobs); lo += per {
		batches = append(batches, batch{lo, min(lo+per, len(jobs))})
	}
	type outT struct {
		rs   []c07Res
		dead int // id of the job that killed the child, -1
		err  error
	}
	runBatch := func(js []c07Job, tag string) outT {
		inF := filepath.Join(c.Scratch(), "c07-"+tag+".in")
		outF := filepath.Join(c.Scratch(), "c07-"+tag+".out")
		f, _ := os.Create(inF)
		enc := json.NewEncoder(f)
		for _, j := range js {
			_ = enc.Encode(j)
		}
		f.Close()
		cmd := exec.Command(exe, "worker", "c07", inF, outF)
		cmd.Env = append(os.Environ(), "GOMEMLIMIT=1GiB", "LOGGER_LEVEL=Critical")
		cmd.Stdin = nil
		done := make(chan error, 1)
		if err := cmd.Start(); err != nil {
			return outT{err: err, dead: -1}
		}
		go func() { done <- cmd.Wait() }()
		var werr error
		select {
		case werr = <-done:
		case <-time.After(time.Duration(len(js))*500*time.Millisecond + 30*time.Second):
			_ = cmd.Process.Kill()
			werr = fmt.Errorf("timeout")
			<-done
		}
		var rs []c07Res
		_ = ReadLines(outF, func(line []byte) error {
			var r c07Res
			if json.Unmarshal(line, &r) == nil {
				rs = append(rs, r)
			}
			return nil
		})
		o := outT{rs: rs, dead: -1}
		if werr != nil && len(rs) < len(js) {
			o.dead = js[len(rs)].ID
		}
		return o
	}
	sem := make(chan struct{}, par)
	outs := make([]outT, len(batches))
	doneCh := make(chan int, len(batches))
	for bi, b := range batches {
		go func(bi int, b batch) {
			sem <- struct{}{}
			defer func() { <-sem }()
			js := jobs[b.lo:b.hi]
			var all []c07Res
			dead := -1
			tag := fmt.Sprint(bi)
			for len(js) > 0 {
				o := runBatch(js, tag)
				all = append(all, o.rs...)
				if o.dead < 0 {
					break
				}
				// confirm alone, then continue after it
				k := len(o.rs)
				alone := runBatch(js[k:k+1], tag+"a")
				if alone.dead >= 0 {
					dead = o.dead
					all = append(all, c07Res{ID: o.dead, Parsed: true, Panicked: true, Msg: "process died"})
				} else {
					all = append(all, alone.rs...)
				}
				js = js[k+1:]
			}
			outs[bi] = outT{rs: all, dead: dead}
			doneCh <- bi
		}(bi, b)
	}
	for range batches {
		<-doneCh
	}
	for _, o := range outs {
		for _, r := range o.rs {
			res[r.ID] = r
		}
		if o.dead >= 0 {
			died = append(died, o.dead)
		}
	}
	return res, died, nil
}

// wild: untyped random ASTs (deliberately ill-typed programs).
type wildGen struct {
	r     *rand.Rand
	names []string
}

func (w *wildGen) atom() J {
	if w.r.Intn(25) == 0 { // control statements wherever the parser takes an expression (break / continue are expressions to it)
		return J{"k": []string{"brk", "cnt"}[w.r.Intn(2)]}
	}
	switch w.r.Intn(10) {
	case 0:
		return nInt([]int64{0, 1, -1, 2, 64, 9223372036854775807, -9223372036854775808}[w.r.Intn(7)])
	case 1:
		return nFloat([]float64{0, 1.5, -2.5, 1e300}[w.r.Intn(4)])
	case 2:
		return nBool(w.r.Intn(2) == 0)
	case 3:
		return nStr([]string{"", "a", "ab\x00", "h\xc3\xa9", "\xff"}[w.r.Intn(5)])
	case 4:
		return nId("nil")
	case 5:
		return nArr()
	case 6:
		return nMap()
	default:
		return nId(w.names[w.r.Intn(len(w.names))])
	}
}

func (w *wildGen) expr(d int) J {
	if d <= 0 || w.r.Intn(4) == 0 {
		return w.atom()
	}
	switch w.r.Intn(16) {
	case 0, 1, 2:
		return nInf(ssInfix[w.r.Intn(len(ssInfix))], w.expr(d-1), w.expr(d-1))
	case 3:
		return nPre([]string{"!", "-", "~", "^", "+", "++", "--"}[w.r.Intn(7)], w.expr(d-1))
	case 4:
		return nPost([]string{"++", "--"}[w.r.Intn(2)], w.names[w.r.Intn(len(w.names))])
	case 5:
		return nIdx(w.expr(d-1), w.expr(d-1))
	case 6:
		return nIdx(w.expr(d-1), nInf(":", w.expr(d-1), w.expr(d-1)))
	case 7:
		return nDot(w.expr(d-1), []string{"k", "key", "value", "err"}[w.r.Intn(4)])
	case 8:
		n := w.r.Intn(4)
		args := make([]J, n)
		for i := range args {
			args[i] = w.expr(d - 1)
		}
		return nCall(w.expr(d-1), args...)
	case 9:
		n := w.r.Intn(3)
		args := make([]J, n)
		for i := range args {
			args[i] = w.expr(d - 1)
		}
		return nBi([]string{"len", "first", "rest", "print", "println", "catch", "error", "del"}[w.r.Intn(8)], args...)
	case 10:
		n := w.r.Intn(4)
		es := make([]J, n)
		for i := range es {
			es[i] = w.expr(d - 1)
		}
		return nArr(es...)
	case 11:
		return nMap([2]J{w.expr(d - 1), w.expr(d - 1)}, [2]J{w.expr(d - 1), w.expr(d - 1)})
	case 12:
		ps := []string{"p", "q", ".."}[:w.r.Intn(4)%3+0]
		return nFn("", ps, len(ps) > 0 && ps[len(ps)-1] == "..", w.r.Intn(2) == 0, w.block(d-1))
	case 13:
		if w.r.Intn(4) == 0 { // an if whose branch returns: a `return` value reaching an operand / element / argument position
			return nIfElse(w.expr(d-1), []any{nRet(w.expr(d - 1))}, w.block(d-1))
		}
		return nIfElse(w.expr(d-1), w.block(d-1), w.block(d-1))
	case 14:
		return nAsg(w.r.Intn(3) == 0, w.expr(d-1), w.expr(d-1))
	default:
		return nFor(nAsg(false, nId(w.names[w.r.Intn(len(w.names))]), w.expr(d-1)), w.block(d-1))
	}
}

func (w *wildGen) block(d int) []any {
	n := 1 + w.r.Intn(3)
	var out []any
	for i := 0; i < n; i++ {
		switch w.r.Intn(8) {
		case 0:
			out = append(out, nRet(w.expr(d)))
		case 1:
			out = append(out, J{"k": "brk"})
		case 2:
			out = append(out, J{"k": "cnt"})
		case 3:
			out = append(out, nAsg(false, nId(w.names[w.r.Intn(len(w.names))]), w.expr(d)))
		default:
			out = append(out, w.expr(d))
		}
	}
	return out
}

func checkC07(c *Ctx) {
	var jobs []c07Job
	kind := map[int]string{}
	add := func(k, src string) {
		id := len(jobs)
		jobs = append(jobs, c07Job{ID: id, Src: src})
		kind[id] = k
	}
	// 1. small-scope matrix, validated against the reference semantics (class value / error) by TLC
	ss := smallScopePrograms(c.Thorough())
	for _, cs := range c01SmallScope(c.Thorough()) {
		if cs.Group == "call" || cs.Group == "variadic" {
			ss = append(ss, ssCase{Group: cs.Group, Prog: cs.Prog})
		}
	}
	var semCases []semCase
	stride := 1
	if !c.Thorough() {
		stride = 2
	}
	for i, s := range ss {
		if (i+int(c.Seed))%stride != 0 {
			continue
		}
		src := renderProgram(s.Prog)
		o := runSource(src, RunOpt{MaxDepth: 2000, Timeout: time.Second})
		c.Case(src, !o.ParseErr)
		if o.ParseErr {
			c.Fail("small-scope-program-does-not-parse", o.ErrMsg, map[string]any{"check": "matrix", "src": src})
			continue
		}
		if o.Panicked && !allowedGuardPanic(o.PanicMsg) {
			c.Fail(panicSignature(o), fmt.Sprintf("%s panicked: %s (at %s)", strings.TrimSpace(src), o.PanicMsg, o.PanicAt), map[string]any{"check": "matrix", "src": src})
			continue
		}
		semCases = append(semCases, semCase{ID: len(semCases), Src: src, Prog: s.Prog, Obs: o})
	}
	vs, err := semValidate(c, semCases, 3000, c.Pick(4, 8), 2)
	if err != nil {
		c.Infra(err)
		return
	}
	disagree := map[string]int{}
	for _, cs := range semCases {
		v := vs[cs.ID]
		switch v.V {
		case "ok", "fuel":
			c.AddTraces(1)
		case "panic":
			// already reported above
		default:
			// outcome differs from the reference semantics but nothing crashed: C01's business, noted here
			disagree[v.V]++
			if len(disagree) <= 3 && disagree[v.V] <= 3 {
				c.Note("model_disagreement (%s): %s real out=%q err=%v(%s) / reference out=%q err=%v", v.V, strings.TrimSpace(cs.Src), cs.Obs.Out, cs.Obs.Err, cs.Obs.ErrMsg, v.PredOut(), v.Err)
			}
		}
	}
	c.Cov("model_disagreement", disagree)
	c.Sample(map[string]any{"matrix": strings.TrimSpace(semCases[len(semCases)/2].Src)})

	// 2. every registered extension x kinds of values, 0..3 arguments (child processes)
	names := make([]string, 0)
	for n := range object.ExtraFunctions() {
		names = append(names, n)
	}
	sort.Strings(names)
	c.Cov("extensions_enumerated", len(names))
	argU := []string{"0", "1", "-1", "3000000000", "1.5", "(0.0/0.0)", "true", "nil", `""`, `"a"`, `"%d %s %v"`, `"h\xc3\xa9llo"`, "[]", "[1,2]", "(1:12)", "{}", `{"a":1}`, "{1:1,2:2,3:3,4:4,5:5}", "(x => x)", "println"}
	small := []string{"0", "-1", "1.5", "nil", `"a"`, "[1,2]", `{"a":1}`, "(x => x)"}
	for _, n := range names {
		if n == "read" { // stdin is closed in the child: returns at once
		}
		add("ext0", n+"()")
		for _, a := range argU {
			add("ext1", fmt.Sprintf("%s(%s)", n, a))
		}
		two := argU
		if !c.Thorough() {
			two = small
		}
		for _, a := range two {
			for _, b := range two {
				add("ext2", fmt.Sprintf("%s(%s, %s)", n, a, b))
			}
		}
		for i := 0; i < c.Pick(10, 120); i++ {
			r := rand.New(rand.NewSource(c.Seed*31 + int64(i) + int64(len(n))*1000))
			add("ext3", fmt.Sprintf("%s(%s, %s, %s)", n, argU[r.Intn(len(argU))], argU[r.Intn(len(argU))], argU[r.Intn(len(argU))]))
		}
		// as a value (printing, comparing, calling through a variable)
		add("extv", fmt.Sprintf("f = %s; println(f == f, f < 1); f", n))
	}
	// 2b. interaction families and stateful extension sequences
	for _, src := range interactionPrograms() {
		add("interaction", src)
	}
	deepS, _ := deepRegisterSessions(int(c.Seed))
	for _, in := range deepS { // many integer parameters x deep counted-loop nesting x every exit, as one program each
		add("registers", strings.Join(in[:min(len(in), 6)], "\n"))
	}
	for _, n := range names {
		if !strings.HasPrefix(n, "image.") {
			continue
		}
		for _, a := range argU {
			add("image", fmt.Sprintf(`image.new("x", 10, 10); %s("x", %s)`, n, a))
			add("image", fmt.Sprintf(`image.new("x", 10, 10); %s("x", %s, %s)`, n, a, a))
			add("image", fmt.Sprintf(`image.new("x", 10, 10); image.move_to("x", 1, 1); %s("x", 1, 2, %s)`, n, a))
		}
	}
	for _, body := range []string{`println("x"); quote(unquote(a))`, `f = func() {1}; quote(unquote(a) + 1)`, `quote(unquote(a) + unquote(b))`, `1`, `error("no")`, `quote(unquote(zz))`, `x = [1]; x[0] = 2; quote(unquote(a))`} {
		for _, use := range []string{"m(1)", "m(1, 2)", "m()", "m(m(1))", "x = m", "m.x = macro(a) {quote(1)}", `[m(1), m("s")]`, "func() {m(1)}()"} {
			add("macro", fmt.Sprintf("m = macro(a) {%s}; %s", body, use))
			add("macro", fmt.Sprintf("m = macro(a, b) {%s}; %s", body, use))
			// an all caps (constant) macro name, defined again (same / other definition), rebound, deleted
			mu := strings.ReplaceAll(use, "m", "MAC")
			add("macro", fmt.Sprintf("MAC = macro(a) {%s}; %s", body, mu))
			add("macro", fmt.Sprintf("MAC = macro(a) {%s}; MAC = macro(a) {%s}; %s", body, body, mu))
			add("macro", fmt.Sprintf("MAC = macro(a) {%s}; MAC = macro(a, b) {quote(2)}; %s; MAC = 1; del(MAC); %s", body, mu, mu))
			add("macro", fmt.Sprintf("m = macro(a) {%s}; m = macro(a) {quote(3)}; %s; f = func() {m = macro(b) {quote(4)}; %s}; f()", body, use, use))
		}
	}
	// 2c. control values (break, continue, a returning if) in every value position, at top level, in a loop, in a function
	for _, cv := range []string{"break", "continue", "if true {return 5} else {1}", "if x == x {break}"} {
		for _, use := range []string{"[C] == [C]", "[C] < [C]", "{1: C}", "{C: 1}", "g(C)", "g(C, C)", "[C][0]", "len([C])", "first([C])", "rest([C, C])", "m = {}; m[[C]] = 1; m", "y = [C]; y + y",
			"min(C, 1)", "max([C])", "println([C])", "join([C])", "[C] + [1]", "[[C]] == [[C]]", "for z = [C] {z}", "catch([C])", "json([C])", "-[C][0]", "{1: [C]} == {1: [C]}",
			"keys({[C]: 1})", "y = C", "y := [C, C]; y[1]", "[C][C]", "[1, 2][C:C]", "C + 1", "1 + C", "!C", "type(C)", "int(C)", "str([C])", "sprintf(\"%v\", [C])", "(x => x)(C)", "[C].k", "del([C])", "quote(C)", "eval(\"[C]\")"} {
			u := strings.ReplaceAll(use, "C", cv)
			add("control", "x = 1; g = func(a, ..) {[a, ..]}; "+u)
			add("control", "x = 1; g = func(a, ..) {[a, ..]}; for i = 3 {"+u+"}")
			add("control", "x = 1; g = func(a, ..) {[a, ..]}; f = func() {"+u+"}; f()")
			add("control", "x = 1; g = func(a, ..) {[a, ..]}; f = func(n) {for i = n {"+u+"}}; f(2)")
		}
	}
	// 2d. introspection (info) evaluated at every call depth and closure shape, its parts printed, compared, indexed, serialised
	for _, shape := range []string{"U", "g = func() {U}; g()", "g = func() {U}; f = func() {g()}; f()", "g = func() {U}; f = func() {g()}; h = func() {f()}; h()",
		"mk = func() {func() {func() {U}}}; mk()()()", "mk = func() {func() {U}}; f = func(k) {k()}; f(mk())", "f = func(n) {if n == 0 {U} else {f(n - 1)}}; f(3)",
		"for i = 2 {g = func() {U}; g()}", "f = func(a, b) {for i = a {g = func() {U}; g()}}; f(2, 3)", "m = macro(x) {quote(unquote(x))}; f = func() {m(U)}; f()"} {
		for _, use := range []string{"info", "info.stack", "info.globals", "println(info.stack)", "info.stack == info.stack", "info == info", "len(info.stack)", "info.stack[0]", "info.stack[-1]",
			"json(info.stack)", "str(info)", "first(info.stack)", "rest(info.stack)", "for s = info.stack {println(s)}", "keys(info)", "info.stack + info.stack", "x = info; x.stack = 1; x", "[info.stack] == [info.stack]", "{info.stack: 1}"} {
			add("info", strings.ReplaceAll(shape, "U", use))
		}
	}
	// 2e. an extension whose earlier argument is an outer variable that a later argument deletes, rebinds or increments
	for _, ext := range []string{"min", "max", "json_go", "sprintf", "join", "split", "pow", "atan2", "regsub", "trim", "runes", "int", "type", "json", "str", "printf"} {
		for _, second := range []string{"del(x)", "x = 5", "++x", "x = nil", "(func() {del(x); 1})()", "catch(del(x)).err", "[del(x)]"} {
			for _, init := range []string{"[1]", "3", `"s"`, "2.5", "{1: 2}"} {
				add("extref", fmt.Sprintf("x = %s; g = func() {%s(x, %s)}; g(); x", init, ext, second))
				add("extref", fmt.Sprintf("x = %s; g = func() {y = x; %s(x, %s, x)}; g()", init, ext, second))
				add("extref", fmt.Sprintf("x = %s; %s(x, %s)", init, ext, second))
			}
		}
	}
	// 2f. a container stored into itself or into its own element after an index assignment (a value, so never a cycle)
	for _, init := range []string{"1:12", "[1, 2, 3]", `{"a": 1, "b": 2, "c": 3, "d": 4, "e": 5}`, `{"a": 1}`} {
		for _, self := range []string{"a[1] = a", "a[0] = [a]", `a.z = a`, `a["a"] = {"k": a}`, "a = a + [a]", "a[1] = a; a[1] = a", "b = a; b[0] = a; a[0] = b", "f = func(p) {p[0] = p; p}; a = f(a)"} {
			add("selfstore", fmt.Sprintf(`a = %s; a[0] = 100; %s; a[0] = 200; println(a); println(a == a, len(a), json(a))`, init, self))
		}
	}
	// 2g. two images of every pair of sizes combined, drawn and read at and beyond their borders
	for _, wa := range []int{0, 1, 4, 8} {
		for _, ha := range []int{0, 1, 4, 8} {
			for _, wb := range []int{1, 4, 8, 9} {
				for _, hb := range []int{1, 4, 9} {
					add("image2", fmt.Sprintf(`image.new("a", %d, %d); image.new("b", %d, %d); image.set("b", 0, 0, [255, 0, 0]); image.add("a", "b"); image.add("b", "a"); image.add("a", "a")`, wa, ha, wb, hb))
				}
			}
		}
	}
	for _, xy := range []string{"0, 0", "3, 3", "4, 4", "-1, 0", "0, -1", "4, 0", "100, 100", "1.5, 2", `"a", 1`} {
		for _, fn := range []string{"image.set", "image.set_hsl", "image.set_ycbcr"} {
			add("image2", fmt.Sprintf(`image.new("a", 4, 4); %s("a", %s, [1, 2, 3]); %s("a", %s, [1, 2, 3, 4]); %s("zz", %s, [1, 2, 3])`, fn, xy, fn, xy, fn, xy))
		}
		add("image2", fmt.Sprintf(`image.new("a", 4, 4); image.move_to("a", %s); image.line_to("a", %s); image.quad_to("a", %s, %s); image.cube_to("a", %s, %s, %s); image.close_path("a"); image.draw("a", [1, 2, 3])`, xy, xy, xy, xy, xy, xy, xy))
	}
	// 2g'. histories on one image: every shape (square, wide, tall, a single row / column) drawn on repeatedly with every draw
	//      function, the path touching every corner: what a draw leaves behind (the rasterizer) is what the next one starts from
	for _, w := range []int{1, 2, 4, 9} {
		for _, h := range []int{1, 2, 4, 9} {
			for _, fn := range []string{"image.draw", "image.draw_hsl", "image.draw_ycbcr"} {
				path := fmt.Sprintf(`image.move_to("a", 0, 0); image.line_to("a", %d, 0); image.line_to("a", %d, %d); image.line_to("a", 0, %d); image.close_path("a")`, w, w, h, h)
				add("imagehist", fmt.Sprintf(`image.new("a", %d, %d); for r = 3 {%s; %s("a", [10, 20, 30])}; image.set("a", %d, %d, [1, 2, 3]); image.add("a", "a"); println(len(image.png("a")) > 0)`, w, h, path, fn, w-1, h-1))
				add("imagehist", fmt.Sprintf(`image.new("a", %d, %d); %s; image.draw("a", [1, 2, 3]); image.new("a", %d, %d); %s; %s("a", [1, 2, 3]); %s; %s("a", [1, 2, 3, 4])`, h, w, path, w, h, path, fn, path, fn))
			}
		}
	}
	// 2g''. containers that shrank (del, slices, rest) while holding a value of every kind, then used where the whole container is
	//      looked at: argument of a user function (cache key), map key, comparison, sort, json, set membership
	for _, v := range []string{"(x => x)", "(0:12)", "{1: (x => x)}", "-0.0", "nil", "[(x => x)]", "quote(a + b)", "println", `{"a": 1, "b": 2, "c": 3, "d": 4, "e": 5}`, "NaN"} {
		for _, mk := range []string{"m = {1: 1, 2: V}; del(m[2])", "m = {1: 1, 2: 2, 3: V}; del(m[3]); del(m[2])", "m = {1: V, 2: 1}; del(m[1])", "m = [1, V][0:1]", "m = rest([V, 1])",
			"m = {1: 1, 2: V}; m = rest(m)", `m = {"k": {1: 1, 2: V}}; del(m.k[2])`, "m = {1: 1, 2: 2, 3: 3, 4: 4, 5: V}; del(m[5])", "m = [{1: 1, 2: V}]; del(m[0][2])", "m = [V, 1, 2]; m = m[1:]"} {
			add("shrunkarg", strings.ReplaceAll(mk, "V", v)+"; f = func(q) {len(q)}; println(f(m), f(m)); g = func(a, b) {a == b}; println(g(m, m)); println({m: 1}); println(m == m, m < m, json(m)); println(sort([m, m])); println(f([m]), f({1: m}))")
		}
	}
	// 2g-n. every kind of statement run by a NESTED evaluator: the blank state of unjson(), eval() in the current scope, a macro
	//      body (its own evaluator, its scope hangs off the macro store), defun; environments made for those differ from a
	//      session root in what they have been given
	for _, prog := range []string{"func() {x = 1}()", "f = func(n) {t = n; t}; f(1)", "x = 1; x++; x", "for i = 3 {y = i}; y", "A = 1; A", "zz = 1; del(zz)", "m = {}; m.a = 1; m", "f = func(..) {..}; f(1, 2)",
		"g = func() {func() {q = 1}()}; g()", "f = func(A) {A}; f(1); A = 2", "r = func(n) {if n == 0 {return 0}; w = r(n - 1); w + 1}; r(3)", "a = [1, 2]; a[0] = 5; a", "k = 1; k := 2; k", "for kv = {1: 2} {z = kv.key}; z",
		"f = func() {y2 = 5; y2}; f(); y2 = 1; f()", "c = catch(1 / 0); c.err", "println(1); 2", "info.globals", "self", "x = nil; x"} {
		q := strconv.Quote(prog)
		add("nested", "unjson("+q+")")
		add("nested", "eval("+q+")")
		add("nested", "f = func() {eval("+q+")}; f()")
		add("nested", "m = macro(a) {"+prog+"; quote(unquote(a))}\nm(1)")
		add("nested", "m = macro(a) {h = func() {"+prog+"}; h(); quote(unquote(a))}\nm(1)")
		add("nested", `defun("nf", [], [`+q+`]); nf()`)
		add("nested", "unjson("+strconv.Quote("unjson("+q+")")+")")
	}
	// 2g-x. a counted loop left in every way (error, failing operator, unknown name, break, return, continue at the last round)
	//      while enclosing counted loops of the same scope go on: the failure absorbed by catch() / log() / an if, at two and
	//      three levels, at top level and inside a function (what a loop holds on to has to be given back on every way out)
	for _, exit := range []string{`error("x")`, "1 / 0", "undefined_name", "break", "return 7", "continue", "[1][5]", `nil + 1`} {
		for _, absorb := range []string{"catch(LOOP)", "log(LOOP)", "r = catch(LOOP); if r.err {1}", "LOOP", "x = [LOOP]", "f2 = func() {LOOP}; catch(f2())"} {
			inner := "for j = 2 {" + exit + "}"
			inner3 := "for j = 2 {for k = 2 {" + exit + "}}"
			for _, in := range []string{inner, inner3, "for j = 3 {if j == 1 {" + exit + "}}"} {
				body := strings.ReplaceAll(absorb, "LOOP", in)
				add("loopexit", "for i = 2 {"+body+"}; for a = 2 {for b = 2 {println(a, b)}}; println(catch(i), catch(j))")
				add("loopexit", "f = func() {for i = 2 {"+body+"}; for a = 2 {println(a)}; 5}; println(catch(f())); for z = 2 {println(z)}")
				add("loopexit", "for i = 2 {for h = 2 {"+body+"}; println(i)}")
			}
		}
	}
	// 2h. function literals whose body is only comments / comments and one statement / empty, in every literal form
	for _, body := range []string{"", "// c\n", "// c\n// d\n", "/* c */", "/* c */ /* d */", "// c\n// d\n// e\n", "/* c */ 1", "1 /* c */", "// c\n1\n// d\n", "/* a */ /* b */ x", "// c\nx\n", "x // c\n"} {
		for _, form := range []string{"f = func() {B}", "f = func(x) {B}", "f = x => {B}", "f = () => {B}", "f = (x, y) => {B}", "func f(x) {B}", "f = func(a, ..) {B}", "m = macro(x) {B}", "[x => {B}]", `{"k": func() {B}}`} {
			src := strings.ReplaceAll(form, "B", body)
			add("fnbody", src+"\nprintln(f)\nf(1)\n[f, f] == [f, f]")
		}
	}
	// 2i. quoted code and macro templates containing every index / slice form
	for _, ix := range []string{"a[1:]", "a[:2]", "a[1:2]", "a[1]", "a.k", "a[-1:]", "a[1:][0]", "a[1:][1:]", "f(a[1:])", "[a[1:]]", "{1: a[1:]}", "-a[1:]", "a[1:] + a[:1]", "unquote(p)[1:]", "unquote(p)[:1]", "unquote(p)[unquote(p)[0]:]", "(x => x[1:])(unquote(p))"} {
		add("quoteidx", fmt.Sprintf("a = [1, 2, 3]; q = quote(%s); println(q); q", strings.ReplaceAll(ix, "unquote(p)", "a")))
		add("quoteidx", fmt.Sprintf("a = [1, 2, 3]; m = macro(p) {quote(%s)}; println(m(a)); m([4, 5, 6])", ix))
		add("quoteidx", fmt.Sprintf("a = [1, 2, 3]; f = func(n) {quote(%s)}; f(1)", strings.ReplaceAll(ix, "unquote(p)", "a[n:]")))
	}
	// 3. wild untyped programs
	nw := c.Pick(3000, 60000)
	for i := 0; i < nw; i++ {
		w := &wildGen{r: rand.New(rand.NewSource(c.Seed*9000011 + int64(i))), names: []string{"a", "b", "self", "..", "X", "info", "println"}}
		if i%3 == 1 { // a third of the programs also use the names of extension functions and root identifiers, as values and callees
			w.names = append(w.names, "min", "max", "int", "join", "split", "runes", "round", "sqrt", "trim", "abs", "keys", "sprintf", "type", "json", "str", "printf", "format", "base64", "regexp", "regsub", "width", "pow", "unjson", "PI", "NaN")
		}
		prog := append([]any{nAsg(false, nId("a"), w.expr(1)), nAsg(false, nId("b"), w.expr(1))}, w.block(3)...)
		add("wild", renderProgram(prog))
	}
	// 4. byte mutations of the shipped examples
	var files []string
	for _, pat := range []string{"examples/*.gr", "tests/*.gr"} {
		m, _ := filepath.Glob(filepath.Join(repoDir(), pat))
		files = append(files, m...)
	}
	sort.Strings(files)
	c.Cov("example_files", len(files))
	mr := rand.New(rand.NewSource(c.Seed * 77))
	for _, f := range files {
		b, err := os.ReadFile(f)
		if err != nil || len(b) == 0 || len(b) > 20000 {
			continue
		}
		for i := 0; i < c.Pick(6, 80); i++ {
			m := append([]byte{}, b...)
			switch mr.Intn(4) {
			case 0:
				m[mr.Intn(len(m))] = mutChars[mr.Intn(len(mutChars))]
			case 1:
				p := mr.Intn(len(m))
				m = append(m[:p], m[min(p+1+mr.Intn(4), len(m)):]...)
			case 2:
				p, q := mr.Intn(len(m)), mr.Intn(len(m))
				m[p], m[q] = m[q], m[p]
			default:
				p := mr.Intn(len(m))
				m = append(m[:p], append([]byte(" nil "), m[p:]...)...)
			}
			add("mutant", string(m))
		}
	}
	res, died, err := runInChildren(c, jobs, 8)
	if err != nil {
		c.Infra(err)
		return
	}
	byKind := map[string]int{}
	parsed := 0
	for _, j := range jobs {
		r, ok := res[j.ID]
		if !ok {
			c.Infra(fmt.Errorf("no result for job %d (%s)", j.ID, kind[j.ID]))
			return
		}
		byKind[kind[j.ID]]++
		if r.Parsed {
			parsed++
		}
		c.Case(j.Src, r.Parsed)
		if r.Panicked && !allowedGuardPanic(r.Msg) {
			sig := "panic:" + r.At + ":" + firstWords(r.Msg, 5)
			if r.Msg == "process died" {
				sig = "process-died"
			}
			c.Fail(sig, fmt.Sprintf("%q panicked: %s (at %s)", clip(j.Src, 300), r.Msg, r.At), map[string]any{"check": kind[j.ID], "src": j.Src})
		} else if r.Parsed {
			c.AddTraces(1)
		}
	}
	_ = died
	c.Cov("programs_by_kind", byKind)
	c.Cov("programs_parsed", parsed)
	c.Sample(map[string]any{"wild": jobs[len(jobs)/2].Src})
}

func clip(s string, n int) string {
	if len(s) > n {
		return s[:n] + "..."
	}
	return s
}

func repoDir() string {
	if d := os.Getenv("VERIF_REPO"); d != "" {
		return d
	}
	return "/repo"
}

func replayC07(rp map[string]any) (bool, string) {
	src, _ := rp["src"].(string)
	o := runSource(src, RunOpt{MaxDepth: 2000, Timeout: time.Second})
	if o.Panicked && !allowedGuardPanic(o.PanicMsg) {
		return false, fmt.Sprintf("panicked: %s (at %s)", o.PanicMsg, o.PanicAt)
	}
	return true, ""
}
