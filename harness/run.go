package main

// run: in-process drivers over grol's public API, always under recover().
// grol's token interning is a process-global unsynchronised map: single goroutine only.

import (
	"bytes"
	"context"
	"fmt"
	"runtime/debug"
	"strings"
	"time"

	"grol.io/grol/ast"
	"grol.io/grol/eval"
	"grol.io/grol/lexer"
	"grol.io/grol/object"
	"grol.io/grol/parser"
	"grol.io/grol/repl"
)

type RunOpt struct {
	NoReg    bool
	CacheOff bool
	MaxDepth int
	Timeout  time.Duration
	// inputs containing ShortFor run under the (shorter) deadline Short instead of Timeout
	ShortFor string
	Short    time.Duration
}

type Obs struct {
	Out      string `json:"out"`
	Val      J      `json:"val"`
	Err      bool   `json:"err"`
	Panicked bool   `json:"panicked"`
	ErrMsg   string `json:"-"`
	PanicMsg string `json:"-"`
	PanicAt  string `json:"-"` // innermost grol.io/grol frame
	ParseErr bool   `json:"-"`
	Cont     bool   `json:"-"`
}

func (o Obs) JSON() J {
	return J{"out": latin1(o.Out), "val": o.Val, "err": o.Err, "panicked": o.Panicked}
}

func newState(opt RunOpt) (*eval.State, *bytes.Buffer) {
	s := eval.NewState()
	buf := &bytes.Buffer{}
	s.Out = buf
	s.LogOut = buf
	s.NoLog = true
	s.NoReg = opt.NoReg
	if opt.MaxDepth > 0 {
		s.MaxDepth = opt.MaxDepth
	}
	return s, buf
}

func parseFile(src string) (*ast.Statements, []string) {
	p := parser.New(lexer.New(src))
	prog := p.ParseProgram()
	return prog, p.Errors()
}

// grolFrame extracts the innermost grol.io/grol function from a stack trace (panic call site).
func grolFrame(stack string) string {
	lines := strings.Split(stack, "\n")
	seenPanic := false
	for _, ln := range lines {
		if strings.HasPrefix(ln, "panic(") {
			seenPanic = true
			continue
		}
		if seenPanic && strings.HasPrefix(ln, "grol.io/grol/") {
			if i := strings.Index(ln, "("); i > 0 {
				return ln[:i]
			}
			return ln
		}
	}
	return ""
}

// evalProgram evaluates an already parsed program on s (macros defined/expanded like repl.evalOne does)
// and returns the observation; output is whatever was appended to buf during the call.
func evalProgram(s *eval.State, buf *bytes.Buffer, prog *ast.Statements, opt RunOpt) (o Obs) {
	start := buf.Len()
	eval.VerifCacheOff = opt.CacheOff
	to := opt.Timeout
	if to == 0 {
		to = 5 * time.Second
	}
	cancel := s.SetContext(context.Background(), to)
	defer cancel()
	defer func() {
		if r := recover(); r != nil {
			o.Panicked = true
			o.PanicMsg = fmt.Sprint(r)
			o.PanicAt = grolFrame(string(debug.Stack()))
			o.Out = buf.String()[start:]
			o.Val = J{"t": "nil"}
			s.Reset()
		}
	}()
	s.DefineMacros(prog)
	var node ast.Node = prog
	if s.NumMacros() > 0 {
		node = s.ExpandMacros(prog)
	}
	res := s.Eval(node)
	res = object.Value(res)
	o.Out = buf.String()[start:]
	o.Val = objJSON(res)
	if res.Type() == object.ERROR {
		o.Err = true
		o.ErrMsg = res.(object.Error).Value
	}
	return o
}

// runSource: fresh state, whole-file parse, evaluate.
func runSource(src string, opt RunOpt) Obs {
	prog, errs := parseFile(src)
	if len(errs) > 0 {
		return Obs{ParseErr: true, ErrMsg: strings.Join(errs, "; "), Val: J{"t": "nil"}}
	}
	markCurrent(crashMark{Src: src, Opt: opt})
	s, buf := newState(opt)
	return evalProgram(s, buf, prog, opt)
}

// replOne: one input through repl.EvalOne on a persistent state (what a REPL / bot user sees).
type ReplObs struct {
	Out      string
	Errs     []string
	Panicked bool
	Cont     bool
}

func replOne(s *eval.State, buf *bytes.Buffer, src string, opt RunOpt, lineMode bool) ReplObs {
	start := buf.Len()
	eval.VerifCacheOff = opt.CacheOff
	to := opt.Timeout
	if to == 0 {
		to = 5 * time.Second
	}
	if opt.ShortFor != "" && strings.Contains(src, opt.ShortFor) {
		to = opt.Short
	}
	o := repl.Options{All: !lineMode, ShowEval: true, NoColor: true, MaxDuration: to}
	cont, panicked, errs, _ := repl.EvalOne(context.Background(), s, src, buf, o)
	return ReplObs{Out: buf.String()[start:], Errs: errs, Panicked: panicked, Cont: cont}
}
