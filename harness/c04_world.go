package main

// C04, "world" sessions: user functions wrapping the shipped extensions whose result or effect depends on something
// outside the arguments - standard input (read, eof), the clock (time.now), the random source (rand), the file system
// (save, load), the images of the session (image.*). The wrapper is called, the world changes, the wrapper is called
// again with the same arguments: outputs with the cache on and off must agree (Equiv_Trace.tla judges the pair like
// every other C04 pair). eof()'s flag, the images and the current directory are process-wide, so every run of a
// session is its own child process (`vh worker memoworld <in> <out>`), with standard input fed from a file.

import (
	"encoding/json"
	"fmt"
	"os"
	"os/exec"
	"path/filepath"
	"syscall"

	"grol.io/grol/extensions"
)

func init() { workers["memoworld"] = memoWorldWorker }

type memoWorldJob struct {
	Inputs   []string `json:"inputs"`
	Stdin    string   `json:"stdin"`
	CacheOff bool     `json:"cache_off"`
}

func memoWorldWorker(args []string) {
	b, err := os.ReadFile(args[0])
	var job memoWorldJob
	if err != nil || json.Unmarshal(b, &job) != nil {
		fmt.Println("memoworld: bad job file")
		os.Exit(2)
	}
	dir, err := os.MkdirTemp("", "memoworld")
	if err != nil {
		fmt.Println(err)
		os.Exit(2)
	}
	defer os.RemoveAll(dir)
	_ = os.Chdir(dir)
	if err := os.WriteFile("stdin.txt", []byte(job.Stdin), 0o644); err != nil {
		fmt.Println(err)
		os.Exit(2)
	}
	f, err := os.Open("stdin.txt")
	if err != nil {
		fmt.Println(err)
		os.Exit(2)
	}
	os.Stdin = f
	if err := extensions.Init(&extensions.Config{HasLoad: true, HasSave: true}); err != nil {
		fmt.Println(err)
		os.Exit(2)
	}
	obs, _ := runHistory(job.Inputs, RunOpt{CacheOff: job.CacheOff})
	ob, _ := json.Marshal(obs)
	_ = os.Chdir("/")
	os.RemoveAll(dir)
	if err := os.WriteFile(args[1], ob, 0o644); err != nil {
		fmt.Println(err)
		os.Exit(2)
	}
	os.Exit(0)
}

func runMemoWorld(dir string, n int, inputs []string, stdin string, cacheOff bool) ([]inObs, error) {
	exe, err := os.Executable()
	if err != nil {
		return nil, err
	}
	_ = os.MkdirAll(dir, 0o755)
	inF, outF := filepath.Join(dir, fmt.Sprintf("w%d-%v.in.json", n, cacheOff)), filepath.Join(dir, fmt.Sprintf("w%d-%v.out.json", n, cacheOff))
	b, _ := json.Marshal(memoWorldJob{Inputs: inputs, Stdin: stdin, CacheOff: cacheOff})
	if err := os.WriteFile(inF, b, 0o644); err != nil {
		return nil, err
	}
	cmd := exec.Command(exe, "worker", "memoworld", inF, outF)
	cmd.Env = append(os.Environ(), "VERIF_INNER=1", "VERIF_CURRENT=")
	cmd.SysProcAttr = &syscall.SysProcAttr{Pdeathsig: syscall.SIGKILL}
	if o, err := cmd.CombinedOutput(); err != nil {
		return nil, fmt.Errorf("memoworld worker: %v: %s", err, clip(string(o), 400))
	}
	ob, err := os.ReadFile(outF)
	if err != nil {
		return nil, err
	}
	var res []inObs
	if err := json.Unmarshal(ob, &res); err != nil {
		return nil, err
	}
	_ = os.Remove(inF)
	_ = os.Remove(outF)
	return res, nil
}

const memoWorldStdin = "l1\nl2\n"

// memoWorldSessions: every session prints only what is determined by the session (never a time or a random number).
func memoWorldSessions() [][]string {
	return [][]string{
		// standard input
		{"atEnd = func() {eof()}", "println(atEnd())", "println(read())", "println(read())", "println(read())", "println(atEnd())", "println(atEnd(), eof())"},
		{"atEnd = func(x) {eof()}", "w = func(x) {atEnd(x)}", "println(w(1))", "for i = 5 {read()}", "println(w(1), eof())"},
		{"rd = func() {read()}", "println(rd())", "println(rd())", "println(rd(), eof())", "println(rd(), eof())"},
		{"w = func(x) {eof()}", "lp = func() {n = 0; for !w(1) {read(); n++; if n > 10 {break}}; n}", "println(lp())", "println(lp())"},
		{"both = func() {[read(), eof()]}", "println(both())", "println(both())", "println(both())", "println(both())"},
		// the clock and the random source: only relations are printed
		{"now = func() {time.now()}", "a = now(); sleep(0.01); b = now(); println(b > a)", "c = now(); sleep(0.01); println(now() > c)"},
		{"now = func(x) {time.now()}", "w = func(x) {now(x)}", "a = w(1); sleep(0.01); b = w(1); println(b > a)"},
		{"r = func() {rand()}", "a = r(); b = r(); c = r(); d = r(); println(a == b && b == c && c == d)"},
		{"r = func(n) {rand(n)}", "a = [r(1000000000), r(1000000000), r(1000000000), r(1000000000)]; println(a[0] == a[1] && a[1] == a[2] && a[2] == a[3])"},
		{"r = func(n) {rand(n)}", "w = func(n) {[r(n), r(n)]}", "a = w(1000000000) + w(1000000000); println(a[0] == a[1] && a[1] == a[2] && a[2] == a[3])"},
		{"nap = func(t) {sleep(t); 1}", "a = time.now(); nap(0.02); nap(0.02); nap(0.02); println(time.now() - a > 0.05)"},
		// the file system
		{"x = 1", "sv = func(f) {save(f)}", `sv("a"); 0`, "x = 2", `sv("a"); 0`, "x = 3", `load("a"); println(x)`},
		{"x = 1", "sv = func() {save(); 1}", "sv()", "x = 2", "sv()", "x = 3", "load(); println(x)"},
		{"x = 7", `save("b"); 0`, "ld = func(f) {load(f)}", `ld("b"); println(x)`, "x = 8", `ld("b"); println(x)`, "x = 9", `w = func(f) {ld(f); 1}; w("b"); println(x)`, "x = 10", `w("b"); println(x)`},
		{"x = 1", `snap = func(f) {save(f); x = x + 1; x}`, `println(snap("c"))`, `println(snap("c"))`, `load("c"); println(x)`},
		// an extension that fails at first and succeeds once the world has changed, absorbed by catch() in the wrapper
		{`missing = func(n) {catch(image.png(n)).err}`, `println(missing("q1"))`, `image.new("q1", 2, 2); 0`, `println(missing("q1"))`, `w = func(n) {[missing(n), n]}; println(w("q2"))`, `image.new("q2", 2, 2); 0`, `println(w("q2"))`},
		{`nofile = func(f) {r = catch(load(f)); if r.err {"missing"} else {"loaded"}}`, `println(nofile("nf"))`, `x = 1; save("nf"); 0`, `println(nofile("nf"))`},
		{`sz = func(n) {r = catch(image.set(n, 3, 3, [1, 2, 3])); r.err}`, `image.new("q3", 2, 2); println(sz("q3"))`, `image.new("q3", 8, 8); println(sz("q3"))`},
		// the images of the session
		{`mkimg = func(n) {image.new("im", n, n); n}`, "println(mkimg(2))", `println(len(image.png("im")))`, `image.new("im", 9, 9); println(len(image.png("im")))`, "println(mkimg(2))", `println(len(image.png("im")))`},
		{`size = func() {len(image.png("im"))}`, `image.new("im", 2, 2); println(size())`, `image.new("im", 9, 9); println(size())`, `image.set("im", 1, 1, [255, 0, 0]); println(size() > 0)`},
		{`dot = func(x, y) {image.set("im", x, y, [255, 255, 255]); 1}`, `image.new("im", 4, 4); a = image.png("im")`, "dot(1, 1)", `b = image.png("im"); println(a == b)`, `image.new("im", 4, 4)`, "dot(1, 1)", `println(image.png("im") == b)`},
		{`tri = func() {image.move_to("im", 0, 0); image.line_to("im", 4, 0); image.line_to("im", 4, 4); image.close_path("im"); image.draw("im", [255, 0, 0]); 1}`,
			`image.new("im", 4, 4); a = image.png("im")`, "tri()", `b = image.png("im"); println(a == b)`, `image.new("im", 4, 4)`, "tri()", `println(image.png("im") == b)`},
	}
}
