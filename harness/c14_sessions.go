package main

// C14, multi-session family: "auto-save followed by auto-load ... reproduces every saved global".
// A history is a list of sessions sharing one directory; every session is what the grol binary does:
// auto-load ./.gr, evaluate its inputs (repl.EvalOne), auto-save. After the LAST session a fresh session
// auto-loads and must hold exactly the data globals the last session held in memory when it ended
// (SaveLoad.tla's RoundTrip with the saving session = the whole history). What differs from the single-session
// cases is the auto-save's own decision whether anything changed since the load: a change made from inside a
// function, by del, through an index assignment or a ++ must count like a plain assignment.
//
// Runs in a child process (`vh worker c14sess <in> <out>`) because auto-save works in the current directory.

import (
	"bytes"
	"context"
	"encoding/json"
	"fmt"
	"os"
	"os/exec"
	"path/filepath"
	"sort"
	"strings"
	"syscall"
	"time"

	"grol.io/grol/eval"
	"grol.io/grol/object"
	"grol.io/grol/repl"
)

func init() { workers["c14sess"] = c14SessWorker }

type c14SessCase struct {
	ID       int        `json:"id"`
	Sessions [][]string `json:"sessions"`
}

type c14SessRes struct {
	ID     int               `json:"id"`
	Memory map[string]string `json:"memory"` // data globals of the last session when it ended: name -> type:inspect
	Loaded map[string]string `json:"loaded"` // data globals of a fresh session after auto-load
	File   string            `json:"file"`
	Err    string            `json:"err,omitempty"`
}

func c14DataGlobals(s *eval.State) map[string]string {
	out := map[string]string{}
	var b bytes.Buffer
	old := s.MaxValueLen
	s.MaxValueLen = 0
	_, _ = s.SaveGlobals(&b)
	s.MaxValueLen = old
	for _, ln := range strings.Split(b.String(), "\n") {
		name, _, ok := strings.Cut(ln, "=")
		if !ok || strings.ContainsAny(name, " ({") {
			continue
		}
		res, err, _ := c14Eval(s, name, 2*time.Second) // (sets a fresh context: EvalOne cancelled the session's last one)
		if err != nil {
			continue
		}
		v := object.Value(res)
		switch v.Type() {
		case object.FUNC, object.EXTENSION, object.MACRO, object.QUOTE:
			continue
		}
		out[name] = v.Type().String() + ":" + v.Inspect()
	}
	return out
}

func c14SessWorker(args []string) {
	b, err := os.ReadFile(args[0])
	if err != nil {
		fmt.Println(err)
		os.Exit(2)
	}
	var cases []c14SessCase
	if err := json.Unmarshal(b, &cases); err != nil {
		fmt.Println(err)
		os.Exit(2)
	}
	base, _ := os.MkdirTemp("", "c14sess")
	defer os.RemoveAll(base)
	opts := repl.Options{All: true, ShowEval: false, NoColor: true, AutoLoad: true, AutoSave: true}
	var out []c14SessRes
	for _, cs := range cases {
		dir := filepath.Join(base, fmt.Sprint(cs.ID))
		_ = os.MkdirAll(dir, 0o755)
		_ = os.Chdir(dir)
		res := c14SessRes{ID: cs.ID}
		var last *eval.State
		for _, inputs := range cs.Sessions {
			s := eval.NewState()
			s.Out, s.LogOut = &bytes.Buffer{}, &bytes.Buffer{}
			_ = repl.AutoLoad(s, opts)
			for _, in := range inputs {
				ctx, cancel := context.WithTimeout(context.Background(), 5*time.Second)
				_, _, _, _ = repl.EvalOne(ctx, s, in, &bytes.Buffer{}, opts)
				cancel()
			}
			if err := repl.AutoSave(s, opts); err != nil {
				res.Err = "AutoSave: " + err.Error()
			}
			last = s
		}
		res.Memory = c14DataGlobals(last)
		f, _ := os.ReadFile(repl.AutoSaveFile)
		res.File = string(f)
		fresh := eval.NewState()
		fresh.Out, fresh.LogOut = &bytes.Buffer{}, &bytes.Buffer{}
		_ = repl.AutoLoad(fresh, opts)
		res.Loaded = c14DataGlobals(fresh)
		out = append(out, res)
	}
	_ = os.Chdir(base)
	ob, _ := json.Marshal(out)
	if err := os.WriteFile(args[1], ob, 0o644); err != nil {
		fmt.Println(err)
		os.Exit(2)
	}
}

// c14SessionHistories: every way of changing a global in a later session, alone in that session (so that the
// auto-save's change detection is the only thing that makes it reach the file).
func c14SessionHistories() []c14SessCase {
	setup := []string{"x = 1", "a = [1, 2, 3]", `m = {"k": 1, "j": 2}`, "big = 1:12", `s = "str"`, "fl = 1.5", "gone = 7",
		"setx = func(v) {x = v}", "bump = func() {x++}", "seta = func(i, v) {a[i] = v}", "setm = func(k, v) {m[k] = v}", "delgone = func() {del(gone)}",
		"delk = func() {del(m.k)}", "rebind = func() {x := 99; x}", "app = func() {a = a + 4}", "nested = func() {func() {x = 5}()}", "readonly = func() {x + len(a)}",
		"mk = func() {fresh = 11}", "swap = func() {t = x; x = fl; fl = t}", "grow = func() {big = big + 13}", "cat = func() {s = s + \"!\"}"}
	changes := []string{"x = 2", "setx(2)", "bump()", "x++", "seta(0, 9)", "a[1] = 8", `setm("k", 5)`, `setm("z", 5)`, `m.k = 7`, "delgone()", "del(gone)", "delk()", "del(m.j)",
		"rebind()", "app()", "nested()", "readonly()", "mk()", "swap()", "grow()", "cat()", "func() {x = 3}()", "func() {del(x)}()", "(() => {fl = 2.5})()", "for i = 2 {x = x + i}",
		"for i = 2 {setx(i + 10)}", "if true {x = 4}", "catch(setx(6)).err", `setx("s")`, "setx(nil)", "setx([1])", "setx(x)", "x = x", "f2 = func() {1}", "func f3() {2}"}
	var out []c14SessCase
	id := 0
	for _, ch := range changes {
		out = append(out, c14SessCase{ID: id, Sessions: [][]string{setup, {ch}}})
		id++
		out = append(out, c14SessCase{ID: id, Sessions: [][]string{setup, {"readonly()"}, {ch}, {"readonly()"}}})
		id++
	}
	for i := 0; i+1 < len(changes); i += 2 {
		out = append(out, c14SessCase{ID: id, Sessions: [][]string{setup, {changes[i]}, {changes[i+1]}}})
		id++
	}
	return out
}

func c14RunSessionCases(dir string, cases []c14SessCase) ([]c14SessRes, error) {
	exe, err := os.Executable()
	if err != nil {
		return nil, err
	}
	_ = os.MkdirAll(dir, 0o755)
	inF, outF := filepath.Join(dir, "in.json"), filepath.Join(dir, "out.json")
	b, _ := json.Marshal(cases)
	if err := os.WriteFile(inF, b, 0o644); err != nil {
		return nil, err
	}
	ctx, cancel := context.WithTimeout(context.Background(), 5*time.Minute)
	defer cancel()
	cmd := exec.CommandContext(ctx, exe, "worker", "c14sess", inF, outF)
	cmd.SysProcAttr = &syscall.SysProcAttr{Pdeathsig: syscall.SIGKILL}
	if o, err := cmd.CombinedOutput(); err != nil {
		return nil, fmt.Errorf("c14sess worker: %v: %s", err, clip(string(o), 400))
	}
	ob, err := os.ReadFile(outF)
	if err != nil {
		return nil, err
	}
	var res []c14SessRes
	if err := json.Unmarshal(ob, &res); err != nil {
		return nil, err
	}
	if len(res) != len(cases) {
		return nil, fmt.Errorf("c14sess: %d results for %d cases", len(res), len(cases))
	}
	return res, nil
}

// c14SessDiff: the differences between what the last session held and what a fresh session loads (float->int of the
// listed finding not counted, reported separately).
func c14SessDiff(r c14SessRes) (diffs []string, float2int int) {
	names := map[string]bool{}
	for k := range r.Memory {
		names[k] = true
	}
	for k := range r.Loaded {
		names[k] = true
	}
	var ns []string
	for k := range names {
		ns = append(ns, k)
	}
	sort.Strings(ns)
	for _, k := range ns {
		m, l := r.Memory[k], r.Loaded[k]
		if m == l {
			continue
		}
		// listed finding save-float-integral-reloads-as-int: FLOAT:2 reloads as INTEGER:2 (judged by the single-session cases)
		if strings.HasPrefix(m, "FLOAT:") && strings.HasPrefix(l, "INTEGER:") && strings.TrimPrefix(m, "FLOAT:") == strings.TrimPrefix(l, "INTEGER:") {
			float2int++
			continue
		}
		diffs = append(diffs, fmt.Sprintf("%s: session ended with %q, fresh session loads %q", k, m, l))
	}
	return
}

func c14ReplaySessions(rp map[string]any) (bool, string) {
	b, _ := json.Marshal(rp["sessions"])
	var sess [][]string
	if err := json.Unmarshal(b, &sess); err != nil {
		return false, "bad replay file: " + err.Error()
	}
	dir, err := os.MkdirTemp("", "verif-C14-replay-")
	if err != nil {
		return false, err.Error()
	}
	defer os.RemoveAll(dir)
	res, err := c14RunSessionCases(dir, []c14SessCase{{ID: 0, Sessions: sess}})
	if err != nil {
		return false, "infrastructure: " + err.Error()
	}
	if d, _ := c14SessDiff(res[0]); len(d) > 0 || res[0].Err != "" {
		return false, strings.Join(d, "; ") + " " + res[0].Err
	}
	return true, ""
}

func c14RunSessions(c *Ctx) {
	cases := c14SessionHistories()
	res, err := c14RunSessionCases(filepath.Join(c.Scratch(), "c14sess"), cases)
	if err != nil {
		c.Infra(err)
		return
	}
	float2int := 0
	for i, r := range res {
		cs := cases[i]
		key := fmt.Sprint(cs.Sessions[1:])
		c.Case("sessions:"+key, true)
		diffs, f2i := c14SessDiff(r)
		float2int += f2i
		if len(diffs) == 0 && r.Err == "" {
			c.AddTraces(1)
			continue
		}
		c.Fail("c14-sessions-last-state-not-reloaded", fmt.Sprintf("sessions %s: %s %s (file %q)", key, strings.Join(diffs, "; "), r.Err, clip(r.File, 200)),
			map[string]any{"check": "sessions", "sessions": cs.Sessions})
	}
	c.Cov("autosave_session_histories", len(cases))
	c.Cov("autosave_session_float_as_int_not_counted", float2int)
}
