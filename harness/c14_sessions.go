package main

// C14, multi-session family: "auto-save followed by auto-load ... reproduces every saved global".
// A history is a list of sessions sharing one directory; every session is what the grol binary does:
// auto-load ./.gr, evaluate its inputs (repl.EvalOne), auto-save. After the LAST session a fresh session
// auto-loads and must hold exactly the data globals the last session held in memory when it ended
// (SaveLoad.tla's RoundTrip with the saving session = the whole history). What differs from the single-session
// cases is the auto-save's own decision whether anything changed since the load: a change made from inside a
// function, by del, through an index assignment or a ++ must count like a plain assignment.
//
//
// Second part of the family: what the session did with a value BEFORE it changed it - printed it, echoed it, saved it
// (save(), or the auto-save of the previous session) - must not matter either: println(bm); bm.a = 7 in one session,
// or spread over sessions, through a function, in a loop, for small / large arrays and maps and containers inside
// containers.  An input that starts with "@echo " is evaluated the way the interactive REPL does (result printed).
//
// The sessions are observed through Type/Unwrap-level accessors (objJSON), never through the printed form: a value
// whose printed form is stale would otherwise look the same on both sides.  SaveLoad_Trace.tla judges the records
// (k = "sess": RtFails of the last session's data globals against the fresh session's).
//
// Runs in a child process (`vh worker c14sess <in> <out>`) because auto-save works in the current directory.

import (
	"bytes"
	"context"
	"encoding/json"
	"fmt"
	"os"
	"os/exec"
	"path/filepath"
	"sort"
	"strings"
	"syscall"
	"time"

	"grol.io/grol/eval"
	"grol.io/grol/extensions"
	"grol.io/grol/object"
	"grol.io/grol/repl"
)

func init() { workers["c14sess"] = c14SessWorker }

type c14SessCase struct {
	ID       int        `json:"id"`
	Sessions [][]string `json:"sessions"`
}

type c14SessRes struct {
	ID     int          `json:"id"`
	Memory map[string]J `json:"memory"` // data globals of the last session when it ended: name -> observed value (objJSON)
	Loaded map[string]J `json:"loaded"` // data globals of a fresh session after auto-load
	File   string       `json:"file"`
	Err    string       `json:"err,omitempty"`
}

// c14DataGlobals: the data globals of a session, by name (info.globals), observed structurally.
func c14DataGlobals(s *eval.State) map[string]J {
	out := map[string]J{}
	for _, name := range c14Globals(s) {
		res, err, _ := c14Eval(s, name, 2*time.Second) // (sets a fresh context: EvalOne cancelled the session's last one)
		if err != nil {
			continue
		}
		v := object.Value(res)
		if c14Kind(v) != "data" {
			continue
		}
		out[name] = objJSON(v)
	}
	return out
}

func c14SessWorker(args []string) {
	b, err := os.ReadFile(args[0])
	if err != nil {
		fmt.Println(err)
		os.Exit(2)
	}
	var cases []c14SessCase
	if err := json.Unmarshal(b, &cases); err != nil {
		fmt.Println(err)
		os.Exit(2)
	}
	// the sessions of the grol binary: extensions initialised, load() and save() available
	if err := extensions.Init(&extensions.Config{HasLoad: true, HasSave: true}); err != nil {
		fmt.Println("extensions.Init:", err)
		os.Exit(2)
	}
	base, _ := os.MkdirTemp("", "c14sess")
	defer os.RemoveAll(base)
	opts := repl.Options{All: true, ShowEval: false, NoColor: true, AutoLoad: true, AutoSave: true}
	var out []c14SessRes
	for _, cs := range cases {
		dir := filepath.Join(base, fmt.Sprint(cs.ID))
		_ = os.MkdirAll(dir, 0o755)
		_ = os.Chdir(dir)
		res := c14SessRes{ID: cs.ID}
		var last *eval.State
		for _, inputs := range cs.Sessions {
			s := eval.NewState()
			s.Out, s.LogOut = &bytes.Buffer{}, &bytes.Buffer{}
			_ = repl.AutoLoad(s, opts)
			for _, in := range inputs {
				o := opts
				if strings.HasPrefix(in, "@echo ") {
					in, o.ShowEval = strings.TrimPrefix(in, "@echo "), true
				}
				ctx, cancel := context.WithTimeout(context.Background(), 5*time.Second)
				_, _, _, _ = repl.EvalOne(ctx, s, in, &bytes.Buffer{}, o)
				cancel()
			}
			if err := repl.AutoSave(s, opts); err != nil {
				res.Err = "AutoSave: " + err.Error()
			}
			last = s
		}
		res.Memory = c14DataGlobals(last)
		f, _ := os.ReadFile(repl.AutoSaveFile)
		res.File = string(f)
		fresh := eval.NewState()
		fresh.Out, fresh.LogOut = &bytes.Buffer{}, &bytes.Buffer{}
		_ = repl.AutoLoad(fresh, opts)
		res.Loaded = c14DataGlobals(fresh)
		out = append(out, res)
	}
	_ = os.Chdir(base)
	ob, _ := json.Marshal(out)
	if err := os.WriteFile(args[1], ob, 0o644); err != nil {
		fmt.Println(err)
		os.Exit(2)
	}
}

// c14SessionHistories: every way of changing a global in a later session, alone in that session (so that the
// auto-save's change detection is the only thing that makes it reach the file).
func c14SessionHistories() []c14SessCase {
	setup := []string{"x = 1", "a = [1, 2, 3]", `m = {"k": 1, "j": 2}`, "big = 1:12", `s = "str"`, "fl = 1.5", "gone = 7",
		"setx = func(v) {x = v}", "bump = func() {x++}", "seta = func(i, v) {a[i] = v}", "setm = func(k, v) {m[k] = v}", "delgone = func() {del(gone)}",
		"delk = func() {del(m.k)}", "rebind = func() {x := 99; x}", "app = func() {a = a + 4}", "nested = func() {func() {x = 5}()}", "readonly = func() {x + len(a)}",
		"mk = func() {fresh = 11}", "swap = func() {t = x; x = fl; fl = t}", "grow = func() {big = big + 13}", "cat = func() {s = s + \"!\"}"}
	changes := []string{"x = 2", "setx(2)", "bump()", "x++", "seta(0, 9)", "a[1] = 8", `setm("k", 5)`, `setm("z", 5)`, `m.k = 7`, "delgone()", "del(gone)", "delk()", "del(m.j)",
		"rebind()", "app()", "nested()", "readonly()", "mk()", "swap()", "grow()", "cat()", "func() {x = 3}()", "func() {del(x)}()", "(() => {fl = 2.5})()", "for i = 2 {x = x + i}",
		"for i = 2 {setx(i + 10)}", "if true {x = 4}", "catch(setx(6)).err", `setx("s")`, "setx(nil)", "setx([1])", "setx(x)", "x = x", "f2 = func() {1}", "func f3() {2}"}
	var out []c14SessCase
	id := 0
	add := func(sessions ...[]string) {
		out = append(out, c14SessCase{ID: id, Sessions: sessions})
		id++
	}
	for _, ch := range changes {
		add(setup, []string{ch})
		add(setup, []string{"readonly()"}, []string{ch}, []string{"readonly()"})
	}
	for i := 0; i+1 < len(changes); i += 2 {
		add(setup, []string{changes[i]}, []string{changes[i+1]})
	}
	// second part: the value was printed / echoed / saved before it is changed (an element it already has gets a new
	// value; a scalar is set from inside a function)
	setup2 := []string{`bm = {"a": 1, "b": 2, "c": 3, "d": 4, "e": 5}`, "ba = 1:12", `sm = {"k": 1, "j": 2}`, "sa = [1, 2, 3]",
		`nest = {"in": {"a": 1, "b": 2, "c": 3, "d": 4, "e": 5}, "z": [1, 2], "y": {"k": 1}}`, `deep = {1: "i", 2: [1, {"a": 1, "b": 2, "c": 3, "d": 4, "e": 5}], 3: nil, 4: true, 5: 1.5}`,
		"setbm = func(k, v) {bm[k] = v}", "setba = func(i, v) {ba[i] = v}", "show = func() {println(bm, ba, sm, sa, nest, deep, x)}", "x = 1",
		"setx = func(v) {x = v}", "incx = func() {x++}", "grow = func() {ba = ba + 13}"}
	shows := []string{"println(bm, ba, sm, sa, nest, deep, x)", "print(bm); print(nest); print(deep); print(x)", "@echo bm", "@echo [bm, ba, sm, sa, nest, deep, x]", "save()", "show()",
		"log(bm, nest, deep, x)", "bmtxt = join([bm, nest, deep, ba, x])", "str(bm) + str(nest) + str(deep)", "json(bm) + json(nest) + json(deep)", "bm == bm && nest == nest && deep == deep"}
	mods := [][]string{{"bm.a = 7"}, {`bm["e"] = "new"`}, {`setbm("c", [1, 2])`}, {"for i = 3 {bm.b = i + 10}"}, {"ba[0] = 99"}, {"setba(11, nil)"}, {"sm.k = 9"}, {"sa[1] = 8"},
		{"t = nest.in", "t.b = 22", "nest.in = t"}, {"t = nest.y", "t.k = 2", "nest.y = t"}, {"t = nest.z", "t[0] = 5", "nest.z = t"}, {`nest.in = {"a": 1, "b": 2, "c": 3, "d": 4, "e": 6}`},
		{"t = deep[2]", "u = t[1]", "u.e = 55", "t[1] = u", "deep[2] = t"}, {"deep[3] = 33"}, {"bm.a = 7", "bm.a = 1"}, {"bm.zz = 0", "bm.a = 7"}, {"del(bm.b)", "bm.a = 7"},
		{"bm2 = bm", "bm.a = 7"}, {"bm2 = bm", "bm2.a = 7"}, {"setx(2)"}, {"incx()"}, {"x++"}, {"grow()"}, {"for i = 2 {setx(i + 10)}"}}
	cat := func(xs ...[]string) []string {
		var r []string
		for _, x := range xs {
			r = append(r, x...)
		}
		return r
	}
	for mi, mod := range mods {
		for si, show := range shows {
			sh := []string{show}
			// every show x every change inside ONE session: a later session, or the one that created the values
			if (mi+si)%2 == 0 {
				add(setup2, cat(sh, mod))
			} else {
				add(cat(setup2, sh, mod))
			}
			// and, taken in turn, spread over sessions
			switch (mi + si) % 4 {
			case 0:
				add(setup2, sh, mod) // printed in one session, changed in the next
			case 2:
				add(setup2, cat(mod, sh, mod, sh), []string{"x = 3"}) // changed, printed, changed again; another session after it
			}
		}
		add(setup2, cat([]string{shows[mi%len(shows)]}, mod, []string{shows[(mi+1)%len(shows)]}, mods[(mi+1)%len(mods)], []string{shows[(mi+2)%len(shows)]}, mods[(mi+2)%len(mods)]))
	}
	return out
}

func c14RunSessionCases(dir string, cases []c14SessCase) ([]c14SessRes, error) {
	exe, err := os.Executable()
	if err != nil {
		return nil, err
	}
	_ = os.MkdirAll(dir, 0o755)
	inF, outF := filepath.Join(dir, "in.json"), filepath.Join(dir, "out.json")
	b, _ := json.Marshal(cases)
	if err := os.WriteFile(inF, b, 0o644); err != nil {
		return nil, err
	}
	ctx, cancel := context.WithTimeout(context.Background(), 5*time.Minute)
	defer cancel()
	cmd := exec.CommandContext(ctx, exe, "worker", "c14sess", inF, outF)
	cmd.SysProcAttr = &syscall.SysProcAttr{Pdeathsig: syscall.SIGKILL}
	if o, err := cmd.CombinedOutput(); err != nil {
		return nil, fmt.Errorf("c14sess worker: %v: %s", err, clip(string(o), 400))
	}
	ob, err := os.ReadFile(outF)
	if err != nil {
		return nil, err
	}
	var res []c14SessRes
	if err := json.Unmarshal(ob, &res); err != nil {
		return nil, err
	}
	if len(res) != len(cases) {
		return nil, fmt.Errorf("c14sess: %d results for %d cases", len(res), len(cases))
	}
	return res, nil
}

// c14SessRecord: the record SaveLoad_Trace.tla judges (k = "sess"): b = the data globals the last session held (a name
// only the fresh session has is listed with the value "absent"), a.vals = what the fresh session holds.
func c14SessRecord(id string, r c14SessRes) c14TR {
	names := map[string]bool{}
	for k := range r.Memory {
		names[k] = true
	}
	for k := range r.Loaded {
		names[k] = true
	}
	var ns []string
	for k := range names {
		ns = append(ns, k)
	}
	sort.Strings(ns)
	t := c14TR{K: "sess", ID: id, Lines: []string{}, LinesU: []string{}, Names: []string{}, B: [][]any{}, HS: [][]any{}, HSErr: []string{},
		A: c14TRPath{Vals: [][]any{}, Idem: true, Calls: [][]any{}}, W: c14TRPath{Vals: [][]any{}, Idem: true, Calls: [][]any{}}}
	for _, k := range ns {
		m, inM := r.Memory[k]
		l, inL := r.Loaded[k]
		if !inM {
			m = J{"t": "absent"}
		}
		if !inL {
			l = J{"t": "nil"}
		}
		t.B = append(t.B, []any{k, "data", m})
		t.A.Vals = append(t.A.Vals, []any{k, inL, l})
	}
	return t
}

// c14SessExplain: the failed items of a session record as text, and the listed findings that explain them
// ("" = none does).
func c14SessExplain(t c14TR, fails []string) (string, map[string]bool) {
	sigs := map[string]bool{}
	var what []string
	for _, f := range fails {
		name := strings.TrimPrefix(f, "rt:A:")
		for i, b := range t.B {
			if b[0].(string) != name {
				continue
			}
			m, l := c14AsJ(b[2]), c14AsJ(t.A.Vals[i][2])
			switch {
			case m["t"] == "absent":
				what = append(what, fmt.Sprintf("%s is not bound when the last session ends, the fresh session loads %.100s", name, jstr(l)))
				sigs[""] = true
			case !t.A.Vals[i][1].(bool):
				what = append(what, fmt.Sprintf("%s = %.100s is not bound in the fresh session", name, jstr(m)))
				sigs[""] = true
			default:
				what = append(what, c14FirstDiff(name, m, l))
				c14Explain(m, l, map[string]bool{}, sigs)
			}
		}
	}
	return strings.Join(what, "; "), sigs
}

func c14ReplaySessions(rp map[string]any) (bool, string) {
	b, _ := json.Marshal(rp["sessions"])
	var sess [][]string
	if err := json.Unmarshal(b, &sess); err != nil {
		return false, "bad replay file: " + err.Error()
	}
	dir, err := os.MkdirTemp("", "verif-C14-replay-")
	if err != nil {
		return false, err.Error()
	}
	defer os.RemoveAll(dir)
	res, err := c14RunSessionCases(dir, []c14SessCase{{ID: 0, Sessions: sess}})
	if err != nil {
		return false, "infrastructure: " + err.Error()
	}
	t, err := c14Norm(c14SessRecord("sess:replay", res[0]))
	if err != nil {
		return false, err.Error()
	}
	if fails := c14Judge(t); len(fails) > 0 || res[0].Err != "" {
		what, _ := c14SessExplain(t, fails)
		return false, what + " " + res[0].Err
	}
	return true, ""
}

type c14SessRun struct {
	cases []c14SessCase
	res   []c14SessRes
	recs  []c14TR
}

// c14RunSessions runs the histories on the real code and builds their records (judged with the other records).
func c14RunSessions(c *Ctx) *c14SessRun {
	sr := &c14SessRun{cases: c14SessionHistories()}
	var err error
	if sr.res, err = c14RunSessionCases(filepath.Join(c.Scratch(), "c14sess"), sr.cases); err != nil {
		c.Infra(err)
		return nil
	}
	for i, r := range sr.res {
		t, err := c14Norm(c14SessRecord(fmt.Sprintf("sess:%d", sr.cases[i].ID), r))
		if err != nil {
			c.Infra(err)
			return nil
		}
		sr.recs = append(sr.recs, t)
	}
	return sr
}

// c14JudgeSessions: TLC's verdicts for the session records, cross-checked with the mirror and attributed.
func c14JudgeSessions(c *Ctx, sr *c14SessRun, verdicts map[string][]string) bool {
	known := map[string]int{}
	for i, r := range sr.res {
		cs, t := sr.cases[i], sr.recs[i]
		key := fmt.Sprint(cs.Sessions[1:])
		if len(cs.Sessions) == 1 {
			key = fmt.Sprint(cs.Sessions)
		}
		c.Case("sessions:"+key, true)
		tf, ok := verdicts[t.ID]
		if !ok {
			c.Infra(fmt.Errorf("no TLC verdict for %s", t.ID))
			return false
		}
		if gf := c14Judge(t); strings.Join(tf, "\x00") != strings.Join(gf, "\x00") {
			c.Infra(fmt.Errorf("verdict mismatch between SaveLoad_Trace.tla and the harness mirror on %s: TLC %v, Go %v", t.ID, tf, gf))
			return false
		}
		c.AddTraces(1)
		if len(tf) == 0 && r.Err == "" {
			continue
		}
		what, sigs := c14SessExplain(t, tf)
		if r.Err != "" {
			sigs[""] = true
		}
		rp := map[string]any{"check": "sessions", "sessions": cs.Sessions}
		msg := fmt.Sprintf("sessions %s: %s %s (file %q)", key, what, r.Err, clip(r.File, 200))
		if sigs[""] || len(sigs) == 0 {
			c.Fail("c14-sessions-last-state-not-reloaded", msg, rp)
			continue
		}
		for s := range sigs { // a listed loss of the printed form (judged by the single-session cases), seen through a history
			known[s]++
			c.Fail(s, msg, rp)
		}
	}
	c.Cov("autosave_session_histories", len(sr.cases))
	c.Cov("autosave_session_histories_failing_by_listed_finding", known)
	return true
}
