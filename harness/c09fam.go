package main

// C09 - the case families added after seeding round 5 (spec/Guards.tla skeletons "libgrow", "output", "recnest",
// "rewrite", "autoload"): what the programs look like and how a model schedule class becomes a job.

import (
	"fmt"
	"math"
	"math/rand"
	"strings"
)

// ---- libgrow: one LIBRARY call whose result is much larger than its arguments (Guards.tla alloc guard "library").
// Prog(r) is a program whose library call would build about r bytes out of arguments of about sqrt(r) (or r/16) bytes.

type c09LibFn struct {
	Name string
	Prog func(r int64) string
}

func c09Isqrt(r int64) int64 { return int64(math.Sqrt(float64(r))) + 1 }

var c09LibFns = []c09LibFn{
	// every match replaced by a copy of the input
	{"regsub", func(r int64) string { n := c09Isqrt(r); return fmt.Sprintf(`s="a"*%d; len(regsub("a", s, s))`, n) }},
	// one match, the replacement refers to it k times
	{"regsub-ref", func(r int64) string {
		n := c09Isqrt(r)
		return fmt.Sprintf(`s="a"*%d; len(regsub("a+", s, "$0"*%d))`, n, n)
	}},
	// the empty match between every two characters
	{"regsub-empty", func(r int64) string { n := c09Isqrt(r); return fmt.Sprintf(`n=%d; len(regsub("", "a"*n, "b"*n))`, n) }},
	{"join-sep", func(r int64) string { n := c09Isqrt(r); return fmt.Sprintf(`a=[""]*%d; len(join(a, "b"*%d))`, n, n) }},
	{"join-elems", func(r int64) string { n := c09Isqrt(r); return fmt.Sprintf(`a=["x"*%d]*%d; len(join(a))`, n, n) }},
	// elements that are not strings are printed first
	{"join-inspect", func(r int64) string { n := c09Isqrt(r / 2); return fmt.Sprintf(`a=[[0]*%d]*%d; len(join(a))`, n, n) }},
	{"sprintf-width", func(r int64) string { return fmt.Sprintf(`len(sprintf("%%1000000[1]d"*%d, 1))`, r/1000000+1) }},
	{"sprintf-str", func(r int64) string { n := c09Isqrt(r); return fmt.Sprintf(`s="x"*%d; len(sprintf("%%[1]s"*%d, s))`, n, n) }},
	{"sprintf-prec", func(r int64) string { return fmt.Sprintf(`len(sprintf("%%.1000000[1]f"*%d, 1.5))`, r/1000000+1) }},
	{"printf-width", func(r int64) string { return fmt.Sprintf(`printf("%%1000000[1]d"*%d, 1)`, r/1000000+1) }},
	{"split", func(r int64) string { return fmt.Sprintf(`len(split("a"*%d, ""))`, r/16+1) }},
	{"split-sep", func(r int64) string { return fmt.Sprintf(`len(split(","*%d, ","))`, r/16+1) }},
	{"runes", func(r int64) string { return fmt.Sprintf(`len(runes("a"*%d))`, r/16+1) }},
	{"runes-int", func(r int64) string { return fmt.Sprintf(`len(runes("a"*%d, true))`, r/16+1) }},
	{"json-str", func(r int64) string { return fmt.Sprintf(`s="\u0001"*%d; len(json(s))`, r/4+1) }},
	{"json-arr", func(r int64) string { n := c09Isqrt(r); return fmt.Sprintf(`a=["x"*%d]*%d; len(json(a))`, n, n) }},
	{"json-map", func(r int64) string { n := c09Isqrt(r); return fmt.Sprintf(`a=[{"k":"x"*%d}]*%d; len(json(a))`, n, n) }},
	{"json_go-arr", func(r int64) string { n := c09Isqrt(r); return fmt.Sprintf(`a=["x"*%d]*%d; len(json_go(a))`, n, n) }},
	{"json_go-indent", func(r int64) string { n := c09Isqrt(r); return fmt.Sprintf(`a=[0]*%d; len(json_go(a, " "*%d))`, n, n) }},
	{"base64", func(r int64) string { return fmt.Sprintf(`s="x"*%d; len(base64(s))`, r*3/4+1) }},
	// the printed form of a value that holds the same element many times: tiny value, huge text
	{"print-shared", func(r int64) string { n := c09Isqrt(r); return fmt.Sprintf(`a=["x"*%d]*%d; print(a); 1`, n, n) }},
	{"println-map-shared", func(r int64) string {
		n := c09Isqrt(r)
		return fmt.Sprintf(`s="x"*%d; m={}; for i=%d {m[i]=s}; println(m); 1`, r/min(n, 20000), min(n, 20000))
	}},
	{"result-shared", func(r int64) string { n := c09Isqrt(r); return fmt.Sprintf(`a=["x"*%d]*%d`, n, n) }},
	{"str-shared", func(r int64) string { n := c09Isqrt(r); return fmt.Sprintf(`a=["x"*%d]*%d; len(str(a))`, n, n) }},
	{"sprintf-v-shared", func(r int64) string { n := c09Isqrt(r); return fmt.Sprintf(`a=["x"*%d]*%d; len(sprintf("%%v|%%v", a, a))`, n, n) }},
	// the operators, reached through a library wrapper (a nested evaluator)
	{"eval-repeat", func(r int64) string { return fmt.Sprintf(`len(eval("\"x\"*%d"))`, r) }},
	{"unjson-repeat", func(r int64) string { return fmt.Sprintf(`len(unjson("[0]*%d"))`, r/16+1) }},
}

func c09LibFnByName(name string) *c09LibFn {
	for i := range c09LibFns {
		if c09LibFns[i].Name == name {
			return &c09LibFns[i]
		}
	}
	return nil
}

// result size for the model's size class: "half" fits the budget easily, "over" is one and a half budgets, "huge" fits no machine here
func c09LibSize(par string, limit int64) int64 {
	switch par {
	case "half":
		return limit / 4
	case "over":
		return limit * 3 / 2
	}
	return limit * 16
}

// ---- output: printing inside recursion / nested calls / loops inside functions (Guards.tla "print", "retn").
// Prog(s, d): every print writes s bytes, d = recursion depth or number of iterations; total output s*d (nested2: s * 2^d).

type c09OutFn struct {
	Name   string
	Rec    bool // d is a recursion depth (must stay below MaxDepth)
	Double bool // d levels of calls that each call the level below twice
	Prog   func(s, d int64) string
}

var c09OutFns = []c09OutFn{
	{"rec-before", true, false, func(s, d int64) string {
		return fmt.Sprintf(`func f(n){if n==0{return 0}; vtick(); println("x"*%d); f(n-1)}; f(%d)`, s, d)
	}},
	{"rec-before-pure", true, false, func(s, d int64) string { // nothing uncacheable: every level's result and output go to the memo cache
		return fmt.Sprintf(`func f(n){if n==0{return 0}; println("x"*%d); f(n-1)}; f(%d)`, s, d)
	}},
	{"rec-after", true, false, func(s, d int64) string {
		return fmt.Sprintf(`s="x"*%d; func f(n){if n==0{return 0}; vtick(); f(n-1); print(s)}; f(%d)`, s, d)
	}},
	{"rec-after-pure", true, false, func(s, d int64) string {
		return fmt.Sprintf(`s="x"*%d; func f(n){if n==0{return 0}; f(n-1); print(s)}; f(%d)`, s, d)
	}},
	{"rec-mutual", true, false, func(s, d int64) string {
		return fmt.Sprintf(`func a(n){if n<=0{return 0}; vtick(); print("x"*%d); b(n-1)}; func b(n){print("y"*%d); a(n-1)}; a(%d)`, s/2+1, s/2+1, d)
	}},
	{"loop-call", false, false, func(s, d int64) string { // the callee is memoized: every call after the first replays the cached output
		return fmt.Sprintf(`func g(){println("x"*%d)}; func f(n){for n {vtick(); g()}}; f(%d)`, s, d)
	}},
	{"loop-call-arg", false, false, func(s, d int64) string {
		return fmt.Sprintf(`func g(i){println("x"*%d, i)}; func f(n){for i=n {vtick(); g(i)}}; f(%d)`, s, d)
	}},
	{"loop-in-fn", false, false, func(s, d int64) string {
		return fmt.Sprintf(`func f(n){for n {vtick(); println("x"*%d)}}; f(%d)`, s, d)
	}},
	{"loop-in-lambda", false, false, func(s, d int64) string {
		return fmt.Sprintf(`f = (n) => {for n {vtick(); print("x"*%d)}}; f(%d)`, s, d)
	}},
	{"loop-top", false, false, func(s, d int64) string {
		return fmt.Sprintf(`for %d {vtick(); println("x"*%d)}`, d, s)
	}},
	{"nested2", false, true, func(s, d int64) string {
		var sb strings.Builder
		fmt.Fprintf(&sb, `func a0(){vtick(); println("x"*%d)};`, s)
		for i := int64(1); i <= d; i++ {
			fmt.Fprintf(&sb, " func a%d(){a%d();a%d()};", i, i-1, i-1)
		}
		fmt.Fprintf(&sb, " a%d()", d)
		return sb.String()
	}},
	{"nested2-pure", false, true, func(s, d int64) string {
		var sb strings.Builder
		fmt.Fprintf(&sb, `func a0(){println("x"*%d)};`, s)
		for i := int64(1); i <= d; i++ {
			fmt.Fprintf(&sb, " func a%d(){a%d();a%d()};", i, i-1, i-1)
		}
		fmt.Fprintf(&sb, " a%d()", d)
		return sb.String()
	}},
}

func c09OutFnByName(name string) *c09OutFn {
	for i := range c09OutFns {
		if c09OutFns[i].Name == name {
			return &c09OutFns[i]
		}
	}
	return nil
}

// c09OutProgram: total output `total` bytes, spread over the recursion depth / iteration count the shape and the depth limit allow
func c09OutProgram(f *c09OutFn, total int64, maxDepth int, rng *rand.Rand) string {
	switch {
	case f.Double:
		d := int64(4 + rng.Intn(9)) // 16 .. 4096 prints
		return f.Prog(total>>d+1, d)
	case f.Rec:
		md := c09EffDepth(maxDepth)
		d := md / 2
		if d > 5000 {
			d = 5000
		}
		if d > 8 {
			d = d/2 + rng.Int63n(d/2)
		}
		if d < 2 {
			d = 2
		}
		return f.Prog(total/d+1, d)
	}
	s := []int64{1000, 30000, 1000000}[rng.Intn(3)]
	return f.Prog(s, total/s+1)
}

// ---- the nesting kinds of c09GenParts and the contexts of c09GenProgram used by "rewrite" and "recnest"

var c09RewriteKinds = []string{"paren", "bracket", "neg", "negparen", "not", "block", "call", "funcblock", "forblock", "elseif", "sum", "sumright",
	"dot", "callchain", "index", "lambda", "strcat", "maplit"}
var c09RewriteCtx = []string{"fn", "for", "quote", "macro", "macroarg"}

// nesting around a recursive call: kinds that take the call as their innermost operand
var c09RecKinds = []string{"block", "bracket", "paren", "call", "index", "maplit", "negparen", "sumright", "forblock"}

// c09RecNesting: enough nesting per call that MaxDepth calls need more Go stack than the runtime allows (1 GB) if nothing counts the nesting
func c09RecNesting(maxDepth int) int {
	md := c09EffDepth(maxDepth)
	n := int(4000000 / md)
	if n < 30 {
		n = 30
	}
	if n > 3000 {
		n = 3000
	}
	return n
}

// ---- from a model schedule class to a job, for the skeletons of this file. The caller has set Skel, MaxDepth, MemLimit, Via, DeadlineMs.
func c09FamJob(rng *rand.Rand, cl *c09Class, j *c09Job, p *c09Plan) {
	par := fmt.Sprint(cl.Par)
	switch cl.Sk {
	case "libgrow":
		f := &c09LibFns[rng.Intn(len(c09LibFns))]
		j.Fn = f.Name
		j.Src = f.Prog(c09LibSize(par, j.MemLimit))
		p.WantRefuse = par != "half"
	case "output":
		f := &c09OutFns[rng.Intn(len(c09OutFns))]
		j.Fn = f.Name
		total := j.MemLimit / 8
		if par == "2" {
			total = j.MemLimit * 4
			p.WantRefuse = true
		}
		j.Src = c09OutProgram(f, total, j.MaxDepth, rng)
	case "recnest":
		j.Gen = c09RecKinds[rng.Intn(len(c09RecKinds))]
		j.GenCtx = "rec"
		j.GenN = c09RecNesting(j.MaxDepth)
		j.Via = "one"
		// the depth limit must be what stops it: room for the Go stack the limit itself allows, and time to get there
		j.MemLimit = 2 << 30
		j.HardCap = 3 << 30
		j.DeadlineMs = 20000
	case "rewrite":
		j.Gen = c09RewriteKinds[rng.Intn(len(c09RewriteKinds))]
		j.GenCtx = c09RewriteCtx[rng.Intn(len(c09RewriteCtx))]
		j.GenN = []int{32, 64, 200, 1500}[rng.Intn(4)]
	case "autoload":
		j.Via = "string"
		j.AutoLoad = true
		vs := c09Variants["autoload"]
		j.Src = vs[rng.Intn(len(vs))]
		if par != "0" {
			c09SlowLoad(rng, j, 20)
		} else if rng.Intn(2) == 0 {
			j.StateLines, j.StateKind = 20, "str"
		}
	}
}

// c09SlowLoad: a saved state (or a PreInput hook) that takes at least deadlineMs before the evaluation starts
func c09SlowLoad(rng *rand.Rand, j *c09Job, deadlineMs int) {
	kinds := []string{"", "str", "arr", "fn"}
	switch { // (loading takes about 16 us per binding here)
	case deadlineMs <= 1:
		j.StateLines, j.StateKind = 1000, kinds[rng.Intn(len(kinds))]
	case deadlineMs <= 20 && rng.Intn(2) == 0:
		j.StateLines, j.StateKind = 6000, kinds[rng.Intn(len(kinds))]
	case deadlineMs <= 100 && rng.Intn(3) == 0:
		j.StateLines, j.StateKind = 30000, kinds[rng.Intn(len(kinds))]
	default:
		j.PreSleepMs = deadlineMs + deadlineMs/4 + 5
	}
}

// c09FamPinned: seed-independent cases of the families of this file (all must hold).
func c09FamPinned(c *Ctx) []c09Plan {
	var ps []c09Plan
	M64, M200 := int64(64<<20), int64(200<<20)
	// every library function with a result of one and a half budgets (must be refused, whatever the function), and the regsub reproducer
	for i := range c09LibFns {
		f := &c09LibFns[i]
		via := []string{"string", "one"}[i%2]
		ps = append(ps, c09Plan{WantRefuse: true, Job: c09Job{Skel: "libgrow", Fn: f.Name, Src: f.Prog(c09LibSize("over", M64)), MaxDepth: 100, DeadlineMs: 1000, MemLimit: M64, Via: via}})
	}
	for _, fn := range []string{"regsub", "join-sep", "sprintf-width", "json-arr", "json_go-indent", "join-inspect"} {
		ps = append(ps, c09Plan{WantRefuse: true, Job: c09Job{Skel: "libgrow", Fn: fn, Src: c09LibFnByName(fn).Prog(900 << 20), MaxDepth: 0, DeadlineMs: 1000, MemLimit: M200, Via: "string"}})
	}
	// every output shape with four budgets of output in total, and the reproducer of the captured-output finding
	rng := rand.New(rand.NewSource(9))
	for i := range c09OutFns {
		f := &c09OutFns[i]
		via := []string{"one", "string"}[i%2]
		ps = append(ps, c09Plan{WantRefuse: true, Job: c09Job{Skel: "output", Fn: f.Name, Src: c09OutProgram(f, 4*M64, 4000, rng), MaxDepth: 4000, DeadlineMs: 1000, MemLimit: M64, Via: via}})
	}
	ps = append(ps,
		c09Plan{Job: c09Job{Skel: "output", Fn: "rec-before-pure", Src: c09OutFnByName("rec-before-pure").Prog(4000, 2000), MaxDepth: 0, DeadlineMs: 1000, MemLimit: M200, Via: "string", HardCap: 2 << 30}},
		c09Plan{WantRefuse: true, Job: c09Job{Skel: "output", Fn: "rec-after-pure", Src: c09OutFnByName("rec-after-pure").Prog(40000, 5000), MaxDepth: 0, DeadlineMs: 1000, MemLimit: M64, Via: "string"}},
		c09Plan{Job: c09Job{Skel: "output", Fn: "rec-after-pure", Src: c09OutFnByName("rec-after-pure").Prog(40000, 1000), MaxDepth: 0, DeadlineMs: 1000, MemLimit: 1 << 30, Via: "one"}},
	)
	// every nesting kind in every rewriting context, deep enough that a rewriting that is not linear in the source never ends
	for i, k := range c09RewriteKinds {
		for h, x := range c09RewriteCtx {
			ps = append(ps, c09Plan{Job: c09Job{Skel: "rewrite", Gen: k, GenCtx: x, GenN: []int{48, 64, 100}[(i+h)%3], MaxDepth: 1000, DeadlineMs: 1000, MemLimit: M64, Via: []string{"string", "one"}[(i+h)%2]}})
		}
	}
	// recursion through nested source: the depth limit (not the Go stack) must be what ends it
	for i, k := range c09RecKinds {
		md := []int{1000, 10000, 0}[i%3]
		n := c09RecNesting(md)
		if md == 0 {
			n = 30
		}
		ps = append(ps, c09Plan{WantMaxDepth: true, Job: c09Job{Skel: "recnest", Gen: k, GenCtx: "rec", GenN: n, MaxDepth: md, DeadlineMs: 20000, MemLimit: 2 << 30, Via: "one", HardCap: 3 << 30}})
	}
	// the 'max depth' failure itself must come back at once, also through loops that keep their variable in a register
	ps = append(ps,
		c09Plan{WantMaxDepth: true, Job: c09Job{Skel: "recurse", Src: "func f(n){vtick(); for i = 0:2 {f(n+i+1)}}; f(0)", MaxDepth: 10000, DeadlineMs: 1000, MemLimit: 256 << 20, Via: "one"}},
		c09Plan{WantMaxDepth: true, Job: c09Job{Skel: "recurse", Src: "func f(n){vtick(); for i = 2 {for j = 2 {f(n+1)}}}; f(0)", MaxDepth: 5000, DeadlineMs: 1000, MemLimit: 256 << 20, Via: "string"}})
	// a nested evaluator started deep inside a recursion continues the count of its caller
	ps = append(ps, c09Plan{Job: c09Job{Skel: "recnest", Fn: "unjson-restart", Src: `func g(d){if d==0 {return unjson("func f(n){f(n+1)}; f(0)")}; g(d-1)}; g(140000)`, MaxDepth: 0, DeadlineMs: 20000, MemLimit: 2 << 30, Via: "one", HardCap: 3 << 30}},
		c09Plan{Job: c09Job{Skel: "recnest", Fn: "eval-continue", Src: `func g(d){if d==0 {return eval("func f(n){f(n+1)}; f(0)")}; g(d-1)}; g(140000)`, MaxDepth: 0, DeadlineMs: 20000, MemLimit: 2 << 30, Via: "one", HardCap: 3 << 30}})
	// what happens before the evaluation starts (loading the saved state, the PreInput hook) takes longer than the deadline
	for i, d := range []int{1, 1, 10, 10, 100, 1000} {
		j := c09Job{Skel: "autoload", Src: []string{"for true {}", "func f(n){f(n+1)}; f(0)"}[i%2], AutoLoad: true, MaxDepth: 1000, DeadlineMs: d, MemLimit: M64, Via: "string"}
		switch i {
		case 0:
			j.StateLines = 1000
		case 1:
			j.PreSleepMs = 20
		case 2:
			j.StateLines, j.StateKind = 6000, "str"
		case 3:
			j.StateLines, j.StateKind, j.AutoSave = 5000, "fn", true
		case 4:
			j.PreSleepMs = 150
		case 5:
			j.PreSleepMs, j.AutoLoad = 1100, false
		}
		ps = append(ps, c09Plan{Job: j})
	}
	// a saved state that does not fit this session's budget
	ps = append(ps, c09Plan{Job: c09Job{Skel: "autoload", Fn: "state-over-budget", Src: "len(v0)", AutoLoad: true, StateLines: 1300, StateKind: "arr1k", MaxDepth: 1000, DeadlineMs: 1000, MemLimit: 16 << 20, Via: "string"}})
	// a value whose printed form does not fit, saved when the evaluation is over
	ps = append(ps, c09Plan{Job: c09Job{Skel: "libgrow", Fn: "autosave-shared", Src: c09LibFnByName("result-shared").Prog(c09LibSize("over", M64)) + "; 1", AutoSave: true, MaxDepth: 1000, DeadlineMs: 1000, MemLimit: M64, Via: "string"}})
	if c.Thorough() {
		// values that share their elements level by level (2^40 leaves in 40 small arrays): whatever walks them element by element
		// at Go level (memo cache key, equality, map key, conversion for json_go / sprintf) has to notice the deadline or the size
		dbl := `a=["xxxxxxxx"]; for 40 {a=[a,a]}; `
		for _, x := range [][2]string{{"sharing-result", dbl + `a`}, {"sharing-print", dbl + `println(a); 1`}, {"sharing-json", dbl + `len(json(a))`},
			{"sharing-call-arg", dbl + `func id(x){x}; id(a); 1`}, {"sharing-equal", dbl + `b=["xxxxxxxx"]; for 40 {b=[b,b]}; a==b`},
			{"sharing-map-key", dbl + `m={a:1}; 1`}, {"sharing-json_go", dbl + `len(json_go(a))`}, {"sharing-str", dbl + `len(str(a))`}} {
			ps = append(ps, c09Plan{Job: c09Job{Skel: "libgrow", Fn: x[0], Src: x[1], MaxDepth: 1000, DeadlineMs: 1000, MemLimit: M64, Via: "string"}})
		}
	}
	return ps
}
