package main

// gen: seeded grammar-based generators of grol programs. A program is generated as an AST in
// the spec's JSON form (the reference semantics evaluates exactly this tree) and rendered to
// source text by `render` (minimal parentheses from the spec's precedence table), so the real
// parser's grouping decisions are part of what is compared.

import (
	"fmt"
	"math"
	"math/rand"
	"strconv"
	"strings"

	"grol.io/grol/ast"
)

// ---------------------------------------------------------------------- AST constructors
func nInt(v int64) J {
	if v < 0 {
		if v == -9223372036854775808 {
			return nInf("-", nPre("-", nIntLit(9223372036854775807)), nIntLit(1))
		}
		return nPre("-", nIntLit(-v))
	}
	return nIntLit(v)
}
func nIntLit(v int64) J { return J{"k": "int", "v": strconv.FormatInt(v, 10)} }
func nFloat(f float64) J {
	if f < 0 || (f == 0 && 1/f < 0) {
		return nPre("-", J{"k": "float", "v": floatBits(-f)})
	}
	return J{"k": "float", "v": floatBits(f)}
}
func nBool(b bool) J            { return J{"k": "bool", "v": b} }
func nStr(s string) J           { return J{"k": "str", "v": latin1(s)} }
func nId(n string) J            { return J{"k": "id", "n": n} }
func nPre(op string, r J) J     { return J{"k": "pre", "op": op, "r": r} }
func nPost(op, name string) J   { return J{"k": "post", "op": op, "n": name} }
func nInf(op string, l, r J) J  { return J{"k": "inf", "op": op, "l": l, "r": r} }
func nAsg(def bool, l, r J) J   { return J{"k": "asg", "def": def, "l": l, "r": r} }
func nIdx(l, i J) J             { return J{"k": "idx", "l": l, "i": i} }
func nDot(l J, name string) J   { return J{"k": "dot", "l": l, "n": name} }
func nCall(f J, a ...J) J       { return J{"k": "call", "f": f, "a": jl(a)} }
func nBi(name string, a ...J) J { return J{"k": "bi", "n": name, "a": jl(a)} }
func nArr(e ...J) J             { return J{"k": "arr", "e": jl(e)} }
func nIf(c J, t []any) J        { return J{"k": "if", "c": c, "t": t, "he": false, "e": []any{}} }
func nIfElse(c J, t, e []any) J { return J{"k": "if", "c": c, "t": t, "he": true, "e": e} }
func nFor(c J, body []any) J    { return J{"k": "for", "c": c, "body": body} }
func nRet(e J) J                { return J{"k": "ret", "e": e} }
func nMap(pairs ...[2]J) J {
	ps := []any{}
	for _, p := range pairs {
		ps = append(ps, []any{p[0], p[1]})
	}
	return J{"k": "map", "p": ps}
}
func nFn(name string, ps []string, variadic, lambda bool, body []any) J {
	pl := []any{}
	for _, p := range ps {
		pl = append(pl, p)
	}
	n := J{"k": "fn", "name": name, "ps": pl, "variadic": variadic, "lambda": lambda, "body": body}
	n["ck"] = latin1(realFnKey(n))
	return n
}
func jl(a []J) []any {
	r := []any{}
	for _, x := range a {
		r = append(r, x)
	}
	return r
}

// realFnKey: the function's code identity as the implementation computes it (object.SetCacheKey on the
// parsed literal): it is also the printed form of an anonymous function value, which belongs to the
// formatter (C02/C03), not to the evaluation semantics. Falls back to fnKey if the text does not parse alone.
func realFnKey(n J) string {
	src := renderNode(n, 0, styleNormal)
	prog, errs := parseFile(src)
	if len(errs) == 0 && len(prog.Statements) == 1 {
		if fl, ok := prog.Statements[0].(*ast.FunctionLiteral); ok {
			return funcCacheKey(fl)
		}
	}
	return fnKey(n)
}

// fnKey: code identity of a function literal (named functions and lambdas differ; the name is not part).
func fnKey(n J) string {
	pre := "L"
	if n["name"].(string) != "" {
		pre = "F"
	}
	return pre + renderNode(J{"k": "fn", "name": "", "ps": n["ps"], "variadic": n["variadic"], "lambda": false, "body": n["body"]}, 0, styleCompact)
}

// ---------------------------------------------------------------------- renderer
// Precedence table; checked against spec/GrolSyntax.tla at run time (loadSpecPrec).
var prec = map[string]int{
	"=": 2, ":=": 2, "||": 3, "&&": 4, ":": 4, "=>": 5, "==": 6, "!=": 6, "<": 7, ">": 7, "<=": 7, ">=": 7,
	"+": 8, "-": 8, "|": 8, "^": 8, "*": 9, "%": 9, "&": 9, "<<": 9, ">>": 9, "/": 10,
}

const (
	precLowest = 1
	precLambda = 5
	precPrefix = 11
	precCall   = 12
	precIndex  = 13
	precDot    = 14
	precAtom   = 20
)

type renderStyle int

const (
	styleNormal  renderStyle = iota // spaces around operators, newline-separated statements
	styleCompact                    // `;` separated, used for function identity keys
	styleParens                     // every sub-expression parenthesised
)

func nodePrec(n J) int {
	switch n["k"] {
	case "inf":
		return prec[n["op"].(string)]
	case "asg":
		return 2
	case "pre":
		return precPrefix
	case "fn":
		return precLambda
	case "if", "for":
		return precLowest
	default:
		return precAtom
	}
}

func renderBlock(stmts []any, st renderStyle) string {
	var sb strings.Builder
	sb.WriteString("{")
	for i, s := range stmts {
		if i > 0 {
			sb.WriteString("; ")
		}
		sb.WriteString(renderNode(s.(J), 0, st))
	}
	sb.WriteString("}")
	return sb.String()
}

func renderList(l []any, st renderStyle) string {
	parts := make([]string, len(l))
	for i, x := range l {
		parts[i] = renderNode(x.(J), precLowest, st)
	}
	return strings.Join(parts, ", ")
}

func quoteGrol(s string) string {
	var sb strings.Builder
	sb.WriteByte('"')
	for i := 0; i < len(s); i++ {
		c := s[i]
		switch {
		case c == '"' || c == '\\':
			sb.WriteByte('\\')
			sb.WriteByte(c)
		case c == '\n':
			sb.WriteString(`\n`)
		case c == '\t':
			sb.WriteString(`\t`)
		case c == '\r':
			sb.WriteString(`\r`)
		case c < 0x20 || c >= 0x7f:
			fmt.Fprintf(&sb, `\x%02x`, c)
		default:
			sb.WriteByte(c)
		}
	}
	sb.WriteByte('"')
	return sb.String()
}

// renderNode prints n so that it parses back to n in a context that requires precedence > ctx.
func renderNode(n J, ctx int, st renderStyle) string {
	p := nodePrec(n)
	s := renderRaw(n, st)
	need := p <= ctx
	if st == styleParens && p < precAtom {
		need = true
	}
	if need {
		return "(" + s + ")"
	}
	return s
}

func renderRaw(n J, st renderStyle) string {
	switch n["k"] {
	case "int":
		return n["v"].(string)
	case "float":
		bits, _ := strconv.ParseUint(n["v"].(string), 16, 64)
		f := math.Float64frombits(bits)
		s := strconv.FormatFloat(f, 'g', -1, 64)
		if !strings.ContainsAny(s, ".e") {
			s += ".0"
		}
		return s
	case "bool":
		if n["v"].(bool) {
			return "true"
		}
		return "false"
	case "str":
		return quoteGrol(unlatin1(n["v"].(string)))
	case "id":
		return n["n"].(string)
	case "none":
		return ""
	case "brk":
		return "break"
	case "cnt":
		return "continue"
	case "ret":
		if n["e"].(J)["k"] == "none" {
			return "return"
		}
		return "return " + renderNode(n["e"].(J), precLowest, st)
	case "pre":
		op := n["op"].(string)
		r := renderNode(n["r"].(J), precPrefix-1, st)
		// keep `- -a` / `+ +a` from lexing as `--` / `++`
		if (op == "-" || op == "+") && strings.HasPrefix(r, op) {
			return op + "(" + r + ")"
		}
		return op + r
	case "post":
		return n["n"].(string) + n["op"].(string)
	case "inf":
		op := n["op"].(string)
		p := prec[op]
		l := renderNode(n["l"].(J), p-1, st)
		r := ""
		if n["r"].(J)["k"] != "none" {
			r = renderNode(n["r"].(J), p, st)
		}
		if op == ":" && n["r"].(J)["k"] == "none" {
			return l + ":"
		}
		return l + " " + op + " " + r
	case "asg":
		op := "="
		if n["def"].(bool) {
			op = ":="
		}
		return renderNode(n["l"].(J), 2, st) + " " + op + " " + renderNode(n["r"].(J), 2, st)
	case "idx":
		return renderNode(n["l"].(J), precIndex-1, st) + "[" + renderNode(n["i"].(J), precLowest, st) + "]"
	case "dot":
		return renderNode(n["l"].(J), precDot-1, st) + "." + n["n"].(string)
	case "call":
		return renderNode(n["f"].(J), precCall-1, st) + "(" + renderList(n["a"].([]any), st) + ")"
	case "bi":
		return n["n"].(string) + "(" + renderList(n["a"].([]any), st) + ")"
	case "arr":
		return "[" + renderList(n["e"].([]any), st) + "]"
	case "map":
		parts := []string{}
		for _, p := range n["p"].([]any) {
			kv := p.([]any)
			// key and value are parsed as the two sides of a `:` infix expression (precedence of &&)
			parts = append(parts, renderNode(kv[0].(J), prec[":"], st)+": "+renderNode(kv[1].(J), prec[":"], st))
		}
		return "{" + strings.Join(parts, ", ") + "}"
	case "if":
		s := "if " + renderNode(n["c"].(J), precLowest, st) + " " + renderBlock(n["t"].([]any), st)
		if n["he"].(bool) {
			s += " else " + renderBlock(n["e"].([]any), st)
		}
		return s
	case "for":
		return "for " + renderNode(n["c"].(J), precLowest, st) + " " + renderBlock(n["body"].([]any), st)
	case "fn":
		ps := n["ps"].([]any)
		names := make([]string, len(ps))
		for i, p := range ps {
			names[i] = p.(string)
		}
		body := n["body"].([]any)
		if n["lambda"].(bool) && n["name"].(string) == "" {
			head := "(" + strings.Join(names, ", ") + ")"
			if len(names) == 1 && names[0] != ".." {
				head = names[0]
			}
			return head + " => " + renderBlock(body, st)
		}
		s := "func"
		if n["name"].(string) != "" {
			s += " " + n["name"].(string)
		}
		return s + "(" + strings.Join(names, ", ") + ") " + renderBlock(body, st)
	case "cmt":
		return ""
	}
	return fmt.Sprintf("/*?%v*/", n["k"])
}

func renderProgram(stmts []any) string {
	var sb strings.Builder
	for _, s := range stmts {
		sb.WriteString(renderNode(s.(J), 0, styleNormal))
		sb.WriteString(";\n")
	}
	return sb.String()
}

// ---------------------------------------------------------------------- typed program generator
type gType int

const (
	tInt gType = iota
	tFloat
	tBool
	tStr
	tArr // array of ints
	tMap // string keys -> ints
	tNil
	tFunc
)

type gVar struct {
	name  string
	t     gType
	arity int   // functions
	ret   gType // functions
	alen  int   // known length of array literal (0 = unknown)
	loop  bool  // loop variable (not assignable)
	rec   bool  // recursive function: first argument must stay small
}

type Gen struct {
	r        *rand.Rand
	scopes   [][]gVar
	nextID   int
	inFunc   int
	inLoop   int
	maxDepth int
	// feature switches (features that are listed as known findings are not generated)
	Off map[string]bool
	// features used by the generated program (for coverage / non-triviality)
	Used map[string]bool
	// probability (in %) of a deliberately ill-typed operand wrapped in catch()
	PWrong int
	// probability (in %) that a non-leaf expression is a call into the modelled library (extension functions, abs, keys)
	PLib int
}

func NewGen(r *rand.Rand) *Gen {
	return &Gen{r: r, scopes: [][]gVar{{}}, maxDepth: 3, Off: map[string]bool{}, Used: map[string]bool{}, PWrong: 4}
}

func (g *Gen) fresh(prefix string) string {
	g.nextID++
	return fmt.Sprintf("%s%d", prefix, g.nextID)
}

func (g *Gen) declare(v gVar) { g.scopes[len(g.scopes)-1] = append(g.scopes[len(g.scopes)-1], v) }

func (g *Gen) visible(t gType, assignable bool) []gVar {
	var res []gVar
	seen := map[string]bool{}
	for i := len(g.scopes) - 1; i >= 0; i-- {
		for j := len(g.scopes[i]) - 1; j >= 0; j-- {
			v := g.scopes[i][j]
			if seen[v.name] {
				continue
			}
			seen[v.name] = true
			if v.t == t && !(assignable && v.loop) {
				res = append(res, v)
			}
		}
	}
	return res
}

func (g *Gen) pick(n int) int      { return g.r.Intn(n) }
func (g *Gen) chance(pct int) bool { return g.r.Intn(100) < pct }
func (g *Gen) use(f string)        { g.Used[f] = true }

var intBoundary = []int64{0, 1, -1, 2, 7, 63, 64, 255, 1 << 31, 1 << 53, 9223372036854775807, -9223372036854775808, -9223372036854775807}
var floatChoices = []float64{0, 0.5, 1.5, -2.25, 3, 1e10, 0.1, 2.5e-3, 100}
var strChoices = []string{"", "a", "ab", "hello", "x y", "a\"b", "é", "z\n", "\x00\x7f", "日本"}

func (g *Gen) intLit() J {
	if g.chance(12) {
		g.use("int-boundary")
		return nInt(intBoundary[g.pick(len(intBoundary))])
	}
	return nInt(int64(g.pick(21) - 4))
}

func (g *Gen) smallInt(lo, hi int) J { return nInt(int64(lo + g.pick(hi-lo+1))) }

// wrong: a deliberately ill-typed / failing expression (always wrapped in catch by callers)
func (g *Gen) wrong(d int) J {
	g.use("deliberate-error")
	switch g.pick(9) {
	case 0:
		return nInf("+", g.expr(tInt, d+1), g.expr(tStr, d+1))
	case 1:
		return nPre("-", g.expr(tStr, d+1))
	case 2:
		return nPre("!", g.expr(tInt, d+1))
	case 3:
		return nCall(g.expr(tInt, d+1))
	case 4:
		return nId("undefined_" + g.fresh("u"))
	case 5:
		return nBi("len", g.expr(tInt, d+1))
	case 6:
		return nBi("error", nStr("boom"), g.expr(tInt, d+1))
	case 7:
		return nIdx(g.expr(tStr, d+1), nInf(":", g.smallInt(2, 4), g.smallInt(0, 1)))
	default:
		return nInf("*", g.expr(tStr, d+1), nInt(-1))
	}
}

func (g *Gen) varOf(t gType) (gVar, bool) {
	vs := g.visible(t, false)
	if len(vs) == 0 {
		return gVar{}, false
	}
	return vs[g.pick(len(vs))], true
}

var intStrings = []string{"0", "12", "-7", "+5", "0x1F", "0b101", "0o17", "017", "1_000", "", "9223372036854775807", "-9223372036854775808", "9223372036854775808", "1_", "12a", " 1", "0x", "1.5"}

// libExpr: an expression of type t whose root is a call into the modelled library (ok=false: none for that type).
func (g *Gen) libExpr(t gType, d int) (J, bool) {
	lib := func(name string, a ...J) J { g.use("lib"); g.use("lib-" + name); return nCall(nId(name), a...) }
	str := func() J { return g.expr(tStr, d+1) }
	sep := func() J { return nStr([]string{",", "", " ", "a", "é", "ab"}[g.pick(6)]) }
	switch t {
	case tInt:
		switch g.pick(9) {
		case 0:
			return lib("int", g.expr(tFloat, d+1)), true
		case 1:
			s := intStrings[g.pick(len(intStrings))]
			if g.chance(70) {
				s = intStrings[g.pick(9)] // the well-formed ones
			}
			return lib("int", nStr(s)), true
		case 2:
			return lib("int", []J{nBool(g.chance(50)), nId("nil"), g.expr(tInt, d+1)}[g.pick(3)]), true
		case 3:
			return lib("round", g.expr(tFloat, d+1)), true
		case 4:
			return lib("rune_len", str()), true
		case 5:
			fn := []string{"min", "max"}[g.pick(2)]
			if g.chance(40) {
				return lib(fn, nArr(g.expr(tInt, d+1), g.expr(tInt, d+1), g.expr(tInt, d+1))), true
			}
			return lib(fn, g.expr(tInt, d+1), g.expr(tInt, d+1)), true
		case 6:
			return lib("abs", g.expr(tInt, d+1)), true
		case 7:
			return nBi("len", lib("split", str(), sep())), true
		default:
			return nBi("len", lib("keys", g.expr(tMap, d+1))), true
		}
	case tFloat:
		switch g.pick(5) {
		case 0, 1:
			fn := []string{"floor", "ceil", "trunc", "sqrt"}[g.pick(4)]
			if g.chance(25) {
				return lib(fn, g.expr(tInt, d+1)), true // integer promoted to float
			}
			return lib(fn, g.expr(tFloat, d+1)), true
		case 2:
			return lib("abs", g.expr(tFloat, d+1)), true
		case 3:
			return lib([]string{"min", "max"}[g.pick(2)], g.expr(tFloat, d+1), g.expr(tFloat, d+1)), true
		default:
			g.use("lib")
			return nId([]string{"PI", "E"}[g.pick(2)]), true
		}
	case tStr:
		switch g.pick(4) {
		case 0:
			return lib("join", lib("split", str(), sep()), sep()), true
		case 1:
			fn := []string{"trim", "trim_left", "trim_right"}[g.pick(3)]
			if g.chance(50) {
				return lib(fn, str()), true
			}
			return lib(fn, str(), nStr([]string{"a", " x", "ab", "é", "", "h\n"}[g.pick(6)])), true
		case 2:
			return lib("join", lib("runes", str())), true
		default:
			return lib("join", nArr(g.expr(tInt, d+1), str(), g.expr(tBool, d+1)), sep()), true
		}
	case tArr:
		if g.chance(50) {
			return lib("runes", str(), nBool(true)), true
		}
		return nArr(lib("min", g.expr(tInt, d+1), g.expr(tInt, d+1)), lib("max", g.expr(tInt, d+1), g.expr(tInt, d+1))), true
	case tBool:
		a, b := g.expr(tInt, d+1), g.expr(tInt, d+1)
		return nInf("<=", lib("min", a, b), lib("max", a, b)), true
	}
	return nil, false
}

func (g *Gen) expr(t gType, d int) J {
	leaf := d >= g.maxDepth || g.chance(25)
	if g.PLib > 0 && !leaf && g.chance(g.PLib) {
		if e, ok := g.libExpr(t, d); ok {
			return e
		}
	}
	if v, ok := g.varOf(t); ok && g.chance(35) && t != tFunc {
		return nId(v.name)
	}
	switch t {
	case tInt:
		if leaf {
			return g.intLit()
		}
		switch g.pick(16) {
		case 0, 1, 2:
			ops := []string{"+", "-", "*"}
			return nInf(ops[g.pick(3)], g.expr(tInt, d+1), g.expr(tInt, d+1))
		case 3:
			g.use("int-div")
			ops := []string{"/", "%"}
			den := g.expr(tInt, d+1)
			if g.Off["int-div-zero"] || !g.chance(10) {
				den = nInf("|", den, nInt(1)) // never zero
			} else {
				g.use("maybe-div-zero")
			}
			return nInf(ops[g.pick(2)], g.expr(tInt, d+1), den)
		case 4:
			g.use("shift")
			ops := []string{"<<", ">>"}
			cnt := g.smallInt(0, 70)
			if !g.Off["negative-shift"] && g.chance(5) {
				cnt = nInt(-1)
				g.use("negative-shift")
			}
			return nInf(ops[g.pick(2)], g.expr(tInt, d+1), cnt)
		case 5:
			ops := []string{"&", "|", "^"}
			return nInf(ops[g.pick(3)], g.expr(tInt, d+1), g.expr(tInt, d+1))
		case 6:
			ops := []string{"-", "~", "^", "+"}
			return nPre(ops[g.pick(4)], g.expr(tInt, d+1))
		case 7:
			g.use("len")
			ts := []gType{tStr, tArr, tMap}
			return nBi("len", g.expr(ts[g.pick(3)], d+1))
		case 8:
			if v, ok := g.varOf(tArr); ok && v.alen > 0 {
				g.use("array-index")
				return nIdx(nId(v.name), nInt(int64(g.pick(2*v.alen)-v.alen)))
			}
			return g.intLit()
		case 9:
			g.use("string-index")
			s := strChoices[1+g.pick(4)]
			return nIdx(nStr(s), nInt(int64(g.pick(2*len(s))-len(s))))
		case 10:
			if f, ok := g.funcReturning(tInt); ok {
				return g.callTo(f, d)
			}
			return g.intLit()
		case 11:
			vs := g.visible(tInt, true)
			if len(vs) > 0 && !g.Off["incr-in-expr"] {
				g.use("incr-expr")
				v := vs[g.pick(len(vs))]
				ops := []string{"++", "--"}
				if g.chance(50) {
					return nPost(ops[g.pick(2)], v.name)
				}
				return nPre(ops[g.pick(2)], nId(v.name))
			}
			return g.intLit()
		case 12:
			g.use("if-expr")
			return nIfElse(g.expr(tBool, d+1), []any{g.expr(tInt, d+1)}, []any{g.expr(tInt, d+1)})
		case 13:
			g.use("first")
			return nBi("first", nArr(g.expr(tInt, d+1), g.expr(tInt, d+1)))
		case 14:
			if v, ok := g.varOf(tMap); ok {
				g.use("map-index")
				_ = v
			}
			return nIdx(nMap([2]J{nStr("k"), g.expr(tInt, d+1)}), nStr("k"))
		default:
			return g.intLit()
		}
	case tFloat:
		if leaf {
			return nFloat(floatChoices[g.pick(len(floatChoices))])
		}
		switch g.pick(5) {
		case 0, 1:
			ops := []string{"+", "-", "*", "/", "%"}
			return nInf(ops[g.pick(5)], g.expr(tFloat, d+1), g.expr(tFloat, d+1))
		case 2:
			g.use("int-float-mix")
			ops := []string{"+", "-", "*", "/"}
			if g.chance(50) {
				return nInf(ops[g.pick(4)], g.expr(tInt, d+1), g.expr(tFloat, d+1))
			}
			return nInf(ops[g.pick(4)], g.expr(tFloat, d+1), g.expr(tInt, d+1))
		case 3:
			return nPre("-", g.expr(tFloat, d+1))
		default:
			return nFloat(floatChoices[g.pick(len(floatChoices))])
		}
	case tBool:
		if g.PWrong > 0 && g.chance(g.PWrong) {
			return nDot(nBi("catch", g.wrong(d)), "err")
		}
		if leaf {
			return nBool(g.chance(50))
		}
		switch g.pick(8) {
		case 0, 1:
			g.use("compare")
			ops := []string{"<", "<=", ">", ">=", "==", "!="}
			ts := []gType{tInt, tInt, tFloat, tStr}
			tt := ts[g.pick(4)]
			return nInf(ops[g.pick(6)], g.expr(tt, d+1), g.expr(tt, d+1))
		case 2:
			g.use("short-circuit")
			ops := []string{"&&", "||"}
			return nInf(ops[g.pick(2)], g.expr(tBool, d+1), g.expr(tBool, d+1))
		case 3:
			return nPre("!", g.expr(tBool, d+1))
		case 4:
			g.use("cross-type-compare")
			ops := []string{"<", "==", "!=", ">="}
			ts := []gType{tInt, tFloat, tStr, tBool, tArr, tNil}
			return nInf(ops[g.pick(4)], g.expr(ts[g.pick(6)], d+1), g.expr(ts[g.pick(6)], d+1))
		case 5:
			g.use("container-compare")
			ops := []string{"==", "!=", "<"}
			tt := []gType{tArr, tMap}[g.pick(2)]
			return nInf(ops[g.pick(3)], g.expr(tt, d+1), g.expr(tt, d+1))
		case 6:
			g.use("short-circuit-effect")
			// the right operand has a visible effect; short-circuiting decides whether it happens
			vs := g.visible(tInt, true)
			if len(vs) > 0 {
				v := vs[g.pick(len(vs))]
				ops := []string{"&&", "||"}
				return nInf(ops[g.pick(2)], g.expr(tBool, d+1), nInf(">", nPost("++", v.name), nInt(0)))
			}
			return nBool(true)
		default:
			return nBool(g.chance(50))
		}
	case tStr:
		if leaf {
			return nStr(strChoices[g.pick(len(strChoices))])
		}
		switch g.pick(6) {
		case 0, 1:
			return nInf("+", g.expr(tStr, d+1), g.expr(tStr, d+1))
		case 2:
			g.use("string-repeat")
			return nInf("*", g.expr(tStr, d+1), g.smallInt(0, 3))
		case 3:
			g.use("string-slice")
			s := g.expr(tStr, d+1)
			lo := g.smallInt(-3, 3)
			if g.chance(40) {
				return nIdx(s, nInf(":", lo, none))
			}
			return nIdx(s, nInf(":", g.smallInt(0, 2), g.smallInt(2, 6)))
		case 4:
			g.use("first-rest-string")
			if g.chance(50) {
				return nInf("+", nStr("<"), nBi("first", nStr(strChoices[1+g.pick(len(strChoices)-1)])))
			}
			return nInf("+", nStr(">"), nBi("rest", nStr([]string{"ab", "hello", "éa", "日本"}[g.pick(4)])))
		default:
			return nStr(strChoices[g.pick(len(strChoices))])
		}
	case tArr:
		if leaf {
			n := g.pick(5)
			if g.chance(15) {
				n = 7 + g.pick(5) // around the small/large threshold (8)
				g.use("array-large")
			}
			es := make([]J, n)
			for i := range es {
				es[i] = g.intLit()
			}
			return nArr(es...)
		}
		switch g.pick(7) {
		case 0:
			g.use("array-concat")
			return nInf("+", g.expr(tArr, d+1), g.expr(tArr, d+1))
		case 1:
			g.use("array-append")
			return nInf("+", g.expr(tArr, d+1), g.expr(tInt, d+1))
		case 2:
			g.use("array-repeat")
			return nInf("*", g.expr(tArr, d+1), g.smallInt(0, 3))
		case 3:
			g.use("range")
			a := g.smallInt(-2, 5)
			return nInf(":", a, nInf("+", a, g.smallInt(0, 12)))
		case 4:
			g.use("array-slice")
			return nIdx(g.expr(tArr, d+1), nInf(":", g.smallInt(0, 2), g.smallInt(2, 9)))
		case 5:
			g.use("rest")
			return nInf("+", nArr(g.intLit()), nBi("rest", nArr(g.intLit(), g.intLit(), g.intLit())))
		default:
			return nArr(g.expr(tInt, d+1), g.expr(tInt, d+1))
		}
	case tMap:
		if leaf {
			n := g.pick(4)
			if g.chance(15) {
				n = 4 + g.pick(3) // around the small/large threshold (4)
				g.use("map-large")
			}
			keys := []string{"a", "b", "c", "d", "e", "f", "g"}
			var ps [][2]J
			for i := 0; i < n; i++ {
				k := nStr(keys[g.pick(len(keys))])
				if g.chance(25) {
					k = g.smallInt(0, 4)
					g.use("map-mixed-keys")
				}
				ps = append(ps, [2]J{k, g.intLit()})
			}
			return nMap(ps...)
		}
		switch g.pick(3) {
		case 0:
			g.use("map-merge")
			return nInf("+", g.expr(tMap, d+1), g.expr(tMap, d+1))
		default:
			return nMap([2]J{nStr("k"), g.expr(tInt, d+1)}, [2]J{g.expr(tStr, d+1), g.expr(tInt, d+1)})
		}
	case tNil:
		return nId("nil")
	}
	return nId("nil")
}

func (g *Gen) funcReturning(t gType) (gVar, bool) {
	var fs []gVar
	for _, v := range g.visible(tFunc, false) {
		if v.ret == t {
			fs = append(fs, v)
		}
	}
	if len(fs) == 0 {
		return gVar{}, false
	}
	return fs[g.pick(len(fs))], true
}

func (g *Gen) callTo(f gVar, d int) J {
	g.use("call")
	args := make([]J, f.arity)
	for i := range args {
		args[i] = g.expr(tInt, d+1)
		if i == 0 && f.rec {
			args[i] = g.smallInt(0, 4)
		}
	}
	return nCall(nId(f.name), args...)
}

func (g *Gen) anyExpr(d int) (J, gType) {
	ts := []gType{tInt, tInt, tFloat, tBool, tStr, tArr, tMap}
	t := ts[g.pick(len(ts))]
	return g.expr(t, d), t
}

func (g *Gen) block(n int, retT *gType) []any {
	var out []any
	for i := 0; i < n; i++ {
		out = append(out, g.stmt(retT)...)
	}
	if len(out) == 0 {
		out = append(out, nBi("println", nStr("-")))
	}
	return out
}

// stmt generates one statement (sometimes two, when a definition must precede a use).
func (g *Gen) stmt(retT *gType) []any {
	depth := g.inFunc + g.inLoop
	switch c := g.pick(22); {
	case c < 4: // new variable
		e, t := g.anyExpr(0)
		name := g.fresh("v")
		v := gVar{name: name, t: t}
		if t == tArr && e["k"] == "arr" {
			v.alen = len(e["e"].([]any))
		}
		def := g.inFunc > 0 && g.chance(40)
		g.declare(v)
		if def {
			g.use("define")
		}
		return []any{nAsg(def, nId(name), e)}
	case c < 7: // assignment to existing
		ts := []gType{tInt, tInt, tStr, tArr, tMap, tFloat, tBool}
		t := ts[g.pick(len(ts))]
		vs := g.visible(t, true)
		if len(vs) == 0 {
			return g.stmt(retT)
		}
		v := vs[g.pick(len(vs))]
		g.use("assign")
		if v.t == tArr {
			g.forgetLen(v.name)
		}
		return []any{nAsg(false, nId(v.name), g.expr(t, 0))}
	case c < 10: // print
		n := 1 + g.pick(3)
		args := make([]J, n)
		for i := range args {
			args[i], _ = g.anyExpr(1)
		}
		name := "println"
		if g.chance(25) {
			name = "print"
		}
		if g.Off["print-first-arg-effect"] {
			// the first argument must not have side effects or print (evaluated twice by the implementation)
			args[0] = nStr(">")
		}
		return []any{nBi(name, args...)}
	case c < 12 && depth < 3: // if / else
		g.use("if")
		cond := g.expr(tBool, 0)
		g.scopes = append(g.scopes, nil)
		t := g.block(1+g.pick(2), retT)
		g.scopes = g.scopes[:len(g.scopes)-1]
		if g.chance(50) {
			g.scopes = append(g.scopes, nil)
			e := g.block(1+g.pick(2), retT)
			g.scopes = g.scopes[:len(g.scopes)-1]
			return []any{nIfElse(cond, t, e)}
		}
		return []any{nIf(cond, t)}
	case c < 15 && depth < 3: // loops
		return g.loop(retT)
	case c < 17 && g.inFunc == 0 && depth == 0: // function definition (+ a call)
		return g.funcDef()
	case c < 18: // index assignment
		if g.chance(50) {
			vs := g.visible(tArr, true)
			for _, v := range vs {
				if v.alen > 0 {
					g.use("array-index-assign")
					if v.alen > 8 {
						g.use("array-large-index-assign")
					}
					return []any{nAsg(false, nIdx(nId(v.name), nInt(int64(g.pick(2*v.alen)-v.alen))), g.expr(tInt, 1))}
				}
			}
		}
		vs := g.visible(tMap, true)
		if len(vs) > 0 {
			v := vs[g.pick(len(vs))]
			g.use("map-index-assign")
			if g.chance(30) {
				return []any{nAsg(false, nDot(nId(v.name), []string{"a", "b", "zz"}[g.pick(3)]), g.expr(tInt, 1))}
			}
			return []any{nAsg(false, nIdx(nId(v.name), nStr([]string{"a", "b", "q"}[g.pick(3)])), g.expr(tInt, 1))}
		}
		return g.stmt(retT)
	case c < 19: // ++ / -- statement
		vs := g.visible(tInt, true)
		if len(vs) == 0 {
			return g.stmt(retT)
		}
		g.use("incr-stmt")
		v := vs[g.pick(len(vs))]
		return []any{nPost([]string{"++", "--"}[g.pick(2)], v.name)}
	case c < 20 && g.inLoop > 0 && !g.Off["break-continue"]: // break / continue under a condition
		g.use("break-continue")
		kind := J{"k": "brk"}
		if g.chance(50) {
			kind = J{"k": "cnt"}
		}
		return []any{nIf(g.expr(tBool, 1), []any{kind})}
	case c < 21 && retT != nil: // return under a condition
		g.use("return")
		return []any{nIf(g.expr(tBool, 1), []any{nRet(g.expr(*retT, 1))})}
	default:
		vs := g.visible(tMap, true)
		if len(vs) > 0 && g.chance(50) {
			g.use("del-entry")
			return []any{nBi("del", nDot(nId(vs[g.pick(len(vs))].name), []string{"a", "b"}[g.pick(2)]))}
		}
		return []any{nBi("println", g.expr(tInt, 0))}
	}
}

func (g *Gen) forgetLen(name string) {
	for i := range g.scopes {
		for j := range g.scopes[i] {
			if g.scopes[i][j].name == name {
				g.scopes[i][j].alen = 0
			}
		}
	}
}

func (g *Gen) loop(retT *gType) []any {
	g.inLoop++
	defer func() { g.inLoop-- }()
	g.scopes = append(g.scopes, nil)
	defer func() { g.scopes = g.scopes[:len(g.scopes)-1] }()
	switch g.pick(6) {
	case 0: // for n { }
		g.use("for-count")
		return []any{nFor(g.smallInt(0, 4), g.block(1+g.pick(2), retT))}
	case 1: // for i = n { }
		g.use("for-var-count")
		name := g.fresh("i")
		cnt := g.smallInt(0, 4)
		g.declare(gVar{name: name, t: tInt, loop: true})
		return []any{nFor(nAsg(g.chance(30), nId(name), cnt), g.block(1+g.pick(2), retT))}
	case 2: // for i = a:b { }
		g.use("for-range")
		name := g.fresh("i")
		a := g.smallInt(-2, 3)
		src := nInf(":", a, nInf("+", a, g.smallInt(0, 4)))
		g.declare(gVar{name: name, t: tInt, loop: true})
		return []any{nFor(nAsg(false, nId(name), src), g.block(1+g.pick(2), retT))}
	case 3: // for x = array / string / map (the source is generated before the loop variable exists)
		name := g.fresh("x")
		switch g.pick(3) {
		case 0:
			g.use("for-array")
			src := g.expr(tArr, 1)
			g.declare(gVar{name: name, t: tInt, loop: true})
			return []any{nFor(nAsg(false, nId(name), src), g.block(1+g.pick(2), retT))}
		case 1:
			g.use("for-string")
			src := g.expr(tStr, 1)
			g.declare(gVar{name: name, t: tStr, loop: true})
			return []any{nFor(nAsg(false, nId(name), src), g.block(1+g.pick(2), retT))}
		default:
			g.use("for-map")
			src := g.expr(tMap, 1)
			g.declare(gVar{name: name, t: tNil, loop: true})
			body := []any{nBi("println", nDot(nId(name), "key"), nDot(nId(name), "value"))}
			body = append(body, g.block(1, retT)...)
			return []any{nFor(nAsg(false, nId(name), src), body)}
		}
	default: // for cond { } with an explicit counter so that it terminates
		g.use("for-cond")
		name := g.fresh("w")
		limit := g.smallInt(0, 4)
		init := nAsg(g.inFunc > 0, nId(name), nInt(0))
		g.declare(gVar{name: name, t: tInt, loop: true})
		// the counter is incremented first so that `continue` cannot skip it
		body := []any{nPost("++", name)}
		old := g.Off["break-continue"]
		if g.Off["break-continue-in-cond-loop"] {
			g.Off["break-continue"] = true
		}
		body = append(body, g.block(1+g.pick(2), retT)...)
		g.Off["break-continue"] = old
		return []any{init, nFor(nInf("<", nId(name), limit), body)}
	}
}

func (g *Gen) funcDef() []any {
	g.use("func")
	name := g.fresh("f")
	arity := g.pick(4)
	ret := []gType{tInt, tInt, tStr, tBool, tArr}[g.pick(5)]
	ps := make([]string, arity)
	g.scopes = append(g.scopes, nil)
	g.inFunc++
	recursive := arity > 0 && ret == tInt && g.chance(30)
	for i := range ps {
		ps[i] = g.fresh("p")
		// the counter of a recursive function is not assignable (termination)
		g.declare(gVar{name: ps[i], t: tInt, loop: recursive && i == 0})
	}
	variadic := g.chance(15)
	if variadic {
		g.use("variadic")
		ps = append(ps, "..")
		g.declare(gVar{name: "..", t: tArr, loop: true})
	}
	var body []any
	if recursive {
		g.use("recursion")
		// terminates: the first parameter decreases to the base case
		args := []J{nInf("-", nId(ps[0]), nInt(1))}
		for i := 1; i < arity; i++ {
			args = append(args, g.expr(tInt, 2))
		}
		callee := nId(name)
		if g.chance(30) {
			callee = nId("self")
			g.use("self")
		}
		body = append(body, nIf(nInf("<=", nId(ps[0]), nInt(0)), []any{nRet(g.expr(tInt, 2))}))
		body = append(body, g.block(g.pick(2), &ret)...)
		body = append(body, nInf("+", g.expr(tInt, 2), nCall(callee, args...)))
	} else {
		body = g.block(1+g.pick(3), &ret)
		if g.chance(25) {
			g.use("closure")
			// return value computed by an inner lambda capturing locals
			inner := g.fresh("g")
			lam := nFn("", []string{"q"}, false, g.chance(50), []any{nInf("+", nId("q"), g.expr(tInt, 2))})
			body = append(body, nAsg(true, nId(inner), lam))
			if ret == tInt {
				body = append(body, nCall(nId(inner), g.expr(tInt, 2)))
			} else {
				body = append(body, nBi("println", nCall(nId(inner), g.expr(tInt, 2))), g.expr(ret, 1))
			}
		} else if g.chance(70) {
			body = append(body, g.expr(ret, 1))
		} else {
			g.use("explicit-return")
			body = append(body, nRet(g.expr(ret, 1)))
		}
	}
	g.inFunc--
	g.scopes = g.scopes[:len(g.scopes)-1]
	var def J
	if g.chance(50) {
		def = nFn(name, ps, variadic, false, body)
	} else {
		g.use("lambda")
		def = nAsg(false, nId(name), nFn("", ps, variadic, g.chance(50), body))
	}
	g.declare(gVar{name: name, t: tFunc, arity: arity, ret: ret, rec: recursive})
	out := []any{def}
	// call it, with exact arity (plus extras when variadic) - sometimes with the wrong arity inside catch
	args := make([]J, arity)
	for i := range args {
		args[i] = g.smallInt(0, 4)
	}
	if variadic {
		for i := 0; i < g.pick(3); i++ {
			args = append(args, g.smallInt(0, 9))
		}
		if g.chance(30) {
			g.use("variadic-spread")
			args = append(args, nArr(g.smallInt(0, 9), g.smallInt(0, 9)))
		}
	}
	call := nCall(nId(name), args...)
	if g.chance(8) && !variadic {
		g.use("arity-mismatch")
		call = nDot(nBi("catch", nCall(nId(name), append(args, nInt(1))...)), "err")
	}
	out = append(out, nBi("println", call))
	return out
}

// Program generates a whole program; the last statement is an expression (the final value).
func (g *Gen) Program(nStmts int) []any {
	var out []any
	for i := 0; i < nStmts; i++ {
		out = append(out, g.stmt(nil)...)
	}
	e, _ := g.anyExpr(0)
	out = append(out, e)
	return out
}
