package main

// semcheck: validation of real runs against the reference semantics (spec/GrolSem.tla via Sem_Trace.tla).

import (
	"bytes"
	"encoding/json"
	"fmt"
	"sync"
)

type semCase struct {
	ID   int
	Src  string
	Prog []any
	Obs  Obs
	Meta map[string]any
}

type semVerdict struct {
	ID  int    `json:"id"`
	V   string `json:"v"` // ok | fuel | panic | err | out | val
	Err bool   `json:"err"`
	Out []int  `json:"out"`
	Val []int  `json:"val"`
}

func (v semVerdict) PredOut() string { return bytesOf(v.Out) }
func (v semVerdict) PredVal() string { return bytesOf(v.Val) }

// semValidate runs the cases through TLC in `shards` parallel JVMs (each `workers` TLC workers).
func semValidate(c *Ctx, cases []semCase, fuel int, shards, workers int) (map[int]semVerdict, error) {
	if shards < 1 {
		shards = 1
	}
	if len(cases) < shards*4 {
		shards = 1
	}
	res := map[int]semVerdict{}
	var mu sync.Mutex
	var wg sync.WaitGroup
	var firstErr error
	per := (len(cases) + shards - 1) / shards
	for sh := 0; sh < shards; sh++ {
		lo, hi := sh*per, min((sh+1)*per, len(cases))
		if lo >= hi {
			break
		}
		var buf bytes.Buffer
		enc := json.NewEncoder(&buf)
		enc.SetEscapeHTML(false)
		for _, cs := range cases[lo:hi] {
			if err := enc.Encode(J{"id": cs.ID, "prog": cs.Prog, "obs": cs.Obs.JSON()}); err != nil {
				return nil, err
			}
		}
		wg.Add(1)
		go func(data []byte, n int) {
			defer wg.Done()
			r, err := c.TLC(TLCOpt{Spec: "Sem_Trace", Cfg: fmt.Sprintf("CONSTANT Fuel = %d\nINIT Init\nNEXT Next\n", fuel),
				Workers: workers, Files: map[string][]byte{"sem_trace.ndjson": data}, Heap: "3g"})
			mu.Lock()
			defer mu.Unlock()
			if err != nil {
				if firstErr == nil {
					firstErr = err
				}
				return
			}
			got := 0
			err = ReadLines(r.Emitted, func(line []byte) error {
				var v semVerdict
				if err := json.Unmarshal(line, &v); err != nil {
					return fmt.Errorf("verdict line %q: %w", line, err)
				}
				res[v.ID] = v
				got++
				return nil
			})
			if err == nil && got != n {
				err = fmt.Errorf("Sem_Trace emitted %d verdicts for %d programs", got, n)
			}
			if err != nil && firstErr == nil {
				firstErr = err
			}
		}(buf.Bytes(), hi-lo)
	}
	wg.Wait()
	return res, firstErr
}
