package main

// C08 driver: runs the REAL grol front end (lexer -> parser -> printer) on one byte string
// under recover() and records the outcome observed at the property's observe_at points:
// parser.New/ParseProgram, Parser.Errors, Parser.ContinuationNeeded, ast.Node.PrettyPrint.

import (
	"fmt"
	"reflect"
	"runtime"
	"strings"

	"grol.io/grol/ast"
	"grol.io/grol/lexer"
	"grol.io/grol/parser"
	"grol.io/grol/token"
)

// c08Rec is one outcome record. Its compact form (c08Rec.compact) is what FrontEnd_Trace.tla validates.
type c08Rec struct {
	Line    bool   // lexer mode: line mode (true) or file mode
	Pan     bool   // lexing/parsing panicked
	PanMsg  string // panic value
	PanSite string // innermost grol.io/grol frame (function name)
	NErr    int
	Cont    bool
	Tree    bool   // ParseProgram returned a non-nil tree
	Nil     int    // missing children (counted only for a clean tree)
	NilPos  string // position of the first missing child, e.g. "FunctionLiteral(lambda).Body.Statements"
	Pr      [3]int // normal, compact, all-parens: 1 printed, 0 panicked, 2 not attempted (tree not clean)
	PrMsg   string
	PrSite  string
	ElOK    bool // error messages / ErrorLine produced without panicking, lines lie inside the input
	ElMsg   string
	Stmts   int
	Unknown int // node types the walker does not know (treated as leaves)
}

func (r *c08Rec) Clean() bool { return !r.Pan && r.NErr == 0 && !r.Cont && r.Tree }

// Class is the outcome class used for the model comparison.
func (r *c08Rec) Class() string {
	switch {
	case r.Pan:
		return "panic"
	case r.NErr > 0:
		return "errors"
	case r.Cont:
		return "continuation"
	default:
		return "clean"
	}
}

func b2i(b bool) int {
	if b {
		return 1
	}
	return 0
}

// compact: [line, pan, nerr(capped at 9), cont, tree, nil(capped), pr0, pr1, pr2, elok]
func (r *c08Rec) compact() string {
	return fmt.Sprintf("[%d,%d,%d,%d,%d,%d,%d,%d,%d,%d]", b2i(r.Line), b2i(r.Pan), min(r.NErr, 9), b2i(r.Cont), b2i(r.Tree),
		min(r.Nil, 9), r.Pr[0], r.Pr[1], r.Pr[2], b2i(r.ElOK))
}

// c08GrolFrame returns the innermost frame of the grol module on the current (panicking) stack.
func c08GrolFrame() string {
	pcs := make([]uintptr, 64)
	n := runtime.Callers(3, pcs)
	fr := runtime.CallersFrames(pcs[:n])
	for {
		f, more := fr.Next()
		if strings.HasPrefix(f.Function, "grol.io/grol/") {
			return strings.TrimPrefix(f.Function, "grol.io/grol/")
		}
		if !more {
			return "?"
		}
	}
}

type c08Walker struct {
	nilCount int
	first    string
	unknown  int
	nodes    int
}

func (w *c08Walker) miss(pos string) {
	w.nilCount++
	if w.first == "" {
		w.first = pos
	}
}

func c08IsNilNode(n ast.Node) bool {
	if n == nil {
		return true
	}
	v := reflect.ValueOf(n)
	return v.Kind() == reflect.Ptr && v.IsNil()
}

func (w *c08Walker) child(n ast.Node, pos string) {
	if c08IsNilNode(n) {
		w.miss(pos)
		return
	}
	w.node(n, pos)
}

func (w *c08Walker) list(l []ast.Node, pos string) {
	for _, n := range l {
		w.child(n, pos)
	}
}

func (w *c08Walker) stmts(s *ast.Statements, pos string) {
	if s == nil {
		w.miss(pos)
		return
	}
	w.list(s.Statements, pos+".Statements")
}

// node visits one non-nil node; a child is "missing" where the printer dereferences it.
func (w *c08Walker) node(n ast.Node, pos string) {
	w.nodes++
	if w.nodes > 5_000_000 {
		return
	}
	switch x := n.(type) {
	case *ast.Statements:
		w.stmts(x, pos)
	case *ast.Identifier, *ast.IntegerLiteral, *ast.FloatLiteral, *ast.StringLiteral, *ast.Boolean, *ast.Comment, *ast.ControlExpression:
		if n.Value() == nil {
			w.miss(pos + ".Token")
		}
	case *ast.ReturnStatement:
		if !c08IsNilNode(x.ReturnValue) { // optional
			w.node(x.ReturnValue, "ReturnStatement.ReturnValue")
		}
	case *ast.PrefixExpression:
		w.child(x.Right, "PrefixExpression.Right")
	case *ast.PostfixExpression:
		if x.Prev == nil {
			w.miss("PostfixExpression.Prev")
		}
	case *ast.InfixExpression:
		w.child(x.Left, "InfixExpression.Left")
		if c08IsNilNode(x.Right) {
			if x.Token == nil || x.Type() != token.COLON { // `[n:]` is the only legal open right side
				w.miss("InfixExpression.Right")
			}
		} else {
			w.node(x.Right, "InfixExpression.Right")
		}
	case *ast.IfExpression:
		w.child(x.Condition, "IfExpression.Condition")
		w.stmts(x.Consequence, "IfExpression.Consequence")
		if x.Alternative != nil {
			w.stmts(x.Alternative, "IfExpression.Alternative")
		}
	case *ast.ForExpression:
		w.child(x.Condition, "ForExpression.Condition")
		w.stmts(x.Body, "ForExpression.Body")
	case *ast.FunctionLiteral:
		k := "FunctionLiteral"
		if x.IsLambda {
			k = "FunctionLiteral(lambda)"
		}
		w.list(x.Parameters, k+".Parameters")
		w.stmts(x.Body, k+".Body")
	case *ast.MacroLiteral:
		w.list(x.Parameters, "MacroLiteral.Parameters")
		w.stmts(x.Body, "MacroLiteral.Body")
	case *ast.CallExpression:
		w.child(x.Function, "CallExpression.Function")
		w.list(x.Arguments, "CallExpression.Arguments")
	case *ast.Builtin:
		w.list(x.Parameters, "Builtin.Parameters")
	case *ast.ArrayLiteral:
		w.list(x.Elements, "ArrayLiteral.Elements")
	case *ast.IndexExpression:
		w.child(x.Left, "IndexExpression.Left")
		w.child(x.Index, "IndexExpression.Index")
	case *ast.MapLiteral:
		for _, k := range x.Order {
			w.child(k, "MapLiteral.Key")
			w.child(x.Pairs[k], "MapLiteral.Value")
		}
	default:
		w.unknown++
	}
}

func c08Lexer(input string, line bool) *lexer.Lexer {
	if line {
		return lexer.NewLineMode(input)
	}
	return lexer.New(input)
}

// c08Run executes the real front end on input in the given lexer mode.
func c08Run(input string, line bool) (rec c08Rec) {
	rec.Line = line
	rec.Pr = [3]int{2, 2, 2}
	rec.ElOK = true
	var p *parser.Parser
	var prog *ast.Statements
	func() {
		defer func() {
			if r := recover(); r != nil {
				rec.Pan = true
				rec.PanMsg = fmt.Sprint(r)
				rec.PanSite = c08GrolFrame()
			}
		}()
		p = parser.New(c08Lexer(input, line))
		prog = p.ParseProgram()
	}()
	if rec.Pan {
		return rec
	}
	errs := p.Errors()
	rec.NErr = len(errs)
	rec.Cont = p.ContinuationNeeded()
	rec.Tree = prog != nil
	if prog != nil {
		rec.Stmts = len(prog.Statements)
	}
	// error rendering: every message is non-empty, and ErrorLine (both variants) works at the final
	// position without panicking (an index outside the input is a Go panic).
	for _, e := range errs {
		if e == "" {
			rec.ElOK, rec.ElMsg = false, "empty error message"
		}
	}
	func() {
		defer func() {
			if r := recover(); r != nil {
				rec.ElOK = false
				rec.ElMsg = fmt.Sprintf("ErrorLine panicked: %v at %s", r, c08GrolFrame())
			}
		}()
		for _, prev := range []bool{false, true} {
			if s, _ := p.ErrorLine(prev); s == "" {
				rec.ElOK, rec.ElMsg = false, "empty error line"
			}
		}
	}()
	if !rec.Clean() {
		return rec
	}
	w := &c08Walker{}
	w.stmts(prog, "Program")
	rec.Nil, rec.NilPos, rec.Unknown = w.nilCount, w.first, w.unknown
	for k := 0; k < 3; k++ {
		func() {
			defer func() {
				if r := recover(); r != nil {
					rec.Pr[k] = 0
					if rec.PrMsg == "" {
						rec.PrMsg = fmt.Sprint(r)
						rec.PrSite = c08GrolFrame()
					}
				}
			}()
			ps := ast.NewPrintState()
			ps.Compact = k == 1
			ps.AllParens = k == 2
			prog.PrettyPrint(ps)
			_ = ps.String()
			rec.Pr[k] = 1
		}()
	}
	return rec
}

type c08Tok struct {
	Type token.Type
	Lit  string
}

// c08Lex returns the tokens the real lexer produces (file mode), up to and including the end marker.
func c08Lex(input string) (toks []c08Tok, unclosedBlock bool) {
	defer func() { _ = recover() }()
	l := lexer.New(input)
	for i := 0; i < len(input)+2; i++ {
		t := l.NextToken()
		toks = append(toks, c08Tok{t.Type(), t.Literal()})
		if t.Type() == token.BLOCKCOMMENT && !strings.HasSuffix(t.Literal(), "*/") {
			unclosedBlock = true
		}
		if t.Type() == token.EOF || t.Type() == token.EOL {
			break
		}
	}
	return toks, unclosedBlock
}

func c08LexTypes(input string) (types []token.Type, unclosedBlock bool) {
	toks, u := c08Lex(input)
	for _, t := range toks {
		types = append(types, t.Type)
	}
	return types, u
}

func shortFunc(f string) string {
	// "parser.(*Parser).parseLambdaMulti" -> "parser.parseLambdaMulti"
	f = strings.ReplaceAll(f, "(*Parser).", "")
	f = strings.ReplaceAll(f, "(*Lexer).", "")
	f = strings.ReplaceAll(f, "(*PrintState).", "")
	return f
}

// c08Verdict applies the property's relation to one record. It returns "" when the record satisfies
// the property, else (signature, what). The TLA+ trace spec applies the same relation record by record;
// this function only adds the narrow attribution (which call site / which child).
func c08Verdict(input string, r *c08Rec) (sig, what string) {
	switch {
	case r.Pan:
		site := shortFunc(r.PanSite)
		if strings.Contains(r.PanMsg, "parseComment for line comment") {
			return "panic:parseComment-same-line", "explicit panic in parseComment: " + r.PanMsg
		}
		return "panic:" + site, fmt.Sprintf("front end panicked in %s: %s", r.PanSite, r.PanMsg)
	case !r.ElOK:
		return "error-line-rendering", r.ElMsg
	case r.NErr == 0 && !r.Cont && !r.Tree:
		return "no-outcome", "no errors, no continuation request and no tree"
	case !r.Line && r.Cont && r.NErr == 0:
		if _, unclosed := c08LexTypes(input); unclosed {
			return "file-mode-continuation-unterminated-block-comment", "file mode (complete input): unterminated block comment yields no error, only a continuation request"
		}
		return "file-mode-continuation", "file mode (complete input) asked for more input without an error"
	case r.Clean() && r.Nil > 0:
		return "nil-child:" + r.NilPos, fmt.Sprintf("clean tree (no error, no continuation) has %d missing child(ren), first at %s", r.Nil, r.NilPos)
	case r.Clean() && (r.Pr[0] != 1 || r.Pr[1] != 1 || r.Pr[2] != 1):
		return "print-panic:" + shortFunc(r.PrSite), fmt.Sprintf("clean tree does not print (normal,compact,allparens)=%v: %s at %s", r.Pr, r.PrMsg, r.PrSite)
	}
	return "", ""
}
