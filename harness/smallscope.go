package main

// smallscope: exhaustive small-scope program sets shared by C01 (full comparison with the reference
// semantics) and C07 (totality): operator x kind x kind, prefix/postfix x kind, index / slice matrix,
// builtins x kind, control forms x kind, assignment targets x kind.

import "fmt"

type ssCase struct {
	Group string
	Prog  []any
}

func bigArr() J {
	es := make([]J, 9)
	for i := range es {
		es[i] = nInt(int64(i + 1))
	}
	return nArr(es...)
}

func bigMap() J {
	var ps [][2]J
	for i := 0; i < 5; i++ {
		ps = append(ps, [2]J{nInt(int64(i)), nInt(int64(i * i))})
	}
	return nMap(ps...)
}

// ssValues: the value universe (each type x boundary members), as literal expressions.
func ssValues(full bool) []J {
	vs := []J{
		nInt(0), nInt(1), nInt(-1), nInt(64), nInt(9223372036854775807), nInt(-9223372036854775808),
		nFloat(0), nFloat(1.5), nInf("/", nFloat(0), nFloat(0)), nInf("/", nFloat(1), nFloat(0)),
		nFloat(9223372036854775808.0), nFloat(9007199254740992.0), nInt(9007199254740993),
		nBool(true), nBool(false), nId("nil"),
		nStr(""), nStr("a"), nStr("h\xc3\xa9llo"),
		nArr(), nArr(nInt(1)), bigArr(),
		nMap(), nMap([2]J{nInt(1), nInt(1)}), bigMap(),
		nFn("", []string{"x"}, false, false, []any{nId("x")}),
	}
	if !full {
		return []J{vs[0], vs[1], vs[2], vs[4], vs[5], vs[7], vs[8], vs[10], vs[13], vs[15], vs[17], vs[18], vs[19], vs[21], vs[22], vs[24], vs[25]}
	}
	return vs
}

var ssInfix = []string{"+", "-", "*", "/", "%", "<<", ">>", "&", "|", "^", "==", "!=", "<", "<=", ">", ">=", "&&", "||", ":"}

func smallScopePrograms(full bool) []ssCase {
	var out []ssCase
	vals := ssValues(full)
	add := func(g string, stmts ...J) {
		p := make([]any, len(stmts))
		for i, s := range stmts {
			p[i] = s
		}
		out = append(out, ssCase{Group: g, Prog: p})
	}
	for _, op := range ssInfix {
		for _, l := range vals {
			for _, r := range vals {
				add("infix", nInf(op, l, r))
			}
		}
	}
	for _, op := range []string{"!", "-", "~", "^", "+"} {
		for _, v := range vals {
			add("prefix", nPre(op, v))
		}
	}
	for _, v := range vals {
		for _, op := range []string{"++", "--"} {
			add("incr", nAsg(false, nId("x"), v), nPost(op, "x"), nId("x"))
			add("incr", nAsg(false, nId("x"), v), nPre(op, nId("x")), nId("x"))
		}
		add("incr", nPost("++", "undefined_name"))
	}
	for _, l := range vals {
		for _, r := range vals {
			add("index", nIdx(l, r))
		}
		add("dot", nDot(l, "k"))
	}
	bounds := []J{nInt(-9), nInt(-1), nInt(0), nInt(1), nInt(2), nInt(9), nInt(9223372036854775807), nInt(-9223372036854775808), nStr("a"), nId("nil")}
	for _, l := range []J{nStr("abc"), nStr(""), nArr(nInt(1), nInt(2), nInt(3)), bigArr(), nMap(), bigMap(), nMap([2]J{nInt(1), nInt(1)}, [2]J{nInt(2), nInt(2)}), nId("nil"), nInt(5)} {
		for _, a := range bounds {
			add("slice", nIdx(l, nInf(":", a, none)))
			for _, b := range bounds {
				add("slice", nIdx(l, nInf(":", a, b)))
			}
		}
	}
	for _, name := range []string{"len", "first", "rest", "print", "println", "catch", "error"} {
		add("builtin", nBi(name))
		for _, v := range vals {
			add("builtin", nBi(name, v))
			add("builtin", nBi(name, v, v))
		}
	}
	for _, v := range vals {
		add("call", nCall(v))
		add("call", nCall(v, nInt(1)))
		add("call", nCall(v, nInt(1), nArr(nInt(2), nInt(3))))
		add("control", nIf(v, []any{nInt(1)}))
		add("control", nIfElse(v, []any{nInt(1)}, []any{nInt(2)}))
		add("control", nFor(v, []any{nBi("println", nStr("b")), J{"k": "brk"}}))
		add("control", nFor(nAsg(false, nId("x"), v), []any{nBi("println", nId("x")), nIf(nInf("==", nId("x"), nInt(2)), []any{J{"k": "brk"}})}))
		add("control", nFor(nAsg(false, nId("x"), nInf(":", v, nInt(2))), []any{nBi("println", nId("x"))}))
		add("control", nFor(nAsg(false, nId("x"), nInf(":", nInt(0), v)), []any{nBi("println", nId("x")), J{"k": "brk"}}))
		add("control", nRet(v))
		add("assign", nAsg(false, nId("x"), v), nAsg(false, nIdx(nId("x"), nInt(0)), nInt(7)), nId("x"))
		add("assign", nAsg(false, nId("x"), v), nAsg(false, nIdx(nId("x"), nInt(-1)), nInt(7)), nId("x"))
		add("assign", nAsg(false, nId("x"), v), nAsg(false, nIdx(nId("x"), nStr("k")), nInt(7)), nId("x"))
		add("assign", nAsg(false, nId("x"), v), nAsg(false, nDot(nId("x"), "k"), nInt(7)), nId("x"))
		add("assign", nAsg(false, nId("x"), v), nBi("del", nIdx(nId("x"), nInt(1))), nId("x"))
		add("assign", nAsg(false, nId("x"), v), nBi("del", nDot(nId("x"), "k")), nId("x"))
		add("assign", nAsg(false, nId("x"), v), nBi("del", nId("x")), nDot(nBi("catch", nId("x")), "err"))
		add("assign", nAsg(false, v, nInt(1)))
		add("assign", nAsg(true, nId("x"), v), nAsg(false, nId("x"), nInf("+", nId("x"), nId("x"))), nId("x"))
		add("assign", nAsg(false, nId("m"), nMap()), nAsg(false, nIdx(nId("m"), v), nInt(1)), nIdx(nId("m"), v))
		add("assign", nMap([2]J{v, nInt(1)}, [2]J{v, nInt(2)}))
	}
	return out
}

func ssKey(c ssCase) string { return fmt.Sprint(c.Group, ":", renderProgram(c.Prog)) }
