package main

// equiv: differential runs of session histories on the real interpreter in two configurations
// and their validation by spec/Equiv_Trace.tla.

import (
	"bytes"
	"encoding/json"
	"fmt"
	"strings"

	"grol.io/grol/eval"
)

type inObs struct {
	Out string `json:"out"`
	Err bool   `json:"err"`
	Val string `json:"val"` // first line of the error message, or "" (results are printed by the REPL into Out)
}

// runHistory feeds the inputs one by one to repl.EvalOne on ONE persistent state.
func runHistory(inputs []string, opt RunOpt) ([]inObs, *eval.State) {
	markCurrent(crashMark{Inputs: inputs, Opt: opt})
	s, buf := newState(opt)
	var res []inObs
	for _, in := range inputs {
		r := replOne(s, buf, in, opt, false)
		o := inObs{Out: r.Out, Err: len(r.Errs) > 0 || r.Panicked}
		if len(r.Errs) > 0 {
			o.Val = errHead(r.Errs[0])
		}
		if r.Panicked {
			o.Val = "panic: " + o.Val
		}
		res = append(res, o)
	}
	return res, s
}

// errHead keeps the message of an error object without its stack ("<err: msg in f>" / "<err: msg, stack below:>...").
func errHead(e string) string {
	e = strings.SplitN(e, "\n", 2)[0]
	if i := strings.Index(e, " in "); i > 0 && strings.HasPrefix(e, "<err:") {
		e = e[:i] + ">"
	}
	e = strings.TrimSuffix(e, ", stack below:>")
	return latin1(e)
}

func obsJSON(o []inObs) []any {
	r := []any{}
	for _, x := range o {
		r = append(r, J{"out": latin1(x.Out), "err": x.Err, "val": x.Val})
	}
	return r
}

type equivCase struct {
	ID   int
	A, B []inObs
}

type equivVerdict struct {
	ID int  `json:"id"`
	OK bool `json:"ok"`
	At int  `json:"at"`
}

func equivValidate(c *Ctx, cases []equivCase) (map[int]equivVerdict, error) {
	res := map[int]equivVerdict{}
	const per = 4000
	for lo := 0; lo < len(cases); lo += per {
		hi := min(lo+per, len(cases))
		var buf bytes.Buffer
		enc := json.NewEncoder(&buf)
		enc.SetEscapeHTML(false)
		for _, cs := range cases[lo:hi] {
			_ = enc.Encode(J{"id": cs.ID, "a": obsJSON(cs.A), "b": obsJSON(cs.B)})
		}
		r, err := c.TLC(TLCOpt{Spec: "Equiv_Trace", Cfg: "INIT Init\nNEXT Next\n", Workers: 1,
			Files: map[string][]byte{"equiv_trace.ndjson": buf.Bytes()}})
		if err != nil {
			return nil, err
		}
		n := 0
		err = ReadLines(r.Emitted, func(line []byte) error {
			var v equivVerdict
			if err := json.Unmarshal(line, &v); err != nil {
				return err
			}
			res[v.ID] = v
			n++
			return nil
		})
		if err != nil {
			return nil, err
		}
		if n != hi-lo {
			return nil, fmt.Errorf("Equiv_Trace emitted %d verdicts for %d cases", n, hi-lo)
		}
	}
	return res, nil
}

func describeDiff(a, b []inObs, at int) string {
	if at == 0 || at > len(a) || at > len(b) {
		return fmt.Sprintf("different number of observations %d vs %d", len(a), len(b))
	}
	return fmt.Sprintf("input %d: A out=%q err=%v %q | B out=%q err=%v %q", at, a[at-1].Out, a[at-1].Err, a[at-1].Val, b[at-1].Out, b[at-1].Err, b[at-1].Val)
}
