package main

// C16 - the lexer is lossless: tokens tile the input (spec/Lexer.tla, spec/Lexer_Trace.tla).
//
// MC: TLC checks the tiling invariants of Lexer.tla for the reference grammar and for every
// lexer the guards allow, and finds the counterexample of every named deviation.
// TV: every byte string up to length 3 / 4 over the 24-symbol significant alphabet, every
// keyword next to every symbol, and seeded random token-rich inputs are lexed by the REAL
// lexer in both modes; the recorded token streams (type, literal, pointer id, Pos() before
// and after each NextToken) are judged by Lexer_Trace.tla, one verdict per trace.

import (
	"encoding/json"
	"fmt"
	"os"
	"sort"
	"strconv"
	"strings"
	"sync"
	"time"

	"grol.io/grol/lexer"
	"grol.io/grol/token"
)

func init() {
	props["C16"] = propDef{check: checkC16, replay: replayC16,
		rule: "case = one (input bytes, lexer mode) lexed by the real lexer and judged by Lexer_Trace.tla; distinct by (mode, input); non-trivial when the lexer delivered at least two tokens before the end marker (so a position hand-over between tokens is exercised)"}
}

// the significant alphabet named by the property (24 symbols)
var c16Alphabet = []byte{'0', '1', '9', 'e', 'E', 'x', 'b', 'a', '_', '.', '+', '-', '"', '`', '/', '*', '=', '<', '!', ' ', '\n', 0, 0xC3, '\\'}

var c16Keywords = []string{"func", "true", "false", "if", "else", "return", "for", "break", "continue", "macro", "quote",
	"unquote", "len", "first", "rest", "print", "println", "log", "error", "catch", "del"}

type c16Case struct {
	in   string
	line bool
}

type c16Tok struct {
	typ    string
	lit    string
	id     int
	before int
	after  int
}

// c16Recorder lexes inputs with the real lexer and keeps the pointer-id table of the whole batch.
type c16Recorder struct {
	ptrID  map[*token.Token]int
	rows   map[int]c16Tok // id -> (type, literal) as first seen
	first  map[int]int    // id -> index of the first case that delivered it
	ntok   int64
	maxTok int
}

func newC16Recorder() *c16Recorder {
	return &c16Recorder{ptrID: map[*token.Token]int{}, rows: map[int]c16Tok{}, first: map[int]int{}}
}

func c16IsEnd(t *token.Token) bool { return t.Type() == token.EOF || t.Type() == token.EOL }

// lex runs one fresh lexer over the input: NextToken until an end marker was delivered with Pos() >= n
// or n+2 calls were made, then 3 more calls (is the end marker sticky?). Always under recover().
func (r *c16Recorder) lex(cs c16Case, caseIdx int) (toks []c16Tok, panicked bool) {
	defer func() {
		if e := recover(); e != nil {
			panicked = true
		}
	}()
	var l *lexer.Lexer
	if cs.line {
		l = lexer.NewLineMode(cs.in)
	} else {
		l = lexer.New(cs.in)
	}
	n := len(cs.in)
	extra := -1
	for calls := 0; ; calls++ {
		if extra < 0 && calls >= n+2 {
			extra = 3
		}
		if extra == 0 {
			break
		}
		b := l.Pos()
		t := l.NextToken()
		a := l.Pos()
		if t == nil {
			toks = append(toks, c16Tok{typ: "NILTOKEN", id: 0, before: b, after: a})
		} else {
			id, ok := r.ptrID[t]
			if !ok {
				id = len(r.ptrID) + 1
				r.ptrID[t] = id
				r.rows[id] = c16Tok{typ: t.Type().String(), lit: t.Literal(), id: id}
				r.first[id] = caseIdx
			}
			toks = append(toks, c16Tok{typ: t.Type().String(), lit: t.Literal(), id: id, before: b, after: a})
		}
		if extra > 0 {
			extra--
		} else if t != nil && c16IsEnd(t) && a >= n {
			extra = 3
		}
	}
	return toks, false
}

func c16AppendBytes(buf []byte, s string) []byte {
	buf = append(buf, '[')
	for i := 0; i < len(s); i++ {
		if i > 0 {
			buf = append(buf, ',')
		}
		buf = strconv.AppendInt(buf, int64(s[i]), 10)
	}
	return append(buf, ']')
}

// one ndjson trace record (see Lexer_Trace.tla)
func c16AppendTrace(buf []byte, id int, cs c16Case, toks []c16Tok, panicked bool) []byte {
	return c16AppendTraceLE(buf, id, cs, toks, panicked, nil)
}

// le != nil: the record stands for both modes (see Lexer_Trace.tla): toks is the file-mode stream, le the line-mode end token.
func c16AppendTraceLE(buf []byte, id int, cs c16Case, toks []c16Tok, panicked bool, le *c16Tok) []byte {
	buf = append(buf, `{"k":"tr","id":`...)
	buf = strconv.AppendInt(buf, int64(id), 10)
	switch {
	case le != nil:
		buf = append(buf, `,"m":"both","le":["`...)
		buf = append(buf, le.typ...)
		buf = append(buf, `",`...)
		buf = strconv.AppendInt(buf, int64(le.id), 10)
		buf = append(buf, `],"inp":`...)
	case cs.line:
		buf = append(buf, `,"m":"line","le":[],"inp":`...)
	default:
		buf = append(buf, `,"m":"file","le":[],"inp":`...)
	}
	buf = c16AppendBytes(buf, cs.in)
	if panicked {
		buf = append(buf, `,"p":1,"t":[`...)
	} else {
		buf = append(buf, `,"p":0,"t":[`...)
	}
	for i, t := range toks {
		if i > 0 {
			buf = append(buf, ',')
		}
		buf = append(buf, `["`...)
		buf = append(buf, t.typ...) // type names are identifiers
		buf = append(buf, `",`...)
		buf = c16AppendBytes(buf, t.lit)
		buf = append(buf, ',')
		buf = strconv.AppendInt(buf, int64(t.id), 10)
		buf = append(buf, ',')
		buf = strconv.AppendInt(buf, int64(t.before), 10)
		buf = append(buf, ',')
		buf = strconv.AppendInt(buf, int64(t.after), 10)
		buf = append(buf, ']')
	}
	return append(buf, "]}\n"...)
}

// the interning table of the batch: distinct (id, type, literal), grouped by type, literals in byte order
func (r *c16Recorder) appendTable(buf []byte) []byte {
	groups := map[string][]c16Tok{}
	for _, row := range r.rows {
		groups[row.typ] = append(groups[row.typ], row)
	}
	names := make([]string, 0, len(groups))
	for k := range groups {
		names = append(names, k)
	}
	sort.Strings(names)
	buf = append(buf, `{"k":"tab","g":[`...)
	for gi, name := range names {
		g := groups[name]
		sort.Slice(g, func(i, j int) bool {
			if g[i].lit != g[j].lit {
				return g[i].lit < g[j].lit
			}
			return g[i].id < g[j].id
		})
		if gi > 0 {
			buf = append(buf, ',')
		}
		buf = append(buf, `["`...)
		buf = append(buf, name...)
		buf = append(buf, `",[`...)
		for i, row := range g {
			if i > 0 {
				buf = append(buf, ',')
			}
			buf = append(buf, '[')
			buf = c16AppendBytes(buf, row.lit)
			buf = append(buf, ',')
			buf = strconv.AppendInt(buf, int64(row.id), 10)
			buf = append(buf, ']')
		}
		buf = append(buf, `]]`...)
	}
	return append(buf, "]}\n"...)
}

// ------------------------------------------------------------------ generators

func c16Exhaustive(maxLen int) []c16Case {
	var res []c16Case
	cur := []string{""}
	all := []string{""}
	for n := 1; n <= maxLen; n++ {
		next := make([]string, 0, len(cur)*len(c16Alphabet))
		for _, p := range cur {
			for _, a := range c16Alphabet {
				next = append(next, p+string([]byte{a}))
			}
		}
		all = append(all, next...)
		cur = next
	}
	for _, s := range all {
		res = append(res, c16Case{s, false}, c16Case{s, true})
	}
	return res
}

// every keyword alone, before and after every alphabet symbol, and next to another keyword
func c16KeywordCases() []c16Case {
	var res []c16Case
	add := func(s string) { res = append(res, c16Case{s, false}, c16Case{s, true}) }
	for _, k := range c16Keywords {
		add(k)
		add(strings.ToUpper(k))
		for _, a := range c16Alphabet {
			add(k + string([]byte{a}))
			add(string([]byte{a}) + k)
		}
		add(k + " " + c16Keywords[(len(k)*7)%len(c16Keywords)])
		add(k[:len(k)-1])
	}
	return res
}

// long tokens: the same long literal (identifier, number, string, raw string, line and block comment, illegal run) twice in
// one input and again in another input; equal tokens must be one shared object whatever their length
// every byte value (not only the significant alphabet) where the lexer classifies bytes: at the end of and inside a line
// comment, after a block comment, inside strings, between identifiers and numbers; and every kind of truncated escape at
// the end of an unterminated string
func c16EveryByteCases() []c16Case {
	var res []c16Case
	add := func(s string) { res = append(res, c16Case{s, false}, c16Case{s, true}) }
	for b := 0; b < 256; b++ {
		c := string([]byte{byte(b)})
		for _, t := range []string{"//x" + c, "//x" + c + "\n1", "1 //" + c + c + " ", "//" + c + "x" + c + "\n", "/*x*/" + c + "1", "/*" + c + "*/", `"` + c + `"`, "`" + c + "`", "a" + c + "a", "1" + c + "1", c, c + c, " " + c + "\n"} {
			add(t)
		}
	}
	for _, tail := range []string{`\`, `\x`, `\x4`, `\u`, `\u2`, `\u26`, `\u266`, `\U`, `\U0001F`, `\U0001F60`, `\0`, `\12`, `\"`, `\n\`, `\x"1`, `\x41\`} {
		for _, pre := range []string{`"`, `"ab`, `x = "a`, "`", "`ab"} {
			add(pre + tail)
			add(pre + tail + "\n")
			add(pre + tail + `" 1`)
		}
	}
	return res
}

func c16LongTokenCases() []c16Case {
	var res []c16Case
	add := func(s string) { res = append(res, c16Case{s, false}, c16Case{s, true}) }
	for _, n := range []int{16, 33, 63, 64, 65, 66, 129, 257} {
		id := "id" + strings.Repeat("x", n-2)
		num := strings.Repeat("7", n)
		flt := "0." + strings.Repeat("3", n-2)
		str := `"` + strings.Repeat("s", n) + `"`
		raw := "`" + strings.Repeat("r", n) + "`"
		lc := "//" + strings.Repeat("c", n)
		bc := "/*" + strings.Repeat("b", n) + "*/"
		for _, t := range []string{id, num, flt, str, raw, bc} {
			add(t + " " + t)
			add(t)
		}
		add(lc + "\n" + lc)
		add(lc)
		add(`"` + strings.Repeat("u", n)) // unterminated
	}
	return res
}

// seeded random token-rich inputs (longer than the exhaustive bound)
func c16Random(c *Ctx, n int) []c16Case {
	r := c.Rng
	letters := "abexE_fXz"
	digits := "0123456789_"
	ops := []string{"=", "+", "-", "!", "*", "/", "%", "<", ">", "&", "|", "^", "~", ",", ";", "(", ")", "{", "}", "[", "]", ":", ".",
		"<=", ">=", "==", "!=", "++", "--", "..", "||", "&&", "<<", ">>", "=>", ":="}
	illegal := []string{"@", "#", "$", "?", "\\", "'", "\xc3", "\xc3\xa9", "\x7f", "\x01", "\v", "\f"}
	seps := []string{"", "", "", " ", " ", "\n", "\t", "\r\n", "  "}
	rs := func(set string, lo, hi int) string {
		k := lo + r.Intn(hi-lo+1)
		b := make([]byte, k)
		for i := range b {
			b[i] = set[r.Intn(len(set))]
		}
		return string(b)
	}
	piece := func() string {
		switch x := r.Intn(100); {
		case x < 12:
			return string(letters[r.Intn(len(letters)-0)]) + rs(letters+"019", 0, 4)
		case x < 20:
			return c16Keywords[r.Intn(len(c16Keywords))]
		case x < 28:
			return rs("0123456789", 1, 3) + rs(digits, 0, 2)
		case x < 32:
			return "0x" + rs("0123456789abcdefABCDEF_g", 0, 4)
		case x < 35:
			return "0b" + rs("01_2", 0, 4)
		case x < 43: // floats, leading-dot floats, well-formed exponents
			s := rs("0123456789", 0, 2)
			if r.Intn(3) > 0 || s == "" {
				s += "." + rs("0123456789", boolInt(s == ""), 2)
			}
			if r.Intn(2) == 0 {
				s += string("eE"[r.Intn(2)]) + []string{"", "+", "-"}[r.Intn(3)] + rs("0123456789", 1, 2)
			}
			return s
		case x < 46: // malformed exponents and dot sequences
			return []string{"1e", "1e+", "2.5E-", "1ex", "7e+x", ".5.3", ".5.", "1..2", "1.2.3", ".1e", "3e_"}[r.Intn(11)]
		case x < 62:
			return ops[r.Intn(len(ops))]
		case x < 70: // double-quoted string with escapes
			var sb strings.Builder
			sb.WriteByte('"')
			for k := r.Intn(5); k > 0; k-- {
				switch r.Intn(8) {
				case 0:
					sb.WriteString(`\"`)
				case 1:
					sb.WriteString(`\\`)
				case 2:
					sb.WriteString(`\n`)
				case 3:
					sb.WriteString(`\x` + rs("0123456789abcdefg\"", 2, 2))
				case 4:
					sb.WriteString(`\u` + rs("0123456789abcdef", 4, 4))
				case 5:
					sb.WriteString("`")
				default:
					sb.WriteString(rs("ab 1+/*\n", 1, 2))
				}
			}
			if r.Intn(12) > 0 {
				sb.WriteByte('"')
			}
			return sb.String()
		case x < 75:
			s := "`" + rs("ab\\\" \n/*1", 0, 4)
			if r.Intn(12) > 0 {
				s += "`"
			}
			return s
		case x < 82:
			return "//" + rs("ab /*\"1.\t\r ", 0, 5) + []string{"\n", "\n", " \n", "\t\r\n", ""}[r.Intn(5)]
		case x < 89:
			s := "/*" + rs("ab */\n\"1", 0, 5)
			if r.Intn(8) > 0 {
				s += "*/"
			}
			return s
		case x < 94:
			return illegal[r.Intn(len(illegal))]
		case x < 96:
			return "\x00"
		default:
			return string([]byte{c16Alphabet[r.Intn(len(c16Alphabet))], c16Alphabet[r.Intn(len(c16Alphabet))]})
		}
	}
	res := make([]c16Case, 0, n)
	for i := 0; i < n; i++ {
		var sb strings.Builder
		for k := 3 + r.Intn(10); k > 0; k-- {
			sb.WriteString(piece())
			sb.WriteString(seps[r.Intn(len(seps))])
		}
		res = append(res, c16Case{sb.String(), r.Intn(2) == 0})
	}
	return res
}

func boolInt(b bool) int {
	if b {
		return 1
	}
	return 0
}

// ------------------------------------------------------------------ TLC plumbing

const c16TraceCfg = "CONSTANTS\n Sigma = {0}\n MaxLen = 0\n Dev = {}\nINIT TraceInit\nNEXT TraceNext\nPOSTCONDITION TraceAccepted\n"

type c16Verdict struct {
	ID  *int     `json:"id"`
	Sig []string `json:"sig"`
	TL  string   `json:"tl"`
}

type c16ShardResult struct {
	verdicts []c16Verdict // only rejected / disagreeing traces
	table    *string      // verdict of the table record if the shard held one
	ok, bad  int
	md       int
	wall     time.Duration
}

// runShard validates one ndjson batch (nrec records) with Lexer_Trace.tla.
func c16RunShard(c *Ctx, data []byte, nrec int) (*c16ShardResult, error) {
	if d := os.Getenv("C16_DUMP"); d != "" { // debugging aid: keep the recorded batches
		_ = os.WriteFile(fmt.Sprintf("%s/shard-%d-%d.ndjson", d, nrec, len(data)), data, 0o644)
	}
	r, err := c.TLC(TLCOpt{Spec: "Lexer_Trace", Cfg: c16TraceCfg, Workers: 1, Heap: "3g",
		Files: map[string][]byte{"lexer_trace.ndjson": data}, Timeout: 20 * time.Minute})
	if err != nil {
		return nil, err
	}
	res := &c16ShardResult{wall: r.Wall}
	sawSummary := false
	err = ReadLines(r.Emitted, func(line []byte) error {
		// md is a set of ints in the verdict lines and a count in the summary line: decode in two steps
		var raw map[string]json.RawMessage
		if err := json.Unmarshal(line, &raw); err != nil {
			return fmt.Errorf("verdict line %q: %w", line, err)
		}
		if _, ok := raw["summary"]; ok {
			var s struct{ Records, Ok, Bad, Md int }
			if err := json.Unmarshal(line, &s); err != nil {
				return err
			}
			if s.Records != nrec {
				return fmt.Errorf("summary says %d records, shard has %d", s.Records, nrec)
			}
			res.ok, res.bad, res.md = s.Ok, s.Bad, s.Md
			sawSummary = true
			return nil
		}
		if _, ok := raw["table"]; ok {
			var s struct{ Verdict string }
			if err := json.Unmarshal(line, &s); err != nil {
				return err
			}
			res.table = &s.Verdict
			return nil
		}
		var v c16Verdict
		if err := json.Unmarshal(line, &v); err != nil {
			return fmt.Errorf("verdict line %q: %w", line, err)
		}
		if v.ID == nil {
			return fmt.Errorf("verdict line without id: %q", line)
		}
		res.verdicts = append(res.verdicts, v)
		return nil
	})
	if err != nil {
		return nil, err
	}
	if !sawSummary || res.ok+res.bad != nrec {
		return nil, fmt.Errorf("Lexer_Trace did not judge every record (summary=%v ok=%d bad=%d records=%d)\n%s", sawSummary, res.ok, res.bad, nrec, tail(r.Out, 1500))
	}
	return res, nil
}

func tail(s string, n int) string {
	if len(s) > n {
		return s[len(s)-n:]
	}
	return s
}

func c16CasesJSON(cs c16Case) map[string]any {
	m := "file"
	if cs.line {
		m = "line"
	}
	return map[string]any{"input": intsOf(cs.in), "mode": m, "text": strconv.Quote(cs.in)}
}

// signature of one rejected token / trace
func c16Signature(code string, typ string) string {
	if strings.HasPrefix(code, "dev:") {
		return code[4:]
	}
	code = strings.TrimPrefix(code, "bad:")
	if typ != "" {
		return "lexer-" + code + ":" + typ
	}
	return "lexer-" + code
}

// c16Validate lexes the cases with the real lexer, validates them with TLC in `shards` parallel runs and
// reports every rejected token through c.Fail. Returns the number of traces validated.
type c16Stats struct {
	traces, rejected, disagree int
	tokens                     int64
	tlcWall                    time.Duration
	mdSamples                  []any
}

func c16Validate(c *Ctx, cases []c16Case, shards int, withTable bool, report func(idxs []int, sig, what string)) (*c16Stats, *c16Recorder, error) {
	rec := newC16Recorder()
	if shards < 1 {
		shards = 1
	}
	if shards > len(cases) {
		shards = max(1, len(cases))
	}
	bufs := make([][]byte, shards)
	counts := make([]int, shards)
	traces := make(map[int][]c16Tok) // kept only for small batches (replay, self-test)
	keep := len(cases) <= 5000
	isEndTyp := func(t string) bool { return t == "EOF" || t == "EOL" }
	// sameButEnd: the line-mode stream is the file-mode stream with every end token replaced by one token le
	sameButEnd := func(f, l []c16Tok) *c16Tok {
		if len(f) != len(l) {
			return nil
		}
		var fe, le *c16Tok
		for k := range f {
			if f[k].before != l[k].before || f[k].after != l[k].after {
				return nil
			}
			if isEndTyp(f[k].typ) {
				if !isEndTyp(l[k].typ) || l[k].lit != f[k].lit {
					return nil
				}
				if fe == nil {
					fe, le = &f[k], &l[k]
				} else if f[k].typ != fe.typ || f[k].id != fe.id || l[k].typ != le.typ || l[k].id != le.id {
					return nil
				}
			} else if f[k] != l[k] {
				return nil
			}
		}
		return le
	}
	pairOf := map[int]int{} // record id of a "both" record -> index of its line-mode case
	nrec := 0
	emit := func(i int, cs c16Case, toks []c16Tok, panicked bool, le *c16Tok) {
		sh := nrec % shards // round robin: every shard gets the same mix of short and long inputs
		nrec++
		bufs[sh] = c16AppendTraceLE(bufs[sh], i, cs, toks, panicked, le)
		counts[sh]++
	}
	count := func(i int, toks []c16Tok) {
		rec.ntok += int64(len(toks))
		nb := 0
		for _, t := range toks {
			if !isEndTyp(t.typ) {
				nb++
			}
		}
		c.Case(fmt.Sprintf("%v:%s", cases[i].line, cases[i].in), nb >= 2)
		if keep {
			traces[i] = toks
		}
	}
	for i := 0; i < len(cases); i++ {
		cs := cases[i]
		toks, panicked := rec.lex(cs, i)
		count(i, toks)
		if !panicked && !cs.line && i+1 < len(cases) && cases[i+1].line && cases[i+1].in == cs.in {
			ltoks, lpanicked := rec.lex(cases[i+1], i+1)
			count(i+1, ltoks)
			if le := sameButEnd(toks, ltoks); !lpanicked && le != nil {
				pairOf[i] = i + 1
				emit(i, cs, toks, false, le)
			} else {
				emit(i, cs, toks, false, nil)
				emit(i+1, cases[i+1], ltoks, lpanicked, nil)
			}
			i++
			continue
		}
		emit(i, cs, toks, panicked, nil)
	}
	if nrec < shards { // fewer records than shards: drop the empty ones
		shards = max(1, nrec)
		bufs, counts = bufs[:shards], counts[:shards]
	}
	if withTable {
		// interning at scale: equal tokens stay one object however many distinct tokens were interned in between. The big
		// inputs are lexed outside the recorder (their tens of thousands of tokens stay out of the table); the small input
		// lexed before and after them must come back as the same objects, or the table gets two ids for one (type, text).
		small := c16Case{"alpha = 42 // note\n\"text\" 0.5 /* bc */", false}
		_, _ = rec.lex(small, 0)
		for _, n := range []int{5000, 17000, 70000} {
			var sb strings.Builder
			for k := 0; k < n; k++ {
				fmt.Fprintf(&sb, "v%d_%d %d \"s%d\" // c%d\n", n, k, 1000000+n*100+k, k, k)
			}
			for _, line := range []bool{false, true} {
				var l *lexer.Lexer
				if line {
					l = lexer.NewLineMode(sb.String())
				} else {
					l = lexer.New(sb.String())
				}
				for k := 0; k < 5*n+10; k++ {
					if t := l.NextToken(); t == nil || c16IsEnd(t) {
						break
					}
					rec.ntok++
				}
			}
			_, _ = rec.lex(small, 0)
			// and tokens met for the first time only now are shared from their first occurrence on
			fresh := c16Case{fmt.Sprintf("gamma%d = %d // fresh note %d\n\"fresh text %d\" 0.%d", n, 424200+n, n, n, 25+n), false}
			_, _ = rec.lex(fresh, 0)
			_, _ = rec.lex(fresh, 0)
			_, _ = rec.lex(c16Case{fresh.in + " " + fresh.in, true}, 0)
		}
		// interning across everything else the process does: the table is global, the evaluator shares the process with the
		// lexer. Sessions that define, call, redefine, delete, fail, panic, expand macros, evaluate strings, save and reset
		// are run between two lexings of the small input: same objects again.
		for _, h := range [][]string{
			{"f = func(x) {x + 1}", "f(1)", "f = func(x) {x + 2}", "f(1)", "g = func(x) {f(x)}", "g(1)", "del(f)", "catch(g(1))"},
			{"K = 1", "h = func() {K}", "h()", "del(K)", "K = 2", "h()", "func nm(a) {a}", "nm(1)", "func nm(a) {a + 1}", "nm(1)"},
			{"r = func(n) {r(n + 1)}", "r(0)", "m = macro(x) {quote(unquote(x) + 1)}", "m(2)", `eval("alpha = 42 // note")`, "alpha", `unjson("[1, 2]")`, "1 +", "a b c )", "info"},
			{"a = 1:200", "b = a + a", "x = 0; for i = 100 {x = x + i}", `s = "text"; s + s`, "save", "load", "del(a)", "del(b)", "reset = 1", "0.5 + 0.5 /* bc */"},
		} {
			_, _ = runHistory(h, RunOpt{})
			_, _ = rec.lex(small, 0)
			_, _ = runHistory(h, RunOpt{NoReg: true})
			_, _ = rec.lex(small, 0)
		}
		bufs[shards-1] = rec.appendTable(bufs[shards-1])
		counts[shards-1]++
	}
	st := &c16Stats{traces: len(cases), tokens: rec.ntok}
	results := make([]*c16ShardResult, shards)
	errs := make([]error, shards)
	var wg sync.WaitGroup
	sem := make(chan struct{}, 14)
	t0 := time.Now()
	for s := 0; s < shards; s++ {
		wg.Add(1)
		go func(s int) {
			defer wg.Done()
			sem <- struct{}{}
			defer func() { <-sem }()
			results[s], errs[s] = c16RunShard(c, bufs[s], counts[s])
		}(s)
	}
	wg.Wait()
	st.tlcWall = time.Since(t0)
	for _, e := range errs {
		if e != nil {
			return nil, nil, e
		}
	}
	for s, r := range results {
		if withTable && s == shards-1 && r.table == nil {
			return nil, nil, fmt.Errorf("the table record was not judged")
		}
		if r.table != nil && *r.table != "" {
			// name two witness cases: the first deliveries of two pointers with equal (type, literal)
			var idxs []int
			seen := map[string]int{}
			for id := 1; id <= len(rec.rows) && idxs == nil; id++ {
				key := rec.rows[id].typ + "\x00" + rec.rows[id].lit
				if o, ok := seen[key]; ok {
					idxs = []int{rec.first[o], rec.first[id]}
				}
				seen[key] = id
			}
			report(idxs, "lexer-"+*r.table, "the interning table of the batch: "+*r.table)
		}
	}
	typeOf := func(idx, k int) string {
		if toks, ok := traces[idx]; ok && k < len(toks) {
			return toks[k].typ
		}
		// large batches do not keep their traces: re-lex to name the token type
		toks, _ := newC16Recorder().lex(cases[idx], 0)
		if k < len(toks) {
			return toks[k].typ
		}
		return ""
	}
	for _, r := range results {
		for _, v := range r.verdicts {
			if *v.ID < 0 || *v.ID >= len(cases) {
				return nil, nil, fmt.Errorf("verdict for unknown trace id %d", *v.ID)
			}
			targets := []int{*v.ID}
			if l, ok := pairOf[*v.ID]; ok { // a record that stands for both modes
				targets = append(targets, l)
			}
			for _, idx := range targets {
				var mdToks []int
				bad := v.TL != ""
				for k, code := range v.Sig {
					switch {
					case code == "":
					case code == "md":
						mdToks = append(mdToks, k+1)
					default:
						bad = true
						typ := ""
						if strings.HasPrefix(code, "bad:") {
							typ = typeOf(idx, k)
						}
						report([]int{idx}, c16Signature(code, typ), fmt.Sprintf("token %d of %s (%s mode): %s", k+1, strconv.Quote(cases[idx].in), modeName(cases[idx].line), code))
					}
				}
				if v.TL != "" {
					report([]int{idx}, c16Signature(v.TL, ""), fmt.Sprintf("%s (%s mode): %s", strconv.Quote(cases[idx].in), modeName(cases[idx].line), v.TL))
				}
				if bad {
					st.rejected++
				}
				if len(mdToks) > 0 || (!bad && len(targets) == 2) {
					if len(mdToks) > 0 || idx == targets[1] { // a pair without md tokens is listed for its line-mode end marker type
						st.disagree++
						if len(st.mdSamples) < 5 {
							st.mdSamples = append(st.mdSamples, map[string]any{"case": c16CasesJSON(cases[idx]), "tokens": mdToks})
						}
					}
				}
			}
		}
	}
	return st, rec, nil
}

func modeName(line bool) string {
	if line {
		return "line"
	}
	return "file"
}

// ------------------------------------------------------------------ the check

func c16MCCfg(alpha []byte, maxLen int, dev []string, kind string) string {
	as := make([]string, len(alpha))
	for i, a := range alpha {
		as[i] = strconv.Itoa(int(a))
	}
	ds := make([]string, len(dev))
	for i, d := range dev {
		ds[i] = strconv.Quote(d)
	}
	s := fmt.Sprintf("CONSTANTS\n Sigma = {%s}\n MaxLen = %d\n Dev = {%s}\n", strings.Join(as, ","), maxLen, strings.Join(ds, ","))
	switch kind {
	case "ref-live":
		return s + "SPECIFICATION RefSpec\nINVARIANTS Ordered Tiled DoneAll EndBound NotStuck\nPROPERTIES Sticky Terminates\n"
	case "ref":
		return s + "INIT Init\nNEXT RefNext\nINVARIANTS Ordered Tiled DoneAll EndBound NotStuck\nPROPERTIES Sticky\n"
	default: // any
		return s + "SPECIFICATION AnySpec\nINVARIANTS Ordered Tiled DoneAll EndBound NotStuck\nPROPERTIES Sticky\n"
	}
}

var c16SmallAlphabet = []byte{'1', 'e', '.', '+', '"', '/', '*', '\n', ' ', 0, '\\'}

func checkC16(c *Ctx) {
	c.Assume("whitespace is what lexer.isWhiteSpace skips (space, tab, CR, LF); the string grammar is the one of the language as implemented: after a backslash in a double-quoted string \\x, \\u, \\U take the next 2, 4, 8 bytes whatever they are")
	c.Assume("the literal of STRING and ILLEGAL tokens is not compared (the statement speaks about their span only)")
	c.Assume("random inputs contain no non-ASCII Unicode space at the end of a line comment (strings.TrimSpace would trim it; the spec trims ASCII whitespace)")

	// ---- MC, in the background while the real lexer is recorded
	var mcWG sync.WaitGroup
	var mcMu sync.Mutex
	mcNotes := map[string]string{}
	mc := func(name string, o TLCOpt, expectViolated string) {
		mcWG.Add(1)
		go func() {
			defer mcWG.Done()
			o.AllowError = expectViolated != ""
			r, err := c.TLC(o)
			if err != nil {
				c.Infra(fmt.Errorf("MC %s: %w", name, err))
				return
			}
			if expectViolated != "" && r.InvViolated != expectViolated {
				c.Infra(fmt.Errorf("MC %s: the deviation was expected to violate %s, TLC said %q\n%s", name, expectViolated, r.InvViolated, r.ErrText))
				return
			}
			if expectViolated == "" && r.InvViolated != "" {
				c.Infra(fmt.Errorf("MC %s: %s violated by the reference grammar itself\n%s", name, r.InvViolated, r.ErrText))
				return
			}
			mcMu.Lock()
			mcNotes[name] = fmt.Sprintf("%d states, %d transitions, %.1fs", r.Distinct, r.Generated, r.Wall.Seconds())
			mcMu.Unlock()
		}()
	}
	L := c.Pick(3, 4)
	mc(fmt.Sprintf("RefNext, Dev={}, 24 symbols, length<=%d, both modes", L),
		TLCOpt{Spec: "Lexer", Cfg: c16MCCfg(c16Alphabet, L, nil, "ref"), Workers: c.Pick(3, 6), Heap: "6g"}, "")
	mc("RefSpec with liveness (Terminates), 11 symbols, length<=3",
		TLCOpt{Spec: "Lexer", Cfg: c16MCCfg(c16SmallAlphabet, 3, nil, "ref-live"), Workers: 1, Heap: "2g"}, "")
	mc(fmt.Sprintf("AnySpec (every lexer the guards allow), 11 symbols, length<=%d", L),
		TLCOpt{Spec: "Lexer", Cfg: c16MCCfg(c16SmallAlphabet, L, nil, "any"), Workers: c.Pick(2, 4), Heap: "4g"}, "")
	for _, d := range []string{"ExpLosesBytes", "SecondDotLosesByte", "NulIsEnd", "UntermStrIsEnd"} {
		mc("deviation "+d+" must get stuck", TLCOpt{Spec: "Lexer", Cfg: c16MCCfg([]byte{'1', 'e', '.', '+', '"', 0}, 4, []string{d}, "ref"), Workers: 1, Heap: "1g"}, "NotStuck")
	}

	// ---- TV: exhaustive small scope + keywords + random, on the real lexer
	exh := c16Exhaustive(L)
	kws := c16KeywordCases()
	rnd := c16Random(c, c.Pick(5000, 100000))
	cases := make([]c16Case, 0, len(exh)+len(kws)+len(rnd)+8000)
	cases = append(cases, exh...)
	cases = append(cases, kws...)
	cases = append(cases, c16LongTokenCases()...)
	cases = append(cases, c16EveryByteCases()...)
	cases = append(cases, rnd...)
	report := func(idxs []int, sig, what string) {
		var l []any
		for _, i := range idxs {
			l = append(l, c16CasesJSON(cases[i]))
		}
		c.Fail(sig, what, map[string]any{"cases": l})
	}
	st, rec, err := c16Validate(c, cases, c.Pick(8, 28), true, report)
	if err != nil {
		c.Infra(err)
		mcWG.Wait()
		return
	}
	c.AddTraces(int64(st.traces))
	c.Cov("exhaustive", true)
	c.Cov("exhaustive_space", fmt.Sprintf("all %d byte strings of length <= %d over the %d-symbol alphabet x 2 lexer modes = %d traces; %d keyword-adjacency traces; %d seeded random traces", len(exh)/2, L, len(c16Alphabet), len(exh), len(kws), len(rnd)))
	c.Cov("tokens_recorded", st.tokens)
	c.Cov("distinct_token_pointers", len(rec.rows))
	c.Cov("traces_rejected", st.rejected)
	c.Cov("model_disagreement", st.disagree)
	if st.disagree > 0 {
		fmt.Printf("NOTE property=C16: %d traces hold a token that the property accepts but the maximal-munch reference grammar of Lexer.tla would cut differently (diagnostic, not a violation)\n", st.disagree)
	}
	if len(st.mdSamples) > 0 {
		c.Cov("model_disagreement_samples", st.mdSamples)
	}
	c.Cov("tv_tlc_wall_s", st.tlcWall.Seconds())
	for _, i := range []int{len(exh) / 3, len(exh) - 7, len(exh) + len(kws)/2, len(exh) + len(kws) + 1, len(cases) - 1} {
		if i >= 0 && i < len(cases) {
			toks, _ := newC16Recorder().lex(cases[i], 0)
			var tl []string
			for _, t := range toks {
				tl = append(tl, fmt.Sprintf("%s %q %d->%d #%d", t.typ, t.lit, t.before, t.after, t.id))
			}
			c.Sample(map[string]any{"case": c16CasesJSON(cases[i]), "recorded": tl})
		}
	}

	// ---- binding self-test: corrupted recordings must be rejected, each by the expected rule
	if err := c16SelfTest(c); err != nil {
		c.Infra(err)
	}
	mcWG.Wait()
	names := make([]string, 0, len(mcNotes))
	for k := range mcNotes {
		names = append(names, k)
	}
	sort.Strings(names)
	for _, k := range names {
		c.Note("MC %s: %s", k, mcNotes[k])
	}
	c.Cov("design_counterexamples", "each named deviation (ExpLosesBytes, SecondDotLosesByte, NulIsEnd, UntermStrIsEnd) violates NotStuck in Lexer.tla")
}

// c16SelfTest: hand-written recordings (independent of the lexer under test) - one correct stream per input and
// one corruption of a single field each; the trace spec must accept the former and reject the latter by the expected rule.
func c16SelfTest(c *Ctx) error {
	tk := func(typ, lit string, id, b, a int) c16Tok {
		return c16Tok{typ: typ, lit: lit, id: id, before: b, after: a}
	}
	end := func(typ string, id, n int) []c16Tok { // end marker delivered at offset n, then three more times
		return []c16Tok{tk(typ, "", id, n, n+1), tk(typ, "", id, n+1, n+2), tk(typ, "", id, n+2, n+3), tk(typ, "", id, n+3, n+4)}
	}
	base := map[string][]c16Tok{
		"ab + 12 \"s\" // c\nif": append([]c16Tok{tk("IDENT", "ab", 1, 0, 2), tk("PLUS", "+", 2, 2, 4), tk("INT", "12", 3, 4, 7), tk("STRING", "s", 4, 7, 11),
			tk("LINECOMMENT", "// c", 5, 11, 16), tk("IF", "if", 6, 16, 19)}, end("EOF", 7, 19)...),
		"ab + 12":      append([]c16Tok{tk("IDENT", "ab", 1, 0, 2), tk("PLUS", "+", 2, 2, 4), tk("INT", "12", 3, 4, 7)}, end("EOF", 7, 7)...),
		"\"a\\\"b\" x": append([]c16Tok{tk("STRING", "a\"b", 1, 0, 6), tk("IDENT", "x", 2, 6, 8)}, end("EOF", 7, 8)...),
		"//a\nb":       append([]c16Tok{tk("LINECOMMENT", "//a", 1, 0, 3), tk("IDENT", "b", 2, 3, 5)}, end("EOF", 7, 5)...),
		"if x":         append([]c16Tok{tk("IF", "if", 1, 0, 2), tk("IDENT", "x", 2, 2, 4)}, end("EOF", 7, 4)...),
		"x x":          append([]c16Tok{tk("IDENT", "x", 1, 0, 1), tk("IDENT", "x", 1, 1, 3)}, end("EOF", 7, 3)...),
		"a b":          append([]c16Tok{tk("IDENT", "a", 1, 0, 1), tk("IDENT", "b", 2, 1, 3)}, end("EOF", 7, 3)...),
		"a":            append([]c16Tok{tk("IDENT", "a", 1, 0, 1)}, end("EOF", 7, 1)...),
	}
	type mut struct {
		name string
		in   string
		f    func(t []c16Tok) []c16Tok
		want string
	}
	id := func(t []c16Tok) []c16Tok { return t }
	muts := []mut{
		{"original", "ab + 12 \"s\" // c\nif", id, ""}, {"original", "ab + 12", id, ""}, {"original", "\"a\\\"b\" x", id, ""},
		{"original", "//a\nb", id, ""}, {"original", "if x", id, ""}, {"original", "x x", id, ""}, {"original", "a b", id, ""}, {"original", "a", id, ""},
		{"after+1", "ab + 12", func(t []c16Tok) []c16Tok { t[0].after++; t[1].before++; return t }, "bad:text-ne-span"},
		{"literal byte changed", "ab + 12", func(t []c16Tok) []c16Tok { t[2].lit = "13"; return t }, "bad:text-ne-span"},
		{"token dropped", "ab + 12", func(t []c16Tok) []c16Tok { t[2].before = t[1].before; return append(t[:1], t[2:]...) }, "bad:text-ne-span"},
		{"string span cut", "\"a\\\"b\" x", func(t []c16Tok) []c16Tok { t[0].after = 4; t[1].before = 4; return t }, "bad:string-span"},
		{"comment runs over the newline", "//a\nb", func(t []c16Tok) []c16Tok { t[0].after = 4; t[1].before = 4; return t }, "bad:comment-span"},
		{"keyword delivered as IDENT", "if x", func(t []c16Tok) []c16Tok { t[0].typ = "IDENT"; return t }, "bad:keyword-as-ident"},
		{"equal tokens, two pointers", "x x", func(t []c16Tok) []c16Tok { t[1].id = 9999; return t }, "tl:interning-within-trace"},
		{"end marker early", "a b", func(t []c16Tok) []c16Tok { t[1] = t[2]; t[1].before = t[0].after; return t }, "bad:end-marker-before-end-of-input"},
		{"end marker not sticky", "a", func(t []c16Tok) []c16Tok { t[3] = t[0]; t[3].before = t[2].after; return t }, "bad:end-marker-not-sticky"},
		{"position jumps", "a b", func(t []c16Tok) []c16Tok { t[1].before = 0; return t }, "bad:pos-discontinuity"},
		{"no end marker", "a b", func(t []c16Tok) []c16Tok { return t[:2] }, "tl:no-final-end-marker"},
	}
	var buf []byte
	for i, m := range muts {
		toks := append([]c16Tok(nil), base[m.in]...)
		if toks == nil {
			return fmt.Errorf("self-test: no base recording for %q", m.in)
		}
		buf = c16AppendTrace(buf, i, c16Case{m.in, false}, m.f(toks), false)
	}
	// records that stand for both modes: a correct one, and one whose line-mode end marker is no end marker
	nm := len(muts)
	muts = append(muts, mut{"original both modes", "a b", id, ""}, mut{"line-mode end marker type", "a b", id, "tl:line-mode-end-marker-type"})
	buf = c16AppendTraceLE(buf, nm, c16Case{"a b", false}, base["a b"], false, &c16Tok{typ: "EOL", id: 8})
	buf = c16AppendTraceLE(buf, nm+1, c16Case{"a b", false}, base["a b"], false, &c16Tok{typ: "IDENT", id: 8})
	// a table with two pointers for one token
	buf = append(buf, `{"k":"tab","g":[["IDENT",[[[97],1],[[97],2]]]]}`+"\n"...)
	res, err := c16RunShard(c, buf, len(muts)+1)
	if err != nil {
		return fmt.Errorf("self-test: %w", err)
	}
	got := map[int]string{}
	for _, v := range res.verdicts {
		s := ""
		for _, code := range v.Sig {
			if code != "" && s == "" {
				s = code
			}
		}
		if s == "" && v.TL != "" {
			s = "tl:" + v.TL
		}
		got[*v.ID] = s
	}
	for i, m := range muts {
		if got[i] != m.want {
			return fmt.Errorf("vacuous binding: self-test %q (%q): the trace spec said %q, expected %q", m.name, m.in, got[i], m.want)
		}
	}
	if res.table == nil || *res.table != "interning-equal-tokens-two-pointers" {
		return fmt.Errorf("vacuous binding: corrupted interning table was accepted")
	}
	c.Cov("sabotage_rejected", len(muts)-9)
	return nil
}

func replayC16(rp map[string]any) (bool, string) {
	c := NewCtx("C16", "quick")
	defer os.RemoveAll(c.Scratch())
	sig, _ := rp["signature"].(string)
	var raw []struct {
		Input []int  `json:"input"`
		Mode  string `json:"mode"`
	}
	b, _ := json.Marshal(rp["cases"])
	_ = json.Unmarshal(b, &raw)
	var cases []c16Case
	for _, r := range raw {
		cases = append(cases, c16Case{bytesOf(r.Input), r.Mode == "line"})
	}
	if len(cases) == 0 {
		return false, "replay file holds no case"
	}
	var seen []string
	found := false
	_, _, err := c16Validate(c, cases, 1, true, func(idxs []int, s, what string) {
		seen = append(seen, s+" ("+what+")")
		if s == sig {
			found = true
		}
	})
	if err != nil {
		fmt.Fprintln(os.Stderr, "INFRASTRUCTURE:", err)
		os.Exit(2)
	}
	if found {
		return false, strings.Join(seen, "; ")
	}
	return true, strings.Join(seen, "; ")
}
