package main

import (
	"bufio"
	"fmt"
	"os"
	"strconv"
	"strings"

	"grol.io/grol/extensions"

	"grol.io/grol/lexer"
	"grol.io/grol/parser"
)

func init() {
	workers["c15probe"] = func(args []string) {
		sc := bufio.NewScanner(os.Stdin)
		for sc.Scan() {
			src, err := strconv.Unquote(`"` + sc.Text() + `"`)
			if err != nil {
				src = sc.Text()
			}
			if strings.HasPrefix(src, "EVAL:") { // statements separated by " ;; ": whole vs one statement at a time
				_ = extensions.Init(nil)
				stmts := strings.Split(strings.TrimPrefix(src, "EVAL:"), " ;; ")
				w := c15RunInputs([]string{c15JoinStmts(stmts)}, false)
				var chunks []string
				for _, st := range stmts {
					chunks = append(chunks, st+";\n")
				}
				a := c15RunInputs(chunks, true)
				fmt.Printf("%q\n  whole:   out=%q err=%v %q globals=%q\n  chunked: out=%q err=%v %q globals=%q\n", stmts, w.Out, w.Err, w.ErrMsg, w.Globals, a.Out, a.Err, a.ErrMsg, a.Globals)
				continue
			}
			p := parser.New(lexer.NewLineMode(src))
			prog := p.ParseProgram()
			fp := parser.New(lexer.New(src))
			fprog := fp.ParseProgram()
			safe := func(f func() string) (r string) {
				defer func() {
					if e := recover(); e != nil {
						r = "<dump panic>"
					}
				}()
				return f()
			}
			fmt.Printf("%q\n  line: cont=%v errs=%q tree=%s\n  file: errs=%q tree=%s\n", src, p.ContinuationNeeded(), p.Errors(), safe(func() string { return jstr(dumpStmts(prog)) }), fp.Errors(), safe(func() string { return jstr(dumpStmts(fprog)) }))
		}
	}
}
