package main

import (
	"bufio"
	"encoding/json"
	"fmt"
	"os"
	"strconv"
	"strings"

	"grol.io/grol/extensions"

	"grol.io/grol/lexer"
	"grol.io/grol/parser"
)

func init() {
	workers["c15probe"] = func(args []string) {
		sc := bufio.NewScanner(os.Stdin)
		for sc.Scan() {
			src, err := strconv.Unquote(`"` + sc.Text() + `"`)
			if err != nil {
				src = sc.Text()
			}
			if src == "FORMS" { // every function body form: node kinds, value and text of f for def1 / def2
				_ = extensions.Init(nil)
				for _, fm := range c15FormNames() {
					err := c15CheckForm(fm, nil)
					o := c15ParseMode(c15FormSrc(fm, "f", "g", 10), false, true)
					var tree any
					_ = json.Unmarshal([]byte(o.Tree), &tree)
					acc := map[string]bool{}
					c15FormKinds(tree, false, acc)
					w := c15RunInputs([]string{c15JoinStmts([]string{"g = 1", c15FormSrc(fm, "f", "g", 10), "println(f())", c15FormSrc(fm, "f", "g", 20), "println(f())", "println(f)"})}, false)
					fmt.Printf("%-9s err=%v kinds=%v\n          out=%q %v %q\n", fm, err, sortedKeys(acc), w.Out, w.Err, w.ErrMsg)
				}
				continue
			}
			if strings.HasPrefix(src, "EVAL:") { // statements separated by " ;; ": whole vs one statement at a time
				_ = extensions.Init(nil)
				stmts := strings.Split(strings.TrimPrefix(src, "EVAL:"), " ;; ")
				w := c15RunInputs([]string{c15JoinStmts(stmts)}, false)
				var chunks []string
				for _, st := range stmts {
					chunks = append(chunks, st+";\n")
				}
				a := c15RunInputs(chunks, true)
				fmt.Printf("%q\n  whole:   out=%q err=%v %q globals=%q\n  chunked: out=%q err=%v %q globals=%q\n", stmts, w.Out, w.Err, w.ErrMsg, w.Globals, a.Out, a.Err, a.ErrMsg, a.Globals)
				continue
			}
			p := parser.New(lexer.NewLineMode(src))
			prog := p.ParseProgram()
			fp := parser.New(lexer.New(src))
			fprog := fp.ParseProgram()
			safe := func(f func() string) (r string) {
				defer func() {
					if e := recover(); e != nil {
						r = "<dump panic>"
					}
				}()
				return f()
			}
			fmt.Printf("%q\n  line: cont=%v errs=%q tree=%s\n  file: errs=%q tree=%s\n", src, p.ContinuationNeeded(), p.Errors(), safe(func() string { return jstr(dumpStmts(prog)) }), fp.Errors(), safe(func() string { return jstr(dumpStmts(fprog)) }))
		}
	}
}
