package main

// C18 - auto-save is crash-atomic (spec/AutoSave.tla, spec/AutoSave_Trace.tla).
//
// GEN: every session-ending transition TLC explores (Crash in every state, every failure
// position, torn writes, complete saves, the skip path; one or two sessions per behaviour)
// is replayed on the real repl.AutoSave in child processes that kill themselves (SIGKILL at a
// hook point of object.VerifHook, or SIGXFSZ inside write(2) under RLIMIT_FSIZE) or get an
// injected failure (hook error, or a real EFBIG short write). The parent then reads ./.gr,
// lists the directory and auto-loads it in a fresh child.
// TV: the hook events with the directory listing taken at that instant are validated by
// AutoSave_Trace.tla.
//
// Verdict (the statement's own relation, nothing stronger): at every observed instant and
// after every process end ./.gr is byte-equal to the complete previous or the complete new
// file, and a fresh session restores what the complete previous or complete new file restores.
// Which of the two, and what the temp files hold, is the model's prediction: a difference
// there is counted as model_disagreement, not as a violation.

import (
	"bufio"
	"bytes"
	"context"
	"crypto/sha1"
	"encoding/json"
	"errors"
	"fmt"
	"os"
	"os/exec"
	"os/signal"
	"path/filepath"
	"regexp"
	"runtime"
	"sort"
	"strconv"
	"strings"
	"sync"
	"syscall"
	"time"
	"unsafe"

	"grol.io/grol/eval"
	"grol.io/grol/extensions"
	"grol.io/grol/object"
	"grol.io/grol/repl"
)

func init() {
	props["C18"] = propDef{check: checkC18, replay: replayC18,
		rule: "case = one TLC-emitted behaviour of AutoSave.tla (sessions x crash point / failure position / torn write / complete save / skip) replayed on repl.AutoSave in child processes, in one API/extension variant, followed by the next session (repl API, and the built grol binary where the variant says so); distinct by (behaviour, variant); non-trivial when a process was killed or a failure was injected inside the save path"}
	workers["c18"] = c18Worker
}

// ------------------------------------------------------------------ model <-> real bindings

type c18Line struct {
	K int    `json:"k"`
	V int    `json:"v"`
	S string `json:"s"` // shape: the branch of SaveGlobals that writes it (data, lambda, named, alias)
	T bool   `json:"t"`
}

type c18File struct {
	Ex bool      `json:"ex"`
	Ls []c18Line `json:"ls"`
}

type c18Act struct {
	A       string    `json:"a"`
	Old     *c18File  `json:"old,omitempty"`
	New     []c18Line `json:"new,omitempty"`
	Changed bool      `json:"changed,omitempty"`
	I       int       `json:"i,omitempty"`
}

type c18Gen struct {
	H    []c18Act           `json:"h"`
	Disk map[string]c18File `json:"disk"`
	Boot map[string]c18File `json:"boot"` // BootDisk: the directory after the start-up of the next process
	End  string             `json:"end"`
}

const c18Letters = "abcde" // binding k is named c18Letters[k-1]: file order = index order

func c18Name(k int) string { return c18Letters[k-1 : k] }

// c18Src: grol source that binds name k to value version v of shape s. The shapes are the ways
// SaveGlobals writes a binding: "data" name=value (integer, string with escapes, array holding a
// float and a map, map), "lambda" name=params=>body, "named" func name(..){..} (its own branch),
// "alias" name=func other(..){..} (a named function held under another name; the literal also
// defines `other`, which the session deletes again so that the binding stands alone).
func c18Src(l c18Line) string {
	x := c18Name(l.K)
	switch l.S {
	case "lambda":
		return x + []string{"=(x,y)=>x*y+1", "=x=>[x,2.5]"}[l.V-1]
	case "named":
		return "func " + x + []string{"(x){x+1}", "(x,y){if x>y{x}else{y*2}}"}[l.V-1]
	case "alias":
		return x + "=func h" + x + []string{"(q){q+1}", "(q,r){q*r}"}[l.V-1] + ";del(h" + x + ")"
	}
	if l.K == 1 {
		return x + []string{`=-42`, `="q\"uo\te\n#"`}[l.V-1]
	}
	return x + []string{`=[1,2.5,"x",{"k":[true,false]}]`, `={"z":[3],1:-7}`}[l.V-1]
}

func c18Key(ls []c18Line) string {
	var sb strings.Builder
	for _, l := range ls {
		fmt.Fprintf(&sb, "%d:%d%.1s", l.K, l.V, l.S)
		if l.T {
			sb.WriteByte('~')
		}
		sb.WriteByte(',')
	}
	return sb.String()
}

func c18FullSrc(ls []c18Line) string {
	var parts []string
	for _, l := range ls {
		parts = append(parts, c18Src(l))
	}
	if len(parts) == 0 {
		return "zz=1;del(zz)" // a changed session whose globals are empty again
	}
	return strings.Join(parts, "\n")
}

// c18Delta is the input a session types to get from globals `mem` to globals `nw`. loaded: the
// globals were auto-loaded by this process (an alias line then also defined its function name).
func c18Delta(mem, nw []c18Line, changed, loaded bool) string {
	if !changed {
		return ""
	}
	mv, nv := map[int]c18Line{}, map[int]c18Line{}
	for _, l := range mem {
		mv[l.K] = l
	}
	for _, l := range nw {
		nv[l.K] = l
	}
	var parts []string
	for k := 1; k <= len(c18Letters); k++ {
		if loaded && mv[k].S == "alias" {
			parts = append(parts, "del(h"+c18Name(k)+")")
		}
	}
	for k := 1; k <= len(c18Letters); k++ {
		switch {
		case nv[k].V != 0 && nv[k].V != mv[k].V:
			parts = append(parts, c18Src(nv[k]))
		case nv[k].V == 0 && mv[k].V != 0:
			parts = append(parts, "del("+c18Name(k)+")")
		}
	}
	if len(parts) == 0 { // something was set, the values are what they were
		if len(nw) > 0 {
			parts = append(parts, c18Src(nw[0]))
		} else {
			parts = append(parts, "zz=1;del(zz)")
		}
	}
	return strings.Join(parts, "\n")
}

// ------------------------------------------------------------------ child process

type c18Step struct {
	Src       string `json:"src"`
	ErrAt     string `json:"err_at,omitempty"`  // hook point at which the hook returns an error (injected failure)
	ErrN      int    `json:"err_n,omitempty"`   // for save.binding: after this many written bindings
	KillAt    string `json:"kill_at,omitempty"` // hook point at which the process SIGKILLs itself; "before"/"after" = around the AutoSave call
	KillN     int    `json:"kill_n,omitempty"`
	Fsize     int64  `json:"fsize"`                // >= 0: RLIMIT_FSIZE (a real short write); -1: none
	FsizeAt   string `json:"fsize_at,omitempty"`   // "" = armed before AutoSave; else armed at that hook point
	FsizeKill bool   `json:"fsize_kill,omitempty"` // SIGXFSZ kills the process inside write(2); else write returns EFBIG
}

type c18Job struct {
	Ext   bool      `json:"ext"` // extensions.Init: the session has grol's predefined identifiers
	API   string    `json:"api"` // "direct": AutoLoad / eval / AutoSave; "evalstring": repl.EvalStringWithOption
	Steps []c18Step `json:"steps"`
}

type c18Ent struct {
	Name  string `json:"name"`
	Data  []byte `json:"data"`
	Ino   uint64 `json:"ino"`
	Mtime int64  `json:"mtime"`
	Dir   bool   `json:"dir,omitempty"`
}

type c18Event struct {
	E   string   `json:"e"` // loaded, begin, hook, ret, die, evalerr
	P   string   `json:"p,omitempty"`
	N   int      `json:"n,omitempty"`
	I   int      `json:"i,omitempty"`
	Err string   `json:"err,omitempty"`
	Inj bool     `json:"inj,omitempty"` // the hook returned the injected error
	Ls  []c18Ent `json:"ls,omitempty"`
}

func c18List(dir string) []c18Ent {
	ents, err := os.ReadDir(dir)
	if err != nil {
		return nil
	}
	var res []c18Ent
	for _, e := range ents {
		p := filepath.Join(dir, e.Name())
		fi, err := os.Lstat(p)
		if err != nil {
			continue
		}
		ent := c18Ent{Name: e.Name(), Mtime: fi.ModTime().UnixNano(), Dir: fi.IsDir()}
		if st, ok := fi.Sys().(*syscall.Stat_t); ok {
			ent.Ino = st.Ino
		}
		if !fi.IsDir() {
			ent.Data, _ = os.ReadFile(p)
			if ent.Data == nil {
				ent.Data = []byte{}
			}
		}
		res = append(res, ent)
	}
	sort.Slice(res, func(i, j int) bool { return res[i].Name < res[j].Name })
	return res
}

var errC18Injected = errors.New("verif: injected write failure")

func c18Emit(ev c18Event) {
	b, _ := json.Marshal(ev)
	b = append(b, '\n')
	_, _ = os.Stdout.Write(b) // one write(2) to a pipe: survives the SIGKILL that may follow
}

func c18Die(why string) {
	c18Emit(c18Event{E: "die", P: why})
	_ = syscall.Kill(os.Getpid(), syscall.SIGKILL)
	select {}
}

// c18SigDefault resets a signal to SIG_DFL behind the Go runtime's back, so that SIGXFSZ has
// its default action (terminate) when a write crosses RLIMIT_FSIZE.
func c18SigDefault(sig syscall.Signal) error {
	type ksigaction struct {
		handler  uintptr
		flags    uint64
		restorer uintptr
		mask     uint64
	}
	var sa ksigaction // handler 0 = SIG_DFL
	_, _, e := syscall.RawSyscall6(syscall.SYS_RT_SIGACTION, uintptr(sig), uintptr(unsafe.Pointer(&sa)), 0, 8, 0, 0)
	if e != 0 {
		return e
	}
	return nil
}

func c18ArmFsize(st *c18Step) {
	if st.FsizeKill {
		_ = syscall.Setrlimit(syscall.RLIMIT_CORE, &syscall.Rlimit{})
		if err := c18SigDefault(syscall.SIGXFSZ); err != nil {
			c18Emit(c18Event{E: "evalerr", Err: "sigaction: " + err.Error()})
			os.Exit(3)
		}
	} else {
		signal.Ignore(syscall.SIGXFSZ)
	}
	var cur syscall.Rlimit
	_ = syscall.Getrlimit(syscall.RLIMIT_FSIZE, &cur)
	cur.Cur = uint64(st.Fsize)
	if err := syscall.Setrlimit(syscall.RLIMIT_FSIZE, &cur); err != nil {
		c18Emit(c18Event{E: "evalerr", Err: "setrlimit: " + err.Error()})
		os.Exit(3)
	}
}

func c18DisarmFsize() {
	var cur syscall.Rlimit
	_ = syscall.Getrlimit(syscall.RLIMIT_FSIZE, &cur)
	cur.Cur = cur.Max
	_ = syscall.Setrlimit(syscall.RLIMIT_FSIZE, &cur)
}

func c18Worker(args []string) {
	if len(args) < 2 {
		fmt.Fprintln(os.Stderr, "usage: worker c18 run|load <json|ext>")
		os.Exit(2)
	}
	load := func() { // a fresh session auto-loads the current directory; prints SaveGlobals of what it got
		s := eval.NewState()
		err := repl.AutoLoad(s, repl.Options{AutoLoad: true})
		var buf bytes.Buffer
		_, _ = s.SaveGlobals(&buf)
		ev := c18Event{E: "loaded", Ls: []c18Ent{{Name: "globals", Data: buf.Bytes()}}}
		if buf.Len() == 0 {
			ev.Ls[0].Data = []byte{}
		}
		if err != nil {
			ev.Err = err.Error()
		}
		c18Emit(ev)
	}
	switch args[0] {
	case "load": // one fresh process per load
		if args[1] == "1" {
			_ = extensions.Init(nil)
		}
		load()
		os.Exit(0)
	case "loadserver": // one fresh session (eval.State) per directory named on stdin
		if args[1] == "1" {
			_ = extensions.Init(nil)
		}
		sc := bufio.NewScanner(os.Stdin)
		for sc.Scan() {
			if err := os.Chdir(sc.Text()); err != nil {
				c18Emit(c18Event{E: "evalerr", Err: err.Error()})
				continue
			}
			load()
		}
		os.Exit(0)
	case "sys": // no hook, no output: the parent drives this one with strace (kill / fail the k-th file-system call)
		runtime.LockOSThread()
		var job c18Job
		if err := json.Unmarshal([]byte(args[1]), &job); err != nil {
			os.Exit(2)
		}
		if job.Ext {
			_ = extensions.Init(nil)
		}
		s := eval.NewState()
		opts := repl.Options{AutoLoad: true, AutoSave: true, All: true}
		_ = repl.AutoLoad(s, opts)
		if src := job.Steps[0].Src; src != "" {
			if _, err := eval.EvalString(s, src, false); err != nil {
				os.Exit(3)
			}
		}
		_ = syscall.Unlink(c18MarkBegin)
		_ = repl.AutoSave(s, opts)
		_ = syscall.Unlink(c18MarkEnd)
		os.Exit(0)
	case "run":
	default:
		os.Exit(2)
	}
	var job c18Job
	if err := json.Unmarshal([]byte(args[1]), &job); err != nil {
		fmt.Fprintln(os.Stderr, err)
		os.Exit(2)
	}
	if job.Ext {
		_ = extensions.Init(nil)
	}
	var cur *c18Step
	fired := false
	object.VerifHook = func(p string, n int) error {
		c18Emit(c18Event{E: "hook", P: p, N: n, Ls: c18List(".")})
		if cur == nil {
			return nil
		}
		if cur.Fsize >= 0 && cur.FsizeAt == p {
			c18ArmFsize(cur)
		}
		if cur.KillAt == p && (p != "save.binding" || cur.KillN == n) {
			c18Die(p)
		}
		if !fired && cur.ErrAt == p && (p != "save.binding" || cur.ErrN == n) {
			fired = true
			return errC18Injected
		}
		return nil
	}
	if job.API == "evalstring" {
		st := &job.Steps[0]
		c18Emit(c18Event{E: "begin", I: 0, Ls: c18List(".")})
		cur = st
		if st.KillAt == "before" {
			c18Die("before")
		}
		if st.Fsize >= 0 && st.FsizeAt == "" {
			c18ArmFsize(st)
		}
		o := repl.EvalStringOptions()
		o.AutoLoad, o.AutoSave = true, true
		_, errs, _ := repl.EvalStringWithOption(context.Background(), o, st.Src)
		c18DisarmFsize()
		if len(errs) > 0 {
			c18Emit(c18Event{E: "evalerr", Err: strings.Join(errs, "; ")})
			os.Exit(3)
		}
		c18Emit(c18Event{E: "ret", Err: "?", Inj: fired, Ls: c18List(".")})
		if st.KillAt == "after" {
			c18Die("after")
		}
		os.Exit(0)
	}
	s := eval.NewState()
	opts := repl.Options{AutoLoad: true, AutoSave: true, All: true}
	ev := c18Event{E: "loaded"}
	if err := repl.AutoLoad(s, opts); err != nil {
		ev.Err = err.Error()
	}
	c18Emit(ev)
	for i := range job.Steps {
		st := &job.Steps[i]
		c18Emit(c18Event{E: "begin", I: i, Ls: c18List(".")})
		if st.Src != "" {
			if _, err := eval.EvalString(s, st.Src, false); err != nil {
				c18Emit(c18Event{E: "evalerr", Err: err.Error()})
				os.Exit(3)
			}
		}
		cur, fired = st, false
		if st.KillAt == "before" {
			c18Die("before")
		}
		if st.Fsize >= 0 && st.FsizeAt == "" {
			c18ArmFsize(st)
		}
		err := repl.AutoSave(s, opts)
		c18DisarmFsize()
		cur = nil
		ev := c18Event{E: "ret", I: i, Inj: fired, Ls: c18List(".")}
		if err != nil {
			ev.Err = err.Error()
		}
		c18Emit(ev)
		if st.KillAt == "after" {
			c18Die("after")
		}
	}
	os.Exit(0)
}

// ------------------------------------------------------------------ parent: running children

type c18Obs struct {
	Events []c18Event
	Died   bool
	Sig    syscall.Signal
	Exit   int
	Stderr string
	After  []c18Ent // the directory after the child ended, listed by the parent
}

func c18RunChild(dir string, args ...string) (*c18Obs, error) {
	exe, err := os.Executable()
	if err != nil {
		return nil, err
	}
	ctx, cancel := context.WithTimeout(context.Background(), 60*time.Second)
	defer cancel()
	cmd := exec.CommandContext(ctx, exe, append([]string{"worker", "c18"}, args...)...)
	cmd.Dir = dir
	var out, errb bytes.Buffer
	cmd.Stdout, cmd.Stderr = &out, &errb
	runErr := cmd.Run()
	if ctx.Err() != nil {
		return nil, fmt.Errorf("c18 child timed out in %s", dir)
	}
	obs := &c18Obs{Stderr: errb.String()}
	if len(obs.Stderr) > 2000 {
		obs.Stderr = obs.Stderr[len(obs.Stderr)-2000:]
	}
	if runErr != nil {
		var ee *exec.ExitError
		if !errors.As(runErr, &ee) {
			return nil, runErr
		}
		ws, _ := ee.Sys().(syscall.WaitStatus)
		if ws.Signaled() {
			obs.Died, obs.Sig = true, ws.Signal()
		} else {
			obs.Exit = ws.ExitStatus()
		}
	}
	for _, ln := range bytes.Split(out.Bytes(), []byte("\n")) {
		if len(bytes.TrimSpace(ln)) == 0 {
			continue
		}
		var ev c18Event
		if err := json.Unmarshal(ln, &ev); err != nil {
			return nil, fmt.Errorf("c18 child output: %v: %.200s", err, ln)
		}
		obs.Events = append(obs.Events, ev)
	}
	if obs.Exit != 0 {
		return obs, fmt.Errorf("c18 child exit %d: %s %s", obs.Exit, c18LastErr(obs), obs.Stderr)
	}
	obs.After = c18List(dir)
	return obs, nil
}

func c18LastErr(o *c18Obs) string {
	for i := len(o.Events) - 1; i >= 0; i-- {
		if o.Events[i].E == "evalerr" {
			return o.Events[i].Err
		}
	}
	return ""
}

func c18Gr(ls []c18Ent) (data []byte, ex bool, ent *c18Ent) {
	for i := range ls {
		if ls[i].Name == repl.AutoSaveFile {
			return ls[i].Data, !ls[i].Dir, &ls[i]
		}
	}
	return nil, false, nil
}

var reC18Helper = regexp.MustCompile(`^func h([a-e])\(`)

var reC18Temp = regexp.MustCompile(`^\.grol.*\.tmp$`)

func c18Load(dir string, ext bool) ([]byte, string, error) {
	e := "0"
	if ext {
		e = "1"
	}
	obs, err := c18RunChild(dir, "load", e)
	if err != nil {
		return nil, "", err
	}
	if obs.Died || len(obs.Events) != 1 || len(obs.Events[0].Ls) != 1 {
		return nil, "", fmt.Errorf("c18 load child in %s: died=%v events=%d %s", dir, obs.Died, len(obs.Events), obs.Stderr)
	}
	return obs.Events[0].Ls[0].Data, obs.Events[0].Err, nil
}

// ------------------------------------------------------------------ reference files from real, uninterrupted saves

type c18Refs struct {
	root  string
	bin   string // the grol binary built from the tree under test ("" = none: next sessions through the repl API only)
	mu    sync.Mutex
	file  [2]map[string][]byte // ext -> content key -> bytes of ./.gr after a real complete save
	loads map[string][]byte    // (ext, file bytes | nofile) -> SaveGlobals of a fresh session that auto-loaded it
	line  map[string]c18Line   // line bytes (with \n) -> model line (sessions without extensions)
	seq   int
	notes []string
}

func c18B2i(b bool) int {
	if b {
		return 1
	}
	return 0
}

func (r *c18Refs) dir() string {
	r.mu.Lock()
	r.seq++
	d := filepath.Join(r.root, fmt.Sprintf("ref%d", r.seq))
	r.mu.Unlock()
	_ = os.MkdirAll(d, 0o755)
	return d
}

// c18Universe: the binding shapes of one TLC space (Shape(k) of AutoSave.tla) and its value versions.
type c18Universe struct {
	Shapes []string
	Vals   []int
}

var (
	c18Legacy = c18Universe{[]string{"data", "lambda", "named"}, []int{1, 2}}
	// every branch of SaveGlobals, each with a binding after it: a data, b named, c alias, d lambda, e data
	c18ShapeU = c18Universe{[]string{"data", "named", "alias", "lambda", "data"}, []int{1}}
)

func (u c18Universe) cfg() string {
	set := func(shape string) string {
		var xs []string
		for i, s := range u.Shapes {
			if s == shape {
				xs = append(xs, strconv.Itoa(i+1))
			}
		}
		return "{" + strings.Join(xs, ",") + "}"
	}
	return fmt.Sprintf(" Lambdas = %s\n Nameds = %s\n Aliases = %s\n", set("lambda"), set("named"), set("alias"))
}

func c18Contents(u c18Universe, n int) [][]c18Line {
	res := [][]c18Line{nil}
	for k := 1; k <= n; k++ {
		var next [][]c18Line
		for _, c := range res {
			next = append(next, c)
			for _, v := range u.Vals {
				next = append(next, append(append([]c18Line{}, c...), c18Line{K: k, V: v, S: u.Shapes[k-1]}))
			}
		}
		res = next
	}
	return res
}

// newC18Refs saves every content once, for real, in both session flavours, and loads it back.
func newC18Refs(root string, par int) (*c18Refs, error) {
	r := &c18Refs{root: root, loads: map[string][]byte{}, line: map[string]c18Line{}}
	r.file[0], r.file[1] = map[string][]byte{}, map[string][]byte{}
	conts := append(c18Contents(c18Legacy, 3), c18Contents(c18ShapeU, 5)[1:]...)
	type job struct {
		ext int
		c   []c18Line
	}
	var jobs []job
	for ext := 0; ext < 2; ext++ {
		for _, c := range conts {
			jobs = append(jobs, job{ext, c})
		}
	}
	errs := make([]error, len(jobs))
	c18Parallel(len(jobs), par, func(i int) {
		j := jobs[i]
		d := r.dir()
		defer os.RemoveAll(d)
		spec, _ := json.Marshal(c18Job{Ext: j.ext == 1, API: "direct", Steps: []c18Step{{Src: c18FullSrc(j.c), Fsize: -1}}})
		obs, err := c18RunChild(d, "run", string(spec))
		if err != nil {
			errs[i] = err
			return
		}
		data, ex, _ := c18Gr(obs.After)
		if obs.Died || !ex {
			errs[i] = fmt.Errorf("reference save of %q left no state file (%s)", c18Key(j.c), obs.Stderr)
			return
		}
		r.mu.Lock()
		r.file[j.ext][c18Key(j.c)] = data
		r.mu.Unlock()
		if _, err := r.loadRef(j.ext == 1, data, true); err != nil {
			errs[i] = err
		}
	})
	for _, e := range errs {
		if e != nil {
			return nil, e
		}
	}
	for ext := 0; ext < 2; ext++ {
		if _, err := r.loadRef(ext == 1, nil, false); err != nil {
			return nil, err
		}
	}
	// binding lines of plain sessions: the file of a content is the concatenation of its lines
	for _, c := range conts {
		if len(c) == 1 {
			r.line[string(r.file[0][c18Key(c)])] = c[0]
		}
	}
	noReload := 0
	for _, c := range conts {
		var want []byte
		for _, l := range c {
			want = append(want, r.lineBytes(l)...)
		}
		if !bytes.Equal(want, r.file[0][c18Key(c)]) {
			return nil, fmt.Errorf("reference save of %q is not the concatenation of its binding lines: %q", c18Key(c), r.file[0][c18Key(c)])
		}
		if got := r.loads[r.loadKey(false, want, true)]; !bytes.Equal(got, want) {
			noReload++
			if noReload == 1 {
				r.notes = append(r.notes, fmt.Sprintf("content %q does not reload to itself, e.g. an alias line name=func other(..){..} also defines `other` (a C14 matter; C18 compares with what the complete file restores)", c18Key(c)))
			}
		}
	}
	if noReload > 1 {
		r.notes = append(r.notes, fmt.Sprintf("%d reference contents in all do not reload to themselves", noReload))
	}
	return r, nil
}

func (r *c18Refs) lineBytes(l c18Line) []byte {
	for b, x := range r.line {
		if x.K == l.K && x.V == l.V && x.S == l.S {
			return []byte(b)
		}
	}
	return nil
}

func (r *c18Refs) loadKey(ext bool, data []byte, ex bool) string {
	h := sha1.Sum(data)
	return fmt.Sprintf("%v/%v/%x", ext, ex, h)
}

// loadRef: what a fresh session restores from a directory holding exactly this state file.
func (r *c18Refs) loadRef(ext bool, data []byte, ex bool) ([]byte, error) {
	k := r.loadKey(ext, data, ex)
	r.mu.Lock()
	v, ok := r.loads[k]
	r.mu.Unlock()
	if ok {
		return v, nil
	}
	d := r.dir()
	defer os.RemoveAll(d)
	if ex {
		if err := os.WriteFile(filepath.Join(d, repl.AutoSaveFile), data, 0o600); err != nil {
			return nil, err
		}
	}
	got, _, err := c18Load(d, ext)
	if err != nil {
		return nil, err
	}
	r.mu.Lock()
	r.loads[k] = got
	r.mu.Unlock()
	return got, nil
}

// split keeps the newline with each line; the last piece may lack it
func c18Split(data []byte) [][]byte {
	var res [][]byte
	for len(data) > 0 {
		i := bytes.IndexByte(data, '\n')
		if i < 0 {
			res = append(res, data)
			break
		}
		res = append(res, data[:i+1])
		data = data[i+1:]
	}
	return res
}

// linePos: byte offset and length (with newline) of model line i (1-based) of `nw` in the real file.
func (r *c18Refs) linePos(ext bool, nw []c18Line, i int) (off, ln, realN int) {
	want := r.lineBytes(nw[i-1])
	for n, l := range c18Split(r.file[c18B2i(ext)][c18Key(nw)]) {
		if bytes.Equal(l, want) {
			return off, len(l), n + 1
		}
		off += len(l)
	}
	return -1, 0, 0
}

// abstract: file bytes -> model lines; `nw` tells which binding a torn tail belongs to.
func (r *c18Refs) abstract(data []byte, nw []c18Line) []c18Line {
	res := []c18Line{}
	for i, l := range c18Split(data) {
		if l[len(l)-1] == '\n' {
			if x, ok := r.line[string(l)]; ok {
				res = append(res, x)
			} else {
				res = append(res, c18Line{})
			}
			continue
		}
		t := c18Line{T: true}
		if i < len(nw) {
			if full := r.lineBytes(nw[i]); len(l) < len(full) && bytes.HasPrefix(full, l) {
				t.K, t.V, t.S = nw[i].K, nw[i].V, nw[i].S
			}
		}
		res = append(res, t)
	}
	return res
}

// c18Loader is a long-lived child that auto-loads one directory per request, each in a fresh eval.State.
type c18Loader struct {
	cmd *exec.Cmd
	in  *bufio.Writer
	out *bufio.Reader
}

type c18Loaders struct {
	mu sync.Mutex
	m  map[string]*c18Loader
}

func (ls *c18Loaders) close() {
	ls.mu.Lock()
	defer ls.mu.Unlock()
	for _, l := range ls.m {
		_ = l.cmd.Process.Kill()
		_ = l.cmd.Wait()
	}
	ls.m = nil
}

// load auto-loads dir in the loader owned by worker w (one goroutine talks to one loader).
func (ls *c18Loaders) load(w int, dir string, ext bool) ([]byte, string, error) {
	key := fmt.Sprintf("%d/%v", w, ext)
	ls.mu.Lock()
	if ls.m == nil {
		ls.m = map[string]*c18Loader{}
	}
	l := ls.m[key]
	ls.mu.Unlock()
	if l == nil {
		exe, err := os.Executable()
		if err != nil {
			return nil, "", err
		}
		cmd := exec.Command(exe, "worker", "c18", "loadserver", strconv.Itoa(c18B2i(ext)))
		stdin, err := cmd.StdinPipe()
		if err != nil {
			return nil, "", err
		}
		stdout, err := cmd.StdoutPipe()
		if err != nil {
			return nil, "", err
		}
		if err := cmd.Start(); err != nil {
			return nil, "", err
		}
		l = &c18Loader{cmd: cmd, in: bufio.NewWriter(stdin), out: bufio.NewReaderSize(stdout, 1<<16)}
		ls.mu.Lock()
		ls.m[key] = l
		ls.mu.Unlock()
	}
	if _, err := l.in.WriteString(dir + "\n"); err != nil {
		return nil, "", err
	}
	if err := l.in.Flush(); err != nil {
		return nil, "", err
	}
	type reply struct {
		b   []byte
		err error
	}
	ch := make(chan reply, 1)
	go func() {
		b, err := l.out.ReadBytes('\n')
		ch <- reply{b, err}
	}()
	var rp reply
	select {
	case rp = <-ch:
	case <-time.After(60 * time.Second):
		_ = l.cmd.Process.Kill()
		return nil, "", fmt.Errorf("c18 load server timed out on %s", dir)
	}
	if rp.err != nil {
		return nil, "", fmt.Errorf("c18 load server died on %s: %v", dir, rp.err)
	}
	var ev c18Event
	if err := json.Unmarshal(rp.b, &ev); err != nil {
		return nil, "", err
	}
	if ev.E != "loaded" || len(ev.Ls) != 1 {
		return nil, "", fmt.Errorf("c18 load server on %s: %s", dir, ev.Err)
	}
	return ev.Ls[0].Data, ev.Err, nil
}

func c18Parallel(n, par int, f func(i int)) {
	c18ParallelW(n, par, func(_, i int) { f(i) })
}

func c18ParallelW(n, par int, f func(w, i int)) {
	if par < 1 {
		par = 1
	}
	var wg sync.WaitGroup
	ch := make(chan int)
	for w := 0; w < par; w++ {
		wg.Add(1)
		go func(w int) {
			defer wg.Done()
			for i := range ch {
				f(w, i)
			}
		}(w)
	}
	for i := 0; i < n; i++ {
		ch <- i
	}
	close(ch)
	wg.Wait()
}

// ------------------------------------------------------------------ behaviour -> schedule

type c18SessPlan struct {
	New     []c18Line
	Changed bool
	Step    c18Step
	Where   string // the crash point / failure position in words (signature, coverage)
	Fault   bool   // a kill or an injected failure inside the save path
}

type c18ProcPlan struct {
	Sess     []c18SessPlan // steps of one child process (a retry continues in the same process)
	WantDead bool          // the schedule kills the child
}

type c18Variant struct {
	Ext  bool   `json:"ext"`
	API  string `json:"api"`
	Late string `json:"late,omitempty"` // "", "kill", "err": arm RLIMIT_FSIZE at autosave.written of a complete save
	Salt int64  `json:"salt"`
	Sys  string `json:"sys,omitempty"`   // "all" (check) / "kill" / "eio" (replay): strace-driven file-system-call schedule
	SysJ int    `json:"sys_j,omitempty"` // replay: which call
	// Next: how the session after the behaviour is started, in addition to the repl API: "" = not at all,
	// "c" = the grol binary with -c (auto-load, one command, auto-save), "repl" = the grol binary in
	// interactive mode with an empty standard input (auto-load, EOF, auto-save)
	Next string `json:"next,omitempty"`
}

func (v c18Variant) String() string {
	s := fmt.Sprintf("ext=%v api=%s late=%s salt=%d sys=%s", v.Ext, v.API, v.Late, v.Salt, v.Sys)
	if v.Next != "" {
		s += " next=" + v.Next
	}
	return s
}

func c18Plan(g *c18Gen, r *c18Refs, v c18Variant) ([]c18ProcPlan, error) {
	if len(g.H) == 0 || g.H[0].A != "init" || g.H[0].Old == nil {
		return nil, fmt.Errorf("behaviour does not start with init")
	}
	type sess struct {
		kind    string
		nw      []c18Line
		changed bool
		acts    []c18Act
	}
	var ss []sess
	for _, a := range g.H {
		switch a.A {
		case "init", "restart", "retry":
			ss = append(ss, sess{kind: a.A, nw: a.New, changed: a.Changed})
		case "load", "boot": // the start of the next process: every process of the schedule is started in the directory as it is
		default:
			ss[len(ss)-1].acts = append(ss[len(ss)-1].acts, a)
		}
	}
	mem := g.H[0].Old.Ls
	gr := g.H[0].Old.Ls
	var procs []c18ProcPlan
	for si, s := range ss {
		sp := c18SessPlan{New: s.nw, Changed: s.changed, Step: c18Step{Src: c18Delta(mem, s.nw, s.changed, s.kind != "retry"), Fsize: -1}}
		st := &sp.Step
		acts := s.acts
		crashed := len(acts) > 0 && acts[len(acts)-1].A == "crash"
		if crashed {
			acts = acts[:len(acts)-1]
		}
		tornSize := func(i int) (int64, error) {
			off, ln, _ := r.linePos(v.Ext, s.nw, i)
			if off < 0 || ln < 2 {
				return 0, fmt.Errorf("no position for line %d of %q", i, c18Key(s.nw))
			}
			return int64(off) + 1 + (v.Salt+int64(i))%int64(ln-1), nil
		}
		realN := func(i int) int {
			_, _, n := r.linePos(v.Ext, s.nw, i)
			return n
		}
		if len(acts) == 0 {
			if !crashed {
				return nil, fmt.Errorf("session %d has no steps", si)
			}
			st.KillAt, sp.Where = "before", "kill@idle"
		} else {
			last := acts[len(acts)-1]
			for _, a := range acts {
				if a.A == "rename" {
					gr = s.nw
				}
			}
			var err error
			switch last.A {
			case "skip":
				sp.Where = "skip"
				if crashed {
					st.KillAt, sp.Where = "after", "kill@skipped"
				}
			case "start":
				st.KillAt, sp.Where, sp.Fault = "autosave.start", "kill@autosave.start", true
			case "create":
				st.KillAt, sp.Where, sp.Fault = "autosave.created", "kill@autosave.created", true
			case "write":
				st.KillAt, st.KillN, sp.Where, sp.Fault = "save.binding", realN(last.I), "kill@save.binding", true
			case "torn":
				st.Fsize, err = tornSize(last.I)
				st.FsizeKill, sp.Where, sp.Fault = true, "kill@torn-write", true
			case "writedone":
				st.KillAt, sp.Where, sp.Fault = "autosave.written", "kill@autosave.written", true
			case "rename":
				sp.Where = "complete"
				if crashed {
					sp.Fault = true
					if v.Salt%2 == 0 || v.API == "evalstring" {
						st.KillAt, sp.Where = "autosave.renamed", "kill@autosave.renamed"
					} else {
						st.KillAt, sp.Where = "after", "kill@returned"
					}
				} else if v.Late != "" {
					nb := r.file[c18B2i(v.Ext)][c18Key(s.nw)]
					st.Fsize, st.FsizeAt, st.FsizeKill = (v.Salt%2)*int64(len(nb)/2), "autosave.written", v.Late == "kill"
					sp.Where, sp.Fault = "fsize-"+v.Late+"@commit", true
				}
			case "createfails":
				st.ErrAt, sp.Where, sp.Fault = "autosave.start", "err@autosave.start", true
			case "writefails":
				sp.Fault = true
				switch {
				case len(acts) > 1 && acts[len(acts)-2].A == "torn":
					st.Fsize, err = tornSize(acts[len(acts)-2].I)
					sp.Where = "efbig@torn-write"
				case last.I == 0:
					st.ErrAt, sp.Where = "autosave.created", "err@autosave.created"
				default:
					st.ErrAt, st.ErrN, sp.Where = "save.binding", realN(last.I), "err@save.binding"
				}
			case "renamefails":
				st.ErrAt, sp.Where, sp.Fault = "autosave.written", "err@autosave.written", true
			default:
				return nil, fmt.Errorf("session %d ends with %q", si, last.A)
			}
			if err != nil {
				return nil, err
			}
			if crashed && st.KillAt == "" && !st.FsizeKill {
				st.KillAt = "after"
				sp.Where += "+kill@returned"
			}
		}
		if s.kind == "retry" {
			p := &procs[len(procs)-1]
			p.Sess = append(p.Sess, sp)
			p.WantDead = crashed
		} else {
			procs = append(procs, c18ProcPlan{Sess: []c18SessPlan{sp}, WantDead: crashed})
		}
		// what the next session starts from
		if si+1 < len(ss) {
			if ss[si+1].kind == "retry" {
				mem = s.nw
			} else {
				mem = gr
			}
		}
	}
	if v.API == "evalstring" {
		for _, p := range procs {
			if len(p.Sess) != 1 {
				return nil, fmt.Errorf("evalstring variant cannot retry in-process")
			}
		}
	}
	return procs, nil
}

// ------------------------------------------------------------------ running one behaviour and judging it

type c18Result struct {
	Infra      error
	Fail       string // "" or what broke the statement
	Sig        string
	Where      []string
	Fault      bool
	Unrealised int
	Disagree   []string // model_disagreement (prediction differs, statement holds)
	Trace      []map[string]any
	Children   int
	Sys        []c18SysRes
	Skipped    bool
}

// which of {old, new} a state file equals
func c18Which(ex bool, data []byte, oldEx bool, oldB []byte, newB []byte) string {
	isOld := ex == oldEx && (!ex || bytes.Equal(data, oldB))
	isNew := ex && bytes.Equal(data, newB)
	switch {
	case isOld && isNew:
		return "both"
	case isOld:
		return "old"
	case isNew:
		return "new"
	}
	return "neither"
}

func c18Show(ex bool, data []byte) string {
	if !ex {
		return "(no file)"
	}
	if len(data) > 160 {
		return fmt.Sprintf("%q.. (%d bytes)", data[:160], len(data))
	}
	return fmt.Sprintf("%q", data)
}

type c18Namer struct{ idx map[string]int }

// name temp files t1, t2.. the way the spec does: the lowest index that is free right now
func (nm *c18Namer) listing(r *c18Refs, ls []c18Ent, nw []c18Line) map[string]any {
	present := map[string]bool{}
	for _, e := range ls {
		present[e.Name] = true
	}
	for n := range nm.idx {
		if !present[n] {
			delete(nm.idx, n)
		}
	}
	out := map[string]any{}
	for _, f := range []string{"gr", "t1", "t2", "t3"} {
		out[f] = c18File{Ls: []c18Line{}}
	}
	for _, e := range ls {
		key := e.Name
		switch {
		case e.Name == repl.AutoSaveFile && !e.Dir:
			key = "gr"
		case reC18Temp.MatchString(e.Name):
			if _, ok := nm.idx[e.Name]; !ok {
				used := map[int]bool{}
				for _, i := range nm.idx {
					used[i] = true
				}
				i := 1
				for used[i] {
					i++
				}
				nm.idx[e.Name] = i
			}
			key = "t" + strconv.Itoa(nm.idx[e.Name])
		}
		out[key] = c18File{Ex: true, Ls: r.abstract(e.Data, nw)}
	}
	return out
}

type c18LoadFn func(dir string, ext bool) ([]byte, string, error)

func c18RunCase(g *c18Gen, v c18Variant, r *c18Refs, dir string, load c18LoadFn) (res c18Result) {
	procs, err := c18Plan(g, r, v)
	if err != nil {
		res.Infra = err
		return
	}
	if err := os.MkdirAll(dir, 0o755); err != nil {
		res.Infra = err
		return
	}
	defer os.RemoveAll(dir)
	xi := c18B2i(v.Ext)
	old := g.H[0].Old
	if old.Ex {
		ob, ok := r.file[xi][c18Key(old.Ls)]
		if !ok {
			res.Infra = fmt.Errorf("no reference file for %q", c18Key(old.Ls))
			return
		}
		if err := os.WriteFile(filepath.Join(dir, repl.AutoSaveFile), ob, 0o600); err != nil {
			res.Infra = err
			return
		}
	}
	fail := func(sig, format string, a ...any) {
		if res.Fail == "" {
			res.Sig, res.Fail = sig, fmt.Sprintf(format, a...)
		}
	}
	traceOK := !v.Ext && v.API == "direct"
	nm := &c18Namer{idx: map[string]int{}}
	var lastOldEx bool
	var lastOld, lastNew []byte
	var lastNewLines []c18Line
	for pi, p := range procs {
		job := c18Job{Ext: v.Ext, API: v.API}
		for _, s := range p.Sess {
			job.Steps = append(job.Steps, s.Step)
			res.Where = append(res.Where, s.Where)
			res.Fault = res.Fault || s.Fault
		}
		spec, _ := json.Marshal(job)
		obs, err := c18RunChild(dir, "run", string(spec))
		res.Children++
		if err != nil {
			res.Infra = fmt.Errorf("%v (behaviour %s, %s)", err, jstr(g.H), v)
			return
		}
		if obs.Died != p.WantDead {
			late := p.Sess[len(p.Sess)-1].Step.FsizeAt != ""
			if !(late && obs.Died) { // dying inside the commit step is the mutant's business, judged below
				res.Unrealised++
			}
		}
		// walk the events step by step
		step := -1
		var oldEx bool
		var oldB, newB []byte
		var sp *c18SessPlan
		hooks := 0
		judge := func(when string, ls []c18Ent) {
			if sp == nil {
				return
			}
			data, ex, ent := c18Gr(ls)
			if ent != nil && ent.Dir {
				fail("c18-gr-damaged:"+sp.Where, "./.gr became a directory %s", when)
				return
			}
			if w := c18Which(ex, data, oldEx, oldB, newB); w == "neither" {
				fail("c18-gr-damaged:"+sp.Where, "./.gr %s (schedule %s, %s) is %s; complete previous file %s, complete new file %s",
					when, sp.Where, v, c18Show(ex, data), c18Show(oldEx, oldB), c18Show(true, newB))
			}
		}
		var beginEnt *c18Ent
		for _, ev := range obs.Events {
			switch ev.E {
			case "begin":
				step = ev.I
				sp = &p.Sess[step]
				hooks = 0
				oldB, oldEx, beginEnt = c18Gr(ev.Ls)
				var ok bool
				if newB, ok = r.file[xi][c18Key(sp.New)]; !ok {
					res.Infra = fmt.Errorf("no reference file for %q", c18Key(sp.New))
					return
				}
				lastOldEx, lastOld, lastNew, lastNewLines = oldEx, oldB, newB, sp.New
				if traceOK {
					res.Trace = append(res.Trace, map[string]any{"e": "begin", "old": c18File{Ex: oldEx, Ls: r.abstract(oldB, nil)},
						"new": append([]c18Line{}, sp.New...), "changed": sp.Changed, "ls": nm.listing(r, ev.Ls, sp.New)})
				}
			case "hook":
				hooks++
				judge("at hook "+ev.P+"/"+strconv.Itoa(ev.N), ev.Ls)
				if traceOK {
					res.Trace = append(res.Trace, map[string]any{"e": "hook", "p": ev.P, "n": ev.N, "ls": nm.listing(r, ev.Ls, sp.New)})
				}
			case "ret":
				judge("after AutoSave returned", ev.Ls)
				st := sp.Step
				if (st.ErrAt != "" && !ev.Inj) || (st.Fsize >= 0 && st.FsizeAt == "" && !st.FsizeKill && v.API == "direct" && ev.Err == "") {
					res.Unrealised++ // the injected failure never happened
				}
				if sp.Where == "skip" || sp.Where == "kill@skipped" {
					// prediction: the nothing-changed path does not touch the directory at all
					_, _, ent := c18Gr(ev.Ls)
					touched := hooks > 0 || (ent == nil) != (beginEnt == nil) || (ent != nil && (ent.Ino != beginEnt.Ino || ent.Mtime != beginEnt.Mtime))
					if touched {
						res.Disagree = append(res.Disagree, "skip path touched the state file")
					}
				}
				if traceOK {
					res.Trace = append(res.Trace, map[string]any{"e": "ret", "err": ev.Err != "", "ls": nm.listing(r, ev.Ls, sp.New)})
				}
			}
		}
		if sp == nil {
			res.Infra = fmt.Errorf("child %d produced no step (%s) %s", pi, v, obs.Stderr)
			return
		}
		judge("after the process ended", obs.After)
		if traceOK {
			e := "exit"
			if obs.Died {
				e = "crash"
			}
			res.Trace = append(res.Trace, map[string]any{"e": e, "ls": nm.listing(r, obs.After, sp.New)})
		}
	}
	// the next session
	final := c18List(dir)
	lastWhere := res.Where[len(res.Where)-1]
	// .. through the repl API (AutoLoad only: it reads, it never changes the directory), first
	restored, _, err := load(dir, v.Ext)
	if err != nil {
		res.Infra = err
		return
	}
	wantOld, err := r.loadRef(v.Ext, lastOld, lastOldEx)
	if err != nil {
		res.Infra = err
		return
	}
	wantNew, err := r.loadRef(v.Ext, lastNew, true)
	if err != nil {
		res.Infra = err
		return
	}
	if !bytes.Equal(restored, wantOld) && !bytes.Equal(restored, wantNew) {
		fail("c18-load-neither:"+lastWhere, "a fresh session auto-loaded %q (schedule %s, %s); the complete previous file restores %q, the complete new file %q",
			restored, lastWhere, v, wantOld, wantNew)
	}
	// .. and started the way a user starts it: the grol binary in the directory of the process that is gone (Boot + AutoLoad
	// of the spec; the start-up code of the program runs, which no session driven through the repl API does). It comes
	// second because a tree that saves in every session may rightly replace ./.gr by what this session restored.
	afterBoot := final
	if v.Next != "" && r.bin != "" {
		nx, kind, msg, err := r.nextSession(dir, v.Next, lastOldEx, lastOld, lastNew)
		res.Children++
		if err != nil {
			res.Infra = fmt.Errorf("%v (behaviour %s, %s)", err, jstr(g.H), v)
			return
		}
		if kind != "" {
			fail("c18-"+kind+":"+lastWhere+"+next-start", "%s (schedule %s, %s)", msg, lastWhere, v)
		}
		afterBoot = nx.After
		if res.Fail == "" && !c18SameDir(final, afterBoot) {
			res.Disagree = append(res.Disagree, fmt.Sprintf("the start of the next session changed the directory (%s); the model's Boot leaves it as it is", lastWhere))
		}
	}
	if traceOK {
		// an alias line name=func hname(..){..} also defines hname when it is loaded: that by-product is a
		// save/load round-trip matter (C14), not a line of the state file
		var ll []c18Line
		for _, piece := range c18Split(restored) {
			if m := reC18Helper.FindSubmatch(piece); m != nil && bytes.Contains(restored, []byte("\n"+string(m[1])+"=func h"+string(m[1])+"(")) || m != nil && bytes.HasPrefix(restored, []byte(string(m[1])+"=func h"+string(m[1])+"(")) {
				continue
			}
			ll = append(ll, r.abstract(piece, nil)...)
		}
		if ll == nil {
			ll = []c18Line{}
		}
		res.Trace = append(res.Trace, map[string]any{"e": "boot", "ls": nm.listing(r, afterBoot, lastNewLines)}, map[string]any{"e": "load", "lines": ll})
	}
	// model prediction (diagnostic)
	data, ex, _ := c18Gr(final)
	pred := g.Disk["gr"]
	var predB []byte
	if pred.Ex {
		predB = r.file[xi][c18Key(pred.Ls)]
	}
	late := v.Late != ""
	if (ex != pred.Ex || (ex && !bytes.Equal(data, predB))) && res.Fail == "" && !late {
		res.Disagree = append(res.Disagree, fmt.Sprintf("final ./.gr %s, model predicts %s (%s)", c18Show(ex, data), c18Show(pred.Ex, predB), lastWhere))
	}
	if pb, ok := g.Boot["gr"]; ok && res.Fail == "" && !late { // BootDisk: the state file after the start-up of the next process
		var pbB []byte
		if pb.Ex {
			pbB = r.file[xi][c18Key(pb.Ls)]
		}
		if bd, bex, _ := c18Gr(afterBoot); bex != pb.Ex || (bex && !bytes.Equal(bd, pbB)) {
			res.Disagree = append(res.Disagree, fmt.Sprintf("./.gr after the start of the next session %s, model predicts %s (%s)", c18Show(bex, bd), c18Show(pb.Ex, pbB), lastWhere))
		}
	}
	if !v.Ext && res.Fail == "" && !late {
		var got, want []string
		for _, e := range final {
			if reC18Temp.MatchString(e.Name) {
				got = append(got, c18Key(r.abstract(e.Data, lastNewLines)))
			}
		}
		for name, f := range g.Disk {
			if name != "gr" && f.Ex {
				want = append(want, c18Key(f.Ls))
			}
		}
		sort.Strings(got)
		sort.Strings(want)
		if len(res.Where) == 1 && strings.Join(got, "|") != strings.Join(want, "|") {
			res.Disagree = append(res.Disagree, fmt.Sprintf("leftover temp files %q, model predicts %q (%s)", got, want, lastWhere))
		}
	}
	return
}

// ------------------------------------------------------------------ every file-system call of the save as a crash / failure point (strace)

const (
	c18MarkBegin = "/nonexistent-c18/mark-begin"
	c18MarkEnd   = "/nonexistent-c18/mark-end"
	c18SysSet    = "openat,write,rename,renameat,renameat2,unlink,unlinkat,ftruncate,truncate,fsync,fdatasync,close,link,linkat,symlinkat,chmod,fchmod,fchmodat,mkdirat"
)

type c18SysRes struct {
	J    int    // the J-th file-system call after AutoSave was entered (the last one is "after the save")
	Kind string // "kill": SIGKILL on entry of that call; "eio": the call fails with EIO without being executed
	Call string
	Fail string
	Sig  string
	Next string // how the next session was started as the grol binary ("" = it was not)
}

func c18Strace(dir string, logPath string, inject string, spec string) (died bool, err error) {
	exe, err := os.Executable()
	if err != nil {
		return false, err
	}
	args := []string{"-f", "-o", logPath, "-e", "trace=" + c18SysSet}
	if inject != "" {
		args = append(args, "-e", "inject="+inject)
	}
	args = append(args, exe, "worker", "c18", "sys", spec)
	ctx, cancel := context.WithTimeout(context.Background(), 60*time.Second)
	defer cancel()
	cmd := exec.CommandContext(ctx, "strace", args...)
	cmd.Dir = dir
	var errb bytes.Buffer
	cmd.Stderr = &errb
	runErr := cmd.Run()
	if ctx.Err() != nil {
		return false, fmt.Errorf("strace child timed out")
	}
	if runErr != nil {
		var ee *exec.ExitError
		if !errors.As(runErr, &ee) {
			return false, runErr
		}
		ws, _ := ee.Sys().(syscall.WaitStatus)
		if ws.Signaled() && ws.Signal() == syscall.SIGKILL || ws.ExitStatus() == 137 {
			return true, nil
		}
		return false, fmt.Errorf("strace child: %v %s", runErr, errb.String())
	}
	return false, nil
}

// c18InjectionMissed: the strace child died of something the injection did to the Go runtime or the loader, not to the save.
func c18InjectionMissed(err error) bool {
	m := err.Error()
	return strings.Contains(m, "fatal error: runtime:") || strings.Contains(m, "netpollBreak") || strings.Contains(m, "cannot close file descriptor") ||
		strings.Contains(m, "error while loading shared libraries")
}

var reC18Sys = regexp.MustCompile(`^(\d+) +(\w+)\(`)

type c18SysCall struct {
	Name string
	Ord  int // this is the Ord-th call of that name made by the thread (strace counts per call name and thread)
}

// c18SysWindow: the file-system calls between the two markers, the end marker included as "after the save".
func c18SysWindow(logPath string) (calls []c18SysCall, err error) {
	b, err := os.ReadFile(logPath)
	if err != nil {
		return nil, err
	}
	lines := strings.Split(string(b), "\n")
	tid := ""
	for _, ln := range lines {
		if strings.Contains(ln, c18MarkBegin) {
			if m := reC18Sys.FindStringSubmatch(ln); m != nil {
				tid = m[1]
			}
		}
	}
	if tid == "" {
		return nil, fmt.Errorf("no begin marker in the strace log")
	}
	count := map[string]int{}
	in, done := false, false
	for _, ln := range lines {
		m := reC18Sys.FindStringSubmatch(ln)
		if m == nil || m[1] != tid {
			continue
		}
		count[m[2]]++
		switch {
		case strings.Contains(ln, c18MarkBegin):
			in = true
		case strings.Contains(ln, c18MarkEnd):
			if in {
				calls = append(calls, c18SysCall{Name: m[2], Ord: count[m[2]]})
				done = true
			}
			in = false
		case in:
			calls = append(calls, c18SysCall{Name: m[2], Ord: count[m[2]]})
		}
	}
	if !done {
		return nil, fmt.Errorf("no save window in the strace log")
	}
	return calls, nil
}

// c18RunSys: one complete-save behaviour; the process is killed before, and then failed at, each
// file-system call the save makes. onlyJ > 0 restricts to one position (replay).
func c18RunSys(g *c18Gen, v c18Variant, r *c18Refs, dir string, load c18LoadFn, onlyJ int, onlyKind string) (out []c18SysRes, infra error) {
	procs, err := c18Plan(g, r, v)
	if err != nil || len(procs) != 1 || len(procs[0].Sess) != 1 {
		return nil, fmt.Errorf("sys variant needs a single complete save: %v", err)
	}
	sp := procs[0].Sess[0]
	xi := c18B2i(v.Ext)
	old := g.H[0].Old
	var oldB []byte
	if old.Ex {
		oldB = r.file[xi][c18Key(old.Ls)]
	}
	newB := r.file[xi][c18Key(sp.New)]
	spec, _ := json.Marshal(c18Job{Ext: v.Ext, API: "direct", Steps: []c18Step{{Src: sp.Step.Src, Fsize: -1}}})
	defer os.RemoveAll(dir)
	fresh := func(name string) (string, error) {
		d := filepath.Join(dir, name)
		if err := os.MkdirAll(d, 0o755); err != nil {
			return "", err
		}
		if old.Ex {
			if err := os.WriteFile(filepath.Join(d, repl.AutoSaveFile), oldB, 0o600); err != nil {
				return "", err
			}
		}
		return d, nil
	}
	d0, err := fresh("base")
	if err != nil {
		return nil, err
	}
	logPath := filepath.Join(dir, "base.log")
	if _, err := c18Strace(d0, logPath, "", string(spec)); err != nil {
		return nil, err
	}
	calls, err := c18SysWindow(logPath)
	if err != nil {
		return nil, err
	}
	callName := func(j int) string {
		if j == len(calls) {
			return "(after the save)"
		}
		return calls[j-1].Name
	}
	if data, ex, _ := c18Gr(c18List(d0)); c18Which(ex, data, old.Ex, oldB, newB) == "neither" {
		return nil, fmt.Errorf("the uninterrupted save under strace did not produce the reference file")
	}
	wantOld, err := r.loadRef(v.Ext, oldB, old.Ex)
	if err != nil {
		return nil, err
	}
	wantNew, err := r.loadRef(v.Ext, newB, true)
	if err != nil {
		return nil, err
	}
	for j := 1; j <= len(calls); j++ {
		for _, kind := range []string{"kill", "eio"} {
			if onlyJ > 0 && (j != onlyJ || kind != onlyKind) {
				continue
			}
			d, err := fresh(fmt.Sprintf("%s%d", kind, j))
			if err != nil {
				return nil, err
			}
			inj := fmt.Sprintf("signal=SIGKILL:when=%d", calls[j-1].Ord)
			if kind == "eio" {
				inj = fmt.Sprintf("error=EIO:when=%d", calls[j-1].Ord)
			}
			inj = calls[j-1].Name + ":" + inj
			died, err := c18Strace(d, filepath.Join(dir, "inj.log"), inj, string(spec))
			// strace counts a call per thread: when the Go scheduler has moved things, the N-th write / close is one of the
			// runtime's own (its wake-up pipe) or of the dynamic loader, and the child dies of a runtime fatal error that has
			// nothing to do with the save. Try again (fresh directory); an injection that never reaches the save is skipped.
			for try := 0; err != nil && c18InjectionMissed(err) && try < 3; try++ {
				if d, err = fresh(fmt.Sprintf("%s%d-retry%d", kind, j, try)); err != nil {
					return nil, err
				}
				died, err = c18Strace(d, filepath.Join(dir, "inj.log"), inj, string(spec))
			}
			if err != nil && c18InjectionMissed(err) {
				out = append(out, c18SysRes{J: j, Kind: kind, Call: callName(j) + " (injection hit another thread's call: skipped)"})
				continue
			}
			if err != nil {
				return nil, err
			}
			res := c18SysRes{J: j, Kind: kind, Call: callName(j)}
			if kind == "kill" && !died {
				res.Call += " (not realised)"
			}
			where := fmt.Sprintf("%s@syscall:%s", kind, callName(j))
			data, ex, ent := c18Gr(c18List(d))
			if (ent != nil && ent.Dir) || c18Which(ex, data, old.Ex, oldB, newB) == "neither" {
				res.Sig = "c18-gr-damaged:" + where
				res.Fail = fmt.Sprintf("./.gr after %s before file-system call %d of the save (%s) is %s; complete previous file %s, complete new file %s",
					map[string]string{"kill": "the process was killed", "eio": "EIO was injected"}[kind], j, callName(j), c18Show(ex, data), c18Show(old.Ex, oldB), c18Show(true, newB))
			} else {
				restored, _, err := load(d, v.Ext)
				if err != nil {
					return nil, err
				}
				if !bytes.Equal(restored, wantOld) && !bytes.Equal(restored, wantNew) {
					res.Sig = "c18-load-neither:" + where
					res.Fail = fmt.Sprintf("a fresh session auto-loaded %q after %s at file-system call %d (%s); previous restores %q, new restores %q", restored, kind, j, callName(j), wantOld, wantNew)
				}
			}
			if res.Fail == "" && v.Next != "" && r.bin != "" { // the next session as a user starts it
				mode := v.Next
				if onlyJ == 0 {
					mode = c18NextMode(v.Salt + int64(j) + int64(len(kind)))
				}
				res.Next = mode
				_, nk, msg, err := r.nextSession(d, mode, old.Ex, oldB, newB)
				if err != nil {
					return nil, err
				}
				if nk != "" {
					res.Sig = "c18-" + nk + ":" + where + "+next-start"
					res.Fail = fmt.Sprintf("%s (%s at file-system call %d of the save, %s)", msg, kind, j, callName(j))
				}
			}
			out = append(out, res)
			_ = os.RemoveAll(d)
		}
	}
	return out, nil
}

// ------------------------------------------------------------------ the check

func c18Cfg(u c18Universe, n int, maxOld int, sessions int, dev string, emit bool, mode string) string {
	var vs []string
	for _, v := range u.Vals {
		vs = append(vs, strconv.Itoa(v))
	}
	vals := "{" + strings.Join(vs, ",") + "}"
	b := func(x bool) string {
		if x {
			return "TRUE"
		}
		return "FALSE"
	}
	s := fmt.Sprintf("CONSTANTS\n N = %d\n%s MaxOld = %d\n Vals = %s\n MaxSessions = %d\n DirectWrite = %s\n IgnoreWriteError = %s\n RenameEarly = %s\n PromoteLeftover = %s\n EmitOn = %s\n",
		n, c18Universe{Shapes: u.Shapes[:n]}.cfg(), maxOld, vals, sessions, b(dev == "DirectWrite"), b(dev == "IgnoreWriteError"), b(dev == "RenameEarly"), b(dev == "PromoteLeftover"), b(emit))
	switch mode {
	case "trace", "trace-strict":
		return s + " StrictTemp = " + b(mode == "trace-strict") + "\nINIT TraceInit\nNEXT TraceNext\nINVARIANTS Atomic FailedLeavesOld LoadedOldOrNew StateFileWhole\nPOSTCONDITION TraceAccepted\n"
	case "deviation":
		return s + "INIT Init\nNEXT Next\nVIEW view\nINVARIANTS Atomic\n"
	}
	return s + "INIT Init\nNEXT Next\nVIEW view\nINVARIANTS TypeOK Atomic FailedLeavesOld LoadedOldOrNew StateFileWhole\n" +
		"PROPERTIES RestartOldOrNew LeftoverNeverRead SkipTouchesNothing OnlyRenameCommits BootOldOrNew\n"
}

type c18Case struct {
	G    *c18Gen
	V    c18Variant
	Line string
}

func c18Par() int {
	p := runtime.NumCPU() * 3 / 4
	if p < 2 {
		p = 2
	}
	if p > 12 {
		p = 12
	}
	return p
}

var reC18L = regexp.MustCompile(`(?m)^/\\ l = (\d+)`)

// c18TV validates a batch of recorded runs; returns the index of the first rejected run or -1.
func c18TV(c *Ctx, runs [][]map[string]any, strict bool) (rejected int, why string, err error) {
	var buf bytes.Buffer
	enc := json.NewEncoder(&buf)
	var ends []int
	n := 0
	for _, run := range runs {
		for _, ev := range run {
			_ = enc.Encode(ev)
			n++
		}
		ends = append(ends, n)
	}
	mode := "trace"
	if strict {
		mode = "trace-strict"
	}
	r, err := c.TLC(TLCOpt{Spec: "AutoSave_Trace", Cfg: c18Cfg(c18Legacy, 3, 3, 3, "", false, mode), Workers: 1,
		Files: map[string][]byte{"autosave_trace.ndjson": buf.Bytes()}, AllowError: true})
	if err != nil {
		return -1, "", err
	}
	if r.ErrText == "" {
		return -1, "", nil
	}
	line := 0
	switch {
	case strings.Contains(r.Out, "TRACE_REJECTED_AT_LINE"):
		i := strings.Index(r.Out, "TRACE_REJECTED_AT_LINE")
		tail := r.Out[i+len("TRACE_REJECTED_AT_LINE"):]
		fmt.Sscanf(strings.TrimLeft(tail, "\", "), "%d", &line)
		why = fmt.Sprintf("no action of AutoSave.tla explains event %d", line)
	case r.InvViolated != "":
		m := reC18L.FindAllStringSubmatch(r.Out, -1)
		if len(m) > 0 {
			line, _ = strconv.Atoi(m[len(m)-1][1])
			line-- // l points at the next event
		}
		why = fmt.Sprintf("invariant %s violated by the recorded state after event %d", r.InvViolated, line)
	default:
		return -1, "", fmt.Errorf("AutoSave_Trace failed: %s", r.ErrText)
	}
	for i, e := range ends {
		if line <= e {
			return i, why, nil
		}
	}
	return len(runs) - 1, why, nil
}

func checkC18(c *Ctx) {
	if runtime.GOOS != "linux" || runtime.GOARCH != "amd64" {
		c.Infra(fmt.Errorf("C18 harness needs linux/amd64 (raw rt_sigaction for the SIGXFSZ crash point)"))
		return
	}
	c.Assume("process death = SIGKILL delivered at a hook point of object.VerifHook, or SIGXFSZ delivered inside write(2) when the file crosses RLIMIT_FSIZE; power loss / page-cache loss is out of scope of the statement")
	c.Assume("a write failure = an error returned by the hook after n complete bindings, or a real EFBIG short write at a byte offset chosen by RLIMIT_FSIZE")
	c.Assume("the scratch directory is on a local POSIX file system where rename(2) is atomic")

	// 1. design level: each careless variant of the save path must violate Atomic.
	// 0. the program under test as a user gets it: the session after a crash is also started as the built binary.
	grolBin := filepath.Join(c.Scratch(), "c18bin", "grol")
	binErr := make(chan error, 1)
	go func() { binErr <- c18BuildGrol(grolBin) }()
	// reference files from real uninterrupted saves (step 3) do not depend on the TLC runs either
	par := c18Par()
	type refsRes struct {
		r   *c18Refs
		err error
	}
	refsCh := make(chan refsRes, 1)
	go func() {
		r, err := newC18Refs(filepath.Join(c.Scratch(), "c18refs"), par/2)
		refsCh <- refsRes{r, err}
	}()

	devs := []string{"DirectWrite", "PromoteLeftover", "IgnoreWriteError", "RenameEarly"}
	if !c.Thorough() {
		devs = devs[:2]
	}
	type tlcRes struct {
		r   *TLCResult
		err error
	}
	devRes := make([]chan tlcRes, len(devs))
	for i, dev := range devs {
		devRes[i] = make(chan tlcRes, 1)
		go func(i int, dev string) {
			r, err := c.TLC(TLCOpt{Spec: "AutoSave", Cfg: c18Cfg(c18Universe{c18Legacy.Shapes, []int{1}}, 2, 2, 1, dev, false, "deviation"), Workers: 1, AllowError: true})
			devRes[i] <- tlcRes{r, err}
		}(i, dev)
	}
	checkDevs := func() bool {
		for i, dev := range devs {
			x := <-devRes[i]
			if x.err != nil {
				c.Infra(x.err)
				return false
			}
			if x.r.InvViolated != "Atomic" {
				c.Infra(fmt.Errorf("deviation %s did not violate Atomic: %q\n%s", dev, x.r.InvViolated, x.r.ErrText))
				return false
			}
		}
		c.Cov("design_counterexamples", "Atomic violated by each of "+strings.Join(devs, ", "))
		return true
	}

	// 1b. optional extra (thorough): Apalache proves the inductive invariant of AutoSaveInd.tla for any
	// number of bindings, and refutes it for the DirectWrite variant. Not part of the verdict.
	if c.Thorough() {
		c18Apalache(c)
	}

	// 2. MC + GEN.
	type space struct {
		u        c18Universe
		n        int
		maxOld   int
		sessions int
		emit     bool
		budget   int                // 0 = replay every emitted behaviour
		must     func(*c18Gen) bool // behaviours replayed whatever the budget (nil: none)
	}
	one := func(u c18Universe) c18Universe { return c18Universe{u.Shapes, u.Vals[:1]} }
	// a write that fails (hook error after the binding, or a real short write inside it) at a binding position, no crash after it
	faultAtBinding := func(g *c18Gen) bool {
		return g.End == "fail" && g.H[len(g.H)-1].A == "writefails" && g.H[0].Old.Ex
	}
	var spaces []space
	if c.Thorough() {
		spaces = []space{{c18Legacy, 3, 3, 1, true, 0, nil}, {c18ShapeU, 5, 0, 1, true, 0, nil}, {c18Legacy, 2, 2, 2, true, 2000, nil}, {one(c18Legacy), 2, 2, 3, false, 0, nil}}
	} else {
		spaces = []space{{one(c18Legacy), 2, 2, 1, true, 0, nil}, {c18ShapeU, 5, 0, 1, true, 120, faultAtBinding}, {c18Legacy, 2, 2, 1, true, 350, nil},
			{one(c18Legacy), 2, 2, 2, true, 150, nil}, {c18Legacy, 3, 3, 1, false, 0, nil}}
	}
	var cases, extras, sysPool []c18Case
	var sysFull *c18Case
	exhaustive := true
	_, straceErr := exec.LookPath("strace")
	haveStrace := straceErr == nil
	hasRestart := func(g *c18Gen) bool {
		for _, a := range g.H {
			if a.A == "restart" {
				return true
			}
		}
		return false
	}
	// the TLC runs are independent of each other: started together, consumed in order
	spaceRes := make([]chan tlcRes, len(spaces))
	for i, sp := range spaces {
		spaceRes[i] = make(chan tlcRes, 1)
		go func(i int, sp space) {
			workers := 4
			if sp.emit {
				workers = 1 // one worker: the witness history kept for a state, and with it the emitted set, is deterministic
			}
			r, err := c.TLC(TLCOpt{Spec: "AutoSave", Cfg: c18Cfg(sp.u, sp.n, sp.maxOld, sp.sessions, "", sp.emit, "mc"), Workers: workers, Coverage: c.Thorough() && !sp.emit})
			spaceRes[i] <- tlcRes{r, err}
		}(i, sp)
	}
	if !checkDevs() {
		return
	}
	for si, sp := range spaces {
		x := <-spaceRes[si]
		r, err := x.r, x.err
		if err != nil {
			c.Infra(err)
			return
		}
		if r.Coverage != nil {
			var vac []string
			for _, a := range []string{"Skip", "Start", "CreateTemp", "CreateFails", "WriteTorn", "WriteBinding", "WriteFails", "WriteDone", "Rename", "RenameFails", "Crash", "Boot", "Restart", "Retry"} {
				if r.Coverage[a] == 0 {
					vac = append(vac, a)
				}
			}
			if len(vac) > 0 {
				c.Infra(fmt.Errorf("vacuous actions in AutoSave.tla: %v", vac))
				return
			}
			c.Cov("vacuous_actions", []string{})
		}
		if !sp.emit {
			c.Note("AutoSave MC N=%d shapes=%v Vals=%v sessions=%d: %d states, %d transitions, invariants and action properties hold", sp.n, sp.u.Shapes[:sp.n], sp.u.Vals, sp.sessions, r.Distinct, r.Generated)
			continue
		}
		var lines []string
		if err := ReadLines(r.Emitted, func(b []byte) error { lines = append(lines, string(b)); return nil }); err != nil {
			c.Infra(err)
			return
		}
		if len(lines) == 0 {
			c.Infra(fmt.Errorf("AutoSave GEN emitted nothing"))
			return
		}
		sort.Strings(lines) // TLC workers emit in any order
		stride, off := 1, 0
		if sp.budget > 0 && len(lines) > sp.budget {
			stride = (len(lines) + sp.budget - 1) / sp.budget
			off = int(c.Seed % int64(stride))
			if off < 0 {
				off = -off
			}
			exhaustive = false
		}
		picked, forced := 0, 0
		nextCount := map[bool]int{}
		for i := 0; i < len(lines); i++ {
			inStride := i >= off && (i-off)%stride == 0
			if !inStride && sp.must == nil {
				continue
			}
			g := &c18Gen{}
			if err := json.Unmarshal([]byte(lines[i]), g); err != nil {
				c.Infra(fmt.Errorf("GEN line: %v: %.200s", err, lines[i]))
				return
			}
			if g.End == "done" && haveStrace && len(g.H) > 0 && len(g.H[0].New) == len(c18ShapeU.Shapes) && g.H[0].Old.Ex && sysFull == nil {
				// a complete save of one binding of every shape: each of its writes is killed / failed in turn
				sysFull = &c18Case{G: g, V: c18Variant{API: "direct", Sys: "all", Salt: c.Seed + int64(i), Next: "c"}, Line: lines[i]}
			}
			if !inStride {
				if !sp.must(g) {
					continue
				}
				forced++
			}
			salt := c.Seed + int64(i)
			// the next session is also started as the grol binary: whenever the model predicts leftover temporary files in
			// the directory (something for a start-up to find) and for a third of the other behaviours in the spaces replayed
			// completely and in the two-session space (several leftovers); for every second / fourth behaviour elsewhere
			next := ""
			every := map[bool]int{true: 1, false: 3}
			if stride > 1 && sp.sessions == 1 {
				every = map[bool]int{true: 2, false: 4}
			}
			if stride == 1 && len(lines) > 5000 { // thorough: the big single-session space, replayed completely
				every = map[bool]int{true: 4, false: 12}
			}
			lit := c18Litter(g)
			nextCount[lit]++
			if (nextCount[lit]+int(c.Seed))%every[lit] == 0 {
				next = c18NextMode(salt)
			}
			cases = append(cases, c18Case{G: g, V: c18Variant{API: "direct", Salt: salt, Next: next}, Line: lines[i]})
			picked++
			single := true
			for _, a := range g.H {
				if a.A == "retry" {
					single = false
				}
			}
			// other flavours of the same behaviour on a share of the cases
			if single && (i+int(c.Seed))%6 == 0 {
				extras = append(extras, c18Case{G: g, V: c18Variant{API: "evalstring", Salt: salt}, Line: lines[i]})
			}
			if (i+int(c.Seed))%6 == 1 {
				extras = append(extras, c18Case{G: g, V: c18Variant{API: "direct", Ext: true, Salt: salt, Next: next}, Line: lines[i]})
			}
			if g.End == "done" && single && len(g.H) > 0 && !hasRestart(g) && haveStrace {
				sysPool = append(sysPool, c18Case{G: g, V: c18Variant{API: "direct", Sys: "all", Salt: salt, Ext: (i+int(c.Seed))%5 == 0, Next: "c"}, Line: lines[i]})
			}
			if g.End == "done" && (i+int(c.Seed))%c.Pick(2, 1) == 0 {
				late := "kill"
				if salt%4 >= 2 {
					late = "err"
				}
				extras = append(extras, c18Case{G: g, V: c18Variant{API: "direct", Late: late, Salt: salt}, Line: lines[i]})
			}
		}
		c.Note("AutoSave GEN N=%d shapes=%v Vals=%v maxold=%d sessions=%d: %d states, %d transitions, %d session-ending behaviours emitted, %d replayed (stride %d, of which %d every write fault at a binding position)",
			sp.n, sp.u.Shapes[:sp.n], sp.u.Vals, sp.maxOld, sp.sessions, r.Distinct, r.Generated, len(lines), picked, stride, forced)
	}
	// complete saves whose every file-system call becomes a crash point and a failure point (strace)
	if !haveStrace {
		c.Note("strace not found: the file-system-call schedules were skipped")
	} else if len(sysPool) > 0 {
		want := c.Pick(6, 40)
		stride := (len(sysPool) + want - 1) / want
		if stride < 1 {
			stride = 1
		}
		var first []c18Case
		for i := int(c.Seed % int64(stride)); i < len(sysPool); i += stride {
			first = append(first, sysPool[i])
		}
		if sysFull != nil {
			first = append([]c18Case{*sysFull}, first...)
		}
		cases = append(first, cases...) // the long jobs start first
	}
	cases = append(cases, extras...) // other flavours of the same behaviours after the plain ones
	c.Cov("exhaustive", exhaustive)  // false when a two-session space was sampled; the single-session spaces without a budget are replayed completely

	tPhase := c.Start
	phase := func(name string) {
		c.Note("time %s: %.1fs", name, time.Since(tPhase).Seconds())
		tPhase = time.Now()
	}
	phase("TLC model checking and generation (since start: deviations, MC, GEN)")
	// 3. reference files from real uninterrupted saves.
	rr := <-refsCh
	refs, err := rr.r, rr.err
	if err != nil {
		c.Infra(err)
		return
	}
	if err := <-binErr; err != nil {
		c.Infra(err)
		return
	}
	refs.bin = grolBin
	for _, n := range refs.notes {
		c.Note("%s", n)
	}

	phase("reference saves and loads")
	// 4. replay on the real code.
	results := make([]c18Result, len(cases))
	deadline := time.Duration(c.Pick(70, 290)) * time.Second
	loaders := &c18Loaders{}
	freshEvery := c.Pick(16, 8) // every n-th case the next session is a fresh process, otherwise a fresh eval.State of a load server
	freshLoads := 0
	c18ParallelW(len(cases), par, func(w, i int) {
		load := func(dir string, ext bool) ([]byte, string, error) { return loaders.load(w, dir, ext) }
		if i%freshEvery == 0 {
			load = c18Load
		}
		dir := filepath.Join(c.Scratch(), "c18", strconv.Itoa(i))
		if time.Since(c.Start) > deadline { // an overloaded machine: stop starting cases rather than run into the tier's time limit
			results[i] = c18Result{Skipped: true}
			return
		}
		if cases[i].V.Sys != "" {
			sub, err := c18RunSys(cases[i].G, cases[i].V, refs, dir, load, 0, "")
			results[i] = c18Result{Infra: err, Sys: sub}
			return
		}
		results[i] = c18RunCase(cases[i].G, cases[i].V, refs, dir, load)
	})
	loaders.close()
	for i := range cases {
		if i%freshEvery == 0 {
			freshLoads++
		}
	}
	c.Cov("next_session_in_fresh_process", freshLoads)
	where := map[string]int{}
	variants := map[string]int{}
	var runs [][]map[string]any
	var runCase []int
	unreal, faults, children, disagree := 0, 0, 0, 0
	nextStarts := map[string]int{}
	sysCalls := map[string]int{}
	sysBehaviours, skipped := 0, 0
	for i, res := range results {
		cs := cases[i]
		if res.Skipped {
			skipped++
			continue
		}
		if res.Infra != nil {
			c.Infra(res.Infra)
			return
		}
		if cs.V.Sys != "" {
			for _, sr := range res.Sys {
				c.Case(fmt.Sprintf("%s|%s|%s%d", cs.Line, cs.V, sr.Kind, sr.J), true)
				sysCalls[sr.Kind+" before "+sr.Call]++
				children++
				if sr.Next != "" {
					nextStarts["grol binary, "+sr.Next]++
					children++
				}
				if sr.Fail != "" {
					v := cs.V
					v.Sys, v.SysJ = sr.Kind, sr.J
					if sr.Next != "" {
						v.Next = sr.Next
					}
					c.Fail(sr.Sig, sr.Fail, map[string]any{"check": "sys", "line": cs.Line, "variant": v})
				}
			}
			sysBehaviours++
			continue
		}
		c.Case(cs.Line+"|"+cs.V.String(), res.Fault)
		children += res.Children
		for _, w := range res.Where {
			where[w]++
		}
		variants[fmt.Sprintf("api=%s ext=%v late=%q", cs.V.API, cs.V.Ext, cs.V.Late)]++
		nextStarts["repl API"]++
		if cs.V.Next != "" {
			nextStarts["grol binary, "+cs.V.Next]++
		}
		unreal += res.Unrealised
		if res.Fault {
			faults++
		}
		if len(res.Disagree) > 0 {
			disagree++
			if disagree <= 5 {
				c.Note("model_disagreement (statement holds): %s; behaviour %s", strings.Join(res.Disagree, "; "), jstr(cs.G.H))
			}
		}
		if i%(len(results)/6+1) == 0 {
			c.Sample(map[string]any{"behaviour": cs.G.H, "variant": cs.V, "schedule": res.Where, "predicted_gr": cs.G.Disk["gr"], "verdict": res.Fail == ""})
		}
		if res.Fail != "" {
			c.Fail(res.Sig, res.Fail, map[string]any{"check": "gen", "line": cs.Line, "variant": cs.V})
		}
		if len(res.Trace) > 0 {
			runs = append(runs, res.Trace)
			runCase = append(runCase, i)
		}
	}
	c.AddTraces(int64(len(cases) - skipped))
	c.Cov("skipped_for_time", skipped)
	if skipped > 0 {
		c.Cov("exhaustive", false)
		c.Note("%d of %d cases were not started because the machine was too slow for the tier's time limit (%v); nothing is concluded about them", skipped, len(cases), deadline)
		if skipped > len(cases)/2 {
			c.Infra(fmt.Errorf("more than half of the cases could not be run within %v", deadline))
			return
		}
	}
	c.Cov("schedules", where)
	c.Cov("syscall_schedules", sysCalls)
	c.Cov("syscall_schedule_behaviours", sysBehaviours)
	c.Cov("variants", variants)
	c.Cov("next_session_started_as", nextStarts)
	c.Cov("child_processes", children)
	c.Cov("model_disagreement", disagree)
	c.Cov("unrealised_schedules", unreal)
	if unreal > 0 {
		c.Note("%d schedules were not realised by the code (the child did not reach the crash point / the injected error did not fire): skipped as crash points, still judged as runs", unreal)
		if faults > 0 && unreal >= faults {
			c.Infra(fmt.Errorf("no crash point or failure position could be realised: object.VerifHook is not wired into the save path"))
			return
		}
	}

	phase("replay in child processes")
	// 5. TV: the recorded runs against AutoSave_Trace.tla.
	maxRuns := c.Pick(1200, 5000)
	if len(runs) > maxRuns {
		stride := (len(runs) + maxRuns - 1) / maxRuns
		var rs [][]map[string]any
		var rc []int
		for i := int(c.Seed % int64(stride)); i < len(runs); i += stride {
			rs, rc = append(rs, runs[i]), append(rc, runCase[i])
		}
		runs, runCase = rs, rc
	}
	events := 0
	for _, r := range runs {
		events += len(r)
	}
	rejected := 0
	validated := len(runs)
	// 6. binding self-tests: sabotaged copies of recorded runs, validated while the recorded runs themselves are
	selfTest := make(chan string, 1)
	go func(runs [][]map[string]any) { selfTest <- c18SelfTest(c, refs, runs) }(runs)
	for attempt := 0; attempt < 4 && len(runs) > 0; attempt++ {
		idx, why, err := c18TV(c, runs, false)
		if err != nil {
			c.Infra(err)
			return
		}
		if idx < 0 {
			break
		}
		rejected++
		validated--
		cs, res := cases[runCase[idx]], results[runCase[idx]]
		if res.Fail == "" {
			// the spec cannot explain the run but the statement's relation holds on every observation
			c.Note("model_disagreement (TV): %s; the run keeps ./.gr in {old, new} at every observation; behaviour %s %s", why, jstr(cs.G.H), cs.V)
		} else {
			c.Note("TV rejects the run that GEN reported as a violation: %s", why)
		}
		runs = append(runs[:idx:idx], runs[idx+1:]...)
		runCase = append(runCase[:idx:idx], runCase[idx+1:]...)
		if attempt == 3 {
			validated = 0
			c.Note("TV: more than 3 recorded runs rejected; the remaining runs were not validated")
		}
	}
	c.AddTraces(int64(validated))
	c.Cov("tv_runs", validated)
	c.Cov("tv_events", events)
	c.Cov("tv_rejected", rejected)
	if rejected == 0 && len(runs) > 0 && c.Thorough() {
		// diagnostic: do the temp files also look as the model says?
		n := len(runs)
		if n > 300 {
			n = 300
		}
		if idx, why, err := c18TV(c, runs[:n], true); err == nil && idx >= 0 {
			c.Note("model_disagreement (TV, temp files compared too): %s", why)
			c.Cov("tv_strict_temp", "differs")
		} else if err == nil {
			c.Cov("tv_strict_temp", "agrees")
		}
	}

	if msg := <-selfTest; msg != "" {
		c.Infra(fmt.Errorf("vacuous binding: %s", msg))
		return
	}
	c.Cov("sabotage_rejected", true)
	phase("trace validation and binding self-tests")
}

// c18SelfTest: (a) a recorded run with the rename moved before the last write, (b) one with a
// corrupted listing, (c) one with a corrupted binding count must be rejected by the trace spec;
// (d) a truncated state file must be rejected by the comparer.
func c18SelfTest(c *Ctx, refs *c18Refs, runs [][]map[string]any) string {
	var full []map[string]any
	for _, r := range runs {
		nb, ok := 0, false
		for _, ev := range r {
			if ev["e"] == "hook" && ev["p"] == "save.binding" {
				nb++
			}
			if ev["e"] == "hook" && ev["p"] == "autosave.renamed" {
				ok = true
			}
		}
		if ok && nb >= 2 && r[0]["e"] == "begin" && jstr(r[0]["old"].(c18File).Ls) != jstr(r[0]["new"]) {
			full = r
			break
		}
	}
	if full == nil {
		return "no complete recorded run with two bindings to sabotage"
	}
	clone := func() []map[string]any {
		var res []map[string]any
		b, _ := json.Marshal(full)
		_ = json.Unmarshal(b, &res)
		return res
	}
	find := func(r []map[string]any, p string, last bool) int {
		at := -1
		for i, ev := range r {
			if ev["e"] == "hook" && ev["p"] == p {
				at = i
				if !last {
					break
				}
			}
		}
		return at
	}
	// (the untouched run was accepted as part of the batch)
	// (a) rename before the last write
	a := clone()
	ri, wi := find(a, "autosave.renamed", false), find(a, "save.binding", true)
	ren := a[ri]
	a = append(a[:ri:ri], a[ri+1:]...)
	a = append(a[:wi:wi], append([]map[string]any{ren}, a[wi:]...)...)
	// (b) the state file already holds the new content while bindings are being written
	b := clone()
	b[find(b, "save.binding", false)]["ls"] = b[find(b, "autosave.renamed", false)]["ls"]
	// (c) binding count off by one
	d := clone()
	d[find(d, "save.binding", true)]["n"] = 1
	// (e) the start of the next session promoted a leftover temporary file to the state file
	var e []map[string]any
	for _, r := range runs {
		if len(r) < 3 || r[len(r)-2]["e"] != "boot" {
			continue
		}
		ls, _ := r[len(r)-2]["ls"].(map[string]any)
		t1, ok1 := ls["t1"].(c18File)
		gr, ok2 := ls["gr"].(c18File)
		if ok1 && ok2 && t1.Ex && gr.Ex && len(t1.Ls) > 0 && jstr(t1.Ls) != jstr(gr.Ls) {
			bb, _ := json.Marshal(r)
			_ = json.Unmarshal(bb, &e)
			bl := e[len(e)-2]["ls"].(map[string]any)
			bl["gr"], bl["t1"] = bl["t1"], c18File{Ls: []c18Line{}}
			break
		}
	}
	names := []string{"rename-before-last-write", "state-file-new-during-write", "binding-count", "next-start-promotes-leftover"}
	bads := [][]map[string]any{a, b, d, e}
	if e == nil {
		// a tree that never leaves a written temporary file next to a state file (it cleans up, or writes elsewhere): there is
		// no leftover a start-up could promote, the sabotage has no subject
		c.Note("self-test next-start-promotes-leftover skipped: no recorded run leaves a written temporary file next to a state file")
		names, bads = names[:3], bads[:3]
	}
	msgs := make([]string, len(names))
	var wg sync.WaitGroup
	for i := range names {
		wg.Add(1)
		go func(i int) {
			defer wg.Done()
			idx, _, err := c18TV(c, [][]map[string]any{bads[i]}, false)
			if err != nil {
				msgs[i] = err.Error()
			} else if idx < 0 {
				msgs[i] = "sabotaged run (" + names[i] + ") was accepted by AutoSave_Trace.tla"
			}
		}(i)
	}
	wg.Wait()
	for _, m := range msgs {
		if m != "" {
			return m
		}
	}
	// (d) the comparer
	nw := refs.file[0]["1:1d,2:1l,"]
	if c18Which(true, nw[:len(nw)/2], true, refs.file[0]["1:2d,"], nw) != "neither" || c18Which(true, []byte{}, true, refs.file[0]["1:2d,"], nw) != "neither" ||
		c18Which(false, nil, true, refs.file[0]["1:2d,"], nw) != "neither" {
		return "the comparer accepts a truncated / empty / missing state file"
	}
	return ""
}

func c18Apalache(c *Ctx) {
	if _, err := exec.LookPath("apalache-mc"); err != nil {
		c.Cov("apalache_inductive_invariant", "skipped: apalache-mc not found")
		return
	}
	dir := filepath.Join(c.Scratch(), "apalache")
	_ = os.MkdirAll(dir, 0o755)
	b, err := os.ReadFile(filepath.Join(verifDir, "spec", "AutoSaveInd.tla"))
	if err != nil {
		c.Cov("apalache_inductive_invariant", "skipped: "+err.Error())
		return
	}
	_ = os.WriteFile(filepath.Join(dir, "AutoSaveInd.tla"), b, 0o644)
	run := func(cinit, init string, length int) (string, error) {
		ctx, cancel := context.WithTimeout(context.Background(), 120*time.Second)
		defer cancel()
		cmd := exec.CommandContext(ctx, "apalache-mc", "check", "--cinit="+cinit, "--init="+init, "--inv=IndInv",
			"--length="+strconv.Itoa(length), "--out-dir="+filepath.Join(dir, "out"), "AutoSaveInd.tla")
		cmd.Dir = dir
		out, _ := cmd.CombinedOutput()
		if ctx.Err() != nil {
			return "", fmt.Errorf("timeout")
		}
		switch {
		case bytes.Contains(out, []byte("The outcome is: NoError")):
			return "NoError", nil
		case bytes.Contains(out, []byte("The outcome is: Error")):
			return "Error", nil
		}
		tail := out
		if len(tail) > 300 {
			tail = tail[len(tail)-300:]
		}
		return "", fmt.Errorf("%s", tail)
	}
	type q struct {
		cinit, init string
		length      int
		want        string
	}
	for _, x := range []q{{"CInit", "Init", 0, "NoError"}, {"CInit", "IndInit", 1, "NoError"}, {"CInitDirect", "IndInit", 1, "Error"}} {
		got, err := run(x.cinit, x.init, x.length)
		if err != nil {
			c.Cov("apalache_inductive_invariant", "skipped: apalache-mc did not finish: "+err.Error())
			return
		}
		if got != x.want {
			c.Infra(fmt.Errorf("Apalache: AutoSaveInd %s/%s length %d: outcome %s, expected %s", x.cinit, x.init, x.length, got, x.want))
			return
		}
	}
	c.Cov("apalache_inductive_invariant", "IndInv (=> Atomic, FailedLeavesOld, LoadedOldOrNew) is inductive for any number of bindings L in Nat; not inductive with DirectWrite")
	c.mu.Lock()
	c.tlcCmds = append(c.tlcCmds, "apalache-mc check --cinit=CInit --init=Init --inv=IndInv --length=0 AutoSaveInd.tla", "apalache-mc check --cinit=CInit --init=IndInit --inv=IndInv --length=1 AutoSaveInd.tla",
		"apalache-mc check --cinit=CInitDirect --init=IndInit --inv=IndInv --length=1 AutoSaveInd.tla (expected: Error)")
	c.mu.Unlock()
}

func replayC18(rp map[string]any) (bool, string) {
	line, _ := rp["line"].(string)
	var g c18Gen
	if err := json.Unmarshal([]byte(line), &g); err != nil {
		return false, "bad replay file: " + err.Error()
	}
	var v c18Variant
	b, _ := json.Marshal(rp["variant"])
	_ = json.Unmarshal(b, &v)
	root, err := os.MkdirTemp("", "verif-C18-replay-")
	if err != nil {
		return false, err.Error()
	}
	defer os.RemoveAll(root)
	refs, err := newC18Refs(filepath.Join(root, "refs"), c18Par())
	if err != nil {
		fmt.Fprintln(os.Stderr, "INFRASTRUCTURE:", err)
		os.Exit(2)
	}
	if v.Next != "" {
		refs.bin = filepath.Join(root, "bin", "grol")
		if err := c18BuildGrol(refs.bin); err != nil {
			fmt.Fprintln(os.Stderr, "INFRASTRUCTURE:", err)
			os.Exit(2)
		}
	}
	if v.Sys != "" {
		sub, err := c18RunSys(&g, v, refs, filepath.Join(root, "case"), c18Load, v.SysJ, v.Sys)
		if err != nil || len(sub) != 1 {
			fmt.Fprintln(os.Stderr, "INFRASTRUCTURE:", err, "(the save no longer has that file-system call)")
			os.Exit(2)
		}
		return sub[0].Fail == "", sub[0].Fail
	}
	res := c18RunCase(&g, v, refs, filepath.Join(root, "case"), c18Load)
	if res.Infra != nil {
		fmt.Fprintln(os.Stderr, "INFRASTRUCTURE:", res.Infra)
		os.Exit(2)
	}
	return res.Fail == "", res.Fail
}
