package main

// fmtcheck: the pipeline shared by C02 and C03 - GEN trees (and, family "source", texts) from spec/GrolSyntax.tla,
// sources in three styles, seeded random programs, byte-level mutations of the shipped .gr files, function values;
// each source goes to the printer by the routes of fmtcore.go (ast, repl, modify, line);
// records made on the real code (fmtcore.go) and judged by spec/Format_Trace.tla.

import (
	"bytes"
	"crypto/sha1"
	"encoding/json"
	"fmt"
	"math/rand"
	"os"
	"path/filepath"
	"sort"
	"strings"
	"sync"
	"time"
)

type fmtCase struct {
	Fam    string // origin family
	Name   string // name inside the family
	Style  string // min | parens | ws | as-is
	Src    string
	Exh    bool     // member of an exhaustive (TLC-enumerated) set
	GenOff []string // features switched off in the random generator
	Vias   []string // routes to the printer (nil = the default for the style)
}

type fmtVerdict struct {
	ID       int  `json:"id"`
	ReparseN bool `json:"reparseN"`
	TreeN    bool `json:"treeN"`
	IdemN    bool `json:"idemN"`
	NlN      bool `json:"nlN"`
	ReparseC bool `json:"reparseC"`
	TreeC    bool `json:"treeC"`
	IdemC    bool `json:"idemC"`
}

type fmtItem struct {
	cs  fmtCase
	rec fmtRec
	law int // index of the law-record (records with equal content share one TLC verdict)
}

type fmtRun struct {
	c        *Ctx
	items    []*fmtItem
	lawRecs  []J            // deduplicated law records, id = index
	lawIdx   map[string]int // content hash -> index
	seenSrc  map[string]bool
	rejected map[string]int // family -> sources the parser rejected (outside the quantifier)
	famCount map[string]int
	fidelity map[string]int // family -> rendered source did not parse to the generated tree (diagnostic)
	fidEx    []string
	fnItems  []*fnRec
	fnSeen   map[string]bool
	fnIdem   map[int]bool // FnIdem verdicts of "fn" records by id (filled by validate)
	// function values in a session (fmtsession.go, spec/FormatFnSession.tla)
	sessItems []*fsRec
	sessID    []int // law record id of each item
	sessSab   int   // id of the corrupted record that must be rejected
}

// addFn records the function value a one-statement source defines (Inspect and SaveGlobals texts).
func (fr *fmtRun) addFn(src string) {
	if fr.fnSeen == nil {
		fr.fnSeen = map[string]bool{}
	}
	if fr.fnSeen[src] {
		return
	}
	fr.fnSeen[src] = true
	for _, r := range fnRecords(src) {
		r := r
		fr.fnItems = append(fr.fnItems, &r)
		fr.c.Case("fn:"+r.Via+":"+src, true)
	}
}

// fnLawRecords: one TLC record per distinct CONTENT of the function-value records (the rebuilt-tree route writes, on a
// healthy tree, the text of the plain route: equal content, one verdict - lossless, as for the format records).
func (fr *fmtRun) fnLawRecords(base int) (recs []J, idOf []int) {
	seen := map[string]int{}
	idOf = make([]int, len(fr.fnItems))
	for i, r := range fr.fnItems {
		j := r.lawJSON(0)
		delete(j, "id")
		b, _ := json.Marshal(j)
		id, ok := seen[string(b)]
		if !ok {
			id = base + len(recs)
			seen[string(b)] = id
			j["id"] = id
			recs = append(recs, j)
		}
		idOf[i] = id
	}
	return recs, idOf
}

// addFnStatements: every top-level statement of a program that defines a function.
func (fr *fmtRun) addFnStatements(prog []any) {
	for _, st := range prog {
		j, ok := st.(J)
		if !ok {
			continue
		}
		if fn, _ := findFn(j); fn != nil {
			if src, ok := safeRender([]any{j}); ok {
				fr.addFn(strings.TrimSuffix(strings.TrimSpace(src), ";"))
			}
		}
	}
}

func newFmtRun(c *Ctx) *fmtRun {
	return &fmtRun{c: c, lawIdx: map[string]int{}, seenSrc: map[string]bool{}, rejected: map[string]int{}, famCount: map[string]int{}, fidelity: map[string]int{}}
}

// add runs one source through both paths (ast, repl) and files the records.
func (fr *fmtRun) add(cs fmtCase) (parsed bool) {
	if fr.seenSrc[cs.Src] {
		return true
	}
	fr.seenSrc[cs.Src] = true
	// routes to the printer: "ast" always; the repl path and the rebuilt tree (identity ast.Modify) for the minimal
	// rendering and for texts used as they are; a family can name its own routes
	vias := []string{"ast", "repl", "modify"}
	if cs.Style == "parens" || cs.Style == "ws" {
		vias = vias[:1]
	}
	if cs.Vias != nil {
		vias = cs.Vias
	}
	for vi, via := range vias {
		rec, ok := fmtRecord(cs.Src, via)
		if !ok {
			if vi > 0 {
				continue // the other lexer mode does not accept the text (outside the quantifier for that route)
			}
			fr.rejected[cs.Fam]++
			return false
		}
		lj := rec.lawJSON(0)
		delete(lj, "id")
		b, _ := json.Marshal(lj)
		h := sha1.Sum(b)
		key := string(h[:])
		idx, ok := fr.lawIdx[key]
		if !ok {
			idx = len(fr.lawRecs)
			lj["id"] = idx
			lj["ty"] = "fmt"
			fr.lawRecs = append(fr.lawRecs, lj)
			fr.lawIdx[key] = idx
		}
		fr.items = append(fr.items, &fmtItem{cs: cs, rec: rec, law: idx})
		fr.c.Case(via+":"+cs.Src, len(rec.D0) > 60)
	}
	fr.famCount[cs.Fam]++
	return true
}

// ---------------------------------------------------------------------------------- GEN

type genLine struct {
	Fam  string          `json:"fam"`
	Name json.RawMessage `json:"name"`
	T    []any           `json:"t"`
	Src  *string         `json:"src"` // source-level families: a text, not a tree
	// prec line
	Prec   map[string]int    `json:"prec"`
	Assoc  map[string]string `json:"assoc"`
	Lowest int               `json:"lowest"`
	Lambda int               `json:"lambda"`
	Prefix int               `json:"prefix"`
	Call   int               `json:"call"`
	Index  int               `json:"index"`
	Dot    int               `json:"dot"`
	Atom   int               `json:"atom"`
}

func fmtGenCfg(thorough bool) string {
	t := "FALSE"
	if thorough {
		t = "TRUE"
	}
	return `CONSTANTS
 Families = {"prec","oppair","signs","depth3","stmtpair","stmt","comment","string","literal","func","fnbody","spine","sibling","spinefn","cmtfirst","dotnum","mlcomment","source","maps"}
 Thorough = ` + t + "\nINIT Init\nNEXT Next\n"
}

// checkPrecTable: the operator table of the spec must equal the one gen.go renders with.
func checkPrecTable(g genLine) error {
	if len(g.Prec) != len(prec) {
		return fmt.Errorf("GrolSyntax!Prec has %d operators, gen.go prec has %d", len(g.Prec), len(prec))
	}
	for op, p := range prec {
		if g.Prec[op] != p {
			return fmt.Errorf("GrolSyntax!Prec[%q] = %d, gen.go prec = %d", op, g.Prec[op], p)
		}
		want := "left"
		if op == "=>" {
			want = "right"
		}
		if g.Assoc[op] != want {
			return fmt.Errorf("GrolSyntax!Assoc[%q] = %q", op, g.Assoc[op])
		}
	}
	if g.Lowest != precLowest || g.Lambda != precLambda || g.Prefix != precPrefix || g.Call != precCall || g.Index != precIndex || g.Dot != precDot || g.Atom != precAtom {
		return fmt.Errorf("GrolSyntax precedence constants differ from gen.go")
	}
	return nil
}

// genTrees runs the TLC generator and renders every emitted tree in the three styles.
func (fr *fmtRun) genTrees() error { return fr.genStart()() }

// genStart starts the TLC generator (an external process) and returns the function that waits for it and makes the
// records; what does not depend on the generated trees (pinned, random, shipped sources) can be recorded meanwhile.
func (fr *fmtRun) genStart() func() error {
	c := fr.c
	tTLC := time.Now()
	type res struct {
		r   *TLCResult
		err error
	}
	ch := make(chan res, 1)
	go func() {
		r, err := c.TLC(TLCOpt{Spec: "GrolSyntax", Cfg: fmtGenCfg(c.Thorough()), Workers: 4})
		ch <- res{r, err}
	}()
	return func() error {
		x := <-ch
		if x.err != nil {
			return x.err
		}
		return fr.genRecords(x.r, tTLC)
	}
}

func (fr *fmtRun) genRecords(r *TLCResult, tTLC time.Time) error {
	c := fr.c
	var err error
	precSeen := false
	treesByFam := map[string]int{}
	nTrees := 0
	selfCheck := 0
	famTime := map[string]time.Duration{}
	tGen := time.Now()
	err = ReadLines(r.Emitted, func(line []byte) error {
		var g genLine
		if err := json.Unmarshal(line, &g); err != nil {
			return fmt.Errorf("GEN line: %w", err)
		}
		t0 := time.Now()
		defer func() { famTime[g.Fam] += time.Since(t0) }()
		if g.Fam == "prec" {
			precSeen = true
			return checkPrecTable(g)
		}
		nTrees++
		treesByFam[g.Fam]++
		name := string(g.Name)
		if g.Src != nil {
			// a TEXT: whatever the real parser makes of it - in the whole-file lexer mode, in the REPL's line mode, and
			// rebuilt by ast.Modify - is under the laws; a text it rejects is outside the quantifier
			if fr.add(fmtCase{Fam: g.Fam, Name: name, Style: "as-is", Src: *g.Src, Exh: true, Vias: []string{"ast", "line", "modify"}}) &&
				(strings.HasPrefix(*g.Src, "func g(x) {") || strings.HasPrefix(*g.Src, "f = x => {")) {
				fr.addFn(*g.Src) // the text defines a function: its value is printed by Inspect / SaveGlobals too
			}
			return nil
		}
		comparable := fmtNormTree(g.T)
		rng := rand.New(rand.NewSource(c.Seed*1000003 + int64(nTrees)))
		min, beyond := fmtRenderProgram(g.T, fsMin, nil)
		par, beyondP := fmtRenderProgram(g.T, fsParens, nil)
		if !beyond {
			// binding of the renderer to gen.go: same text as renderProgram / renderNode(styleParens)
			selfCheck++
			if want := renderProgram(g.T); want != min {
				return fmt.Errorf("fmtrender(min) differs from gen.go renderProgram on %s %s: %q vs %q", g.Fam, name, min, want)
			}
		}
		if !beyond && !beyondP {
			var sb strings.Builder
			for _, s := range g.T {
				sb.WriteString(renderNode(s.(J), 0, styleParens) + ";\n")
			}
			if sb.String() != par {
				return fmt.Errorf("fmtrender(parens) differs from gen.go renderNode(styleParens) on %s %s: %q vs %q", g.Fam, name, par, sb.String())
			}
		}
		ws, _ := fmtRenderProgram(g.T, fsWS, rng)
		if g.Fam == "func" || g.Fam == "stmt" || g.Fam == "fnbody" || g.Fam == "spinefn" || g.Fam == "cmtfirst" || g.Fam == "dotnum" || g.Fam == "maps" {
			fr.addFnStatements(g.T)
		}
		want := ""
		if comparable {
			want = canonDump(g.T)
		}
		styles := []struct{ st, src string }{{"min", min}, {"parens", par}, {"ws", ws}}
		if g.Fam == "fnbody" || g.Fam == "spinefn" {
			styles = styles[:1] // this family is about the function-VALUE printer; the source printer gets the minimal text only
		}
		for _, v := range styles {
			dup := fr.seenSrc[v.src]
			ok := fr.add(fmtCase{Fam: g.Fam, Name: name, Style: v.st, Src: v.src, Exh: true})
			if dup {
				continue
			}
			if !ok {
				// a generated tree must be expressible: a rejected rendering is a defect of the renderer
				_, _, msg := fmtParse(v.src)
				return fmt.Errorf("rendering (%s) of generated tree %s %s is rejected by the parser: %q: %s", v.st, g.Fam, name, v.src, msg)
			}
			if comparable {
				it := fr.items[len(fr.items)-1]
				if canonDump(it.rec.TF) != want {
					fr.fidelity[g.Fam]++
					if len(fr.fidEx) < 12 {
						fr.fidEx = append(fr.fidEx, fmt.Sprintf("%s %s (%s): %q", g.Fam, name, v.st, v.src))
					}
				}
			}
		}
		return nil
	})
	if err != nil {
		return err
	}
	if os.Getenv("VERIF_FMT_DUMP") != "" {
		fmt.Printf("TIME GEN TLC %.1fs, records %.1fs:", tGen.Sub(tTLC).Seconds(), time.Since(tGen).Seconds())
		for f, d := range famTime {
			fmt.Printf(" %s=%.1f", f, d.Seconds())
		}
		fmt.Println()
	}
	if !precSeen {
		return fmt.Errorf("GrolSyntax did not emit its operator table")
	}
	if nTrees == 0 {
		return fmt.Errorf("GrolSyntax GEN emitted no tree")
	}
	c.Cov("gen_trees", nTrees)
	c.Cov("gen_trees_by_family", treesByFam)
	c.Cov("renderer_selfcheck_against_gen_go", selfCheck)
	c.AddTraces(int64(nTrees))
	return nil
}

// ---------------------------------------------------------------------------------- pinned reproducers

// fmtPinned: the minimal reproducer of every listed finding; always run, attributed like any other case.
var fmtPinned = []string{
	"a - (b - c)", "a == (b == c)", "a = (b = c)", "a + (b + c)", "a ^ ((b - c) ^ d)", "a | ((b + c) | d)",
	"a - -b", "a + +b", "a - --b",
	"x = \"\\x07\\x08\\x0b\\x0c\"",
	"a + (x => x)", "-(x => x)",
	"(a + b)(1)", "(-a)(1)",
	"{(a || b): 1}", "{1: (a && b)}",
	"(1).key",
	"a[1:]", "[1:] + b",
	"a; -b", "a; ++b", "f(a); ^b",
	"a; b", "1; a", "return a; b",
	"a; (b + c) * d", "a; [1, 2][0]",
	"// c\n-a", "1 + // c\n2",
	"// a\n;// b\n",
	"a ^ (((b - c) ^ d) ^ e)", "a * (((b % c) * d) * e)", // seed C02/4: the whole left spine of the right operand counts
	"x = a - -9223372036854775808", "f(a - -0x8000000000000000)", "i-- - -9223372036854775808", // seed C03/6: an int token that starts with a sign
	"- -9223372036854775808",                                      // fmt-prefix-minus-before-min-int-literal-printed-as-decrement
	"a.(b + c)", "m.(1 + 2)", "a.(f(1))", "a.(b.c)", "a.(x => x)", // fmt-dot-index-expression-loses-parens
	"if a { b /* c */ } else { d }", "f(func(){ a /* c */ }, func() { b })", // fmt-block-first-statement-placed-by-last-comment-of-previous-block
}

var fnPinned = []string{"f = x => {return x}", "f = x => {y = x}", "f = x => {x && y}", "f = func(a) {}", "f = x => {(y => y)(x)}"}

func (fr *fmtRun) pinned() {
	for i, src := range fmtPinned {
		fr.add(fmtCase{Fam: "pinned", Name: fmt.Sprint(i), Style: "as-is", Src: src, Exh: true})
	}
	for _, src := range fnPinned {
		fr.addFn(src)
	}
}

// ---------------------------------------------------------------------------------- random deep programs

func (fr *fmtRun) randomPrograms(n int) {
	c := fr.c
	off := genOffFromLedger(c)
	c.Cov("excluded_features", featureKey(off))
	for i := 0; i < n; i++ {
		g := NewGen(rand.New(rand.NewSource(c.Seed*9000011 + int64(i))))
		for f := range off {
			g.Off[f] = true
		}
		g.maxDepth = 3 + i%3
		prog := g.Program(3 + g.pick(10))
		fr.addFnStatements(prog)
		rng := rand.New(rand.NewSource(c.Seed*77 + int64(i)))
		var src string
		style := []string{"min", "parens", "ws"}[i%3]
		switch i % 3 {
		case 0:
			src = renderProgram(prog)
		case 1:
			src, _ = fmtRenderProgram(prog, fsParens, nil)
		default:
			src, _ = fmtRenderProgram(prog, fsWS, rng)
		}
		if !fr.add(fmtCase{Fam: "random", Name: fmt.Sprint(i), Style: style, Src: src, GenOff: featureKey(off)}) {
			_, _, msg := fmtParse(src)
			c.Infra(fmt.Errorf("random program %d (%s) is rejected by the parser: %s\n%s", i, style, msg, src))
			return
		}
	}
}

// ---------------------------------------------------------------------------------- mutations of shipped programs

func grFiles() ([]string, error) {
	var files []string
	for _, d := range []string{"examples", "tests"} {
		m, err := filepath.Glob(filepath.Join(repoDir(), d, "*.gr"))
		if err != nil {
			return nil, err
		}
		files = append(files, m...)
	}
	sort.Strings(files)
	return files, nil
}

// repoDir: the grol tree the harness was built against (VERIF_REPO for scratch copies).

var mutTokens = []string{"-", "+", "--", "++", "(", ")", "[", "]", "{", "}", ";", " ", "\n", "!", "=>", "=", "==", ":", ",", ".", "\"", "//", "/*", "*/", "1", "a", "if ", "else ", "func", "return ", "\\", "\x07", "*", "/", "&&", "||", "<", "^", "~", "0x", "e", "_"}

func mutate(rng *rand.Rand, s string) string {
	b := []byte(s)
	for k := 1 + rng.Intn(3); k > 0 && len(b) > 0; k-- {
		pos := rng.Intn(len(b))
		switch rng.Intn(6) {
		case 0: // delete a byte
			b = append(b[:pos:pos], b[pos+1:]...)
		case 1: // replace by a random printable / special byte
			b[pos] = byte(rng.Intn(256))
		case 2, 3: // insert a token
			t := mutTokens[rng.Intn(len(mutTokens))]
			b = append(b[:pos:pos], append([]byte(t), b[pos:]...)...)
		case 4: // duplicate a span
			end := min(len(b), pos+1+rng.Intn(12))
			span := append([]byte{}, b[pos:end]...)
			b = append(b[:end:end], append(span, b[end:]...)...)
		default: // swap two adjacent bytes
			if pos+1 < len(b) {
				b[pos], b[pos+1] = b[pos+1], b[pos]
			}
		}
	}
	return string(b)
}

// chunks cuts a file into top-level pieces that parse on their own (statement groups), so mutations stay local.
func chunks(src string) []string {
	lines := strings.SplitAfter(src, "\n")
	var res []string
	var cur strings.Builder
	for _, ln := range lines {
		cur.WriteString(ln)
		if strings.TrimSpace(ln) == "" || strings.HasPrefix(ln, "}") {
			if _, ok, _ := fmtParse(cur.String()); ok && strings.TrimSpace(cur.String()) != "" {
				res = append(res, cur.String())
				cur.Reset()
			}
		}
	}
	if strings.TrimSpace(cur.String()) != "" {
		res = append(res, cur.String())
	}
	return res
}

func (fr *fmtRun) shippedAndMutations(nMut int) error {
	c := fr.c
	files, err := grFiles()
	if err != nil || len(files) == 0 {
		return fmt.Errorf("no .gr files under %s: %v", repoDir(), err)
	}
	var pieces []string
	for _, f := range files {
		b, err := os.ReadFile(f)
		if err != nil {
			return err
		}
		src := string(b)
		fr.add(fmtCase{Fam: "shipped", Name: filepath.Base(f), Style: "as-is", Src: src})
		for _, ch := range chunks(src) {
			if len(ch) < 1500 {
				pieces = append(pieces, ch)
				fr.add(fmtCase{Fam: "shipped-chunk", Name: filepath.Base(f), Style: "as-is", Src: ch})
			}
		}
	}
	c.Cov("shipped_files", len(files))
	tried, kept := 0, 0
	for kept < nMut && tried < nMut*40 {
		tried++
		p := pieces[c.Rng.Intn(len(pieces))]
		m := mutate(c.Rng, p)
		if m == p || fr.seenSrc[m] {
			continue
		}
		if fr.add(fmtCase{Fam: "mutation", Name: fmt.Sprint(tried), Style: "as-is", Src: m}) {
			kept++
		}
	}
	c.Cov("mutations_tried", tried)
	c.Cov("mutations_still_parsing", kept)
	return nil
}

// ---------------------------------------------------------------------------------- validation by TLC

func (fr *fmtRun) validate(extra []J) (map[int]fmtVerdict, map[int]bool, error) {
	c := fr.c
	recs := append(append([]J{}, fr.lawRecs...), extra...)
	shards := c.Pick(4, 10)
	if len(recs) < 200 {
		shards = 1
	}
	bufs := make([]bytes.Buffer, shards)
	counts := make([]int, shards)
	for i, r := range recs {
		enc := json.NewEncoder(&bufs[i%shards])
		enc.SetEscapeHTML(false)
		if err := enc.Encode(r); err != nil {
			return nil, nil, err
		}
		counts[i%shards]++
	}
	res := map[int]fmtVerdict{}
	fr.fnIdem = map[int]bool{}
	sess := map[int]bool{} // verdicts of "sess" and "fn" records by id
	var mu sync.Mutex
	var wg sync.WaitGroup
	var firstErr error
	for sh := 0; sh < shards; sh++ {
		if counts[sh] == 0 {
			continue
		}
		wg.Add(1)
		go func(sh int) {
			defer wg.Done()
			r, err := c.TLC(TLCOpt{Spec: "Format_Trace", Cfg: "INIT Init\nNEXT Next\n", Workers: 1, Heap: "3g",
				Files: map[string][]byte{"format_trace.ndjson": bufs[sh].Bytes()}})
			mu.Lock()
			defer mu.Unlock()
			if err != nil {
				if firstErr == nil {
					firstErr = err
				}
				return
			}
			got := 0
			err = ReadLines(r.Emitted, func(line []byte) error {
				if bytes.Contains(line, []byte(`"same"`)) || bytes.Contains(line, []byte(`"fn"`)) {
					var v struct {
						ID     int  `json:"id"`
						Same   bool `json:"same"`
						Fn     bool `json:"fn"`
						FnIdem bool `json:"fnidem"`
					}
					if err := json.Unmarshal(line, &v); err != nil {
						return err
					}
					sess[v.ID] = v.Same || v.Fn
					if bytes.Contains(line, []byte(`"fnidem"`)) {
						fr.fnIdem[v.ID] = v.FnIdem
					}
				} else {
					var v fmtVerdict
					if err := json.Unmarshal(line, &v); err != nil {
						return err
					}
					res[v.ID] = v
				}
				got++
				return nil
			})
			if err == nil && got != counts[sh] {
				err = fmt.Errorf("Format_Trace emitted %d verdicts for %d records", got, counts[sh])
			}
			if err != nil && firstErr == nil {
				firstErr = err
			}
		}(sh)
	}
	wg.Wait()
	return res, sess, firstErr
}
