package main

// C19, the tight-memory world (Constants.tla, mem = "tight"): the constant holds a huge array and the memory budget
// (debug.SetMemoryLimit, what grol's object.FreeMemory is computed from) left once it is bound is smaller than a second copy
// of it. The limit is a property of the process, so these sessions run in child processes (worker c19mem): per session a
// fresh state, the binding input, runtime.GC, limit = heap in use + slack, then the attempts and the observations (which
// read a few elements and the length), registers on and then off, and the limit is lifted again.

import (
	"encoding/json"
	"fmt"
	"math"
	"os"
	"os/exec"
	"path/filepath"
	"runtime"
	"runtime/debug"
	"strings"
	"sync"

	"grol.io/grol/extensions"
)

func init() { workers["c19mem"] = c19MemWorker }

type c19MemCase struct {
	Last   string   `json:"last"`
	Kind   string   `json:"kind"`
	Inputs []string `json:"inputs"`
	Slack  int64    `json:"slack"`
	On     []inObs  `json:"on,omitempty"`
	Off    []inObs  `json:"off,omitempty"`
}

// c19MemSlack: a quarter of what a copy of the constant's elements takes (16 bytes per element, 32 per pair).
func c19MemSlack(ck constKind) int64 {
	switch ck.name {
	case "arr-huge-mixed":
		return 24000 * 16 / 4
	case "huge-map":
		return 4000 * 32 / 4
	}
	return 300000 * 16 / 4
}

func c19MemSession(inputs []string, slack int64, noReg bool) []inObs {
	opt := RunOpt{NoReg: noReg}
	s, buf := newState(opt)
	var res []inObs
	defer debug.SetMemoryLimit(math.MaxInt64)
	for i, in := range inputs {
		r := replOne(s, buf, in, opt, false)
		o := inObs{Out: r.Out, Err: len(r.Errs) > 0 || r.Panicked}
		if len(r.Errs) > 0 {
			o.Val = errHead(r.Errs[0])
		}
		res = append(res, o)
		if i == 0 { // the constant is bound: from here on there is no room for a second copy of it
			buf.Reset()
			runtime.GC()
			var ms runtime.MemStats
			runtime.ReadMemStats(&ms)
			debug.SetMemoryLimit(int64(ms.HeapAlloc) + slack) //nolint:gosec // a heap size
		}
	}
	return res
}

func c19MemWorker(args []string) {
	b, err := os.ReadFile(args[0])
	if err != nil {
		fmt.Fprintln(os.Stderr, err)
		os.Exit(2)
	}
	var cases []c19MemCase
	if err := json.Unmarshal(b, &cases); err != nil {
		fmt.Fprintln(os.Stderr, err)
		os.Exit(2)
	}
	if err := extensions.Init(nil); err != nil {
		fmt.Fprintln(os.Stderr, "extensions.Init:", err)
		os.Exit(2)
	}
	for i := range cases {
		cases[i].On = c19MemSession(cases[i].Inputs, cases[i].Slack, false)
		cases[i].Off = c19MemSession(cases[i].Inputs, cases[i].Slack, true)
	}
	out, _ := json.Marshal(cases)
	if err := os.WriteFile(args[1], out, 0o644); err != nil {
		fmt.Fprintln(os.Stderr, err)
		os.Exit(2)
	}
}

// c19MemRun runs the cases in child processes (round-robin shards, in parallel) and fills in their observations.
func c19MemRun(scratch string, cases []c19MemCase) error {
	if len(cases) == 0 {
		return nil
	}
	const shards = 4
	exe, err := os.Executable()
	if err != nil {
		return err
	}
	errs := make([]error, shards)
	var wg sync.WaitGroup
	for sh := 0; sh < shards; sh++ {
		wg.Add(1)
		go func(sh int) {
			defer wg.Done()
			var idx []int
			var part []c19MemCase
			for i := sh; i < len(cases); i += shards {
				idx = append(idx, i)
				part = append(part, cases[i])
			}
			if len(part) == 0 {
				return
			}
			dir := filepath.Join(scratch, fmt.Sprintf("c19mem-%d-%d", len(cases), sh))
			_ = os.MkdirAll(dir, 0o755)
			job, res := filepath.Join(dir, "job.json"), filepath.Join(dir, "result.json")
			b, _ := json.Marshal(part)
			if err := os.WriteFile(job, b, 0o644); err != nil {
				errs[sh] = err
				return
			}
			cmd := exec.Command(exe, "worker", "c19mem", job, res)
			cmd.Dir = dir
			var env []string
			for _, e := range os.Environ() {
				if strings.HasPrefix(e, "GOMEMLIMIT=") || strings.HasPrefix(e, "GOGC=") || strings.HasPrefix(e, "GOMAXPROCS=") || strings.HasPrefix(e, "VERIF_CURRENT=") {
					continue
				}
				env = append(env, e)
			}
			cmd.Env = append(env, "GOMAXPROCS=2")
			tw := &tailWriter{}
			cmd.Stderr = tw
			if err := cmd.Run(); err != nil {
				errs[sh] = fmt.Errorf("c19mem child: %v: %s", err, string(tw.buf))
				return
			}
			rb, err := os.ReadFile(res)
			if err != nil {
				errs[sh] = err
				return
			}
			var got []c19MemCase
			if err := json.Unmarshal(rb, &got); err != nil || len(got) != len(part) {
				errs[sh] = fmt.Errorf("c19mem child: result unreadable (%v, %d of %d cases)", err, len(got), len(part))
				return
			}
			for k, i := range idx {
				cases[i].On, cases[i].Off = got[k].On, got[k].Off
			}
		}(sh)
	}
	wg.Wait()
	for _, e := range errs {
		if e != nil {
			return e
		}
	}
	return nil
}

func c19MemJudge(c *Ctx, cases []c19MemCase) {
	for _, cs := range cases {
		c.Case("tight-memory:"+cs.Kind+"\n"+strings.Join(cs.Inputs, "\n"), true)
		if len(cs.On) != len(cs.Inputs) || len(cs.Off) != len(cs.Inputs) {
			c.Infra(fmt.Errorf("c19mem: %d / %d observations for %d inputs", len(cs.On), len(cs.Off), len(cs.Inputs)))
			return
		}
		if msg := c19Judge(cs.Inputs, cs.On, cs.Off); msg != "" {
			c.Fail("constant-changed-under-memory-limit:"+cs.Last+":"+cs.Kind, msg, map[string]any{"check": "mem", "inputs": cs.Inputs, "slack": cs.Slack})
		} else {
			c.AddTraces(1)
		}
	}
	c.Cov("tight_memory_sessions", len(cases))
}
