package main

// astj: the JSON forms shared with the TLA+ specification (DESIGN.md appendix D):
// programs / AST nodes (dumpNode), values (objJSON) and canonical structural dumps.

import (
	"fmt"
	"math"
	"strconv"
	"strings"

	"grol.io/grol/ast"
	"grol.io/grol/object"
	"grol.io/grol/token"
)

type J = map[string]any

// latin1 carries a byte string as a string of code points 0..255 (one char per byte), the
// representation of grol strings in the spec.
func latin1(s string) string {
	ascii := true
	for i := 0; i < len(s); i++ {
		if s[i] >= 0x80 {
			ascii = false
			break
		}
	}
	if ascii {
		return s
	}
	r := make([]rune, len(s))
	for i := 0; i < len(s); i++ {
		r[i] = rune(s[i])
	}
	return string(r)
}

func unlatin1(s string) string {
	b := make([]byte, 0, len(s))
	for _, r := range s {
		b = append(b, byte(r))
	}
	return string(b)
}

func floatBits(f float64) string {
	if math.IsNaN(f) {
		return "7ff8000000000001"
	}
	return fmt.Sprintf("%016x", math.Float64bits(f))
}

var none = J{"k": "none"}

func dumpStmts(s *ast.Statements) []any {
	res := []any{}
	if s == nil {
		return res
	}
	for _, st := range s.Statements {
		res = append(res, dumpNode(st))
	}
	return res
}

func dumpList(ns []ast.Node) []any {
	res := []any{}
	for _, n := range ns {
		res = append(res, dumpNode(n))
	}
	return res
}

func isNilNode(n ast.Node) bool {
	if n == nil {
		return true
	}
	switch v := n.(type) {
	case *ast.Statements:
		return v == nil
	case *ast.Identifier:
		return v == nil
	case *ast.InfixExpression:
		return v == nil
	case *ast.FunctionLiteral:
		return v == nil
	}
	return false
}

func funcCacheKey(fl *ast.FunctionLiteral) string {
	fn := object.Function{Parameters: fl.Parameters, Name: fl.Name, Body: fl.Body, Variadic: fl.Variadic, Lambda: fl.IsLambda}
	if !fn.Lambda && fn.Name == nil {
		fn.Lambda = true
	}
	return object.SetCacheKey(&fn)
}

// dumpNode renders an AST node in the spec's JSON form. Every kind always carries the same keys.
func dumpNode(n ast.Node) J {
	if isNilNode(n) {
		return none
	}
	switch v := n.(type) {
	case *ast.Statements:
		return J{"k": "block", "s": dumpStmts(v)}
	case *ast.Identifier:
		return J{"k": "id", "n": v.Literal()}
	case *ast.IntegerLiteral:
		return J{"k": "int", "v": strconv.FormatInt(v.Val, 10)}
	case ast.IntegerLiteral:
		return J{"k": "int", "v": strconv.FormatInt(v.Val, 10)}
	case *ast.FloatLiteral:
		return J{"k": "float", "v": floatBits(v.Val)}
	case *ast.Boolean:
		return J{"k": "bool", "v": v.Val}
	case ast.Boolean:
		return J{"k": "bool", "v": v.Val}
	case *ast.StringLiteral:
		return J{"k": "str", "v": latin1(v.Literal())}
	case *ast.Comment:
		return J{"k": "cmt", "text": latin1(v.Literal()), "sp": v.SameLineAsPrevious, "sn": v.SameLineAsNext}
	case *ast.ControlExpression:
		if v.Type() == token.BREAK {
			return J{"k": "brk"}
		}
		return J{"k": "cnt"}
	case *ast.ReturnStatement:
		return J{"k": "ret", "e": dumpNode(v.ReturnValue)}
	case *ast.PrefixExpression:
		return J{"k": "pre", "op": v.Literal(), "r": dumpNode(v.Right)}
	case *ast.PostfixExpression:
		return J{"k": "post", "op": v.Literal(), "n": v.Prev.Literal()}
	case *ast.InfixExpression:
		if v.Type() == token.ASSIGN || v.Type() == token.DEFINE {
			return J{"k": "asg", "def": v.Type() == token.DEFINE, "l": dumpNode(v.Left), "r": dumpNode(v.Right)}
		}
		return J{"k": "inf", "op": v.Literal(), "l": dumpNode(v.Left), "r": dumpNode(v.Right)}
	case *ast.IfExpression:
		return J{"k": "if", "c": dumpNode(v.Condition), "t": dumpStmts(v.Consequence), "he": v.Alternative != nil, "e": dumpStmts(v.Alternative)}
	case *ast.ForExpression:
		return J{"k": "for", "c": dumpNode(v.Condition), "body": dumpStmts(v.Body)}
	case *ast.FunctionLiteral:
		name := ""
		if v.Name != nil {
			name = v.Name.Literal()
		}
		ps := []any{}
		for _, p := range v.Parameters {
			ps = append(ps, p.Value().Literal())
		}
		return J{"k": "fn", "name": name, "ps": ps, "variadic": v.Variadic, "lambda": v.IsLambda, "body": dumpStmts(v.Body), "ck": latin1(funcCacheKey(v))}
	case *ast.CallExpression:
		return J{"k": "call", "f": dumpNode(v.Function), "a": dumpList(v.Arguments)}
	case *ast.ArrayLiteral:
		return J{"k": "arr", "e": dumpList(v.Elements)}
	case *ast.MapLiteral:
		ps := []any{}
		for _, k := range v.Order {
			ps = append(ps, []any{dumpNode(k), dumpNode(v.Pairs[k])})
		}
		return J{"k": "map", "p": ps}
	case *ast.IndexExpression:
		if v.Type() == token.DOT {
			kt := v.Index.Value().Type()
			if kt != token.STRING && kt != token.IDENT {
				return J{"k": "dotbad", "l": dumpNode(v.Left), "i": dumpNode(v.Index)}
			}
			return J{"k": "dot", "l": dumpNode(v.Left), "n": latin1(v.Index.Value().Literal())}
		}
		return J{"k": "idx", "l": dumpNode(v.Left), "i": dumpNode(v.Index)}
	case *ast.Builtin:
		return J{"k": "bi", "n": v.Literal(), "a": dumpList(v.Parameters)}
	case *ast.MacroLiteral:
		ps := []any{}
		for _, p := range v.Parameters {
			ps = append(ps, p.Value().Literal())
		}
		return J{"k": "mac", "ps": ps, "body": dumpStmts(v.Body)}
	default:
		return J{"k": "unknown", "go": fmt.Sprintf("%T", n)}
	}
}

// objJSON renders a runtime value in the spec's observation form.
func objJSON(o object.Object) J {
	o = object.Value(o)
	switch v := o.(type) {
	case object.Integer:
		return J{"t": "int", "v": strconv.FormatInt(v.Value, 10)}
	case object.Float:
		return J{"t": "float", "v": floatBits(v.Value)}
	case object.Boolean:
		return J{"t": "bool", "v": v.Value}
	case object.Null:
		return J{"t": "nil"}
	case object.String:
		return J{"t": "str", "v": latin1(v.Value)}
	case object.Error:
		return J{"t": "err"}
	case object.Function:
		return J{"t": "func", "ck": latin1(v.CacheKey)}
	case object.Map:
		ps := []any{}
		for _, k := range object.Elements(v) {
			val, _ := v.Get(k)
			ps = append(ps, []any{objJSON(k), objJSON(val)})
		}
		return J{"t": "map", "p": ps}
	}
	if o.Type() == object.ARRAY {
		es := []any{}
		for _, e := range object.Elements(o) {
			es = append(es, objJSON(e))
		}
		return J{"t": "arr", "e": es}
	}
	return J{"t": "other", "go": strings.ToLower(o.Type().String())}
}

// containsKind reports whether a dumped tree contains a node of one of the kinds.
func containsKind(n any, kinds map[string]bool) bool {
	switch v := n.(type) {
	case J:
		if k, ok := v["k"].(string); ok && kinds[k] {
			return true
		}
		for _, c := range v {
			if containsKind(c, kinds) {
				return true
			}
		}
	case []any:
		for _, c := range v {
			if containsKind(c, kinds) {
				return true
			}
		}
	}
	return false
}
