package main

// Sessions with inputs that FAIL inside a call (C19, C06; added after seeding round 6).
//
// A session is one eval.State fed through repl.EvalOne. An input can fail inside a function call in four ways - its
// deadline expires (Options.MaxDuration), its context is cancelled (^C in the REPL: here by the harness extension vcancel(x),
// which cancels the running input's context and returns x), the depth limit is hit (a panic, recovered by EvalOne, which
// resets the state), an ordinary error - and in three places: inside a function the session defined (its frame ends at the
// session's globals), inside one of the library's own grol-written functions (keys, log2, printf, abs, str: created at
// extensions.Init, their frames hang off another root environment) and inside a library function called from a function of
// the session. Whatever the failure, the inputs that follow are evaluated in the session's global scope again.
//
// failInput writes such an input; runFailHistory runs a session in which the marked inputs get their limit (1 ms deadline /
// depth 12) and every other input the ordinary ones.
//
// Deadlines are the slow and imprecise way (a timer: 1 ms becomes 2 .. 20 ms on a loaded machine, during which the call
// must still be running: keys() of a 600 pair map, ~30 ms); cancellation fails at an exact point at no cost.

import (
	"context"
	"fmt"
	"strings"
	"sync"
	"time"

	"grol.io/grol/eval"
	"grol.io/grol/object"
	"grol.io/grol/repl"
)

const (
	failMark      = "/* fails */"
	failDepthMark = "/* depth limit */"
	failShort     = time.Millisecond
	failDepth     = 12
	failBigN = 1500
	failSmallMap  = "{1:1,2:2,3:3,4:4,5:5,6:6,7:7,8:8}"
)

var failHows = []string{"deadline", "cancel", "depth", "error"}
var failWheres = []string{"user", "lib", "lib-in-user"}

var failExtOnce sync.Once

// registerFailExtensions: vcancel(x) cancels the context of the input being evaluated (what ^C does) and returns x.
func registerFailExtensions() {
	failExtOnce.Do(func() {
		err := object.CreateFunction(object.Extension{Name: "vcancel", MinArgs: 1, MaxArgs: 1, DontCache: true, ArgTypes: []object.Type{object.ANY},
			Callback: func(st any, _ string, args []object.Object) object.Object {
				if s, ok := st.(*eval.State); ok && s.Cancel != nil {
					s.Cancel()
				}
				return object.Value(args[0])
			}})
		if err != nil {
			panic("harness: vcancel: " + err.Error())
		}
	})
}

// failPrelude binds bigm, the map on which the library's keys() runs for long (needed by a deadline inside the library).
func failPrelude() string {
	var ps []string
	for i := 0; i < failBigN; i++ {
		ps = append(ps, fmt.Sprintf("%d:%d", i, i))
	}
	return "bigm = {" + strings.Join(ps, ",") + "}"
}

// failNeedsPrelude: does any of the inputs use bigm.
func failNeedsPrelude(inputs []string) bool {
	for _, in := range inputs {
		if strings.Contains(in, "(bigm)") {
			return true
		}
	}
	return false
}

// failInput is an input that fails `how` inside `where`. pre is run by the failing call before it fails (statements over the
// parameters `params` of the session's function, given `args`): what the call did to its own bindings must stay its own.
// sel varies the library function. For where = "lib" there is no function of the session (pre is not run).
func failInput(how, where string, params, args, pre string, sel int) string {
	if pre != "" {
		pre += "; "
	}
	var body, mark string
	switch how {
	case "deadline":
		mark = " " + c10ShortMark
		body = "for true {}"
		if where != "user" {
			body = "len(keys(bigm))"
		}
	case "cancel":
		// (the argument is evaluated by the caller: the library function is entered with its input already cancelled)
		body = "vcancel(0); for true {}"
		if where != "user" {
			body = []string{"keys(vcancel(" + failSmallMap + "))", "log2(vcancel(8))", `printf(vcancel("%d\n"), 1)`, "abs(vcancel(-1))", "str(vcancel(1))"}[sel%5]
		}
	case "depth":
		mark = " " + failDepthMark
		body = "self(" + params + ")" // (every level runs pre on its own parameters)
		if where != "user" {
			body = "len(keys(" + failSmallMap + "))"
		}
	default:
		body = `1 + "x"`
		if where != "user" {
			body = []string{"keys(5)", `log2("a")`, "printf(5)"}[sel%3]
		}
	}
	src := body
	if where != "lib" {
		src = fmt.Sprintf("func(%s) {%s%s}(%s)", params, pre, body, args)
	}
	return src + " " + failMark + mark
}

func isFailInput(in string) bool { return strings.Contains(in, failMark) }

func hasFailInput(inputs []string) bool {
	for _, in := range inputs {
		if isFailInput(in) {
			return true
		}
	}
	return false
}

// runFailHistory is runHistory for sessions with failing inputs: inputs carrying c10ShortMark run under a 1 ms deadline,
// inputs carrying failDepthMark under a depth limit of 12; vcancel() is available.
func runFailHistory(inputs []string, noReg bool) []inObs {
	registerFailExtensions()
	opt := RunOpt{NoReg: noReg, ShortFor: c10ShortMark, Short: failShort}
	markCurrent(crashMark{Inputs: inputs, Opt: opt})
	s, buf := newState(opt)
	depth := s.MaxDepth
	var res []inObs
	for _, in := range inputs {
		s.MaxDepth = depth
		if strings.Contains(in, failDepthMark) {
			s.MaxDepth = failDepth
		}
		to := 5 * time.Second
		if strings.Contains(in, c10ShortMark) {
			to = failShort
		}
		start := buf.Len()
		ro := repl.Options{All: true, ShowEval: true, NoColor: true, MaxDuration: to}
		_, panicked, errs, _ := repl.EvalOne(context.Background(), s, in, buf, ro)
		o := inObs{Out: buf.String()[start:], Err: len(errs) > 0 || panicked}
		if len(errs) > 0 {
			o.Val = errHead(errs[0])
		}
		if panicked {
			o.Val = "panic: " + o.Val
		}
		res = append(res, o)
	}
	return res
}

// failCalibrate: every form fails, in a fresh session, the way it is meant to (otherwise the sessions test nothing). A
// deadline gets three tries (a late timer on a loaded machine).
var failDeadlineTooLate int // deadline forms that did not fail at calibration (timing of the machine, not the code under test)

func failCalibrate() error {
	want := map[string]string{"deadline": "context deadline exceeded", "cancel": "context canceled", "depth": "max depth", "error": ""}
	for _, how := range failHows {
		for _, where := range failWheres {
			for sel := 0; sel < 5; sel++ {
				in := []string{failPrelude(), failInput(how, where, "p", "[1]", "p[0] = 2", sel)} // (what follows a failure is the checks' business)
				var obs []inObs
				for try := 0; try < 3; try++ {
					obs = runFailHistory(in, false)
					if obs[1].Err || how != "deadline" {
						break
					}
				}
				if how == "deadline" && !obs[0].Err && !obs[1].Err {
					// the machine finished the work within the deadline three times over: the deadline forms lose their bite in
					// this run (the sessions still run and are judged; the evidence counts how many failing inputs failed)
					failDeadlineTooLate++
					continue
				}
				if obs[0].Err || !obs[1].Err || !strings.Contains(obs[1].Val, want[how]) || strings.Contains(obs[1].Val, "not found") {
					return fmt.Errorf("failing input %q (%s in %s): err=%v %q (harness inputs out of date)", in[1], how, where, obs[1].Err, obs[1].Val)
				}
			}
		}
	}
	return nil
}
