package main

// C13 - macro expansion is exact syntactic substitution (spec/Macro.tla, spec/Macro_Trace.tla).
//
// GEN: TLC explores the session machine of Macro.tla (Define / ExpandProgram) and emits, for every
//      ExpandProgram step, the session so far; the last op is the case: program + expected tree.
// Real code, per case: the session is replayed on eval.State (parse in file mode, DefineMacros,
//      ExpandMacros), the canonical dump of the expanded tree is recorded and
// TV:  Macro_Trace.tla decides `dump = Macro!ExpandStmts(prog, store)` (one verdict per case; a
//      mismatch is attributed to a known finding only if the named deviation explains it exactly).
// The remaining clauses of the statement are relations between two runs of the implementation
// (macro program vs hand-substituted program, which is the expected tree rendered to source):
// printed form (normal and compact), repl.EvalOne observations (Equiv_Trace.tla), repeatability
// of an expansion after an evaluation, and absence of any effect during expansion.

import (
	"bytes"
	"context"
	"encoding/json"
	"fmt"
	"io"
	"os"
	"regexp"
	"runtime/debug"
	"sort"
	"strings"
	"sync"
	"time"

	"fortio.org/log"
	"grol.io/grol/ast"
	"grol.io/grol/eval"
	"grol.io/grol/object"
)

func init() {
	props["C13"] = propDef{check: checkC13, replay: replayC13,
		rule: "case = one ExpandProgram step of a TLC-generated session (definitions + program) replayed on eval.State in one input layout; distinct by (session source text, layout); non-trivial when the program contains at least one call of a defined macro"}
}

const (
	c13SigTree    = "macro-expansion-tree-mismatch"
	c13SigCallee  = "macro-callee-position-not-rewritten"
	c13SigMapKey  = "macro-parameter-twice-as-map-key-shares-node"
	c13SigParam   = "macro-parameter-named-like-macro-or-extension"
	c13SigPrint   = "macro-expanded-prints-differently"
	c13SigEval    = "macro-evaluates-differently"
	c13SigRepeat  = "macro-expansion-not-repeatable"
	c13SigEffect  = "macro-expansion-has-effects"
	c13SigPanic   = "macro-expansion-panics"
	c13SigDefLeft = "macro-definition-left-in-program"
)

var c13Prelude = "x = 5; y = 2; t = true; u = false; arr = [1, 2, 3]; cnt = 0; r = 0\n" +
	"g = func() { cnt = cnt + 1; println(\"g\", cnt); cnt }\n" +
	"f = func(a) { a }\n" +
	"f2 = func(a, b) { [a, b] }"

const c13Probe = `println("probe", x, y, cnt, r)`

type c13Op struct {
	Op   string   `json:"op"`
	Name string   `json:"name,omitempty"`
	Ps   []string `json:"ps,omitempty"`
	Tpl  J        `json:"tpl,omitempty"`
	Mode string   `json:"mode,omitempty"`
	Ix   int      `json:"ix,omitempty"`
	Prog []any    `json:"prog,omitempty"`
	Out  []any    `json:"out,omitempty"`
	Feat string   `json:"feat,omitempty"`
	Kind string   `json:"kind,omitempty"` // op "fail": error | panic | parse | timeout
}

// c13In is one REPL input of a session; Fail names the way an unrelated failing input fails ("" = ordinary input).
type c13In struct{ Src, Fail string }

var c13FailSrc = map[string]string{
	"error":   `error("boom", x)`,
	"panic":   `func rr(n) { rr(n + 1) }; rr(0)`, // runaway recursion: the depth guard panics, repl.EvalOne recovers and resets the state
	"parse":   `x = (`,
	"timeout": `for true {}`,
}

const (
	c13PanicDepth  = 60                    // MaxDepth while the runaway recursion runs (restored afterwards)
	c13FailTimeout = 40 * time.Millisecond // deadline of the `for true {}` input only
)

type c13Case struct {
	ID     int
	Ops    []c13Op
	Layout int // 0: definitions in the same input as the next program; 1: every definition is an input of its own
}

// ---------------------------------------------------------------------------------- rendering

// c13RenderProgram is renderProgram for trees that may hold comment statements (the shared renderer prints none):
// a comment is rendered as a placeholder statement and put back as its text, on the line of its neighbours.
func c13RenderProgram(stmts []any) string {
	var texts []string
	var sub func(v any) any
	sub = func(v any) any {
		switch x := v.(type) {
		case J:
			if x["k"] == "cmt" {
				texts = append(texts, fmt.Sprint(x["text"]))
				return J{"k": "id", "n": fmt.Sprintf("c13cmt%d", len(texts)-1)}
			}
			r := J{}
			for k, c := range x {
				r[k] = sub(c)
			}
			return r
		case []any:
			r := make([]any, len(x))
			for i, c := range x {
				r[i] = sub(c)
			}
			return r
		}
		return v
	}
	src := renderProgram(sub(stmts).([]any))
	for i := len(texts) - 1; i >= 0; i-- {
		ph := fmt.Sprintf("c13cmt%d", i)
		src = strings.ReplaceAll(src, ph+"; ", texts[i]+" ")
		src = strings.ReplaceAll(src, "; "+ph, " "+texts[i])
		src = strings.ReplaceAll(src, ph, texts[i])
	}
	return src
}

func c13RenderDef(op c13Op) string {
	return op.Name + " = macro(" + strings.Join(op.Ps, ", ") + ") { quote(" + renderNode(op.Tpl, precLowest, styleNormal) + ") }"
}

// c13Inputs turns the ops into REPL inputs. macro = true: the macro session (definitions + programs with
// macro calls); false: the hand-substituted session (no definitions, the expected trees rendered).
// Both have the same number of inputs (an input holding only definitions corresponds to an empty input).
func c13Inputs(ops []c13Op, layout int, macro bool) []string {
	var res []string
	for _, in := range c13Ins(ops, layout, macro) {
		res = append(res, in.Src)
	}
	return res
}

func c13Ins(ops []c13Op, layout int, macro bool) []c13In {
	var inputs []c13In
	var pending []string
	flush := func() { // definitions waiting for the next program become an input of their own (a failing input comes first)
		if len(pending) > 0 {
			if macro {
				inputs = append(inputs, c13In{Src: strings.Join(pending, "")})
			} else {
				inputs = append(inputs, c13In{})
			}
			pending = nil
		}
	}
	for _, op := range ops {
		switch op.Op {
		case "def":
			if layout == 1 {
				if macro {
					inputs = append(inputs, c13In{Src: c13RenderDef(op)})
				} else {
					inputs = append(inputs, c13In{})
				}
			} else {
				pending = append(pending, c13RenderDef(op)+";\n")
			}
		case "fail":
			flush()
			inputs = append(inputs, c13In{Src: c13FailSrc[op.Kind], Fail: op.Kind})
		case "exp":
			if macro {
				inputs = append(inputs, c13In{Src: strings.Join(pending, "") + c13RenderProgram(op.Prog)})
			} else {
				inputs = append(inputs, c13In{Src: c13RenderProgram(op.Out)})
			}
			pending = nil
		}
	}
	return inputs
}

// c13ReplInput feeds one input to repl.EvalOne on s; a failing input gets the resource limits that make it fail fast.
func c13ReplInput(s *eval.State, buf *bytes.Buffer, in c13In) ReplObs {
	opt := RunOpt{}
	depth := s.MaxDepth
	switch in.Fail {
	case "panic":
		s.MaxDepth = c13PanicDepth
	case "timeout":
		opt.Timeout = c13FailTimeout
	}
	r := replOne(s, buf, in.Src, opt, false)
	s.MaxDepth = depth
	return r
}

// c13History is runHistory with per-input limits for the failing inputs.
func c13History(ins []c13In) []inObs {
	s, buf := newState(RunOpt{})
	var res []inObs
	for _, in := range ins {
		r := c13ReplInput(s, buf, in)
		o := inObs{Out: r.Out, Err: len(r.Errs) > 0 || r.Panicked}
		if len(r.Errs) > 0 {
			o.Val = errHead(r.Errs[0])
		}
		if r.Panicked {
			o.Val = "panic: " + o.Val
		}
		res = append(res, o)
	}
	return res
}

// ---------------------------------------------------------------------------------- dumps

// reArity matches the text of the error node that the code puts in place of a macro call with the wrong number of
// arguments. The wording is not part of the property: it is learnt from the tree under test (a probe call of a macro named
// qqzq with 1 parameter and 3 arguments), with the name and the numbers generalised.
var reArity = c13LearnArity()

func c13LearnArity() *regexp.Regexp {
	fallback := regexp.MustCompile(`wrong number of macro arguments, want=\d+, got=\d+`)
	defer func() { _ = recover() }()
	s := eval.NewState()
	prog, errs := parseFile("qqzq = macro(a) {quote(1)}; qqzq(7, 8, 9)")
	if len(errs) > 0 {
		return fallback
	}
	s.DefineMacros(prog)
	exp := s.ExpandMacros(prog)
	txt := ""
	var walk func(v any)
	walk = func(v any) {
		switch x := v.(type) {
		case J:
			if x["k"] == "bi" && x["n"] == "error" {
				if a, ok := x["a"].([]any); ok && len(a) == 1 {
					if st, ok := a[0].(J); ok && st["k"] == "str" {
						txt, _ = st["v"].(string)
					}
				}
			}
			for _, c := range x {
				walk(c)
			}
		case []any:
			for _, c := range x {
				walk(c)
			}
		}
	}
	if st, ok := exp.(*ast.Statements); ok {
		walk(any(dumpStmts(st)))
	}
	if txt == "" {
		return fallback
	}
	q := regexp.QuoteMeta(txt)
	q = strings.ReplaceAll(q, "qqzq", `\w+`)
	q = regexp.MustCompile(`\d+`).ReplaceAllString(q, `\d+`)
	re, err := regexp.Compile(q)
	if err != nil {
		return fallback
	}
	return re
}

// c13Norm removes the derived `ck` of function literals and the wording of the arity error node.
func c13Norm(v any) any {
	switch x := v.(type) {
	case J:
		r := J{}
		for k, c := range x {
			if k == "ck" {
				continue
			}
			r[k] = c13Norm(c)
		}
		if r["k"] == "bi" && r["n"] == "error" {
			if a, ok := r["a"].([]any); ok && len(a) == 1 {
				if s, ok := a[0].(J); ok && s["k"] == "str" {
					if t, ok := s["v"].(string); ok && reArity.MatchString(t) {
						a[0] = J{"k": "str", "v": "ARITY"}
					}
				}
			}
		}
		return r
	case []any:
		r := make([]any, len(x))
		for i, c := range x {
			r[i] = c13Norm(c)
		}
		return r
	}
	return v
}

// c13DumpNode: canonical dump of an expanded program; a tree that cannot even be walked (nil children where the
// printer dereferences them) is the observation "panic".
func c13DumpNode(n ast.Node) (res []any) {
	defer func() {
		if r := recover(); r != nil {
			res = []any{J{"k": "panic", "go": fmt.Sprint(r)}}
		}
	}()
	st, ok := n.(*ast.Statements)
	if !ok {
		return []any{J{"k": "unknown", "go": fmt.Sprintf("%T", n)}}
	}
	return c13Norm(dumpStmts(st)).([]any)
}

func canon(v any) string {
	b, _ := json.Marshal(v)
	return string(b)
}

// ---------------------------------------------------------------------------------- real code

type c13Exp struct {
	Dump      []any
	Node      ast.Node
	ParseErrs []string
	Panic     string
	PanicAt   string
	DefLeft   bool
	Effect    string
}

func c13Globals(s *eval.State) string {
	var b bytes.Buffer
	_, _ = s.SaveGlobals(&b)
	return b.String()
}

// c13Expand submits one input to the macro stage only: parse (file mode), DefineMacros, ExpandMacros.
// Nothing may be evaluated by that: output and globals are compared before / after.
func c13Expand(s *eval.State, buf *bytes.Buffer, src string) (res c13Exp) {
	defer func() {
		if r := recover(); r != nil {
			res.Panic = fmt.Sprint(r)
			res.PanicAt = grolFrame(string(debug.Stack()))
			res.Dump = []any{J{"k": "panic"}}
		}
	}()
	prog, errs := parseFile(src)
	if len(errs) > 0 {
		res.ParseErrs = errs
		return res
	}
	outBefore, globBefore := buf.Len(), c13Globals(s)
	s.DefineMacros(prog)
	for _, st := range prog.Statements {
		if inf, ok := st.(*ast.InfixExpression); ok {
			if _, ok := inf.Right.(*ast.MacroLiteral); ok {
				res.DefLeft = true
			}
		}
	}
	res.Node = s.ExpandMacros(prog)
	if buf.Len() != outBefore {
		res.Effect = fmt.Sprintf("output during expansion: %q", buf.String()[outBefore:])
	} else if g := c13Globals(s); g != globBefore {
		res.Effect = "globals changed during expansion"
	}
	res.Dump = c13DumpNode(res.Node)
	return res
}

func c13Print(n ast.Node, compact bool) (s string) {
	defer func() {
		if r := recover(); r != nil {
			s = "PANIC: " + fmt.Sprint(r)
		}
	}()
	ps := ast.NewPrintState()
	ps.Compact = compact
	return n.PrettyPrint(ps).String()
}

func c13Eval(s *eval.State, n ast.Node) (msg string) {
	defer func() {
		if r := recover(); r != nil {
			msg = "panic: " + fmt.Sprint(r)
			s.Reset()
		}
	}()
	res := object.Value(s.Eval(n))
	if res.Type() == object.ERROR {
		return "err"
	}
	return ""
}

// c13Real is everything observed on the real code for one case.
type c13Real struct {
	Skip     string // renderer / parser self-check failed: the case is not judged
	Exp      c13Exp // the macro stage of the last input
	Fail     []c13Failure
	C02Notes []string
	MacroObs []inObs
	HandObs  []inObs
}

type c13Failure struct{ Sig, What string }

var reArityObs = regexp.MustCompile(reArity.String() + `|ARITY`)

func c13NormObs(o []inObs) []inObs {
	r := make([]inObs, len(o))
	for i, x := range o {
		x.Out = reArityObs.ReplaceAllString(x.Out, "ARITY")
		x.Val = reArityObs.ReplaceAllString(x.Val, "ARITY")
		r[i] = x
	}
	return r
}

// c13Run replays one case. withEval = false limits it to the macro stage (tree comparison only).
func c13Run(cs c13Case, withEval bool) (res c13Real) {
	ops := cs.Ops
	last := ops[len(ops)-1]
	macroIn := c13Ins(ops, cs.Layout, true)
	handIn := c13Ins(ops, cs.Layout, false)

	// 0. generator self-check: the rendered sources parse to the intended trees
	for _, op := range ops {
		if op.Op != "exp" {
			continue
		}
		for _, tr := range [][]any{op.Prog, op.Out} {
			p, errs := parseFile(c13RenderProgram(tr))
			if len(errs) > 0 {
				res.Skip = fmt.Sprintf("rendered source does not parse: %v: %q", errs, c13RenderProgram(tr))
				return res
			}
			if canon(c13DumpNode(p)) != canon(c13Norm(tr)) {
				res.Skip = fmt.Sprintf("rendered source parses to a different tree: %q", c13RenderProgram(tr))
				return res
			}
		}
	}

	// 1. macro stage of every input on one persistent state (prelude evaluated, programs evaluated in between)
	s, buf := newState(RunOpt{})
	cancel := s.SetContext(context.Background(), 10*time.Second)
	defer func() { cancel() }()
	if p, errs := parseFile(c13Prelude); len(errs) == 0 {
		_ = c13Eval(s, p)
	}
	var e1 c13Exp
	for i, in := range macroIn {
		if in.Fail != "" { // an unrelated failing input goes through repl.EvalOne (which recovers panics and resets the state)
			_ = c13ReplInput(s, buf, in)
			cancel()
			cancel = s.SetContext(context.Background(), 10*time.Second)
			continue
		}
		e1 = c13Expand(s, buf, in.Src)
		if len(e1.ParseErrs) > 0 {
			res.Skip = fmt.Sprintf("macro input does not parse: %v: %q", e1.ParseErrs, in.Src)
			return res
		}
		if e1.Panic != "" || i == len(macroIn)-1 {
			break
		}
		if withEval {
			_ = c13Eval(s, e1.Node)
		}
	}
	res.Exp = e1
	if e1.Panic != "" {
		res.Fail = append(res.Fail, c13Failure{c13SigPanic, "ExpandMacros panicked: " + e1.Panic + " at " + e1.PanicAt})
		return res
	}
	if e1.DefLeft {
		res.Fail = append(res.Fail, c13Failure{c13SigDefLeft, "a macro definition statement is still in the program after DefineMacros"})
	}
	if e1.Effect != "" {
		res.Fail = append(res.Fail, c13Failure{c13SigEffect, e1.Effect})
	}
	if !withEval {
		return res
	}
	d1 := canon(e1.Dump)

	// 2. (d) the expansion is repeatable: evaluate the expanded tree, dump it again, expand the same program again
	//    (the program only: the definitions must still be in the store, unchanged)
	_ = c13Eval(s, e1.Node)
	if d := canon(c13DumpNode(e1.Node)); d != d1 {
		res.Fail = append(res.Fail, c13Failure{c13SigRepeat, "evaluating the expanded tree changed it"})
	}
	e2 := c13Expand(s, buf, c13RenderProgram(last.Prog))
	if e2.Panic != "" {
		res.Fail = append(res.Fail, c13Failure{c13SigRepeat, "second expansion panicked: " + e2.Panic})
	} else if canon(e2.Dump) != d1 {
		res.Fail = append(res.Fail, c13Failure{c13SigRepeat, "expanding the same program again (after evaluating the first expansion) gives a different tree: " + c13Print(e2.Node, true) + " vs " + c13Print(e1.Node, true)})
	}

	// 3. (b) printed like the hand-substituted program, and re-parses to the same tree
	hand, _ := parseFile(c13RenderProgram(last.Out))
	for _, compact := range []bool{false, true} {
		pm, ph := c13Print(e1.Node, compact), c13Print(hand, compact)
		pm, ph = reArityObs.ReplaceAllString(pm, "ARITY"), reArityObs.ReplaceAllString(ph, "ARITY") // wording of the error node is not compared
		if d1 == canon(c13Norm(last.Out)) && pm != ph {
			res.Fail = append(res.Fail, c13Failure{c13SigPrint, fmt.Sprintf("same tree, different text (compact=%v): expanded %q, hand-substituted %q", compact, pm, ph)})
			continue
		}
		if strings.HasPrefix(pm, "PANIC") {
			continue
		}
		rp, errs := parseFile(pm)
		if len(errs) > 0 || canon(c13DumpNode(rp)) != d1 {
			// the text regroups / does not parse: is the hand-substituted tree printed the same way (printer defect, C02) ?
			if pm == ph {
				res.C02Notes = append(res.C02Notes, fmt.Sprintf("compact=%v: %q does not re-parse to the tree it was printed from (same for the hand-substituted tree)", compact, pm))
			} else {
				res.Fail = append(res.Fail, c13Failure{c13SigPrint, fmt.Sprintf("printed form %q does not re-parse to the expanded tree; the hand-substituted tree prints %q", pm, ph)})
			}
		}
	}

	// 4. (c, e) repl.EvalOne of the macro session vs the hand-substituted session on fresh states
	mi := append(append([]c13In{{Src: c13Prelude}}, macroIn...), c13In{Src: c13Probe})
	hi := append(append([]c13In{{Src: c13Prelude}}, handIn...), c13In{Src: c13Probe})
	res.MacroObs, res.HandObs = c13NormObs(c13History(mi)), c13NormObs(c13History(hi))
	return res
}

// ---------------------------------------------------------------------------------- aliasing diagnostics

// c13Walk visits every node of a real tree (the node itself, then its children).
func c13Walk(n ast.Node, visit func(ast.Node)) {
	if isNilNode(n) {
		return
	}
	visit(n)
	list := func(l []ast.Node) {
		for _, x := range l {
			c13Walk(x, visit)
		}
	}
	switch v := n.(type) {
	case *ast.Statements:
		list(v.Statements)
	case *ast.ReturnStatement:
		c13Walk(v.ReturnValue, visit)
	case *ast.PrefixExpression:
		c13Walk(v.Right, visit)
	case *ast.InfixExpression:
		c13Walk(v.Left, visit)
		c13Walk(v.Right, visit)
	case *ast.IfExpression:
		c13Walk(v.Condition, visit)
		c13Walk(v.Consequence, visit)
		c13Walk(v.Alternative, visit)
	case *ast.ForExpression:
		c13Walk(v.Condition, visit)
		c13Walk(v.Body, visit)
	case *ast.FunctionLiteral:
		list(v.Parameters)
		c13Walk(v.Body, visit)
	case *ast.CallExpression:
		c13Walk(v.Function, visit)
		list(v.Arguments)
	case *ast.ArrayLiteral:
		list(v.Elements)
	case *ast.MapLiteral:
		for _, k := range v.Order {
			c13Walk(k, visit)
			c13Walk(v.Pairs[k], visit)
		}
	case *ast.IndexExpression:
		c13Walk(v.Left, visit)
		c13Walk(v.Index, visit)
	case *ast.Builtin:
		list(v.Parameters)
	}
}

// c13Aliasing expands `use` twice on one state (two independent parses) after `def` and reports which kinds of
// nodes are shared (a) between the two expanded trees - they can only come from the stored template - and (b)
// within one expanded tree (an argument unquoted at several places). Sharing is a diagnostic, not a verdict:
// only nodes that some code mutates, or that are compared by identity, make it observable.
func c13Aliasing(def, use string) (between, within map[string]int) {
	between, within = map[string]int{}, map[string]int{}
	defer func() { _ = recover() }()
	s, buf := newState(RunOpt{})
	_ = c13Expand(s, buf, def)
	e1 := c13Expand(s, buf, use)
	e2 := c13Expand(s, buf, use)
	seen := map[ast.Node]int{}
	c13Walk(e1.Node, func(n ast.Node) {
		if _, isStmts := n.(*ast.Statements); !isStmts {
			seen[n]++
			if seen[n] == 2 {
				within[fmt.Sprintf("%T", n)]++
			}
		}
	})
	c13Walk(e2.Node, func(n ast.Node) {
		if seen[n] > 0 {
			between[fmt.Sprintf("%T", n)]++
		}
	})
	return between, within
}

// ---------------------------------------------------------------------------------- TLC front ends

func c13Cfg(dev string, depth2 bool, stride, offset, coreSites, maxOps int, emit, trace bool) string {
	b := func(x bool) string {
		if x {
			return "TRUE"
		}
		return "FALSE"
	}
	s := fmt.Sprintf("CONSTANTS\n Deviation = %s\n Depth2 = %s\n Stride = %d\n Offset = %d\n CoreSites = %d\n MaxOps = %d\n EmitOn = %s\n",
		dev, b(depth2), stride, offset, coreSites, maxOps, b(emit))
	if trace {
		return s + "INIT TInit\nNEXT TNext\n"
	}
	return s + "INIT Init\nNEXT Next\nINVARIANTS Independent MacroFreeFixed ArityError ArgsFirst OracleRecorded RedefDiscriminates FailKeepsMacros PairDiscriminates\nPROPERTY StoreUnchanged\n"
}

type c13Verdict struct {
	ID  int    `json:"id"`
	OK  bool   `json:"ok"`
	Dev string `json:"dev"`
}

type c13TraceRec struct {
	ID   int
	Defs []any
	Prog []any
	Real []any
}

func c13Defs(ops []c13Op) []any {
	defs := []any{}
	for _, op := range ops[:len(ops)-1] {
		if op.Op == "def" {
			ps := []any{}
			for _, p := range op.Ps {
				ps = append(ps, p)
			}
			defs = append(defs, J{"name": op.Name, "ps": ps, "tpl": op.Tpl})
		}
	}
	return defs
}

func c13Validate(c *Ctx, recs []c13TraceRec) (map[int]c13Verdict, error) {
	res := map[int]c13Verdict{}
	const per = 4000
	var mu sync.Mutex
	var wg sync.WaitGroup
	var firstErr error
	sem := make(chan struct{}, 4) // JVMs only: no grol code runs in these goroutines
	for lo := 0; lo < len(recs); lo += per {
		hi := min(lo+per, len(recs))
		wg.Add(1)
		go func(batch []c13TraceRec) {
			defer wg.Done()
			sem <- struct{}{}
			defer func() { <-sem }()
			vs, err := c13ValidateBatch(c, batch)
			mu.Lock()
			defer mu.Unlock()
			if err != nil && firstErr == nil {
				firstErr = err
			}
			for id, v := range vs {
				res[id] = v
			}
		}(recs[lo:hi])
	}
	wg.Wait()
	return res, firstErr
}

func c13ValidateBatch(c *Ctx, recs []c13TraceRec) (map[int]c13Verdict, error) {
	res := map[int]c13Verdict{}
	var buf bytes.Buffer
	enc := json.NewEncoder(&buf)
	enc.SetEscapeHTML(false)
	for _, r := range recs {
		_ = enc.Encode(J{"id": r.ID, "defs": r.Defs, "prog": r.Prog, "real": r.Real})
	}
	r, err := c.TLC(TLCOpt{Spec: "Macro_Trace", Cfg: c13Cfg("{}", false, 1, 0, 0, 1, false, true), Workers: 1,
		Files: map[string][]byte{"macro_trace.ndjson": buf.Bytes()}})
	if err != nil {
		return nil, err
	}
	n := 0
	err = ReadLines(r.Emitted, func(line []byte) error {
		var v c13Verdict
		if err := json.Unmarshal(line, &v); err != nil {
			return err
		}
		res[v.ID] = v
		n++
		return nil
	})
	if err != nil {
		return nil, err
	}
	if n != len(recs) {
		return nil, fmt.Errorf("Macro_Trace emitted %d verdicts for %d cases", n, len(recs))
	}
	return res, nil
}

func forEach(lines []string, f func(string) error) error {
	for _, l := range lines {
		if err := f(l); err != nil {
			return err
		}
	}
	return nil
}

func c13HasMacroCall(prog []any, ops []c13Op) bool {
	names := map[string]bool{}
	for _, op := range ops {
		if op.Op == "def" {
			names[op.Name] = true
		}
	}
	var walk func(v any) bool
	walk = func(v any) bool {
		switch x := v.(type) {
		case J:
			if x["k"] == "call" {
				if f, ok := x["f"].(J); ok && f["k"] == "id" && names[fmt.Sprint(f["n"])] {
					return true
				}
			}
			for _, c := range x {
				if walk(c) {
					return true
				}
			}
		case []any:
			for _, c := range x {
				if walk(c) {
					return true
				}
			}
		}
		return false
	}
	return walk(prog)
}

func c13Replay(cs c13Case) map[string]any {
	return map[string]any{"check": "gen", "ops": cs.Ops, "layout": cs.Layout,
		"macro_inputs": c13Inputs(cs.Ops, cs.Layout, true), "hand_inputs": c13Inputs(cs.Ops, cs.Layout, false)}
}

// ---------------------------------------------------------------------------------- pinned reproducers / probes

type c13Pinned struct {
	Sig   string
	Macro []string
	Hand  []string
}

// The callee cases are regression cases since /repo c6016b2 (ledger: fixed); the others are known findings.
var c13PinnedCases = []c13Pinned{
	{c13SigCallee, []string{"m = macro(a) { quote(unquote(a)) }; f = func(q) { q + 1 }", "m(f)(2)"}, []string{"f = func(q) { q + 1 }", "f(2)"}},
	{c13SigCallee, []string{"ap = macro(fn, v) { quote(unquote(fn)(unquote(v))) }; f = func(q) { q + 1 }", "ap(f, 2)"}, []string{"f = func(q) { q + 1 }", "f(2)"}},
	{c13SigCallee, []string{"w = macro(a) { quote(func() { unquote(a) }()) }", "w(41 + 1)"}, []string{"", "func() { 41 + 1 }()"}},
	{c13SigMapKey, []string{"m = macro(a) { quote({unquote(a): println(1), unquote(a): println(2)}) }; x = 3", "m(x)"}, []string{"x = 3", "{x: println(1), x: println(2)}"}},
	{c13SigParam, []string{"a = macro(x) { quote(unquote(x) + 1) }; m = macro(a) { quote(unquote(a) * 2) }", "println(m(5))", "println(a(1))"}, []string{"", "println(5 * 2)", "println(1 + 1)"}},
	{c13SigParam, []string{"m = macro(m) { quote(unquote(m) + 1) }", "println(m(1))", "println(m(2))"}, []string{"", "println(1 + 1)", "println(2 + 1)"}},
	{c13SigParam, []string{"m = macro(sin) { quote(unquote(sin) + 1) }", "m(2)"}, []string{"", "2 + 1"}},
	// parameters and macros named like the names Environment.Get answers itself (regression cases since /repo 21c63fb)
	{c13SigParam, []string{"m = macro(info) { quote(unquote(info) + 1) }", "m(2)", "x = 5; m(x * 2)"}, []string{"", "2 + 1", "x = 5; x * 2 + 1"}},
	{c13SigParam, []string{"m = macro(self) { quote([unquote(self), unquote(self)]) }", "m(2)", "m(println(3))"}, []string{"", "[2, 2]", "[println(3), println(3)]"}},
	{c13SigParam, []string{"m = macro(a, info, self) { quote(unquote(self) - unquote(info) * unquote(a)) }", "m(1 + 1, 2 + 2, 3 + 3)"}, []string{"", "3 + 3 - (2 + 2) * (1 + 1)"}},
	{c13SigParam, []string{"info = macro(x) { quote(unquote(x) + 1) }", "info(2)"}, []string{"", "2 + 1"}},
	{c13SigParam, []string{"self = macro(x) { quote(unquote(x) + 1) }", "self(2)", "f = func(n) { self(n) }; f(4)"}, []string{"", "2 + 1", "f = func(n) { n + 1 }; f(4)"}},
}

// probes of behaviour OUTSIDE the statement (recorded as notes, never a verdict)
var c13Probes = []struct{ what, src string }{
	{"definition with := is not recognised as a macro definition", "m := macro(a) { quote(unquote(a)) }; m(1)"},
	{"a macro used before its definition in the same input is expanded (definitions are collected first)", "println(m(1)); m = macro(a) { quote(unquote(a) + 1) }"},
	{"a macro whose body is not a quote", "m = macro() { 1 }; m()"},
	{"unquote outside quote", "x = 1; unquote(x)"},
	{"unquote of a non-parameter expression that yields an integer (value-typed ast.IntegerLiteral in the tree)", "m = macro() { quote(unquote(1) + 2) }; println(m())"},
	{"unquote of a computed non-parameter expression (was `panic: max depth 0 reached` in the bare macro state before /repo 5d91143)", "m = macro() { quote(unquote(1 + 2) * 2) }; println(m())"},
	{"unquote of a computed boolean (value-typed ast.Boolean in the tree)", "m = macro() { quote(!unquote(1 < 2)) }; println(m())"},
	{"unquote of a computed integer in a plain quote, evaluated later through a macro parameter", "k = macro(q) { quote(unquote(q)) }; println(k(2 + 3))"},
	{"unquote of a string / float / array value (a nil hole in the tree before /repo 9ce7d6a)", "m = macro() { quote(unquote(\"s\")) }; m()"},
	{"macro named like an extension function is silently not defined", "sin = macro(a) { quote(unquote(a) + 1) }; sin(2)"},
	{"re-definition of a macro with an all-caps (constant) name", "MAC = macro(a) { quote(unquote(a) + 100) }; println(MAC(1)); MAC = macro(a) { quote(unquote(a) + 200) }; println(MAC(1))"},
	{"a macro call inside a template is not expanded (single pass)", "n = macro(a) { quote(unquote(a) + 1) }; m = macro(a) { quote(n(unquote(a))) }; m(2)"},
	{"macro definition nested in a function body is not a definition", "f = func() { k = macro(a) { quote(unquote(a)) }; k(1) }; f()"},
	{"macro body calls a builtin before its quote while being expanded", "m = macro(a) { len(\"ab\"); quote(unquote(a)) }; m(1)"},
}

func c13RunPinned(p c13Pinned) (bool, string, []inObs, []inObs) {
	a, _ := runHistory(p.Macro, RunOpt{})
	b, _ := runHistory(p.Hand, RunOpt{})
	a, b = c13NormObs(a), c13NormObs(b)
	if len(a) != len(b) {
		return false, "different number of observations", a, b
	}
	for i := range a {
		if a[i] != b[i] {
			return false, describeDiff(a, b, i+1), a, b
		}
	}
	return true, "", a, b
}

// ---------------------------------------------------------------------------------- the check

func checkC13(c *Ctx) {
	c.Assume("the hand-substituted program is the expected tree of Macro.tla rendered to source by the harness renderer; a case whose rendering does not parse back to the intended tree is skipped and counted")
	c.Assume("the macro store is observed through behaviour (expanding the same call site again), eval.State does not export it")

	// 1. design level (runs beside the GEN run, JVMs only): the rewriter that substitutes into the stored template
	//    (issue #223) violates Independent / StoreUnchanged, and a state reset that drops the macro store after a
	//    recovered panic violates StoreUnchanged
	type sab struct {
		dev  string
		want []string
		r    *TLCResult
		err  error
	}
	sabs := []*sab{
		{dev: `{"InPlaceTemplate"}`, want: []string{"Independent", "StoreUnchanged"}},
		{dev: `{"ResetDropsMacros"}`, want: []string{"StoreUnchanged"}},
	}
	var sabWG sync.WaitGroup
	for _, sb := range sabs {
		sabWG.Add(1)
		go func(sb *sab) {
			defer sabWG.Done()
			sb.r, sb.err = c.TLC(TLCOpt{Spec: "Macro", Cfg: c13Cfg(sb.dev, false, 997, 0, 1, 3, false, false), Workers: 2, AllowError: true})
		}(sb)
	}
	sabDone := func() bool {
		sabWG.Wait()
		for _, sb := range sabs {
			if sb.err != nil {
				c.Infra(sb.err)
				return false
			}
			ok := false
			for _, w := range sb.want {
				ok = ok || sb.r.InvViolated == w
			}
			if !ok {
				c.Infra(fmt.Errorf("Macro.tla with Deviation=%s did not violate %v: %q %s", sb.dev, sb.want, sb.r.InvViolated, sb.r.ErrText))
				return false
			}
			c.Cov("design_counterexample "+sb.dev, "violates "+sb.r.InvViolated)
		}
		return true
	}

	// 2. MC + GEN
	stride, coreSites, maxOps, depth2 := 67, 1, 3, false
	if c.Thorough() {
		stride, coreSites, maxOps, depth2 = 29, 28, 4, true
	}
	offset := int((c.Seed*7919 + 13) % int64(stride))
	if offset < 0 {
		offset = -offset
	}
	r, err := c.TLC(TLCOpt{Spec: "Macro", Cfg: c13Cfg("{}", depth2, stride, offset, coreSites, maxOps, true, false), Workers: 8})
	if !sabDone() {
		return
	}
	if err != nil {
		c.Infra(err)
		return
	}
	var cases []c13Case
	sessions, pairs, pairsCollide := 0, 0, 0
	feats := map[string]int{}
	// TLC's workers emit in a run-dependent order: sort, so that ids, layouts and samples depend on the seed only
	var lines []string
	err = ReadLines(r.Emitted, func(line []byte) error {
		lines = append(lines, string(line))
		return nil
	})
	if err != nil {
		c.Infra(err)
		return
	}
	sort.Strings(lines)
	err = forEach(lines, func(line string) error {
		var g struct {
			H []c13Op `json:"h"`
		}
		if err := json.Unmarshal([]byte(line), &g); err != nil {
			return err
		}
		if len(g.H) == 0 || g.H[len(g.H)-1].Op != "exp" {
			return fmt.Errorf("emitted session does not end with an expansion: %s", line)
		}
		last := g.H[len(g.H)-1]
		feats[last.Mode+"/"+last.Feat]++
		sessions++
		if last.Mode == "pair" && len(g.H) == 3 && len(last.Prog) == 1 && len(g.H[1].Prog) == 1 {
			// the pair is what it claims to be on the tree under test: two different trees, one compact text
			pa, ea := parseFile(c13RenderProgram(g.H[1].Prog))
			pb, eb := parseFile(c13RenderProgram(last.Prog))
			if len(ea) == 0 && len(eb) == 0 && canon(c13DumpNode(pa)) != canon(c13DumpNode(pb)) {
				pairs++
				if c13Print(pa, true) == c13Print(pb, true) {
					pairsCollide++
				}
			}
		}
		id := len(cases)
		layout := (id + int(c.Seed)) % 2
		cases = append(cases, c13Case{ID: id, Ops: g.H, Layout: layout})
		if last.Mode == "small" || last.Mode == "redef" { // sessions with several inputs: both layouts
			cases = append(cases, c13Case{ID: id + 1, Ops: g.H, Layout: 1 - layout})
		}
		return nil
	})
	if err != nil {
		c.Infra(err)
		return
	}
	if len(cases) == 0 {
		c.Infra(fmt.Errorf("Macro GEN emitted nothing"))
		return
	}
	c.Cov("gen_cases_by_kind", feats)
	c.Cov("argument_pairs_different_trees", pairs)
	c.Cov("argument_pairs_same_compact_text", pairsCollide)
	c.Cov("exhaustive", false)
	c.Note("Macro GEN: %d states, %d sessions emitted, %d (session, layout) cases; stride=%d offset=%d core sites=%d depth2=%v maxops=%d",
		r.Distinct, sessions, len(cases), stride, offset, coreSites, depth2, maxOps)

	tGen := time.Since(c.Start)
	// 3. real code
	log.SetOutput(io.Discard) // the interpreter logs the panics / critical errors some inputs provoke; they are observed through the API
	defer log.SetOutput(os.Stderr)
	reals := make([]c13Real, len(cases))
	var recs []c13TraceRec
	skipped := 0
	for i, cs := range cases {
		reals[i] = c13Run(cs, true)
		last := cs.Ops[len(cs.Ops)-1]
		key := strings.Join(c13Inputs(cs.Ops, cs.Layout, true), "\n----\n") + fmt.Sprint("#", cs.Layout)
		if reals[i].Skip != "" {
			skipped++
			if skipped <= 3 {
				c.Note("skipped: %s", reals[i].Skip)
			}
			continue
		}
		c.Case(key, c13HasMacroCall(last.Prog, cs.Ops))
		if i%1500 == 0 {
			c.Sample(map[string]any{"macro_inputs": c13Inputs(cs.Ops, cs.Layout, true), "hand_substituted": c13RenderProgram(last.Out),
				"expanded_real": c13Print(reals[i].Exp.Node, true)})
		}
		recs = append(recs, c13TraceRec{ID: cs.ID, Defs: c13Defs(cs.Ops), Prog: last.Prog, Real: reals[i].Exp.Dump})
	}
	c.Cov("skipped_unrenderable", skipped)
	if skipped*20 > len(cases) {
		c.Infra(fmt.Errorf("%d of %d generated cases could not be rendered to source that parses back to the intended tree", skipped, len(cases)))
		return
	}

	tReal := time.Since(c.Start)
	// 4. TV: the expanded tree is the tree Macro!Subst predicts
	//    (Equiv_Trace judges the evaluation of every case beside it; its verdicts are used for the cases whose tree is right)
	var allEcs []equivCase
	for i := range cases {
		if reals[i].Skip == "" && reals[i].Exp.Panic == "" {
			allEcs = append(allEcs, equivCase{ID: i, A: reals[i].MacroObs, B: reals[i].HandObs})
		}
	}
	var ev map[int]equivVerdict
	var evErr error
	var evWG sync.WaitGroup
	evWG.Add(1)
	go func() {
		defer evWG.Done()
		ev, evErr = equivValidate(c, allEcs)
	}()
	verdicts, err := c13Validate(c, recs)
	evWG.Wait()
	if err != nil {
		c.Infra(err)
		return
	}
	var ecs []equivCase
	c02 := 0
	for i, cs := range cases {
		rr := reals[i]
		if rr.Skip != "" {
			continue
		}
		v, ok := verdicts[cs.ID]
		if !ok {
			c.Infra(fmt.Errorf("no Macro_Trace verdict for case %d", cs.ID))
			return
		}
		last := cs.Ops[len(cs.Ops)-1]
		if rr.Exp.Panic != "" {
			c.Fail(c13SigPanic, rr.Fail[0].What, c13Replay(cs))
			continue
		}
		if !v.OK {
			what := fmt.Sprintf("ExpandMacros gave %q, Macro!ExpandStmts predicts %q", c13Print(rr.Exp.Node, true), strings.TrimSpace(c13RenderProgram(last.Out)))
			switch v.Dev {
			case "CalleeNotRewritten", "CalleeNotRewritten+SharedArgAsMapKey":
				c.Fail(c13SigCallee, what, c13Replay(cs))
			case "SharedArgAsMapKey":
				c.Fail(c13SigMapKey, what, c13Replay(cs))
			default:
				c.Fail(c13SigTree, what, c13Replay(cs))
			}
			continue // the other clauses are judged on cases whose tree is right
		}
		c.AddTraces(1)
		for _, f := range rr.Fail {
			c.Fail(f.Sig, f.What, c13Replay(cs))
		}
		if len(rr.C02Notes) > 0 {
			if c02 < 3 {
				c.Note("C02 (printer, not C13): %s", rr.C02Notes[0])
			}
			c02++
		}
		ecs = append(ecs, equivCase{ID: i, A: rr.MacroObs, B: rr.HandObs})
	}
	// panics of the evaluator seen on the way (both sessions of a passing case, or either session of a known-finding case)
	// are C07's business; they are counted and the first ones are noted.
	panics := map[string]int{}
	for i, cs := range cases {
		for side, obs := range [][]inObs{reals[i].MacroObs, reals[i].HandObs} {
			for j, o := range obs {
				if strings.HasPrefix(o.Val, "panic:") {
					if panics[o.Val] == 0 && j >= 1 && j <= len(c13Inputs(cs.Ops, cs.Layout, side == 0)) {
						c.Note("C07 (not judged here): %s on input %q", o.Val, c13Inputs(cs.Ops, cs.Layout, side == 0)[j-1])
					}
					panics[o.Val]++
				}
			}
		}
	}
	c.Cov("evaluator_panics_seen", panics)
	c.Cov("c02_roundtrip_losses_shared_with_hand_substituted", c02)

	tTV := time.Since(c.Start)
	// 5. evaluation: macro session vs hand-substituted session (Equiv_Trace.tla decides)
	if evErr != nil {
		c.Infra(evErr)
		return
	}
	for _, ec := range ecs {
		v, ok := ev[ec.ID]
		if !ok {
			c.Infra(fmt.Errorf("no equivalence verdict for case %d", ec.ID))
			return
		}
		if v.OK {
			c.AddTraces(1)
			continue
		}
		c.Fail(c13SigEval, describeDiff(ec.A, ec.B, v.At), c13Replay(cases[ec.ID]))
	}

	c.Note("phase times (s since start): TLC sabotage + MC + GEN %.1f, real code %.1f, Macro_Trace %.1f, Equiv_Trace %.1f",
		tGen.Seconds(), tReal.Seconds(), tTV.Seconds(), time.Since(c.Start).Seconds())
	// 6. pinned reproducers of the listed findings (always run) and probes outside the statement
	for _, p := range c13PinnedCases {
		ok, msg, _, _ := c13RunPinned(p)
		c.Case("pinned:"+strings.Join(p.Macro, "\n"), true)
		if !ok {
			c.Fail(p.Sig, msg, map[string]any{"check": "pinned", "macro": p.Macro, "hand": p.Hand})
		}
	}
	for _, a := range []struct{ def, use string }{
		{"m = macro(a) { quote(if t { unquote(a) * 2 } else { [unquote(a), \"s\", 1.5, x] }) }", "m(x + 1)"},
		{"m = macro(a, b) { quote(func(q) { unquote(a) + unquote(a) + q }) }", "m(y, 3)"},
	} {
		between, within := c13Aliasing(a.def, a.use)
		c.Note("aliasing diagnostic `%s; %s`: node kinds shared between two expansions of the same call (i.e. with the stored template): %v; shared within one expanded tree: %v",
			a.def, a.use, between, within)
	}
	for _, p := range c13Probes {
		o, _ := runHistory([]string{p.src}, RunOpt{})
		val := o[0].Val
		if len(val) > 160 {
			val = val[:160] + "..."
		}
		c.Note("outside the statement: %s: `%s` -> out=%q err=%v %q", p.what, p.src, o[0].Out, o[0].Err, val)
	}

	// 7. binding self-test: a corrupted recorded tree must be rejected, a perturbed observation must be rejected
	if len(recs) > 0 {
		var bad []c13TraceRec
		for _, rc := range recs {
			s := canon(rc.Real)
			if strings.Contains(s, `"k":"id","n":"x"`) {
				var real []any
				_ = json.Unmarshal([]byte(strings.Replace(s, `"k":"id","n":"x"`, `"k":"id","n":"y"`, 1)), &real)
				bad = append(bad, c13TraceRec{ID: rc.ID, Defs: rc.Defs, Prog: rc.Prog, Real: real})
				if len(bad) == 3 {
					break
				}
			}
		}
		if len(bad) == 0 {
			c.Infra(fmt.Errorf("binding self-test: no recorded tree to corrupt"))
			return
		}
		vs, err := c13Validate(c, bad)
		if err != nil {
			c.Infra(err)
			return
		}
		for _, b := range bad {
			if vs[b.ID].OK && verdicts[b.ID].OK {
				c.Infra(fmt.Errorf("vacuous binding: a corrupted expanded tree was accepted by Macro_Trace (case %d)", b.ID))
				return
			}
		}
		c.Cov("sabotage_rejected", true)
	}
}

// ---------------------------------------------------------------------------------- replay

func replayC13(rp map[string]any) (bool, string) {
	if rp["check"] == "pinned" {
		var p c13Pinned
		b, _ := json.Marshal(rp["macro"])
		_ = json.Unmarshal(b, &p.Macro)
		b, _ = json.Marshal(rp["hand"])
		_ = json.Unmarshal(b, &p.Hand)
		ok, msg, _, _ := c13RunPinned(p)
		return ok, msg
	}
	var cs c13Case
	b, _ := json.Marshal(rp["ops"])
	if err := json.Unmarshal(b, &cs.Ops); err != nil || len(cs.Ops) == 0 {
		return false, "replay file has no ops"
	}
	if l, ok := rp["layout"].(float64); ok {
		cs.Layout = int(l)
	}
	rr := c13Run(cs, true)
	if rr.Skip != "" {
		return false, "not judged: " + rr.Skip
	}
	last := cs.Ops[len(cs.Ops)-1]
	if canon(rr.Exp.Dump) != canon(c13Norm(last.Out)) {
		return false, fmt.Sprintf("ExpandMacros gave %q, expected %q", c13Print(rr.Exp.Node, true), strings.TrimSpace(c13RenderProgram(last.Out)))
	}
	if len(rr.Fail) > 0 {
		return false, rr.Fail[0].Sig + ": " + rr.Fail[0].What
	}
	if len(rr.MacroObs) != len(rr.HandObs) {
		return false, "different number of observations"
	}
	for i := range rr.MacroObs {
		if rr.MacroObs[i] != rr.HandObs[i] {
			return false, describeDiff(rr.MacroObs, rr.HandObs, i+1)
		}
	}
	return true, ""
}
