package main

// C04 - automatic memoization is unobservable (spec/Memo.tla, spec/Equiv_Trace.tla).

import (
	"encoding/json"
	"fmt"
	"math/rand"
	"os"
	"path/filepath"
	"regexp"
	"strings"
	"time"

	"grol.io/grol/object"
)

var vcountN int64

func init() {
	props["C04"] = propDef{check: checkC04, replay: replayC04,
		rule: "case = one REPL session history (TLC-explored Memo.tla behaviour instantiated as inputs, or a generated program split into inputs) run with the function-result cache on and off (hook H1) on persistent states; distinct by source text; non-trivial when a function is called at least twice or a definition changes between calls"}
}

// registerVerifExtensions adds the harness' own extensions through the public API (no hook needed):
// vcount() is a deterministic impure function (DontCache), reset per run by vreset().
func registerVerifExtensions() {
	_ = object.CreateFunction(object.Extension{Name: "vcount", MinArgs: 0, MaxArgs: 0, DontCache: true,
		Callback: func(_ any, _ string, _ []object.Object) object.Object {
			vcountN++
			return object.Integer{Value: vcountN}
		}})
	// vgate() is impure too and FAILS on every odd call of a run: an extension whose error depends on outside state
	_ = object.CreateFunction(object.Extension{Name: "vgate", MinArgs: 0, MaxArgs: 0, DontCache: true,
		Callback: func(_ any, _ string, _ []object.Object) object.Object {
			vcountN++
			if vcountN%2 == 1 {
				return object.Error{Value: "vgate: closed"}
			}
			return object.Integer{Value: vcountN}
		}})
}

type memoOp struct {
	Op   string `json:"op"`
	Kind string `json:"kind"`
	Cap  string `json:"cap"`
	A    int    `json:"a"`
	V    int    `json:"v"`
}

var memoPrelude = []string{
	"g = 0", "G = 10", "h = func(x) {x + 1}",
	"fpure = func(x) {x * 2}", "flower = func(x) {x + g}", "fupper = func(x) {x + G}", "fcallee = func(x) {h(x)}",
	`fprint = func(x) {println("in fprint", x); x}`, `ferror = func(x) {error("bad", x)}`, "fimpure = func(x) {x + vcount()}",
	`fneed = func(x) {if g == 0 {error("no")}; x + g}`, "fcatchlower = func(x) {r = catch(fneed(x)); if r.err {-1} else {r.value}}",
	"fwraplower = func(x) {flower(x)}", "finv = func(x) {1 / x}", "hset = func(k) {h = func(x) {x + k}}",
	"mklower = func(v) {func(y) {y + v}}", "mkupper = func(V) {func(y) {y + V}}", "mkfunc = func(c) {func(y) {c(y)}}",
	// other ways of performing the same redefinitions / mutations (chosen by the instantiation variant)
	"hset2 = func(k) {old = h; h = func(x) {x + k}; old(0)}", "hset3 = func(k) {h(0); t = func() {h = func(x) {x + k}}; t()}",
	"gflip = func() {g = 1 - g}", "gflip2 = func() {t = g; g = 1 - t; t}", "cset = func(v) {del(G); G = v}",
	"fcatchgate = func(x) {r = catch(vgate()); if r.err {-1} else {r.value}}", "box = func(q) {[q]}",
	// (Memo.tla: absentread / absentwrite / groupl / groupr / mk)
	"fabsentread = func(x) {[x, catch(y).err]}", "fabsentwrite = func(x) {y = 5; y + x}", "fgroupl = func(a) {[a] + (1 + 2)}", "fgroupr = func(a) {[a] + 1 + 2}",
	"mkc = func(n) {c = n; func() {c = c + 1; c}}",
}

// instantiateMemo turns a model history into REPL inputs. variant selects, per operation, one of the equivalent
// source forms of a redefinition or mutation (variant 0 = the plain forms).
func instantiateMemo(ops []memoOp, variant int) []string {
	in := append([]string{}, memoPrelude...)
	hver, cst, mks := 1, 10, 0
	for oi, op := range ops {
		pickv := func(forms ...string) string {
			if variant <= 2 && len(forms) >= 3 {
				return forms[(variant+oi)%3] // variants 0..2 together put each of the first three forms at every position
			}
			return forms[(variant+oi)%len(forms)]
		}
		switch op.Op {
		case "call":
			if op.Kind == "inv" {
				in = append(in, fmt.Sprintf("println(finv(%s))", []string{"0.0", "-0.0"}[op.A-1]))
			} else {
				in = append(in, fmt.Sprintf("println(f%s(%d))", op.Kind, op.A))
			}
		case "closure":
			switch op.Cap {
			case "func":
				in = append(in, fmt.Sprintf("println(mkfunc(func(z) {z + %d})(%d))", op.V, op.A))
			default:
				in = append(in, fmt.Sprintf("println(mk%s(%d)(%d))", op.Cap, op.V, op.A))
			}
		case "box":
			in = append(in, fmt.Sprintf("println(box(mklower(%d))[0](0))", op.V))
		case "mk": // every closure made so far is advanced once more after the new one: two that are one closure show it
			mks++
			in = append(in, fmt.Sprintf("k%d = mkc(0); println(k%d())", mks, mks))
			for k := 1; k < mks; k++ {
				in = append(in, fmt.Sprintf("println(k%d())", k))
			}
		case "definey":
			in = append(in, pickv("y = 1", "y := 1", "func() {y = 1}()"))
		case "ready":
			in = append(in, "println(y)")
		case "mutate":
			in = append(in, pickv("g = 1 - g", "gflip()", "g := 1 - g", "gflip2()", "g++; g = g % 2"))
		case "redefh":
			hver = 3 - hver
			in = append(in, fmt.Sprintf(pickv("h = func(x) {x + %d}", "h := func(x) {x + %d}", "del(h); h = func(x) {x + %d}", "h = (x => x + %d)", "h = func(x) {x + %d}"), hver))
		case "redefhinside":
			hver = 3 - hver
			in = append(in, fmt.Sprintf(pickv("hset(%d)", "hset2(%d)", "hset3(%d)", "hset2(%d)", "hset3(%d)"), hver))
		case "redefconst":
			cst = 30 - cst
			switch pickv("a", "b", "c") {
			case "b":
				in = append(in, fmt.Sprintf("cset(%d)", cst))
			case "c":
				in = append(in, "del(G)", fmt.Sprintf("G := %d", cst))
			default:
				in = append(in, "del(G)", fmt.Sprintf("G = %d", cst))
			}
		}
	}
	return in
}

// inputs carrying c10ShortMark run under a 5 ms deadline (a deadline that expires inside a call, then the same call again)
func runMemoPair(inputs []string) (a, b []inObs) {
	vcountN = 0
	a, _ = runHistory(inputs, RunOpt{ShortFor: c10ShortMark, Short: 5 * time.Millisecond})
	vcountN = 0
	b, _ = runHistory(inputs, RunOpt{CacheOff: true, ShortFor: c10ShortMark, Short: 5 * time.Millisecond})
	for _, o := range [][]inObs{a, b} {
		for i := range o {
			// where exactly a deadline strikes inside the input that is given too little time is the machine's business: that input
			// is there for what it leaves behind; and the memory guard's message carries byte counts of the moment
			if strings.Contains(inputs[i], c10ShortMark) {
				o[i] = inObs{}
			}
			o[i].Val = reMemGuardNumbers.ReplaceAllString(o[i].Val, "would exceed memory requesting N objects, M free")
			o[i].Out = reMemGuardNumbers.ReplaceAllString(o[i].Out, "would exceed memory requesting N objects, M free")
		}
	}
	return
}

var reMemGuardNumbers = regexp.MustCompile(`would exceed memory requesting \d+ objects, -?\d+ free`)

func memoSignature(inputs []string) string {
	joined := strings.Join(inputs, "\n")
	switch {
	case strings.Contains(joined, "mkupper(") || strings.Contains(joined, "mkfunc("):
		if strings.Contains(joined, "h = func(x) {x + 2}") || strings.Contains(joined, "del(G)") {
			break
		}
		return "memo-closures-with-same-text-share-entry"
	}
	if strings.Contains(joined, "h = func(x) {x + 2}") || strings.Contains(joined, "del(G)") {
		return "memo-stale-after-redefinition"
	}
	return "memo-observable"
}

func checkC04(c *Ctx) {
	// 1. design level: each exemption of the pinned tree, without its guard, serves a stale hit
	devNames := []string{"ExemptOnlyTopLevel", "ResetOnRedefinition", "MissPropagates", "ZeroSignDistinct", "ImpureErrorIsMiss", "FuncArgsUnhashable",
		"AbsentNameIsMiss", "NewNameDropsCache", "FunctionResultsNotStored", "KeyKeepsGrouping", "WorldExtensionsMarked"}
	memoCfg := func(maxOps int, off int, emit bool) string {
		var sb strings.Builder
		fmt.Fprintf(&sb, "CONSTANTS\n MaxOps = %d\n", maxOps)
		for i, n := range devNames {
			v := "TRUE"
			if i == off {
				v = "FALSE"
			}
			fmt.Fprintf(&sb, " %s = %s\n", n, v)
		}
		e := "FALSE"
		if emit {
			e = "TRUE"
		}
		// (the world-dependent extensions are replayed by the world sessions of section 6, in child processes)
		fmt.Fprintf(&sb, " GenKinds = {\"pure\", \"lower\", \"upper\", \"callee\", \"print\", \"error\", \"impure\", \"wraplower\", \"inv\", \"catchlower\", \"catchgate\", \"absentread\", \"absentwrite\", \"groupl\", \"groupr\"}\n")
		fmt.Fprintf(&sb, " EmitOn = %s\nINIT Init\nNEXT Next\nVIEW view\nINVARIANTS ObsCorrect HitSound\n", e)
		return sb.String()
	}
	for d := range devNames {
		r, err := c.TLC(TLCOpt{Spec: "Memo", Cfg: memoCfg(4, d, false), Workers: 4, AllowError: true})
		if err != nil {
			c.Infra(err)
			return
		}
		if r.InvViolated == "" {
			c.Infra(fmt.Errorf("Memo.tla with %s = FALSE satisfied its invariants (vacuous model)", devNames[d]))
			return
		}
	}
	c.Cov("design_counterexamples", strings.Join(devNames, ", ")+" = FALSE each violate ObsCorrect / HitSound (stale hit)")

	// 2. MC + GEN
	maxOps := c.Pick(4, 5)
	cfg := memoCfg(maxOps, -1, true)
	r, err := c.TLC(TLCOpt{Spec: "Memo", Cfg: cfg, Workers: 8})
	if err != nil {
		c.Infra(err)
		return
	}
	var cases [][]string
	var ecs []equivCase
	seen := map[string]bool{}
	n := 0
	stride := c.Pick(16, 9)
	err = ReadLines(r.Emitted, func(line []byte) error {
		var g struct {
			H []memoOp `json:"h"`
		}
		if err := json.Unmarshal(line, &g); err != nil {
			return err
		}
		n++
		if (n+int(c.Seed))%stride != 0 {
			return nil
		}
		variants := []int{0, 1, 2}
		if c.Thorough() {
			variants = []int{0, 1, 2, 3, 4}
		}
		for _, variant := range variants {
			in := instantiateMemo(g.H, variant)
			key := strings.Join(in, "\n")
			if seen[key] {
				continue
			}
			seen[key] = true
			a, b := runMemoPair(in)
			ecs = append(ecs, equivCase{ID: len(cases), A: a, B: b})
			cases = append(cases, in)
			c.Case(key, true)
			if len(cases)%2000 == 1 {
				c.Sample(map[string]any{"ops": g.H, "variant": variant, "inputs": in[len(memoPrelude):]})
			}
		}
		return nil
	})
	if err != nil {
		c.Infra(err)
		return
	}
	c.Cov("memo_histories_emitted", n)

	// 3. random programs, each statement its own REPL input (session persistence), and whole
	nr := c.Pick(400, 12000)
	off := genOffFromLedger(c)
	for i := 0; i < nr; i++ {
		g := NewGen(rand.New(rand.NewSource(c.Seed*5000011 + int64(i))))
		if i%2 == 1 {
			g.PLib = 12 // every other program also calls the modelled library (extension functions, abs, keys)
		}
		for f := range off {
			g.Off[f] = true
		}
		prog := g.Program(4 + g.pick(8))
		var in []string
		if i%2 == 0 {
			for _, st := range prog {
				in = append(in, renderProgram([]any{st}))
			}
			// call every defined function again at the end: repeated calls are where a cache shows
			in = append(in, in...)
		} else {
			src := renderProgram(prog)
			in = []string{src, src}
		}
		a, b := runMemoPair(in)
		ecs = append(ecs, equivCase{ID: len(cases), A: a, B: b})
		cases = append(cases, in)
		c.Case(strings.Join(in, "\n"), g.Used["func"])
	}
	// 4. pinned reproducers (listed findings and fixed defects stay as regression cases)
	pinned := [][]string{
		{"h = func(x) {x + 1}", "f = func(x) {h(x)}", "println(f(1))", "h = func(x) {x + 2}", "println(f(1))"},
		{"mk = func(C) {func(y) {y + C}}", "println(mk(1)(5))", "println(mk(2)(5))"},
		{"mk = func(c) {func(y) {c(y)}}", "println(mk(func(z) {z + 1})(5))", "println(mk(func(z) {z + 2})(5))"},
		{"G = 1", "f = func(x) {x + G}", "println(f(1))", "del(G)", "G = 2", "println(f(1))"},
		{`f = func(x) {println("side", x); x}`, "println(f(1))", "println(f(1))", "println(f(1), f(1))"},
		{"f = func(a, b, c, d, e) {a + e}", "println(f(1, 2, 3, 4, 5))", "println(f(1, 2, 3, 4, 6))"},
		{"x = 1", "g = func() {x}", "f = func() {g()}", "println(f())", "x = 2", "println(f())"},
		{"h = func(x) {x + 1}", "f = func(x) {h(x)}", "println(f(1))", "set = func() {h = func(x) {x + 2}}", "set()", "println(f(1))"},
		{"f = func(x) {1 / x}", "println(f(0.0))", "println(f(-0.0))", "println(f(0.0))"},
		{"cfg = 0", `need = func() {if cfg == 0 {error("no cfg")}; cfg}`, "chk = func() {catch(need()).err}", "println(chk())", "cfg = 1", "println(chk())"},
		{`need = func() {if info.globals.cfg == nil {error("no cfg")}; 1}`, "chk = func() {catch(need()).err}", "println(chk())", "cfg = 1", "println(chk())"},
		{"f = func(a) {len(a)}", "println(f([1, 2]))", "println(f([1, 2, 3]))", `println(f({"a": 1}))`},
		{"f = func(x) {x + vcount()}", "println(f(1))", "println(f(1))"},
		{`f = func(x) {if x > 1 {error("e")} else {x}}`, "println(catch(f(2)).err)", "println(catch(f(2)).err)"},
	}
	// 4b. every function kind called before and after every source form of every mutation / redefinition (deterministic, not sampled)
	for _, kind := range []string{"pure", "lower", "upper", "callee", "print", "error", "impure", "need", "catchlower", "wraplower"} {
		for _, change := range []string{"g = 1 - g", "g := 1 - g", "gflip()", "gflip2()", "g++; g = g % 2",
			"h = func(x) {x + 2}", "h := func(x) {x + 2}", "del(h); h = func(x) {x + 2}", "h = (x => x + 2)", "func h(x) {x + 2}",
			"hset(2)", "hset2(2)", "hset3(2)", "del(G); G = 20", "cset(20)", "del(G); G := 20"} {
			call := "println(catch(f" + kind + "(1)))"
			pinned = append(pinned, append(append([]string{}, memoPrelude...), call, change, call, call))
		}
	}
	// 4c. a printing callee reached from every syntactic position of a memoized caller: the replayed output of a hit must be
	//     the output of the first run, whatever construct the inner call sits in
	for _, pos := range []string{`{"n": x, "sq": P}`, `{P: 1}`, `[x, P]`, `[1, 2, 3][P % 3]`, `fadd2(x, P)`, `x + P`, `-P`, `if P > 0 {1} else {2}`, `if x > 0 {P} else {0}`, `for P {1}`,
		`for i = 2 {P}`, `(1:9)[P:]`, `(1:9)[0:P]`, `y = P; y`, `return P`, `(() => P)()`, `[P, P]`, `{"a": {"b": [P]}}`, `catch(P).value`, `len([P])`, `first([P])`, `P == P`, `x > 0 && P > 0`,
		`str(P)`, `min(x, P)`, `(n => n + 1)(P)`, `m = {}; m[P] = 1; len(m)`, `a = [0, 0]; a[P % 2] = 5; a`} {
		body := strings.ReplaceAll(pos, "P", "fprint(x)")
		pinned = append(pinned, append(append([]string{}, memoPrelude...), "fadd2 = func(a, b) {a + b}", "fw = func(x) {"+body+"}", "println(catch(fw(1)))", "println(catch(fw(1)))", "println(catch(fw(2)), catch(fw(1)))"))
	}
	// 4d. an impure extension that fails or succeeds depending on outside state, caught inside a user function; closures with the
	//     same text and different captured values passed to functions that only store or return them
	for _, in := range [][]string{
		{"fg = func(x) {r = catch(vgate()); if r.err {-1} else {r.value}}", "println(fg(1))", "println(fg(1))", "println(fg(1), fg(1))", "println(fg(2))"},
		{"fg = func(x) {catch(vgate()).err}", "w = func(x) {fg(x)}", "println(w(1))", "println(w(1))", "println(w(1), w(1))"},
		{"mk = func(v) {func(y) {y + v}}", "box = func(g) {[g]}", "println(box(mk(1))[0](0))", "println(box(mk(2))[0](0))", "println(box(mk(1))[0](0), box(mk(3))[0](0))"},
		{"mk = func(v) {func(y) {y + v}}", "pick = func(g, h) {g}", "println(pick(mk(1), mk(5))(0))", "println(pick(mk(2), mk(5))(0))", "println(pick(mk(1), mk(6))(0))"},
		{"mk = func(v) {func(y) {y + v}}", "compose = func(g, h) {func(x) {g(h(x))}}", "println(compose(mk(10), mk(10))(0))", "println(compose(mk(1), mk(1))(0))", "println(compose(mk(10), mk(1))(0))"},
		{"mk = func(v) {func(y) {y + v}}", `hold = func(g) {{"f": g}}`, "println(hold(mk(4)).f(0))", "println(hold(mk(3)).f(0))"},
		{"mk = func(v) {func() {v}}", "ident = func(g) {g}", "println(ident(mk([1]))())", "println(ident(mk([2]))())", `println(ident(mk("s"))())`},
		{"mk = func(v) {func(y) {y + v}}", "app = func(g, x) {g(x)}", "println(app(mk(1), 1))", "println(app(mk(2), 1))", "println(app(mk(1), 1))"},
	} {
		pinned = append(pinned, in)
	}
	// 4e. what the cache key leaves out.
	//  (i) names that do not exist yet when the call is remembered: reading one fails and assigning one makes a local, until some
	//      enclosing scope defines it, after which the same call reads / writes that variable
	for _, body := range []string{"catch(y).err", "y = 5; y", "catch(y + 1).value", "catch(y()).err", "y = [1]; y[0]", "if catch(y).err {0} else {y}", "for i = 1 {y = 7}; 1"} {
		for _, def := range []string{"y = 1", "y := 1", "func y() {2}", "y = (() => 3)", "sety = func() {y = 4}; sety()", "for i = 1 {y = 6}"} {
			pinned = append(pinned, []string{"f = func() {" + body + "}", "println(catch(f()))", "println(catch(f()))", def, "println(catch(f()))", "println(catch(y))", "println(catch(f()), catch(y))"})
			pinned = append(pinned, []string{"mk = func() {g = func() {" + body + "}; r1 = catch(g()); " + def + "; r2 = catch(g()); [r1, r2, catch(y)]}", "println(catch(mk()))", "println(catch(mk()))"})
			pinned = append(pinned, []string{"f = func(x) {" + body + "}", "w = func(x) {f(x)}", "println(catch(w(1)))", def, "println(catch(w(1)), catch(y))"})
		}
	}
	//  (ii) two functions whose texts differ only in what a compact print could drop (grouping of the same operator, a statement
	//      boundary before a sign / bracket / parenthesis, a comment): each must compute its own result
	for _, pr := range [][2]string{{"a + (b + c)", "a + b + c"}, {"a * (b * c)", "a * b * c"}, {"a - (b - c)", "a - b - c"}, {"a / (b / c)", "a / b / c"}, {"(a + b) + c", "a + (b + c)"},
		{"a + (b - c)", "a + b - c"}, {"a - (b + c)", "a - b + c"}, {"a * (b / c)", "a * b / c"}, {"a * (b % c)", "a * b % c"}, {"a; -b", "a - b"}, {"a; +b", "a + b"}, {"a; [b]", "a[b]"}, {"a; (b)", "a(b)"},
		{"a /* c */ + b", "a + b"}, {"a + b // c\n", "a + b + c"}, {"a + (b + (c + a))", "a + b + c + a"}, {"-(a + b) + c", "-a + b + c"}, {"a == (b == c)", "a == b == c"}, {"a < (b < c)", "a < b < c"},
		{"a && (b || c)", "a && b || c"}, {"a | (b & c)", "a | b & c"}, {"a << (b << c)", "a << b << c"}, {"(a, b, c)", "a"}, {"[a + (b + c)]", "[a + b + c]"}, {"x = a + (b + c); x", "x = a + b + c; x"},
		{"(() => a + (b + c))()", "(() => a + b + c)()"}} {
		for _, args := range []string{"[1], 2, 3", `"s", 1, 2`, "0.1, 0.2, 0.3", "1e308, 1e308, -1e308", "[1], [2], [3]", "7, 2, 3", `1, 2, "s"`, "true, false, true", "[1, 2, 3], 1, 1", "(x => x + 1), 1, 2"} {
			if !c.Thorough() && memoHash(pr[0]+args+fmt.Sprint(c.Seed))%4 != 0 {
				continue
			}
			f, g := "f = func(a, b, c) {"+pr[0]+"}", "g = func(a, b, c) {"+pr[1]+"}"
			pinned = append(pinned, []string{f, g, "println(catch(f(" + args + ")))", "println(catch(g(" + args + ")))", "println(catch(f(" + args + ")), catch(g(" + args + ")))"})
			pinned = append(pinned, []string{f, g, "println(catch(g(" + args + ")))", "println(catch(f(" + args + ")))"})
		}
	}
	// the named shape, always: + on an array groups differently
	pinned = append(pinned, []string{"f = func(a, b, c) {a + (b + c)}", "g = func(a, b, c) {a + b + c}", "println(f([1], 2, 3))", "println(g([1], 2, 3))"})
	//  (iii) a call whose result holds a function: the function carries the variables of the call that made it, two calls with
	//      the same arguments must not hand out the same ones
	for _, holder := range []string{"F", "[F]", `{"f": F}`, "[[F], 1]", `{"k": [F]}`, "[n, F]"} {
		for _, st := range [][2]string{{"c = n", "c = c + 1; c"}, {"c = [n]", "c = c + [1]; len(c)"}, {"c = {1: n}", "c[len(c) + 1] = 1; len(c)"}, {"c := n", "c++; c"}} {
			get := map[string]string{"F": "R", "[F]": "R[0]", `{"f": F}`: "R.f", "[[F], 1]": "R[0][0]", `{"k": [F]}`: "R.k[0]", "[n, F]": "R[1]"}[holder]
			mk := "mk = func(n) {" + st[0] + "; " + strings.ReplaceAll(holder, "F", "func() {"+st[1]+"}") + "}"
			ga, gb := strings.ReplaceAll(get, "R", "a"), strings.ReplaceAll(get, "R", "b")
			pinned = append(pinned, []string{mk, "a = mk(0)", "b = mk(0)", "println(" + ga + "(), " + ga + "(), " + gb + "())", "d = mk(0)", "println(" + strings.ReplaceAll(get, "R", "d") + "(), " + gb + "())"})
			pinned = append(pinned, []string{mk, "w = func(n) {mk(n)}", "a = w(0)", "b = w(0)", "println(" + ga + "(), " + ga + "(), " + gb + "())"})
		}
	}
	//  (iv) containers that shrank before being passed: what was removed must neither reach the key nor break it
	for _, v := range []string{"(x => x)", "(0:12)", "{1: (x => x)}", "-0.0", "nil", `"s"`, "[(x => x)]", "2.5"} {
		for _, mk := range []string{"m = {1: 1, 2: V}; del(m[2])", "m = {1: 1, 2: 2, 3: V}; del(m[3]); del(m[2])", "m = {1: V, 2: 1}; del(m[1])", "m = [1, V][0:1]", "m = rest([V, 1])",
			"m = {1: 1, 2: V}; m = rest(m)", `m = {"k": {1: 1, 2: V}}; del(m.k[2])`, "m = {1: 1, 2: 2, 3: 3, 4: 4, 5: V}; del(m[5])", "m = [{1: 1, 2: V}]; del(m[0][2])"} {
			pinned = append(pinned, []string{strings.ReplaceAll(mk, "V", v), `f = func(q) {println("called", q); len(q)}`, "println(catch(f(m)))", "println(catch(f(m)))", "n = m", "println(catch(f(n)))",
				"println(catch(f({1: 1})), catch(f([1])), catch(f(m)))"})
		}
	}
	//  (v) scopes that are not the lexical ones: a self call runs with the calling frame as its outer scope; a macro body is
	//      evaluated in a scope of its own hanging off the macro store
	for _, def := range []string{"y = 7", "y := 7", "for k = 1 {y = 7}", "func() {y = 7}()"} {
		for _, body := range []string{"y = 5; return y", "return catch(y).err", "y = 5; return [y, n]"} {
			pinned = append(pinned, []string{"func t(n) {if n == 0 {" + body + "}; if n == 1 {r = t(0); " + def + "; r2 = t(0); return [r, r2, y]}; return -1}", "println(catch(t(1)))", "println(catch(t(1)), catch(t(0)))"})
			pinned = append(pinned, []string{"t = func(n) {if n == 0 {" + body + "}; if n == 1 {r = self(0); " + def + "; r2 = self(0); return [r, r2, y]}; return -1}", "println(catch(t(1)))", "println(catch(t(0)), catch(t(1)))"})
		}
	}
	for _, redef := range []string{"g = func() {2}", "g := func() {2}", "del(g); g = func() {2}", "func g() {2}", "K = 1; del(K); K = 2"} {
		pinned = append(pinned, []string{`m = macro() {g = func() {1}; K = 1; f = func() {[g(), K]}; a = f(); ` + redef + `; b = f(); if a == b {quote("same")} else {quote("changed")}}`, "println(m())", "println(m())"})
		//  (vi) a definition replaced while a call that used the old one is still running: what that call returns was computed
		//      with the old definition
		pinned = append(pinned, []string{"g = func() {1}", "K = 1", "h = func() {0}", "f = func() {a = [g(), K]; " + redef + "; h(); a}", "println(catch(f()))", "println(catch(f()))", "println(catch(f()), g())"})
		pinned = append(pinned, []string{"g = func() {1}", "K = 1", "h = func(x) {x}", "f = func(x) {a = [g(), K]; " + redef + "; [h(x), a]}", "w = func(x) {f(x)}", "println(catch(w(1)))", "println(catch(w(1)))"})
	}
	//  (viii) macro bodies are evaluated by an evaluator of their own: what it memoizes and what the program memoizes stay apart,
	//      and two expansions of one macro do not share results
	for _, in := range [][]string{
		{"m = macro(X) {id = func() {X}; id()}", "println(m(1 + 1))", "println(m(5 * 5))", "println(m(1 + 1), m(7))"},
		{"m = macro(X) {id = func(q) {[q, X]}; id(1)[1]}", "println(m(2))", "println(m(3))", "f = func() {m(4)}; println(f(), m(5))"},
		{"h = func() {1}", "f = func() {h()}", "println(f())", `m = macro() {h = func() {2}; f = func() {h()}; r = f(); if r == 2 {quote("body-h")} else {quote("program-h")}}`, "println(m())", "println(f())", "println(m(), f())"},
		{"g = func(x) {x * 2}", "println(g(3))", `m = macro(a) {g = func(x) {x * 3}; r = g(3); if r == 9 {quote(unquote(a) + 9)} else {quote(unquote(a) + 6)}}`, "println(m(0))", "println(g(3), m(1))"},
		{"K = 1", "f = func() {K}", "println(f())", `m = macro() {K = 2; f = func() {K}; if f() == 2 {quote("body-K")} else {quote("program-K")}}`, "println(m())", "println(f(), m())"},
	} {
		pinned = append(pinned, in)
	}
	//  (vii) an evaluation that ran out of time: the deadline error absorbed by catch() is not a result
	for _, f := range []string{"f = func(n) {catch(slow(n)).err}", "f = func(n) {r = catch(slow(n)); if r.err {-1} else {r.value}}", "f = func(n) {[catch(slow(n)).err, n]}", "g = func(n) {catch(slow(n)).err}; f = func(n) {g(n)}"} {
		pinned = append(pinned, []string{"slow = func(n) {s = 0; for i = n {s = s + i}; s}", f, "println(f(2000000)) " + c10ShortMark, "println(f(2000000))", "println(f(2000000), f(10))"})
	}
	// 5. key confusion matrix: every function shape called with every ordered pair of argument lists that a sloppy cache key
	//    could identify (int / float / string of the same digits, 0.0 / -0.0 / 0, an array / its spread / its nesting,
	//    small / large containers, prefix-equal lists): the second and third call must not replay the first one's output
	argLists := []string{"1", "1.0", `"1"`, "true", "nil", "0", "0.0", "-0.0", "[1]", "[[1]]", "1, [2]", "1, [[2]]", "1, 2", "[1, 2]", "[[1, 2]]", "1, [2], [3]", "1, [2, [3]]",
		"{1: 1}", `{"1": 1}`, "[1, 2, 3, 4, 5, 6, 7, 8, 9]", "[1, 2, 3, 4, 5, 6, 7, 8, 9.0]", "1, 2, 3, 4, 5", "1, 2, 3, 4, 6", `[{1: [0.0]}]`, `[{1: [-0.0]}]`, "[0.0]", "[-0.0]", "{1: 0.0}", "{1: -0.0}", "{0.0: 1}", "{-0.0: 1}", "[1, 0.0], 2", "[1, -0.0], 2", "[]", "[[]]", `""`, "1, nil", "1, []"}
	shapes := []string{`f = func(..) {println("called", ..); [len(..), ..]}`, `f = func(a, ..) {println("called", a, ..); [a, len(..), ..]}`,
		`f = func(a) {println("called", a); [a, 1 / (if a == 0 {a} else {1})]}`, `f = func(a, b) {println("called", a, b); [a, b]}`,
		`f = func(a, b, c, d, e) {println("called", e); [a, e]}`, `g = func(a, ..) {[a, ..]}; f = func(a, ..) {println("called", a); g(a, ..)}`}
	for si, sh := range shapes {
		for i, x := range argLists {
			for j, y := range argLists {
				twins := strings.ReplaceAll(x, "-0.0", "0.0") == strings.ReplaceAll(y, "-0.0", "0.0") // differ by the sign of a zero only: never sampled out
				if i == j || (!twins && !c.Thorough() && (i*31+j*17+si+int(c.Seed))%3 != 0) {
					continue
				}
				pinned = append(pinned, []string{sh, "println(catch(f(" + x + ")))", "println(catch(f(" + y + ")))", "println(catch(f(" + x + ")))"})
			}
		}
	}
	for _, in := range pinned {
		a, b := runMemoPair(in)
		ecs = append(ecs, equivCase{ID: len(cases), A: a, B: b})
		cases = append(cases, in)
		c.Case("pinned:"+strings.Join(in, "\n"), true)
	}
	// 6. world sessions (c04_world.go): wrappers of the extensions that depend on stdin, clock, random source, files, images
	worldFrom := len(cases)
	for i, in := range memoWorldSessions() {
		a, err := runMemoWorld(filepath.Join(c.Scratch(), "memoworld"), i, in, memoWorldStdin, false)
		if err != nil {
			c.Infra(err)
			return
		}
		b, err := runMemoWorld(filepath.Join(c.Scratch(), "memoworld"), i, in, memoWorldStdin, true)
		if err != nil {
			c.Infra(err)
			return
		}
		ecs = append(ecs, equivCase{ID: len(cases), A: a, B: b})
		cases = append(cases, in)
		c.Case("world:"+strings.Join(in, "\n"), true)
	}
	c.Cov("world_sessions", len(cases)-worldFrom)
	vs, err := equivValidate(c, ecs)
	if err != nil {
		c.Infra(err)
		return
	}
	for i, in := range cases {
		v, ok := vs[i]
		if !ok {
			c.Infra(fmt.Errorf("no equivalence verdict for case %d", i))
			return
		}
		if v.OK {
			c.AddTraces(1)
			continue
		}
		if i >= worldFrom {
			c.Fail("memo-world-dependent-call-cached", describeDiff(ecs[i].A, ecs[i].B, v.At), map[string]any{"check": "memoworld", "inputs": in})
			continue
		}
		c.Fail(memoSignature(in), describeDiff(ecs[i].A, ecs[i].B, v.At), map[string]any{"check": "memo", "inputs": in})
	}
}

func memoHash(s string) uint32 {
	h := uint32(2166136261)
	for i := 0; i < len(s); i++ {
		h = (h ^ uint32(s[i])) * 16777619
	}
	return h >> 7
}

func replayC04(rp map[string]any) (bool, string) {
	var inputs []string
	b, _ := json.Marshal(rp["inputs"])
	_ = json.Unmarshal(b, &inputs)
	x, y := runMemoPair(inputs)
	if rp["check"] == "memoworld" {
		dir, err := os.MkdirTemp("", "verif-C04-replay-")
		if err != nil {
			return false, err.Error()
		}
		defer os.RemoveAll(dir)
		var e1, e2 error
		x, e1 = runMemoWorld(dir, 0, inputs, memoWorldStdin, false)
		y, e2 = runMemoWorld(dir, 0, inputs, memoWorldStdin, true)
		if e1 != nil || e2 != nil {
			return false, fmt.Sprint("infrastructure: ", e1, e2)
		}
	}
	for i := range x {
		if i >= len(y) || x[i] != y[i] {
			return false, describeDiff(x, y, i+1)
		}
	}
	return true, ""
}
