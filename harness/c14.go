package main

// C14 - saved state loads back to the same state (spec/SaveLoad.tla, spec/SaveLoad_Trace.tla).
//
// MC:  SaveLoad with the repaired printing/reading rules satisfies OneLinePerBinding, Sorted, RoundTrip,
//      SaveIdempotent, SkippedNotTruncated; each named deviation (the code's actual rule) yields the
//      design-level counterexample.
// GEN: TLC emits every environment of the universe defined in the spec with the model's prediction;
//      a saving child process builds it in a real eval.State and saves it (SaveGlobals, save(), AutoSave),
//      a loading child process reloads it in fresh sessions (repl.AutoLoad, load()), saves again and
//      calls the functions.
// TV:  one record per case; SaveLoad_Trace.tla decides each case (self-relative verdict).
// The Go side mirrors the verdict (cross-check), attributes failing cases to narrow signatures and
// compares with the model's prediction (model_disagreement notes, never a verdict).

import (
	"bytes"
	"context"
	"encoding/json"
	"fmt"
	"math"
	"os"
	"os/exec"
	"path/filepath"
	"runtime"
	"sort"
	"strconv"
	"strings"
	"sync"
	"time"
)

func init() {
	props["C14"] = propDef{check: checkC14, replay: replayC14,
		rule: "case = one environment (TLC-emitted from the value universe of SaveLoad.tla, or a seeded combination of emitted values) x one MaxValueLen, built in a real eval.State, saved by SaveGlobals/save()/AutoSave, reloaded in a fresh process by repl.AutoLoad and by load(), saved again, functions called on 12 argument kinds; distinct by (case id, limit); non-trivial when the environment has at least one user binding"}
}

var c14CodeDev = []string{"FloatNoPoint", "MinIntLiteral", "NameForms", "QuoteEscapes", "ClosureNoEnv", "FuncOwnName",
	"LossyFuncPrint", "ExtUsage", "QuoteMultiLine", "ScannerLimit", "NamedFuncNoLimit", "LiteralBindsOwnName"}

// deviation -> the invariant TLC must find violated when only that deviation is on
var c14DevInv = [][2]string{
	{"FloatNoPoint", "RoundTrip"}, {"MinIntLiteral", "RoundTrip"}, {"NameForms", "RoundTrip"}, {"QuoteEscapes", "RoundTrip"},
	{"ClosureNoEnv", "RoundTrip"}, {"FuncOwnName", "RoundTrip"}, {"LossyFuncPrint", "RoundTrip"}, {"ExtUsage", "RoundTrip"},
	{"QuoteMultiLine", "OneLinePerBinding"}, {"ScannerLimit", "RoundTrip"}, {"NamedFuncNoLimit", "SkippedNotTruncated"},
	{"Unsorted", "Sorted"}, {"Truncate", "SkippedNotTruncated"}, {"RawStrings", "OneLinePerBinding"},
	{"ScannerByLimit", "RoundTrip"}, {"StaleText", "RoundTrip"},
	{"SaveNoTrunc", "OneLinePerBinding"}, {"LiteralBindsOwnName", "RoundTrip"},
}

func c14Cfg(dev []string, maxLine int, scopes []string, limits []int, emit bool, invs []string, trace bool) string {
	q := func(xs []string) string {
		ys := make([]string, len(xs))
		for i, x := range xs {
			ys[i] = strconv.Quote(x)
		}
		return "{" + strings.Join(ys, ", ") + "}"
	}
	ls := make([]string, len(limits))
	for i, x := range limits {
		ls[i] = strconv.Itoa(x)
	}
	e := "FALSE"
	if emit {
		e = "TRUE"
	}
	s := fmt.Sprintf("CONSTANTS\n Dev = %s\n MaxLine = %d\n Preseeded = TRUE\n Scope = %s\n Limits = {%s}\n EmitOn = %s\n",
		q(dev), maxLine, q(scopes), strings.Join(ls, ", "), e)
	if trace {
		return s + "INIT TraceInit\nNEXT TraceNext\nPOSTCONDITION TraceAccepted\n"
	}
	s += "INIT Init\nNEXT Next\n"
	if emit {
		s += "CONSTRAINT GenStop\n" // GEN needs the emitted cases only (one per final save); what follows a save is model-checked in c14ModelCheck
	}
	if len(invs) > 0 {
		s += "INVARIANTS " + strings.Join(invs, " ") + "\n"
	}
	return s
}

// ---------------------------------------------------------------------------------- cases

type c14Case struct {
	ID      string            `json:"id"`
	Src     string            `json:"src"`
	Api     []string          `json:"api"`
	Lim     int               `json:"lim"`
	EnvRaw  []json.RawMessage `json:"env"`
	N       int               `json:"n"`
	Lines   []c14Line         `json:"lines"`
	LoadA   []json.RawMessage `json:"loadA"`
	LoadW   []json.RawMessage `json:"loadW"`
	ResaveA []c14Line         `json:"resaveA"`
	ResaveW []c14Line         `json:"resaveW"`
	Ext     []c14Line         `json:"ext"` // what save() leaves in the file the history left behind
	MV      map[string]bool   `json:"mv"`  // the model's own verdict under the code's rules
	// a session history (scope "hist"): the bindings it starts from, the steps run before the final save; Env is then
	// the model's idea of what the session holds at the end
	Env0Raw []json.RawMessage `json:"env0"`
	Steps   []c14Step         `json:"steps"`

	Env    []c14Bind `json:"-"`
	Env0   []c14Bind `json:"-"` // what the api names are bound to (= Env when there are no steps)
	Extra  []c14Val  `json:"-"` // further injected values the steps of a seeded history refer to (c14val(len(api)+i))
	Random bool      `json:"-"` // built by the harness from emitted values: no model prediction attached
}

// c14Line is one predicted line: JSON array of byte values, or {"r": [[byte, count], ..]} for long lines.
type c14Line string

func (l *c14Line) UnmarshalJSON(b []byte) error {
	if len(b) > 0 && b[0] == '{' {
		var v c14Val
		if err := json.Unmarshal(b, &v); err != nil {
			return err
		}
		*l = c14Line(v.bytes())
		return nil
	}
	var xs []int
	if err := json.Unmarshal(b, &xs); err != nil {
		return err
	}
	*l = c14Line(bytesOf(xs))
	return nil
}

func (cs *c14Case) key() string { return fmt.Sprintf("%s|%d", cs.ID, cs.Lim) }

func (cs *c14Case) job() c14Job {
	j := c14Job{ID: cs.key(), Src: cs.Src, Lim: cs.Lim, Steps: cs.Steps, Extra: cs.Extra}
	start := cs.Env
	if len(cs.Steps) > 0 {
		start = cs.Env0
	}
	for _, n := range cs.Api {
		for _, b := range start {
			if b.Name == n {
				j.Api = append(j.Api, c14ApiBind{Name: n, Val: b.Val})
			}
		}
	}
	return j
}

func (cs *c14Case) model(name string) (c14Val, bool) {
	for _, b := range cs.Env {
		if b.Name == name {
			return b.Val, true
		}
	}
	return c14Val{}, false
}

func c14ReadCases(path string) ([]*c14Case, error) {
	var res []*c14Case
	err := ReadLines(path, func(line []byte) error {
		cs := &c14Case{}
		if err := json.Unmarshal(line, cs); err != nil {
			return fmt.Errorf("GEN line: %v: %.120s", err, line)
		}
		env, err := c14Pairs(cs.EnvRaw)
		if err != nil {
			return err
		}
		cs.Env = env
		if cs.Env0, err = c14Pairs(cs.Env0Raw); err != nil {
			return err
		}
		res = append(res, cs)
		return nil
	})
	sort.SliceStable(res, func(i, j int) bool { return res[i].key() < res[j].key() })
	return res, err
}

// ---------------------------------------------------------------------------------- running the children

type c14Run struct {
	Save c14SaveRec
	Load c14LoadRec
}

func c14Exec(dir string, args ...string) error {
	exe, err := os.Executable()
	if err != nil {
		return err
	}
	if err := os.MkdirAll(dir, 0o755); err != nil {
		return err
	}
	ctx, cancel := context.WithTimeout(context.Background(), 8*time.Minute)
	defer cancel()
	cmd := exec.CommandContext(ctx, exe, append([]string{"worker", "c14"}, args...)...)
	cmd.Dir = dir
	var errb bytes.Buffer
	cmd.Stderr = &errb
	cmd.Stdout = &errb
	if err := cmd.Run(); err != nil {
		msg := errb.String()
		if len(msg) > 1500 {
			msg = msg[len(msg)-1500:]
		}
		return fmt.Errorf("c14 child %v in %s: %v: %s", args[:1], dir, err, msg)
	}
	return nil
}

func c14WriteNdjson(path string, n int, item func(i int) any) error {
	var buf bytes.Buffer
	enc := json.NewEncoder(&buf)
	for i := 0; i < n; i++ {
		if err := enc.Encode(item(i)); err != nil {
			return err
		}
	}
	return os.WriteFile(path, buf.Bytes(), 0o644)
}

// c14RunJobs runs the jobs in `par` shards: a saving process and then a loading process per shard, each in
// its own scratch cwd. Results are keyed by job id.
func c14RunJobs(root string, jobs []c14Job, par int) (map[string]*c14Run, error) {
	if par < 1 {
		par = 1
	}
	if par > len(jobs) {
		par = len(jobs)
	}
	res := map[string]*c14Run{}
	if len(jobs) == 0 {
		return res, nil
	}
	var mu sync.Mutex
	var firstErr error
	var wg sync.WaitGroup
	for sh := 0; sh < par; sh++ {
		var mine []c14Job
		for i := sh; i < len(jobs); i += par {
			mine = append(mine, jobs[i])
		}
		wg.Add(1)
		go func(sh int, mine []c14Job) {
			defer wg.Done()
			fail := func(err error) {
				mu.Lock()
				if firstErr == nil {
					firstErr = err
				}
				mu.Unlock()
			}
			dir := filepath.Join(root, fmt.Sprintf("shard%d", sh))
			if err := os.MkdirAll(dir, 0o755); err != nil {
				fail(err)
				return
			}
			jf, sf, lj, lf := filepath.Join(dir, "jobs.ndjson"), filepath.Join(dir, "saved.ndjson"), filepath.Join(dir, "loadjobs.ndjson"), filepath.Join(dir, "loaded.ndjson")
			if err := c14WriteNdjson(jf, len(mine), func(i int) any { return mine[i] }); err != nil {
				fail(err)
				return
			}
			if err := c14Exec(filepath.Join(dir, "save"), "save", jf, sf); err != nil {
				fail(err)
				return
			}
			var saved []c14SaveRec
			if err := ReadLines(sf, func(line []byte) error {
				var r c14SaveRec
				if err := json.Unmarshal(line, &r); err != nil {
					return err
				}
				saved = append(saved, r)
				return nil
			}); err != nil {
				fail(err)
				return
			}
			if len(saved) != len(mine) {
				fail(fmt.Errorf("c14 save child returned %d records for %d jobs", len(saved), len(mine)))
				return
			}
			if err := c14WriteNdjson(lj, len(saved), func(i int) any {
				r := saved[i]
				lj := c14LoadJob{ID: r.ID, Lim: r.Lim, File: r.File, Names: r.Globals}
				for _, c := range r.Calls {
					lj.Calls = append(lj.Calls, c.Expr)
				}
				return lj
			}); err != nil {
				fail(err)
				return
			}
			if err := c14Exec(filepath.Join(dir, "load"), "load", lj, lf); err != nil {
				fail(err)
				return
			}
			i := 0
			if err := ReadLines(lf, func(line []byte) error {
				var r c14LoadRec
				if err := json.Unmarshal(line, &r); err != nil {
					return err
				}
				if i >= len(saved) || saved[i].ID != r.ID {
					return fmt.Errorf("c14 load child: record %d out of order", i)
				}
				mu.Lock()
				res[r.ID] = &c14Run{Save: saved[i], Load: r}
				mu.Unlock()
				i++
				return nil
			}); err != nil {
				fail(err)
				return
			}
			if i != len(saved) {
				fail(fmt.Errorf("c14 load child returned %d records for %d jobs", i, len(saved)))
			}
		}(sh, mine)
	}
	wg.Wait()
	return res, firstErr
}

// ---------------------------------------------------------------------------------- trace records and the verdict

func c14SplitLines(b []byte) []string {
	if len(b) == 0 {
		return []string{}
	}
	s := string(b)
	s = strings.TrimSuffix(s, "\n")
	return strings.Split(s, "\n")
}

func c14IsLetter(b byte) bool { return (b >= 'a' && b <= 'z') || (b >= 'A' && b <= 'Z') || b == '_' }
func c14IsAlnum(b byte) bool  { return c14IsLetter(b) || (b >= '0' && b <= '9') }

func c14IsFuncLine(l string) bool {
	return strings.HasPrefix(l, "func ") && len(l) > 5 && c14IsLetter(l[5])
}

// c14LineName mirrors SaveLoad!LineName.
func c14LineName(l string) string {
	i := 0
	if c14IsFuncLine(l) {
		i = 5
	}
	j := i
	for j < len(l) && c14IsAlnum(l[j]) {
		j++
	}
	return l[i:j]
}

func c14ValueLen(l string) int {
	if c14IsFuncLine(l) {
		return len(l)
	}
	return len(l) - len(c14LineName(l)) - 1
}

type c14TRPath struct {
	Vals  [][]any `json:"vals"`
	Idem  bool    `json:"idem"`
	Calls [][]any `json:"calls"`
}

type c14TR struct {
	K        string    `json:"k"` // case (a saved environment, everything judged) | sess (a multi-session history: b against a.vals)
	ID       string    `json:"id"`
	Lim      int       `json:"lim"`
	N        int       `json:"n"`
	Lines    []string  `json:"lines"`
	NU       int       `json:"nu"`
	LinesU   []string  `json:"linesu"`
	Names    []string  `json:"names"`
	SaveExt  bool      `json:"saveext"`
	AutoSave bool      `json:"autosave"`
	B        [][]any   `json:"b"`
	A        c14TRPath `json:"a"`
	W        c14TRPath `json:"w"`
	// the "session" steps of the history: <<step, name, present, value in the ending session, value in the next one>> for
	// every data global the ending session's auto-save writes; steps whose auto-save failed
	HS    [][]any  `json:"hs"`
	HSErr []string `json:"hserr"`
}

func c14Latin1All(xs []string) []string {
	r := make([]string, len(xs))
	for i, x := range xs {
		r[i] = latin1(x)
	}
	return r
}

var c14PreConst = map[string]bool{"PI": true, "E": true}

// names every fresh session binds (from the baseline job; the usual set is the fallback for replays)
var c14BaseNames = map[string]bool{"Inf": true, "NaN": true, "abs": true, "keys": true, "log2": true, "nil": true, "null": true, "printf": true, "str": true}

func c14CallObs(c c14Call) []any { return []any{c.Out, c.Val, c.Err, c.Timeout} }

// c14Trace builds the record SaveLoad_Trace.tla judges from what the two children observed.
func c14Trace(run *c14Run) c14TR {
	sr, lr := &run.Save, &run.Load
	t := c14TR{K: "case", ID: sr.ID, Lim: sr.Lim, N: sr.N, NU: sr.NU, HS: [][]any{}, HSErr: []string{}}
	for _, so := range sr.Sess {
		if so.SaveErr != "" {
			t.HSErr = append(t.HSErr, strconv.Itoa(so.Step))
		}
		for _, b := range so.Binds {
			t.HS = append(t.HS, []any{strconv.Itoa(so.Step), b.Name, b.Present, b.Old, b.New})
		}
	}
	lines := c14SplitLines(sr.File)
	linesU := lines
	if sr.Lim > 0 {
		linesU = c14SplitLines(sr.FileU)
	}
	t.Lines, t.LinesU = c14Latin1All(lines), c14Latin1All(linesU)
	t.Names = []string{}
	for _, n := range sr.Globals {
		if !c14PreConst[n] {
			t.Names = append(t.Names, n)
		}
	}
	t.SaveExt = sr.SaveErr == "" && bytes.Equal(sr.SaveExt, sr.File) && sr.NameErr == "" && bytes.Equal(sr.SaveName, sr.File)
	t.AutoSave = sr.AutoErr == "" && bytes.Equal(sr.AutoSave, sr.File)
	lineNames := map[string]bool{}
	for _, l := range lines {
		lineNames[c14LineName(l)] = true
	}
	find := func(o *c14LoadObs, name string) []any {
		for _, b := range o.Binds {
			if b.Name == name {
				return []any{name, b.Present, b.Val}
			}
		}
		return []any{name, false, J{"t": "nil"}}
	}
	t.B, t.A.Vals, t.W.Vals = [][]any{}, [][]any{}, [][]any{}
	for _, b := range sr.Binds {
		if c14PreConst[b.Name] || b.Kind == "other" {
			continue
		}
		// was it saved? (limit: by its printed length; a named function is saved when a line carries its name)
		if sr.Lim > 0 && b.Inspect > sr.Lim && !(b.Own != "" && lineNames[b.Own]) {
			continue
		}
		t.B = append(t.B, []any{b.Name, b.Kind, b.Val})
		t.A.Vals = append(t.A.Vals, find(&lr.A, b.Name))
		t.W.Vals = append(t.W.Vals, find(&lr.W, b.Name))
	}
	// A pre-seeded name (abs, keys, ..) rebound to a value that was skipped for its length comes back with its
	// pre-seeded value in every fresh session: which pre-seeded identifiers the file contains is not asserted.
	ignore := map[string]bool{}
	for _, b := range sr.Binds {
		if sr.Lim > 0 && b.Inspect > sr.Lim && c14BaseNames[b.Name] && !lineNames[b.Name] {
			ignore[b.Name] = true
		}
	}
	same := func(resave []byte) bool {
		if len(ignore) == 0 {
			return bytes.Equal(resave, sr.File)
		}
		var x []string
		for _, l := range c14SplitLines(resave) {
			if !ignore[c14LineName(l)] {
				x = append(x, l)
			}
		}
		return strings.Join(x, "\n") == strings.Join(lines, "\n")
	}
	t.A.Idem = same(lr.A.Resave)
	t.W.Idem = same(lr.W.Resave)
	t.A.Calls, t.W.Calls = [][]any{}, [][]any{}
	savedRoot := map[string]bool{}
	for _, b := range t.B {
		savedRoot[b[0].(string)] = true
	}
	for i, c := range sr.Calls {
		if !savedRoot[c14RootOf(c.Expr)] {
			continue // a function that was skipped for its length is not expected back
		}
		if i < len(lr.A.Calls) {
			t.A.Calls = append(t.A.Calls, []any{c.Expr, c14CallObs(c), c14CallObs(lr.A.Calls[i])})
		}
		if i < len(lr.W.Calls) {
			t.W.Calls = append(t.W.Calls, []any{c.Expr, c14CallObs(c), c14CallObs(lr.W.Calls[i])})
		}
	}
	return t
}

// ---- the Go mirror of SaveLoad_Trace!Verdict (used for the cross-check, the attribution and replays)

func c14NumCmpSame(a, b J) bool { // same type, order-equal (NaN = NaN, -0.0 = 0.0)
	switch a["t"] {
	case "int", "str":
		return a["v"] == b["v"]
	case "bool":
		return a["v"] == b["v"]
	case "nil":
		return true
	case "float":
		x, y := c14Float(a), c14Float(b)
		if math.IsNaN(x) || math.IsNaN(y) {
			return math.IsNaN(x) && math.IsNaN(y)
		}
		return x == y
	}
	return true
}

func c14Float(a J) float64 {
	s, _ := a["v"].(string)
	u, _ := strconv.ParseUint(s, 16, 64)
	return math.Float64frombits(u)
}

func c14AsJ(v any) J {
	if x, ok := v.(J); ok {
		return x
	}
	return J{"t": "?"}
}

func c14List(v any) []any {
	l, _ := v.([]any)
	return l
}

func c14TSame(a, b J) bool {
	if a["t"] != b["t"] {
		return false
	}
	switch a["t"] {
	case "arr":
		x, y := c14List(a["e"]), c14List(b["e"])
		if len(x) != len(y) {
			return false
		}
		for i := range x {
			if !c14TSame(c14AsJ(x[i]), c14AsJ(y[i])) {
				return false
			}
		}
		return true
	case "map":
		x, y := c14List(a["p"]), c14List(b["p"])
		if len(x) != len(y) {
			return false
		}
		for i := range x {
			p, q := c14List(x[i]), c14List(y[i])
			if len(p) != 2 || len(q) != 2 || !c14TSame(c14AsJ(p[0]), c14AsJ(q[0])) || !c14TSame(c14AsJ(p[1]), c14AsJ(q[1])) {
				return false
			}
		}
		return true
	}
	return c14NumCmpSame(a, b)
}

func c14ObsSame(x, y []any) bool {
	if x[3].(bool) || y[3].(bool) {
		return true
	}
	return x[0] == y[0] && x[2] == y[2] && c14TSame(c14AsJ(x[1]), c14AsJ(y[1]))
}

// c14Norm round-trips a record through JSON so that the judge sees exactly what TLC sees.
func c14Norm(t c14TR) (c14TR, error) {
	b, err := json.Marshal(t)
	if err != nil {
		return t, err
	}
	var r c14TR
	err = json.Unmarshal(b, &r)
	return r, err
}

func c14Judge(t c14TR) []string {
	fails := []string{}
	if t.K == "sess" {
		for i, b := range t.B {
			v := t.A.Vals[i]
			if !(v[1].(bool) && c14TSame(c14AsJ(b[2]), c14AsJ(v[2]))) {
				fails = append(fails, "rt:A:"+b[0].(string))
			}
		}
		return fails
	}
	ok := t.NU == len(t.LinesU) && t.N == len(t.Lines) && len(t.Names) == len(t.LinesU)
	for i := range t.Names {
		if i < len(t.LinesU) && c14LineName(unlatin1(t.LinesU[i])) != t.Names[i] {
			ok = false
		}
		if i+1 < len(t.Names) && !(t.Names[i] < t.Names[i+1]) {
			ok = false
		}
	}
	if !ok {
		fails = append(fails, "oneline")
	}
	if t.Lim > 0 {
		var want []string
		for _, l := range t.LinesU {
			if c14ValueLen(unlatin1(l)) <= t.Lim {
				want = append(want, l)
			}
		}
		if strings.Join(want, "\n") != strings.Join(t.Lines, "\n") || len(want) != len(t.Lines) {
			fails = append(fails, "skipped")
		}
	}
	if !t.SaveExt {
		fails = append(fails, "saveext")
	}
	if !t.AutoSave {
		fails = append(fails, "autosave")
	}
	path := func(p c14TRPath, tag string) {
		for i, b := range t.B {
			v := p.Vals[i]
			if !(v[1].(bool) && c14TSame(c14AsJ(b[2]), c14AsJ(v[2]))) {
				fails = append(fails, "rt:"+tag+":"+b[0].(string))
			}
		}
		for _, c := range p.Calls {
			if !c14ObsSame(c14List(c[1]), c14List(c[2])) {
				fails = append(fails, "call:"+tag+":"+c[0].(string))
			}
		}
		if !p.Idem {
			fails = append(fails, "idem:"+tag)
		}
	}
	path(t.A, "A")
	path(t.W, "W")
	for _, h := range t.HS {
		if !(h[2].(bool) && c14TSame(c14AsJ(h[3]), c14AsJ(h[4]))) {
			fails = append(fails, "hrt:"+h[0].(string)+":"+h[1].(string))
		}
	}
	for _, st := range t.HSErr {
		fails = append(fails, "step:"+st)
	}
	return fails
}

type c14Verdict struct {
	ID    string   `json:"id"`
	Lim   int      `json:"lim"`
	Fails []string `json:"fails"`
}

// c14TLCVerdicts lets SaveLoad_Trace.tla decide the records (sharded over JVMs when there are many).
func c14TLCVerdicts(c *Ctx, recs []c14TR, shards int) (map[string][]string, error) {
	if shards < 1 {
		shards = 1
	}
	if shards > len(recs) {
		shards = len(recs)
	}
	res := map[string][]string{}
	if len(recs) == 0 {
		return res, nil
	}
	var mu sync.Mutex
	var firstErr error
	var wg sync.WaitGroup
	for sh := 0; sh < shards; sh++ {
		var buf bytes.Buffer
		enc := json.NewEncoder(&buf)
		n := 0
		for i := sh; i < len(recs); i += shards {
			if err := enc.Encode(recs[i]); err != nil {
				return nil, err
			}
			n++
		}
		wg.Add(1)
		go func(data []byte, n int) {
			defer wg.Done()
			r, err := c.TLC(TLCOpt{Spec: "SaveLoad_Trace", Cfg: c14Cfg(nil, 65536, []string{"mc"}, []int{0}, false, nil, true), Workers: 1,
				Files: map[string][]byte{"c14_trace.ndjson": data}, Heap: "3g"})
			got := 0
			if err == nil {
				err = ReadLines(r.Emitted, func(line []byte) error {
					var v c14Verdict
					if err := json.Unmarshal(line, &v); err != nil {
						return err
					}
					mu.Lock()
					res[v.ID] = v.Fails
					mu.Unlock()
					got++
					return nil
				})
			}
			if err == nil && got != n {
				err = fmt.Errorf("SaveLoad_Trace emitted %d verdicts for %d records", got, n)
			}
			if err != nil {
				mu.Lock()
				if firstErr == nil {
					firstErr = err
				}
				mu.Unlock()
			}
		}(append([]byte{}, buf.Bytes()...), n)
	}
	wg.Wait()
	return res, firstErr
}

// ---------------------------------------------------------------------------------- attribution (feature predicates)

const (
	sigFloatInt     = "save-float-integral-reloads-as-int"
	sigNegZero      = "save-float-negzero-reloads-as-int-zero"
	sigMinInt       = "save-int-min-reloads-as-float"
	sigEscape       = "save-string-escape-not-read-back"
	sigClosure      = "save-closure-loses-capture"
	sigAlias        = "save-named-function-under-other-name"
	sigPrinter      = "save-func-print-not-reparsed-same"
	sigExt          = "save-extension-value-not-loadable"
	sigQuoteNL      = "save-quote-multiline"
	sigScanner      = "autoload-line-over-64KiB"
	sigScannerLimit = "autoload-line-of-admitted-value-not-read"
	sigNoLimit      = "save-named-function-ignores-max-len"
	sigRebound      = "save-nonliteral-name-rebound"
	sigLiteral      = "save-named-function-value-rebinds-own-name"
	sigSessStep     = "c14-session-step-failed"
	sigNotBuilt     = "c14-session-not-built"
	sigUnexpl       = "c14-roundtrip-mismatch"
	sigLost         = "c14-binding-lost"
	sigBehaviour    = "c14-function-behaviour-differs"
	sigResave       = "c14-resave-differs"
	sigOneLine      = "c14-not-one-line-per-binding"
	sigSkipped      = "c14-limit-not-skip-whole"
	sigSaveExt      = "c14-save-extension-bytes-differ"
	sigAutoSave     = "c14-autosave-bytes-differ"
	c14ScanLimit    = 65536
	c14BadEscapes   = "\a\b\f\v"
)

func c14Unescaped(s string) string { // what the lexer makes of strconv.Quote's \a \b \f \v
	return strings.NewReplacer("\a", "a", "\b", "b", "\f", "f", "\v", "v").Replace(s)
}

// c14Explain walks the saved value and the reloaded value in parallel and names, for every differing leaf,
// the known loss that explains it ("" = unexplained).
func c14Explain(a, b J, rebound map[string]bool, out map[string]bool) {
	if a["t"] == "arr" && b["t"] == "arr" {
		x, y := c14List(a["e"]), c14List(b["e"])
		if len(x) != len(y) {
			out[""] = true
			return
		}
		for i := range x {
			c14Explain(c14AsJ(x[i]), c14AsJ(y[i]), rebound, out)
		}
		return
	}
	if a["t"] == "map" && b["t"] == "map" {
		x, y := c14List(a["p"]), c14List(b["p"])
		if len(x) != len(y) {
			out[""] = true
			return
		}
		for i := range x {
			p, q := c14List(x[i]), c14List(y[i])
			c14Explain(c14AsJ(p[0]), c14AsJ(q[0]), rebound, out)
			c14Explain(c14AsJ(p[1]), c14AsJ(q[1]), rebound, out)
		}
		return
	}
	if c14TSame(a, b) {
		return
	}
	switch {
	case a["t"] == "float" && b["t"] == "int":
		f := c14Float(a)
		n, _ := strconv.ParseInt(b["v"].(string), 10, 64)
		if f == math.Trunc(f) && !math.IsInf(f, 0) && float64(n) == f && math.Abs(f) < 9.3e18 {
			if f == 0 && math.Signbit(f) {
				out[sigNegZero] = true
			} else {
				out[sigFloatInt] = true
			}
			return
		}
	case a["t"] == "int" && b["t"] == "float":
		if a["v"] == "-9223372036854775808" && c14Float(b) == -9223372036854775808.0 {
			out[sigMinInt] = true
			return
		}
	case a["t"] == "str" && b["t"] == "str":
		s := unlatin1(a["v"].(string))
		if strings.ContainsAny(s, c14BadEscapes) && c14Unescaped(s) == unlatin1(b["v"].(string)) {
			out[sigEscape] = true
			return
		}
	}
	// nil / NaN / +-Inf are written as identifiers: the loading session may bind them to something else
	if a["t"] == "nil" && rebound["nil"] {
		out[sigRebound] = true
		return
	}
	if a["t"] == "float" {
		f := c14Float(a)
		if (math.IsNaN(f) && rebound["NaN"]) || (math.IsInf(f, 0) && rebound["Inf"]) {
			out[sigRebound] = true
			return
		}
	}
	out[""] = true
}

type c14Attr struct {
	Sig  string
	Fail string
}

// c14Attribute maps every failed item of a case to a signature. Known losses are recognised by feature
// predicates over the saving session's real values and file; everything else keeps a c14-* signature.
func c14Attribute(run *c14Run, t c14TR, fails []string) []c14Attr {
	sr := &run.Save
	lines := c14SplitLines(sr.File)
	binds := map[string]c14BindObs{}
	rebound := map[string]bool{}
	hasExt, hasNL, hasAlias, longFunc := false, false, false, false
	for _, b := range sr.Binds {
		binds[b.Name] = b
		if c14HasGo(b.Val, "extension") {
			hasExt = true
		}
		if b.NL && c14HasGo(b.Val, "quote") {
			hasNL = true // a quote value whose printed form spans lines
		}
		if b.Own != "" && b.Own != b.Name {
			hasAlias = true
		}
		if sr.Lim > 0 && b.Own != "" && b.Inspect > sr.Lim {
			longFunc = true
		}
		switch b.Name {
		case "nil":
			rebound["nil"] = b.Val["t"] != "nil"
		case "NaN":
			rebound["NaN"] = !(b.Val["t"] == "float" && math.IsNaN(c14Float(b.Val)))
		case "Inf":
			rebound["Inf"] = !(b.Val["t"] == "float" && math.IsInf(c14Float(b.Val), 1))
		}
	}
	// own names of named functions that are written as values (held under another name / inside a container, the
	// holder's line is in the file) while the own name is unbound or bound to something else in the saving session
	ownOther := map[string]bool{}
	for _, fo := range sr.Foreign {
		if !fo.Other {
			continue
		}
		for _, l := range lines {
			if !c14IsFuncLine(l) && c14LineName(l) == fo.Holder {
				ownOther[fo.Own] = true
			}
		}
	}
	// .. and after the reload that name holds the function of that name
	reboundToOwn := func(tag, name string) bool {
		o := &run.Load.A
		if tag == "W" {
			o = &run.Load.W
		}
		for _, lb := range o.Binds {
			if lb.Name == name {
				return ownOther[name] && lb.Present && lb.Own == name
			}
		}
		return false
	}
	// saving the reloaded session differs from the file in lines of those names only
	onlyOwnLinesDiffer := func(resave []byte) bool {
		if len(ownOther) == 0 {
			return false
		}
		had := map[string]bool{}
		for _, l := range lines {
			had[l] = true
		}
		now := map[string]bool{}
		diff := 0
		for _, l := range c14SplitLines(resave) {
			now[l] = true
			if !had[l] {
				if !ownOther[c14LineName(l)] {
					return false
				}
				diff++
			}
		}
		for _, l := range lines {
			if !now[l] {
				if !ownOther[c14LineName(l)] {
					return false
				}
				diff++
			}
		}
		return diff > 0
	}
	// index of the first line the line reader cannot take; lines from there on are not loaded by AutoLoad
	firstLong := -1
	for i, l := range lines {
		if len(l) >= c14ScanLimit {
			firstLong = i
			break
		}
	}
	lineOf := func(name string) int {
		for i, l := range lines {
			if c14LineName(l) == name {
				return i
			}
		}
		return -1
	}
	afterLong := func(name string) bool {
		i := lineOf(name)
		return firstLong >= 0 && i >= firstLong
	}
	valsOf := func(p c14TRPath, name string) (bool, J) {
		for i, b := range t.B {
			if b[0].(string) == name {
				return p.Vals[i][1].(bool), c14AsJ(p.Vals[i][2])
			}
		}
		return false, J{"t": "nil"}
	}
	pathSigs := map[string]map[string]bool{"A": {}, "W": {}}
	var res []c14Attr
	add := func(fail, sig, tag string) {
		res = append(res, c14Attr{Sig: sig, Fail: fail})
		if tag != "" && !strings.HasPrefix(sig, "c14-") {
			pathSigs[tag][sig] = true
		}
	}
	rootOf := c14RootOf
	// bindings whose own line cannot be loaded back, with the reason; load() loses everything from the first one on
	presentA := func(name string) bool {
		ok, _ := valsOf(t.A, name)
		return ok
	}
	type broken struct {
		line int
		sig  string
	}
	var brokenLines []broken
	for _, b := range sr.Binds {
		li := lineOf(b.Name)
		switch {
		case b.NL && c14HasGo(b.Val, "quote"):
			brokenLines = append(brokenLines, broken{-1, sigQuoteNL}) // a parse error: nothing of the file is evaluated
		case c14HasGo(b.Val, "extension"):
			brokenLines = append(brokenLines, broken{li, sigExt})
		case b.Kind == "func" && c14FuncFlag(sr, b.Name+"(", "unfaithful") && li >= 0 && !presentA(b.Name):
			brokenLines = append(brokenLines, broken{li, sigPrinter})
		}
	}
	brokenBefore := func(name string) string {
		li := lineOf(name)
		for _, bl := range brokenLines {
			if bl.line < 0 || (li >= 0 && bl.line <= li) {
				return bl.sig
			}
		}
		return ""
	}
	var idem []string
	for _, f := range fails {
		parts := strings.SplitN(f, ":", 3)
		switch parts[0] {
		case "rt":
			tag, name := parts[1], parts[2]
			p := t.A
			if tag == "W" {
				p = t.W
			}
			b := binds[name]
			present, v1 := valsOf(p, name)
			switch {
			case !present && tag == "A" && afterLong(name) && sr.Lim > 0:
				add(f, sigScannerLimit, tag) // every value in the file was admitted by the limit both sessions are configured with
			case !present && tag == "A" && afterLong(name):
				add(f, sigScanner, tag)
			case !present && b.Own != "" && b.Own != name:
				add(f, sigAlias, tag)
			case !present && tag == "W" && brokenBefore(name) != "":
				add(f, brokenBefore(name), tag)
			case !present && b.Kind == "func" && c14FuncFlag(sr, name+"(", "unfaithful"):
				add(f, sigPrinter, tag)
			case !present:
				add(f, sigLost, tag)
			case reboundToOwn(tag, name):
				add(f, sigLiteral, tag) // the data the name held is replaced by the function of that name
			default:
				out := map[string]bool{}
				c14Explain(b.Val, v1, rebound, out)
				if out[""] || len(out) == 0 {
					add(f, sigUnexpl, tag)
				} else {
					for s := range out {
						add(f, s, tag)
					}
				}
			}
		case "call":
			tag, expr := parts[1], parts[2]
			root := rootOf(expr)
			b := binds[root]
			switch {
			case tag == "A" && afterLong(root) && !(b.Own != "" && b.Own != root) && sr.Lim > 0:
				add(f, sigScannerLimit, tag)
			case tag == "A" && afterLong(root) && !(b.Own != "" && b.Own != root):
				add(f, sigScanner, tag)
			case reboundToOwn(tag, root):
				add(f, sigLiteral, tag) // the function the name held is replaced by the function of that name
			case b.Own != "" && b.Own != root:
				add(f, sigAlias, tag)
			case tag == "W" && brokenBefore(root) != "":
				add(f, brokenBefore(root), tag)
			case c14FuncFlag(sr, expr, "unfaithful-escape"):
				add(f, sigEscape, tag)
			case c14FuncFlag(sr, expr, "unfaithful"):
				add(f, sigPrinter, tag)
			case c14FuncFlag(sr, expr, "closure"):
				add(f, sigClosure, tag)
			default:
				add(f, sigBehaviour, tag)
			}
		case "idem":
			idem = append(idem, f)
		case "oneline":
			switch {
			case hasNL:
				add(f, sigQuoteNL, "")
			case hasAlias:
				add(f, sigAlias, "")
			default:
				add(f, sigOneLine, "")
			}
		case "skipped":
			// explained by named functions exactly when the file is the unlimited file minus the too-long
			// name=value lines, with every `func name(..)` line kept whole
			var want []string
			for _, l := range c14SplitLines(sr.FileU) {
				if c14ValueLen(l) <= sr.Lim || c14IsFuncLine(l) || binds[c14LineName(l)].Own != "" {
					want = append(want, l)
				}
			}
			if longFunc && strings.Join(want, "\n") == strings.Join(lines, "\n") {
				add(f, sigNoLimit, "")
			} else {
				add(f, sigSkipped, "")
			}
		case "saveext":
			add(f, sigSaveExt, "")
		case "autosave":
			add(f, sigAutoSave, "")
		case "step":
			add(f, sigSessStep, "")
		case "hrt": // a "session" step of the history: the next session does not hold what the ending one saved
			name := parts[2]
			for _, h := range t.HS {
				if h[0].(string) != parts[1] || h[1].(string) != name {
					continue
				}
				if !h[2].(bool) {
					add(f, sigLost, "")
					break
				}
				out := map[string]bool{}
				c14Explain(c14AsJ(h[3]), c14AsJ(h[4]), rebound, out)
				if out[""] || len(out) == 0 {
					add(f, sigUnexpl, "")
				} else {
					for s := range out {
						add(f, s, "")
					}
				}
				break
			}
		}
	}
	// saving again differs: attributed to a loss already established on that path that changes the file
	for _, f := range idem {
		tag := strings.TrimPrefix(f, "idem:")
		changes := []string{sigNegZero, sigMinInt, sigAlias, sigScanner, sigScannerLimit, sigExt, sigQuoteNL, sigEscape, sigRebound, sigPrinter, sigLiteral}
		done := false
		for _, s := range changes {
			if pathSigs[tag][s] {
				add(f, s, "")
				done = true
				break
			}
		}
		if done {
			continue
		}
		resave := run.Load.A.Resave
		if tag == "W" {
			resave = run.Load.W.Resave
		}
		switch {
		case onlyOwnLinesDiffer(resave):
			add(f, sigLiteral, "") // the own name of a function written as a value came back (the session had deleted it)
		case hasNL:
			add(f, sigQuoteNL, "")
		case hasExt:
			add(f, sigExt, "")
		case hasAlias:
			add(f, sigAlias, "")
		case tag == "A" && firstLong >= 0:
			add(f, sigScanner, "")
		case c14AnyEscapeInFunc(sr):
			add(f, sigEscape, "")
		case c14AnyUnfaithfulFunc(sr):
			add(f, sigPrinter, "") // the saved text parses to another tree, which prints differently
		default:
			add(f, sigResave, "")
		}
	}
	return res
}

// c14HasGo: does the observed value hold (at any depth) a runtime object of the given non-data type?
func c14HasGo(v any, typ string) bool {
	switch x := v.(type) {
	case J:
		if x["t"] == "other" && x["go"] == typ {
			return true
		}
		for _, c := range x {
			if c14HasGo(c, typ) {
				return true
			}
		}
	case []any:
		for _, c := range x {
			if c14HasGo(c, typ) {
				return true
			}
		}
	}
	return false
}

// c14RootOf: the binding a call expression starts from.
func c14RootOf(expr string) string {
	i := strings.IndexAny(expr, "([")
	if i < 0 {
		return expr
	}
	return expr[:i]
}

// c14FuncFlag: feature predicates over the function a call expression reaches (recorded by the saving child).
func c14FuncFlag(sr *c14SaveRec, expr, flag string) bool {
	best := -1
	var fi c14FuncInfo
	for _, f := range sr.Funcs {
		if strings.HasPrefix(expr, f.Path+"(") && len(f.Path) > best {
			best, fi = len(f.Path), f
		}
	}
	if best < 0 {
		return false
	}
	switch flag {
	case "unfaithful":
		return !fi.Faithful && len(fi.Loss) > 0
	case "unfaithful-escape":
		return !fi.Faithful && fi.Escapes
	case "closure":
		return fi.Closure
	}
	return false
}

func c14AnyUnfaithfulFunc(sr *c14SaveRec) bool {
	for _, f := range sr.Funcs {
		if !f.Faithful && len(f.Loss) > 0 {
			return true
		}
	}
	return false
}

func c14AnyEscapeInFunc(sr *c14SaveRec) bool {
	for _, f := range sr.Funcs {
		if !f.Faithful && f.Escapes {
			return true
		}
	}
	return false
}

// ---------------------------------------------------------------------------------- model comparison (diagnosis only)

func c14ModelJ(v c14Val) J {
	switch v.T {
	case "int", "float":
		return J{"t": v.T, "v": v.str()}
	case "bool":
		return J{"t": "bool", "v": string(v.V) == "true"}
	case "nil":
		return J{"t": "nil"}
	case "str":
		return J{"t": "str", "v": latin1(v.bytes())}
	case "arr":
		es := []any{}
		for _, e := range v.E {
			es = append(es, c14ModelJ(e))
		}
		return J{"t": "arr", "e": es}
	case "map":
		ps := []any{}
		for _, kv := range v.P {
			ps = append(ps, []any{c14ModelJ(kv[0]), c14ModelJ(kv[1])})
		}
		return J{"t": "map", "p": ps}
	case "func":
		return J{"t": "func"}
	}
	return J{"t": "other"}
}

func c14StripFuncs(j J) J { // functions are compared by behaviour, not here
	b, _ := json.Marshal(j)
	var x any
	_ = json.Unmarshal(b, &x)
	var walk func(v any) any
	walk = func(v any) any {
		switch m := v.(type) {
		case map[string]any:
			if m["t"] == "func" {
				return map[string]any{"t": "func"}
			}
			if m["t"] == "other" {
				return map[string]any{"t": "other"}
			}
			r := map[string]any{}
			for k, c := range m {
				r[k] = walk(c)
			}
			return r
		case []any:
			r := make([]any, len(m))
			for i, c := range m {
				r[i] = walk(c)
			}
			return r
		}
		return v
	}
	r, _ := walk(x).(map[string]any)
	return J(r)
}

// c14ModelDiff compares the real run with the model's prediction for a GEN case. Returns descriptions of
// the differences (model_disagreement notes).
func c14ModelDiff(cs *c14Case, run *c14Run, baseNames map[string]bool) []string {
	var diffs []string
	user := map[string]bool{}
	for _, b := range cs.Env {
		user[b.Name] = true
	}
	pick := func(file []byte) []string {
		var r []string
		for _, l := range c14SplitLines(file) {
			n := c14LineName(l)
			if user[n] || !baseNames[n] {
				r = append(r, l)
			}
		}
		return r
	}
	model := func(ls []c14Line) []string {
		r := make([]string, len(ls))
		for i, l := range ls {
			r[i] = string(l)
		}
		return r
	}
	cmpLines := func(what string, real, pred []string) {
		if len(real) != len(pred) {
			diffs = append(diffs, fmt.Sprintf("%s: %d lines, model %d", what, len(real), len(pred)))
			return
		}
		for i := range real {
			if real[i] != pred[i] {
				diffs = append(diffs, fmt.Sprintf("%s line %d: real %.80q model %.80q", what, i+1, real[i], pred[i]))
				return
			}
		}
	}
	cmpLines("file", pick(run.Save.File), model(cs.Lines))
	if cs.Ext != nil {
		cmpLines("file after save()", pick(run.Save.SaveExt), model(cs.Ext))
	}
	cmpLines("resave after AutoLoad", pick(run.Load.A.Resave), model(cs.ResaveA))
	cmpLines("resave after load()", pick(run.Load.W.Resave), model(cs.ResaveW))
	cmpLoad := func(what string, obs *c14LoadObs, predRaw []json.RawMessage) {
		pred, err := c14Pairs(predRaw)
		if err != nil {
			diffs = append(diffs, what+": "+err.Error())
			return
		}
		pm := map[string]c14Val{}
		for _, b := range pred {
			pm[b.Name] = b.Val
		}
		for _, b := range obs.Binds {
			if (!user[b.Name] && baseNames[b.Name]) || c14PreConst[b.Name] {
				continue
			}
			pv, ok := pm[b.Name]
			if ok != b.Present {
				diffs = append(diffs, fmt.Sprintf("%s: %s present=%v, model %v", what, b.Name, b.Present, ok))
				continue
			}
			if ok && jstr(c14StripFuncs(b.Val)) != jstr(c14StripFuncs(c14ModelJ(pv))) {
				diffs = append(diffs, fmt.Sprintf("%s: %s = %.100s, model %.100s", what, b.Name, jstr(c14StripFuncs(b.Val)), jstr(c14StripFuncs(c14ModelJ(pv)))))
			}
		}
	}
	cmpLoad("AutoLoad", &run.Load.A, cs.LoadA)
	cmpLoad("load()", &run.Load.W, cs.LoadW)
	return diffs
}

// c14ProbeDeviations runs one pinned reproducer per named deviation of SaveLoad.tla on the tree under test and
// reports which deviations it still shows.
func c14ProbeDeviations(root string) (dev []string, notes map[string]string, err error) {
	long := strings.Repeat("x", 70000)
	probes := []struct {
		dev, id, src string
		lim          int
		steps        []string // inputs given to the session after src, before the final save
	}{
		{"FloatNoPoint", "probe:float", "a=3.0; b=-0.0", 0, nil},
		{"MinIntLiteral", "probe:minint", "a=-9223372036854775807-1", 0, nil},
		{"NameForms", "probe:names", "Inf=5; x=1.0/0", 0, nil},
		{"QuoteEscapes", "probe:escapes", `s="\x07\x08\x0b\x0c"`, 0, nil},
		{"ClosureNoEnv", "probe:closure", "func mk(x){func(y){x+y}}; add2=mk(2)", 0, nil},
		{"FuncOwnName", "probe:alias", "func f(a){a+1}; g=f", 0, nil},
		{"LossyFuncPrint", "probe:printer", "func f(a,b,c){a-(b-c)}; func g(a,b){a - -b}; func h(a,b){a; -b}; c=5; l=()=>{c=c+1}", 0, nil},
		{"ExtUsage", "probe:ext", "p=sprintf; z=5", 0, nil},
		{"QuoteMultiLine", "probe:quote", "x=quote(if a {b} else {c}); z=1", 0, nil},
		{"ScannerLimit", "probe:scanner", `a="` + long + `"; b=2`, 0, nil},
		{"NamedFuncNoLimit", "probe:limit", "func f(a,b){a+b+a+b}", 5, nil},
		{"LiteralBindsOwnName", "probe:literal", "func f(a){a+1}; g=f; f=3", 0, nil},
		// not rules of the pinned code: the shapes of seeded changes (a map keeps the text it was printed as; save() does
		// not cut the file it writes over)
		{"StaleText", "probe:stale", `m={"a":1,"b":2,"c":3,"d":4,"e":5}; println(m); m.a=7; z=1`, 0, nil},
		{"SaveNoTrunc", "probe:notrunc", `a=1; zz=[1,2,3,4,5,6,7,8,9]`, 0, []string{"save()", "del(zz)"}},
	}
	var jobs []c14Job
	for _, p := range probes {
		j := c14Job{ID: p.id, Src: p.src, Lim: p.lim}
		for _, in := range p.steps {
			j.Steps = append(j.Steps, c14Step{Op: "in", Src: in})
		}
		jobs = append(jobs, j)
	}
	runs, err := c14RunJobs(root, jobs, 4)
	if err != nil {
		return nil, nil, err
	}
	notes = map[string]string{}
	for _, p := range probes {
		run := runs[p.id]
		if run == nil || run.Save.SetupErr != "" {
			return nil, nil, fmt.Errorf("pinned reproducer %s could not be run: %+v", p.id, run)
		}
		t, err := c14Norm(c14Trace(run))
		if err != nil {
			return nil, nil, err
		}
		fails := c14Judge(t)
		if len(fails) > 0 {
			dev = append(dev, p.dev)
			notes[p.dev] = fmt.Sprintf("%s -> still fails (%d items, first: %s)", p.src[:min(len(p.src), 60)], len(fails), fails[0])
		} else {
			notes[p.dev] = fmt.Sprintf("%s -> holds on this tree", p.src[:min(len(p.src), 60)])
		}
	}
	return dev, notes, nil
}

// c14VerdictAgreement compares the model's verdict for a GEN case (SaveLoad under the code's rules) with the
// real verdict restricted to the bindings the model knows (diagnosis only).
func c14VerdictAgreement(cs *c14Case, run *c14Run, fails []string) map[string]bool {
	if cs.MV == nil {
		return nil
	}
	user := map[string]bool{}
	for _, b := range cs.Env {
		user[b.Name] = true
	}
	real := map[string]bool{"one": true, "skip": true, "rtA": true, "rtW": true, "idemA": true, "idemW": true}
	for _, f := range fails {
		parts := strings.SplitN(f, ":", 3)
		switch parts[0] {
		case "oneline":
			real["one"] = false
		case "skipped":
			// the pre-seeded named function `str` is outside the model's environment
			for _, b := range run.Save.Binds {
				if user[b.Name] && b.Own != "" && b.Inspect > cs.Lim {
					real["skip"] = false
				}
			}
		case "idem":
			real["idem"+parts[1]] = false
		case "rt":
			if user[parts[2]] {
				real["rt"+parts[1]] = false
			}
		case "call":
			if user[c14RootOf(parts[2])] {
				real["rt"+parts[1]] = false
			}
		}
	}
	res := map[string]bool{}
	for k, v := range real {
		res[k] = cs.MV[k] == v
	}
	return res
}

// ---------------------------------------------------------------------------------- the check

func c14Par() int {
	n := runtime.NumCPU() - 2
	if n > 12 {
		n = 12
	}
	if n < 2 {
		n = 2
	}
	return n
}

// c14ModelCheck: MC of SaveLoad.tla - the repaired design on the whole universe, and one run per deviation.
func c14ModelCheck(c *Ctx) error {
	allInv := []string{"OneLinePerBinding", "Sorted", "RoundTrip", "SaveIdempotent", "SkippedNotTruncated"}
	allScopes := []string{"mc", "int", "float", "byte", "str", "scalar", "arr", "map", "pair", "name", "long", "limit", "func", "alias", "boundary"}
	hscope := "histmc" // quick: one container of each kind; thorough: every history
	if c.Thorough() {
		hscope = "histall"
	}
	hDone := make(chan error, 1)
	go func() { // the session histories (every step an action), beside the universe
		r, err := c.TLC(TLCOpt{Spec: "SaveLoad", Cfg: c14Cfg(nil, c14ScanLimit, []string{hscope, "shrink"}, []int{0}, false, allInv, false), Workers: c.Pick(2, 6)})
		if err == nil {
			c.Note("MC repaired design (Dev = {}) over the session histories (%s, shrink): %d states, %d transitions, all of %v hold", hscope, r.Distinct, r.Generated, allInv)
		}
		hDone <- err
	}()
	// each actual rule of the code yields its design-level counterexample: one short run per deviation, started beside
	// the two runs of the repaired design (they are joined below)
	type devRes struct {
		dev, want, got string
		err            error
	}
	results := make([]devRes, len(c14DevInv))
	var wg sync.WaitGroup
	sem := make(chan struct{}, 6)
	for i, di := range c14DevInv {
		wg.Add(1)
		go func(i int, dev, inv string) {
			defer wg.Done()
			sem <- struct{}{}
			defer func() { <-sem }()
			scopes, limits := []string{"mc", "boundary"}, []int{0, 12, 44}
			if dev == "StaleText" {
				scopes, limits = []string{"histmc"}, []int{0} // the rule is about what a session did before it saves: the histories
			}
			r, err := c.TLC(TLCOpt{Spec: "SaveLoad", Cfg: c14Cfg([]string{dev}, 40, scopes, limits, false, []string{inv}, false), Workers: 1, AllowError: true, Heap: "2g"})
			results[i] = devRes{dev: dev, want: inv, err: err}
			if err == nil {
				results[i].got = r.InvViolated
			}
		}(i, di[0], di[1])
	}
	r, err := c.TLC(TLCOpt{Spec: "SaveLoad", Cfg: c14Cfg(nil, c14ScanLimit, allScopes, []int{0, 12, 40}, false, allInv, false), Workers: 6})
	if herr := <-hDone; err == nil {
		err = herr
	}
	wg.Wait()
	if err != nil {
		return err
	}
	c.Note("MC repaired design (Dev = {}) over the whole universe x limits {0,12,40}: %d states, %d transitions, all of %v hold", r.Distinct, r.Generated, allInv)
	cex := map[string]string{}
	for _, dr := range results {
		if dr.err != nil {
			return dr.err
		}
		if dr.got != dr.want {
			return fmt.Errorf("deviation %s: expected TLC to violate %s, got %q (vacuous property or model)", dr.dev, dr.want, dr.got)
		}
		cex[dr.dev] = dr.want
	}
	c.Cov("design_counterexamples", cex)
	return nil
}

func checkC14(c *Ctx) {
	c.Assume("the saving and the loading sessions run in separate child processes that call extensions.Init(&Config{HasLoad,HasSave}) themselves; function equivalence is sampled on 12 argument kinds per parameter position pattern, not proved")
	c.Assume("the reader of printed forms in SaveLoad.tla (ParseVal) covers the literal grammar that Inspect produces; function bodies are opaque code identities in the model")
	par := c14Par()
	// About twenty short TLC runs share the machine: the optimising JIT tier costs more CPU than it saves on runs of a
	// few seconds (measured: 240 s -> 120 s CPU, 37 s -> 27 s wall for the quick tier). The JVMs inherit the variable.
	if !c.Thorough() && !strings.Contains(os.Getenv("JAVA_TOOL_OPTIONS"), "TieredStopAtLevel") {
		_ = os.Setenv("JAVA_TOOL_OPTIONS", strings.TrimSpace(os.Getenv("JAVA_TOOL_OPTIONS")+" -XX:TieredStopAtLevel=1"))
	}

	// 1. MC (runs beside the conformance part, joined before the verdicts): the repaired design satisfies every
	//    property, and each actual rule of the code yields its design-level counterexample
	mcDone := make(chan error, 1)
	go func() { mcDone <- c14ModelCheck(c) }()
	waitMC := sync.OnceValue(func() error { return <-mcDone })
	defer func() { _ = waitMC() }() // never leave TLC running behind an early return

	// 2. pinned reproducers: which of the named deviations does the tree under test still have? (they are run on
	//    every check; the model that predicts the GEN cases is SaveLoad with exactly these deviations on)
	tPhase := time.Now()
	codeDev, probeNotes, err := c14ProbeDeviations(filepath.Join(c.Scratch(), "c14probe"))
	c.Cov("wall_probes_s", time.Since(tPhase).Seconds())
	if err != nil {
		c.Infra(err)
		return
	}
	c.Cov("deviations_present_in_tree", codeDev)
	c.Cov("pinned_reproducers", probeNotes)

	// 2b. histories of several sessions in one directory (auto-load, inputs, auto-save): the last state is what loads back
	sessDone := make(chan *c14SessRun, 1)
	go func() {
		t0 := time.Now()
		sr := c14RunSessions(c)
		c.Cov("wall_sessions_s", time.Since(t0).Seconds())
		sessDone <- sr
	}()
	waitSess := sync.OnceValue(func() *c14SessRun { return <-sessDone })
	defer func() { _ = waitSess() }()

	// 3. GEN: the universe with the model's prediction under the code's actual rules
	scopes := []string{"int", "float", "byte", "str", "scalar", "arr", "map", "pair", "name", "long", "func", "alias"}
	inv := []string{}
	has := map[string]bool{}
	for _, d := range codeDev {
		has[d] = true
	}
	if has["FloatNoPoint"] {
		inv = []string{"PrintOK"} // with the pinned code's rule for floats on, the model's printed form of data is GrolValues!Inspect
	}
	limits := []int{1, 5, 12, 17, 40}
	if c.Thorough() {
		limits = []int{1, 2, 3, 4, 5, 9, 10, 11, 12, 13, 17, 18, 22, 23, 24, 25, 39, 40, 41, 42, 43, 44, 100}
	}
	// the boundary family of the limit (SaveLoad!BoundaryCases): limits just below, at and above the line reader's
	// default room (64 KiB), values at lim, lim-1, lim-k, lim-k-1, lim+1 for name lengths k = 1, 5, 20
	blimits := []int{c14ScanLimit - 1, c14ScanLimit, 100000}
	if c.Thorough() {
		blimits = []int{30000, c14ScanLimit - 6, c14ScanLimit - 1, c14ScanLimit, c14ScanLimit + 1, 70000, 100000, 131072, 262144}
	}
	type genRes struct {
		cases []*c14Case
		err   error
	}
	genRun := func(out *genRes, scopes []string, limits []int, inv []string) {
		r, err := c.TLC(TLCOpt{Spec: "SaveLoad", Cfg: c14Cfg(codeDev, c14ScanLimit, scopes, limits, true, inv, false), Workers: 4 + len(scopes)/8})
		if err == nil {
			out.cases, err = c14ReadCases(r.Emitted)
		}
		out.err = err
	}
	// session histories (SaveLoad!HistCases): print / save, change an element, print / save again, next session ..
	hscope := "hist"
	if c.Thorough() {
		hscope = "histall"
	}
	var gU, gL, gB, gH genRes
	var gwg sync.WaitGroup
	gwg.Add(4)
	go func() { defer gwg.Done(); genRun(&gU, scopes, []int{0}, inv) }()
	go func() { defer gwg.Done(); genRun(&gL, []string{"limit"}, limits, nil) }()
	go func() { defer gwg.Done(); genRun(&gB, []string{"boundary"}, blimits, nil) }()
	go func() { defer gwg.Done(); genRun(&gH, []string{hscope, "shrink"}, []int{0}, nil) }() // .. and the file that is already there
	tPhase = time.Now()
	gwg.Wait()
	c.Cov("wall_gen_tlc_s", time.Since(tPhase).Seconds())
	for _, g := range []*genRes{&gU, &gL, &gB, &gH} {
		if g.err != nil {
			c.Infra(g.err)
			return
		}
	}
	if len(gB.cases) != 15*len(blimits) {
		c.Infra(fmt.Errorf("SaveLoad GEN emitted %d boundary cases for %d limits", len(gB.cases), len(blimits)))
		return
	}
	c.Cov("limit_boundary_cases", len(gB.cases))
	if len(gH.cases) < 200 {
		c.Infra(fmt.Errorf("SaveLoad GEN emitted only %d session histories", len(gH.cases)))
		return
	}
	c.Cov("session_history_cases", len(gH.cases))
	cases := append(append(append(gU.cases, gL.cases...), gB.cases...), gH.cases...)
	if len(cases) < 700 {
		c.Infra(fmt.Errorf("SaveLoad GEN emitted only %d cases", len(cases)))
		return
	}
	nGen := len(cases)
	// seeded combinations of emitted values (thorough: more) - TV only, no prediction
	cases = append(cases, c14RandomCases(c, cases, c.Pick(150, 30000))...)
	nRand := len(cases) - nGen
	if c.Thorough() {
		cases = append(cases, c14GeneratedFuncCases(c, 5000)...)
	}
	c.Cov("generated_function_cases", len(cases)-nGen-nRand)
	c.Cov("gen_cases", nGen)
	c.Cov("random_combination_cases", nRand)

	// c14:baseline - what every fresh session binds; c14:calibrate - a history of the plainest kind (auto-save, next
	// session, input, save()): if THAT does not work the harness is out of date (exit 2); a step that fails in a case
	// while it works here is the code under test disagreeing with the model (a violation)
	jobs := []c14Job{{ID: "c14:baseline"}, {ID: "c14:calibrate", Src: "cal=[1,2]; func calf(a){a+1}",
		Api: []c14ApiBind{{Name: "calv", Val: c14Val{T: "int", V: json.RawMessage(`"7"`)}}}, Steps: []c14Step{{Op: "autosave"}, {Op: "session"},
			{Op: "in", Src: "cal2=cal+3"}, {Op: "in", Src: "save()"}, {Op: "session"}}}}
	byKey := map[string]*c14Case{}
	for _, cs := range cases {
		if byKey[cs.key()] != nil {
			c.Infra(fmt.Errorf("duplicate case key %s", cs.key()))
			return
		}
		byKey[cs.key()] = cs
		jobs = append(jobs, cs.job())
	}
	tPhase = time.Now()
	runs, err := c14RunJobs(filepath.Join(c.Scratch(), "c14"), jobs, par)
	c.Cov("wall_children_s", time.Since(tPhase).Seconds())
	if err != nil {
		c.Infra(err)
		return
	}
	base := runs["c14:baseline"]
	if base == nil || base.Save.SetupErr != "" {
		c.Infra(fmt.Errorf("baseline session failed: %+v", base))
		return
	}
	baseNames := map[string]bool{}
	for _, n := range base.Save.Globals {
		baseNames[n] = true
	}
	c14BaseNames = baseNames
	if cal := runs["c14:calibrate"]; cal == nil || cal.Save.SetupErr != "" || len(cal.Save.Sess) != 2 {
		c.Infra(fmt.Errorf("calibration history could not be run: %+v", cal))
		return
	} else if t, err := c14Norm(c14Trace(cal)); err != nil || len(c14Judge(t)) > 0 || len(t.HS) < 3 {
		c.Infra(fmt.Errorf("calibration history (auto-save, next session, input, save(), next session) fails on this tree: %v %v (session steps observed: %v)", err, c14Judge(t), t.HS))
		return
	}

	// 3. TV: one record per case, SaveLoad_Trace.tla decides
	var recs []c14TR
	var kept []*c14Case
	dropped, unbuilt := 0, 0
	for _, cs := range cases {
		run := runs[cs.key()]
		if run == nil {
			c.Infra(fmt.Errorf("no result for case %s", cs.key()))
			return
		}
		if run.Save.SetupErr != "" {
			if strings.HasPrefix(cs.ID, "genfn:") {
				dropped++ // the generated text is not a valid function body (e.g. a top-level-only construct)
				continue
			}
			// The model says this session exists, the calibration history was built and judged on this very tree: the
			// code under test refuses (or dies on) an input of the universe - a disagreement with the model, not a defect
			// of the harness.
			unbuilt++
			c.Case(cs.key(), true)
			c.Fail(sigNotBuilt, fmt.Sprintf("case %s (limit %d): the session the model describes cannot be built on this tree: %s (source: %.200q)", cs.ID, cs.Lim, run.Save.SetupErr, cs.Src),
				map[string]any{"job": cs.job(), "fail": "build"})
			continue
		}
		t, err := c14Norm(c14Trace(run))
		if err != nil {
			c.Infra(err)
			return
		}
		recs = append(recs, t)
		kept = append(kept, cs)
	}
	cases = kept
	c.Cov("generated_function_cases_dropped", dropped)
	c.Cov("cases_not_buildable", unbuilt)
	tPhase = time.Now()
	if err := waitMC(); err != nil {
		c.Infra(err)
		return
	}
	c.Cov("wall_waiting_for_mc_s", time.Since(tPhase).Seconds())
	tPhase = time.Now()
	sess := waitSess()
	if sess == nil {
		return // c.Infra was called
	}
	verdicts, err := c14TLCVerdicts(c, append(append([]c14TR{}, recs...), sess.recs...), c.Pick(5, 10))
	c.Cov("wall_trace_tlc_s", time.Since(tPhase).Seconds())
	if err != nil {
		c.Infra(err)
		return
	}
	if !c14JudgeSessions(c, sess, verdicts) {
		return
	}
	disagree, timeouts := 0, 0
	mvTotal, mvAgree, mvNoted := map[string]int{}, map[string]int{}, 0
	failing := 0
	sigCases := map[string]int{}
	for i, cs := range cases {
		run, t := runs[cs.key()], recs[i]
		c.Case(cs.key(), len(cs.Env) > 0 || len(cs.Env0) > 0 || cs.Src != "")
		tf, ok := verdicts[t.ID]
		if !ok {
			c.Infra(fmt.Errorf("no TLC verdict for %s", t.ID))
			return
		}
		gf := c14Judge(t)
		if strings.Join(tf, "\x00") != strings.Join(gf, "\x00") {
			c.Infra(fmt.Errorf("verdict mismatch between SaveLoad_Trace.tla and the harness mirror on %s: TLC %v, Go %v", t.ID, tf, gf))
			return
		}
		for _, cl := range run.Save.Calls {
			if cl.Timeout {
				timeouts++
			}
		}
		if i%97 == 3 {
			c.Sample(map[string]any{"case": cs.ID, "limit": cs.Lim, "file": latin1(string(run.Save.File[:min(len(run.Save.File), 300)])), "bindings_compared": len(t.B), "calls_compared": len(t.A.Calls), "failed_items": tf})
		}
		if len(tf) > 0 {
			failing++
			seen := map[string]bool{}
			for _, a := range c14Attribute(run, t, tf) {
				if seen[a.Sig] {
					continue // one failing case counts once per signature
				}
				seen[a.Sig] = true
				sigCases[a.Sig]++
				if os.Getenv("C14_DEBUG") != "" && (strings.HasPrefix(a.Sig, "c14-") || os.Getenv("C14_DEBUG") == "all") {
					fmt.Fprintf(os.Stderr, "DEBUG %s %s: %s [%s]\n   file=%q\n", a.Sig, cs.key(), c14Describe(run, t, a.Fail), a.Fail, run.Save.File[:min(len(run.Save.File), 600)])
				}
				c.Fail(a.Sig, fmt.Sprintf("case %s (limit %d): %s [%s]", cs.ID, cs.Lim, c14Describe(run, t, a.Fail), a.Fail),
					map[string]any{"job": cs.job(), "fail": a.Fail})
			}
		}
		if !cs.Random {
			for k, agree := range c14VerdictAgreement(cs, run, tf) {
				mvTotal[k]++
				if agree {
					mvAgree[k]++
				} else if mvNoted < 10 {
					mvNoted++
					c.Note("model_disagreement (verdict) %s: %s: model %v, real verdict items %v", cs.key(), k, cs.MV[k], tf)
				}
			}
			if d := c14ModelDiff(cs, run, baseNames); len(d) > 0 {
				disagree++
				if disagree <= 12 {
					c.Note("model_disagreement %s: %s", cs.key(), strings.Join(d[:min(len(d), 3)], "; "))
				}
			}
		}
	}
	c.AddTraces(int64(len(cases)))
	c.Cov("failing_cases", failing)
	c.Cov("failing_cases_by_signature", sigCases)
	c.Cov("model_disagreements", disagree)
	agreement := map[string]string{}
	for k, n := range mvTotal {
		agreement[k] = fmt.Sprintf("%d/%d", mvAgree[k], n)
	}
	c.Cov("model_verdict_agreement", agreement)
	c.Cov("calls_timed_out_not_compared", timeouts)
	c.Cov("exhaustive", true)
	c.Cov("value_universe", fmt.Sprintf("%d TLC-emitted cases: ints, floats, all 256 single bytes, strings, arrays, maps, 16x16 pairs, binding names, long lines, %d function/extension/quote cases, limit sweeps", nGen, c14CountPrefix(cases, "fn:")))

	// 4. binding self-test: corrupt one recorded field of a passing case; the trace spec must reject exactly that case
	tPhase = time.Now()
	defer func() { c.Cov("wall_selftest_s", time.Since(tPhase).Seconds()) }()
	if msg := c14SelfTest(c, append(append([]c14TR{}, recs...), sess.recs...), verdicts); msg != "" {
		c.Infra(fmt.Errorf("vacuous binding: %s", msg))
		return
	}
	c.Cov("sabotage_rejected", true)
}

func c14CountPrefix(cases []*c14Case, p string) int {
	n := 0
	for _, cs := range cases {
		if strings.HasPrefix(cs.ID, p) {
			n++
		}
	}
	return n
}

// c14Describe renders one failed item for the report.
func c14Describe(run *c14Run, t c14TR, fail string) string {
	parts := strings.SplitN(fail, ":", 3)
	switch parts[0] {
	case "rt":
		p := t.A
		if parts[1] == "W" {
			p = t.W
		}
		for i, b := range t.B {
			if b[0].(string) == parts[2] {
				how := "repl.AutoLoad"
				if parts[1] == "W" {
					how = "load()"
				}
				if !p.Vals[i][1].(bool) {
					return fmt.Sprintf("%s = %.120s is not bound after %s", parts[2], jstr(b[2]), how)
				}
				return fmt.Sprintf("%s = %.120s reloads by %s as %.120s (first difference: %s)", parts[2], jstr(b[2]), how, jstr(p.Vals[i][2]),
					c14FirstDiff(parts[2], c14AsJ(b[2]), c14AsJ(p.Vals[i][2])))
			}
		}
	case "call":
		p := t.A
		if parts[1] == "W" {
			p = t.W
		}
		for _, cl := range p.Calls {
			if cl[0].(string) == parts[2] {
				return fmt.Sprintf("%s gives %.150s in the saving session and %.150s after reload", parts[2], jstr(cl[1]), jstr(cl[2]))
			}
		}
	case "idem":
		return "saving the reloaded session again does not give the same file"
	case "oneline":
		return fmt.Sprintf("%d bindings, SaveGlobals returned %d, %d lines", len(t.Names), t.NU, len(t.LinesU))
	case "skipped":
		return fmt.Sprintf("with MaxValueLen=%d the file is not the unlimited file minus the lines whose value is longer", t.Lim)
	case "hrt":
		for _, h := range t.HS {
			if h[0].(string) == parts[1] && h[1].(string) == parts[2] {
				step, _ := strconv.Atoi(parts[1])
				le := ""
				for _, so := range run.Save.Sess {
					if so.Step == step && so.LoadErr != "" {
						le = " (repl.AutoLoad reported: " + so.LoadErr + ")"
					}
				}
				if !h[2].(bool) {
					return fmt.Sprintf("step %s of the history (auto-save, next session, auto-load): %s = %.120s is not bound in the next session%s", parts[1], parts[2], jstr(h[3]), le)
				}
				return fmt.Sprintf("step %s of the history (auto-save, next session, auto-load): %s%s", parts[1], c14FirstDiff(parts[2], c14AsJ(h[3]), c14AsJ(h[4])), le)
			}
		}
	case "step":
		for _, so := range run.Save.Sess {
			if strconv.Itoa(so.Step) == parts[1] {
				return fmt.Sprintf("step %s of the history: repl.AutoSave failed: %s", parts[1], so.SaveErr)
			}
		}
	case "saveext":
		switch {
		case run.Save.SaveErr != "":
			return "save() wrote different bytes than State.SaveGlobals: " + run.Save.SaveErr
		case !bytes.Equal(run.Save.SaveExt, run.Save.File):
			return "save() left other bytes in the file than State.SaveGlobals writes: " + c14BytesDiff(run.Save.SaveExt, run.Save.File)
		case run.Save.NameErr != "":
			return `save("c14named") failed: ` + run.Save.NameErr
		}
		return `save("c14named") left other bytes in the file than State.SaveGlobals writes: ` + c14BytesDiff(run.Save.SaveName, run.Save.File)
	case "autosave":
		if run.Save.AutoErr == "" {
			return "repl.AutoSave left other bytes in the file than State.SaveGlobals writes: " + c14BytesDiff(run.Save.AutoSave, run.Save.File)
		}
		return "repl.AutoSave wrote different bytes than State.SaveGlobals: " + run.Save.AutoErr
	}
	return fail
}

// c14BytesDiff: where the file on disk departs from the bytes of the state (for the report).
func c14BytesDiff(disk, state []byte) string {
	i := 0
	for i < len(disk) && i < len(state) && disk[i] == state[i] {
		i++
	}
	if i == len(state) && len(disk) > len(state) {
		return fmt.Sprintf("the %d bytes of the state are followed by %d more: %.160q", len(state), len(disk)-len(state), disk[i:])
	}
	return fmt.Sprintf("%d bytes on disk, %d bytes of state, first difference at byte %d: %.100q on disk, %.100q in the state", len(disk), len(state), i, disk[i:], state[i:])
}

// c14FirstDiff names the first place where two observed values differ (for the report).
func c14FirstDiff(path string, a, b J) string {
	if a["t"] == b["t"] {
		switch a["t"] {
		case "arr":
			x, y := c14List(a["e"]), c14List(b["e"])
			if len(x) != len(y) {
				return fmt.Sprintf("%s has %d elements in the session, %d after reload", path, len(x), len(y))
			}
			for i := range x {
				if !c14TSame(c14AsJ(x[i]), c14AsJ(y[i])) {
					return c14FirstDiff(fmt.Sprintf("%s[%d]", path, i), c14AsJ(x[i]), c14AsJ(y[i]))
				}
			}
		case "map":
			x, y := c14List(a["p"]), c14List(b["p"])
			if len(x) != len(y) {
				return fmt.Sprintf("%s has %d keys in the session, %d after reload", path, len(x), len(y))
			}
			for i := range x {
				p, q := c14List(x[i]), c14List(y[i])
				if len(p) != 2 || len(q) != 2 {
					break
				}
				if !c14TSame(c14AsJ(p[0]), c14AsJ(q[0])) {
					return fmt.Sprintf("key %d of %s is %.80s in the session, %.80s after reload", i, path, jstr(p[0]), jstr(q[0]))
				}
				if !c14TSame(c14AsJ(p[1]), c14AsJ(q[1])) {
					return c14FirstDiff(fmt.Sprintf("%s[%.40s]", path, jstr(c14AsJ(p[0])["v"])), c14AsJ(p[1]), c14AsJ(q[1]))
				}
			}
		}
	}
	return fmt.Sprintf("%s is %.80s in the session, %.80s after reload", path, jstr(a), jstr(b))
}

// c14RandomCases draws environments of 2..6 bindings from the emitted single values under random names.
func c14RandomCases(c *Ctx, gen []*c14Case, n int) []*c14Case {
	var pool []c14Val
	for _, cs := range gen {
		if cs.Src == "" && len(cs.Env) == 1 && !strings.HasPrefix(cs.ID, "long:") {
			pool = append(pool, cs.Env[0].Val)
		}
	}
	names := []string{"a", "b", "c", "d", "e", "m", "n", "x", "y", "z", "A", "B_1", "Zed", "_u", "v9", "abs", "keys"}
	var res []*c14Case
	for i := 0; i < n && len(pool) > 0; i++ {
		k := 2 + c.Rng.Intn(5)
		perm := c.Rng.Perm(len(names))[:k]
		sort.Ints(perm)
		cs := &c14Case{ID: fmt.Sprintf("rand:%d:%d", c.Seed, i), Random: true}
		if c.Rng.Intn(4) == 0 {
			cs.Lim = []int{3, 8, 20, 60}[c.Rng.Intn(4)]
		}
		for _, pi := range perm {
			v := pool[c.Rng.Intn(len(pool))]
			if c.Rng.Intn(5) == 0 { // wrap into a container
				if c.Rng.Intn(2) == 0 {
					v = c14Val{T: "arr", E: []c14Val{v, pool[c.Rng.Intn(len(pool))]}}
				} else {
					v = c14Val{T: "map", P: [][2]c14Val{{{T: "str", B: []int{107}}, v}}}
				}
			}
			cs.Env = append(cs.Env, c14Bind{Name: names[pi], Val: v})
			cs.Api = append(cs.Api, names[pi])
		}
		if i%2 == 1 {
			c14RandomHistory(c, cs, pool)
		}
		res = append(res, cs)
	}
	return res
}

// c14RandomHistory gives a seeded case a history (TV only): some way of producing a text from a binding (or from
// all of them), then an element one of its containers already has gets another value of the pool - up to three rounds.
// Keys and values are injected exactly (c14val), so every key type and bit pattern of the universe takes part.
func c14RandomHistory(c *Ctx, cs *c14Case, pool []c14Val) {
	cs.Env0 = cs.Env
	inject := func(v c14Val) string {
		cs.Extra = append(cs.Extra, v)
		return fmt.Sprintf("c14val(%d)", len(cs.Api)+len(cs.Extra)-1)
	}
	shows := []string{"println(%s)", "print(%s)", "%s", "join([%s])", "save()", "@autosave", "str(%s)", "json(%s)", "len({%s:1})", "log(%s)"}
	rounds := 1 + c.Rng.Intn(3)
	for r := 0; r < rounds; r++ {
		b := cs.Env[c.Rng.Intn(len(cs.Env))]
		show := shows[c.Rng.Intn(len(shows))]
		switch {
		case show == "@autosave":
			cs.Steps = append(cs.Steps, c14Step{Op: "autosave"})
		case strings.Contains(show, "%s"):
			cs.Steps = append(cs.Steps, c14Step{Op: "in", Src: fmt.Sprintf(show, b.Name), Echo: show == "%s"})
		default:
			cs.Steps = append(cs.Steps, c14Step{Op: "in", Src: show})
		}
		// the change: an element the container has; a scalar binding is bound again
		nv := pool[c.Rng.Intn(len(pool))]
		switch {
		case b.Val.T == "arr" && len(b.Val.E) > 0:
			cs.Steps = append(cs.Steps, c14Step{Op: "in", Src: fmt.Sprintf("%s[%d] = %s", b.Name, c.Rng.Intn(len(b.Val.E)), inject(nv))})
		case b.Val.T == "map" && len(b.Val.P) > 0:
			k := b.Val.P[c.Rng.Intn(len(b.Val.P))][0]
			cs.Steps = append(cs.Steps, c14Step{Op: "in", Src: fmt.Sprintf("%s[%s] = %s", b.Name, inject(k), inject(nv))})
		default:
			cs.Steps = append(cs.Steps, c14Step{Op: "in", Src: fmt.Sprintf("%s = %s", b.Name, inject(nv))})
		}
	}
}

// c14GeneratedFuncCases wraps seeded programs of the typed generator (harness/gen.go) as the body of a saved
// function `gen`, next to a few data bindings: the reloaded function must print and return the same.
func c14GeneratedFuncCases(c *Ctx, n int) []*c14Case {
	var res []*c14Case
	for i := 0; i < n; i++ {
		g := NewGen(c.Rng)
		body := renderProgram(g.Program(2 + c.Rng.Intn(5)))
		cs := &c14Case{ID: fmt.Sprintf("genfn:%d:%d", c.Seed, i), Random: true,
			Src: "k = " + strconv.Itoa(c.Rng.Intn(100)) + "\nfunc gen(){\n" + body + "}\n"}
		res = append(res, cs)
	}
	return res
}

// c14SelfTest corrupts one recorded field per probe and requires the trace spec to reject that record.
func c14SelfTest(c *Ctx, recs []c14TR, verdicts map[string][]string) string {
	var probes []c14TR
	var want []string
	pick := func(pred func(t c14TR) bool) *c14TR {
		for i := range recs {
			if len(verdicts[recs[i].ID]) == 0 && pred(recs[i]) {
				cp, _ := c14Norm(recs[i])
				return &cp
			}
		}
		return nil
	}
	// (1) a reloaded integer is off by one
	idxOf := func(t c14TR, name string) int {
		for i, b := range t.B {
			if b[0].(string) == name && c14AsJ(b[2])["t"] == "int" {
				return i
			}
		}
		return -1
	}
	if t := pick(func(t c14TR) bool { return strings.HasPrefix(t.ID, "int:") && idxOf(t, "a") >= 0 }); t != nil {
		i := idxOf(*t, "a")
		t.A.Vals[i] = []any{t.A.Vals[i][0], true, J{"t": "int", "v": "12345"}}
		t.ID += "#sab1"
		probes, want = append(probes, *t), append(want, "rt:A:"+t.B[i][0].(string))
	}
	// (2) a reloaded value changes its type only (float for int)
	if t := pick(func(t c14TR) bool {
		return strings.HasPrefix(t.ID, "int:2|") && len(t.B) > 0
	}); t != nil {
		i := len(t.B) - 1
		t.W.Vals[i] = []any{t.W.Vals[i][0], true, J{"t": "float", "v": "3ff0000000000000"}}
		t.ID += "#sab2"
		probes, want = append(probes, *t), append(want, "rt:W:"+t.B[i][0].(string))
	}
	// (3) a call result differs after reload
	if t := pick(func(t c14TR) bool { return len(t.A.Calls) > 0 && strings.HasPrefix(t.ID, "fn:") }); t != nil {
		cl := t.A.Calls[0]
		o := c14List(cl[2])
		t.A.Calls[0] = []any{cl[0], cl[1], []any{"corrupted", o[1], o[2], false}}
		cl0 := c14List(cl[1])
		t.A.Calls[0][1] = []any{cl0[0], cl0[1], cl0[2], false}
		t.ID += "#sab3"
		probes, want = append(probes, *t), append(want, "call:A:"+cl[0].(string))
	}
	// (4) one line of the file is missing
	if t := pick(func(t c14TR) bool { return len(t.Lines) > 3 && t.Lim == 0 }); t != nil {
		t.Lines = t.Lines[1:]
		t.LinesU = t.LinesU[1:]
		t.ID += "#sab4"
		probes, want = append(probes, *t), append(want, "oneline")
	}
	// (5) a too-long value is truncated instead of skipped
	if t := pick(func(t c14TR) bool { return t.Lim > 0 && len(t.Lines) < len(t.LinesU) }); t != nil {
		for _, l := range t.LinesU {
			if c14ValueLen(unlatin1(l)) > t.Lim {
				t.Lines = append(t.Lines, l[:len(c14LineName(unlatin1(l)))+1+t.Lim])
				break
			}
		}
		t.N++
		t.ID += "#sab5"
		probes, want = append(probes, *t), append(want, "skipped")
	}
	// (6) the resave flag is flipped
	if t := pick(func(t c14TR) bool { return t.K == "case" && t.W.Idem }); t != nil {
		t.W.Idem = false
		t.ID += "#sab6"
		probes, want = append(probes, *t), append(want, "idem:W")
	}
	// (7) a multi-session history: an element of a container of the fresh session is off
	bigMap := func(v J) bool { return v["t"] == "map" && len(c14List(v["p"])) > 4 }
	if t := pick(func(t c14TR) bool {
		for _, b := range t.B {
			if t.K == "sess" && bigMap(c14AsJ(b[2])) {
				return true
			}
		}
		return false
	}); t != nil {
		for i, b := range t.B {
			if v := c14AsJ(b[2]); bigMap(v) {
				ps := append([]any{}, c14List(v["p"])...)
				ps[0] = []any{c14List(ps[0])[0], J{"t": "int", "v": "424242"}}
				t.A.Vals[i] = []any{b[0], true, J{"t": "map", "p": ps}}
				t.ID += "#sab7"
				probes, want = append(probes, *t), append(want, "rt:A:"+b[0].(string))
				break
			}
		}
	}
	// (8) a "session" step inside a history: a global of the next session is not what the ending session saved
	if t := pick(func(t c14TR) bool {
		for _, h := range t.HS {
			if t.K == "case" && strings.HasPrefix(t.ID, "hist:") && h[1].(string) == "m" {
				return true
			}
		}
		return false
	}); t != nil {
		for i, h := range t.HS {
			if h[1].(string) == "m" {
				t.HS[i] = []any{h[0], h[1], true, h[3], J{"t": "int", "v": "424242"}}
				t.ID += "#sab8"
				probes, want = append(probes, *t), append(want, "hrt:"+h[0].(string)+":m")
				break
			}
		}
	}
	if len(probes) < 8 {
		return fmt.Sprintf("only %d sabotage probes could be built: %v", len(probes), want)
	}
	got, err := c14TLCVerdicts(c, probes, 1)
	if err != nil {
		return err.Error()
	}
	for i, p := range probes {
		found := false
		for _, f := range got[p.ID] {
			if f == want[i] {
				found = true
			}
		}
		if !found {
			return fmt.Sprintf("corrupted record %s was not rejected with %s (verdict %v)", p.ID, want[i], got[p.ID])
		}
		gf := c14Judge(p)
		if strings.Join(gf, "\x00") != strings.Join(got[p.ID], "\x00") {
			return fmt.Sprintf("mirror disagrees on corrupted record %s: TLC %v Go %v", p.ID, got[p.ID], gf)
		}
	}
	return ""
}

// ---------------------------------------------------------------------------------- replay

func replayC14(rp map[string]any) (bool, string) {
	if rp["check"] == "sessions" {
		return c14ReplaySessions(rp)
	}
	b, _ := json.Marshal(rp["job"])
	var job c14Job
	if err := json.Unmarshal(b, &job); err != nil {
		return false, "bad replay file: " + err.Error()
	}
	fail, _ := rp["fail"].(string)
	dir, err := os.MkdirTemp("", "verif-C14-replay-")
	if err != nil {
		return false, err.Error()
	}
	defer os.RemoveAll(dir)
	runs, err := c14RunJobs(dir, []c14Job{job}, 1)
	if err != nil {
		fmt.Fprintln(os.Stderr, "INFRASTRUCTURE:", err)
		os.Exit(2)
	}
	run := runs[job.ID]
	if run != nil && fail == "build" {
		if run.Save.SetupErr != "" {
			return false, "the session cannot be built: " + run.Save.SetupErr
		}
		return true, ""
	}
	if run == nil || run.Save.SetupErr != "" {
		fmt.Fprintln(os.Stderr, "INFRASTRUCTURE: case cannot be rebuilt:", run)
		os.Exit(2)
	}
	t, err := c14Norm(c14Trace(run))
	if err != nil {
		return false, err.Error()
	}
	fails := c14Judge(t)
	for _, f := range fails {
		if f == fail || fail == "" {
			return false, fmt.Sprintf("%s: %s", f, c14Describe(run, t, f))
		}
	}
	return true, ""
}
