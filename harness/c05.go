package main

// C05 - integer registers are unobservable (spec/Registers.tla, spec/Equiv_Trace.tla).

import (
	"encoding/json"
	"fmt"
	"math/rand"
	"strings"
)

func init() {
	props["C05"] = propDef{check: checkC05, replay: replayC05,
		rule: "case = one session history (TLC-generated register schedule instantiated as grol inputs, or a generated program) run with registers on and off on persistent states; distinct by source text; non-trivial when it contains a counted loop or an integer parameter"}
}

type regOp struct {
	Op   string `json:"op"`
	K    int    `json:"k"`
	Reg  bool   `json:"reg"`
	Kind string `json:"kind"`
}

func regCfg(params string, maxDepth, maxOps int, rel, fb, emit bool, wb ...bool) string {
	wbExit, wbPanic := true, true
	if len(wb) == 2 {
		wbExit, wbPanic = wb[0], wb[1]
	}
	b := func(x bool) string {
		if x {
			return "TRUE"
		}
		return "FALSE"
	}
	return fmt.Sprintf("CONSTANTS\n NumRegisters = 8\n ParamChoices = %s\n MaxDepth = %d\n MaxOps = %d\n ReleaseOnEveryExit = %s\n FallBackWhenFull = %s\n WriteBackOnExit = %s\n WriteBackOnPanic = %s\n EmitOn = %s\nINIT Init\nNEXT Next\nVIEW view\nINVARIANTS Balanced NoPanic SlotsAreAStack Bounded SameBindings\n",
		params, maxDepth, maxOps, b(rel), b(fb), b(wbExit), b(wbPanic), b(emit))
}

// instantiate turns a register schedule into a sequence of REPL inputs. variant selects naming /
// body variations (loop variable coinciding with a parameter, closures, parameter mutation).
func instantiateSchedule(ops []regOp, variant int) []string {
	r := rand.New(rand.NewSource(int64(variant)*7919 + int64(len(ops))))
	var inputs []string
	var sb strings.Builder
	type frame struct {
		kind   string // "fn" | "loop"
		params []string
	}
	var stack []frame
	id := 0
	closeAll := func() {
		for i := len(stack) - 1; i >= 0; i-- {
			if stack[i].kind == "fn" {
				args := make([]string, len(stack[i].params))
				for j := range args {
					args[j] = fmt.Sprint(j + 1)
				}
				sb.WriteString("}(" + strings.Join(args, ", ") + "));")
			} else {
				sb.WriteString("};")
			}
		}
		stack = stack[:0]
	}
	flush := func() {
		if sb.Len() > 0 {
			inputs = append(inputs, sb.String())
			sb.Reset()
		}
		inputs = append(inputs, `println("probe", g)`)
	}
	inputs = append(inputs, "g = 0")
	enclosingParams := func() []string {
		for i := len(stack) - 1; i >= 0; i-- {
			if stack[i].kind == "fn" {
				return stack[i].params
			}
		}
		return nil
	}
	for idx, op := range ops {
		switch op.Op {
		case "call":
			id++
			ps := make([]string, op.K)
			for j := range ps {
				ps[j] = fmt.Sprintf("p%d_%d", id, j)
			}
			sb.WriteString(`println("r", func(` + strings.Join(ps, ", ") + ") {")
			sb.WriteString("g = g + 1;")
			if op.K > 0 {
				fmt.Fprintf(&sb, `println("P", %s + %s);`, ps[0], ps[op.K-1])
				switch r.Intn(4) {
				case 0:
					fmt.Fprintf(&sb, "%s = %s + 10;", ps[0], ps[0])
				case 1:
					fmt.Fprintf(&sb, "%s++;", ps[op.K-1])
				case 2:
					fmt.Fprintf(&sb, "println(--%s);", ps[0])
				}
			}
			stack = append(stack, frame{kind: "fn", params: ps})
		case "enter":
			id++
			name := fmt.Sprintf("i%d", id)
			if eps := enclosingParams(); len(eps) > 0 && r.Intn(5) == 0 {
				name = eps[r.Intn(len(eps))] // loop variable coincides with a parameter (only read inside the body)
			}
			caught := false
			// look ahead: is this loop left by an error that is caught just outside it?
			depthN := 0
			for _, later := range ops[idx+1:] {
				if later.Op == "enter" {
					depthN++
				} else if later.Op == "exit" {
					if depthN == 0 {
						caught = later.Kind == "caught"
						break
					}
					depthN--
				} else if later.Op == "return" || later.Op == "error" {
					break
				}
			}
			if caught {
				sb.WriteString("println(catch(")
			}
			if op.Reg {
				fmt.Fprintf(&sb, "for %s = 2 {", name)
				fmt.Fprintf(&sb, `println("L", %s); g = g + 1;`, name)
				if r.Intn(6) == 0 {
					fmt.Fprintf(&sb, `println(++%s);`, name)
				}
			} else if r.Intn(2) == 0 {
				sb.WriteString(`for 2 {g = g + 1; println("U");`)
			} else {
				// a function literal in the body: the loop variable cannot be a register
				fmt.Fprintf(&sb, `for %s = 2 {h%d = func() {%s * 2}; println("C", h%d()); g = g + 1;`, name, id, name, id)
			}
			stack = append(stack, frame{kind: "loop"})
		case "exit":
			if op.Kind == "break" {
				sb.WriteString("break;")
			}
			if op.Kind == "caught" {
				sb.WriteString(`error("C");}).err);`)
			} else {
				sb.WriteString("};")
			}
			stack = stack[:len(stack)-1]
		case "return":
			sb.WriteString("return 7;")
			// close the loops of this function and the function itself
			for len(stack) > 0 && stack[len(stack)-1].kind == "loop" {
				sb.WriteString("};")
				stack = stack[:len(stack)-1]
			}
			f := stack[len(stack)-1]
			args := make([]string, len(f.params))
			for j := range args {
				args[j] = fmt.Sprint(j + 1)
			}
			sb.WriteString("}(" + strings.Join(args, ", ") + "));")
			stack = stack[:len(stack)-1]
		case "error":
			sb.WriteString(`error("E");`)
			closeAll()
			flush()
		}
		if len(stack) == 0 && sb.Len() > 0 {
			flush()
		}
	}
	return inputs
}

func compareModes(c *Ctx, what string, cases [][]string, meta []map[string]any, a, b RunOpt, failSig func(i int) string) {
	var ecs []equivCase
	obsA := make([][]inObs, len(cases))
	obsB := make([][]inObs, len(cases))
	for i, inputs := range cases {
		obsA[i], _ = runHistory(inputs, a)
		obsB[i], _ = runHistory(inputs, b)
		ecs = append(ecs, equivCase{ID: i, A: obsA[i], B: obsB[i]})
	}
	vs, err := equivValidate(c, ecs)
	if err != nil {
		c.Infra(err)
		return
	}
	for i, inputs := range cases {
		v, ok := vs[i]
		if !ok {
			c.Infra(fmt.Errorf("no equivalence verdict for case %d", i))
			return
		}
		if v.OK {
			c.AddTraces(1)
			continue
		}
		rp := map[string]any{"check": what, "inputs": inputs}
		for k, val := range meta[i] {
			rp[k] = val
		}
		c.Fail(failSig(i), describeDiff(obsA[i], obsB[i], v.At), rp)
	}
}

func checkC05(c *Ctx) {
	// 1. design level: the mechanism as it was before the repair violates the invariants
	for _, dev := range []struct {
		rel, fb bool
		inv     string
	}{{false, true, "Balanced"}, {true, false, "NoPanic"}} {
		r, err := c.TLC(TLCOpt{Spec: "Registers", Cfg: regCfg("{0, 2, 9}", 6, 6, dev.rel, dev.fb, false), Workers: 4, AllowError: true})
		if err != nil {
			c.Infra(err)
			return
		}
		if r.InvViolated != dev.inv {
			c.Infra(fmt.Errorf("Registers.tla with deviation (release=%v fallback=%v) did not violate %s: %q %s", dev.rel, dev.fb, dev.inv, r.InvViolated, r.ErrText))
			return
		}
	}
	for _, wb := range [][2]bool{{false, true}, {true, false}} {
		r, err := c.TLC(TLCOpt{Spec: "Registers", Cfg: regCfg("{0, 2}", 4, 5, true, true, false, wb[0], wb[1]), Workers: 4, AllowError: true})
		if err != nil {
			c.Infra(err)
			return
		}
		if r.InvViolated != "SameBindings" {
			c.Infra(fmt.Errorf("Registers.tla with write back on exit=%v on panic=%v did not violate SameBindings: %q %s", wb[0], wb[1], r.InvViolated, r.ErrText))
			return
		}
	}
	c.Cov("design_counterexamples", "ReleaseOnEveryExit=FALSE violates Balanced; FallBackWhenFull=FALSE violates NoPanic; WriteBackOnExit=FALSE and WriteBackOnPanic=FALSE violate SameBindings")

	// 2. MC + GEN: schedules from the repaired mechanism model
	params, depth, ops := "{0, 1, 8, 9, 12}", 10, 6
	if c.Thorough() {
		params, depth, ops = "{0, 1, 3, 8, 9, 12}", 10, 8
	}
	r, err := c.TLC(TLCOpt{Spec: "Registers", Cfg: regCfg(params, depth, ops, true, true, true), Workers: 8})
	if err != nil {
		c.Infra(err)
		return
	}
	var cases [][]string
	var meta []map[string]any
	seen := map[string]bool{}
	nSched := 0
	stride := c.Pick(2, 1)
	if c.Thorough() {
		// the deeper model emits millions of schedules: replay an evenly spread sample of at most ~250000 of them
		total := 0
		if err := ReadLines(r.Emitted, func([]byte) error { total++; return nil }); err != nil {
			c.Infra(err)
			return
		}
		stride = 1 + total/250000
		c.Cov("schedules_emitted", total)
		c.Cov("schedule_stride", stride)
	}
	err = ReadLines(r.Emitted, func(line []byte) error {
		var g struct {
			H []regOp `json:"h"`
		}
		if err := json.Unmarshal(line, &g); err != nil {
			return err
		}
		nSched++
		if (nSched+int(c.Seed))%stride != 0 {
			return nil
		}
		for variant := 0; variant < c.Pick(1, 2); variant++ {
			inputs := instantiateSchedule(g.H, variant+int(c.Seed)*3)
			key := strings.Join(inputs, "\n")
			if seen[key] {
				continue
			}
			seen[key] = true
			cases = append(cases, inputs)
			meta = append(meta, map[string]any{"schedule": g.H})
			c.Case(key, true)
			if len(cases)%3000 == 1 {
				c.Sample(map[string]any{"schedule": g.H, "inputs": inputs})
			}
		}
		return nil
	})
	if err != nil {
		c.Infra(err)
		return
	}
	if len(cases) == 0 {
		c.Infra(fmt.Errorf("Registers GEN produced no schedule"))
		return
	}
	c.Cov("schedules", nSched)
	compareModes(c, "schedule", cases, meta, RunOpt{}, RunOpt{NoReg: true}, func(int) string { return "registers-observable" })

	// deep nesting and many parameters beyond the model-checked bound (still from the same instantiation)
	deep, dmeta := deepRegisterSessions(int(c.Seed))
	for _, in := range deep {
		c.Case(strings.Join(in, "\n"), true)
	}
	compareModes(c, "deep", deep, dmeta, RunOpt{}, RunOpt{NoReg: true}, func(int) string { return "registers-observable" })
	// 3. random generated programs, whole program as one input
	n := c.Pick(600, 20000)
	var rc [][]string
	var rmeta []map[string]any
	off := genOffFromLedger(c)
	for i := 0; i < n; i++ {
		g := NewGen(rand.New(rand.NewSource(c.Seed*7000003 + int64(i))))
		if i%2 == 1 {
			g.PLib = 12 // every other program also calls the modelled library (extension functions, abs, keys)
		}
		for f := range off {
			g.Off[f] = true
		}
		prog := g.Program(3 + g.pick(8))
		src := renderProgram(prog)
		rc = append(rc, []string{src})
		rmeta = append(rmeta, map[string]any{"features": featureKey(g.Used)})
		c.Case(src, g.Used["for-var-count"] || g.Used["for-range"] || g.Used["func"])
	}
	compareModes(c, "random", rc, rmeta, RunOpt{}, RunOpt{NoReg: true}, func(int) string { return "registers-observable" })

	// 3b. interaction families (shadowing, dot keys, callee expressions, loop values, variadic pass-through, stale references)
	var ic [][]string
	var imeta []map[string]any
	for _, src := range interactionPrograms() {
		ic = append(ic, []string{src})
		imeta = append(imeta, map[string]any{"family": "interaction"})
		c.Case(src, true)
	}
	compareModes(c, "interaction", ic, imeta, RunOpt{}, RunOpt{NoReg: true}, func(int) string { return "registers-observable" })

	// 3c. loops left by a recovered panic (depth limit, refused allocation) or by a deadline: what the session sees afterwards
	var pc [][]string
	var pmeta []map[string]any
	for _, boom := range []string{"rec(0)", "both(0)", "[rec(0)]"} { // (the refused allocation's message holds byte counts: not comparable)
		for _, loop := range []string{"for i = 5 {if i == 3 {BOOM}}", "for i = 2:9 {for j = 3 {if i == 4 && j == 1 {BOOM}}}", "f = func() {for k = 4 {if k == 2 {BOOM}}}; f()", "i = 50; for i = 5 {if i == 3 {BOOM}}",
			"g = func(n) {for k = n {if k == 1 {BOOM}}; n}; for i = 3 {g(i + 1)}", "for i = 5 {catch(1 / 0); if i == 3 {BOOM}}", "h = func(n) {n++; if n > 2 {BOOM}; n}; for i = 6 {h(i)}"} {
			in := []string{"func rec(n) {rec(n + 1)}", "func both(n) {for q = 2 {both(n + 1)}}", strings.ReplaceAll(loop, "BOOM", boom), "println(catch(i), catch(j), catch(k), catch(q))", "for i = 2 {println(i)}; println(catch(i))", "for z = 1 {for y = 1 {for x = 1 {println(x, y, z)}}}"}
			pc = append(pc, in)
			pmeta = append(pmeta, map[string]any{"family": "loop-left-by-panic"})
			c.Case(strings.Join(in, "\n"), true)
		}
	}
	compareModes(c, "loop-left-by-panic", pc, pmeta, RunOpt{MaxDepth: 150}, RunOpt{NoReg: true, MaxDepth: 150}, func(int) string { return "registers-observable-after-recovered-panic" })

	// 3d. the depth limit: a recursion reaching exactly the limit ends the same way in both modes, whatever the deepest
	//     evaluation is (reading a parameter held in a register must cost what reading a variable costs)
	var dlc [][]string
	var dlmeta []map[string]any
	for _, leaf := range []string{"-n", "n", "(n)", "n + 0", "[n]", "{n: n}", "n == n", "!last", "[n][0]", "n = n + 1; n", "++n", "m = n; m", "for i = 1 {i}", "for i = 1 {n}", "len([n, n])", "min(n, 3)", "str(n)"} {
		def := "func f(n, last) {if last {return " + leaf + "}; f(n - 1, n == 1)}"
		if strings.Contains(leaf, ";") || strings.HasPrefix(leaf, "for") {
			def = "func f(n, last) {if last {" + leaf + "} else {f(n - 1, n == 1)}}"
		}
		in := []string{def}
		for k := 80; k <= 104; k++ {
			in = append(in, fmt.Sprintf("f(%d, false)", k))
		}
		dlc = append(dlc, in)
		dlmeta = append(dlmeta, map[string]any{"family": "depth-limit"})
		c.Case(strings.Join(in, "\n"), true)
	}
	compareModes(c, "depth-limit", dlc, dlmeta, RunOpt{MaxDepth: 100, CacheOff: true}, RunOpt{NoReg: true, MaxDepth: 100, CacheOff: true}, func(int) string { return "registers-observable-at-the-depth-limit" })

	// 4. pinned reproducers of listed findings (always run)
	pinned := []struct{ sig, src string }{
		{"loop-variable-visibility-after-loop", "i = 100; for i = 3 {}; println(i)"},
		{"loop-variable-visibility-after-loop", "for j = 3 {}; println(catch(j).err)"},
		{"loop-variable-invisible-to-callees-during-loop", "f = func() {i}; for i = 3 {println(catch(f()).err)}"},
		{"loop-variable-invisible-to-callees-during-loop", "g = func() {f = func() {k}; for k = 2 {println(catch(f()).err)}}; g()"},
		{"loop-variable-invisible-to-callees-during-loop", "tree = func(n) {if n <= 0 {return []}; r = []; for i = 2 {r = r + tree(n - 1); r = r + [i]}; r}; println(tree(3))"},
	}
	for _, p := range pinned {
		a, _ := runHistory([]string{p.src}, RunOpt{})
		b, _ := runHistory([]string{p.src}, RunOpt{NoReg: true})
		c.Case("pinned:"+p.src, true)
		if fmt.Sprint(a) != fmt.Sprint(b) {
			c.Fail(p.sig, describeDiff(a, b, 1), map[string]any{"check": "pinned", "inputs": []string{p.src}})
		}
	}
}

func replayC05(rp map[string]any) (bool, string) {
	var inputs []string
	b, _ := json.Marshal(rp["inputs"])
	_ = json.Unmarshal(b, &inputs)
	x, _ := runHistory(inputs, RunOpt{})
	y, _ := runHistory(inputs, RunOpt{NoReg: true})
	for i := range x {
		if i >= len(y) || x[i] != y[i] {
			return false, describeDiff(x, y, i+1)
		}
	}
	return true, ""
}

// deepRegisterSessions: functions with 0..12 integer parameters around 8..10 nested counted loops, left by every kind of
// exit, each repeated 10 times in one session (so that a leak accumulates across inputs).
func deepRegisterSessions(seed int) ([][]string, []map[string]any) {
	var deep [][]string
	var dlmeta []map[string]any
	for _, k := range []int{0, 7, 8, 9, 12} {
		for _, depthN := range []int{8, 9, 10} {
			var ops []regOp
			ops = append(ops, regOp{Op: "call", K: k})
			for i := 0; i < depthN; i++ {
				ops = append(ops, regOp{Op: "enter", Reg: true})
			}
			for _, kind := range []string{"end", "break", "return", "error"} {
				h := append([]regOp{}, ops...)
				switch kind {
				case "end", "break":
					for i := 0; i < depthN; i++ {
						h = append(h, regOp{Op: "exit", Kind: kind})
					}
					h = append(h, regOp{Op: "return"})
				case "return":
					h = append(h, regOp{Op: "return"})
				case "error":
					h = append(h, regOp{Op: "error"})
				}
				var rep []regOp
				for i := 0; i < 10; i++ {
					rep = append(rep, h...)
				}
				deep = append(deep, instantiateSchedule(rep, seed))
				dlmeta = append(dlmeta, map[string]any{"params": k, "nesting": depthN, "exit": kind})
			}
		}
	}
	return deep, dlmeta
}
