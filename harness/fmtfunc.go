package main

// fmtfunc: function VALUES (C02 observe_at: object.Function.Inspect / SaveGlobals, which reuse the compact
// printer). A function literal is evaluated on a fresh state; the text Inspect() returns - and the line
// SaveGlobals writes for it - must parse back to the same function: same name, parameters, variadic flag
// and body. The lambda flag is normalised the way the evaluator does it by design (an anonymous
// `func(..){..}` IS a lambda value), so it is not compared.

import (
	"bytes"
	"context"
	"fmt"
	"reflect"
	"strings"
	"time"

	"grol.io/grol/ast"
	"grol.io/grol/object"
)

type fnRec struct {
	Src   string // source of the statement holding the literal (`f = <literal>` or `func name..`)
	Via   string // inspect | save
	Text  string // what Inspect() / SaveGlobals produced
	FN    J      // dump of the original literal (normalised, with comment flags)
	D0    string
	Ok    bool   // Text parsed back to a program holding exactly one function literal (bound the same way)
	DI    string // its normalised dump
	Text2 string // the text printed again for the function read back from Text (C03: Text is a fixpoint)
	Ok2   bool
	Panic string
}

func normFn(n J) J {
	c := deepCopy(any(n)).(J)
	delete(c, "ck")
	if c["name"] == "" {
		c["lambda"] = true
	}
	return c
}

// findFn returns the function literal a statement defines: `func name(){}`, `x = <fn>`, or a bare literal.
func findFn(st J) (fn J, bound string) {
	switch st["k"] {
	case "fn":
		return st, ""
	case "asg":
		l, _ := st["l"].(J)
		r, _ := st["r"].(J)
		if l != nil && r != nil && l["k"] == "id" && r["k"] == "fn" {
			return r, l["n"].(string)
		}
	}
	return nil, ""
}

// fnRecords evaluates src (one statement defining a function) and records both texts.
func fnRecords(src string) (recs []fnRec) {
	prog, ok, _ := fmtParse(src)
	if !ok || len(prog.Statements) != 1 {
		return nil
	}
	tree := stripKey(dumpStmts(prog)).([]any)
	fn0, bound := findFn(tree[0].(J))
	if fn0 == nil {
		return nil
	}
	name, _ := fn0["name"].(string)
	if name == "" && bound == "" {
		bound = "f"
		src = "f = " + src
		if prog, ok, _ = fmtParse(src); !ok {
			return nil
		}
	}
	varName := bound
	if name != "" && bound == "" {
		varName = name
	}
	nf := normFn(fn0)
	// the compact printer omits statement comments by design
	d0 := canonDump(stripCommentsGo([]any{stripFlags(deepCopy(any(nf)))}).([]any))
	mk := func(via string) fnRec { return fnRec{Src: src, Via: via, FN: nf, D0: d0} }
	recs = fnRecordsOn(prog, false, mk, varName, name, nil)
	// the same definition in a session where a macro is defined: every input of such a session goes through
	// eval.State.ExpandMacros (ast.Modify) before it is evaluated, so the function value holds a REBUILT tree
	if plain := recs; len(plain) > 0 {
		recs = append(recs, fnRecordsOn(prog, true, mk, varName, name, plain)...)
	}
	return recs
}

var fnMacroProg *ast.Statements

// fnRecordsOn evaluates the definition on a fresh state (after defining an unrelated macro when rebuilt is set) and
// records the Inspect() and SaveGlobals texts. plain = the records of the macro-free session: a text that is
// byte-identical to the one recorded there reads back the same way, so that part is taken from it.
func fnRecordsOn(prog *ast.Statements, rebuilt bool, mk func(string) fnRec, varName, name string, plain []fnRec) (recs []fnRec) {
	suffix := ""
	s, buf := newState(RunOpt{})
	if rebuilt {
		suffix = "-rebuilt"
		if fnMacroProg == nil {
			fnMacroProg, _, _ = fmtParse(fmtUnrelatedMacro)
		}
		mp := *fnMacroProg
		mp.Statements = append([]ast.Node{}, fnMacroProg.Statements...) // DefineMacros removes the definition from the list
		if o := evalProgram(s, buf, &mp, RunOpt{}); o.Panicked || o.Err || s.NumMacros() != 1 {
			return nil
		}
	}
	o := evalProgram(s, buf, prog, RunOpt{})
	if o.Panicked || o.Err {
		return nil // not a function value (e.g. a constant name defined twice): outside this check
	}
	cancel := s.SetContext(context.Background(), 5*time.Second)
	defer cancel()
	same := func(r *fnRec) bool {
		for i := range plain {
			if p := &plain[i]; p.Via+suffix == r.Via && p.Text == r.Text && p.Panic == "" {
				r.Ok, r.DI, r.Text2, r.Ok2 = p.Ok, p.DI, p.Text2, p.Ok2
				return true
			}
		}
		return false
	}
	back := func(r *fnRec, wantBound string) {
		p2, ok, _ := fmtParse(r.Text)
		if !ok || len(p2.Statements) != 1 {
			return
		}
		t2 := stripKey(dumpStmts(p2)).([]any)
		fn2, b2 := findFn(t2[0].(J))
		if fn2 == nil || b2 != wantBound {
			return
		}
		r.Ok = true
		r.DI = canonDump([]any{stripFlags(any(normFn(fn2)))})
		// print the function that was read back once more, the same way
		defer func() {
			if e := recover(); e != nil {
				r.Ok2 = false
			}
		}()
		s2, buf2 := newState(RunOpt{})
		o2 := evalProgram(s2, buf2, p2, RunOpt{})
		if o2.Panicked || o2.Err {
			return
		}
		cancel2 := s2.SetContext(context.Background(), 5*time.Second)
		defer cancel2()
		if strings.HasPrefix(r.Via, "inspect") {
			look, _ := fn2["name"].(string)
			if look == "" {
				// the text of an anonymous function is an expression: its value is the function
				p3, _, _ := fmtParse("(" + r.Text + ")")
				if v, okv := object.Value(s2.Eval(p3)).(object.Function); okv {
					r.Text2, r.Ok2 = v.Inspect(), true
				}
				return
			}
			if v, okv := object.Value(s2.Eval(parseIdent(look))).(object.Function); okv {
				r.Text2, r.Ok2 = v.Inspect(), true
			}
			return
		}
		var out2 bytes.Buffer
		if _, err := s2.SaveGlobals(&out2); err != nil {
			return
		}
		for _, ln := range strings.Split(out2.String(), "\n") {
			if (wantBound != "" && strings.HasPrefix(ln, varName+"=")) || (wantBound == "" && strings.HasPrefix(ln, "func "+name+"(")) {
				r.Text2, r.Ok2 = ln, true
			}
		}
	}
	func() {
		r := mk("inspect" + suffix)
		defer func() {
			if e := recover(); e != nil {
				r.Panic = fmt.Sprint(e)
			}
			recs = append(recs, r)
		}()
		v, okv := object.Value(s.Eval(parseIdent(varName))).(object.Function)
		if !okv {
			r.Panic = "binding is not a function value"
			return
		}
		r.Text = v.Inspect()
		if !same(&r) {
			back(&r, "")
		}
	}()
	func() {
		r := mk("save" + suffix)
		defer func() {
			if e := recover(); e != nil {
				r.Panic = fmt.Sprint(e)
			}
			recs = append(recs, r)
		}()
		var out bytes.Buffer
		if _, err := s.SaveGlobals(&out); err != nil {
			r.Panic = err.Error()
			return
		}
		// a named function is saved as its definition (whatever variable also holds it), an anonymous one as `var=..`
		want := varName
		if name != "" {
			want = ""
		}
		for _, ln := range strings.Split(out.String(), "\n") {
			if (want != "" && strings.HasPrefix(ln, varName+"=")) || (want == "" && strings.HasPrefix(ln, "func "+name+"(")) {
				r.Text = ln
			}
		}
		if !same(&r) {
			back(&r, want)
		}
	}()
	return recs
}

func parseIdent(name string) any {
	p, _, _ := fmtParse(name)
	return p
}

func (r *fnRec) lawJSON(id int) J {
	return J{"ty": "fn", "id": id, "d0": r.D0, "ok": r.Ok && r.Panic == "", "dI": r.DI,
		"t": latin1(r.Text), "ok2": r.Ok2, "t2": latin1(r.Text2)}
}

func fnLawGo(r *fnRec) bool  { return r.Panic == "" && r.Ok && r.DI == r.D0 }
func fnIdemGo(r *fnRec) bool { return r.Panic == "" && r.Ok && r.Ok2 && r.Text2 == r.Text }

const hzInspectBody = "fmt-inspect-lambda-body-without-braces"

// inspectBodyHazard: Function.Inspect prints a lambda whose body is one statement without braces
// (`x=>x+1`); that is only readable back when the statement is an expression binding tighter than `=>`.
func inspectBodyHazard(fn J) bool {
	if fn["lambda"] != true {
		return false
	}
	body := fn["body"].([]any)
	if len(body) == 0 {
		return true
	}
	if len(body) != 1 {
		return false
	}
	b := body[0].(J)
	switch b["k"] {
	case "ret", "brk", "cnt", "cmt":
		return true
	case "inf", "asg":
		if realPrec(b) <= precLambda {
			return true
		}
	}
	// the text of the statement begins with a lambda head or with `{` although the statement is neither
	if m := leftmost(b); !reflect.DeepEqual(m, b) && (isLambda(m) || m["k"] == "map") {
		return true
	}
	return false
}

// fnAttribute: signatures of a failing function-value record (same discipline as fmtAttribute).
func fnAttribute(r *fnRec, law func(*fnRec) bool) (sigs []string, note string) {
	unexplained := "fmt-function-value-" + r.Via + "-unexplained"
	if r.Panic != "" {
		return []string{"fmt-function-value-panic"}, r.Panic
	}
	bound := "f = "
	fnStmt := func(fn J) []any { return []any{fn} }
	found, _ := hazards(fnStmt(r.FN), "C", nil)
	if inspectBodyHazard(r.FN) {
		found[hzInspectBody] = true
	}
	test := func(set map[string]bool) (bool, bool) {
		t := neutraliseSet(fnStmt(deepCopy(any(r.FN)).(J)), "C", set)
		fn := t[0].(J)
		if set[hzInspectBody] && inspectBodyHazard(fn) {
			// braces are forced by a second statement; the original statement stays as it is
			body := fn["body"].([]any)
			if len(body) == 1 && !(body[0].(J)["k"] == "ret" && body[0].(J)["e"].(J)["k"] == "none") {
				fn["body"] = []any{body[0], deepCopy(any(neutralStmt))}
			} else {
				fn["body"] = append([]any{deepCopy(any(neutralStmt))}, body...)
			}
		}
		src, ok := safeRender([]any{fn})
		if !ok {
			return false, false
		}
		src = strings.TrimSuffix(strings.TrimSpace(src), ";")
		if fn["name"] == "" {
			src = bound + src
		}
		rs := fnRecords(src)
		for _, x := range rs {
			if x.Via == r.Via {
				return !law(&x), true
			}
		}
		return false, false
	}
	return attribute(found, append(append([]string{}, hazardOrder...), hzInspectBody), unexplained, test)
}
