package main

// C15, clause 2 on recorded programs (TV): token streams of the real lexer and the real line-mode parser's answers at
// the cuts are judged by spec/Continuation.tla (Mode = "file"); and the repl.Interactive style line-by-line feeding.

import (
	"bytes"
	"context"
	"encoding/json"
	"fmt"
	"math/rand"
	"sort"
	"strings"
	"time"

	"grol.io/grol/repl"
)

type c15Rec struct {
	ID     int
	Src    string
	Origin string
	Toks   []c15Tok
	O      []string          // obs code at the boundary after token k (index k-1), "-" = not observed
	OI     []string          // worst obs code of the cuts tried inside token k, "-" = none
	Inside map[int][]int     // token index -> interior offsets tried
	InObs  map[[2]int]string // (token index, offset) -> obs code
	Full   bool              // the whole token stream is recorded (else a prefix of it)
	W, IW  []string          // Continuation.tla: clause demanded at the boundary after token k / inside token k ("" = none)
}

const c15MaxRecTokens = 600

func c15Balanced(toks []c15Tok) bool {
	var stack []string
	for _, t := range toks {
		switch t.Class {
		case "lp", "lb", "lc":
			stack = append(stack, t.Class)
		case "rp", "rb", "rc":
			want := map[string]string{"rp": "lp", "rb": "lb", "rc": "lc"}[t.Class]
			if len(stack) == 0 || stack[len(stack)-1] != want {
				return false
			}
			stack = stack[:len(stack)-1]
		}
	}
	return len(stack) == 0
}

var c15Rank = map[string]int{"-": 0, "c": 1, "n": 2, "e": 3, "p": 4}

// c15Record runs the real lexer and the real line-mode parser over the cuts of one complete program.
// It returns nil when the text is not a valid complete program (nothing is demanded of it).
func c15Record(c *Ctx, id int, src, origin string, maxCuts int, rng *rand.Rand, skipped map[string]int) *c15Rec {
	toks, ok := c15Lex(src)
	if !ok || len(toks) == 0 {
		skipped["not-lexable-as-program"]++
		return nil
	}
	if !c15Balanced(toks) {
		skipped["unbalanced-brackets"]++
		return nil
	}
	if !c15CheckComplete(c, src, origin) {
		skipped["file-mode-parse-errors"]++
		return nil
	}
	r := &c15Rec{ID: id, Src: src, Origin: origin, Toks: toks, Full: true, Inside: map[int][]int{}, InObs: map[[2]int]string{}}
	if len(r.Toks) > c15MaxRecTokens {
		r.Toks = r.Toks[:c15MaxRecTokens]
		r.Full = false
	}
	n := len(r.Toks)
	r.O = make([]string, n)
	r.OI = make([]string, n)
	pick := map[int]bool{}
	if n <= maxCuts {
		for k := 0; k < n; k++ {
			pick[k] = true
		}
	} else {
		// boundaries at the end of a line first (what an interactive session meets), then a seeded sample
		var lineEnds, rest []int
		for k := 0; k < n; k++ {
			nextStart := len(src)
			if k+1 < len(toks) {
				nextStart = toks[k+1].Start
			}
			if strings.Contains(src[r.Toks[k].End:nextStart], "\n") {
				lineEnds = append(lineEnds, k)
			} else {
				rest = append(rest, k)
			}
		}
		rng.Shuffle(len(lineEnds), func(i, j int) { lineEnds[i], lineEnds[j] = lineEnds[j], lineEnds[i] })
		rng.Shuffle(len(rest), func(i, j int) { rest[i], rest[j] = rest[j], rest[i] })
		for _, k := range append(lineEnds, rest...) {
			if len(pick) >= maxCuts {
				break
			}
			pick[k] = true
		}
	}
	for k := 0; k < n; k++ {
		r.O[k], r.OI[k] = "-", "-"
		if !pick[k] {
			continue
		}
		if !(r.Full && k == n-1) { // the last boundary of the whole program is the complete program (clause 1)
			o := c15ParseMode(src[:r.Toks[k].End], true, false)
			r.O[k] = o.Code()
		}
		if cl := r.Toks[k].Class; cl == "str" || cl == "cmt" {
			offs := c15InteriorOffsets(src, r.Toks[k], n <= 40)
			r.Inside[k] = offs
			for _, j := range offs {
				o := c15ParseMode(src[:r.Toks[k].Start+j], true, false)
				code := o.Code()
				r.InObs[[2]int{k, j}] = code
				if c15Rank[code] > c15Rank[r.OI[k]] {
					r.OI[k] = code
				}
			}
		}
	}
	return r
}

type c15TVBad struct {
	K      int    `json:"k"`
	Inside bool   `json:"inside"`
	W      string `json:"w"`
	L      string `json:"l"`
	O      string `json:"o"`
}
type c15TVLine struct {
	ID   int        `json:"id"`
	EndW string     `json:"endw"`
	W    []string   `json:"w"`
	IW   []string   `json:"iw"`
	Bad  []c15TVBad `json:"bad"`
}

func c15FileCfg() string {
	return "CONSTANTS\n Sigma = {\"id\"}\n MaxLen = 0\n Mode = \"file\"\n Depth = 1\nINIT Init\nNEXT Next\nINVARIANTS TypeOK OpenDemands TerminalDemands ClosedDemands HistoryOK NeverBad\n"
}

// c15ValidateRecorded lets Continuation.tla judge the recorded cuts. A sabotaged copy of one record (a demanded cut
// answered "c" turned into "n") must be rejected, otherwise the binding is vacuous.
func c15ValidateRecorded(c *Ctx, recs []*c15Rec) {
	if len(recs) == 0 {
		c.Infra(fmt.Errorf("C15: no recorded program to validate"))
		return
	}
	var buf bytes.Buffer
	enc := json.NewEncoder(&buf)
	enc.SetEscapeHTML(false)
	byID := map[int]*c15Rec{}
	classes := func(r *c15Rec) []string {
		cs := make([]string, len(r.Toks))
		for i, t := range r.Toks {
			cs[i] = t.Class
		}
		return cs
	}
	for _, r := range recs {
		byID[r.ID] = r
		_ = enc.Encode(J{"id": r.ID, "c": classes(r), "o": r.O, "oi": r.OI})
	}
	// sabotage (independent of what the code did): the class stream of the first record with a boundary inside an open
	// bracket, that boundary answered "accepted as complete", everything else unobserved
	sabotaged := -1
	for _, r := range recs {
		depth := 0
		for k, t := range r.Toks {
			switch t.Class {
			case "lp", "lb", "lc":
				depth++
			case "rp", "rb", "rc":
				depth--
			}
			if depth > 0 && k > 0 {
				o2 := make([]string, len(r.Toks))
				for i := range o2 {
					o2[i] = "-"
				}
				oi2 := append([]string{}, o2...)
				o2[k] = "n"
				_ = enc.Encode(J{"id": -1, "c": classes(r), "o": o2, "oi": oi2})
				sabotaged = k + 1
				break
			}
		}
		if sabotaged > 0 {
			break
		}
	}
	if sabotaged < 0 {
		c.Infra(fmt.Errorf("C15: no recorded program with an open bracket (nothing to sabotage)"))
		return
	}
	res, err := c.TLC(TLCOpt{Spec: "Continuation", Cfg: c15FileCfg(), Workers: 4, Files: map[string][]byte{"cont_progs.ndjson": buf.Bytes()}})
	if err != nil {
		c.Infra(err)
		return
	}
	seen := 0
	sabotageRejected := false
	demanded := 0
	err = ReadLines(res.Emitted, func(line []byte) error {
		var v c15TVLine
		if err := json.Unmarshal(line, &v); err != nil {
			return fmt.Errorf("Continuation file verdict %q: %w", line, err)
		}
		if v.ID == -1 {
			sabotageRejected = len(v.Bad) == 1 && v.Bad[0].K == sabotaged && !v.Bad[0].Inside
			return nil
		}
		seen++
		r := byID[v.ID]
		if r == nil {
			return fmt.Errorf("verdict for unknown program %d", v.ID)
		}
		if len(v.W) != len(r.Toks) || len(v.IW) != len(r.Toks) {
			return fmt.Errorf("verdict for program %d has %d/%d demands for %d tokens", v.ID, len(v.W), len(v.IW), len(r.Toks))
		}
		r.W, r.IW = v.W, v.IW
		for k := range r.Toks { // count the executions now that the spec has said which cuts are demanded
			if r.O[k] != "-" {
				c.Case("cut:"+r.Src[:r.Toks[k].End], v.W[k] != "")
				if v.W[k] != "" {
					demanded++
				}
			}
			for _, j := range r.Inside[k] {
				c.Case("cut:"+r.Src[:r.Toks[k].Start+j], v.IW[k] != "")
				if v.IW[k] != "" {
					demanded++
				}
			}
		}
		if r.Full && v.EndW != "" {
			return fmt.Errorf("Continuation.tla demands a continuation (%s) after the complete program %q", v.EndW, c15Short(r.Src))
		}
		for _, b := range v.Bad {
			k := b.K - 1
			if k < 0 || k >= len(r.Toks) {
				return fmt.Errorf("verdict index %d out of range", b.K)
			}
			if !b.Inside {
				prefix := r.Src[:r.Toks[k].End]
				c15FailCut(c, c15Cut{Prefix: prefix, Why: b.W, Last: r.Toks[k].Class, Obs: c15ParseMode(prefix, true, false)}, r.Origin)
				continue
			}
			for _, j := range r.Inside[k] {
				if r.InObs[[2]int{k, j}] != "c" {
					prefix := r.Src[:r.Toks[k].Start+j]
					c15FailCut(c, c15Cut{Prefix: prefix, Why: b.W, Last: "inside", Obs: c15ParseMode(prefix, true, false)}, r.Origin)
				}
			}
		}
		if len(v.Bad) == 0 {
			c.AddTraces(1)
		}
		return nil
	})
	if err != nil {
		c.Infra(err)
		return
	}
	if seen != len(recs) {
		c.Infra(fmt.Errorf("Continuation (file) emitted %d verdicts for %d programs", seen, len(recs)))
		return
	}
	if !sabotageRejected {
		c.Infra(fmt.Errorf("vacuous binding: a recorded cut inside an open bracket answered 'accepted' was not rejected by Continuation.tla"))
		return
	}
	c.Cov("tv_sabotage_rejected", true)
	c.Cov("tv_programs", len(recs))
	c.Cov("tv_demanded_cuts", demanded)
}

// ---------------------------------------------------------------------- line by line, like repl.Interactive

// c15Interactive feeds text line by line the way repl.Interactive does (prev + line, "\n" appended while the REPL asks
// for more). demands maps the offset of a newline of text to the property's clause for the prefix that ends there
// ("" = nothing demanded). Returns false when text is not a valid program.
func c15Interactive(c *Ctx, text string, demands map[int]string, origin string) bool {
	fm := c15ParseMode(text, false, false)
	if fm.Panicked != "" || len(fm.Errs) > 0 {
		return false
	}
	s, buf := newState(RunOpt{})
	opt := repl.Options{All: false, FormatOnly: true, NoColor: true, MaxDuration: 5 * time.Second}
	lines := strings.Split(text, "\n")
	prev := ""
	clean := true // no error so far (after an error the REPL drops what it accumulated and the rest is not a prefix any more)
	off := -1     // offset of the newline that ends the current line
	for i, ln := range lines {
		off += len(ln) + 1
		l := prev + ln
		cont, panicked, errs, _ := repl.EvalOne(context.Background(), s, l, buf, opt)
		last := i == len(lines)-1
		if !last {
			if why := demands[off]; why != "" {
				c.Case("interactive:"+l, true)
				c.CovAdd("interactive_demanded_line_breaks", 1)
				if !cont || panicked || len(errs) > 0 {
					o := c15Parse{Cont: cont, Errs: errs}
					if panicked {
						o.Panicked = strings.Join(errs, "; ")
					}
					lastCls := "line-end"
					c15FailCut(c, c15Cut{Prefix: l, Why: why, Last: lastCls, Obs: o}, origin+"-interactive")
					return true
				}
				c.AddTraces(1)
			}
		}
		if panicked || len(errs) > 0 {
			clean = false
		}
		if cont {
			prev = l + "\n"
		} else {
			prev = ""
		}
		if last && clean {
			if cont {
				c.Fail("linemode-continuation-on-complete-program", fmt.Sprintf("the REPL still asks for more input after the last line of %q", c15Short(text)),
					map[string]any{"check": "tree", "text": latin1(text), "origin": origin + "-interactive"})
				return true
			}
			// what was accumulated for the last input is a complete program: same tree in both modes
			if l == text {
				c15CheckComplete(c, l, origin+"-interactive")
			}
		}
	}
	return true
}

func c15SortedKeys(m map[string]int) []string {
	ks := make([]string, 0, len(m))
	for k := range m {
		ks = append(ks, k)
	}
	sort.Strings(ks)
	return ks
}
