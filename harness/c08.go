package main

// C08 - the front end is total on arbitrary bytes (spec/FrontEnd.tla, spec/FrontEnd_Trace.tla).
//
//   MC   TLC checks the outcome-protocol invariants on the reference recogniser (Dev = {}) for every
//        token string of the small scope, and exhibits the design counterexamples of the code as it is.
//   GEN  TLC (Dev = AsIs) emits one prediction per (token string, mode, separator discipline); worker
//        processes render each to bytes (tight / spaced / newline separated), run the REAL front end and
//        compare the outcome class with the prediction (a difference is a model_disagreement note).
//   TV   every real-code execution (GEN cases, random token sequences, truncations and byte mutations
//        of the shipped programs, NUL / non-UTF-8 bytes, deep nesting) is recorded and the records are
//        judged by FrontEnd_Trace.tla, record by record.  The verdict is TLC's.

import (
	"bufio"
	"bytes"
	"encoding/base64"
	"encoding/json"
	"fmt"
	"os"
	"os/exec"
	"path/filepath"
	"sort"
	"strconv"
	"strings"
	"sync"
	"time"
)

func init() {
	props["C08"] = propDef{check: checkC08, replay: replayC08,
		rule: "case = one execution of the real front end (lexer.New/NewLineMode, parser.New, ParseProgram, Errors, ContinuationNeeded, PrettyPrint x3 under recover) on one byte string in one lexer mode, its outcome record judged by FrontEnd_Trace.tla; distinct by (mode, bytes); non-trivial when the input has at least 2 tokens (TLC-generated token strings) or at least 2 bytes (other sources)"}
}

type c08Space struct {
	name   string
	alpha  []string
	maxLen int
}

// c08Deviations maps the named deviations of FrontEnd.tla (AsIs) to the finding that records them.
var c08Deviations = map[string]string{
	"OkParamNilDeref":            "panic:parser.okParamList",
	"BlockCommentContInFileMode": "file-mode-continuation-unterminated-block-comment",
}

// c08Dev: the deviations the model of "the code as it is" carries = those whose finding is still listed
// as known (once a fix is committed and the ledger entry says "fixed", the model follows).
func c08Dev(c *Ctx) []string {
	var d []string
	for name, id := range c08Deviations {
		for _, f := range c.ledger {
			if f.ID == id && f.Status == "known" {
				d = append(d, name)
			}
		}
	}
	sort.Strings(d)
	return d
}

func c08Cfg(alpha []string, maxLen int, devs []string, emit, invariants bool) string {
	q := make([]string, len(alpha))
	for i, a := range alpha {
		q[i] = tlaStr(a)
	}
	dq := make([]string, len(devs))
	for i, a := range devs {
		dq[i] = tlaStr(a)
	}
	dev := "{" + strings.Join(dq, ", ") + "}"
	em := "FALSE"
	if emit {
		em = "TRUE"
	}
	s := fmt.Sprintf("CONSTANTS\n Alphabet = {%s}\n MaxLen = %d\n Modes = {\"file\", \"line\"}\n Seps = {\"tight\", \"spaced\"}\n Dev = %s\n EmitOn = %s\nINIT Init\nNEXT Next\n",
		strings.Join(q, ", "), maxLen, dev, em)
	if invariants {
		return s + "INVARIANTS TypeOK NoPanic AtLeastOne CleanTreeIsComplete CleanTreePrints FileModeNeverContinuation LineCommentEndsLine\n"
	}
	return s + "INVARIANTS TypeOK LineCommentEndsLine\n"
}

const c08TraceCfg = "CONSTANTS\n Alphabet = {\"ident\"}\n MaxLen = 0\n Modes = {\"file\", \"line\"}\n Seps = {\"tight\", \"spaced\"}\n Dev = {}\n EmitOn = FALSE\n Chunk = 2000\nINIT TraceInit\nNEXT TraceNext\n"

func c08Expected(nAlpha, maxLen int) int64 {
	var n, p int64 = 0, 1
	for i := 0; i <= maxLen; i++ {
		n += p
		p *= int64(nAlpha)
	}
	return n * 4 // 2 modes x 2 separator disciplines
}

// c08RunJobs runs worker processes, at most par at a time.
func c08RunJobs(c *Ctx, jobs []*c08Job, par int) error {
	exe, err := os.Executable()
	if err != nil {
		return err
	}
	sem := make(chan struct{}, par)
	var wg sync.WaitGroup
	var mu sync.Mutex
	var first error
	for i, j := range jobs {
		jf := j.Out + ".job"
		b, _ := json.Marshal(j)
		if err := os.WriteFile(jf, b, 0o644); err != nil {
			return err
		}
		wg.Add(1)
		sem <- struct{}{}
		go func(i int, jf string, j *c08Job) {
			defer wg.Done()
			defer func() { <-sem }()
			cmd := exec.Command(exe, "worker", "c08", jf)
			cmd.Dir = filepath.Dir(jf)
			var eb bytes.Buffer
			cmd.Stderr = &eb
			cmd.Stdout = &eb
			if err := cmd.Run(); err != nil {
				mu.Lock()
				if first == nil {
					first = fmt.Errorf("c08 worker %s shard %d died: %v: %s", j.Kind, j.Shard, err, tailStr(eb.String(), 600))
				}
				mu.Unlock()
			}
		}(i, jf, j)
	}
	wg.Wait()
	return first
}

func tailStr(s string, n int) string {
	if len(s) > n {
		return s[len(s)-n:]
	}
	return s
}

func c08CorpusFiles() ([]string, error) {
	repo := os.Getenv("VERIF_REPO")
	if repo == "" {
		repo = "/repo"
	}
	var files []string
	for _, pat := range []string{"examples/*.gr", "tests/*.gr"} {
		m, err := filepath.Glob(filepath.Join(repo, pat))
		if err != nil {
			return nil, err
		}
		files = append(files, m...)
	}
	sort.Strings(files)
	if len(files) < 10 {
		return nil, fmt.Errorf("only %d .gr files found under %s", len(files), repo)
	}
	return files, nil
}

var c08Pinned = []string{"(a,,)=>b", "(,,,)=>", "/* x", "a = 42 /* start of block\n\n", "a /* x\x00 */ b", "\n\n@", "(x) {1", `"abc`, ")=>x", "func(a){",
	"a:]=>x", "func(,){}", "return;", "//c\x00b", "if a {} else if", "x=>", "{a:1,}", "a.\n", "[1,", "..++"}

// every pair of infix operators in parent / child position on either side, the inner expression starting with every prefix
// operator (the printer decides about parentheses from the operators' tokens, which prefix and infix forms share)
func init() {
	ops := []string{"+", "-", "*", "/", "%", "<<", ">>", "&", "|", "^", "==", "!=", "<", "<=", ">", ">=", "&&", "||", ":", "=", "=>"}
	for _, o1 := range ops {
		for _, o2 := range ops {
			for _, pre := range []string{"", "-", "+", "!", "^", "~", "++", "--"} {
				c08Pinned = append(c08Pinned, "a "+o1+" ("+pre+"b "+o2+" c)", "("+pre+"a "+o1+" b) "+o2+" c", "a "+o1+" "+pre+"b "+o2+" c", pre+"(a "+o1+" b) "+o2+" c",
					"f(a "+o1+" ("+pre+"b "+o2+" c))", "[a "+o1+" ("+pre+"b "+o2+" (c "+o1+" d))]")
			}
		}
	}
}

func countLines(path string) (int, error) {
	f, err := os.Open(path)
	if err != nil {
		return 0, err
	}
	defer f.Close()
	n := 0
	buf := make([]byte, 1<<20)
	for {
		k, err := f.Read(buf)
		n += bytes.Count(buf[:k], []byte{'\n'})
		if err != nil {
			return n, nil
		}
	}
}

type c08Seg struct {
	prefix string
	count  int
}

func checkC08(c *Ctx) {
	c.Assume("the outcome record is taken through the public API only (parser.New, ParseProgram, Errors, ContinuationNeeded, ErrorLine, PrettyPrint); a panic is what recover() sees")
	c.Assume("FrontEnd.tla's recogniser is a token-level transcription of parser/parser.go; where it and the real parser disagree on the outcome class that is a model_disagreement note, not a violation")
	c.Assume("stack exhaustion by huge inputs is C09's subject: nesting is explored to a few thousand levels only")
	if err := c08AlphabetSelfCheck(); err != nil {
		c.Infra(err)
		return
	}
	files, err := c08CorpusFiles()
	if err != nil {
		c.Infra(err)
		return
	}
	scratch := c.Scratch()
	par := 8
	full := c08AllNames()
	focus := []c08Space{
		{"lambda-lists", []string{"ident", "(", ")", ",", "=>", ".."}, c.Pick(6, 7)},
		{"maps-arrays", []string{"ident", "{", "}", ":", ",", "[", "]"}, c.Pick(4, 6)},
		{"if-for", []string{"if", "else", "{", "}", "ident", "for"}, c.Pick(4, 6)},
		{"func-macro", []string{"func", "macro", "(", ")", "{", "}", "ident", ",", "return", ";"}, c.Pick(4, 5)},
		{"comments", []string{"lc", "bc", "ubc", "ident", "+", "(", ")"}, c.Pick(4, 5)},
		{"operators", []string{"ident", "+", "!", "++", ".", "[", "]", "=", ":"}, c.Pick(4, 5)},
	}
	spaces := []c08Space{{"full", full, 3}}
	if c.Thorough() {
		spaces = append(spaces, c08Space{"core", c08Core, 4})
	}
	spaces = append(spaces, focus...)
	devs := c08Dev(c)
	c.Cov("model_deviations_enabled", devs)
	t0 := time.Now()

	// ---------------------------------------------------------------- phase A: TLC (MC + GEN) and the non-GEN workers, in parallel
	type genRes struct {
		sp   c08Space
		file string
		n    int
	}
	var mu sync.Mutex
	var gens []genRes
	var wg sync.WaitGroup
	tlcSem := make(chan struct{}, c.Pick(4, 5))
	tlcWorkers := c.Pick(3, 4)
	runTLC := func(f func()) {
		wg.Add(1)
		go func() {
			defer wg.Done()
			tlcSem <- struct{}{}
			defer func() { <-tlcSem }()
			f()
		}()
	}
	for _, sp := range spaces {
		sp := sp
		// MC: the repaired design satisfies every invariant on the whole small scope
		runTLC(func() {
			r, err := c.TLC(TLCOpt{Spec: "FrontEnd", Cfg: c08Cfg(sp.alpha, sp.maxLen, nil, false, true), Workers: tlcWorkers, Timeout: 14 * time.Minute, AllowError: true})
			if err != nil {
				c.Infra(err)
				return
			}
			if r.InvViolated != "" || r.ErrText != "" {
				c.Infra(fmt.Errorf("FrontEnd.tla (Dev = {}) on %s<=%d: design-level invariant %q violated or TLC error:\n%s", sp.name, sp.maxLen, r.InvViolated, tailStr(r.ErrText, 1500)))
				return
			}
			c.Note("MC FrontEnd Dev={} %s (|A|=%d, len<=%d): %d states, all invariants hold", sp.name, len(sp.alpha), sp.maxLen, r.Distinct)
		})
		// GEN: predictions of the model of the code as it is
		runTLC(func() {
			r, err := c.TLC(TLCOpt{Spec: "FrontEnd", Cfg: c08Cfg(sp.alpha, sp.maxLen, devs, true, false), Workers: tlcWorkers, Timeout: 14 * time.Minute})
			if err != nil {
				c.Infra(err)
				return
			}
			n, err := countLines(r.Emitted)
			if err != nil {
				c.Infra(err)
				return
			}
			if int64(n) != c08Expected(len(sp.alpha), sp.maxLen) {
				c.Infra(fmt.Errorf("FrontEnd GEN %s: %d predictions emitted, expected %d", sp.name, n, c08Expected(len(sp.alpha), sp.maxLen)))
				return
			}
			mu.Lock()
			gens = append(gens, genRes{sp, r.Emitted, n})
			mu.Unlock()
		})
	}
	// design counterexamples of the code as it is (the deviations are real: the invariants must fail)
	type cex struct {
		name  string
		alpha []string
		n     int
		inv   string
	}
	for _, x := range []cex{{"OkParamNilDeref", []string{"ident", "(", ")", ",", "=>"}, 6, "NoPanic"}, {"BlockCommentContInFileMode", []string{"ident", "ubc"}, 1, "FileModeNeverContinuation"}} {
		x := x
		runTLC(func() {
			cfg := strings.Replace(c08Cfg(x.alpha, x.n, []string{x.name}, false, false), "INVARIANTS TypeOK LineCommentEndsLine", "INVARIANTS "+x.inv, 1)
			r, err := c.TLC(TLCOpt{Spec: "FrontEnd", Cfg: cfg, Workers: 1, AllowError: true})
			if err != nil {
				c.Infra(err)
				return
			}
			if r.InvViolated != x.inv {
				c.Infra(fmt.Errorf("FrontEnd.tla with Dev = AsIs does not violate %s (deviation %s): %q %s", x.inv, x.name, r.InvViolated, tailStr(r.ErrText, 800)))
				return
			}
			c.Cov("design_counterexample_"+x.name, x.inv+" violated by the model of the code as it is")
		})
	}

	var jobs []*c08Job
	mk := func(kind string, shards int, f func(j *c08Job)) {
		for s := 0; s < shards; s++ {
			j := &c08Job{Kind: kind, Shard: s, NShards: shards, Seed: c.Seed, Out: filepath.Join(scratch, fmt.Sprintf("%s-%d", kind, s))}
			f(j)
			jobs = append(jobs, j)
		}
	}
	mk("pinned", 1, func(j *c08Job) {
		for _, s := range c08Pinned {
			j.Inputs = append(j.Inputs, base64.StdEncoding.EncodeToString([]byte(s)))
		}
	})
	mk("random", c.Pick(2, 8), func(j *c08Job) { j.N = c.Pick(10000, 32000) })
	mk("trunc", c.Pick(2, 6), func(j *c08Job) { j.Files = files; j.Stride = c.Pick(5, 1) })
	mk("mutate", c.Pick(2, 8), func(j *c08Job) { j.Files = files; j.N = c.Pick(1, 4); j.Stride = c.Pick(4, 1) })
	mk("bytes", 2, func(j *c08Job) {})
	mk("layout", c.Pick(2, 6), func(j *c08Job) { j.N = c.Pick(0, 300) })
	mk("deep", c.Pick(2, 4), func(j *c08Job) {
		if c.Thorough() {
			j.Depths = []int{10, 100, 1000, 3000}
		} else {
			j.Depths = []int{10, 200, 1500}
		}
	})
	var jobErr error
	wg.Add(1)
	go func() {
		defer wg.Done()
		jobErr = c08RunJobs(c, jobs, par/2)
	}()
	wg.Wait()
	if jobErr != nil {
		c.Infra(jobErr)
	}
	if c08InfraSet(c) {
		return
	}

	c.Note("phase A (TLC MC+GEN, non-GEN workers): %.1fs", time.Since(t0).Seconds())
	t0 = time.Now()
	// ---------------------------------------------------------------- phase B: replay every prediction on the real front end
	sort.Slice(gens, func(i, j int) bool { return gens[i].sp.name < gens[j].sp.name })
	var genJobs []*c08Job
	var expectGen int
	for _, g := range gens {
		shards := 1 + g.n/150000
		if shards > par {
			shards = par
		}
		for s := 0; s < shards; s++ {
			genJobs = append(genJobs, &c08Job{Kind: "gen", GenFile: g.file, Shard: s, NShards: shards, Seed: c.Seed, Wide: g.sp.name == "full",
				Out: filepath.Join(scratch, fmt.Sprintf("gen-%s-%d", g.sp.name, s))})
		}
		expectGen += g.n
	}
	if err := c08RunJobs(c, genJobs, par); err != nil {
		c.Infra(err)
		return
	}
	jobs = append(jobs, genJobs...)

	c.Note("phase B (GEN replay on the real front end): %.1fs", time.Since(t0).Seconds())
	t0 = time.Now()
	// ---------------------------------------------------------------- collect worker summaries
	total := c08Sum{Disagree: map[string]int{}, Classes: map[string]int{}, Sigs: map[string]int{}}
	var segs []c08Seg
	fails := map[string]map[int]c08Fail{}
	perKind := map[string]int{}
	for _, j := range jobs {
		b, err := os.ReadFile(j.Out + ".sum")
		if err != nil {
			c.Infra(err)
			return
		}
		var s c08Sum
		if err := json.Unmarshal(b, &s); err != nil {
			c.Infra(err)
			return
		}
		total.Cases += s.Cases
		total.GenLines += s.GenLines
		total.Compared += s.Compared
		total.NotCompar += s.NotCompar
		total.Unknown += s.Unknown
		for k, v := range s.Disagree {
			total.Disagree[k] += v
		}
		for k, v := range s.Classes {
			total.Classes[k] += v
		}
		for k, v := range s.Sigs {
			total.Sigs[k] += v
		}
		if len(total.DisSamples) < 10 {
			total.DisSamples = append(total.DisSamples, s.DisSamples...)
		}
		for _, x := range s.Samples {
			x["source"] = j.Kind
			if j.Shard == 0 {
				c.Sample(x)
			}
		}
		perKind[j.Kind] += s.Cases
		if s.Cases > 0 {
			segs = append(segs, c08Seg{j.Out, s.Cases})
		}
		fm := map[int]c08Fail{}
		err = ReadLines(j.Out+".fail", func(line []byte) error {
			var f c08Fail
			if err := json.Unmarshal(line, &f); err != nil {
				return err
			}
			fm[f.Idx] = f
			return nil
		})
		if err != nil {
			c.Infra(err)
			return
		}
		fails[j.Out] = fm
	}
	if total.GenLines != expectGen {
		c.Infra(fmt.Errorf("GEN: %d predictions replayed, %d emitted", total.GenLines, expectGen))
		return
	}
	if total.Classes["clean"] == 0 || total.Classes["errors"] == 0 || total.Classes["continuation"] == 0 {
		c.Infra(fmt.Errorf("vacuous: outcome classes seen %v", total.Classes))
		return
	}

	// ---------------------------------------------------------------- phase C: TLC judges every record
	type batch struct {
		segs  []c08Seg
		data  []byte
		count int
	}
	var batches []*batch
	cur := &batch{}
	const batchMax = 400000
	for _, sg := range segs {
		b, err := os.ReadFile(sg.prefix + ".rec")
		if err != nil {
			c.Infra(err)
			return
		}
		if n := bytes.Count(b, []byte{'\n'}); n != sg.count {
			c.Infra(fmt.Errorf("%s.rec has %d records, summary says %d", sg.prefix, n, sg.count))
			return
		}
		if cur.count > 0 && cur.count+sg.count > batchMax {
			batches = append(batches, cur)
			cur = &batch{}
		}
		cur.segs = append(cur.segs, sg)
		cur.data = append(cur.data, b...)
		cur.count += sg.count
	}
	if cur.count > 0 {
		batches = append(batches, cur)
	}
	type rej struct {
		prefix string
		idx    int
		why    string
	}
	var rejected []rej
	var wg2 sync.WaitGroup
	sem2 := make(chan struct{}, par)
	for _, b := range batches {
		b := b
		wg2.Add(1)
		sem2 <- struct{}{}
		go func() {
			defer wg2.Done()
			defer func() { <-sem2 }()
			r, err := c.TLC(TLCOpt{Spec: "FrontEnd_Trace", Cfg: c08TraceCfg, Workers: 1, Files: map[string][]byte{"frontend_trace.ndjson": b.data}, Heap: "3g", Timeout: 14 * time.Minute})
			if err != nil {
				c.Infra(err)
				return
			}
			done := -1
			var local []rej
			err = ReadLines(r.Emitted, func(line []byte) error {
				var v struct {
					Line int      `json:"line"`
					Why  []string `json:"why"`
					Done *int     `json:"done"`
				}
				if err := json.Unmarshal(line, &v); err != nil {
					return err
				}
				if v.Done != nil {
					done = *v.Done
					return nil
				}
				k := v.Line - 1
				for _, sg := range b.segs {
					if k < sg.count {
						sort.Strings(v.Why)
						local = append(local, rej{sg.prefix, k, strings.Join(v.Why, "+")})
						return nil
					}
					k -= sg.count
				}
				return fmt.Errorf("rejected line %d outside the batch", v.Line)
			})
			if err != nil && !os.IsNotExist(err) {
				c.Infra(err)
				return
			}
			if done != b.count {
				c.Infra(fmt.Errorf("FrontEnd_Trace consumed %d of %d records", done, b.count))
				return
			}
			mu.Lock()
			rejected = append(rejected, local...)
			mu.Unlock()
			c.AddTraces(int64(b.count))
		}()
	}
	wg2.Wait()
	if c08InfraSet(c) {
		return
	}
	c.Note("phase C (FrontEnd_Trace over %d records in %d batches): %.1fs", total.Cases, len(batches), time.Since(t0).Seconds())
	sort.Slice(rejected, func(i, j int) bool {
		if rejected[i].prefix != rejected[j].prefix {
			return rejected[i].prefix < rejected[j].prefix
		}
		return rejected[i].idx < rejected[j].idx
	})

	// ---------------------------------------------------------------- verdicts: a record TLC rejects is a failing case
	isRejected := map[string]bool{}
	for _, r := range rejected {
		isRejected[r.prefix+"#"+strconv.Itoa(r.idx)] = true
		if f, ok := fails[r.prefix][r.idx]; ok {
			c.Fail(f.Sig, f.What+" ["+r.why+"]", map[string]any{"input_b64": f.Input, "input": quoteB64(f.Input), "line_mode": f.Line, "record": f.Rec, "rejected_by": r.why})
			continue
		}
		in, line, err := c08InputAt(r.prefix+".in", r.idx)
		if err != nil {
			c.Infra(err)
			return
		}
		c.Fail("trace-rejected:"+r.why, "FrontEnd_Trace rejected the outcome record: "+r.why,
			map[string]any{"input_b64": in, "input": quoteB64(in), "line_mode": line, "rejected_by": r.why})
	}
	for prefix, fm := range fails {
		for idx, f := range fm {
			if !isRejected[prefix+"#"+strconv.Itoa(idx)] {
				c.Infra(fmt.Errorf("vacuous binding: FrontEnd_Trace accepted record %s of a case the property relation rejects (%s)", f.Rec, f.Sig))
				return
			}
		}
	}

	// ---------------------------------------------------------------- counts
	for _, sg := range segs {
		err := c08EachInput(sg.prefix+".in", func(key string, nontrivial bool) { c.Case(key, nontrivial) })
		if err != nil {
			c.Infra(err)
			return
		}
	}
	c.Cov("exhaustive", true)
	c.Cov("exhaustive_scope", fmt.Sprintf("every token string of the listed spaces x {file,line} x {tight,spaced(+newline)}: %d predictions, all replayed", expectGen))
	var spNames []string
	for _, g := range gens {
		spNames = append(spNames, fmt.Sprintf("%s:|A|=%d,len<=%d,%d predictions", g.sp.name, len(g.sp.alpha), g.sp.maxLen, g.n))
	}
	c.Cov("gen_spaces", spNames)
	c.Cov("cases_per_source", perKind)
	c.Cov("outcome_classes", total.Classes)
	c.Cov("failing_case_signatures", total.Sigs)
	c.Cov("predictions_compared", total.Compared)
	c.Cov("renderings_not_comparable_tokens_merged", total.NotCompar)
	c.Cov("model_disagreements", total.Disagree)
	nd := 0
	for _, v := range total.Disagree {
		nd += v
	}
	c.Cov("model_disagreement_total", nd)
	if nd > 0 {
		c.Cov("model_disagreement_samples", total.DisSamples)
		c.Note("model_disagreement: %d renderings whose real outcome class differs from FrontEnd.tla's prediction (not a violation): %v", nd, total.Disagree)
	}
	if total.Unknown > 0 {
		c.Note("the tree walker met %d nodes of a type it does not know (treated as leaves): extend c08Walker.node", total.Unknown)
	}
	c.Cov("trace_batches", len(batches))

	// ---------------------------------------------------------------- binding self-test: a corrupted record must be rejected, exactly it
	if len(batches) > 0 {
		lines := bytes.SplitN(batches[0].data, []byte{'\n'}, 3001)
		if len(lines) > 3000 {
			lines = lines[:3000]
		}
		// a batch of accepted records, one of them (a clean one) corrupted: "one missing child"
		var sb bytes.Buffer
		pos, n := 0, 0
		suffix := []byte(",0,0,0,1,0,1,1,1,1]")
		for _, ln := range lines {
			if len(ln) == 0 || !c08CompactOK(ln) {
				continue
			}
			n++
			if pos == 0 && n > 10 && bytes.HasSuffix(ln, suffix) {
				pos = n
				ln = append(append([]byte{}, ln[:len(ln)-len(suffix)]...), []byte(",0,0,0,1,1,1,1,1,1]")...)
			}
			sb.Write(ln)
			sb.WriteByte('\n')
		}
		if pos == 0 {
			c.Infra(fmt.Errorf("self-test: no clean record among the first %d", len(lines)))
			return
		}
		r, err := c.TLC(TLCOpt{Spec: "FrontEnd_Trace", Cfg: c08TraceCfg, Workers: 1, Files: map[string][]byte{"frontend_trace.ndjson": sb.Bytes()}, Heap: "2g"})
		if err != nil {
			c.Infra(err)
			return
		}
		var got []int
		var why string
		_ = ReadLines(r.Emitted, func(line []byte) error {
			var v struct {
				Line int      `json:"line"`
				Why  []string `json:"why"`
				Done *int     `json:"done"`
			}
			if json.Unmarshal(line, &v) == nil && v.Done == nil {
				got = append(got, v.Line)
				why = strings.Join(v.Why, "+")
			}
			return nil
		})
		if len(got) != 1 || got[0] != pos || why != "CleanTreeIsComplete" {
			c.Infra(fmt.Errorf("vacuous binding: corrupted record at line %d, FrontEnd_Trace rejected %v (%s)", pos, got, why))
			return
		}
		c.Cov("sabotage_rejected", true)
	}
}

// c08CompactOK: the record satisfies the relation (used only to build the self-test batch).
func c08CompactOK(ln []byte) bool {
	var v []int
	if json.Unmarshal(ln, &v) != nil || len(v) != 10 {
		return false
	}
	clean := v[1] == 0 && v[2] == 0 && v[3] == 0 && v[4] == 1
	switch {
	case v[1] == 1 || v[9] != 1:
		return false
	case v[0] == 0 && v[2] == 0 && v[3] == 1:
		return false
	case clean && (v[5] != 0 || v[6] != 1 || v[7] != 1 || v[8] != 1):
		return false
	case v[2] == 0 && v[3] == 0 && v[4] == 0:
		return false
	}
	return true
}

func c08InfraSet(c *Ctx) bool {
	c.mu.Lock()
	defer c.mu.Unlock()
	return c.infra != nil
}

func quoteB64(s string) string {
	b, _ := base64.StdEncoding.DecodeString(s)
	if len(b) > 300 {
		return strconv.Quote(string(b[:300])) + fmt.Sprintf("...(%d bytes)", len(b))
	}
	return strconv.Quote(string(b))
}

func c08EachInput(path string, f func(key string, nontrivial bool)) error {
	fh, err := os.Open(path)
	if err != nil {
		return err
	}
	defer fh.Close()
	sc := bufio.NewScanner(fh)
	sc.Buffer(make([]byte, 1<<20), 1<<26)
	for sc.Scan() {
		ln := sc.Text()
		if len(ln) < 4 {
			return fmt.Errorf("bad input line in %s", path)
		}
		f(ln[:1]+ln[4:], ln[2] == '1')
	}
	return sc.Err()
}

func c08InputAt(path string, idx int) (string, bool, error) {
	fh, err := os.Open(path)
	if err != nil {
		return "", false, err
	}
	defer fh.Close()
	sc := bufio.NewScanner(fh)
	sc.Buffer(make([]byte, 1<<20), 1<<26)
	for i := 0; sc.Scan(); i++ {
		if i == idx {
			ln := sc.Text()
			return ln[4:], ln[0] == '1', nil
		}
	}
	return "", false, fmt.Errorf("%s has no line %d", path, idx)
}

func replayC08(rp map[string]any) (bool, string) {
	s, _ := rp["input_b64"].(string)
	in, err := base64.StdEncoding.DecodeString(s)
	if err != nil {
		return false, "bad replay file: " + err.Error()
	}
	line, _ := rp["line_mode"].(bool)
	r := c08Run(string(in), line)
	sig, what := c08Verdict(string(in), &r)
	if sig == "" {
		return true, ""
	}
	return false, fmt.Sprintf("%s: %s (record %s)", sig, what, r.compact())
}
