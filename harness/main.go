package main

import (
	"encoding/json"
	"fmt"
	"io"
	"os"
	"runtime/debug"
	"strings"

	"fortio.org/log"
	"grol.io/grol/extensions"
)

type checkFn func(c *Ctx)

type propDef struct {
	check  checkFn
	replay func(rp map[string]any) (ok bool, msg string)
	rule   string
}

var props = map[string]propDef{}

func usage() {
	fmt.Fprintln(os.Stderr, "usage: vh check <Cxx> <quick|thorough> | vh replay <file> | vh worker <kind> ...")
	os.Exit(2)
}

func main() {
	log.SetLogLevelQuiet(log.Critical)
	log.SetOutput(io.Discard) // recovered panics are logged by grol at critical level; the harness observes them through the API // grol logs errors/panics it handles; the harness observes them through the API
	if len(os.Args) > 1 && os.Args[1] != "worker" {
		// workers that need a non-default extensions.Config initialise extensions themselves
		if err := extensions.Init(nil); err != nil {
			fmt.Fprintln(os.Stderr, "extensions.Init:", err)
			os.Exit(2)
		}
	}
	if os.Getenv("GOMEMLIMIT") == "" {
		debug.SetMemoryLimit(3 << 30) // grol's allocation guard is relative to the Go memory limit
	}
	registerVerifExtensions()
	registerProps()
	if len(os.Args) < 2 {
		usage()
	}
	switch os.Args[1] {
	case "check":
		if len(os.Args) < 4 {
			usage()
		}
		p, ok := props[os.Args[2]]
		if !ok {
			fmt.Fprintf(os.Stderr, "unknown property %s\n", os.Args[2])
			os.Exit(2)
		}
		tier := os.Args[3]
		if tier != "quick" && tier != "thorough" {
			usage()
		}
		if os.Getenv("VERIF_INNER") == "" && os.Getenv("VERIF_NOGUARD") == "" {
			os.Exit(guardedCheck(os.Args[2], tier, p.rule))
		}
		c := NewCtx(os.Args[2], tier)
		func() {
			defer func() {
				if r := recover(); r != nil {
					c.Infra(fmt.Errorf("harness panic: %v\n%s", r, harnessFrames(string(debug.Stack()))))
				}
			}()
			if c.infra == nil {
				p.check(c)
			}
		}()
		os.Exit(c.Finish(p.rule))
	case "replay":
		if len(os.Args) < 3 {
			usage()
		}
		b, err := os.ReadFile(os.Args[2])
		if err != nil {
			fmt.Fprintln(os.Stderr, err)
			os.Exit(2)
		}
		var rp map[string]any
		if err := json.Unmarshal(b, &rp); err != nil {
			fmt.Fprintln(os.Stderr, err)
			os.Exit(2)
		}
		id, _ := rp["property"].(string)
		p, ok := props[id]
		if !ok || p.replay == nil {
			fmt.Fprintf(os.Stderr, "no replay for property %q\n", id)
			os.Exit(2)
		}
		var ok2 bool
		var msg string
		if rp["check"] == "process-died" {
			ok2, msg = replayProcessDied(rp)
		} else {
			ok2, msg = p.replay(rp)
		}
		if ok2 {
			fmt.Printf("replay %s: property holds on this case now\n", os.Args[2])
			os.Exit(0)
		}
		fmt.Printf("VIOLATION property=%s replay=%s\n  %s\n", id, os.Args[2], msg)
		os.Exit(1)
	case "worker":
		workerMain(os.Args[2:])
	case "sem":
		semDebug(os.Args[2:])
	case "gen":
		genDebug(os.Args[2:])
	case "ss":
		ssDebug(os.Args[2:])
	default:
		usage()
	}
}

// harnessFrames keeps the frames of the harness and of grol from a stack trace (where a harness panic came from).
func harnessFrames(stack string) string {
	var keep []string
	lines := strings.Split(stack, "\n")
	for i := 0; i+1 < len(lines) && len(keep) < 12; i++ {
		if strings.HasPrefix(lines[i], "main.") || strings.HasPrefix(lines[i], "grol.io/grol/") {
			keep = append(keep, lines[i]+" "+strings.TrimSpace(lines[i+1]))
		}
	}
	return strings.Join(keep, "\n")
}
