package main

// C15, clause 3: every split of a script into consecutive chunks, fed chunk by chunk to ONE persistent session,
// shows what the whole script shows on a fresh session (spec/Chunking.tla generates the splits; spec/Equiv_Trace.tla
// decides the equivalence of the two recorded observation sequences).

import (
	"bytes"
	"context"
	"encoding/json"
	"fmt"
	"math/rand"
	"strings"
	"time"

	"grol.io/grol/eval"
	"grol.io/grol/repl"
)

type c15SessObs struct {
	Out      string // what the program printed (State.Out), all inputs concatenated
	Err      bool   // some input reported an error, panicked or asked for a continuation
	ErrMsg   string
	Globals  string // State.SaveGlobals bytes at the end
	SaveErr  string
	Panicked bool
}

func c15JoinStmts(stmts []string) string {
	var sb strings.Builder
	for _, s := range stmts {
		sb.WriteString(s)
		sb.WriteString(";\n")
	}
	return sb.String()
}

// c15RunInputs feeds the inputs one after the other through repl.EvalOne to one fresh persistent state. The REPL's
// echo of each input's value goes to a separate writer: it is per input by construction and not part of the property.
func c15RunInputs(inputs []string, lineMode bool) c15SessObs {
	eval.VerifCacheOff = false
	s := eval.NewState()
	prog := &bytes.Buffer{}
	s.Out = prog
	s.LogOut = prog
	s.NoLog = true
	echo := &bytes.Buffer{}
	var o c15SessObs
	opt := repl.Options{All: !lineMode, ShowEval: true, NoColor: true, MaxDuration: 5 * time.Second}
	for _, in := range inputs {
		cont, panicked, errs, _ := repl.EvalOne(context.Background(), s, in, echo, opt)
		if (cont || panicked || len(errs) > 0) && !o.Err {
			o.Err = true
			switch {
			case panicked:
				o.Panicked = true
				o.ErrMsg = "panic: " + errHead(strings.Join(errs, "; "))
			case len(errs) > 0:
				o.ErrMsg = errHead(errs[0])
			default:
				o.ErrMsg = "continuation requested for a complete chunk"
			}
		}
	}
	o.Out = prog.String()
	var gb bytes.Buffer
	if _, err := s.SaveGlobals(&gb); err != nil {
		o.SaveErr = err.Error()
	}
	o.Globals = gb.String()
	return o
}

func (o c15SessObs) Equiv() []inObs {
	return []inObs{{Out: o.Out, Err: o.Err, Val: o.ErrMsg}, {Out: o.Globals, Err: o.SaveErr != "", Val: latin1(o.SaveErr)}}
}

func c15Chunks(stmts []string, cuts []int) []string {
	var res []string
	lo := 0
	for _, k := range cuts {
		res = append(res, c15JoinStmts(stmts[lo:k]))
		lo = k
	}
	return res
}

// ---------------------------------------------------------------------- scripts

var c15KindSrc = map[string]string{
	"set": "g = 1", "inc": "g = g + 1", "print": "println(g)",
	"def1": "f = func() {g + 10}", "def2": "f = func() {g + 20}", "call": "println(f())",
	"mdef1": "m = macro(x) {quote(unquote(x) + 100)}", "mdef2": "m = macro(x) {quote(unquote(x) + 200)}", "muse": "println(m(g))",
	"ret": "return", "err": `error("boom")`,
}

var c15Macros = []struct{ name, def string }{
	{"mAdd", "mAdd = macro(x, y) {quote(unquote(x) + unquote(y) * 2)}"},
	{"mPick", "mPick = macro(c, t) {quote(if unquote(c) {unquote(t)} else {0 - 1})}"},
	{"mShow", `mShow = macro(e) {quote(println("m:", unquote(e)))}`},
	{"mTwice", "mTwice = macro(e) {quote([unquote(e), unquote(e)])}"},
}

// c15GenScript: a random script of at most maxN top-level statements (functions, loops, prints, assignments to
// globals, macros defined before they are used, never redefined), no top-level return.
func c15GenScript(r *rand.Rand, maxN int) (stmts []string, used map[string]bool) {
	g := NewGen(r)
	g.PWrong = 2
	n := 2 + r.Intn(maxN-1)
	defined := []int{}
	intArg := func() string { return renderNode(g.expr(tInt, 2), precLowest, styleNormal) }
	for len(stmts) < n {
		switch p := r.Intn(10); {
		case p < 2 && len(defined) < len(c15Macros):
			i := len(defined)
			defined = append(defined, i)
			stmts = append(stmts, c15Macros[i].def)
			g.Used["macro-def"] = true
		case p < 5 && len(defined) > 0:
			i := defined[r.Intn(len(defined))]
			g.Used["macro-use"] = true
			switch c15Macros[i].name {
			case "mAdd":
				stmts = append(stmts, fmt.Sprintf("println(mAdd(%s, %s))", intArg(), intArg()))
			case "mPick":
				stmts = append(stmts, fmt.Sprintf("println(mPick(%s > 0, %s))", intArg(), intArg()))
			case "mShow":
				stmts = append(stmts, fmt.Sprintf("mShow(%s)", intArg()))
			default:
				if r.Intn(2) == 0 {
					name := g.fresh("fm")
					stmts = append(stmts, fmt.Sprintf("%s = func(q) {mTwice(q + 1)}", name), fmt.Sprintf("println(%s(%s))", name, intArg()))
					g.Used["macro-in-function"] = true
				} else {
					stmts = append(stmts, fmt.Sprintf("println(mTwice(%s))", intArg()))
				}
			}
		default:
			for _, st := range g.stmt(nil) {
				stmts = append(stmts, renderNode(st.(J), 0, styleNormal))
			}
		}
	}
	if len(stmts) > maxN {
		stmts = stmts[:maxN]
	}
	return stmts, g.Used
}

// ---------------------------------------------------------------------- the check

type c15SplitLine struct {
	Script []string `json:"script"`
	Cuts   []int    `json:"cuts"`
	Out    []int    `json:"out"`
	G      int      `json:"g"`
	F      int      `json:"f"`
	Err    bool     `json:"err"`
}

func c15ChunkCfg(kinds []string, maxN, splitN int, relax string, emit bool, invs string) string {
	q := make([]string, len(kinds))
	for i, k := range kinds {
		q[i] = `"` + k + `"`
	}
	rl := "{}"
	if relax != "" {
		rl = `{"` + relax + `"}`
	}
	e := "FALSE"
	if emit {
		e = "TRUE"
	}
	return fmt.Sprintf("CONSTANTS\n Kinds = {%s}\n MaxN = %d\n SplitN = %d\n Relax = %s\n EmitOn = %s\nINIT Init\nNEXT Next\nINVARIANTS %s\n",
		strings.Join(q, ", "), maxN, splitN, rl, e, invs)
}

type c15SessCase struct {
	Stmts    []string
	Cuts     []int
	LineMode bool
	Origin   string
	A, B     c15SessObs
}

func c15SessionSignature(cs c15SessCase) string {
	switch {
	case cs.A.Panicked:
		return "session-chunked-panic"
	case cs.A.Err && strings.HasPrefix(cs.A.ErrMsg, "continuation"):
		return "session-complete-chunk-requests-continuation"
	case cs.A.Err:
		return "session-chunked-error"
	case cs.A.Out != cs.B.Out:
		return "session-chunked-output-differs"
	case cs.A.Globals != cs.B.Globals:
		return "session-chunked-globals-differ"
	}
	return "session-chunked-differs"
}

func c15SessionWhat(cs c15SessCase) string {
	return fmt.Sprintf("script %q split at %v (chunks in %s mode): chunked out=%q err=%v %q globals=%q | whole out=%q globals=%q",
		c15Short(c15JoinStmts(cs.Stmts)), cs.Cuts, map[bool]string{true: "line", false: "file"}[cs.LineMode],
		c15Short(cs.A.Out), cs.A.Err, cs.A.ErrMsg, c15Short(cs.A.Globals), c15Short(cs.B.Out), c15Short(cs.B.Globals))
}

// c15Sessions runs clause 3. gen is the already finished Chunking GEN run.
func c15Sessions(c *Ctx, emitted string) {
	splits := map[int][][]int{} // n -> all splits of n statements (from TLC)
	seenSplit := map[string]bool{}
	var cases []c15SessCase
	var ecs []equivCase
	wholeCache := map[string]c15SessObs{}
	whole := func(stmts []string) c15SessObs {
		key := strings.Join(stmts, "\x00")
		if o, ok := wholeCache[key]; ok {
			return o
		}
		o := c15RunInputs([]string{c15JoinStmts(stmts)}, false)
		wholeCache[key] = o
		return o
	}
	addCase := func(stmts []string, cuts []int, lineMode bool, origin string, nontrivial bool) {
		b := whole(stmts)
		a := c15RunInputs(c15Chunks(stmts, cuts), lineMode)
		cs := c15SessCase{Stmts: stmts, Cuts: cuts, LineMode: lineMode, Origin: origin, A: a, B: b}
		ecs = append(ecs, equivCase{ID: len(cases), A: a.Equiv(), B: b.Equiv()})
		cases = append(cases, cs)
		c.Case(fmt.Sprint("session:", stmts, cuts, lineMode), nontrivial && len(cuts) > 1)
	}

	// 1. the model's scripts with every split, and the model's own prediction as a diagnostic
	modelDisagree, modelCases, modelSkipped := 0, 0, 0
	stride := c.Pick(3, 1)
	nLine := 0
	err := c15SortedLines(emitted, func(line []byte) error {
		var g c15SplitLine
		if err := json.Unmarshal(line, &g); err != nil {
			return fmt.Errorf("Chunking line %q: %w", line, err)
		}
		n := len(g.Script)
		key := fmt.Sprint(n, g.Cuts)
		if !seenSplit[key] {
			seenSplit[key] = true
			splits[n] = append(splits[n], g.Cuts)
		}
		nLine++
		if (nLine+int(c.Seed))%stride != 0 && n <= 4 {
			return nil
		}
		stmts := make([]string, n)
		for i, k := range g.Script {
			src, ok := c15KindSrc[k]
			if !ok {
				return fmt.Errorf("unknown abstract statement %q", k)
			}
			stmts[i] = src
		}
		w := whole(stmts)
		if w.Err || w.Panicked {
			modelSkipped++ // the model calls it error free, the implementation does not: outside the property's precondition
			return nil
		}
		var want strings.Builder
		for _, v := range g.Out {
			fmt.Fprintf(&want, "%d\n", v)
		}
		if want.String() != w.Out {
			modelDisagree++
		}
		modelCases++
		addCase(stmts, g.Cuts, nLine%2 == 0, "model", true)
		if modelCases%1500 == 1 {
			c.Sample(map[string]any{"abstract_script": g.Script, "source": stmts, "chunk_boundaries": g.Cuts, "predicted_output": g.Out})
		}
		return nil
	})
	if err != nil {
		c.Infra(err)
		return
	}
	for n := 1; n <= 8; n++ {
		if len(splits[n]) != 1<<(n-1) {
			c.Infra(fmt.Errorf("Chunking.tla emitted %d splits of %d statements, want %d", len(splits[n]), n, 1<<(n-1)))
			return
		}
	}
	c.Cov("model_scripts_replayed", modelCases)
	c.Cov("model_disagreement", modelDisagree)
	if modelSkipped > 0 {
		c.Note("%d model scripts are not error free on the implementation and were skipped", modelSkipped)
	}

	// 2. random scripts x splits from the model
	nScripts := c.Pick(40, 600)
	perScript := c.Pick(10, 1<<20)
	skippedErr, used, tries := 0, 0, 0
	feat := map[string]int{}
	for used < nScripts && tries < nScripts*6 {
		r := rand.New(rand.NewSource(c.Seed*7000003 + int64(tries)))
		tries++
		stmts, fu := c15GenScript(r, 8)
		w := whole(stmts)
		if w.Err || w.Panicked || w.SaveErr != "" {
			skippedErr++
			continue
		}
		used++
		for f := range fu {
			feat[f]++
		}
		n := len(stmts)
		all := splits[n]
		idx := r.Perm(len(all))
		if len(idx) > perScript {
			idx = idx[:perScript]
		}
		hasFinest := false
		for _, i := range idx {
			if len(all[i]) == n {
				hasFinest = true
			}
		}
		for j, i := range idx {
			addCase(stmts, all[i], (used+j)%2 == 0, "random", fu["func"] || fu["macro-use"])
		}
		if !hasFinest { // one statement at a time is what the property names
			for _, sp := range all {
				if len(sp) == n {
					addCase(stmts, sp, true, "random", true)
				}
			}
		}
		if used%100 == 1 {
			c.Sample(map[string]any{"script": stmts, "splits_run": len(idx)})
		}
	}
	c.Cov("random_scripts", used)
	c.Cov("random_scripts_skipped_not_error_free", skippedErr)
	c.Cov("random_script_features", feat)
	if used < nScripts/2 {
		c.Infra(fmt.Errorf("C15: only %d of %d random scripts are error free", used, nScripts))
		return
	}

	// 3. pinned scripts (all splits): macro defined and used in one chunk vs in later chunks, memoized functions whose
	// callee or captured global changes between chunks, redefinition, output inside functions, loops at top level
	pinned := [][]string{
		{"m = macro(x) {quote(unquote(x) * 2)}", "println(m(3))", "a = m(4) + 1", "println(a)"},
		{"h = func(x) {x + 1}", "f = func(x) {h(x)}", "println(f(1))", "h = func(x) {x + 2}", "println(f(1))", "println(f(1))"},
		{"g = 1", `f = func(x) {println("in f", x); x + g}`, "println(f(1))", "g = 2", "println(f(1))", "println(f(1), f(1))"},
		{"LIMIT = 3", "f = func(x) {x + LIMIT}", "println(f(1))", "del(LIMIT)", "LIMIT = 4", "println(f(1))"},
		{"a = [1, 2, 3]", "b = a", "b[0] = 9", "println(a, b)", `m = {"k": a}`, "m.k = 2", "println(m)"},
		{"i = 0", "for i < 3 {i++; println(i)}", "for j = 2 {println(j + i)}", "func fact(n) {if n <= 1 {return 1}; n * fact(n - 1)}", "println(fact(5))"},
		{"c = 0", "next = func() {c = c + 1; c}", "println(next())", "println(next())", "x = next() + next()", "println(x, c)"},
		{"mk = func(v) {func(y) {y + v}}", "a1 = mk(1)", "a2 = mk(2)", "println(a1(5), a2(5))", "println(a1(5), a2(5))"},
		{"m2 = macro(a, b) {quote(unquote(a) - unquote(b))}", "f = func(x) {m2(x, 1)}", "println(f(5))", "println(m2(f(2), f(3)))"},
		{`s = "x"`, `s = s + "y"`, `println(s)`, "t = [s, s]", "println(t)", `// a comment`, "println(len(t))"},
	}
	for _, stmts := range pinned {
		w := whole(stmts)
		if w.Err || w.Panicked {
			c.Infra(fmt.Errorf("C15: pinned script %q is not error free: %s", stmts, w.ErrMsg))
			return
		}
		for i, sp := range splits[len(stmts)] {
			addCase(stmts, sp, i%2 == 0, "pinned", true)
		}
	}

	// boundary of the statement (no verdict): a macro REDEFINED after a use. Every use is preceded by a definition, but
	// the whole script hoists the second definition in front of the first use. Chunking.tla reads "macros defined before
	// use" as "the definition in force at a use precedes it" (NoRedefAfterUse) and shows the counterexample when that is
	// relaxed; what the implementation does is recorded here.
	{
		stmts := []string{"m = macro(x) {quote(unquote(x) + 1)}", "println(m(1))", "m = macro(x) {quote(unquote(x) + 2)}", "println(m(1))"}
		w := whole(stmts)
		a := c15RunInputs(c15Chunks(stmts, []int{1, 2, 3, 4}), true)
		c.Cov("boundary_macro_redefined_after_use", fmt.Sprintf("whole prints %q, one statement at a time prints %q (outside the precondition as modelled; not judged)", w.Out, a.Out))
	}

	// 4. verdicts by Equiv_Trace.tla; a perturbed observation must be rejected (binding self-test)
	sab := c15SessObs{Out: cases[0].B.Out + "x", Globals: cases[0].B.Globals}
	ecs = append(ecs, equivCase{ID: len(cases), A: sab.Equiv(), B: cases[0].B.Equiv()})
	sab2 := c15SessObs{Out: cases[0].B.Out, Globals: cases[0].B.Globals + "zz=1\n"}
	ecs = append(ecs, equivCase{ID: len(cases) + 1, A: sab2.Equiv(), B: cases[0].B.Equiv()})
	vs, err := equivValidate(c, ecs)
	if err != nil {
		c.Infra(err)
		return
	}
	if vs[len(cases)].OK || vs[len(cases)+1].OK {
		c.Infra(fmt.Errorf("vacuous binding: a perturbed output / globals observation was accepted by Equiv_Trace.tla"))
		return
	}
	c.Cov("session_sabotage_rejected", true)
	c.Cov("session_cases", len(cases))
	for i, cs := range cases {
		v, ok := vs[i]
		if !ok {
			c.Infra(fmt.Errorf("no equivalence verdict for session case %d", i))
			return
		}
		if v.OK {
			c.AddTraces(1)
			continue
		}
		c.Fail(c15SessionSignature(cs), c15SessionWhat(cs), map[string]any{"check": "session", "stmts": cs.Stmts, "cuts": cs.Cuts, "line_mode": cs.LineMode, "origin": cs.Origin})
	}
}
