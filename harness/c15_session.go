package main

// C15, clause 3: every split of a script into consecutive chunks, fed chunk by chunk to ONE persistent session,
// shows what the whole script shows on a fresh session (spec/Chunking.tla generates the splits; spec/Equiv_Trace.tla
// decides the equivalence of the two recorded observation sequences).

import (
	"bytes"
	"context"
	"encoding/json"
	"fmt"
	"math/rand"
	"regexp"
	"strings"
	"time"

	"grol.io/grol/eval"
	"grol.io/grol/repl"
)

type c15SessObs struct {
	Out      string // what the program printed (State.Out), all inputs concatenated
	Err      bool   // some input reported an error, panicked or asked for a continuation
	ErrMsg   string
	Globals  string // State.SaveGlobals bytes at the end
	SaveErr  string
	Panicked bool
}

func c15JoinStmts(stmts []string) string {
	var sb strings.Builder
	for _, s := range stmts {
		sb.WriteString(s)
		sb.WriteString(";\n")
	}
	return sb.String()
}

// c15RunInputs feeds the inputs one after the other through repl.EvalOne to one fresh persistent state. The REPL's
// echo of each input's value goes to a separate writer: it is per input by construction and not part of the property.
func c15RunInputs(inputs []string, lineMode bool) c15SessObs {
	eval.VerifCacheOff = false
	s := eval.NewState()
	prog := &bytes.Buffer{}
	s.Out = prog
	s.LogOut = prog
	s.NoLog = true
	echo := &bytes.Buffer{}
	var o c15SessObs
	opt := repl.Options{All: !lineMode, ShowEval: true, NoColor: true, MaxDuration: 5 * time.Second}
	for _, in := range inputs {
		cont, panicked, errs, _ := repl.EvalOne(context.Background(), s, in, echo, opt)
		if (cont || panicked || len(errs) > 0) && !o.Err {
			o.Err = true
			switch {
			case panicked:
				o.Panicked = true
				o.ErrMsg = "panic: " + errHead(strings.Join(errs, "; "))
			case len(errs) > 0:
				o.ErrMsg = errHead(errs[0])
			default:
				o.ErrMsg = "continuation requested for a complete chunk"
			}
		}
	}
	o.Out = prog.String()
	var gb bytes.Buffer
	if _, err := s.SaveGlobals(&gb); err != nil {
		o.SaveErr = err.Error()
	}
	o.Globals = gb.String()
	return o
}

func (o c15SessObs) Equiv() []inObs {
	return []inObs{{Out: o.Out, Err: o.Err, Val: o.ErrMsg}, {Out: o.Globals, Err: o.SaveErr != "", Val: latin1(o.SaveErr)}}
}

func c15Chunks(stmts []string, cuts []int) []string {
	var res []string
	lo := 0
	for _, k := range cuts {
		res = append(res, c15JoinStmts(stmts[lo:k]))
		lo = k
	}
	return res
}

// ---------------------------------------------------------------------- scripts

var c15KindSrc = map[string]string{
	"set": "g = 1", "inc": "g = g + 1", "print": "println(g)",
	"def1": "f = func() {g + 10}", "def2": "f = func() {g + 20}", "call": "println(f())",
	"mdef1": "m = macro(x) {quote(unquote(x) + 100)}", "mdef2": "m = macro(x) {quote(unquote(x) + 200)}", "muse": "println(m(g))",
	"ret": "return", "err": `error("boom")`, "show": "println(f)", "mfun": "m = func(x) {x + 300}",
}

// c15KindSource: the grol source of an abstract statement; def1 / def2 are written in the script's form.
func c15KindSource(kind, form string) (string, bool) {
	switch kind {
	case "def1":
		if s := c15FormSrc(form, "f", "g", 10); s != "" {
			return s, true
		}
		return "", false
	case "def2":
		if s := c15FormSrc(form, "f", "g", 20); s != "" {
			return s, true
		}
		return "", false
	}
	s, ok := c15KindSrc[kind]
	return s, ok
}

var c15Macros = []struct{ name, def string }{
	{"mAdd", "mAdd = macro(x, y) {quote(unquote(x) + unquote(y) * 2)}"},
	{"mPick", "mPick = macro(c, t) {quote(if unquote(c) {unquote(t)} else {0 - 1})}"},
	{"mShow", `mShow = macro(e) {quote(println("m:", unquote(e)))}`},
	{"mTwice", "mTwice = macro(e) {quote([unquote(e), unquote(e)])}"},
}

// other templates for the same macro names (a redefinition between uses)
var c15MacrosAlt = map[string]string{
	"mAdd":   "mAdd = macro(x, y) {quote(unquote(x) * 3 + unquote(y))}",
	"mPick":  "mPick = macro(c, t) {quote(if unquote(c) {unquote(t) + 1} else {0 - 2})}",
	"mShow":  `mShow = macro(e) {quote(println("M2:", unquote(e)))}`,
	"mTwice": "mTwice = macro(e) {quote([unquote(e), 0, unquote(e)])}",
}

// c15GenScript: a random script of at most maxN top-level statements (functions, loops, prints, assignments to
// globals, macros defined before they are used, never redefined), no top-level return.
// redef reports that the script defines a macro name again, or defines a macro named like an earlier function, after
// a use of the name (every use still follows a definition).
func c15GenScript(r *rand.Rand, maxN int) (stmts []string, used map[string]bool, redef bool) {
	g := NewGen(r)
	g.PWrong = 2
	n := 2 + r.Intn(maxN-1)
	defined := []int{}
	intArg := func() string { return renderNode(g.expr(tInt, 2), precLowest, styleNormal) }
	forms := c15FormNames()
	var formFns []string
	lateDone := false
	for len(stmts) < n {
		switch p := r.Intn(15); {
		case p == 13 && len(defined) > 0:
			// the same macro name with another template, between uses
			i := defined[r.Intn(len(defined))]
			stmts = append(stmts, c15MacrosAlt[c15Macros[i].name])
			g.Used["macro-redefined"] = true
			redef = true
		case p == 14 && !lateDone:
			// a name that is a function first and a macro later
			lateDone = true
			stmts = append(stmts, "mLate = func(x) {x + 7}", fmt.Sprintf("println(mLate(%s))", intArg()),
				"mLate = macro(x) {quote(unquote(x) * 7)}", fmt.Sprintf("println(mLate(%s))", intArg()))
			g.Used["function-then-macro"] = true
			redef = true
		case p >= 10 && len(formFns) < 3:
			// a function written in one of the body forms of Chunking.tla (wherever the first macro definition falls)
			name := g.fresh("ff")
			formFns = append(formFns, name)
			stmts = append(stmts, c15FormSrc(forms[r.Intn(len(forms))], name, fmt.Sprint(r.Intn(20)), r.Intn(50)))
			g.Used["form-function"] = true
			if r.Intn(2) == 0 {
				break
			}
			fallthrough
		case p >= 9 && len(formFns) > 0:
			// ... observed as text and by its value
			name := formFns[r.Intn(len(formFns))]
			if r.Intn(3) > 0 {
				stmts = append(stmts, fmt.Sprintf("println(%s)", name))
				g.Used["function-text-printed"] = true
			} else {
				stmts = append(stmts, fmt.Sprintf("println(%s())", name))
			}
		case p < 2 && len(defined) < len(c15Macros):
			i := len(defined)
			defined = append(defined, i)
			stmts = append(stmts, c15Macros[i].def)
			g.Used["macro-def"] = true
		case p < 5 && len(defined) > 0:
			i := defined[r.Intn(len(defined))]
			g.Used["macro-use"] = true
			switch c15Macros[i].name {
			case "mAdd":
				stmts = append(stmts, fmt.Sprintf("println(mAdd(%s, %s))", intArg(), intArg()))
			case "mPick":
				stmts = append(stmts, fmt.Sprintf("println(mPick(%s > 0, %s))", intArg(), intArg()))
			case "mShow":
				stmts = append(stmts, fmt.Sprintf("mShow(%s)", intArg()))
			default:
				if r.Intn(2) == 0 {
					name := g.fresh("fm")
					stmts = append(stmts, fmt.Sprintf("%s = func(q) {mTwice(q + 1)}", name), fmt.Sprintf("println(%s(%s))", name, intArg()))
					g.Used["macro-in-function"] = true
				} else {
					stmts = append(stmts, fmt.Sprintf("println(mTwice(%s))", intArg()))
				}
			}
		default:
			for _, st := range g.stmt(nil) {
				stmts = append(stmts, renderNode(st.(J), 0, styleNormal))
			}
		}
	}
	if len(stmts) > maxN {
		stmts = stmts[:maxN]
	}
	return stmts, g.Used, redef
}

// ---------------------------------------------------------------------- the check

type c15SplitLine struct {
	Script []string `json:"script"`
	Form   string   `json:"form"`
	Kinds  []string `json:"kinds"` // node kinds Chunking.tla's FormTable claims for the form
	Cuts   []int    `json:"cuts"`
	Out    []int    `json:"out"`
	G      int      `json:"g"`
	F      int      `json:"f"`
	Err    bool     `json:"err"`
	// HoistSensitive(script): a macro definition follows a use of the name served by another definition / a function;
	// Hoisted = what the whole script prints when every definition of the chunk is collected first
	HoistSens bool  `json:"hoistsens"`
	Hoisted   []int `json:"hoisted"`
}

// c15ChunkCfg: relax names a dropped precondition ("errors", ...), dev the deviations of the implementation
// ("hoist-definitions", "copy-alters-text").
func c15ChunkCfg(kinds, forms []string, maxN, splitN int, relax string, dev []string, emit bool, invs string) string {
	quote := func(xs []string) string {
		q := make([]string, len(xs))
		for i, k := range xs {
			q[i] = `"` + k + `"`
		}
		return strings.Join(q, ", ")
	}
	rl := "{}"
	if relax != "" {
		rl = `{"` + relax + `"}`
	}
	e := "FALSE"
	if emit {
		e = "TRUE"
	}
	return fmt.Sprintf("CONSTANTS\n Kinds = {%s}\n MaxN = %d\n SplitN = %d\n Relax = %s\n Forms = {%s}\n Dev = {%s}\n EmitOn = %s\nINIT Init\nNEXT Next\nINVARIANTS %s\n",
		quote(kinds), maxN, splitN, rl, quote(forms), quote(dev), e, invs)
}

type c15SessCase struct {
	Stmts    []string
	Cuts     []int
	LineMode bool
	Origin   string
	Redef    bool // the script defines a macro after a use of the name that another definition / a function served
	A, B     c15SessObs
}

// the finding "macro definitions are hoisted over earlier uses"
const c15SigHoisted = "session-macro-definition-hoisted-over-earlier-use"

var c15MacroDefRe = regexp.MustCompile(`^[A-Za-z_][A-Za-z_0-9]* = macro\(`)

// c15ExplainedByHoisting: the whole script shows exactly what its statements show one at a time once every macro
// definition is moved to the front (in order) - i.e. the difference between the two ways of feeding is the collection
// of all definitions before anything is expanded, and nothing else.
func c15ExplainedByHoisting(cs c15SessCase) bool {
	var defs, rest []string
	for _, st := range cs.Stmts {
		if c15MacroDefRe.MatchString(st) {
			defs = append(defs, st)
		} else {
			rest = append(rest, st)
		}
	}
	if len(defs) == 0 {
		return false
	}
	h := append(defs, rest...)
	cuts := make([]int, len(h))
	for i := range cuts {
		cuts[i] = i + 1
	}
	a := c15RunInputs(c15Chunks(h, cuts), true)
	return !a.Err && !cs.A.Err && !cs.B.Err && a.Out == cs.B.Out && a.Globals == cs.B.Globals
}

func c15SessionSignature(cs c15SessCase) string {
	switch {
	case cs.Redef && c15ExplainedByHoisting(cs):
		return c15SigHoisted
	case cs.A.Panicked:
		return "session-chunked-panic"
	case cs.A.Err && strings.HasPrefix(cs.A.ErrMsg, "continuation"):
		return "session-complete-chunk-requests-continuation"
	case cs.A.Err:
		return "session-chunked-error"
	case cs.A.Out != cs.B.Out:
		return "session-chunked-output-differs"
	case cs.A.Globals != cs.B.Globals:
		return "session-chunked-globals-differ"
	}
	return "session-chunked-differs"
}

func c15SessionWhat(cs c15SessCase) string {
	return fmt.Sprintf("script %q split at %v (chunks in %s mode): chunked out=%q err=%v %q globals=%q | whole out=%q err=%v %q globals=%q",
		c15Short(c15JoinStmts(cs.Stmts)), cs.Cuts, map[bool]string{true: "line", false: "file"}[cs.LineMode],
		c15Short(cs.A.Out), cs.A.Err, cs.A.ErrMsg, c15Short(cs.A.Globals), c15Short(cs.B.Out), cs.B.Err, cs.B.ErrMsg, c15Short(cs.B.Globals))
}

// c15Sessions runs clause 3 on the finished Chunking GEN runs: emitted = all abstract statement kinds with the plain
// function body (every split; sampled in quick), emittedForms = the function-text kinds with every body form of
// Chunking.tla's FormTable (all replayed), emittedRedef = the kinds around one name that is a macro, another macro, a
// function (sampled in quick, except the scripts Chunking.tla calls HoistSensitive).
func c15Sessions(c *Ctx, emitted, emittedForms, emittedRedef string) {
	splits := map[int][][]int{} // n -> all splits of n statements (from TLC)
	seenSplit := map[string]bool{}
	var cases []c15SessCase
	var ecs []equivCase
	wholeCache := map[string]c15SessObs{}
	whole := func(stmts []string) c15SessObs {
		key := strings.Join(stmts, "\x00")
		if o, ok := wholeCache[key]; ok {
			return o
		}
		o := c15RunInputs([]string{c15JoinStmts(stmts)}, false)
		wholeCache[key] = o
		return o
	}
	addCase := func(stmts []string, cuts []int, lineMode bool, origin string, nontrivial, redef bool) {
		b := whole(stmts)
		a := c15RunInputs(c15Chunks(stmts, cuts), lineMode)
		cs := c15SessCase{Stmts: stmts, Cuts: cuts, LineMode: lineMode, Origin: origin, Redef: redef, A: a, B: b}
		ecs = append(ecs, equivCase{ID: len(cases), A: a.Equiv(), B: b.Equiv()})
		cases = append(cases, cs)
		c.Case(fmt.Sprint("session:", stmts, cuts, lineMode), nontrivial && len(cuts) > 1)
	}
	// a script that fails when it is evaluated at once is outside the precondition - unless the same statements, fed
	// one at a time, all succeed: then the two ways of feeding disagree on whether the script is error free at all
	// (every statement met the state the whole script would have given it), which is a difference in what is observed.
	wholeFailed := func(stmts []string, origin string) bool {
		cuts := make([]int, len(stmts))
		for i := range cuts {
			cuts[i] = i + 1
		}
		a := c15RunInputs(c15Chunks(stmts, cuts), true)
		c.Case(fmt.Sprint("session-failed-whole:", stmts), false)
		if a.Err || a.Panicked {
			return false
		}
		cs := c15SessCase{Stmts: stmts, Cuts: cuts, LineMode: true, Origin: origin, A: a, B: whole(stmts)}
		c.Fail("session-whole-fails-chunked-does-not", c15SessionWhat(cs), map[string]any{"check": "session", "stmts": stmts, "cuts": cuts, "line_mode": true, "origin": origin})
		return true
	}

	// 1. the model's scripts with every split, and the model's own prediction as a diagnostic
	modelDisagree, modelCases, modelSkipped, wholeHoists, hoistSensCases := 0, 0, 0, 0, 0
	var disagreeSample string
	stride := c.Pick(3, 1)
	nLine := 0
	formsChecked := map[string]bool{}
	failedSeen := map[string]bool{}
	formCases := map[string]int{}
	refText := map[string]string{} // (form, version) -> what println(f) shows on a session that never saw a macro
	textOf := func(form string, ver int) string {
		key := fmt.Sprint(form, ver)
		if t, ok := refText[key]; ok {
			return t
		}
		def, _ := c15KindSource(fmt.Sprint("def", ver), form)
		t := c15RunInputs([]string{c15JoinStmts([]string{def, "println(f)"})}, false).Out
		refText[key] = t
		return t
	}
	modelLine := func(everyLine bool, origin string) func(line []byte) error {
		return func(line []byte) error {
			var g c15SplitLine
			if err := json.Unmarshal(line, &g); err != nil {
				return fmt.Errorf("Chunking line %q: %w", line, err)
			}
			n := len(g.Script)
			key := fmt.Sprint(n, g.Cuts)
			if !seenSplit[key] {
				seenSplit[key] = true
				splits[n] = append(splits[n], g.Cuts)
			}
			if !formsChecked[g.Form] {
				formsChecked[g.Form] = true
				if err := c15CheckForm(g.Form, g.Kinds); err != nil {
					return err
				}
			}
			nLine++
			if !everyLine && (nLine+int(c.Seed))%stride != 0 && n <= 4 && !g.HoistSens {
				return nil
			}
			stmts := make([]string, n)
			hasDef := false
			for i, k := range g.Script {
				src, ok := c15KindSource(k, g.Form)
				if !ok {
					return fmt.Errorf("unknown abstract statement %q (form %q)", k, g.Form)
				}
				stmts[i] = src
				hasDef = hasDef || k == "def1" || k == "def2"
			}
			w := whole(stmts)
			if w.Err || w.Panicked {
				// the model calls it error free, the implementation does not: outside the property's precondition
				if k := strings.Join(stmts, "\x00"); !failedSeen[k] {
					failedSeen[k] = true
					modelSkipped++
					wholeFailed(stmts, origin)
				}
				return nil
			}
			render := func(out []int) string {
				var want strings.Builder
				for _, v := range out {
					if v >= 1000 { // Text(s): the text of definition (v - 1000) / 10 of f
						want.WriteString(textOf(g.Form, (v-1000)/10))
						continue
					}
					fmt.Fprintf(&want, "%d\n", v)
				}
				return want.String()
			}
			switch want := render(g.Out); {
			case want == w.Out:
			case g.HoistSens && render(g.Hoisted) == w.Out:
				wholeHoists++ // the whole script shows what Chunking.tla predicts for Dev = {"hoist-definitions"}
			default:
				modelDisagree++
				if disagreeSample == "" {
					disagreeSample = fmt.Sprintf("%q prints %q, predicted %q", stmts, w.Out, want)
				}
			}
			if g.HoistSens {
				hoistSensCases++
			}
			modelCases++
			if hasDef {
				formCases[g.Form]++
			}
			addCase(stmts, g.Cuts, nLine%2 == 0, origin, true, g.HoistSens)
			if modelCases%1500 == 1 {
				c.Sample(map[string]any{"abstract_script": g.Script, "form": g.Form, "source": stmts, "chunk_boundaries": g.Cuts, "predicted_output": g.Out})
			}
			return nil
		}
	}
	if err := c15SortedLines(emitted, modelLine(false, "model")); err != nil {
		c.Infra(err)
		return
	}
	for n := 1; n <= 8; n++ {
		if len(splits[n]) != 1<<(n-1) {
			c.Infra(fmt.Errorf("Chunking.tla emitted %d splits of %d statements, want %d", len(splits[n]), n, 1<<(n-1)))
			return
		}
	}
	if err := c15SortedLines(emittedForms, modelLine(true, "model-forms")); err != nil {
		c.Infra(err)
		return
	}
	if err := c15SortedLines(emittedRedef, modelLine(c.Thorough(), "model-redefinition")); err != nil {
		c.Infra(err)
		return
	}
	if hoistSensCases == 0 {
		c.Infra(fmt.Errorf("C15: Chunking.tla emitted no script in which a macro definition follows a use served by another definition"))
		return
	}
	c.Cov("model_scripts_definition_after_use", hoistSensCases)
	c.Cov("model_scripts_whole_shows_hoisting", wholeHoists)
	for _, fm := range c15FormNames() {
		if formCases[fm] == 0 {
			c.Infra(fmt.Errorf("C15: no replayed script uses the function body form %q (Chunking.tla FormTable and the harness' table differ)", fm))
			return
		}
	}
	c.Cov("model_scripts_replayed", modelCases)
	c.Cov("model_disagreement", modelDisagree)
	c.Cov("function_body_forms", len(formCases))
	c.Cov("function_body_form_cases", formCases)
	if modelDisagree > 0 {
		c.Note("%d model scripts print something else than Chunking.tla predicts (diagnostic, whole script), e.g. %s", modelDisagree, disagreeSample)
	}
	if modelSkipped > 0 {
		c.Note("%d model scripts are not error free on the implementation and were skipped", modelSkipped)
	}

	// 2. random scripts x splits from the model
	nScripts := c.Pick(40, 600)
	perScript := c.Pick(10, 1<<20)
	skippedErr, used, tries := 0, 0, 0
	feat := map[string]int{}
	for used < nScripts && tries < nScripts*6 {
		r := rand.New(rand.NewSource(c.Seed*7000003 + int64(tries)))
		tries++
		stmts, fu, redef := c15GenScript(r, 8)
		w := whole(stmts)
		if w.Err || w.Panicked || w.SaveErr != "" {
			skippedErr++
			if w.SaveErr == "" {
				wholeFailed(stmts, "random")
			}
			continue
		}
		used++
		for f := range fu {
			feat[f]++
		}
		n := len(stmts)
		all := splits[n]
		idx := r.Perm(len(all))
		if len(idx) > perScript {
			idx = idx[:perScript]
		}
		hasFinest := false
		for _, i := range idx {
			if len(all[i]) == n {
				hasFinest = true
			}
		}
		for j, i := range idx {
			addCase(stmts, all[i], (used+j)%2 == 0, "random", fu["func"] || fu["macro-use"] || fu["form-function"], redef)
		}
		if !hasFinest { // one statement at a time is what the property names
			for _, sp := range all {
				if len(sp) == n {
					addCase(stmts, sp, true, "random", true, redef)
				}
			}
		}
		if used%100 == 1 {
			c.Sample(map[string]any{"script": stmts, "splits_run": len(idx)})
		}
	}
	c.Cov("random_scripts", used)
	c.Cov("random_scripts_skipped_not_error_free", skippedErr)
	c.Cov("random_script_features", feat)
	if used < nScripts/2 {
		c.Infra(fmt.Errorf("C15: only %d of %d random scripts are error free", used, nScripts))
		return
	}

	// 3. pinned scripts (all splits): macro defined and used in one chunk vs in later chunks, memoized functions whose
	// callee or captured global changes between chunks, redefinition, output inside functions, loops at top level
	pinned := [][]string{
		{"m = macro(x) {quote(unquote(x) * 2)}", "println(m(3))", "a = m(4) + 1", "println(a)"},
		{"h = func(x) {x + 1}", "f = func(x) {h(x)}", "println(f(1))", "h = func(x) {x + 2}", "println(f(1))", "println(f(1))"},
		{"g = 1", `f = func(x) {println("in f", x); x + g}`, "println(f(1))", "g = 2", "println(f(1))", "println(f(1), f(1))"},
		{"LIMIT = 3", "f = func(x) {x + LIMIT}", "println(f(1))", "del(LIMIT)", "LIMIT = 4", "println(f(1))"},
		{"a = [1, 2, 3]", "b = a", "b[0] = 9", "println(a, b)", `m = {"k": a}`, "m.k = 2", "println(m)"},
		{"i = 0", "for i < 3 {i++; println(i)}", "for j = 2 {println(j + i)}", "func fact(n) {if n <= 1 {return 1}; n * fact(n - 1)}", "println(fact(5))"},
		{"c = 0", "next = func() {c = c + 1; c}", "println(next())", "println(next())", "x = next() + next()", "println(x, c)"},
		{"mk = func(v) {func(y) {y + v}}", "a1 = mk(1)", "a2 = mk(2)", "println(a1(5), a2(5))", "println(a1(5), a2(5))"},
		{"m2 = macro(a, b) {quote(unquote(a) - unquote(b))}", "f = func(x) {m2(x, 1)}", "println(f(5))", "println(m2(f(2), f(3)))"},
		{`s = "x"`, `s = s + "y"`, `println(s)`, "t = [s, s]", "println(t)", `// a comment`, "println(len(t))"},
		// function values read as text on both sides of the first macro definition (the whole script goes through the
		// expansion pass, the chunks in front of the definition do not)
		{"v = func(a, ..) {m = {\"n\": len(..), 1: [a, -a]}; m.n + m[1][0]}", "println(v)", "println(v(1, 2, 3))", "dbl = macro(x) {quote(unquote(x) * 2)}", "println(v)", "println(dbl(v(2)))", "w = v", "println(w == v, w)"},
		{"func cnt(n) {if n <= 0 {return 0} else {1 + cnt(n - 1)}}", "k = x => y => z => x + y + z", "println(cnt, k)", "un = macro(c, b) {quote(if !(unquote(c)) {unquote(b)})}", "println(un(false, k(1)(2)(3)))", "println(cnt(3), cnt, k(1))"},
	}
	// a macro call site that fails to expand (wrong number of arguments, a body that is not a quote) where the failure does not
	// stop the script: absorbed by catch(), in a function never called, in the branch not taken; the uses after it expand
	pinned = append(pinned,
		[]string{"inc = macro(x) {quote(unquote(x) + 1)}", "r = catch(inc(1, 2))", "println(r.err, inc(41))", "println(inc(6))"},
		[]string{"bad = macro(x) {1}", "ok = macro(x) {quote(unquote(x) * 2)}", "r = catch(bad(1))", "println(r.err, ok(21))", "println(ok(4))"},
		[]string{"inc = macro(x) {quote(unquote(x) + 1)}", "f = func() {inc(1, 2)}", "println(inc(1))", "g = func() {inc(5)}", "println(g())"},
		[]string{"inc = macro(x) {quote(unquote(x) + 1)}", "if false {inc()} else {println(inc(2))}", "println(inc(3))", "println(catch(inc()).err, inc(4))"},
	)
	// the same name defined again between uses (every use follows a definition): another macro template, a function
	// that becomes a macro, a macro that becomes a function, a function whose body was expanded by the first definition
	pinnedRedef := [][]string{
		{"m = macro(x) {quote(unquote(x) + 1)}", "println(m(1))", "m = macro(x) {quote(unquote(x) + 100)}", "println(m(1))"},
		{"t = func(x) {x + 3}", "println(t(1))", "t = macro(x) {quote(unquote(x) * 30)}", "println(t(1))", "println(t)"},
		{"u = macro(x) {quote(unquote(x) * 5)}", "println(u(2))", "u = func(x) {x - 1}", "println(u(2))", "println(u)"},
		{"w = macro(x) {quote(unquote(x) + 1)}", "h = func(y) {w(y)}", "println(h(1), h)", "w = macro(x) {quote(unquote(x) + 2)}", "println(h(1), h)", "k = func(y) {w(y)}", "println(k(1), k)"},
	}
	for pi, list := range [][][]string{pinned, pinnedRedef} {
		for _, stmts := range list {
			w := whole(stmts)
			if w.Err || w.Panicked {
				if wholeFailed(stmts, "pinned") {
					continue
				}
				c.Infra(fmt.Errorf("C15: pinned script %q is not error free: %s", stmts, w.ErrMsg))
				return
			}
			for i, sp := range splits[len(stmts)] {
				addCase(stmts, sp, i%2 == 0, "pinned", true, pi == 1)
			}
		}
	}

	// 3b. long flat scripts: what a parser accumulates over the statements of ONE input (nesting bookkeeping, positions) is
	// only seen with thousands of statements; one script per (way a statement ends, way the next one starts)
	{
		starts := []string{"[v]", "(v)", "-v", "{1: v}", "+v", "v", "!true", "v++", "f(v)", "v = v + 1"}
		ends := []string{"v = v + 1", "w = v * 1", "w = v < 1", "w = [v]", "w = f(v)", "v++", "w = (v)", "w = -v", "w = {1: v}[1]", "w = v"}
		ne, ns := 3, 5 // quick: the ends that leave an operator's operand last x the starts that could continue an expression
		if c.Thorough() {
			ne, ns = len(ends), len(starts)
		}
		for _, e := range ends[:ne] {
			for _, st := range starts[:ns] {
				long := []string{"v = 0", "f = func(x) {x}", "w = 0"}
				for i := 0; i < 5300; i++ {
					long = append(long, e, st)
				}
				long = append(long, "println(v, w)")
				// statements separated by newlines only (no `;`): where one statement ends is the parser's own decision
				var chunks []string
				for i := 0; i < len(long); i += 1000 {
					chunks = append(chunks, strings.Join(long[i:min(i+1000, len(long))], "\n")+"\n")
				}
				b := c15RunInputs([]string{strings.Join(long, "\n") + "\n"}, false)
				a := c15RunInputs(chunks, false)
				c.Case(fmt.Sprint("session-long:", e, "|", st), true)
				if b.Err || b.Panicked {
					if !a.Err && !a.Panicked {
						c.Fail("session-whole-fails-chunked-does-not", fmt.Sprintf("%d statements `%s` / `%s` separated by newlines fail as one input (%s) and succeed in chunks of 1000", len(long), e, st, clip(b.ErrMsg, 160)),
							map[string]any{"check": "session-long", "end": e, "start": st})
					}
					continue
				}
				cs := c15SessCase{Stmts: []string{"(long script)", e, st}, Cuts: []int{1000}, Origin: "long", A: a, B: b}
				ecs = append(ecs, equivCase{ID: len(cases), A: a.Equiv(), B: b.Equiv()})
				cases = append(cases, cs)
			}
		}
	}

	// 4. verdicts by Equiv_Trace.tla; a perturbed observation must be rejected (binding self-test)
	sab := c15SessObs{Out: cases[0].B.Out + "x", Globals: cases[0].B.Globals}
	ecs = append(ecs, equivCase{ID: len(cases), A: sab.Equiv(), B: cases[0].B.Equiv()})
	sab2 := c15SessObs{Out: cases[0].B.Out, Globals: cases[0].B.Globals + "zz=1\n"}
	ecs = append(ecs, equivCase{ID: len(cases) + 1, A: sab2.Equiv(), B: cases[0].B.Equiv()})
	vs, err := equivValidate(c, ecs)
	if err != nil {
		c.Infra(err)
		return
	}
	if vs[len(cases)].OK || vs[len(cases)+1].OK {
		c.Infra(fmt.Errorf("vacuous binding: a perturbed output / globals observation was accepted by Equiv_Trace.tla"))
		return
	}
	c.Cov("session_sabotage_rejected", true)
	c.Cov("session_cases", len(cases))
	for i, cs := range cases {
		v, ok := vs[i]
		if !ok {
			c.Infra(fmt.Errorf("no equivalence verdict for session case %d", i))
			return
		}
		if v.OK {
			c.AddTraces(1)
			continue
		}
		c.Fail(c15SessionSignature(cs), c15SessionWhat(cs), map[string]any{"check": "session", "stmts": cs.Stmts, "cuts": cs.Cuts, "line_mode": cs.LineMode, "origin": cs.Origin})
	}
}
