package main

// C01 small-scope exhaustive sets: operator pairs (both groupings, rendered with minimal
// parentheses from the spec's precedence table, so the real parser's grouping is part of what is
// compared), prefix/postfix/index/call interplay, scoping templates, loop forms x exits, calls.

import (
	"fmt"
	"strings"
)

type c01Case struct {
	Group string
	Prog  []any  // AST evaluated by the reference semantics
	Src   string // source text run on the real interpreter ("" = render Prog)
}

func operandTriples() [][3]J {
	return [][3]J{
		{nInt(7), nInt(3), nInt(2)},
		{nInt(2), nInt(5), nInt(12)},
		{nBool(true), nBool(false), nBool(true)},
		{nFloat(1.5), nInt(2), nFloat(0.5)},
		{nStr("a"), nStr("b"), nInt(2)},
		{nArr(nInt(1)), nArr(nInt(2)), nInt(3)},
	}
}

func c01SmallScope(full bool) []c01Case {
	var out []c01Case
	add := func(g string, stmts ...J) {
		p := make([]any, len(stmts))
		for i, s := range stmts {
			p[i] = s
		}
		out = append(out, c01Case{Group: g, Prog: p})
	}
	triples := operandTriples()
	if !full {
		triples = triples[:3]
	}
	// (a) every ordered pair of infix operators, both groupings
	for _, o1 := range ssInfix {
		for _, o2 := range ssInfix {
			for _, t := range triples {
				add("pair", nInf(o2, nInf(o1, t[0], t[1]), t[2]))
				add("pair", nInf(o1, t[0], nInf(o2, t[1], t[2])))
			}
		}
	}
	// prefix operators against every infix operator on either side; postfix / index / call against prefix
	for _, p := range []string{"-", "!", "~", "+"} {
		for _, o := range ssInfix {
			for _, t := range triples[:2] {
				add("prefix-infix", nInf(o, nPre(p, t[0]), t[1]))
				add("prefix-infix", nPre(p, nInf(o, t[0], t[1])))
				add("prefix-infix", nInf(o, t[0], nPre(p, t[1])))
			}
		}
		add("prefix-postfix", nAsg(false, nId("a"), nArr(nInt(4), nInt(5))), nPre(p, nIdx(nId("a"), nInt(1))))
		add("prefix-postfix", nAsg(false, nId("f"), nFn("", []string{"x"}, false, true, []any{nInf("+", nId("x"), nInt(1))})), nPre(p, nCall(nId("f"), nInt(2))))
		add("prefix-postfix", nAsg(false, nId("m"), nMap([2]J{nStr("k"), nInt(9)})), nPre(p, nDot(nId("m"), "k")))
		add("prefix-postfix", nAsg(false, nId("x"), nInt(3)), nInf("+", nPre(p, nPost("++", "x")), nId("x")))
		add("prefix-prefix", nPre(p, nPre("-", nInt(3))), nPre(p, nPre("!", nBool(true))))
	}
	for _, o := range ssInfix {
		// assignment and lambda against every infix operator
		add("assign-infix", nAsg(false, nId("x"), nInf(o, nInt(6), nInt(3))), nId("x"))
		add("assign-infix", nInf(o, nAsg(false, nId("x"), nInt(6)), nInt(3)), nId("x"))
		add("lambda-infix", nAsg(false, nId("f"), nFn("", []string{"a"}, false, true, []any{nInf(o, nId("a"), nInt(2))})), nCall(nId("f"), nInt(5)))
		add("index-infix", nAsg(false, nId("a"), nArr(nInt(4), nInt(5), nInt(6))), nInf(o, nIdx(nId("a"), nInt(0)), nIdx(nId("a"), nInt(-1))))
		add("call-infix", nAsg(false, nId("f"), nFn("", []string{"a"}, false, false, []any{nInf("*", nId("a"), nInt(2))})), nInf(o, nCall(nId("f"), nInt(3)), nCall(nId("f"), nInt(1))))
	}
	// (g) calls: arity, variadic, spread, self, immediately applied lambdas, lambda chains
	for n := 0; n <= 5; n++ {
		ps := make([]string, n)
		args := make([]J, n)
		sum := J(nInt(0))
		for i := range ps {
			ps[i] = fmt.Sprintf("p%d", i)
			args[i] = nInt(int64(i + 1))
			sum = nInf("+", sum, nInf("*", nId(ps[i]), nInt(int64(i+1))))
		}
		fn := nFn("", ps, false, false, []any{sum})
		add("call", nCall(fn, args...))
		add("call", nDot(nBi("catch", nCall(fn, append(args, nInt(9))...)), "err"))
		if n > 0 {
			add("call", nDot(nBi("catch", nCall(fn, args[1:]...)), "err"))
		}
		vps := append(append([]string{}, ps...), "..")
		vfn := nFn("", vps, true, false, []any{nBi("println", nId("..")), nInf("+", sum, nBi("len", nId("..")))})
		add("variadic", nCall(vfn, args...))
		add("variadic", nCall(vfn, append(append([]J{}, args...), nInt(7), nInt(8))...))
		add("variadic", nCall(vfn, append(append([]J{}, args...), nArr(nInt(7), nInt(8), nInt(9)))...))
		add("variadic", nCall(vfn, append(append([]J{}, args...), nInt(6), nArr(nInt(7)))...))
		add("variadic", nDot(nBi("catch", nCall(vfn, append(append([]J{}, args...), nArr())...)), "err"))
		if n > 0 {
			// exactly as many arguments as fixed parameters, the last one an (empty) array: it is spread into `..`
			add("variadic", nDot(nBi("catch", nCall(vfn, append(append([]J{}, args[1:]...), nArr())...)), "err"))
			add("variadic", nDot(nBi("catch", nCall(vfn, append(append([]J{}, args[1:]...), nArr(nInt(5)))...)), "err"))
			add("variadic", nDot(nBi("catch", nCall(vfn, append(append([]J{}, args[1:]...), nInf(":", nInt(1), nInt(1)))...)), "err"))
		}
	}
	return out
}

// c01Templates: scoping, closures, recursion, loop forms x exits, error/catch positions. Source text
// (the reference semantics evaluates the tree the real parser builds; the grouping is covered above).
func c01Templates() []string {
	t := []string{
		// scoping: = updates the nearest outer binding, := forces a local, reads walk outwards
		`x = 1; f = func() {x = 2; x}; println(f(), x)`,
		`x = 1; f = func() {x := 2; x}; println(f(), x)`,
		`x = 1; f = func() {y = x; x := 5; y + x}; println(f(), x)`,
		`f = func() {z = 3; z}; println(f(), catch(z).err)`,
		`x = 1; f = func() {g = func() {x = x + 1; x}; g() + g()}; println(f(), x)`,
		`x = 1; f = func(x) {x = x + 1; x}; println(f(10), x)`,
		`x = 1; f = func(x) {g = func() {x = x * 2; x}; g(); x}; println(f(5), x)`,
		`mk = func(n) {func() {n = n + 1; n}}; a = mk(10); b = mk(20); println(a(), a(), b(), a())`,
		`mk = func() {c = 0; func() {c++; c}}; a = mk(); println(a(), a(), a())`,
		`x = 1; if true {x = 2; y = 3}; println(x, y)`,
		`x = 1; for i = 2 {x = x + i; w = x}; println(x, w)`,
		`f = func() {if true {q = 1}; q}; println(f())`,
		`x = 5; f = func() {x++; x}; g = func() {--x}; println(f(), g(), x)`,
		`a = [1, 2]; f = func() {a[0] = 9; a}; println(f(), a)`,
		`m = {"k": 1}; f = func() {m.k = 2; m.z = 3; len(m)}; println(f(), m)`,
		`a = [1, 2]; f = func(p) {p[0] = 9; p}; println(f(a), a)`,
		`x = 1; f = func() {x = "s"}; f(); println(x)`,
		`x = 1; f = func() {del(x)}; println(f(), catch(x).err)`,
		`x = 1; f = func() {x := 2; del(x); x}; println(f(), x)`,
		// recursion (named, self, through a variable), state set by outer recursion levels
		`func fact(n) {if n <= 1 {return 1}; n * fact(n - 1)}; println(fact(10), fact(20))`,
		`f = func(n) {if n <= 1 {return 1}; n * self(n - 1)}; println(f(6))`,
		`f = func(n) {if n <= 1 {return 1}; n * f(n - 1)}; println(f(6))`,
		`func test(n) {if n == 2 {x = 1}; if n == 1 {return x}; test(n - 1)}; println(test(3))`,
		`func fib(n) {if n < 2 {return n}; fib(n - 1) + fib(n - 2)}; println(fib(15))`,
		`func even(n) {if n == 0 {return true}; odd(n - 1)}; func odd(n) {if n == 0 {return false}; even(n - 1)}; println(even(10), odd(7))`,
		`func count(n) {if n == 0 {return 0}; 1 + count(n - 1)}; println(count(50))`,
		// repeated calls: equal and different arguments, few and many of them (results must not be confused)
		`f = func(a, b, c, d, e) {a + b + c + d + e}; println(f(1, 2, 3, 4, 5), f(1, 2, 3, 4, 6), f(1, 2, 3, 4, 5), f(0, 2, 3, 4, 5))`,
		`v = func(..) {len(..)}; println(v(1, 2, 3, 4, 5), v(1, 2, 3, 4, 5, 6), v(1, 2, 3, 4), v())`,
		`g = func(a, b, c, d, e, f) {println("in", f); a * f}; println(g(1, 2, 3, 4, 5, 6)); println(g(1, 2, 3, 4, 5, 7)); println(g(1, 2, 3, 4, 5, 6))`,
		`h = func(a, b) {println("h", a, b); a - b}; println(h(1, 2), h(2, 1), h(1, 2), h(1.0, 2), h("1", 2) == nil)`,
		`k = func(x) {x}; println(k(1), k(1.0), k("1"), k([1]), k({1: 1}), k(nil), k(true), k(0.0), k(-0.0), 1 / k(0.0), 1 / k(-0.0))`,
		// functions as values
		`twice = func(f, x) {f(f(x))}; println(twice(x => x * 3, 2), twice(func(s) {s + "!"}, "a"))`,
		`compose = (f, g) => x => f(g(x)); h = compose(x => x + 1, x => x * 2); println(h(5))`,
		`fs = [x => x + 1, x => x * 2]; println(fs[0](3), fs[1](3))`,
		`m = {"inc": x => x + 1}; println(m.inc(3), m["inc"](4))`,
		`println((x => x * x)(7), (func(a, b) {a - b})(1, 2), (() => 5)())`,
		`func named(a) {a + 1}; g = named; println(g(1), named == g)`,
		`f = func() {return}; println(f(), f() == nil)`,
		`f = func() {}; println(f())`,
		`f = func(a) {if a {return "t"}; "f"}; println(f(true), f(false))`,
		// error and catch at each position
		`println(catch(1 + "a").err, catch(1 + 1).value)`,
		`f = func() {error("boom"); println("not reached")}; println(catch(f()).err)`,
		`f = func() {println("side"); 1 + nil}; r = catch(f()); println(r.err)`,
		`x = [1, 2 + "a", 3]`,
		`x = {"a": 1, "b": nil + 1}`,
		`f = func(a, b) {a}; f(1, 1 / 0)`,
		`println("before"); error("stop", 1, 2.5); println("after")`,
		`r = catch(error("msg", 42)); println(r.err, r.value)`,
		`for i = 3 {if i == 1 {error("in loop")}; println(i)}`,
		`println(catch(undefined_name).err, catch(len(1, 2)).err, catch(len()).err)`,
		`e = catch(catch(1 / 0)); println(e.err, e.value.err)`,
		// short-circuit
		`x = 0; false && x++ > 0; true || x++ > 0; println(x); true && x++ > 0; false || x++ > 0; println(x)`,
		`println(1 && true, nil || false, "a" && "b", true && 1)`,
		// ++ / --
		`x = 1; println(x++, x, ++x, x, x--, x, --x, x); y = 1.5; y++; println(y)`,
		`s = "a"; println(catch(s++).err, catch(++s).err, catch(undefined++).err)`,
		// indexing and slicing
		`a = [10, 20, 30]; println(a[0], a[-1], a[3], a[-4], a[nil], a[1:], a[0:2], a[-2:], a[1:1], catch(a[2:1]).err)`,
		`s = "héllo"; println(s[0], s[1], s[-1], s[9], s[1:3], s[-3:], len(s), first(s), rest(s))`,
		`m = {"b": 2, "a": 1, 3: "x", 1.5: true}; println(m, m.a, m["b"], m[3], m[1.5], m.zz, len(m), first(m), rest(m), m[1:3])`,
		`println(nil[0], nil[1:2], len(nil), first(nil), rest(nil), first([]), rest([1]), first(""), rest("a"))`,
		`m = {1: "int"}; m[1.0] = "float"; println(m, len(m))`,
		// values printed by print / println
		`print(1, "two", 3.0, 2.5, true, nil, [1, "a"], {"k": "v"}); println(); println(-0.0, 1e21, 1e-7, 0.1 + 0.2, 1 / 3.0)`,
		`println("a\tb", "q\"q", ["a\tb"], {"k\n": "v"})`,
		// constants
		`PI2 = 6.28; println(catch(PI2 = 1).err, PI2); PI2 = 6.28; println(PI2)`,
		// integers
		`println(9223372036854775807 + 1, -9223372036854775807 - 2, 9223372036854775807 * 2, 7 / -2, -7 % 3, 7 % -3, 1 << 62, 1 << 63, 1 << 64, -1 >> 1, -1 >> 63, 6 & 3, 6 | 3, 6 ^ 3, ~6, ^6)`,
		`println(1 + 2.5, 2 * 0.5, 7 / 2.0, 7.5 % 2, 2 - 0.5, 1 == 1.0, 1 < 1.5, [1] == [1.0])`,
	}
	// (d) every for form x every way out, nesting 1..2, at top level and inside a function
	forms := []struct{ head, v string }{
		{"for 3", ""}, {"for i = 3", "i"}, {"for i := 3", "i"}, {"for i = 1:4", "i"}, {"for x = [5, 6, 7]", "x"},
		{`for c = "abc"`, "c"}, {`for kv = {"a": 1, "b": 2, "c": 3}`, "kv.key"},
	}
	exits := map[string]string{"end": "n = n + 0", "break": "if n == 2 {break}", "continue": "if n == 2 {continue}", "return": "if n == 2 {return 99}", "error": `if n == 2 {error("out")}`}
	for _, f := range forms {
		for name, ex := range exits {
			pv := `"-"`
			if f.v != "" {
				pv = f.v
			}
			body := fmt.Sprintf(`n = n + 1; %s; println("b", n, %s); n * 10`, ex, pv)
			if name == "return" {
				t = append(t, fmt.Sprintf(`n = 0; f = func() {r = %s {%s}; println("after", r); r}; println(f(), n)`, f.head, body))
				continue
			}
			t = append(t, fmt.Sprintf(`n = 0; r = %s {%s}; println("after", r, n)`, f.head, body))
			t = append(t, fmt.Sprintf(`n = 0; f = func() {r = %s {%s}; println("after", r); r}; println(catch(f()).err, n)`, f.head, body))
			// nested: the exit applies to the inner loop only
			t = append(t, fmt.Sprintf(`n = 0; for k = 2 {n = 0; r = %s {%s}; println("inner", r)}; println("done", n)`, f.head, body))
		}
	}
	// condition form with an explicit counter
	for name, ex := range exits {
		if name == "return" {
			t = append(t, fmt.Sprintf(`f = func() {n = 0; for n < 4 {n++; %s; println(n)}; n}; println(f())`, ex))
			continue
		}
		t = append(t, fmt.Sprintf(`n = 0; r = for n < 4 {n++; %s; println(n); n}; println(r)`, ex))
	}
	// loop bound / source / condition is an outer variable seen from inside a function
	t = append(t,
		`k = 3; f = func() {s = 0; for i = k {s = s + i}; s}; println(f())`,
		`k = 3; f = func() {s = 0; for k {s++}; s}; println(f())`,
		`a = [1, 2, 3]; f = func() {s = 0; for x = a {s = s + x}; s}; println(f())`,
		`lo = 1; hi = 4; f = func() {s = 0; for i = lo:hi {s = s + i}; s}; println(f())`,
		`t = true; f = func() {if t {1} else {2}}; println(f())`,
		`go = true; f = func() {n = 0; for go {n++; if n == 3 {go = false}}; n}; println(f(), go)`,
		`str = "xyz"; f = func() {r = ""; for c = str {r = c + r}; r}; println(f())`,
		`println(for 0 {1}, for i = 0 {1}, catch(for -1 {1}).err, catch(for "a" {1}).err, catch(for 1.5 {1}).err)`,
	)
	// a container modified, handed to another holder without a plain assignment, modified again: the holder keeps its value
	for _, init := range []string{"1:12", "[1, 2, 3]", "0:9", `{"a": 1, "b": 2, "c": 3, "d": 4, "e": 5}`, `{"a": 1}`} {
		k0 := "0"
		if strings.HasPrefix(init, "{") {
			k0 = `"a"`
		}
		for _, stash := range []string{"m.k = a", "h[0] = a", "for x = [a] {h[1] = x}", "h = h + [a]", "m = m + {\"k\": a}", "g(a)"} {
			t = append(t, fmt.Sprintf(`m = {}; h = [0, 0]; g = func(p) {h[0] = p}; a = %s; a[%s] = 100; %s; a[%s] = 200; println(a, m, h)`, init, k0, stash, k0))
			t = append(t, fmt.Sprintf(`f = func() {m = {}; h = [0, 0]; g = func(p) {h[0] = p}; a = %s; a[%s] = 100; %s; a[%s] = 200; [a, m, h]}; println(f())`, init, k0, stash, k0))
		}
	}
	// a function called again after something it depends on was rebound in every possible way (the result must be recomputed)
	for _, change := range []string{"f = x => x * 11", "f := x => x * 11", "del(f); f = x => x * 11", "func f(x) {x * 11}", "set = func() {f = x => x * 11}; set()",
		"set = func() {old = f; f = x => old(x) * 11; old(0)}; set()", "k = 5", "k := 5", "k++", "set = func() {k = 5}; set()", "set = func() {t = k; k = t + 4; t}; set()"} {
		t = append(t, fmt.Sprintf(`k = 1; f = x => x + 1; g = x => [f(x), f(x + k)]; println(g(1)); %s; println(g(1), g(1))`, change))
		t = append(t, fmt.Sprintf(`k = 1; f = x => x + 1; g = x => f(x) * 2; a = g(1); %s; b = g(1); println(a, b, g(1), g(2))`, change))
		t = append(t, fmt.Sprintf(`k = 1; func f(x) {x + 1}; func g(x) {f(x) * 2}; println(g(1)); %s; println(g(1))`, change))
		t = append(t, fmt.Sprintf(`k = 1; f = x => x + 1; g = x => [f(x), f(x + k)]; h = func(n) {r = []; for i = n {r = r + g(i)}; r}; println(h(2)); %s; println(h(2))`, change))
	}
	// comparison, equality and map-key use of containers NESTING values on both sides of the size thresholds (a small array
	// holding a large array, a large map, a function ...): every representation pair must compare structurally
	inner := []string{"[1, 2, 3, 4, 5, 6, 7, 8, 9]", "0:9", "{1: 1, 2: 2, 3: 3, 4: 4, 5: 5}", "(x => x)", "[0:9]", "{1: 0:9}", "[1, 2]", "{1: 1}", `"s"`, "1.5", "nil", "[]", "{}", "[(x => x), 0:9]"}
	for i, a := range inner {
		for _, wrap := range []string{"[%s]", "[1, %s]", "{1: %s}", "[[%s]]", "[%s, %s]"} {
			w := strings.ReplaceAll(wrap, "%s", a)
			t = append(t, fmt.Sprintf(`a = %s; b = %s; println(a == b, a != b, a < b, a <= b, catch(a == a).value)`, w, w))
			if !strings.Contains(a, "=>") {
				t = append(t, fmt.Sprintf(`a = %s; m = {a: 1}; println(m[a], m[%s], len(m + {%s: 2}))`, w, w, w))
			}
			o := strings.ReplaceAll(wrap, "%s", inner[(i+1)%len(inner)])
			t = append(t, fmt.Sprintf(`a = %s; b = %s; println(a == b, a < b, b < a, a <= b, a >= b)`, w, o))
		}
	}
	return t
}

func c01SmallCases(full bool) []c01Case {
	cs := c01SmallScope(full)
	for _, s := range smallScopePrograms(full) {
		cs = append(cs, c01Case{Group: "matrix-" + s.Group, Prog: s.Prog})
	}
	for _, src := range c01Templates() {
		cs = append(cs, c01Case{Group: "template", Src: strings.TrimSpace(src)})
	}
	for _, src := range interactionPrograms() {
		cs = append(cs, c01Case{Group: "interaction", Src: src})
	}
	return cs
}
